#!/usr/bin/env python3
"""trace.py workdir id — print a readable per-round summary of a composite case from its Coq term (rough)."""
import sys,re,json
work,cid=sys.argv[1],sys.argv[2]
for l in open(work+'/cases.jsonl'):
    r=json.loads(l)
    if r['id']==cid:
        print(json.dumps(r['case'].get('features')), r['case'].get('results'))
