#!/usr/bin/env python3
"""mkprops.py ID header.txt name1 name2 ... — generate Properties/ID.v from proved lemmas:
each statement is printed by Coq (About/Check) and restated verbatim, closed by `exact`."""
import subprocess, sys, re, os
COQ = os.path.join(os.path.dirname(os.path.dirname(os.path.abspath(__file__))), "coq")
pid, header = sys.argv[1], sys.argv[2]
items = sys.argv[3:]
hdr = open(header).read()
script = hdr + "\nSet Printing Width 110.\nSet Printing Depth 1000.\n"
for it in items:
    src = it.split("=")[-1]
    script += 'Check @%s.\n' % src
p = subprocess.run(["coqtop", "-Q", ".", "MC", "-quiet"], input=script, cwd=COQ, capture_output=True, text=True)
out = p.stdout
# split outputs per Check: each starts with "name\n     : type" 
chunks = re.split(r"\n(?=\S+\n\s+: )", "\n" + out)
stmts = {}
for ch in chunks:
    m = re.match(r"\s*@?(\S+)\n\s+: (.*)", ch, re.S)
    if m:
        stmts[m.group(1)] = re.sub(r"\n\s*Coq <.*", "", m.group(2), flags=re.S).strip()
body = hdr + "\n"
for it in items:
    if "=" in it:
        new, src = it.split("=")
    else:
        new = src = it
    short = src.split(".")[-1]
    st = stmts.get(src) or stmts.get(short)
    if st is None:
        sys.stderr.write("no statement for %s\n%s\n" % (src, out[-2000:]))
        sys.exit(1)
    body += "Theorem %s :\n  %s.\nProof. exact (@%s). Qed.\nPrint Assumptions %s.\n\n" % (new, st.replace("\n", "\n  "), src, new)
sys.stdout.write(body)
