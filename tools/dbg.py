#!/usr/bin/env python3
"""dbg.py WORKDIR CASEID ROUND — show where model and implementation calls differ (composite cases)."""
import sys, subprocess, glob, re, os
work, cid, rnd = sys.argv[1], sys.argv[2], sys.argv[3]
for f in sorted(glob.glob(os.path.join(work, "cases_*.v"))):
    src = open(f).read()
    if ("Definition %s :=" % cid) in src:
        end = src.index('Eval vm_compute in ("%s"' % cid)
        pre = re.sub(r'Eval vm_compute in \("s\d+".*?\)\.\n', '', src[:end])
        pre = re.sub(r'Eval vm_compute in \("k\d+".*?\)\.\n', '', pre)
        dbg = '''
Definition dbg2 (c : ccase) (i : nat) :=
  match nth_error (c_rounds c) i with
  | None => []
  | Some r =>
      let '(hist, res) := run (sync_r (c_cfg c) (r_cache r)) (env_of_log (r_events r)) [] in
      let mcalls := map fst (rev hist) in
      let icalls := map e_call (r_events r) in
      flat_map (fun ic => let ms := calls_for (call_key ic) mcalls in let is_ := calls_for (call_key ic) icalls in
                 if (if is_hook_call ic then calls_perm_eqb ms is_ else calls_eqb ms is_) then [] else [(call_key ic, ms, is_)]) icalls
  end.
Definition dbgk (c : ccase) (i : nat) :=
  match nth_error (c_rounds c) i with
  | None => ([], [], SDone)
  | Some r =>
      let '(hist, res) := run (sync_r (c_cfg c) (r_cache r)) (env_of_log (r_events r)) [] in
      (map (fun p => call_key (fst p)) (rev hist), map (fun e => call_key (e_call e)) (r_events r), res)
  end.
Eval vm_compute in (dbgk %s %s).
Eval vm_compute in (dbg2 %s %s).
''' % (cid, rnd, cid, rnd)
        open("/tmp/dbgcase.v", "w").write(pre + dbg)
        out = subprocess.run(["coqc", "-Q", "/verif/coq", "MC", "/tmp/dbgcase.v"], capture_output=True, text=True, cwd="/tmp").stdout
        print(out[-int(sys.argv[4]) if len(sys.argv) > 4 else -6000:])
        for x in glob.glob("/tmp/dbgcase.*") + glob.glob("/tmp/.dbgcase.aux"):
            os.remove(x)
        break
