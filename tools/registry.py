# Per-property configuration of tools/check.
PROPS = {
    "C05": {
        "pkg": "./pkg/dynamic/apply/",
        "run": "^TestVerif_C05$",
        "n": {"quick": 1500, "thorough": 20000},
        "rule": "correlated (observed,last-applied,desired) triples from one PRNG (7/8 well-formed, 1/8 hostile: duplicate or conflicting list-map keys, non-object items) after a hand-written corpus; distinct = different Coq case term; non-trivial = the three inputs pairwise different and depth >= 2",
        "trusted_base": ["merge-key values that are floats or containers are outside the modelled domain (fmt %v text)"],
        "assumptions": ["json.Unmarshal(json.Marshal v) = v on well-formed values (JText stands for the serialised last-applied record)"],
    },
    "C02": {
        "pkg": "./pkg/controller/composite/",
        "run": "^TestVerif_Composite$",
        "env": {"VERIF_PROP": "C02"},
        "n": {"quick": 150, "thorough": 2000},
        "rule": "generated composite scenarios (parent, hook program, population of owned/orphaned/foreign/look-alike objects, 1-3 syncs); non-trivial = at least one accepted write; distinct = different projected trace signature",
    },
    "C03": {
        "pkg": "./pkg/controller/composite/",
        "run": "^TestVerif_Composite$",
        "env": {"VERIF_PROP": "C03"},
        "n": {"quick": 200, "thorough": 3000},
        "rule": "composite scenarios over owned/orphaned/foreign/other-namespace/deleting objects x parent scope x generated selector; non-trivial = at least one accepted write; non-trivial = at least one accepted write; distinct = different projected trace signature",
    },
    "C04": {
        "pkg": "./pkg/controller/composite/",
        "run": "^TestVerif_Composite$",
        "env": {"VERIF_PROP": "C04"},
        "n": {"quick": 200, "thorough": 3000},
        "rule": "composite scenarios with orphans to adopt and children to release, world edits after the cache was taken or between requests, deleting/recreated parents; non-trivial = at least one accepted write; distinct = different projected trace signature",
    },
    "C06": {
        "pkg": "./pkg/controller/composite/",
        "run": "^TestVerif_Composite$",
        "env": {"VERIF_PROP": "C06"},
        "n": {"quick": 200, "thorough": 3000},
        "rule": "composite scenarios with every update method x equal/drifted children; non-trivial = at least one accepted write; distinct = different projected trace signature",
    },
    "C10": {
        "pkg": "./pkg/controller/composite/",
        "run": "^TestVerif_Composite$",
        "env": {"VERIF_PROP": "C10"},
        "n": {"quick": 200, "thorough": 3000},
        "rule": "parent life cycles (delete with background/foreground/orphan propagation, unmatch, foreign finalizers) x finalize hook on/off x faults; non-trivial = at least one accepted write; distinct = different projected trace signature",
    },
    "C11": {
        "pkg": "./pkg/controller/composite/",
        "run": "^TestVerif_Composite$",
        "env": {"VERIF_PROP": "C11"},
        "n": {"quick": 200, "thorough": 3000},
        "rule": "hook status values x live parent edited/recreated after the cache x faults on any request; non-trivial = at least one accepted write; distinct = different projected trace signature",
    },
}
