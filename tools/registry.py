# Per-property configuration of tools/check.
PROPS = {
    "C05": {
        "pkg": "./pkg/dynamic/apply/",
        "run": "^TestVerif_C05$",
        "n": {"quick": 1500, "thorough": 20000},
        "rule": "correlated (observed,last-applied,desired) triples from one PRNG (7/8 well-formed, 1/8 hostile: duplicate or conflicting list-map keys, non-object items) after a hand-written corpus; distinct = different Coq case term; non-trivial = the three inputs pairwise different and depth >= 2",
        "trusted_base": ["merge-key values that are floats or containers are outside the modelled domain (fmt %v text)"],
        "assumptions": ["json.Unmarshal(json.Marshal v) = v on well-formed values (JText stands for the serialised last-applied record)"],
    },
    "C02": {
        "pkg": "./pkg/controller/composite/",
        "run": "^TestVerif_Composite$",
        "env": {"VERIF_PROP": "C02"},
        "n": {"quick": 150, "thorough": 2000},
        "rule": "generated composite scenarios (parent, hook program, population of owned/orphaned/foreign/look-alike objects, 1-3 syncs); non-trivial = at least one accepted write; distinct = different projected trace signature",
    },
}
