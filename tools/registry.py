# Per-property configuration of tools/check.
PROPS = {
    "C05": {
        "pkg": "./pkg/dynamic/apply/",
        "run": "^TestVerif_C05$",
        "n": {"quick": 1500, "thorough": 20000},
        "rule": "correlated (observed,last-applied,desired) triples from one PRNG (7/8 well-formed, 1/8 hostile: duplicate or conflicting list-map keys, non-object items) after a hand-written corpus; distinct = different Coq case term; non-trivial = the three inputs pairwise different and depth >= 2",
        "trusted_base": ["merge-key values that are floats or containers are outside the modelled domain (fmt %v text)"],
        "assumptions": ["json.Unmarshal(json.Marshal v) = v on well-formed values (JText stands for the serialised last-applied record)"],
    },
}
