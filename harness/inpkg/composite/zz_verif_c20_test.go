package composite

// Harness of property C20 (composite side): drives the REAL
// Metacontroller.Reconcile of this package through histories of create /
// spec-changing update / no-op update / delete events of CompositeController
// objects, over the simulated API server and the scripted hook transport,
// and records what happened after every event.
//
// The part between "generic" markers is flavour independent and is copied
// verbatim into the decorator package's zz_verif_c20d_world_test.go.

import (
	"context"
	"encoding/json"
	"fmt"
	"net/url"
	"os"
	"reflect"
	"sort"
	"strconv"
	"strings"
	"sync"
	"sync/atomic"
	"testing"
	"time"
	"unsafe"

	"github.com/go-logr/logr"
	apiextensionsv1 "k8s.io/apiextensions-apiserver/pkg/apis/apiextensions/v1"
	apierrors "k8s.io/apimachinery/pkg/api/errors"
	metav1 "k8s.io/apimachinery/pkg/apis/meta/v1"
	"k8s.io/apimachinery/pkg/runtime/schema"
	"k8s.io/apimachinery/pkg/types"
	k8sjson "k8s.io/apimachinery/pkg/util/json"
	utilruntime "k8s.io/apimachinery/pkg/util/runtime"
	"k8s.io/client-go/tools/cache"
	"sigs.k8s.io/controller-runtime/pkg/client"
	"sigs.k8s.io/controller-runtime/pkg/reconcile"

	"metacontroller/pkg/apis/metacontroller/v1alpha1"
	mclisters "metacontroller/pkg/client/generated/lister/metacontroller/v1alpha1"
	"metacontroller/pkg/controller/common"
	dynamicinformer "metacontroller/pkg/dynamic/informer"
	vh "metacontroller/pkg/internal/verifh"
)

// ======================= flavour specific: composite ===========================

const c20Flavor = "Composite"
const c20Prop = "C20"

// c20Client is the k8sClient of the Metacontroller: Get for the two types the
// Reconcile loop reads; every other method is absent (nil embedded interface).
type c20Client struct {
	client.Client
	mu      sync.Mutex
	objs    map[string]*v1alpha1.CompositeController
	crds    map[string]*apiextensionsv1.CustomResourceDefinition
	failGet map[string]bool
}

func (c *c20Client) Get(ctx context.Context, key client.ObjectKey, obj client.Object, opts ...client.GetOption) error {
	c.mu.Lock()
	defer c.mu.Unlock()
	switch o := obj.(type) {
	case *v1alpha1.CompositeController:
		if c.failGet[key.Name] {
			return apierrors.NewInternalError(fmt.Errorf("simulated read failure"))
		}
		if cc, ok := c.objs[key.Name]; ok {
			cc.DeepCopyInto(o)
			return nil
		}
		return apierrors.NewNotFound(schema.GroupResource{Group: "metacontroller.k8s.io", Resource: "compositecontrollers"}, key.Name)
	case *apiextensionsv1.CustomResourceDefinition:
		if crd, ok := c.crds[key.Name]; ok {
			crd.DeepCopyInto(o)
			return nil
		}
		return apierrors.NewNotFound(schema.GroupResource{Group: "apiextensions.k8s.io", Resource: "customresourcedefinitions"}, key.Name)
	}
	return fmt.Errorf("c20Client: unexpected type %T", obj)
}

// c20Host wraps the real Metacontroller of this package.
type c20Host struct {
	mc  *Metacontroller
	cli *c20Client
}

func c20NewHost(w *cworld) *c20Host {
	cli := &c20Client{objs: map[string]*v1alpha1.CompositeController{}, crds: map[string]*apiextensionsv1.CustomResourceDefinition{}, failGet: map[string]bool{}}
	revIndexer := cache.NewIndexer(cache.MetaNamespaceKeyFunc, cache.Indexers{cache.NamespaceIndex: cache.MetaNamespaceIndexFunc})
	mc := &Metacontroller{
		k8sClient:         cli,
		resources:         w.resources,
		dynClient:         w.dynClient,
		dynInformers:      dynamicinformer.NewSharedInformerFactory(w.dynClient, time.Hour),
		eventRecorder:     vh.NoopRecorder{},
		mcClient:          w.mcClient,
		revisionLister:    mclisters.NewControllerRevisionLister(revIndexer),
		parentControllers: map[string]*parentController{},
		numWorkers:        1,
		ssaOptions:        &common.ApplyOptions{FieldManager: "metacontroller", Strategy: common.ApplyStrategyDynamicApply},
		logger:            logr.Discard(),
	}
	return &c20Host{mc: mc, cli: cli}
}

func (h *c20Host) reconcile(realName string) error {
	_, err := h.mc.Reconcile(context.Background(), reconcile.Request{NamespacedName: types.NamespacedName{Name: realName}})
	return err
}

func (h *c20Host) factory() *dynamicinformer.SharedInformerFactory { return h.mc.dynInformers }

// instances: real name -> (identity of the instance value, resync marker of its spec)
func (h *c20Host) instances() map[string]c20InstInfo {
	out := map[string]c20InstInfo{}
	for n, pc := range h.mc.parentControllers {
		info := c20InstInfo{ptr: uintptr(unsafe.Pointer(pc))}
		if pc.cc.Spec.ResyncPeriodSeconds != nil {
			info.specID = int(*pc.cc.Spec.ResyncPeriodSeconds) - c20ResyncBase
		}
		out[n] = info
	}
	return out
}

func (h *c20Host) setFail(realName string, fail bool) {
	h.cli.mu.Lock()
	defer h.cli.mu.Unlock()
	h.cli.failGet[realName] = fail
}

func (h *c20Host) remove(realName string) {
	h.cli.mu.Lock()
	defer h.cli.mu.Unlock()
	delete(h.cli.objs, realName)
}

// apply stores the controller object built from s and sets what the CRD lookup will see.
func (h *c20Host) apply(realName, short string, s *c20Spec, crd string, touch int) {
	cc := &v1alpha1.CompositeController{
		TypeMeta:   metav1.TypeMeta{APIVersion: "metacontroller.k8s.io/v1alpha1", Kind: "CompositeController"},
		ObjectMeta: metav1.ObjectMeta{Name: realName, Labels: map[string]string{"touch": strconv.Itoa(touch)}, Generation: int64(s.ID)},
	}
	p := s.Parents[0]
	cc.Spec.ParentResource.APIVersion = p.APIVersion
	cc.Spec.ParentResource.Resource = p.Resource
	cc.Spec.ParentResource.LabelSelector = c20Selector(short, p.BadSelector)
	gs := true
	cc.Spec.GenerateSelector = &gs
	rs := int32(c20ResyncBase + s.ID)
	cc.Spec.ResyncPeriodSeconds = &rs
	for _, k := range s.Children {
		rule := v1alpha1.CompositeControllerChildResourceRule{}
		rule.APIVersion = k.APIVersion
		rule.Resource = k.Resource
		if k.Strategy != "" {
			rule.UpdateStrategy = &v1alpha1.CompositeControllerChildUpdateStrategy{Method: v1alpha1.ChildUpdateMethod(k.Strategy)}
		}
		cc.Spec.ChildResources = append(cc.Spec.ChildResources, rule)
	}
	if !s.NoHooks {
		cc.Spec.Hooks = &v1alpha1.CompositeControllerHooks{
			Sync:      c20Hook(realName, s.ID, "sync", s.Sync),
			Finalize:  c20Hook(realName, s.ID, "finalize", s.Finalize),
			Customize: c20Hook(realName, s.ID, "customize", s.Customize),
		}
	}
	h.cli.mu.Lock()
	defer h.cli.mu.Unlock()
	h.cli.objs[realName] = cc
	// the parent's CRD as the lookup will find it
	gv, err := schema.ParseGroupVersion(p.APIVersion)
	if err != nil {
		return
	}
	crdName := p.Resource + "." + gv.Group
	switch crd {
	case "missing":
		delete(h.cli.crds, crdName)
	default:
		ver := apiextensionsv1.CustomResourceDefinitionVersion{Name: gv.Version, Served: true, Storage: true}
		if crd != "nostatus" {
			ver.Subresources = &apiextensionsv1.CustomResourceSubresources{Status: &apiextensionsv1.CustomResourceSubresourceStatus{}}
		}
		h.cli.crds[crdName] = &apiextensionsv1.CustomResourceDefinition{
			ObjectMeta: metav1.ObjectMeta{Name: crdName},
			Spec: apiextensionsv1.CustomResourceDefinitionSpec{Group: gv.Group,
				Versions: []apiextensionsv1.CustomResourceDefinitionVersion{ver}},
		}
	}
}

// stopAll stops whatever still runs (end of a case).
func (h *c20Host) stopAll() {
	h.cli.mu.Lock()
	h.cli.objs = map[string]*v1alpha1.CompositeController{}
	h.cli.failGet = map[string]bool{}
	h.cli.mu.Unlock()
	names := []string{}
	for n := range h.mc.parentControllers {
		names = append(names, n)
	}
	for _, n := range names {
		func() {
			defer func() { _ = recover() }()
			_ = h.reconcile(n)
		}()
	}
}

// the hook answer of a sync on behalf of instance by
func c20SyncAnswer(by string) []byte {
	body, _ := k8sjson.Marshal(map[string]interface{}{"status": map[string]interface{}{"by": by}, "children": []interface{}{}})
	return body
}

// who wrote: the marker an API write of a sync carries
func c20WriteBy(body interface{}) string {
	m, _ := body.(map[string]interface{})
	st, _ := m["status"].(map[string]interface{})
	by, _ := st["by"].(string)
	return by
}

type c20World = cworld

func c20NewWorld() *c20World { return newWorld() }

// crd classes a composite event can carry
var c20BadCrds = []string{"missing", "nostatus"}

// ================================ generic ======================================

const c20ResyncBase = 1000

type c20InstInfo struct {
	ptr    uintptr
	specID int
}

type c20Svc struct {
	Name      bool `json:"name"`
	Namespace bool `json:"namespace"`
	Port      bool `json:"port"`
	Protocol  bool `json:"protocol"`
}

// c20HookCfg: nil pointer = the hook is absent
type c20HookCfg struct {
	NoWebhook    bool    `json:"noWebhook,omitempty"`
	URL          bool    `json:"url,omitempty"`
	Service      *c20Svc `json:"service,omitempty"`
	Path         bool    `json:"path,omitempty"`
	Timeout      string  `json:"timeout,omitempty"` // "" | pos | neg | zero
	Etag         string  `json:"etag,omitempty"`    // "" | nil-enabled | off | on
	CacheTimeout bool    `json:"cacheTimeout,omitempty"`
	CacheCleanup bool    `json:"cacheCleanup,omitempty"`
	Related      string  `json:"related,omitempty"` // customize hook: which related resource it asks for (pods | namespaces)
}

type c20Rule struct {
	APIVersion  string `json:"apiVersion"`
	Resource    string `json:"resource"`
	Strategy    string `json:"strategy,omitempty"`
	BadSelector bool   `json:"badSelector,omitempty"`
}

type c20Spec struct {
	ID        int         `json:"id"` // different id <=> different spec content
	Parents   []c20Rule   `json:"parents"`
	Children  []c20Rule   `json:"children"`
	NoHooks   bool        `json:"noHooks,omitempty"`
	Sync      *c20HookCfg `json:"sync,omitempty"`
	Finalize  *c20HookCfg `json:"finalize,omitempty"`
	Customize *c20HookCfg `json:"customize,omitempty"`
	Kind      string      `json:"kind"` // generator's label: valid | <invalid kind>
}

type c20Event struct {
	Op    string   `json:"op"`   // apply | delete | geterr
	Name  string   `json:"name"` // a | b
	Spec  *c20Spec `json:"spec,omitempty"`
	Crd   string   `json:"crd,omitempty"` // ok | missing | nostatus (composite only)
	Touch int      `json:"touch,omitempty"`
	Abs   string   `json:"abs"` // abstract letter: V I N D E C K
}

type c20Case struct {
	Flavor   string     `json:"flavor"`
	Family   string     `json:"family"`
	Events   []c20Event `json:"events"`
	Features []string   `json:"features"`
}

func c20Selector(short string, bad bool) *metav1.LabelSelector {
	if bad {
		return &metav1.LabelSelector{MatchExpressions: []metav1.LabelSelectorRequirement{{Key: "ctl", Operator: "Bogus"}}}
	}
	return &metav1.LabelSelector{MatchLabels: map[string]string{"ctl": short}}
}

// c20Hook renders a hook configuration; every usable URL names the instance
// (controller name, spec id) and the hook kind.
func c20Hook(realName string, id int, kind string, h *c20HookCfg) *v1alpha1.Hook {
	if h == nil {
		return nil
	}
	if h.NoWebhook {
		return &v1alpha1.Hook{}
	}
	wh := &v1alpha1.Webhook{}
	tail := kind
	if h.Related != "" {
		tail = kind + "/" + h.Related
	}
	if h.URL {
		u := fmt.Sprintf("http://hooks.test/%s/%d/%s", realName, id, tail)
		wh.URL = &u
	}
	if h.Service != nil {
		sv := &v1alpha1.ServiceReference{}
		if h.Service.Name {
			sv.Name = fmt.Sprintf("%s-%d", realName, id)
		}
		if h.Service.Namespace {
			sv.Namespace = "hooks"
		}
		if h.Service.Port {
			p := int32(8080)
			sv.Port = &p
		}
		if h.Service.Protocol {
			p := "http"
			sv.Protocol = &p
		}
		wh.Service = sv
	}
	if h.Path {
		p := "/" + tail
		wh.Path = &p
	}
	switch h.Timeout {
	case "pos":
		wh.Timeout = &metav1.Duration{Duration: 5 * time.Second}
	case "neg":
		wh.Timeout = &metav1.Duration{Duration: -time.Second}
	case "zero":
		wh.Timeout = &metav1.Duration{}
	}
	switch h.Etag {
	case "nil-enabled":
		wh.Etag = &v1alpha1.WebhookEtagConfig{}
	case "off", "on":
		en := h.Etag == "on"
		wh.Etag = &v1alpha1.WebhookEtagConfig{Enabled: &en}
	}
	if wh.Etag != nil {
		if h.CacheTimeout {
			v := int32(60)
			wh.Etag.CacheTimeoutSeconds = &v
		}
		if h.CacheCleanup {
			v := int32(120)
			wh.Etag.CacheCleanupSeconds = &v
		}
	}
	return &v1alpha1.Hook{Webhook: wh}
}

// usable reports whether hooks.NewHook yields an enabled hook for h (what the harness expects to see called)
func (h *c20HookCfg) usable() bool {
	if h == nil || h.NoWebhook {
		return false
	}
	if h.URL {
		return true
	}
	return h.Service != nil && h.Path && h.Service.Name && h.Service.Namespace
}

// ---- hook dispatch: one transport for all parallel runs ----

var c20Runs sync.Map // real controller name -> *c20Run
var c20WorkerPanics int64
var c20Once sync.Once

func c20Install() {
	installHookTransport()
	c20Once.Do(func() {
		utilruntime.ReallyCrash = false
		utilruntime.PanicHandlers = append(utilruntime.PanicHandlers, func(context.Context, interface{}) {
			atomic.AddInt64(&c20WorkerPanics, 1)
		})
		utilruntime.ErrorHandlers = nil
		hookTransport.Set(c20Answer)
	})
}

// c20ParseURL: http://hooks.test/<real>/<id>/<kind>[/<related>]  or  http://<real>-<id>.hooks[:port]/<kind>[/<related>]
func c20ParseURL(raw string) (real string, id int, kind, related string, ok bool) {
	u, err := url.Parse(raw)
	if err != nil {
		return
	}
	parts := strings.Split(strings.Trim(u.Path, "/"), "/")
	host := u.Hostname()
	if host == "hooks.test" {
		if len(parts) < 3 {
			return
		}
		real = parts[0]
		id, _ = strconv.Atoi(parts[1])
		parts = parts[2:]
	} else if strings.HasSuffix(host, ".hooks") {
		h := strings.TrimSuffix(host, ".hooks")
		i := strings.LastIndex(h, "-")
		if i < 0 {
			return
		}
		real = h[:i]
		id, _ = strconv.Atoi(h[i+1:])
	} else {
		return
	}
	if len(parts) == 0 {
		return
	}
	kind = parts[0]
	if len(parts) > 1 {
		related = parts[1]
	}
	ok = true
	return
}

func c20Answer(rawURL string, hdr map[string][]string, req map[string]interface{}) (int, map[string]string, []byte, bool) {
	real, id, kind, related, ok := c20ParseURL(rawURL)
	if !ok {
		return 500, nil, []byte("unknown hook"), false
	}
	rv, found := c20Runs.Load(real)
	if !found {
		return 500, nil, []byte("no run"), false
	}
	run := rv.(*c20Run)
	short := run.short(real)
	if kind == "customize" {
		run.waitGate()
	}
	run.mu.Lock()
	run.calls[fmt.Sprintf("%s/%d/%s", short, id, kind)]++
	hookDropped := len(hookTransport.Calls()) > 4096
	run.mu.Unlock()
	if hookDropped {
		hookTransport.ResetCalls()
	}
	switch kind {
	case "customize":
		rule := map[string]interface{}{"apiVersion": "v1", "resource": related, "labelSelector": map[string]interface{}{}}
		body, _ := k8sjson.Marshal(map[string]interface{}{"relatedResources": []interface{}{rule}})
		return 200, nil, body, false
	case "finalize":
		body, _ := k8sjson.Marshal(map[string]interface{}{"finalized": true})
		return 200, nil, body, false
	}
	return 200, nil, c20SyncAnswer(fmt.Sprintf("%s/%d", short, id)), false
}

// ---- one run of one case ----

type c20Run struct {
	slot  int
	w     *c20World
	host  *c20Host
	mu    sync.Mutex
	calls map[string]int // "<short>/<id>/<kind>" -> hook calls since the last reset
	gate  chan struct{}
	pokes int
	// per name: last seen instance identity and its incarnation number
	lastPtr map[string]uintptr
	incarn  map[string]int
}

func c20RealName(short string, slot int) string { return fmt.Sprintf("c20%s%d", short, slot) }

func (r *c20Run) short(real string) string {
	for _, s := range []string{"a", "b"} {
		if c20RealName(s, r.slot) == real {
			return s
		}
	}
	return real
}

func (r *c20Run) waitGate() {
	r.mu.Lock()
	g := r.gate
	r.mu.Unlock()
	if g == nil {
		return
	}
	select {
	case <-g:
	case <-time.After(3 * time.Second):
	}
}

func (r *c20Run) closeGate() {
	r.mu.Lock()
	r.gate = make(chan struct{})
	r.mu.Unlock()
}

func (r *c20Run) openGate() {
	r.mu.Lock()
	g := r.gate
	r.gate = nil
	r.mu.Unlock()
	if g != nil {
		close(g)
	}
}

func (r *c20Run) resetCalls() {
	r.mu.Lock()
	r.calls = map[string]int{}
	r.mu.Unlock()
}

func (r *c20Run) callsOf(key string) int {
	r.mu.Lock()
	defer r.mu.Unlock()
	return r.calls[key]
}

func (r *c20Run) callsSnapshot() map[string]int {
	r.mu.Lock()
	defer r.mu.Unlock()
	out := map[string]int{}
	for k, v := range r.calls {
		out[k] = v
	}
	return out
}

// refCounts reads the factory's unexported subscription counts under its own mutex.
func c20RefCounts(f *dynamicinformer.SharedInformerFactory) map[string]int {
	v := reflect.ValueOf(f).Elem()
	mu := (*sync.Mutex)(unsafe.Pointer(v.FieldByName("mutex").UnsafeAddr()))
	mu.Lock()
	defer mu.Unlock()
	out := map[string]int{}
	it := v.FieldByName("refCount").MapRange()
	for it.Next() {
		out[it.Key().String()] = int(it.Value().Int())
	}
	return out
}

var c20ParentKinds = []struct{ apiVersion, kind, ns, prefix string }{
	{"ctl.example.com/v1", "Thing", "ns1", "p-"},
	{"ctl.example.com/v1", "ClusterThing", "", "q-"},
}

func (r *c20Run) seedCluster() {
	r.w.srv.Seed(map[string]interface{}{"apiVersion": "v1", "kind": "Namespace", "metadata": map[string]interface{}{"name": "ns1"}})
	for _, short := range []string{"a", "b"} {
		for _, pk := range c20ParentKinds {
			md := map[string]interface{}{"name": pk.prefix + short, "labels": map[string]interface{}{"ctl": short}, "generation": int64(1)}
			if pk.ns != "" {
				md["namespace"] = pk.ns
			}
			r.w.srv.Seed(map[string]interface{}{"apiVersion": pk.apiVersion, "kind": pk.kind, "metadata": md, "spec": map[string]interface{}{}})
		}
	}
	r.w.srv.Seed(map[string]interface{}{"apiVersion": "v1", "kind": "Pod", "metadata": map[string]interface{}{"name": "pod-1", "namespace": "ns1", "labels": map[string]interface{}{"app": "x"}}})
	r.w.srv.Seed(map[string]interface{}{"apiVersion": "apps.example.com/v1", "kind": "Widget", "metadata": map[string]interface{}{"name": "w-1", "namespace": "ns1"}})
}

// poke: every parent object changes (label bumped, status dropped) and the
// change is delivered to all open watches.
func (r *c20Run) poke() {
	r.pokes++
	for _, short := range []string{"a", "b"} {
		for _, pk := range c20ParentKinds {
			o := r.w.srv.GetLive(pk.apiVersion, pk.kind, pk.ns, pk.prefix+short)
			if o == nil {
				continue
			}
			md := o["metadata"].(map[string]interface{})
			lb, _ := md["labels"].(map[string]interface{})
			if lb == nil {
				lb = map[string]interface{}{}
			}
			lb["poke"] = strconv.Itoa(r.pokes)
			md["labels"] = lb
			delete(md, "resourceVersion")
			delete(o, "status")
			r.w.srv.Emit("MODIFIED", r.w.srv.Seed(o))
		}
	}
}

type c20Obs struct {
	Outcome  string         // ok | error | panic
	PanicMsg string         `json:",omitempty"`
	Insts    map[string][2]int // short name -> (spec id, incarnation)
	Refs     map[string]int
	Active   map[string][2]int // "<short>/<id>" -> (hook calls, api writes)
	WPanics  int
}

type c20StepRec struct {
	Event   c20Event
	Related []c20RelatedRec // related-resource requests of syncs observed after the event
	Obs     c20Obs          // after the event and, if any, before the related requests
}

type c20RelatedRec struct {
	Name     string
	Resource string // pods | namespaces (apiVersion v1)
	Obs      c20Obs
}

func (r *c20Run) instsObs() map[string][2]int {
	out := map[string][2]int{}
	cur := r.host.instances()
	for _, short := range []string{"a", "b"} {
		real := c20RealName(short, r.slot)
		info, ok := cur[real]
		if !ok {
			delete(r.lastPtr, short)
			continue
		}
		if r.lastPtr[short] != info.ptr {
			r.incarn[short]++
			r.lastPtr[short] = info.ptr
		}
		out[short] = [2]int{info.specID, r.incarn[short]}
	}
	for real := range cur {
		if r.short(real) == real {
			out[real] = [2]int{cur[real].specID, 0}
		}
	}
	return out
}

func (r *c20Run) activity() map[string][2]int {
	out := map[string][2]int{}
	for k, v := range r.callsSnapshot() {
		parts := strings.Split(k, "/")
		if len(parts) != 3 || parts[2] == "customize" {
			continue
		}
		key := parts[0] + "/" + parts[1]
		e := out[key]
		e[0] += v
		out[key] = e
	}
	for _, e := range r.w.srv.Log() {
		if e.Verb == "get" || e.Verb == "list" || e.Verb == "watch" {
			continue
		}
		if by := c20WriteBy(e.Body); by != "" {
			x := out[by]
			x[1]++
			out[by] = x
		}
	}
	return out
}

// runCase drives one history and returns what was observed.
func c20RunCase(slot int, c *c20Case) (recs []c20StepRec) {
	c20Install()
	run := &c20Run{slot: slot, calls: map[string]int{}, lastPtr: map[string]uintptr{}, incarn: map[string]int{}}
	run.w = c20NewWorld()
	run.host = c20NewHost(run.w)
	for _, s := range []string{"a", "b"} {
		c20Runs.Store(c20RealName(s, slot), run)
	}
	defer func() {
		run.openGate()
		run.host.stopAll()
		run.w.close()
	}()
	run.seedCluster()
	specs := map[string]*c20Spec{} // short name -> spec of the stored object
	for _, ev := range c.Events {
		real := c20RealName(ev.Name, slot)
		switch ev.Op {
		case "apply":
			run.host.setFail(real, false)
			run.host.apply(real, ev.Name, ev.Spec, ev.Crd, ev.Touch)
			specs[ev.Name] = ev.Spec
		case "delete":
			run.host.setFail(real, false)
			run.host.remove(real)
			delete(specs, ev.Name)
		case "geterr":
			run.host.setFail(real, true)
		}
		wp0 := atomic.LoadInt64(&c20WorkerPanics)
		run.closeGate()
		obs := c20Obs{}
		func() {
			defer func() {
				if p := recover(); p != nil {
					obs.Outcome = "panic"
					obs.PanicMsg = fmt.Sprint(p)
				}
			}()
			if err := run.host.reconcile(real); err != nil {
				obs.Outcome = "error"
			} else {
				obs.Outcome = "ok"
			}
		}()
		obs.Insts = run.instsObs()
		obs.Refs = c20RefCounts(run.host.factory())
		// now let the hosted workers run and watch what they do
		run.resetCalls()
		run.w.srv.ResetLog()
		run.openGate()
		run.poke()
		type want struct {
			key       string
			customize string
		}
		var wants []want
		cur := run.host.instances()
		for _, short := range []string{"a", "b"} {
			info, ok := cur[c20RealName(short, slot)]
			if !ok {
				continue
			}
			sp := c20SpecOf(c, short, info.specID)
			if sp == nil || !sp.Sync.usable() || !c20ParentPresent(sp) {
				continue
			}
			w := want{key: fmt.Sprintf("%s/%d", short, info.specID)}
			wants = append(wants, w)
		}
		deadline := time.Now().Add(4 * time.Second)
		for {
			done := true
			act := run.activity()
			for _, w := range wants {
				if act[w.key][0] == 0 || act[w.key][1] == 0 {
					done = false
				}
			}
			if done || time.Now().After(deadline) {
				break
			}
			time.Sleep(2 * time.Millisecond)
		}
		time.Sleep(c20Settle)
		rec := c20StepRec{Event: ev}
		final := obs
		final.Refs = c20RefCounts(run.host.factory())
		final.Active = run.activity()
		final.WPanics = int(atomic.LoadInt64(&c20WorkerPanics) - wp0)
		// related-resource requests the syncs of the running instances made
		calls := run.callsSnapshot()
		var rels []c20RelatedRec
		for _, short := range []string{"a", "b"} {
			info, ok := cur[c20RealName(short, slot)]
			if !ok {
				continue
			}
			sp := c20SpecOf(c, short, info.specID)
			if sp == nil || !sp.Customize.usable() {
				continue
			}
			if calls[fmt.Sprintf("%s/%d/customize", short, info.specID)] > 0 || run.everCustomized(short, info.specID) {
				run.markCustomized(short, info.specID)
				rels = append(rels, c20RelatedRec{Name: short, Resource: sp.Customize.Related})
			}
		}
		if len(rels) == 0 {
			rec.Obs = final
		} else {
			// the counts right after Reconcile returned belong to the event itself,
			// the final ones to the last related request
			obs.Active = final.Active
			obs.WPanics = final.WPanics
			rec.Obs = obs
			for i := range rels {
				rels[i].Obs = final
				if i < len(rels)-1 {
					// intermediate point not observed: filled in by the emitter from the model-free sum
					rels[i].Obs.Refs = nil
				}
			}
			rec.Related = rels
		}
		recs = append(recs, rec)
	}
	return recs
}

var c20Settle = 30 * time.Millisecond

var c20CustomMu sync.Mutex

func (r *c20Run) everCustomized(short string, id int) bool {
	return false
}
func (r *c20Run) markCustomized(short string, id int) {}

func c20SpecOf(c *c20Case, short string, id int) *c20Spec {
	for i := range c.Events {
		e := &c.Events[i]
		if e.Name == short && e.Spec != nil && e.Spec.ID == id {
			return e.Spec
		}
	}
	return nil
}

// a parent object matching the controller's selector exists for the resources seeded by seedCluster
func c20ParentPresent(s *c20Spec) bool {
	for _, p := range s.Parents {
		if p.APIVersion == "ctl.example.com/v1" && (p.Resource == "things" || p.Resource == "clusterthings") && !p.BadSelector {
			return true
		}
	}
	return false
}
