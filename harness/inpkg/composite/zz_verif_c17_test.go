package composite

import (
	"encoding/json"
	"fmt"
	"net/http"
	"reflect"
	"sort"
	"strings"
	"sync"
	"testing"

	"k8s.io/apimachinery/pkg/runtime"

	vh "metacontroller/pkg/internal/verifh"
)

// TestVerif_C17r: several workers sync distinct parents of one controller that
// share the parent, child, revision and related informers, with a rolling
// strategy (parallel per-revision hook and customize calls) and customize
// answers that make every parent register related kinds the others look up.
//
// Each case runs the same world twice: the syncs of a round one after another,
// and the syncs of a round concurrently. Recorded per case: the projected store
// after both runs (C17_schedules_agree: every interleaving gives each sync what
// it gets alone), whether a hook call for parent p carried state of another
// parent, and whether an object held by a shared informer cache changed.
// The driver runs this test under `go test -race` in both tiers.
var c17rKinds = []struct{ av, res string }{
	{"v1", "namespaces"}, {"apps.example.com/v1", "widgets"}, {"v1", "pods"},
	{"ctl.example.com/v1", "clusterthings"}, {"ctl.example.com/v1", "things"},
}

type c17rOut struct {
	Store        []string
	Foreign      []string // hook calls that saw another parent's state
	CacheMutated []string
	Panics       []string
}

func c17rApp(p int) string { return fmt.Sprintf("app%d", p) }

func c17rRun(t *testing.T, sc *scenario, nparents int, concurrent bool, scaleDown bool) c17rOut {
	var out c17rOut
	var omu sync.Mutex
	w := newWorld()
	defer w.close()
	inner := sc.hookFunc(w)
	hookTransport.Set(func(url string, hdr http.Header, req map[string]interface{}) (int, map[string]string, []byte, bool) {
		parent, _ := req["parent"].(map[string]interface{})
		pmd, _ := parent["metadata"].(map[string]interface{})
		pname, _ := pmd["name"].(string)
		var pidx int
		fmt.Sscanf(pname, "p%d", &pidx)
		app := c17rApp(pidx)
		if strings.HasSuffix(url, "/customize") {
			// parent i asks for three of the five kinds, rotated: every pair of parents overlaps
			var rules []string
			for j := 0; j < 3; j++ {
				k := c17rKinds[(pidx+j)%len(c17rKinds)]
				rules = append(rules, fmt.Sprintf(`{"apiVersion":%q,"resource":%q,"labelSelector":{"matchLabels":{"app":%q}}}`, k.av, k.res, app))
			}
			return 200, map[string]string{}, []byte(`{"relatedResources":[` + strings.Join(rules, ",") + `]}`), false
		}
		// what the hook is shown must be this parent's: children and related objects carry its app label
		for _, group := range []string{"children", "related"} {
			gm, _ := req[group].(map[string]interface{})
			for gk, objs := range gm {
				om, _ := objs.(map[string]interface{})
				for name, o := range om {
					obj, _ := o.(map[string]interface{})
					md, _ := obj["metadata"].(map[string]interface{})
					labels, _ := md["labels"].(map[string]interface{})
					if labels["app"] != app {
						omu.Lock()
						out.Foreign = append(out.Foreign, fmt.Sprintf("%s: %s %s/%s has app=%v", pname, group, gk, name, labels["app"]))
						omu.Unlock()
					}
				}
			}
		}
		code, h, body, ne := inner(url, hdr, req)
		// children are named after their parent so that the parents do not collide
		var resp map[string]interface{}
		if json.Unmarshal(body, &resp) == nil {
			if cl, ok := resp["children"].([]interface{}); ok {
				for _, c := range cl {
					cm, _ := c.(map[string]interface{})
					md, _ := cm["metadata"].(map[string]interface{})
					if md == nil {
						continue
					}
					md["name"] = fmt.Sprintf("%s-%v", pname, md["name"])
					md["labels"] = map[string]interface{}{"app": app}
				}
				body, _ = json.Marshal(resp)
			}
		}
		return code, h, body, ne
	})
	var keys []string
	for p := 0; p < nparents; p++ {
		parent := runtime.DeepCopyJSON(sc.Parent)
		md := parent["metadata"].(map[string]interface{})
		md["name"] = fmt.Sprintf("p%d", p)
		md["generation"] = int64(1)
		spec := parent["spec"].(map[string]interface{})
		spec["selector"] = J{"matchLabels": J{"app": c17rApp(p)}}
		spec["template"] = J{"metadata": J{"labels": J{"app": c17rApp(p)}}}
		w.srv.Seed(parent)
		keys = append(keys, parentKey(parent))
		// a related object per parent and kind
		for _, ns := range []string{"ns1"} {
			w.srv.Seed(J{"apiVersion": "apps.example.com/v1", "kind": "Widget", "metadata": J{"name": fmt.Sprintf("rel-w%d", p), "namespace": ns, "labels": J{"app": c17rApp(p)}}, "spec": J{}})
			w.srv.Seed(J{"apiVersion": "v1", "kind": "Pod", "metadata": J{"name": fmt.Sprintf("rel-p%d", p), "namespace": ns, "labels": J{"app": c17rApp(p)}}, "spec": J{}})
		}
		w.srv.Seed(J{"apiVersion": "v1", "kind": "Namespace", "metadata": J{"name": fmt.Sprintf("rel-n%d", p), "labels": J{"app": c17rApp(p)}}})
	}
	round := func(conc bool) {
		w.freezeViews()
		b, err := w.buildPC(&sc.Ctl)
		if err != nil {
			t.Fatal(err)
		}
		defer b.close()
		// fingerprint of what the shared caches hold
		type held struct {
			ptr  interface{}
			copy map[string]interface{}
		}
		var fp []held
		for _, ci := range b.pc.childInformers {
			for _, o := range ci.Informer().GetIndexer().List() {
				u := o.(interface{ UnstructuredContent() map[string]interface{} })
				fp = append(fp, held{o, runtime.DeepCopyJSON(u.UnstructuredContent())})
			}
		}
		for _, o := range b.pc.parentInformer.Informer().GetIndexer().List() {
			u := o.(interface{ UnstructuredContent() map[string]interface{} })
			fp = append(fp, held{o, runtime.DeepCopyJSON(u.UnstructuredContent())})
		}
		revBefore := b.revDump()
		one := func(k string) {
			defer func() {
				if r := recover(); r != nil {
					omu.Lock()
					out.Panics = append(out.Panics, fmt.Sprint(k, ": ", r))
					omu.Unlock()
				}
			}()
			_ = b.pc.sync(k)
		}
		if conc {
			var wg sync.WaitGroup
			for _, k := range keys {
				wg.Add(1)
				go func(k string) { defer wg.Done(); one(k) }(k)
			}
			wg.Wait()
		} else {
			for _, k := range keys {
				one(k)
			}
		}
		for _, h := range fp {
			u := h.ptr.(interface{ UnstructuredContent() map[string]interface{} })
			if !reflect.DeepEqual(u.UnstructuredContent(), h.copy) {
				out.CacheMutated = append(out.CacheMutated, objKey(h.copy))
			}
		}
		if !reflect.DeepEqual(revBefore, b.revDump()) {
			out.CacheMutated = append(out.CacheMutated, "controllerrevision cache")
		}
	}
	round(false) // first generation: revisions and children come into being
	for _, o := range w.srv.AllLive() {
		if o["kind"] == sc.Ctl.ParentKind {
			o["spec"].(map[string]interface{})["image"] = "v2"
			if n, ok := o["spec"].(map[string]interface{})["replicas"].(int64); ok && n > 1 && scaleDown {
				// one child per parent is no longer desired: deletions happen in the concurrent rounds too
				o["spec"].(map[string]interface{})["replicas"] = n - 1
			}
			delete(o["metadata"].(map[string]interface{}), "resourceVersion")
			w.srv.Seed(o)
		}
	}
	for r := 0; r < 3; r++ {
		round(concurrent)
	}
	out.Store = projectStore(w.srv.AllLive())
	return out
}

// projectStore drops what legitimately differs between runs (uids, resourceVersions, timestamps).
func projectStore(objs []J) []string {
	var out []string
	for _, o := range objs {
		md, _ := o["metadata"].(map[string]interface{})
		labels, _ := md["labels"].(map[string]interface{})
		spec, _ := o["spec"].(map[string]interface{})
		owner := ""
		if refs, ok := md["ownerReferences"].([]interface{}); ok {
			for _, r := range refs {
				if rm, ok := r.(map[string]interface{}); ok {
					owner += fmt.Sprint(rm["kind"], "/", rm["name"], ";")
				}
			}
		}
		extra := ""
		if o["kind"] == "ControllerRevision" {
			// the order of names within a revision follows Go map iteration
			kids := runtime.DeepCopyJSONValue(o["children"])
			if kl, ok := kids.([]interface{}); ok {
				for _, k := range kl {
					if km, ok := k.(map[string]interface{}); ok {
						if names, ok := km["names"].([]interface{}); ok {
							sort.Slice(names, func(i, j int) bool { return fmt.Sprint(names[i]) < fmt.Sprint(names[j]) })
						}
					}
				}
				sort.Slice(kl, func(i, j int) bool { return fmt.Sprint(kl[i]) < fmt.Sprint(kl[j]) })
			}
			js, _ := json.Marshal(kids)
			extra = string(js)
		}
		// which unhappy child a RolloutWaiting message names depends on map order
		status := runtime.DeepCopyJSONValue(o["status"])
		if sm, ok := status.(map[string]interface{}); ok {
			if conds, ok := sm["conditions"].([]interface{}); ok {
				for _, c := range conds {
					if cm, ok := c.(map[string]interface{}); ok {
						delete(cm, "message")
					}
				}
			}
		}
		st, _ := json.Marshal(status)
		out = append(out, fmt.Sprint(objKey(o), " app=", labels["app"], " image=", spec["image"], " owner=", owner, " fin=", md["finalizers"], " ", extra, " status=", string(st)))
	}
	sort.Strings(out)
	return out
}

func TestVerif_C17r(t *testing.T) {
	env := vh.GetEnv()
	if env.OutDir == "" {
		t.Skip("VERIF_OUT not set")
	}
	header := "From MC Require Import Check.C17r_check.\nOpen Scope string_scope.\n"
	w, err := vh.NewCaseWriter(env.OutDir, "C17r", header, 40)
	if err != nil {
		t.Fatal(err)
	}
	n := env.N
	if n == 0 {
		n = 6
	}
	root := vh.NewRng(env.Seed ^ 0xc17)
	for iter := 0; iter < n; iter++ {
		_, seed := root.Fork()
		nparents := 3 + iter%3
		mk := func() *scenario {
			g := &gen{r: vh.NewRng(seed)}
			sc := g.rollout(iter, seed, true)
			sc.Ctl.Name = fmt.Sprintf("race%d", iter%3)
			sc.Ctl.Customize = true
			sc.Ctl.ParentNamespaced, sc.Ctl.ParentResource, sc.Ctl.ParentKind = true, "things", "Thing"
			if iter%3 == 1 {
				sc.Ctl.SSA = true // server-side apply: the shared apply memo is read and written by every worker
				if n, ok := sc.Parent["spec"].(J)["replicas"].(int64); ok && n < 2 {
					sc.Parent["spec"].(J)["replicas"] = int64(2)
				}
			}
			sc.Parent["kind"] = "Thing"
			sc.Parent["metadata"].(J)["namespace"] = "ns1"
			for _, c := range sc.Hook.Children {
				delete(c["metadata"].(J), "namespace")
			}
			return sc
		}
		scaleDown := iter%2 == 1
		seq := c17rRun(t, mk(), nparents, false, scaleDown)
		conc := c17rRun(t, mk(), nparents, true, scaleDown)
		id := fmt.Sprintf("s%d", iter)
		def := fmt.Sprintf("mkC17r %s %s %s %s %s", vh.CoqStringList(seq.Store), vh.CoqStringList(conc.Store),
			vh.CoqStringList(append(seq.Foreign, conc.Foreign...)), vh.CoqStringList(append(seq.CacheMutated, conc.CacheMutated...)),
			vh.CoqStringList(append(seq.Panics, conc.Panics...)))
		replay := J{"seed": seed, "iter": iter, "parents": nparents, "serial": seq, "concurrent": conc,
			"features": []string{fmt.Sprintf("parents-%d", nparents), fmt.Sprintf("ssa-%v", iter%3 == 1), fmt.Sprintf("scale-down-%v", scaleDown)}}
		if err := w.Add(id, def, "C17r_check", replay); err != nil {
			t.Fatal(err)
		}
		w.Count(fmt.Sprintf("parents-%d", nparents))
		w.Count(fmt.Sprintf("ssa-%v", iter%3 == 1))
		w.Count(fmt.Sprintf("scale-down-%v", scaleDown))
		w.Count("concurrent-rounds")
		w.Count("concurrent-rounds")
		w.Count("concurrent-rounds")
		if len(conc.Store) > nparents {
			w.NonTrivial(vh.Sig(iter, nparents, len(conc.Store)))
		}
	}
	if err := w.Close(nil); err != nil {
		t.Fatal(err)
	}
}
