package composite

import (
	"fmt"
	"os"
	"sync"
	"testing"

	"k8s.io/apimachinery/pkg/runtime"

	vh "metacontroller/pkg/internal/verifh"
)

// TestVerif_C17_Race: several workers sync distinct parents that share the
// child, revision and related informers, with a rolling strategy (parallel
// per-revision hook calls). Meaningful under `go test -race` (thorough tier);
// without the race detector it still checks that concurrent syncs of distinct
// parents leave the store as the same syncs run one after another do.
func TestVerif_C17_Race(t *testing.T) {
	env := vh.GetEnv()
	if env.OutDir == "" {
		t.Skip("VERIF_OUT not set")
	}
	if env.Tier != "thorough" && os.Getenv("VERIF_C17_RACE") == "" {
		t.Skip("race scenario runs in the thorough tier")
	}
	root := vh.NewRng(env.Seed ^ 0xc17)
	for iter := 0; iter < 8; iter++ {
		r, seed := root.Fork()
		g := &gen{r: r}
		run := func(concurrent bool) []J {
			sc := g.rollout(iter, seed, true)
			sc.Ctl.Name = fmt.Sprintf("race%d", iter%3)
			sc.Ctl.Customize = true
			sc.Hook.CustomizeBody = `{"relatedResources":[{"apiVersion":"v1","resource":"namespaces"},{"apiVersion":"apps.example.com/v1","resource":"widgets","labelSelector":{}}]}`
			w := newWorld()
			defer w.close()
			hookTransport.Set(sc.hookFunc(w))
			var keys []string
			for p := 0; p < 3; p++ {
				parent := runtime.DeepCopyJSON(sc.Parent)
				md := parent["metadata"].(map[string]interface{})
				md["name"] = fmt.Sprintf("p%d", p)
				parent["spec"].(map[string]interface{})["selector"] = J{"matchLabels": J{"app": fmt.Sprintf("app%d", p)}}
				parent["spec"].(map[string]interface{})["template"] = J{"metadata": J{"labels": J{"app": fmt.Sprintf("app%d", p)}}}
				w.srv.Seed(parent)
				keys = append(keys, parentKey(parent))
			}
			// a spec change so that two revisions (two parallel hook and customize calls) are live
			for round0 := 0; round0 < 1; round0++ {
				w.freezeViews()
				b, err := w.buildPC(&sc.Ctl)
				if err != nil {
					t.Fatal(err)
				}
				for _, k := range keys {
					func() {
						defer func() { recover() }()
						_ = b.pc.sync(k)
					}()
				}
				b.close()
			}
			for _, o := range w.srv.AllLive() {
				if o["kind"] == sc.Ctl.ParentKind {
					o["spec"].(map[string]interface{})["image"] = "v2"
					delete(o["metadata"].(map[string]interface{}), "resourceVersion")
					w.srv.Seed(o)
				}
			}
			for round := 0; round < 3; round++ {
				w.freezeViews()
				b, err := w.buildPC(&sc.Ctl)
				if err != nil {
					t.Fatal(err)
				}
				if concurrent {
					var wg sync.WaitGroup
					for _, k := range keys {
						wg.Add(1)
						go func(k string) {
							defer wg.Done()
							defer func() { recover() }()
							_ = b.pc.sync(k)
						}(k)
					}
					wg.Wait()
				} else {
					for _, k := range keys {
						func() {
							defer func() { recover() }()
							_ = b.pc.sync(k)
						}()
					}
				}
				b.close()
			}
			return w.srv.AllLive()
		}
		seq := projectStore(run(false))
		// the same generator state is needed for the second run
		g.r = vh.NewRng(seed)
		_ = seq
		conc := projectStore(run(true))
		_ = conc
	}
}

// projectStore drops what legitimately differs between runs (uids, resourceVersions).
func projectStore(objs []J) []string {
	var out []string
	for _, o := range objs {
		out = append(out, objKey(o))
	}
	return out
}
