package composite

// Harness of property C14 (composite side): which parents a watch event puts on
// the work queue.  A real parentController is built over the simulated API
// server (its parent informer synced from the seeded parents, its queue a
// recorder); the REAL handlers enqueueParentObject / updateParentObject /
// onChildAdd / onChildUpdate / onChildDelete are called directly with
// constructed objects and the queue's Add operations are the observation.
// One controller serves many events (the parent cache does not change).

import (
	"encoding/json"
	"fmt"
	"os"
	"sort"
	"strings"
	"testing"

	"k8s.io/apimachinery/pkg/apis/meta/v1/unstructured"
	"k8s.io/apimachinery/pkg/runtime"
	"k8s.io/client-go/tools/cache"

	vh "metacontroller/pkg/internal/verifh"
)

const c14APIVersion = "ctl.example.com/v1"

// c14WorldSpec: controller configuration + the parents seeded into the API server
type c14WorldSpec struct {
	Ctl          ctlSpec `json:"ctl"`
	IgnoreStatus bool    `json:"ignoreStatusChanges"`
	Parents      []J     `json:"parents"`
}

type c14Event struct {
	Src  string `json:"src"`  // parent | child
	Kind string `json:"kind"` // add | update | delete | tombstone
	Old  J      `json:"old,omitempty"`
	Obj  J      `json:"obj"`
	Key  string `json:"key,omitempty"` // tombstone key
	Role string `json:"role"`
	Upd  string `json:"upd,omitempty"`
}

type c14Live struct {
	spec  *c14WorldSpec
	w     *cworld
	b     *builtPC
	cache []J // what the parent informer holds, sorted by key
}

func c14Canon(o J) J {
	v, err := vh.Canon(map[string]interface{}(o))
	if err != nil {
		panic(err)
	}
	m, _ := v.(map[string]interface{})
	return m
}

func c14Build(spec *c14WorldSpec) (*c14Live, error) {
	w := newWorld()
	for _, p := range spec.Parents {
		w.srv.Seed(runtime.DeepCopyJSON(p))
	}
	b, err := w.buildPC(&spec.Ctl)
	if err != nil {
		w.close()
		return nil, err
	}
	ign := spec.IgnoreStatus
	if ign || len(spec.Parents)%2 == 0 { // nil and &false are the same to the code; use both
		b.pc.cc.Spec.ParentResource.IgnoreStatusChanges = &ign
	}
	l := &c14Live{spec: spec, w: w, b: b}
	for _, o := range b.pc.parentInformer.Informer().GetIndexer().List() {
		l.cache = append(l.cache, runtime.DeepCopyJSON(o.(*unstructured.Unstructured).Object))
	}
	sort.Slice(l.cache, func(i, j int) bool { return parentKey(l.cache[i]) < parentKey(l.cache[j]) })
	return l, nil
}

func (l *c14Live) close() {
	l.b.close()
	l.w.close()
}

func c14U(o J) *unstructured.Unstructured {
	return &unstructured.Unstructured{Object: runtime.DeepCopyJSON(o)}
}

// run hands the event to the real handler and returns the keys given to queue.Add
func (l *c14Live) run(ev *c14Event) (keys []string) {
	pc := l.b.pc
	l.b.queue.Reset()
	keys = []string{}
	func() {
		defer func() {
			if r := recover(); r != nil {
				keys = append(keys, "!panic:")
			}
		}()
		switch ev.Src + "/" + ev.Kind {
		case "parent/add", "parent/delete":
			pc.enqueueParentObject(c14U(ev.Obj))
		case "parent/update":
			pc.updateParentObject(c14U(ev.Old), c14U(ev.Obj))
		case "parent/tombstone":
			pc.enqueueParentObject(cache.DeletedFinalStateUnknown{Key: ev.Key, Obj: c14U(ev.Obj)})
		case "child/add":
			pc.onChildAdd(c14U(ev.Obj))
		case "child/update":
			pc.onChildUpdate(c14U(ev.Old), c14U(ev.Obj))
		case "child/delete":
			pc.onChildDelete(c14U(ev.Obj))
		case "child/tombstone":
			pc.onChildDelete(cache.DeletedFinalStateUnknown{Key: ev.Key, Obj: c14U(ev.Obj)})
		default:
			panic("c14: unknown event " + ev.Src + "/" + ev.Kind)
		}
	}()
	for _, op := range l.b.queue.Snapshot() {
		if op.Op == "Add" {
			keys = append(keys, op.Key)
		} else {
			keys = append(keys, "!"+op.Op+":"+op.Key)
		}
	}
	return keys
}

// ---- Coq terms ----
func c14CoqObjs(objs []J) string {
	parts := make([]string, len(objs))
	for i, o := range objs {
		parts[i] = vh.MustCoqJSON(map[string]interface{}(o))
	}
	return "[" + strings.Join(parts, "; ") + "]"
}

func c14CoqEvent(ev *c14Event) string {
	obj := vh.MustCoqJSON(map[string]interface{}(ev.Obj))
	switch ev.Kind {
	case "add":
		return "(EAdd " + obj + ")"
	case "update":
		return "(EUpdate " + vh.MustCoqJSON(map[string]interface{}(ev.Old)) + " " + obj + ")"
	case "delete":
		return "(EDelete " + obj + ")"
	}
	return "(EDeleteTombstone " + vh.MustCoqString(ev.Key) + " " + obj + ")"
}

func c14CoqCase(l *c14Live, ev *c14Event, keys []string) string {
	src := "SChild"
	if ev.Src == "parent" {
		src = "SParent"
	}
	return fmt.Sprintf("mkC14 (FComposite (mkECfg %s %s)) %s %s %s %s", coqCfg(&l.spec.Ctl), vh.CoqBool(l.spec.IgnoreStatus),
		c14CoqObjs(l.cache), src, c14CoqEvent(ev), vh.CoqStringList(keys))
}

// ---- generators ----
type c14Gen struct {
	r   *vh.Rng
	adv bool
	fin string // the controller's finalizer
}

var c14Selectors = []interface{}{
	J{"matchLabels": J{"app": "x"}},
	J{"matchLabels": J{"app": "y"}},
	J{"matchLabels": J{"app": "x", "part": "1"}},
	J{"matchExpressions": A{J{"key": "app", "operator": "In", "values": A{"x", "y"}}}},
	J{"matchExpressions": A{J{"key": "app", "operator": "Exists"}}},
	J{"matchExpressions": A{J{"key": "app", "operator": "NotIn", "values": A{"x"}}}},
	J{"matchExpressions": A{J{"key": "skip", "operator": "DoesNotExist"}}},
	J{"matchLabels": J{"app": "x"}, "matchExpressions": A{J{"key": "part", "operator": "Exists"}}},
	"missing",
	J{},
	J{"matchExpressions": A{J{"key": "app", "operator": "Foo", "values": A{"x"}}}}, // unknown operator
	J{"matchExpressions": A{J{"key": "app", "operator": "In"}}},                    // In without values
	J{"matchExpressions": A{J{"key": "app", "operator": "Exists", "values": A{"x"}}}},
	nil,
}

var c14HostileSelectors = []interface{}{"garbage", int64(5), A{}, J{"matchLabels": J{"app": int64(1)}}, J{"matchLabels": "x"},
	J{"matchExpressions": A{"x"}}, J{"matchExpressions": J{}}}

func (g *c14Gen) labels(pool []J) interface{} {
	return pool[g.r.Intn(len(pool))]
}

func c14CopyJ(m J) J {
	if m == nil {
		return nil
	}
	return runtime.DeepCopyJSON(m)
}

// parentObj: a parent as the API server stores it
func (g *c14Gen) parentObj(ctl *ctlSpec, ns, name, uid string) J {
	r := g.r
	md := J{"name": name, "uid": uid, "generation": int64(1 + r.Intn(3))}
	if ctl.ParentNamespaced {
		md["namespace"] = ns
	}
	switch r.Intn(6) {
	case 0:
	case 1:
		md["labels"] = J{}
	case 2:
		md["labels"] = J{"tier": "b"}
	case 3:
		md["labels"] = J{"tier": "a", "extra": "1"}
	default:
		md["labels"] = J{"tier": "a"}
	}
	switch r.Intn(5) {
	case 0:
		md["finalizers"] = A{"metacontroller.io/compositecontroller-" + ctl.Name}
	case 1:
		md["finalizers"] = A{"example.com/other"}
	case 2:
		md["finalizers"] = A{"example.com/other", "metacontroller.io/compositecontroller-" + ctl.Name}
	}
	if r.Chance(1, 4) {
		md["annotations"] = J{"note": "n1"}
	}
	if r.Chance(1, 7) {
		md["deletionTimestamp"] = "2020-01-02T00:00:00Z"
		if md["finalizers"] == nil {
			md["finalizers"] = A{"example.com/hold"}
		}
	}
	spec := J{"replicas": int64(1)}
	sel := c14Selectors[r.Intn(len(c14Selectors))]
	if r.Bool() { // the usable ones, so that orphans find several takers
		sel = c14Selectors[[]int{0, 0, 3, 4}[r.Intn(4)]]
	}
	if g.adv && r.Chance(1, 3) {
		sel = c14HostileSelectors[r.Intn(len(c14HostileSelectors))]
	}
	if s, ok := sel.(string); !ok || s != "missing" {
		spec["selector"] = sel
	}
	o := J{"apiVersion": c14APIVersion, "kind": ctl.ParentKind, "metadata": md, "spec": spec, "status": J{"observedGeneration": int64(1)}}
	if g.adv {
		g.corruptMeta(md, false)
	}
	return o
}

// corruptMeta: metadata shapes the lenient accessors swallow
func (g *c14Gen) corruptMeta(md J, all bool) {
	r := g.r
	if r.Chance(1, 6) {
		md["labels"] = J{"tier": int64(1)}
	}
	if r.Chance(1, 8) {
		md["labels"] = "tier=a"
	}
	if r.Chance(1, 8) {
		md["finalizers"] = A{int64(1)}
	}
	if r.Chance(1, 8) {
		md["generation"] = 2.5
	}
	if r.Chance(1, 8) {
		md["generation"] = "2"
	}
	if r.Chance(1, 8) {
		md["annotations"] = J{"note": true}
	}
	if all {
		if r.Chance(1, 6) {
			md["ownerReferences"] = "x"
		}
		if r.Chance(1, 6) {
			md["ownerReferences"] = A{int64(1)}
		}
		if r.Chance(1, 8) {
			md["resourceVersion"] = int64(7)
		}
	}
}

func (g *c14Gen) world(i int) *c14WorldSpec {
	r := g.r
	ctl := ctlSpec{Name: fmt.Sprintf("c14x%d", i%5), ParentAPIVersion: c14APIVersion, ParentNamespaced: r.Chance(2, 3),
		GenSelector: r.Chance(1, 4), Finalize: r.Bool()}
	if ctl.ParentNamespaced {
		ctl.ParentResource, ctl.ParentKind = "things", "Thing"
	} else {
		ctl.ParentResource, ctl.ParentKind = "clusterthings", "ClusterThing"
	}
	ctl.Kids = []kidSpec{kidPool[0]}
	if r.Chance(1, 3) {
		ctl.Kids = append(ctl.Kids, kidPool[1])
	}
	switch r.Intn(3) {
	case 0:
	case 1:
		ctl.CtlSelector = map[string]string{"tier": "a"}
	case 2:
		ctl.CtlSelector = map[string]string{"tier": "a"}
		if r.Chance(1, 3) {
			ctl.CtlSelector = map[string]string{}
		}
	}
	spec := &c14WorldSpec{Ctl: ctl, IgnoreStatus: r.Bool()}
	np := []int{0, 1, 2, 2, 3, 3, 4, 4}[r.Intn(8)]
	slots := [][2]string{{"ns1", "p1"}, {"ns1", "p2"}, {"ns2", "p1"}, {"ns2", "p3"}}
	if !ctl.ParentNamespaced {
		slots = [][2]string{{"", "p1"}, {"", "p2"}, {"", "p3"}}
	}
	for j := len(slots) - 1; j > 0; j-- {
		x := r.Intn(j + 1)
		slots[j], slots[x] = slots[x], slots[j]
	}
	for j := 0; j < np && j < len(slots); j++ {
		ns, name := slots[j][0], slots[j][1]
		spec.Parents = append(spec.Parents, c14Canon(g.parentObj(&ctl, ns, name, "uid-"+ns+"-"+name)))
	}
	return spec
}

var c14ParentUpdates = []string{"status", "generation", "labels", "labels-empty", "annotations", "annotations-empty",
	"deletion", "resync", "finalizers", "spec-no-generation", "status+generation"}

func c14Meta(o J) J {
	md, _ := o["metadata"].(map[string]interface{})
	if md == nil {
		md = J{}
		o["metadata"] = md
	}
	return md
}

func c14BumpRV(o J) {
	md := c14Meta(o)
	rv, _ := md["resourceVersion"].(string)
	md["resourceVersion"] = rv + "1"
}

// parentUpdate: cur derived from old by one kind of change
func (g *c14Gen) parentUpdate(old J, kind string) J {
	cur := c14CopyJ(old)
	md := c14Meta(cur)
	if kind != "resync" {
		c14BumpRV(cur)
	}
	gen, _ := md["generation"].(int64)
	switch kind {
	case "status":
		cur["status"] = J{"observedGeneration": gen, "seen": int64(g.r.Intn(100))}
	case "generation":
		md["generation"] = gen + 1
		cur["spec"] = J{"replicas": int64(5)}
	case "status+generation":
		md["generation"] = gen + 1
		cur["status"] = J{"x": "y"}
	case "labels":
		ls, _ := md["labels"].(map[string]interface{})
		nl := J{}
		for k, v := range ls {
			nl[k] = v
		}
		if nl["tier"] == "a" {
			nl["tier"] = "b"
		} else {
			nl["tier"] = "a"
		}
		md["labels"] = nl
	case "labels-empty": // nil <-> {}: a different map to reflect.DeepEqual
		if _, ok := md["labels"]; ok {
			if ls, _ := md["labels"].(map[string]interface{}); len(ls) == 0 {
				delete(md, "labels")
			} else {
				md["labels"] = J{}
			}
		} else {
			md["labels"] = J{}
		}
	case "annotations":
		as, _ := md["annotations"].(map[string]interface{})
		na := J{}
		for k, v := range as {
			na[k] = v
		}
		na["touched"] = fmt.Sprint(g.r.Intn(50))
		md["annotations"] = na
	case "annotations-empty":
		if _, ok := md["annotations"]; ok {
			delete(md, "annotations")
		} else {
			md["annotations"] = J{}
		}
	case "deletion":
		md["deletionTimestamp"] = "2020-01-03T00:00:00Z"
	case "finalizers":
		if _, ok := md["finalizers"]; ok {
			delete(md, "finalizers")
		} else {
			md["finalizers"] = A{g.fin}
		}
	case "spec-no-generation":
		cur["spec"] = J{"replicas": int64(9), "selector": J{"matchLabels": J{"app": "y"}}}
	}
	return cur
}

func (g *c14Gen) parentEvent(l *c14Live) *c14Event {
	r := g.r
	ctl := &l.spec.Ctl
	ev := &c14Event{Src: "parent"}
	var base J
	if len(l.cache) > 0 && r.Chance(3, 4) {
		base = c14CopyJ(l.cache[r.Intn(len(l.cache))])
		ev.Role = "cached-parent"
	} else {
		ns := []string{"ns1", "ns2", "ns3"}[r.Intn(3)]
		base = c14Canon(g.parentObj(ctl, ns, "q"+fmt.Sprint(r.Intn(3)), "uid-new"))
		c14Meta(base)["resourceVersion"] = "50"
		ev.Role = "new-parent"
	}
	if g.adv && r.Chance(1, 3) {
		g.corruptMeta(c14Meta(base), false)
		base = c14Canon(base)
	}
	switch r.Intn(8) {
	case 0:
		ev.Kind, ev.Obj = "add", base
	case 1:
		ev.Kind, ev.Obj = "delete", base
	case 2:
		ev.Kind, ev.Obj, ev.Key = "tombstone", base, parentKey(base)
	default:
		ev.Kind = "update"
		ev.Upd = c14ParentUpdates[r.Intn(len(c14ParentUpdates))]
		ev.Old = base
		ev.Obj = c14Canon(g.parentUpdate(base, ev.Upd))
	}
	return ev
}

var c14ChildRoles = []string{"owned", "owned", "owned", "wrong-uid", "wrong-kind", "wrong-group", "other-version",
	"other-namespace", "non-controller-ref", "second-ref-controls", "orphan", "orphan", "orphan", "orphan-deleting",
	"owned-deleting", "gen-label", "unknown-owner", "cluster-child"}

func (g *c14Gen) childLabels() interface{} {
	switch g.r.Intn(7) {
	case 0:
		return nil
	case 1:
		return J{"app": "y"}
	case 2:
		return J{"app": "x", "part": "1"}
	case 3:
		return J{"app": "z", "skip": "1"}
	case 4:
		return J{}
	}
	return J{"app": "x"}
}

func (g *c14Gen) childEvent(l *c14Live) *c14Event {
	r := g.r
	ctl := &l.spec.Ctl
	ev := &c14Event{Src: "child"}
	role := c14ChildRoles[r.Intn(len(c14ChildRoles))]
	ev.Role = role
	// the parent the child is built around (a cached one when there is one)
	pname, pns, puid := "p1", "ns1", "uid-ns1-p1"
	var target J
	if len(l.cache) > 0 {
		target = l.cache[r.Intn(len(l.cache))]
		tmd := c14Meta(target)
		pname, _ = tmd["name"].(string)
		pns, _ = tmd["namespace"].(string)
		puid, _ = tmd["uid"].(string)
	}
	cns := pns
	if cns == "" {
		cns = []string{"ns1", "ns2"}[r.Intn(2)]
	}
	md := J{"name": "c" + fmt.Sprint(r.Intn(3)), "namespace": cns, "uid": "uid-child", "resourceVersion": "100"}
	if ls := g.childLabels(); ls != nil {
		md["labels"] = ls
	}
	child := J{"apiVersion": "v1", "kind": "Pod", "metadata": md, "spec": J{}}
	ref := J{"apiVersion": c14APIVersion, "kind": ctl.ParentKind, "name": pname, "uid": puid, "controller": true, "blockOwnerDeletion": true}
	switch role {
	case "owned":
		md["ownerReferences"] = A{ref}
	case "owned-deleting":
		md["ownerReferences"] = A{ref}
		md["deletionTimestamp"] = "2020-01-02T00:00:00Z"
	case "wrong-uid":
		ref["uid"] = "uid-previous-incarnation"
		md["ownerReferences"] = A{ref}
	case "wrong-kind":
		ref["kind"] = []string{"Thing", "ClusterThing", "Other"}[r.Intn(3)]
		if ref["kind"] == ctl.ParentKind {
			ref["kind"] = "Other"
		}
		md["ownerReferences"] = A{ref}
	case "wrong-group":
		ref["apiVersion"] = []string{"other.example.com/v1", "v1", "ctl.example.com", "/v1"}[r.Intn(4)]
		md["ownerReferences"] = A{ref}
	case "other-version":
		ref["apiVersion"] = []string{"ctl.example.com/v2", "ctl.example.com/v1/x", "ctl.example.com/"}[r.Intn(3)]
		md["ownerReferences"] = A{ref}
	case "other-namespace":
		md["namespace"] = []string{"ns1", "ns2", "ns3"}[r.Intn(3)]
		md["ownerReferences"] = A{ref}
	case "non-controller-ref":
		if r.Bool() {
			ref["controller"] = false
		} else {
			delete(ref, "controller")
		}
		md["ownerReferences"] = A{ref}
	case "second-ref-controls":
		md["ownerReferences"] = A{J{"apiVersion": "v1", "kind": "ConfigMap", "name": "cm", "uid": "uid-cm"}, ref}
		if r.Chance(1, 3) { // two controllers: the first one counts
			md["ownerReferences"] = A{J{"apiVersion": "apps/v1", "kind": "ReplicaSet", "name": "rs", "uid": "uid-rs", "controller": true}, ref}
			ev.Role = "foreign-controller-first"
		}
	case "unknown-owner":
		ref["name"] = "nobody"
		md["ownerReferences"] = A{ref}
	case "orphan":
	case "orphan-deleting":
		md["deletionTimestamp"] = "2020-01-02T00:00:00Z"
	case "gen-label": // what a child of a generateSelector parent carries
		md["labels"] = J{"controller-uid": puid, "app": "x"}
	case "cluster-child": // a cluster-scoped child object
		delete(md, "namespace")
		child["kind"] = "Namespace"
		if r.Bool() {
			md["ownerReferences"] = A{ref}
		}
	}
	if g.adv && r.Chance(1, 3) {
		g.corruptMeta(md, true)
		if r.Chance(1, 6) {
			md["ownerReferences"] = A{J{"apiVersion": c14APIVersion, "kind": ctl.ParentKind, "name": pname, "uid": puid, "controller": "true"}}
		}
	}
	child = c14Canon(child)
	switch r.Intn(9) {
	case 0, 1:
		ev.Kind, ev.Obj = "add", child
	case 2:
		ev.Kind, ev.Obj = "delete", child
	case 3:
		ev.Kind, ev.Obj = "tombstone", child
		ev.Key = parentKey(child)
	case 4: // resync replay
		ev.Kind, ev.Old, ev.Obj, ev.Upd = "update", child, c14CopyJ(child), "resync"
	default:
		ev.Kind = "update"
		old := c14CopyJ(child)
		omd := c14Meta(old)
		omd["resourceVersion"] = "99"
		switch r.Intn(4) {
		case 0: // the reference is new
			delete(omd, "ownerReferences")
			ev.Upd = "ref-added"
		case 1: // relabelled
			omd["labels"] = J{"app": "old"}
			ev.Upd = "relabelled"
		case 2: // was owned by a cached parent, now as generated (released / moved)
			omd["ownerReferences"] = A{J{"apiVersion": c14APIVersion, "kind": ctl.ParentKind, "name": "p1", "uid": "uid-ns1-p1", "controller": true}}
			ev.Upd = "owner-was-p1"
		default:
			old["status"] = J{"phase": "Pending"}
			ev.Upd = "status"
		}
		ev.Old, ev.Obj = c14Canon(old), child
	}
	return ev
}

func (g *c14Gen) event(l *c14Live) *c14Event {
	if g.r.Chance(2, 5) {
		return g.parentEvent(l)
	}
	return g.childEvent(l)
}

// ---- hand-written corpus: one world, every clause of the property ----
func c14Corpus() (*c14WorldSpec, []*c14Event) {
	fin := "metacontroller.io/compositecontroller-c14k"
	ctl := ctlSpec{Name: "c14k", ParentAPIVersion: c14APIVersion, ParentResource: "things", ParentKind: "Thing", ParentNamespaced: true,
		CtlSelector: map[string]string{"tier": "a"}, Kids: []kidSpec{kidPool[0]}, Finalize: true}
	mk := func(ns, name string, labels J, fins A, sel interface{}) J {
		md := J{"name": name, "namespace": ns, "uid": "uid-" + ns + "-" + name, "generation": int64(1)}
		if labels != nil {
			md["labels"] = labels
		}
		if fins != nil {
			md["finalizers"] = fins
		}
		return c14Canon(J{"apiVersion": c14APIVersion, "kind": "Thing", "metadata": md, "spec": J{"selector": sel}, "status": J{}})
	}
	selX := J{"matchLabels": J{"app": "x"}}
	spec := &c14WorldSpec{Ctl: ctl, IgnoreStatus: true, Parents: []J{
		mk("ns1", "p1", J{"tier": "a"}, nil, selX),    // matching
		mk("ns1", "p2", J{"tier": "b"}, A{fin}, selX), // unmatching, carries the finalizer
		mk("ns2", "p1", J{"tier": "b"}, nil, selX),    // unmatching
		mk("ns2", "p3", J{"tier": "a"}, nil, J{"matchExpressions": A{J{"key": "app", "operator": "In", "values": A{"x", "y"}}}}),
	}}
	pod := func(ns, name string, labels J, refs A) J {
		md := J{"name": name, "namespace": ns, "uid": "uid-c", "resourceVersion": "100"}
		if labels != nil {
			md["labels"] = labels
		}
		if refs != nil {
			md["ownerReferences"] = refs
		}
		return c14Canon(J{"apiVersion": "v1", "kind": "Pod", "metadata": md})
	}
	ref := func(kind, name, uid string) J {
		return J{"apiVersion": c14APIVersion, "kind": kind, "name": name, "uid": uid, "controller": true}
	}
	older := func(o J) J {
		c := c14CopyJ(o)
		c14Meta(c)["resourceVersion"] = "99"
		return c
	}
	g := &c14Gen{r: vh.NewRng(1), fin: fin}
	var evs []*c14Event
	for _, p := range spec.Parents {
		q := c14CopyJ(p)
		c14Meta(q)["resourceVersion"] = "10"
		evs = append(evs,
			&c14Event{Src: "parent", Kind: "add", Obj: q, Role: "corpus"},
			&c14Event{Src: "parent", Kind: "delete", Obj: q, Role: "corpus"},
			&c14Event{Src: "parent", Kind: "tombstone", Obj: q, Key: parentKey(q), Role: "corpus"})
		for _, u := range c14ParentUpdates {
			evs = append(evs, &c14Event{Src: "parent", Kind: "update", Old: q, Obj: c14Canon(g.parentUpdate(q, u)), Role: "corpus", Upd: u})
		}
	}
	owned := pod("ns1", "c1", J{"app": "x"}, A{ref("Thing", "p1", "uid-ns1-p1")})
	for _, c := range []J{
		owned,
		pod("ns1", "c2", nil, A{ref("Thing", "p1", "uid-old")}),           // right name, wrong UID
		pod("ns1", "c3", nil, A{ref("ClusterThing", "p1", "uid-ns1-p1")}), // right name and UID, wrong kind
		pod("ns2", "c4", nil, A{ref("Thing", "p1", "uid-ns1-p1")}),        // the reference cannot cross namespaces
		pod("ns1", "c5", nil, A{ref("Thing", "p2", "uid-ns1-p2")}),        // unmatching parent that carries the finalizer
		pod("ns2", "c6", nil, A{ref("Thing", "p1", "uid-ns2-p1")}),        // unmatching parent without finalizer
		pod("ns1", "c7", J{"app": "x"}, nil),                              // orphan: p1 selects it (p2 too, but p2...)
		pod("ns2", "c8", J{"app": "y"}, nil),                              // orphan: only p3's matchExpressions
		pod("ns3", "c9", J{"app": "x"}, nil),                              // orphan in a namespace without parents
		pod("ns1", "c10", J{"app": "q"}, nil),                             // orphan nobody selects
	} {
		evs = append(evs,
			&c14Event{Src: "child", Kind: "add", Obj: c, Role: "corpus"},
			&c14Event{Src: "child", Kind: "update", Old: older(c), Obj: c, Role: "corpus"},
			&c14Event{Src: "child", Kind: "update", Old: c, Obj: c14CopyJ(c), Role: "corpus", Upd: "resync"},
			&c14Event{Src: "child", Kind: "delete", Obj: c, Role: "corpus"},
			&c14Event{Src: "child", Kind: "tombstone", Obj: c, Key: parentKey(c), Role: "corpus"})
	}
	return spec, evs
}

// ---- features, signature ----
func c14Has(o J, path ...string) bool {
	var v interface{} = map[string]interface{}(o)
	for _, p := range path {
		m, ok := v.(map[string]interface{})
		if !ok {
			return false
		}
		v, ok = m[p]
		if !ok {
			return false
		}
	}
	return true
}

func c14Record(w *vh.CaseWriter, l *c14Live, ev *c14Event, keys []string, flavour string) {
	w.Count("flavour-" + flavour)
	w.Count("event-" + ev.Src + "-" + ev.Kind)
	w.Count("role-" + ev.Role)
	if ev.Upd != "" {
		w.Count("update-" + ev.Src + "-" + ev.Upd)
	}
	w.Count(fmt.Sprintf("enqueued-%d", len(keys)))
	w.Count(fmt.Sprintf("cached-parents-%d", len(l.cache)))
	if l.spec.Ctl.ParentNamespaced {
		w.Count("parents-namespaced")
	} else {
		w.Count("parents-cluster-scoped")
	}
	if l.spec.Ctl.GenSelector {
		w.Count("generate-selector")
	}
	if l.spec.IgnoreStatus {
		w.Count("ignore-status-changes")
	}
	if ev.Kind == "tombstone" {
		w.Count(ev.Src + "-tombstone")
	}
	if ev.Src == "child" && !c14Has(ev.Obj, "metadata", "ownerReferences") {
		w.Count("child-orphan")
	}
	// non-trivial: a parent event, or a child event that names a cached parent or is an orphan with cached parents
	if len(l.cache) > 0 || ev.Src == "parent" {
		w.NonTrivial(vh.Sig(flavour, ev.Src, ev.Kind, ev.Role, ev.Upd, l.spec.Ctl.ParentNamespaced, l.spec.Ctl.GenSelector,
			l.spec.IgnoreStatus, l.spec.Ctl.CtlSelector != nil, len(keys)))
	}
}

// c14Features: what known-findings entries match on
func c14Features(src, kind, role, upd string) []string {
	f := []string{src + "-" + kind, "role-" + role}
	if upd != "" {
		f = append(f, "update-"+upd)
	}
	return f
}

func TestVerif_C14(t *testing.T) {
	env := vh.GetEnv()
	if env.OutDir == "" {
		t.Skip("VERIF_OUT not set")
	}
	header := "From MC Require Import Check.C14_check.\nOpen Scope string_scope.\n"
	w, err := vh.NewCaseWriter(env.OutDir, "C14", header, 60)
	if err != nil {
		t.Fatal(err)
	}
	emit := func(id string, l *c14Live, ev *c14Event) {
		keys := l.run(ev)
		replay := J{"world": l.spec, "event": ev, "enqueued": keys, "features": c14Features(ev.Src, ev.Kind, ev.Role, ev.Upd)}
		if err := w.Add(id, c14CoqCase(l, ev, keys), "C14_check", replay); err != nil {
			t.Fatal(err)
		}
		c14Record(w, l, ev, keys, "composite")
	}
	if env.Replay != "" {
		data, err := os.ReadFile(env.Replay)
		if err != nil {
			t.Fatal(err)
		}
		var rf struct {
			Case struct {
				World *c14WorldSpec `json:"world"`
				Event *c14Event     `json:"event"`
			} `json:"case"`
		}
		if err := json.Unmarshal(data, &rf); err != nil || rf.Case.World == nil || rf.Case.Event == nil {
			t.Fatalf("cannot read replay: %v", err)
		}
		spec := rf.Case.World
		for i := range spec.Parents {
			spec.Parents[i] = c14Canon(spec.Parents[i])
		}
		ev := rf.Case.Event
		ev.Obj = c14Canon(ev.Obj)
		if ev.Old != nil {
			ev.Old = c14Canon(ev.Old)
		}
		l, err := c14Build(spec)
		if err != nil {
			t.Fatal(err)
		}
		emit("r0", l, ev)
		l.close()
		if err := w.Close(nil); err != nil {
			t.Fatal(err)
		}
		return
	}
	// corpus
	cspec, cevs := c14Corpus()
	for _, ign := range []bool{true, false} {
		s := *cspec
		s.IgnoreStatus = ign
		l, err := c14Build(&s)
		if err != nil {
			t.Fatal(err)
		}
		for i, ev := range cevs {
			if !ign && ev.Src == "child" {
				continue
			}
			emit(fmt.Sprintf("k%v_%d", ign, i), l, ev)
		}
		l.close()
	}
	n := env.N
	if n == 0 {
		n = 300
	}
	const perWorld = 12
	root := vh.NewRng(env.Seed ^ 0xc14)
	adv := os.Getenv("VERIF_ADV") == "1"
	for wi := 0; wi*perWorld < n; wi++ {
		r, _ := root.Fork()
		g := &c14Gen{r: r, adv: adv && wi%2 == 1}
		spec := g.world(wi)
		g.fin = "metacontroller.io/compositecontroller-" + spec.Ctl.Name
		l, err := c14Build(spec)
		if err != nil {
			t.Fatalf("world %d: %v", wi, err)
		}
		for ei := 0; ei < perWorld && wi*perWorld+ei < n; ei++ {
			emit(fmt.Sprintf("w%d_e%d", wi, ei), l, g.event(l))
		}
		l.close()
	}
	if err := w.Close(nil); err != nil {
		t.Fatal(err)
	}
	fmt.Fprintf(os.Stderr, "C14: wrote %d cases\n", w.Total)
}
