package composite

// C15: the customize hook and the related objects handed to sync / finalize.
// Real controller builds over the simulated API server; a scripted customize
// hook returns generated rule sets; per build several real worker steps and
// direct GetRelatedObjects calls share one customize.Manager.

import (
	"context"
	"fmt"
	"net/http"
	"os"
	"reflect"
	"sort"
	"strings"
	"sync"
	"sync/atomic"
	"testing"
	"time"
	"unsafe"

	"k8s.io/apimachinery/pkg/apis/meta/v1/unstructured"
	"k8s.io/apimachinery/pkg/runtime"
	k8sjson "k8s.io/apimachinery/pkg/util/json"
	utilruntime "k8s.io/apimachinery/pkg/util/runtime"
	clientgocache "k8s.io/client-go/tools/cache"

	"metacontroller/pkg/controller/common"
	dynamicinformer "metacontroller/pkg/dynamic/informer"
	vh "metacontroller/pkg/internal/verifh"
)

// ---- scenario (plain data: replays from its JSON) ----

type c15Hook struct {
	Rules []interface{}            `json:"rules"` // default answer: {"relatedResources": rules}
	ByGen map[string][]interface{} `json:"byGen"` // parent generation -> rules
	Raw   string                   `json:"raw"`   // raw response body instead of rules
	Fail  []string                 `json:"fail"`  // per customize call: "" | "500" | "net" | "429" | "garbage"
}

type c15Step struct {
	Kind       string `json:"kind"`       // sync | probe
	Generation int64  `json:"generation"` // probe: generation of the parent handed in (0 = as cached)
	UID        string `json:"uid"`        // probe: UID of the parent handed in ("" = as cached)
}

type c15Build struct {
	BumpGeneration bool      `json:"bumpGeneration"` // edit the parent in the store before the caches are filled
	Steps          []c15Step `json:"steps"`
}

type c15Scenario struct {
	Seed     uint64     `json:"seed"`
	Family   string     `json:"family"`
	Ctl      ctlSpec    `json:"ctl"`
	Parent   J          `json:"parent"`
	Objects  []J        `json:"objects"`
	Hook     c15Hook    `json:"hook"`
	Children []J        `json:"children"` // what the sync hook returns
	Builds   []c15Build `json:"builds"`
	Wake     bool       `json:"wake"`
	// update probes after the last sync: a related-object UPDATE whose old and new state are on different sides of the
	// parent's selection: leave | enter | neither | both
	UpdateProbes []string `json:"updateProbes"`
	// delete probes after the last sync: deletions of objects inside and outside the related map, delivered to the
	// handler the shared informer calls, plain and as a DeletedFinalStateUnknown tombstone
	DeleteProbes bool `json:"deleteProbes"`
	// cold-cache wake probes: the handler must wake a parent whose customize answer is not cached
	ColdFlush bool     `json:"coldFlush"` // (b) after the last sync empty the manager's response cache, then change related objects
	Parent2   J        `json:"parent2"`   // (a) a second parent of the same controller that is never synced on this manager
	Features  []string `json:"features"`
}

var c15Related = []kidSpec{
	{APIVersion: "v1", Resource: "pods", Kind: "Pod", Namespaced: true},
	{APIVersion: "apps.example.com/v1", Resource: "widgets", Kind: "Widget", Namespaced: true},
	{APIVersion: "v1", Resource: "namespaces", Kind: "Namespace", Namespaced: false},
}

// panics caught inside informer handler goroutines (utilruntime.HandleCrash) during the current scenario
var c15HandlerPanics int32

// ---- hook transport ----

type c15HookState struct {
	mu             sync.Mutex
	customizeCalls int
	byParent       map[string]int // customize calls per parent name
}

// c15RulesFor: what the scripted customize hook answers for a parent of this generation
func (sc *c15Scenario) c15RulesFor(gen int64) []interface{} {
	rules := sc.Hook.Rules
	if rs, ok := sc.Hook.ByGen[fmt.Sprint(gen)]; ok {
		rules = rs
	}
	if rules == nil {
		rules = []interface{}{}
	}
	return rules
}

func (sc *c15Scenario) c15HookFunc(w *cworld, st *c15HookState) vh.HookFunc {
	return func(url string, hdr http.Header, req map[string]interface{}) (int, map[string]string, []byte, bool) {
		h := map[string]string{"X-Verif-Seq": fmt.Sprint(len(w.srv.Log()))}
		if strings.HasSuffix(url, "/customize") {
			st.mu.Lock()
			idx := st.customizeCalls
			st.customizeCalls++
			if parent, ok := req["parent"].(map[string]interface{}); ok {
				if md, ok := parent["metadata"].(map[string]interface{}); ok {
					if n, ok := md["name"].(string); ok {
						if st.byParent == nil {
							st.byParent = map[string]int{}
						}
						st.byParent[n]++
					}
				}
			}
			st.mu.Unlock()
			if idx < len(sc.Hook.Fail) {
				switch sc.Hook.Fail[idx] {
				case "500":
					return 500, h, []byte("boom"), false
				case "net":
					return 0, nil, nil, true
				case "429":
					h["Retry-After"] = "7"
					return 429, h, []byte(""), false
				case "garbage":
					return 200, h, []byte("{not json"), false
				case "empty":
					return 200, h, []byte(""), false
				case "429-no-retry-after":
					return 429, h, []byte(""), false
				case "":
				default:
					var code int
					if _, err := fmt.Sscanf(sc.Hook.Fail[idx], "%d", &code); err == nil && code >= 300 {
						return code, h, []byte("upstream says no"), false
					}
				}
			}
			if sc.Hook.Raw != "" {
				return 200, h, []byte(sc.Hook.Raw), false
			}
			var gen int64
			if parent, ok := req["parent"].(map[string]interface{}); ok {
				if md, ok := parent["metadata"].(map[string]interface{}); ok {
					gen, _ = md["generation"].(int64)
				}
			}
			body, _ := k8sjson.Marshal(J{"relatedResources": sc.c15RulesFor(gen)})
			return 200, h, body, false
		}
		// sync / finalize: report how many related objects arrived
		n := 0
		if rm, ok := req["related"].(map[string]interface{}); ok {
			for _, g := range rm {
				if gm, ok := g.(map[string]interface{}); ok {
					n += len(gm)
				}
			}
		}
		resp := J{"status": J{"related": int64(n)}}
		cl := A{}
		finalizing, _ := req["finalizing"].(bool)
		if finalizing {
			resp["finalized"] = true
		} else {
			for _, c := range sc.Children {
				cl = append(cl, runtime.DeepCopyJSON(c))
			}
		}
		resp["children"] = cl
		body, _ := k8sjson.Marshal(resp)
		return 200, h, body, false
	}
}

// ---- running ----

type c15StepRec struct {
	Kind string
	// sync
	Round *roundRec
	// probe
	Parent J
	Cache  map[string][]map[string]interface{}
	Events []event
	Result string // ok | err | panic
	Wire   interface{}
	Msg    string
}

type c15WakeRec struct {
	Obj   string
	Woken bool
}

// one cold-cache probe: parent whose answer is not cached, the answer the hook gives for it, the changed object
type c15ColdRec struct {
	Parent J
	Answer interface{}
	Obj    J
	Woken  bool
}

// one update probe: the object as the informer held it, the object as the MODIFIED event carried it
type c15UpdRec struct {
	Kind   string
	Parent J
	Answer interface{}
	Old    J
	New    J
	Woken  bool
}

type c15Rec struct {
	// C17c: per step, "" or which object held by a shared informer (related resources, parent) the step changed
	CacheMutated []string
	Updates      []c15UpdRec
	Sc           *c15Scenario
	Builds       [][]c15StepRec
	Wakes        []c15WakeRec
	Cold         []c15ColdRec
	ColdCalls    int // customize calls caused by the cold probes (for the cold parent); -1 = no cold probe ran
}

// relatedCacheView: what a related informer created during this build will LIST (the frozen views).
func (w *cworld) c15RelatedView() map[string][]map[string]interface{} {
	out := map[string][]map[string]interface{}{}
	for _, k := range c15Related {
		out[resKey(k.Resource, k.APIVersion)] = []map[string]interface{}{}
	}
	for _, o := range w.srv.AllLive() {
		for _, k := range c15Related {
			if o["apiVersion"] == k.APIVersion && o["kind"] == k.Kind {
				key := resKey(k.Resource, k.APIVersion)
				out[key] = append(out[key], o)
			}
		}
	}
	return out
}

func c15Run(sc *c15Scenario) (*c15Rec, error) {
	w := newWorld()
	defer w.close()
	st := &c15HookState{}
	hookTransport.Set(sc.c15HookFunc(w, st))
	w.srv.Seed(runtime.DeepCopyJSON(sc.Parent))
	for _, o := range sc.Objects {
		w.srv.Seed(runtime.DeepCopyJSON(o))
	}
	key := parentKey(sc.Parent)
	pmd := sc.Parent["metadata"].(map[string]interface{})
	pns, _ := pmd["namespace"].(string)
	pname, _ := pmd["name"].(string)
	out := &c15Rec{Sc: sc, ColdCalls: -1}
	p2name := ""
	if sc.Parent2 != nil {
		w.srv.Seed(runtime.DeepCopyJSON(sc.Parent2))
		p2name, _ = sc.Parent2["metadata"].(map[string]interface{})["name"].(string)
	}
	atomic.StoreInt32(&c15HandlerPanics, 0)
	hasNull := false
	for _, f := range sc.Features {
		if f == "null-rule" {
			hasNull = true
		}
	}
	for bi, bs := range sc.Builds {
		if bs.BumpGeneration {
			cur := w.srv.GetLive(sc.Ctl.ParentAPIVersion, sc.Ctl.ParentKind, pns, pname)
			if cur != nil {
				md := cur["metadata"].(map[string]interface{})
				g, _ := md["generation"].(int64)
				md["generation"] = g + 1
				delete(md, "resourceVersion")
				sp, _ := cur["spec"].(map[string]interface{})
				if sp != nil {
					sp["note"] = fmt.Sprintf("edit%d", bi)
				}
				w.srv.Seed(cur)
			}
		}
		w.freezeViews()
		view := w.c15RelatedView()
		b, err := w.buildPC(&sc.Ctl)
		if err != nil {
			return nil, err
		}
		var oracle *c15CacheOracle
		if c15WithCacheOracle {
			oracle = c15NewCacheOracle(b, pns, pname)
		}
		var recs []c15StepRec
		var lastRelated map[string]interface{}
		lastDone := false
		for _, stp := range bs.Steps {
			oracle.before()
			switch stp.Kind {
			case "sync":
				rec := w.runSync(&sc.Ctl, b, key)
				if p2name != "" {
					// the related informer's first events make the handler ask the hook for the un-synced
					// parent, from another goroutine: those calls are not part of this sync
					kept := rec.Events[:0]
					for _, e := range rec.Events {
						if e.Hook != nil && c15HookParentName(e.Hook.Req) == p2name {
							continue
						}
						kept = append(kept, e)
					}
					rec.Events = kept
				}
				for k, objs := range view {
					if _, ok := rec.CacheChildren[k]; !ok {
						rec.CacheChildren[k] = objs
					}
				}
				recs = append(recs, c15StepRec{Kind: "sync", Round: rec})
				lastDone = rec.Result == "done"
				lastRelated = nil
				for _, e := range rec.Events {
					if e.Hook != nil && !strings.HasSuffix(e.Hook.URL, "/customize") {
						if rq, ok := e.Hook.Req.(map[string]interface{}); ok {
							lastRelated, _ = rq["related"].(map[string]interface{})
						}
					}
				}
			case "probe":
				// the parent as the informer holds it
				var cached map[string]interface{}
				if lp, err := common.GetObject(b.pc.parentInformer, pns, pname); err == nil {
					cached = runtime.DeepCopyJSON(lp.Object)
				}
				if cached == nil {
					continue
				}
				md := cached["metadata"].(map[string]interface{})
				if stp.Generation != 0 {
					md["generation"] = stp.Generation
				}
				if stp.UID != "" {
					md["uid"] = stp.UID
				}
				sr := c15StepRec{Kind: "probe", Parent: runtime.DeepCopyJSON(cached), Cache: view}
				hookTransport.ResetCalls()
				pu := &unstructured.Unstructured{Object: cached}
				func() {
					defer func() {
						if r := recover(); r != nil {
							sr.Result = "panic"
							sr.Msg = fmt.Sprint(r)
						}
					}()
					m, err := b.pc.customize.GetRelatedObjects(pu)
					if err != nil {
						sr.Result = "err"
						sr.Msg = err.Error()
						return
					}
					data, err := k8sjson.Marshal(m.Convert(pu))
					if err != nil {
						sr.Result = "err"
						sr.Msg = "marshal: " + err.Error()
						return
					}
					var v interface{}
					_ = k8sjson.Unmarshal(data, &v)
					sr.Result = "ok"
					sr.Wire = v
				}()
				for _, c := range hookTransport.Calls() {
					cc := c
					sr.Events = append(sr.Events, event{Hook: &cc})
				}
				recs = append(recs, sr)
			}
			if oracle != nil {
				out.CacheMutated = append(out.CacheMutated, oracle.after())
			}
		}
		// does a change of an object in the related map wake the parent? (the real informer handlers)
		last := bi == len(sc.Builds)-1
		if sc.Wake && last && lastDone && lastRelated != nil {
			out.Wakes = c15WakeProbe(w, b, key, lastRelated)
		}
		// (b) the answer has left the cache (expired / never stored): the handler has to ask again and still wake
		if sc.ColdFlush && last && lastDone && lastRelated != nil && c15RelatedCount(lastRelated) > 0 && c15FlushCustomizeCache(b) {
			if lp, err := common.GetObject(b.pc.parentInformer, pns, pname); err == nil {
				parent := runtime.DeepCopyJSON(lp.Object)
				gen, _ := parent["metadata"].(map[string]interface{})["generation"].(int64)
				answer := J{"relatedResources": sc.c15RulesFor(gen)}
				before := st.parentCalls(pname)
				for _, o := range c15PickRelated(lastRelated, 2) {
					woken := c15Touch(w, b, key, o, "999998", 2*time.Second)
					out.Cold = append(out.Cold, c15ColdRec{Parent: parent, Answer: c15Normalize(answer), Obj: o, Woken: woken})
				}
				out.ColdCalls = st.parentCalls(pname) - before
			}
		}
		// (a) a parent that was never synced on this manager: its rules are only known to the hook
		if p2name != "" && last && lastDone {
			p2ns, _ := sc.Parent2["metadata"].(map[string]interface{})["namespace"].(string)
			if lp, err := common.GetObject(b.pc.parentInformer, p2ns, p2name); err == nil {
				parent := runtime.DeepCopyJSON(lp.Object)
				gen, _ := parent["metadata"].(map[string]interface{})["generation"].(int64)
				answer := J{"relatedResources": sc.c15RulesFor(gen)}
				time.Sleep(5 * time.Millisecond) // the informer's first events have long been handled
				for _, o := range c15PickCached(view["pods.v1"], p2ns, 3) {
					woken := c15Touch(w, b, parentKey(sc.Parent2), o, "999997", 400*time.Millisecond)
					out.Cold = append(out.Cold, c15ColdRec{Parent: parent, Answer: c15Normalize(answer), Obj: o, Woken: woken})
				}
				out.ColdCalls = st.parentCalls(p2name)
			}
		}
		if len(sc.UpdateProbes) > 0 && sc.Hook.Raw == "" && last && lastDone && lastRelated != nil && sc.Parent2 == nil {
			if lp, err := common.GetObject(b.pc.parentInformer, pns, pname); err == nil {
				parent := runtime.DeepCopyJSON(lp.Object)
				gen, _ := parent["metadata"].(map[string]interface{})["generation"].(int64)
				answer := c15Normalize(J{"relatedResources": sc.c15RulesFor(gen)})
				out.Updates = c15UpdateProbes(w, b, key, parent, answer, sc.UpdateProbes, lastRelated, view)
			}
		}
		if sc.DeleteProbes && sc.Hook.Raw == "" && last && lastDone && lastRelated != nil && sc.Parent2 == nil {
			if lp, err := common.GetObject(b.pc.parentInformer, pns, pname); err == nil {
				parent := runtime.DeepCopyJSON(lp.Object)
				gen, _ := parent["metadata"].(map[string]interface{})["generation"].(int64)
				answer := c15Normalize(J{"relatedResources": sc.c15RulesFor(gen)})
				out.Updates = append(out.Updates, c15DeleteProbes(w, b, key, parent, answer, lastRelated, view)...)
			}
		}
		if hasNull {
			// let the related informers deliver their initial add events to the real handlers
			time.Sleep(20 * time.Millisecond)
		}
		oracle.close()
		b.close()
		out.Builds = append(out.Builds, recs)
	}
	if n := atomic.LoadInt32(&c15HandlerPanics); n > 0 {
		out.Wakes = append(out.Wakes, c15WakeRec{Obj: "informer-handler-panicked", Woken: false})
	}
	return out, nil
}

func (st *c15HookState) parentCalls(name string) int {
	st.mu.Lock()
	defer st.mu.Unlock()
	return st.byParent[name]
}

func c15HookParentName(req interface{}) string {
	rq, _ := req.(map[string]interface{})
	p, _ := rq["parent"].(map[string]interface{})
	md, _ := p["metadata"].(map[string]interface{})
	n, _ := md["name"].(string)
	return n
}

func c15Normalize(v interface{}) interface{} {
	data, _ := k8sjson.Marshal(v)
	var out interface{}
	_ = k8sjson.Unmarshal(data, &out)
	return out
}

func c15RelatedCount(related map[string]interface{}) int {
	n := 0
	for _, g := range related {
		if gm, ok := g.(map[string]interface{}); ok {
			n += len(gm)
		}
	}
	return n
}

// c15FlushCustomizeCache empties the manager's response cache (what expiry does), through the zcache object
// inside the unexported field.
func c15FlushCustomizeCache(b *builtPC) (ok bool) {
	defer func() {
		if r := recover(); r != nil {
			ok = false
		}
	}()
	f := reflect.ValueOf(b.pc.customize).Elem().FieldByName("customizeCache")
	f = reflect.NewAt(f.Type(), unsafe.Pointer(f.UnsafeAddr())).Elem()
	inner := f.Elem().FieldByName("cache")
	inner = reflect.NewAt(inner.Type(), unsafe.Pointer(inner.UnsafeAddr())).Elem()
	m := inner.MethodByName("Reset")
	if !m.IsValid() {
		return false
	}
	m.Call(nil)
	return inner.MethodByName("ItemCount").Call(nil)[0].Int() == 0
}

// c15PickRelated: up to perGroup objects of every group of a wire-format related map, in a fixed order
func c15PickRelated(related map[string]interface{}, perGroup int) []J {
	var out []J
	gks := make([]string, 0, len(related))
	for gk := range related {
		gks = append(gks, gk)
	}
	sort.Strings(gks)
	for _, gk := range gks {
		gm, _ := related[gk].(map[string]interface{})
		names := make([]string, 0, len(gm))
		for n := range gm {
			names = append(names, n)
		}
		sort.Strings(names)
		if len(names) > perGroup {
			names = names[:perGroup]
		}
		for _, n := range names {
			if o, _ := gm[n].(map[string]interface{}); o != nil {
				out = append(out, o)
			}
		}
	}
	return out
}

// c15PickCached: up to n cached objects, those of the parent's namespace first
func c15PickCached(objs []map[string]interface{}, ns string, n int) []J {
	var first, rest []J
	for _, o := range objs {
		md, _ := o["metadata"].(map[string]interface{})
		ons, _ := md["namespace"].(string)
		if ns == "" || ons == ns {
			first = append(first, o)
		} else {
			rest = append(rest, o)
		}
	}
	if len(first) > n-1 && len(rest) > 0 {
		first = first[:n-1] // keep room for one object the parent must not be woken by
	}
	out := append(first, rest...)
	if len(out) > n {
		out = out[:n]
	}
	return out
}

// c15Touch sends a MODIFIED event for o through the watch and waits until the real handlers enqueue key
func c15Touch(w *cworld, b *builtPC, key string, o J, rv string, timeout time.Duration) bool {
	av, _ := o["apiVersion"].(string)
	kind, _ := o["kind"].(string)
	deadline := time.Now().Add(3 * time.Second)
	for w.srv.WatchCount(av, kind) == 0 && time.Now().Before(deadline) {
		time.Sleep(200 * time.Microsecond)
	}
	cur := runtime.DeepCopyJSON(o)
	md := cur["metadata"].(map[string]interface{})
	md["resourceVersion"] = rv
	ann, _ := md["annotations"].(map[string]interface{})
	if ann == nil {
		ann = map[string]interface{}{}
	}
	ann["touched"] = rv
	md["annotations"] = ann
	return c15Emit(w, b, key, cur, timeout)
}

// c15Emit sends cur as a MODIFIED event and waits until the real handlers enqueue key
func c15Emit(w *cworld, b *builtPC, key string, cur J, timeout time.Duration) bool {
	av, _ := cur["apiVersion"].(string)
	kind, _ := cur["kind"].(string)
	deadline := time.Now().Add(3 * time.Second)
	for w.srv.WatchCount(av, kind) == 0 && time.Now().Before(deadline) {
		time.Sleep(200 * time.Microsecond)
	}
	b.queue.Reset()
	w.srv.Emit("MODIFIED", cur)
	deadline = time.Now().Add(timeout)
	for time.Now().Before(deadline) {
		for _, op := range b.queue.Snapshot() {
			if op.Op == "Add" && op.Key == key {
				return true
			}
		}
		time.Sleep(200 * time.Microsecond)
	}
	return false
}

func c15Relabel(o J, labels J, rv string) J {
	cur := runtime.DeepCopyJSON(o)
	md := cur["metadata"].(map[string]interface{})
	md["resourceVersion"] = rv
	if labels == nil {
		delete(md, "labels")
	} else {
		md["labels"] = runtime.DeepCopyJSON(labels)
	}
	return cur
}

// c15UpdateProbes: UPDATE events that move an object across the border of the parent's selection.
// The harness only proposes the moves; which side each state is on is judged by the check.
func c15UpdateProbes(w *cworld, b *builtPC, key string, parent J, answer interface{}, kinds []string,
	related map[string]interface{}, view map[string][]map[string]interface{}) []c15UpdRec {
	pns, _ := parent["metadata"].(map[string]interface{})["namespace"].(string)
	inMap := c15PickRelated(related, 1000)
	isRelated := map[string]bool{}
	for _, o := range inMap {
		isRelated[objKey(o)] = true
	}
	// objects the informers hold that are not in the map (related informers exist only for resources some rule named)
	var outside []J
	vkeys := make([]string, 0, len(view))
	for k := range view {
		vkeys = append(vkeys, k)
	}
	sort.Strings(vkeys)
	for _, k := range vkeys {
		for _, o := range view[k] {
			av, _ := o["apiVersion"].(string)
			kd, _ := o["kind"].(string)
			ons, _ := o["metadata"].(map[string]interface{})["namespace"].(string)
			if isRelated[objKey(o)] || w.srv.WatchCount(av, kd) == 0 || (pns != "" && ons != pns) {
				continue
			}
			outside = append(outside, o)
		}
	}
	labelsOf := func(o J) J {
		l, _ := o["metadata"].(map[string]interface{})["labels"].(map[string]interface{})
		return l
	}
	var out []c15UpdRec
	probe := func(kind string, old, cur J) {
		woken := c15Emit(w, b, key, cur, 250*time.Millisecond)
		out = append(out, c15UpdRec{Kind: kind, Parent: parent, Answer: answer, Old: old, New: cur, Woken: woken})
	}
	// the same event handed synchronously to the handler the shared informer calls: no waiting, so these probes
	// can also afford the answers "not woken"
	direct := func(kind string, old, cur J) {
		woken, ok := c15Direct(w, b, key, "update", old, cur)
		if ok {
			out = append(out, c15UpdRec{Kind: kind, Parent: parent, Answer: answer, Old: old, New: cur, Woken: woken})
		}
	}
	retier := func(o J) J { // the other value of the key the expressions look at
		l := J{}
		for k, v := range labelsOf(o) {
			l[k] = v
		}
		switch l["tier"] {
		case "x":
			l["tier"] = "y"
		default:
			l["tier"] = "x"
		}
		return c15Relabel(o, l, "999994")
	}
	untier := func(o J) J { // presence of that key toggled
		l := J{}
		for k, v := range labelsOf(o) {
			l[k] = v
		}
		if _, has := l["tier"]; has {
			delete(l, "tier")
		} else {
			l["tier"] = "x"
		}
		return c15Relabel(o, l, "999995")
	}
	ri, oi := 0, 0
	for _, kind := range kinds {
		switch kind {
		case "retier-in":
			for _, o := range inMap {
				direct(kind, o, retier(o))
			}
		case "untier-in":
			for _, o := range inMap {
				direct(kind, o, untier(o))
			}
		case "retier-out":
			for _, o := range outside {
				direct(kind, o, retier(o))
			}
		case "untier-out":
			for _, o := range outside {
				direct(kind, o, untier(o))
			}
		case "leave": // in the map before; relabelled so that a label rule lets go of it
			if ri < len(inMap) {
				probe(kind, inMap[ri], c15Relabel(inMap[ri], J{"left": "yes"}, "999990"))
				ri++
			}
		case "both": // in the map before and, with one more label, after
			if ri < len(inMap) {
				l := J{"extra": "1"}
				for k, v := range labelsOf(inMap[ri]) {
					l[k] = v
				}
				probe(kind, inMap[ri], c15Relabel(inMap[ri], l, "999991"))
				ri++
			}
		case "enter": // not in the map before; gets the labels of an object of its kind that is
			if oi < len(outside) {
				o := outside[oi]
				l := J{"tier": "x", "env": "p"}
				for _, r := range inMap {
					if r["kind"] == o["kind"] && labelsOf(r) != nil {
						l = labelsOf(r)
						break
					}
				}
				direct(kind, o, c15Relabel(o, l, "999992"))
				oi++
			}
		case "neither":
			if oi < len(outside) {
				direct(kind, outside[oi], c15Relabel(outside[oi], J{"other": "q"}, "999993"))
				oi++
			}
		}
	}
	return out
}

// c15SharedHandler: the one event handler the shared informer of a resource really calls (it fans out to the
// handlers of all subscribers, the customize manager's among them)
func c15SharedHandler(b *builtPC, av, kind string) (h clientgocache.ResourceEventHandler, done func()) {
	done = func() {}
	defer func() {
		if r := recover(); r != nil {
			h = nil
		}
	}()
	f := c15Factory(b)
	if f == nil {
		return nil, done
	}
	for _, k := range c15Related {
		if k.APIVersion != av || k.Kind != kind {
			continue
		}
		ri, err := f.Resource(k.APIVersion, k.Resource)
		if err != nil {
			return nil, done
		}
		done = ri.Close
		sri := reflect.ValueOf(ri).Elem().FieldByName("sharedResourceInformer")
		sri = reflect.NewAt(sri.Type(), unsafe.Pointer(sri.UnsafeAddr())).Elem()
		eh := sri.Elem().FieldByName("eventHandlers")
		eh = reflect.NewAt(eh.Type(), unsafe.Pointer(eh.UnsafeAddr())).Elem()
		h, _ = eh.Interface().(clientgocache.ResourceEventHandler)
		return h, done
	}
	return nil, done
}

// c15Direct hands one event to that handler, on this goroutine: update (old, cur), delete (old), or delete-tombstone
// (old wrapped as the DeletedFinalStateUnknown value a relist produces). ok = the resource has a related informer.
func c15Direct(w *cworld, b *builtPC, key, what string, old, cur J) (woken, ok bool) {
	av, _ := old["apiVersion"].(string)
	kind, _ := old["kind"].(string)
	if w.srv.WatchCount(av, kind) == 0 {
		return false, false
	}
	h, done := c15SharedHandler(b, av, kind)
	defer done()
	if h == nil {
		return false, false
	}
	oldU := &unstructured.Unstructured{Object: runtime.DeepCopyJSON(old)}
	b.queue.Reset()
	func() {
		defer func() {
			if r := recover(); r != nil {
				atomic.AddInt32(&c15HandlerPanics, 1)
			}
		}()
		switch what {
		case "update":
			h.OnUpdate(oldU, &unstructured.Unstructured{Object: runtime.DeepCopyJSON(cur)})
		case "delete":
			h.OnDelete(oldU)
		case "delete-tombstone":
			k := oldU.GetName()
			if oldU.GetNamespace() != "" {
				k = oldU.GetNamespace() + "/" + k
			}
			h.OnDelete(clientgocache.DeletedFinalStateUnknown{Key: k, Obj: oldU})
		}
	}()
	for _, op := range b.queue.Snapshot() {
		if op.Op == "Add" && op.Key == key {
			woken = true
		}
	}
	return woken, true
}

// c15DeleteProbes: deletions of up to two objects of the related map and up to two outside it, each delivered plain
// and as a tombstone
func c15DeleteProbes(w *cworld, b *builtPC, key string, parent J, answer interface{},
	related map[string]interface{}, view map[string][]map[string]interface{}) []c15UpdRec {
	pns, _ := parent["metadata"].(map[string]interface{})["namespace"].(string)
	inMap := c15PickRelated(related, 1)
	isRelated := map[string]bool{}
	for _, o := range c15PickRelated(related, 1000) {
		isRelated[objKey(o)] = true
	}
	var objs []J
	if len(inMap) > 2 {
		inMap = inMap[:2]
	}
	objs = append(objs, inMap...)
	vkeys := make([]string, 0, len(view))
	for k := range view {
		vkeys = append(vkeys, k)
	}
	sort.Strings(vkeys)
	nout := 0
	for _, k := range vkeys {
		for _, o := range view[k] {
			ons, _ := o["metadata"].(map[string]interface{})["namespace"].(string)
			if nout < 2 && !isRelated[objKey(o)] && (pns == "" || ons == pns) {
				objs = append(objs, o)
				nout++
			}
		}
	}
	var out []c15UpdRec
	for _, o := range objs {
		for _, what := range []string{"delete", "delete-tombstone"} {
			if woken, ok := c15Direct(w, b, key, what, o, nil); ok {
				out = append(out, c15UpdRec{Kind: what, Parent: parent, Answer: answer, Old: o, New: o, Woken: woken})
			}
		}
	}
	return out
}

func c15WakeProbe(w *cworld, b *builtPC, key string, related map[string]interface{}) []c15WakeRec {
	var out []c15WakeRec
	for _, o := range c15PickRelated(related, 2) {
		woken := c15Touch(w, b, key, o, "999999", 2*time.Second)
		out = append(out, c15WakeRec{Obj: objKey(o), Woken: woken})
	}
	return out
}

// ---- C17c: nothing a sync does may change an object held by the shared informers ----

// switched on by TestVerif_C17c
var c15WithCacheOracle bool

type c15Snap struct {
	what string
	ptr  *unstructured.Unstructured
	copy map[string]interface{}
}

type c15CacheOracle struct {
	b      *builtPC
	pns    string
	pname  string
	subs   []*dynamicinformer.ResourceInformer
	kinds  []string
	snaps  []c15Snap
	failed string
}

// c15Factory: the shared informer factory of this controller build (the customize manager keeps it)
func c15Factory(b *builtPC) (f *dynamicinformer.SharedInformerFactory) {
	defer func() {
		if r := recover(); r != nil {
			f = nil
		}
	}()
	fv := reflect.ValueOf(b.pc.customize).Elem().FieldByName("dynInformers")
	fv = reflect.NewAt(fv.Type(), unsafe.Pointer(fv.UnsafeAddr())).Elem()
	f, _ = fv.Interface().(*dynamicinformer.SharedInformerFactory)
	return f
}

// the oracle subscribes to the related resources itself: the manager later gets the same shared informers, so the
// objects it lists are the very objects snapshotted here
func c15NewCacheOracle(b *builtPC, pns, pname string) *c15CacheOracle {
	o := &c15CacheOracle{b: b, pns: pns, pname: pname}
	f := c15Factory(b)
	if f == nil {
		o.failed = "oracle: no access to the shared informer factory"
		return o
	}
	for _, k := range c15Related {
		ri, err := f.Resource(k.APIVersion, k.Resource)
		if err != nil {
			continue
		}
		deadline := time.Now().Add(10 * time.Second)
		for !ri.Informer().HasSynced() && time.Now().Before(deadline) {
			time.Sleep(200 * time.Microsecond)
		}
		o.subs = append(o.subs, ri)
		o.kinds = append(o.kinds, k.Kind)
	}
	return o
}

// before: pointer and deep copy of every object the shared informers hold
func (o *c15CacheOracle) before() {
	if o == nil {
		return
	}
	o.snaps = o.snaps[:0]
	for i, ri := range o.subs {
		for _, x := range ri.Informer().GetIndexer().List() {
			if u, ok := x.(*unstructured.Unstructured); ok {
				o.snaps = append(o.snaps, c15Snap{what: "related " + o.kinds[i], ptr: u, copy: runtime.DeepCopyJSON(u.Object)})
			}
		}
	}
	if p, err := common.GetObject(o.b.pc.parentInformer, o.pns, o.pname); err == nil {
		o.snaps = append(o.snaps, c15Snap{what: "parent", ptr: p, copy: runtime.DeepCopyJSON(p.Object)})
	}
}

// after: the same pointers must still hold the same content (identity by pointer: an object the informer has
// replaced meanwhile is simply no longer the cached one)
func (o *c15CacheOracle) after() string {
	if o == nil {
		return ""
	}
	if o.failed != "" {
		return o.failed
	}
	for _, sn := range o.snaps {
		if !reflect.DeepEqual(sn.ptr.Object, sn.copy) {
			return sn.what
		}
	}
	return ""
}

func (o *c15CacheOracle) close() {
	if o == nil {
		return
	}
	for _, ri := range o.subs {
		ri.Close()
	}
}

// objects as a real API server hands them out: managedFields, kubectl's annotation, a status block
func c15Decorate(o J, variant int) {
	md := o["metadata"].(J)
	if variant%4 != 3 {
		md["managedFields"] = A{J{"manager": "kubectl-client-side-apply", "operation": "Update", "apiVersion": o["apiVersion"],
			"time": "2020-01-01T00:00:00Z", "fieldsType": "FieldsV1", "fieldsV1": J{"f:metadata": J{"f:labels": J{}}, "f:spec": J{}}}}
	}
	if variant%3 != 2 {
		md["annotations"] = J{"kubectl.kubernetes.io/last-applied-configuration": fmt.Sprintf(`{"apiVersion":"%v","kind":"%v"}`, o["apiVersion"], o["kind"]),
			"note": "seeded"}
	}
	if variant%2 == 0 {
		o["status"] = J{"phase": "Running", "observedGeneration": int64(1), "conditions": A{J{"type": "Ready", "status": "True"}}}
	}
	o["spec"] = J{"size": int64(variant)}
}

// ---- emission ----

func c15CoqCache(parent J, groups map[string][]map[string]interface{}) string {
	keys := make([]string, 0, len(groups))
	for k := range groups {
		keys = append(keys, k)
	}
	sort.Strings(keys)
	gs := []string{}
	for _, k := range keys {
		objs := []string{}
		for _, o := range groups[k] {
			objs = append(objs, vh.MustCoqJSON(map[string]interface{}(o)))
		}
		gs = append(gs, fmt.Sprintf("(%s, [%s])", vh.MustCoqString(k), strings.Join(objs, "; ")))
	}
	return fmt.Sprintf("(mkCache (Some %s) [%s])", vh.MustCoqJSON(map[string]interface{}(parent)), strings.Join(gs, "; "))
}

func c15CoqStep(s *ctlSpec, r c15StepRec) string {
	if r.Kind == "sync" {
		return "(StSync " + coqRound(s, r.Round) + ")"
	}
	evs := []string{}
	for _, e := range r.Events {
		evs = append(evs, coqEvent(e))
	}
	res := "PRErr"
	switch r.Result {
	case "ok":
		res = "(PROk " + vh.MustCoqJSON(r.Wire) + ")"
	case "panic":
		res = "PRPanic"
	}
	return fmt.Sprintf("(StProbe (mkProbe %s %s [%s] %s))", c15CoqCache(r.Parent, r.Cache),
		vh.MustCoqJSON(map[string]interface{}(r.Parent)), strings.Join(evs, ";\n  "), res)
}

func c15CoqCase(c *c15Rec) string {
	builds := []string{}
	for _, b := range c.Builds {
		steps := []string{}
		for _, s := range b {
			steps = append(steps, c15CoqStep(&c.Sc.Ctl, s))
		}
		builds = append(builds, "["+strings.Join(steps, ";\n ")+"]")
	}
	wakes := []string{}
	for _, wk := range c.Wakes {
		wakes = append(wakes, fmt.Sprintf("(%s, %s)", vh.MustCoqString(wk.Obj), vh.CoqBool(wk.Woken)))
	}
	cold := []string{}
	for _, cr := range c.Cold {
		cold = append(cold, fmt.Sprintf("(mkCold %s %s %s %s)", vh.MustCoqJSON(map[string]interface{}(cr.Parent)), vh.MustCoqJSON(cr.Answer),
			vh.MustCoqJSON(map[string]interface{}(cr.Obj)), vh.CoqBool(cr.Woken)))
	}
	upds := []string{}
	for _, u := range c.Updates {
		upds = append(upds, fmt.Sprintf("(mkUpd %s %s %s %s %s %s)", vh.MustCoqString(u.Kind), vh.MustCoqJSON(map[string]interface{}(u.Parent)), vh.MustCoqJSON(u.Answer),
			vh.MustCoqJSON(map[string]interface{}(u.Old)), vh.MustCoqJSON(map[string]interface{}(u.New)), vh.CoqBool(u.Woken)))
	}
	return fmt.Sprintf("mkC15 %s [%s] [%s] [%s] %s [%s] %s", coqCfg(&c.Sc.Ctl), strings.Join(builds, ";\n "), strings.Join(wakes, "; "),
		strings.Join(cold, ";\n "), vh.CoqZ(int64(c.ColdCalls)), strings.Join(upds, ";\n "), vh.CoqStringList(c.Sc.Features))
}

// c15Outcome: one word per step, for the replay file and the signature
func c15Outcome(c *c15Rec) [][]string {
	var out [][]string
	for _, b := range c.Builds {
		var l []string
		for _, s := range b {
			if s.Kind == "sync" {
				nrel, ncust, nsync := 0, 0, 0
				for _, e := range s.Round.Events {
					if e.Hook == nil {
						continue
					}
					if strings.HasSuffix(e.Hook.URL, "/customize") {
						ncust++
						continue
					}
					nsync++
					if rq, ok := e.Hook.Req.(map[string]interface{}); ok {
						if rm, ok := rq["related"].(map[string]interface{}); ok {
							for _, g := range rm {
								if gm, ok := g.(map[string]interface{}); ok {
									nrel += len(gm)
								}
							}
						}
					}
				}
				msg := ""
				if s.Round.Result == "panic" {
					msg = " " + s.Round.PanicMsg
				}
				l = append(l, fmt.Sprintf("sync:%s customize=%d hook=%d related=%d%s", s.Round.Result, ncust, nsync, nrel, msg))
			} else {
				nrel := 0
				if rm, ok := s.Wire.(map[string]interface{}); ok {
					for _, g := range rm {
						if gm, ok := g.(map[string]interface{}); ok {
							nrel += len(gm)
						}
					}
				}
				l = append(l, fmt.Sprintf("probe:%s customize=%d related=%d", s.Result, len(s.Events), nrel))
			}
		}
		out = append(out, l)
	}
	return out
}

// ---- generation ----

type c15Gen struct{ r *vh.Rng }

var c15Namespaces = []string{"ns1", "ns2", "ns3"}

func (g *c15Gen) labels() J {
	l := J{}
	if g.r.Chance(3, 4) {
		l["tier"] = g.r.Pick([]string{"x", "y"})
	}
	if g.r.Chance(1, 2) {
		l["env"] = g.r.Pick([]string{"p", "q"})
	}
	return l
}

func (g *c15Gen) objects() []J {
	var out []J
	seen := map[string]bool{}
	add := func(k kidSpec, ns, name string) {
		id := k.Kind + "/" + ns + "/" + name
		if seen[id] {
			return
		}
		seen[id] = true
		md := J{"name": name}
		if ns != "" {
			md["namespace"] = ns
		}
		if l := g.labels(); len(l) > 0 {
			md["labels"] = l
		}
		out = append(out, J{"apiVersion": k.APIVersion, "kind": k.Kind, "metadata": md})
	}
	names := []string{"a", "b", "c"}
	np := 3 + g.r.Intn(4)
	for i := 0; i < np; i++ {
		add(c15Related[0], g.r.Pick(c15Namespaces), g.r.Pick(names))
	}
	// the same name in two namespaces: what a names-only rule has to tell apart
	add(c15Related[0], "ns1", "a")
	add(c15Related[0], "ns2", "a")
	nw := 1 + g.r.Intn(3)
	for i := 0; i < nw; i++ {
		add(c15Related[1], g.r.Pick(c15Namespaces), g.r.Pick(names))
	}
	for _, ns := range c15Namespaces {
		if g.r.Chance(4, 5) {
			add(c15Related[2], "", ns)
		}
	}
	return out
}

func (g *c15Gen) selector() (J, string) {
	switch g.r.Intn(8) {
	case 0:
		return J{"matchLabels": J{"tier": g.r.Pick([]string{"x", "y"})}}, "matchLabels"
	case 1:
		return J{"matchLabels": J{"tier": "x", "env": g.r.Pick([]string{"p", "q"})}}, "matchLabels2"
	case 2:
		return J{"matchExpressions": A{J{"key": "tier", "operator": "In", "values": A{"x", "z"}}}}, "expr-in"
	case 3:
		return J{"matchExpressions": A{J{"key": "env", "operator": g.r.Pick([]string{"Exists", "DoesNotExist"})}}}, "expr-exists"
	case 4:
		return J{"matchExpressions": A{J{"key": "tier", "operator": "NotIn", "values": A{"y"}}}, "matchLabels": J{"env": "p"}}, "expr-notin"
	case 6, 7:
		// matchLabels AND matchExpressions: both have to hold
		env := g.r.Pick([]string{"p", "q"})
		var e J
		switch g.r.Intn(4) {
		case 0:
			e = J{"key": "tier", "operator": "In", "values": A{g.r.Pick([]string{"x", "y"})}}
		case 1:
			e = J{"key": "tier", "operator": "NotIn", "values": A{g.r.Pick([]string{"x", "y"})}}
		case 2:
			e = J{"key": "tier", "operator": "Exists"}
		default:
			e = J{"key": "tier", "operator": "DoesNotExist"}
		}
		return J{"matchLabels": J{"env": env}, "matchExpressions": A{e}}, "labels-and-expr-" + strings.ToLower(e["operator"].(string))
	}
	return J{}, "empty-selector"
}

// one rule; feature names the shape
func (g *c15Gen) rule(namespaced bool, hostile bool) (interface{}, string) {
	k := c15Related[g.r.Intn(len(c15Related))]
	ru := J{"apiVersion": k.APIVersion, "resource": k.Resource}
	own := "ns1"
	n := 10
	if hostile {
		n = 17
	}
	x := g.r.Intn(n)
	if (x == 6 || x == 7) && !hostile && g.r.Bool() {
		x = g.r.Intn(6) // keep refused rules to about one scenario in four
	}
	switch x {
	case 0, 1:
		sel, f := g.selector()
		ru["labelSelector"] = sel
		return ru, "labels-" + f
	case 2:
		return ru, "select-all"
	case 3:
		ns := own
		if !namespaced {
			ns = g.r.Pick(c15Namespaces)
		}
		ru["namespace"] = ns
		return ru, "namespace-only"
	case 4:
		ru["names"] = A{"a", g.r.Pick([]string{"b", "c", "zz"})}
		return ru, "names-only"
	case 5:
		ns := own
		if !namespaced {
			ns = g.r.Pick(c15Namespaces)
		}
		ru["namespace"] = ns
		ru["names"] = A{g.r.Pick([]string{"a", "b"})}
		return ru, "namespace-and-names"
	case 6:
		sel, _ := g.selector()
		ru["labelSelector"] = sel
		if g.r.Bool() {
			ru["names"] = A{"a"}
		} else {
			ru["namespace"] = own
		}
		return ru, "both-styles"
	case 7:
		ru["namespace"] = g.r.Pick([]string{"ns2", "ns3"})
		if g.r.Bool() {
			ru["names"] = A{"a"}
		}
		return ru, "other-namespace"
	case 8:
		ru["labelSelector"] = nil
		ru["names"] = A{}
		ru["namespace"] = ""
		return ru, "select-all-explicit-nulls"
	case 9:
		ru["names"] = A{"ns1", "ns3", "a"}
		return ru, "names-only"
	case 10:
		return nil, "null-rule"
	case 11:
		ru["resource"] = "gadgets"
		return ru, "unknown-resource"
	case 12:
		ru["labelSelector"] = J{"matchExpressions": A{J{"key": "tier", "operator": g.r.Pick([]string{"In", "Near", "Exists"}), "values": g.r.Pick([]string{"none", "some"})}}}
		if ru["labelSelector"].(J)["matchExpressions"].(A)[0].(J)["values"] == "none" {
			ru["labelSelector"].(J)["matchExpressions"].(A)[0].(J)["values"] = A{}
		} else {
			ru["labelSelector"].(J)["matchExpressions"].(A)[0].(J)["values"] = A{"x"}
		}
		return ru, "selector-requirement-maybe-invalid"
	case 13:
		// a field of the wrong JSON type
		switch g.r.Intn(5) {
		case 0:
			ru["names"] = "a"
		case 1:
			ru["namespace"] = int64(5)
		case 2:
			ru["labelSelector"] = A{}
		case 3:
			ru["labelSelector"] = J{"matchLabels": A{"tier"}}
		case 4:
			ru["apiVersion"] = true
		}
		return ru, "wrong-json-type"
	case 14:
		ru["names"] = A{nil, "a"}
		return ru, "null-name-entry"
	case 16:
		ru["labelSelector"] = J{"matchLabels": J{"Tier/x_y": "A.b"}} // valid for apimachinery, outside the modelled syntax
		return ru, "label-syntax-outside-domain"
	case 15:
		ru["Namespace"] = "ns2" // unknown field (the decoder is case-sensitive): ignored
		ru["extra"] = J{"x": int64(1)}
		return ru, "unknown-fields"
	}
	return ru, "select-all"
}

func (g *c15Gen) rules(namespaced, hostile bool) ([]interface{}, []string) {
	n := 1 + g.r.Intn(3)
	if g.r.Chance(1, 12) {
		n = 0
	}
	var out []interface{}
	var feats []string
	for i := 0; i < n; i++ {
		ru, f := g.rule(namespaced, hostile)
		// a null entry may sit anywhere: GetRelatedObjects refuses it, the event handler skips it
		out = append(out, ru)
		feats = append(feats, "rule-"+f)
		if i > 0 {
			if a, ok := out[len(out)-1].(J); ok {
				if b, ok := out[0].(J); ok && a["resource"] == b["resource"] {
					feats = append(feats, "two-rules-same-resource")
				}
			}
		}
	}
	return out, feats
}

func (g *c15Gen) base(i int, seed uint64, family string) *c15Scenario {
	r := g.r
	sc := &c15Scenario{Seed: seed, Family: family}
	namespaced := r.Chance(3, 5)
	ctl := ctlSpec{Name: fmt.Sprintf("c15x%d", i%5), ParentAPIVersion: "ctl.example.com/v1", ParentNamespaced: namespaced, Customize: true}
	if namespaced {
		ctl.ParentResource, ctl.ParentKind = "things", "Thing"
	} else {
		ctl.ParentResource, ctl.ParentKind = "clusterthings", "ClusterThing"
	}
	kid := kidPool[1]
	kid.Method = "InPlace"
	ctl.Kids = []kidSpec{kid}
	pmd := J{"name": "p1", "labels": J{}, "generation": int64(1 + r.Intn(3))}
	if namespaced {
		pmd["namespace"] = "ns1"
		sc.Features = append(sc.Features, "parent-namespaced")
	} else {
		sc.Features = append(sc.Features, "parent-cluster-scoped")
	}
	sc.Parent = J{"apiVersion": ctl.ParentAPIVersion, "kind": ctl.ParentKind, "metadata": pmd,
		"spec": J{"selector": J{"matchLabels": J{"app": "own"}}}}
	sc.Ctl = ctl
	sc.Objects = g.objects()
	if r.Chance(1, 5) {
		cmd := J{"name": "kid1", "labels": J{"app": "own"}}
		if !namespaced {
			cmd["namespace"] = "ns2"
		}
		sc.Children = []J{{"apiVersion": kid.APIVersion, "kind": kid.Kind, "metadata": cmd, "spec": J{"size": int64(1)}}}
		sc.Features = append(sc.Features, "sync-returns-child")
	}
	return sc
}

func c15Syncs(n int) []c15Step {
	out := make([]c15Step, n)
	for i := range out {
		out[i] = c15Step{Kind: "sync"}
	}
	return out
}

// rules: one build, the same parent synced two or three times
func (g *c15Gen) famRules(i int, seed uint64, hostile bool) *c15Scenario {
	fam := "rules"
	if hostile {
		fam = "hostile"
	}
	sc := g.base(i, seed, fam)
	rs, feats := g.rules(sc.Ctl.ParentNamespaced, hostile)
	sc.Hook.Rules = rs
	sc.Features = append(sc.Features, feats...)
	if hostile && g.r.Chance(1, 4) {
		sc.Hook.Raw = g.r.Pick([]string{"null", "[]", "{}", `{"relatedResources":null}`, `{"relatedResources":{}}`, `{"relatedResources":"pods"}`,
			`"x"`, "7", `{"relatedResources":[null]}`, `{"relatedResources":[[]]}`, `{"relatedresources":[{"apiVersion":"v1","resource":"pods"}]}`})
		sc.Features = append(sc.Features, "raw-body")
	}
	if g.r.Chance(1, 5) {
		// a parent on its way out: the finalize hook gets the related objects too
		if !hostile {
			// rules that are accepted, so that the finalize request is really sent
			rs, feats := g.goodRules(sc.Ctl.ParentNamespaced)
			sc.Hook.Rules = rs
			sc.Features = append(sc.Features[:1], feats...)
		}
		g.finalizing(sc, g.r.Chance(1, 3))
		sc.Builds = []c15Build{{Steps: c15Syncs(1)}}
	} else {
		sc.Builds = []c15Build{{Steps: c15Syncs(2 + g.r.Intn(2))}}
		sc.Wake = true
		sc.ColdFlush = sc.Hook.Raw == ""
		sc.UpdateProbes, sc.DeleteProbes = g.updateProbes(), true
	}
	return sc
}

// which update probes a generated scenario runs (each "no wake-up" answer costs its time-out)
func (g *c15Gen) updateProbes() []string {
	out := []string{"leave"}
	if g.r.Bool() {
		out = append(out, "both")
	}
	if g.r.Bool() {
		out = append(out, "enter")
	}
	if g.r.Chance(1, 2) {
		out = append(out, "neither")
	}
	if g.r.Chance(1, 2) {
		out = append(out, g.r.Pick([]string{"retier-in", "untier-in", "retier-out", "untier-out"}))
	}
	return out
}

// rules that GetRelatedObjects accepts
func (g *c15Gen) goodRules(namespaced bool) ([]interface{}, []string) {
	for {
		rs, feats := g.rules(namespaced, false)
		ok := len(rs) > 0
		for _, f := range feats {
			if f == "rule-both-styles" || (f == "rule-other-namespace" && namespaced) {
				ok = false
			}
		}
		if ok {
			return rs, feats
		}
	}
}

// finalizing: the controller has a finalize hook and the parent carries its finalizer; the finalize hook is
// called because the parent is being deleted, or (unmatch) because it no longer matches the controller's selector
func (g *c15Gen) finalizing(sc *c15Scenario, unmatch bool) {
	sc.Ctl.Finalize = true
	md := sc.Parent["metadata"].(J)
	md["finalizers"] = A{"metacontroller.io/compositecontroller-" + sc.Ctl.Name}
	if unmatch {
		sc.Ctl.CtlSelector = map[string]string{"managed": "yes"}
		sc.Features = append(sc.Features, "finalize", "finalize-parent-unmatched")
	} else {
		md["deletionTimestamp"] = "2020-01-02T00:00:00Z"
		sc.Features = append(sc.Features, "finalize", "finalize-parent-deleting")
	}
}

// a rule over pods only (one related informer: the handler's calls for an un-synced parent are sequential)
func (g *c15Gen) podsRule(namespaced bool) (J, string) {
	ru := J{"apiVersion": "v1", "resource": "pods"}
	switch g.r.Intn(10) {
	case 0, 1:
		return ru, "select-all"
	case 2, 3:
		sel, f := g.selector()
		ru["labelSelector"] = sel
		return ru, "labels-" + f
	case 4, 5:
		ru["names"] = A{"a", g.r.Pick([]string{"b", "c"})}
		return ru, "names-only"
	case 6:
		ns := "ns1"
		if !namespaced {
			ns = g.r.Pick(c15Namespaces)
		}
		ru["namespace"] = ns
		return ru, "namespace-only"
	case 7:
		ns := "ns1"
		if !namespaced {
			ns = g.r.Pick(c15Namespaces)
		}
		ru["namespace"] = ns
		ru["names"] = A{"a", "b"}
		return ru, "namespace-and-names"
	case 8:
		ru["namespace"] = "ns2"
		return ru, "other-namespace"
	}
	ru["labelSelector"] = J{}
	ru["names"] = A{"a"}
	return ru, "both-styles"
}

// unsynced: a second parent of the same controller is never synced on this manager; a change of an object its
// rules select must still wake it (the handler asks the hook itself, once)
func (g *c15Gen) famUnsynced(i int, seed uint64) *c15Scenario {
	sc := g.base(i, seed, "unsynced")
	g1 := sc.Parent["metadata"].(J)["generation"].(int64)
	g2 := g1 + 5
	p2 := runtime.DeepCopyJSON(sc.Parent)
	md2 := p2["metadata"].(map[string]interface{})
	md2["name"] = "p2"
	md2["generation"] = g2
	sc.Parent2 = p2
	r1 := J{"apiVersion": "v1", "resource": "pods"}
	if g.r.Bool() {
		r1["names"] = A{"a"}
	}
	var rs2 []interface{}
	n := 1 + g.r.Intn(2)
	for j := 0; j < n; j++ {
		ru, f := g.podsRule(sc.Ctl.ParentNamespaced)
		rs2 = append(rs2, ru)
		sc.Features = append(sc.Features, "rule-"+f)
	}
	sc.Hook.ByGen = map[string][]interface{}{fmt.Sprint(g1): {r1}, fmt.Sprint(g2): rs2}
	sc.Builds = []c15Build{{Steps: c15Syncs(1 + g.r.Intn(2))}}
	sc.Wake = true
	sc.Features = append(sc.Features, "unsynced-parent")
	return sc
}

// gen: one manager, parents of several generations / UIDs handed to GetRelatedObjects
func (g *c15Gen) famGen(i int, seed uint64) *c15Scenario {
	sc := g.base(i, seed, "generations")
	base := sc.Parent["metadata"].(J)["generation"].(int64)
	sc.Hook.ByGen = map[string][]interface{}{}
	for d := int64(0); d < 3; d++ {
		rs, feats := g.rules(sc.Ctl.ParentNamespaced, false)
		sc.Hook.ByGen[fmt.Sprint(base+d)] = rs
		sc.Features = append(sc.Features, feats...)
	}
	steps := []c15Step{{Kind: "sync"}}
	if g.r.Bool() {
		steps = []c15Step{{Kind: "probe"}}
	}
	n := 3 + g.r.Intn(4)
	for j := 0; j < n; j++ {
		s := c15Step{Kind: "probe", Generation: base + int64(g.r.Intn(3))}
		if g.r.Chance(1, 5) {
			s.UID = "uid-other"
		}
		if g.r.Chance(1, 4) {
			s = c15Step{Kind: "sync"}
		}
		steps = append(steps, s)
	}
	sc.Builds = []c15Build{{Steps: steps}}
	sc.Features = append(sc.Features, "generation-change")
	return sc
}

// retry: the customize hook fails a few times before it answers
func (g *c15Gen) famRetry(i int, seed uint64) *c15Scenario {
	sc := g.base(i, seed, "retry")
	rs, feats := g.rules(sc.Ctl.ParentNamespaced, false)
	sc.Hook.Rules = rs
	sc.Features = append(sc.Features, feats...)
	nf := 1 + g.r.Intn(2)
	for j := 0; j < nf; j++ {
		f := g.r.Pick([]string{"500", "net", "429", "garbage"})
		sc.Hook.Fail = append(sc.Hook.Fail, f)
		sc.Features = append(sc.Features, "customize-fails-"+f)
	}
	sc.Builds = []c15Build{{Steps: c15Syncs(nf + 2)}}
	return sc
}

// rebuild: a new controller instance after the parent was edited asks again
func (g *c15Gen) famRebuild(i int, seed uint64) *c15Scenario {
	sc := g.base(i, seed, "rebuild")
	base := sc.Parent["metadata"].(J)["generation"].(int64)
	sc.Hook.ByGen = map[string][]interface{}{}
	for d := int64(0); d < 2; d++ {
		rs, feats := g.rules(sc.Ctl.ParentNamespaced, false)
		sc.Hook.ByGen[fmt.Sprint(base+d)] = rs
		sc.Features = append(sc.Features, feats...)
	}
	sc.Builds = []c15Build{{Steps: c15Syncs(2)}, {BumpGeneration: true, Steps: c15Syncs(2)}}
	sc.Wake = true
	sc.ColdFlush = true
	sc.UpdateProbes, sc.DeleteProbes = g.updateProbes(), true
	sc.Features = append(sc.Features, "rebuild-after-edit")
	return sc
}

func c15Corpus() []*c15Scenario {
	var out []*c15Scenario
	mk := func(name string, namespaced bool, rules []interface{}) *c15Scenario {
		g := &c15Gen{r: vh.NewRng(uint64(len(out)) + 77)}
		sc := g.base(len(out), 0, "corpus")
		sc.Children = nil
		if namespaced != sc.Ctl.ParentNamespaced {
			sc.Ctl.ParentNamespaced = namespaced
			md := sc.Parent["metadata"].(J)
			if namespaced {
				sc.Ctl.ParentResource, sc.Ctl.ParentKind = "things", "Thing"
				md["namespace"] = "ns1"
			} else {
				sc.Ctl.ParentResource, sc.Ctl.ParentKind = "clusterthings", "ClusterThing"
				delete(md, "namespace")
			}
			sc.Parent["kind"] = sc.Ctl.ParentKind
		}
		sc.Features = []string{"corpus-" + name}
		sc.Objects = []J{
			{"apiVersion": "v1", "kind": "Pod", "metadata": J{"name": "a", "namespace": "ns1", "labels": J{"tier": "x"}}},
			{"apiVersion": "v1", "kind": "Pod", "metadata": J{"name": "a", "namespace": "ns2", "labels": J{"tier": "x"}}},
			{"apiVersion": "v1", "kind": "Pod", "metadata": J{"name": "b", "namespace": "ns1", "labels": J{"tier": "y"}}},
			{"apiVersion": "v1", "kind": "Pod", "metadata": J{"name": "c", "namespace": "ns3"}},
			{"apiVersion": "apps.example.com/v1", "kind": "Widget", "metadata": J{"name": "a", "namespace": "ns1", "labels": J{"tier": "x"}}},
			{"apiVersion": "v1", "kind": "Namespace", "metadata": J{"name": "ns1", "labels": J{"team": "a"}}},
			{"apiVersion": "v1", "kind": "Namespace", "metadata": J{"name": "ns2"}},
		}
		sc.Hook.Rules = rules
		sc.Builds = []c15Build{{Steps: c15Syncs(2)}}
		sc.Wake = true
		sc.ColdFlush = true
		sc.UpdateProbes = []string{"leave", "both", "enter", "neither"}
		sc.DeleteProbes = true
		out = append(out, sc)
		return sc
	}
	pods := func(extra J) J {
		r := J{"apiVersion": "v1", "resource": "pods"}
		for k, v := range extra {
			r[k] = v
		}
		return r
	}
	for _, nsd := range []bool{true, false} {
		mk("labels", nsd, []interface{}{pods(J{"labelSelector": J{"matchLabels": J{"tier": "x"}}})})
		mk("empty-selector", nsd, []interface{}{pods(J{"labelSelector": J{}})})
		mk("no-selection", nsd, []interface{}{pods(nil)})
		mk("names-only", nsd, []interface{}{pods(J{"names": A{"a"}})})
		mk("namespace-only", nsd, []interface{}{pods(J{"namespace": "ns1"})})
		mk("namespace-and-names", nsd, []interface{}{pods(J{"namespace": "ns1", "names": A{"b", "a"}})})
		mk("both-styles", nsd, []interface{}{pods(J{"labelSelector": J{}, "names": A{"a"}})})
		mk("foreign-namespace", nsd, []interface{}{pods(J{"namespace": "ns2"})})
		mk("two-rules-same-resource", nsd, []interface{}{pods(J{"names": A{"a"}}), pods(J{"labelSelector": J{"matchLabels": J{"tier": "y"}}})})
		mk("cluster-scoped-related", nsd, []interface{}{J{"apiVersion": "v1", "resource": "namespaces"}, J{"apiVersion": "apps.example.com/v1", "resource": "widgets"}})
		mk("unknown-resource", nsd, []interface{}{J{"apiVersion": "v1", "resource": "gadgets"}})
		mk("bad-operator", nsd, []interface{}{pods(J{"labelSelector": J{"matchExpressions": A{J{"key": "tier", "operator": "Near", "values": A{"x"}}}}})})
		mk("null-rule", nsd, []interface{}{nil})
		mk("null-rule-behind-valid-rule", nsd, []interface{}{pods(J{"names": A{"zz"}}), nil})
		mk("null-rule-behind-matching-rule", nsd, []interface{}{pods(J{"labelSelector": J{}}), nil, pods(J{"names": A{"a"}})})
		mk("no-rules", nsd, []interface{}{})
	}
	// matchLabels together with matchExpressions: objects that pass both, only the labels, only the expression, neither
	both := []J{
		{"apiVersion": "v1", "kind": "Pod", "metadata": J{"name": "a", "namespace": "ns1", "labels": J{"tier": "x", "env": "p"}}},
		{"apiVersion": "v1", "kind": "Pod", "metadata": J{"name": "b", "namespace": "ns1", "labels": J{"tier": "y", "env": "p"}}},
		{"apiVersion": "v1", "kind": "Pod", "metadata": J{"name": "c", "namespace": "ns1", "labels": J{"tier": "x", "env": "q"}}},
		{"apiVersion": "v1", "kind": "Pod", "metadata": J{"name": "d", "namespace": "ns1", "labels": J{"tier": "y"}}},
		{"apiVersion": "v1", "kind": "Pod", "metadata": J{"name": "e", "namespace": "ns1", "labels": J{"env": "p"}}},
		{"apiVersion": "v1", "kind": "Pod", "metadata": J{"name": "a", "namespace": "ns2", "labels": J{"tier": "x", "env": "p"}}},
	}
	for _, nsd := range []bool{true, false} {
		for oi, e := range []J{
			{"key": "tier", "operator": "In", "values": A{"x"}},
			{"key": "tier", "operator": "NotIn", "values": A{"y"}},
			{"key": "tier", "operator": "Exists"},
			{"key": "tier", "operator": "DoesNotExist"},
		} {
			rule := pods(J{"labelSelector": J{"matchLabels": J{"env": "p"}, "matchExpressions": A{e}}})
			sc := mk("labels-and-expressions", nsd, []interface{}{rule})
			sc.Objects = both
			sc.ColdFlush = false
			sc.UpdateProbes = []string{"retier-in", "untier-in", "retier-out", "untier-out", "leave"}
			if oi < 2 {
				// and in a finalize request
				fsc := mk("labels-and-expressions-finalize", nsd, []interface{}{rule})
				fsc.Objects = both
				fsc.Wake, fsc.ColdFlush, fsc.UpdateProbes, fsc.DeleteProbes = false, false, nil, false
				(&c15Gen{r: vh.NewRng(1)}).finalizing(fsc, false)
				fsc.Builds = []c15Build{{Steps: c15Syncs(1)}}
			}
		}
	}
	// finalize rounds: the finalize request carries the related map too
	for _, nsd := range []bool{true, false} {
		for ri, rs := range [][]interface{}{
			{pods(J{"labelSelector": J{"matchLabels": J{"tier": "x"}}})},
			{pods(J{"names": A{"a", "b"}})},
			{pods(nil), J{"apiVersion": "apps.example.com/v1", "resource": "widgets"}},
		} {
			for _, unmatch := range []bool{false, true} {
				if unmatch && ri == 1 {
					continue
				}
				sc := mk("finalize", nsd, rs)
				sc.Wake, sc.ColdFlush, sc.UpdateProbes, sc.DeleteProbes = false, false, nil, false
				(&c15Gen{r: vh.NewRng(1)}).finalizing(sc, unmatch)
				sc.Builds = []c15Build{{Steps: c15Syncs(1)}}
			}
		}
	}
	// a parent that is never synced on the manager: names-only / labels rules, both parent scopes
	for _, nsd := range []bool{true, false} {
		for _, r2 := range []J{pods(J{"names": A{"a"}}), pods(J{"labelSelector": J{"matchLabels": J{"tier": "x"}}})} {
			sc := mk("unsynced-parent", nsd, nil)
			sc.ColdFlush = false
			g1 := sc.Parent["metadata"].(J)["generation"].(int64)
			p2 := runtime.DeepCopyJSON(sc.Parent)
			p2["metadata"].(map[string]interface{})["name"] = "p2"
			p2["metadata"].(map[string]interface{})["generation"] = g1 + 5
			sc.Parent2 = p2
			sc.Hook.ByGen = map[string][]interface{}{fmt.Sprint(g1): {pods(nil)}, fmt.Sprint(g1 + 5): {r2}}
			sc.Features = append(sc.Features, "unsynced-parent")
		}
	}
	// generation change on one manager
	sc := mk("generation-change", true, nil)
	sc.Wake = false
	sc.ColdFlush = false
	g0 := sc.Parent["metadata"].(J)["generation"].(int64)
	sc.Hook.ByGen = map[string][]interface{}{
		fmt.Sprint(g0):     {pods(J{"names": A{"a"}})},
		fmt.Sprint(g0 + 1): {pods(J{"labelSelector": J{"matchLabels": J{"tier": "y"}}})},
	}
	sc.Builds = []c15Build{{Steps: []c15Step{{Kind: "sync"}, {Kind: "probe", Generation: g0 + 1}, {Kind: "probe", Generation: g0 + 1},
		{Kind: "probe"}, {Kind: "probe", Generation: g0, UID: "uid-other"}, {Kind: "sync"}}}}
	// the hook fails, then answers
	sc = mk("retry", true, []interface{}{pods(J{"names": A{"a"}})})
	sc.Hook.Fail = []string{"500", "garbage"}
	sc.Builds = []c15Build{{Steps: c15Syncs(4)}}
	sc = mk("retry-429", false, []interface{}{pods(J{"namespace": "ns2"})})
	sc.Hook.Fail = []string{"429"}
	sc.Builds = []c15Build{{Steps: c15Syncs(3)}}
	return out
}

func c15Generate(seed uint64, n int, adv bool) []*c15Scenario {
	out := c15Corpus()
	root := vh.NewRng(seed ^ 0xc15)
	for i := 0; len(out) < n || i == 0; i++ {
		r, s := root.Fork()
		g := &c15Gen{r: r}
		var sc *c15Scenario
		x := r.Intn(13)
		switch {
		case x == 12:
			sc = g.famUnsynced(i, s)
		case adv || x < 2:
			sc = g.famRules(i, s, true)
		case x < 7:
			sc = g.famRules(i, s, false)
		case x < 9:
			sc = g.famGen(i, s)
		case x < 11:
			sc = g.famRetry(i, s)
		default:
			sc = g.famRebuild(i, s)
		}
		out = append(out, sc)
		if len(out) >= n {
			break
		}
	}
	if n > 0 && len(out) > n {
		out = out[:n]
	}
	return out
}

func c15UpdSummary(c *c15Rec) []string {
	var out []string
	for _, u := range c.Updates {
		out = append(out, fmt.Sprintf("%s %s woken=%v", u.Kind, objKey(u.Old), u.Woken))
	}
	return out
}

func c15ColdSummary(c *c15Rec) []string {
	var out []string
	for _, cr := range c.Cold {
		out = append(out, fmt.Sprintf("%s/%v woken=%v", objKey(cr.Obj), cr.Parent["metadata"].(map[string]interface{})["name"], cr.Woken))
	}
	return out
}

// c15TagNullRule: the feature the known-findings file keys on (D22, repaired: a null entry is an
// error now; a "panic" verdict on such a case is the regression)
func c15TagNullRule(sc *c15Scenario) {
	has := strings.Contains(sc.Hook.Raw, "[null")
	scan := func(rs []interface{}) {
		for _, r := range rs {
			if r == nil {
				has = true
			}
		}
	}
	if sc.Hook.Raw == "" {
		scan(sc.Hook.Rules)
		for _, rs := range sc.Hook.ByGen {
			scan(rs)
		}
	}
	if !has {
		return
	}
	for _, f := range sc.Features {
		if f == "null-rule" {
			return
		}
	}
	sc.Features = append(sc.Features, "null-rule")
}

// ---- the test ----

func TestVerif_C15(t *testing.T) {
	env := vh.GetEnv()
	if env.OutDir == "" {
		t.Skip("VERIF_OUT not set")
	}
	// a panic inside an informer handler goroutine must not take the test binary down
	prevCrash := utilruntime.ReallyCrash
	utilruntime.ReallyCrash = false
	prevHandlers := utilruntime.PanicHandlers
	utilruntime.PanicHandlers = []func(context.Context, interface{}){func(context.Context, interface{}) {
		atomic.AddInt32(&c15HandlerPanics, 1)
	}}
	defer func() { utilruntime.ReallyCrash = prevCrash; utilruntime.PanicHandlers = prevHandlers }()
	header := "From MC Require Import Check.C15_check.\nOpen Scope string_scope.\n"
	w, err := vh.NewCaseWriter(env.OutDir, "C15", header, 12)
	if err != nil {
		t.Fatal(err)
	}
	var scs []*c15Scenario
	if env.Replay != "" {
		data, err := os.ReadFile(env.Replay)
		if err != nil {
			t.Fatal(err)
		}
		var rf struct {
			Case struct {
				Scenario *c15Scenario `json:"scenario"`
			} `json:"case"`
		}
		if err := k8sjson.Unmarshal(data, &rf); err != nil || rf.Case.Scenario == nil {
			t.Fatalf("cannot read replay: %v", err)
		}
		scs = append(scs, rf.Case.Scenario)
	} else {
		n := env.N
		if n == 0 {
			n = 80
		}
		scs = c15Generate(env.Seed, n, os.Getenv("VERIF_ADV") == "1")
	}
	for i, sc := range scs {
		c15TagNullRule(sc)
		rec, err := c15Run(sc)
		if err != nil {
			t.Fatalf("scenario %d (%s): %v", i, sc.Family, err)
		}
		id := fmt.Sprintf("s%d", i)
		outcome := c15Outcome(rec)
		replay := J{"scenario": sc, "features": sc.Features, "outcome": outcome, "wakes": rec.Wakes, "coldCalls": rec.ColdCalls, "cold": c15ColdSummary(rec), "updates": c15UpdSummary(rec)}
		if err := w.Add(id, c15CoqCase(rec), "C15_check", replay); err != nil {
			t.Fatal(err)
		}
		w.Count("family-" + sc.Family)
		for _, f := range sc.Features {
			w.Count("feature-" + f)
		}
		nontrivial := false
		for _, b := range outcome {
			for _, l := range b {
				w.Count("step-" + strings.SplitN(l, " ", 2)[0])
				if !strings.Contains(l, "related=0") || strings.Contains(l, ":err") || strings.Contains(l, ":panic") {
					nontrivial = true
				}
			}
		}
		for _, u := range rec.Updates {
			w.Count(fmt.Sprintf("update-probe-%s-woken=%v", u.Kind, u.Woken))
		}
		if len(rec.Cold) > 0 {
			w.Count("cold-cache-probe")
			if sc.Parent2 != nil {
				w.Count("cold-cache-probe-unsynced-parent")
			} else {
				w.Count("cold-cache-probe-flushed")
			}
		}
		for _, cr := range rec.Cold {
			if cr.Woken {
				w.Count("cold-wake-observed")
			} else {
				w.Count("cold-wake-absent")
			}
		}
		for _, wk := range rec.Wakes {
			if wk.Woken {
				w.Count("wake-observed")
			} else {
				w.Count("wake-missing")
			}
		}
		if nontrivial {
			w.NonTrivial(vh.Sig(sc.Family, strings.Join(sc.Features, ","), fmt.Sprint(outcome)))
		}
	}
	if err := w.Close(nil); err != nil {
		t.Fatal(err)
	}
}

// TestVerif_C17c (a leg of property C17): the C15 scenarios with a cache oracle over the RELATED informers (and the
// parent informer): pointer + deep copy of every cached object before each step, compared after it; related objects
// are seeded the way a real server returns them (managedFields, kubectl annotation, status).
func TestVerif_C17c(t *testing.T) {
	env := vh.GetEnv()
	if env.OutDir == "" {
		t.Skip("VERIF_OUT not set")
	}
	c15WithCacheOracle = true
	defer func() { c15WithCacheOracle = false }()
	prevCrash, prevHandlers := utilruntime.ReallyCrash, utilruntime.PanicHandlers
	utilruntime.ReallyCrash = false
	utilruntime.PanicHandlers = []func(context.Context, interface{}){func(context.Context, interface{}) {
		atomic.AddInt32(&c15HandlerPanics, 1)
	}}
	defer func() { utilruntime.ReallyCrash = prevCrash; utilruntime.PanicHandlers = prevHandlers }()
	header := "From MC Require Import Check.C15_check.\nOpen Scope string_scope.\n"
	w, err := vh.NewCaseWriter(env.OutDir, "C17c", header, 25)
	if err != nil {
		t.Fatal(err)
	}
	var scs []*c15Scenario
	if env.Replay != "" {
		data, err := os.ReadFile(env.Replay)
		if err != nil {
			t.Fatal(err)
		}
		var rf struct {
			Case struct {
				Scenario *c15Scenario `json:"scenario"`
			} `json:"case"`
		}
		if err := k8sjson.Unmarshal(data, &rf); err != nil || rf.Case.Scenario == nil {
			t.Fatalf("cannot read replay: %v", err)
		}
		scs = append(scs, rf.Case.Scenario)
	} else {
		n := env.N
		if n == 0 {
			n = 100
		}
		scs = c15Generate(env.Seed^0xc17c, n, os.Getenv("VERIF_ADV") == "1")
		for _, sc := range scs {
			for i, o := range sc.Objects {
				c15Decorate(o, i)
			}
		}
	}
	for i, sc := range scs {
		c15TagNullRule(sc)
		rec, err := c15Run(sc)
		if err != nil {
			t.Fatalf("scenario %d (%s): %v", i, sc.Family, err)
		}
		id := fmt.Sprintf("s%d", i)
		outcome := c15Outcome(rec)
		replay := J{"scenario": sc, "features": sc.Features, "outcome": outcome, "cacheMutated": rec.CacheMutated}
		def := fmt.Sprintf("mkC17c (%s) %s", c15CoqCase(rec), vh.CoqStringList(rec.CacheMutated))
		if err := w.Add(id, def, "C17c_check", replay); err != nil {
			t.Fatal(err)
		}
		w.Count("family-" + sc.Family)
		sent := false
		for _, b := range outcome {
			for _, l := range b {
				w.Count("step-" + strings.SplitN(l, " ", 2)[0])
				if !strings.Contains(l, "related=0") {
					sent = true
				}
			}
		}
		for _, m := range rec.CacheMutated {
			if m != "" {
				w.Count("cache-mutated-" + m)
			}
		}
		if sent {
			w.Count("related-objects-handed-out")
			w.NonTrivial(vh.Sig(sc.Family, strings.Join(sc.Features, ","), fmt.Sprint(outcome)))
		}
	}
	if err := w.Close(nil); err != nil {
		t.Fatal(err)
	}
}
