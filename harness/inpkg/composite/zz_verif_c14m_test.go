package composite

// Harness of property C14, multi-controller leg (C14m): 2-3 REAL parentControllers
// built with newParentController over ONE dynamicinformer.SharedInformerFactory and
// one simulator, Start()ed with 0 workers and a recording queue.  Events are written
// to the simulator and emitted on its watch, so they travel through the real shared
// informer and its handler fan-out to every subscriber; controllers are Stop()ped and
// new ones started in between.  After each event the harness waits at a delivery
// barrier and records, per controller instance, which keys its queue received.
//
// Barrier: the shared informer has ONE processor listener (sharedEventHandler) that
// dispatches event N to all subscribers before event N+1.  The harness holds its own
// subscription to every resource with a sentinel handler; after the event under test
// it emits a MODIFIED of a marker object of the same resource and waits until the
// sentinel has seen it: then the event under test has been handed to every handler.
// A fresh sentinel is added after every Stop() (so that the barrier itself does not
// depend on handler removal being correct); a barrier that still does not fire within
// the timeout ends the world (the step is emitted as it is).

import (
	"encoding/json"
	"fmt"
	"os"
	"sort"
	"strings"
	"sync"
	"testing"
	"time"

	"github.com/go-logr/logr"
	"k8s.io/apimachinery/pkg/apis/meta/v1/unstructured"
	"k8s.io/apimachinery/pkg/runtime"
	"k8s.io/client-go/tools/cache"

	mclisters "metacontroller/pkg/client/generated/lister/metacontroller/v1alpha1"
	"metacontroller/pkg/controller/common"
	dynamicinformer "metacontroller/pkg/dynamic/informer"
	vh "metacontroller/pkg/internal/verifh"
)

const c14mMarker = "zz-barrier"
const c14mBarrierTimeout = 3 * time.Second

type c14mCtlSpec struct {
	Ctl          ctlSpec `json:"ctl"`
	IgnoreStatus bool    `json:"ignoreStatusChanges"`
}

// one step of a world's history
type c14mOp struct {
	Op   string `json:"op"`            // event | stop | start
	Ctl  int    `json:"ctl,omitempty"` // stop: instance index; start: index into Ctls
	Verb string `json:"verb,omitempty"`
	Obj  J      `json:"obj,omitempty"`
	Role string `json:"role,omitempty"`
}

type c14mWorldSpec struct {
	Ctls    []c14mCtlSpec `json:"ctls"`
	Initial []int         `json:"initial"` // indices into Ctls started at the beginning
	Parents []J           `json:"parents"`
	Ops     []c14mOp      `json:"ops"` // filled while the world runs; a replay executes it as recorded
}

type c14mResource struct{ apiVersion, resource, kind string }

var c14mResources = []c14mResource{
	{c14APIVersion, "things", "Thing"},
	{c14APIVersion, "clusterthings", "ClusterThing"},
	{"v1", "pods", "Pod"},
	{"apps.example.com/v1", "widgets", "Widget"},
}

func c14mResOf(o J) *c14mResource {
	for i := range c14mResources {
		if c14mResources[i].apiVersion == o["apiVersion"] && c14mResources[i].kind == o["kind"] {
			return &c14mResources[i]
		}
	}
	return nil
}

type c14mInstance struct {
	spec    *c14mCtlSpec
	pc      *parentController
	queue   *vh.RecQueue
	running bool
}

type c14mSentinel struct {
	mu   sync.Mutex
	seen map[string]int64 // resource -> highest marker counter seen
	cond *sync.Cond
}

func (s *c14mSentinel) note(obj interface{}) {
	u, ok := obj.(*unstructured.Unstructured)
	if !ok || u.GetName() != c14mMarker {
		return
	}
	var n int64
	fmt.Sscanf(u.GetAnnotations()["n"], "%d", &n)
	key := u.GetAPIVersion() + "|" + u.GetKind()
	s.mu.Lock()
	if n > s.seen[key] {
		s.seen[key] = n
	}
	s.mu.Unlock()
	s.cond.Broadcast()
}

type c14mLive struct {
	spec      *c14mWorldSpec
	w         *cworld
	factory   *dynamicinformer.SharedInformerFactory
	subs      map[string]*dynamicinformer.ResourceInformer // my own subscriptions, by resource
	sentinel  *c14mSentinel
	counter   int64
	instances []*c14mInstance
	live      map[string]J // mirror of the simulator's store: apiVersion|kind|ns/name -> stored object
	lost      bool         // a barrier timed out
}

func c14mObjKey(o J) string {
	return fmt.Sprint(o["apiVersion"], "|", o["kind"], "|", parentKey(o))
}

func (l *c14mLive) sentinelHandlers() cache.ResourceEventHandlerFuncs {
	return cache.ResourceEventHandlerFuncs{
		AddFunc:    func(obj interface{}) { l.sentinel.note(obj) },
		UpdateFunc: func(_, cur interface{}) { l.sentinel.note(cur) },
	}
}

func c14mWait(cond func() bool, d time.Duration) bool {
	deadline := time.Now().Add(d)
	for !cond() {
		if time.Now().After(deadline) {
			return false
		}
		time.Sleep(200 * time.Microsecond)
	}
	return true
}

func c14mBuild(spec *c14mWorldSpec) (*c14mLive, error) {
	w := newWorld()
	l := &c14mLive{spec: spec, w: w, subs: map[string]*dynamicinformer.ResourceInformer{}, live: map[string]J{},
		sentinel: &c14mSentinel{seen: map[string]int64{}}}
	l.sentinel.cond = sync.NewCond(&l.sentinel.mu)
	for _, p := range spec.Parents {
		st := w.srv.Seed(runtime.DeepCopyJSON(p))
		l.live[c14mObjKey(st)] = st
	}
	// the marker objects exist from the start
	for _, r := range c14mResources {
		md := J{"name": c14mMarker, "uid": "uid-marker-" + r.resource, "annotations": J{"n": "0"}}
		if r.kind != "ClusterThing" {
			md["namespace"] = "ns1"
		}
		w.srv.Seed(J{"apiVersion": r.apiVersion, "kind": r.kind, "metadata": md})
	}
	l.factory = dynamicinformer.NewSharedInformerFactory(w.dynClient, time.Hour)
	for _, r := range c14mResources {
		ri, err := l.factory.Resource(r.apiVersion, r.resource)
		if err != nil {
			return nil, err
		}
		l.subs[r.resource] = ri
		r := r
		if !c14mWait(func() bool { return ri.Informer().HasSynced() && w.srv.WatchCount(r.apiVersion, r.kind) >= 1 }, 10*time.Second) {
			return nil, fmt.Errorf("informer for %s never synced / never watched", r.resource)
		}
		if _, err := ri.Informer().AddEventHandler(l.sentinelHandlers()); err != nil {
			return nil, err
		}
	}
	for _, i := range spec.Initial {
		if err := l.start(i); err != nil {
			return nil, err
		}
	}
	return l, nil
}

func (l *c14mLive) start(specIdx int) error {
	s := &l.spec.Ctls[specIdx]
	revIndexer := cache.NewIndexer(cache.MetaNamespaceKeyFunc, cache.Indexers{cache.NamespaceIndex: cache.MetaNamespaceIndexFunc})
	cc := s.Ctl.compositeController()
	ign := s.IgnoreStatus
	cc.Spec.ParentResource.IgnoreStatusChanges = &ign
	pc, err := newParentController(l.w.resources, l.w.dynClient, l.factory, vh.NoopRecorder{}, l.w.mcClient,
		mclisters.NewControllerRevisionLister(revIndexer), cc, 0,
		&common.ApplyOptions{FieldManager: "metacontroller", Strategy: common.ApplyStrategyDynamicApply}, logr.Discard())
	if err != nil {
		return err
	}
	q := &vh.RecQueue{}
	pc.queue = q
	pc.Start() // installs the event handlers (each replays the cache once, synchronously)
	q.Reset()
	l.instances = append(l.instances, &c14mInstance{spec: s, pc: pc, queue: q, running: true})
	return nil
}

func (l *c14mLive) stop(inst int) {
	x := l.instances[inst]
	if !x.running {
		return
	}
	x.pc.Stop()
	x.running = false
	x.queue.Reset()
	for _, r := range c14mResources {
		_, _ = l.subs[r.resource].Informer().AddEventHandler(l.sentinelHandlers())
	}
}

func (l *c14mLive) close() {
	for _, x := range l.instances {
		if x.running {
			x.pc.Stop()
			x.running = false
		}
	}
	for _, ri := range l.subs {
		ri.Informer().RemoveEventHandlers()
		ri.Close()
	}
	l.w.close()
}

// barrier: a MODIFIED of the resource's marker object, awaited at the sentinel
func (l *c14mLive) barrier(r *c14mResource) bool {
	l.counter++
	n := l.counter
	md := J{"name": c14mMarker, "uid": "uid-marker-" + r.resource, "annotations": J{"n": fmt.Sprint(n)}}
	if r.kind != "ClusterThing" {
		md["namespace"] = "ns1"
	}
	st := l.w.srv.Seed(J{"apiVersion": r.apiVersion, "kind": r.kind, "metadata": md})
	l.w.srv.Emit("MODIFIED", st)
	key := r.apiVersion + "|" + r.kind
	done := make(chan struct{})
	timer := time.AfterFunc(c14mBarrierTimeout, func() { close(done); l.sentinel.cond.Broadcast() })
	defer timer.Stop()
	l.sentinel.mu.Lock()
	defer l.sentinel.mu.Unlock()
	for l.sentinel.seen[key] < n {
		select {
		case <-done:
			return false
		default:
		}
		l.sentinel.cond.Wait()
	}
	return true
}

type c14mStep struct {
	ev      *c14Event
	res     *c14mResource
	parents map[string][]J // parent kind -> cached parents at the time of the event
	keys    [][]string     // per instance
	running []bool
	timeout bool
}

// deliver writes the object to the simulator, emits the watch event and waits at the barrier
func (l *c14mLive) deliver(op *c14mOp) *c14mStep {
	obj := c14Canon(op.Obj)
	r := c14mResOf(obj)
	if r == nil {
		panic("c14m: unknown resource of " + fmt.Sprint(obj["kind"]))
	}
	step := &c14mStep{res: r, parents: map[string][]J{}}
	// the parent caches as they are when the handlers run (a parent event changes only
	// its own cache entry, which `affects` does not look at)
	for _, o := range l.live {
		if k, _ := o["kind"].(string); k == "Thing" || k == "ClusterThing" {
			step.parents[k] = append(step.parents[k], o)
		}
	}
	for k := range step.parents {
		ps := step.parents[k]
		sort.Slice(ps, func(i, j int) bool { return parentKey(ps[i]) < parentKey(ps[j]) })
	}
	for _, x := range l.instances {
		x.queue.Reset()
	}
	key := c14mObjKey(obj)
	old := l.live[key]
	ev := &c14Event{Role: op.Role}
	switch {
	case op.Verb == "delete":
		if old == nil {
			return nil
		}
		ons, _ := c14Meta(old)["namespace"].(string)
		oname, _ := c14Meta(old)["name"].(string)
		l.w.srv.RemoveLive(r.apiVersion, r.kind, ons, oname)
		delete(l.live, key)
		ev.Kind, ev.Obj = "delete", old
		l.w.srv.Emit("DELETED", old)
	case old == nil:
		st := l.w.srv.Seed(runtime.DeepCopyJSON(obj))
		l.live[key] = st
		ev.Kind, ev.Obj = "add", st
		l.w.srv.Emit("ADDED", st)
	default:
		md := c14Meta(obj)
		delete(md, "resourceVersion")
		md["uid"] = c14Meta(old)["uid"]
		st := l.w.srv.Seed(runtime.DeepCopyJSON(obj))
		l.live[key] = st
		ev.Kind, ev.Old, ev.Obj = "update", old, st
		l.w.srv.Emit("MODIFIED", st)
	}
	step.ev = ev
	if !l.barrier(r) {
		step.timeout = true
		l.lost = true
	}
	for _, x := range l.instances {
		ks := []string{}
		for _, qo := range x.queue.Snapshot() {
			if qo.Op != "Add" {
				continue
			}
			if strings.HasSuffix(qo.Key, c14mMarker) {
				continue
			}
			ks = append(ks, qo.Key)
		}
		step.keys = append(step.keys, ks)
		step.running = append(step.running, x.running)
	}
	return step
}

func c14mSrc(s *ctlSpec, r *c14mResource) string {
	if s.ParentAPIVersion == r.apiVersion && s.ParentResource == r.resource {
		return "(Some SParent)"
	}
	for _, k := range s.Kids {
		if k.APIVersion == r.apiVersion && k.Resource == r.resource {
			return "(Some SChild)"
		}
	}
	return "None"
}

func (l *c14mLive) coqCase(step *c14mStep) string {
	var ctls []string
	for i, x := range l.instances {
		if i >= len(step.keys) {
			break
		}
		ctls = append(ctls, fmt.Sprintf("mkC14mCtl (mkECfg %s %s) %s %s %s %s", coqCfg(&x.spec.Ctl), vh.CoqBool(x.spec.IgnoreStatus),
			vh.CoqBool(step.running[i]), c14mSrc(&x.spec.Ctl, step.res), c14CoqObjs(step.parents[x.spec.Ctl.ParentKind]), vh.CoqStringList(step.keys[i])))
	}
	return fmt.Sprintf("mkC14m %s [%s]", c14CoqEvent(step.ev), strings.Join(ctls, "; "))
}

// ---- generator ----
var c14mCtlPool = []c14mCtlSpec{
	{Ctl: ctlSpec{Name: "c14ma", ParentAPIVersion: c14APIVersion, ParentResource: "things", ParentKind: "Thing", ParentNamespaced: true,
		Kids: []kidSpec{kidPool[0]}}},
	{Ctl: ctlSpec{Name: "c14mb", ParentAPIVersion: c14APIVersion, ParentResource: "things", ParentKind: "Thing", ParentNamespaced: true,
		CtlSelector: map[string]string{"tier": "a"}, Kids: []kidSpec{kidPool[0], kidPool[1]}, Finalize: true}},
	{Ctl: ctlSpec{Name: "c14mc", ParentAPIVersion: c14APIVersion, ParentResource: "things", ParentKind: "Thing", ParentNamespaced: true,
		CtlSelector: map[string]string{"tier": "b"}, Kids: []kidSpec{kidPool[0]}}, IgnoreStatus: true},
	{Ctl: ctlSpec{Name: "c14md", ParentAPIVersion: c14APIVersion, ParentResource: "clusterthings", ParentKind: "ClusterThing",
		Kids: []kidSpec{kidPool[0], kidPool[1]}}},
	{Ctl: ctlSpec{Name: "c14me", ParentAPIVersion: c14APIVersion, ParentResource: "clusterthings", ParentKind: "ClusterThing",
		CtlSelector: map[string]string{"tier": "a"}, Kids: []kidSpec{kidPool[1]}, GenSelector: true}},
	{Ctl: ctlSpec{Name: "c14mf", ParentAPIVersion: c14APIVersion, ParentResource: "things", ParentKind: "Thing", ParentNamespaced: true,
		Kids: []kidSpec{kidPool[1]}, GenSelector: true}},
}

type c14mGen struct{ r *vh.Rng }

func (g *c14mGen) parent(kind, ns, name string, finPool []string) J {
	r := g.r
	md := J{"name": name, "uid": "uid-" + kind + "-" + ns + "-" + name, "generation": int64(1)}
	if kind == "Thing" {
		md["namespace"] = ns
	}
	switch r.Intn(4) {
	case 0:
		md["labels"] = J{"tier": "b"}
	case 1:
	default:
		md["labels"] = J{"tier": "a"}
	}
	if r.Chance(1, 4) && len(finPool) > 0 {
		md["finalizers"] = A{finPool[r.Intn(len(finPool))]}
	}
	app := []string{"x", "y"}[r.Intn(2)]
	return c14Canon(J{"apiVersion": c14APIVersion, "kind": kind, "metadata": md,
		"spec": J{"selector": J{"matchLabels": J{"app": app}}}, "status": J{"n": int64(0)}})
}

func (g *c14mGen) world() *c14mWorldSpec {
	r := g.r
	spec := &c14mWorldSpec{}
	perm := make([]int, len(c14mCtlPool))
	for i := range perm {
		perm[i] = i
	}
	for j := len(perm) - 1; j > 0; j-- {
		x := r.Intn(j + 1)
		perm[j], perm[x] = perm[x], perm[j]
	}
	ctls := []c14mCtlSpec{c14mCtlPool[perm[0]], c14mCtlPool[perm[1]], c14mCtlPool[perm[2]]}
	spec.Ctls = ctls
	spec.Initial = []int{0, 1}
	if len(ctls) > 2 && r.Bool() {
		spec.Initial = append(spec.Initial, 2)
	}
	var fins []string
	for _, c := range ctls {
		fins = append(fins, "metacontroller.io/compositecontroller-"+c.Ctl.Name)
	}
	slots := [][3]string{{"Thing", "ns1", "p1"}, {"Thing", "ns1", "p2"}, {"Thing", "ns2", "p1"}, {"ClusterThing", "", "p1"}, {"ClusterThing", "", "p2"}}
	for _, s := range slots {
		if r.Chance(2, 3) {
			spec.Parents = append(spec.Parents, g.parent(s[0], s[1], s[2], fins))
		}
	}
	return spec
}

func c14mSorted(m map[string]J, pred func(J) bool) []J {
	var out []J
	for _, o := range m {
		if pred(o) {
			out = append(out, o)
		}
	}
	sort.Slice(out, func(i, j int) bool { return c14mObjKey(out[i]) < c14mObjKey(out[j]) })
	return out
}

func c14mIsParent(o J) bool { return o["kind"] == "Thing" || o["kind"] == "ClusterThing" }
func c14mIsChild(o J) bool  { return o["kind"] == "Pod" || o["kind"] == "Widget" }

// nextEvent: an event op chosen against the current content of the store
func (g *c14mGen) nextEvent(l *c14mLive) c14mOp {
	r := g.r
	parents := c14mSorted(l.live, c14mIsParent)
	children := c14mSorted(l.live, c14mIsChild)
	var fins []string
	for _, c := range l.spec.Ctls {
		fins = append(fins, "metacontroller.io/compositecontroller-"+c.Ctl.Name)
	}
	op := c14mOp{Op: "event"}
	switch {
	case r.Chance(1, 3): // parent event
		if len(parents) > 0 && r.Chance(2, 3) {
			p := c14CopyJ(parents[r.Intn(len(parents))])
			md := c14Meta(p)
			gen, _ := md["generation"].(int64)
			switch r.Intn(5) {
			case 0:
				if md["finalizers"] == nil {
					op.Verb, op.Role = "delete", "parent-delete"
				} else {
					md["annotations"] = J{"touched": fmt.Sprint(r.Intn(100))}
					op.Verb, op.Role = "update", "parent-annotations"
				}
			case 1:
				p["status"] = J{"n": int64(1 + r.Intn(1000))}
				op.Verb, op.Role = "update", "parent-status"
			case 2:
				md["generation"] = gen + 1
				p["spec"] = J{"selector": J{"matchLabels": J{"app": []string{"x", "y"}[r.Intn(2)]}}, "rev": int64(r.Intn(100))}
				op.Verb, op.Role = "update", "parent-generation"
			default:
				ls, _ := md["labels"].(map[string]interface{})
				if ls["tier"] == "a" {
					md["labels"] = J{"tier": "b"}
				} else {
					md["labels"] = J{"tier": "a"}
				}
				op.Verb, op.Role = "update", "parent-labels"
			}
			op.Obj = p
		} else {
			kind := []string{"Thing", "Thing", "ClusterThing"}[r.Intn(3)]
			op.Obj = g.parent(kind, []string{"ns1", "ns2"}[r.Intn(2)], "q"+fmt.Sprint(r.Intn(4)), fins)
			op.Verb, op.Role = "add", "parent-add"
		}
	case len(children) > 0 && r.Chance(2, 5): // change or delete an existing child
		c := c14CopyJ(children[r.Intn(len(children))])
		md := c14Meta(c)
		switch r.Intn(4) {
		case 0:
			op.Verb, op.Role = "delete", "child-delete"
		case 1:
			md["labels"] = J{"app": []string{"x", "y", "z"}[r.Intn(3)]}
			op.Verb, op.Role = "update", "child-relabel"
		case 2:
			if len(parents) > 0 {
				md["ownerReferences"] = A{c14mRef(parents[r.Intn(len(parents))])}
			} else {
				delete(md, "ownerReferences")
			}
			op.Verb, op.Role = "update", "child-new-owner"
		default:
			delete(md, "ownerReferences")
			c["status"] = J{"phase": fmt.Sprint(r.Intn(100))}
			op.Verb, op.Role = "update", "child-released"
		}
		op.Obj = c
	default: // a new child, built around one running controller: one of its child kinds, one of its parents
		kind, av := "Pod", "v1"
		if r.Chance(1, 3) {
			kind, av = "Widget", "apps.example.com/v1"
		}
		var running []*c14mInstance
		for _, x := range l.instances {
			if x.running {
				running = append(running, x)
			}
		}
		if len(running) > 0 && r.Chance(4, 5) {
			x := running[r.Intn(len(running))]
			k := x.spec.Ctl.Kids[r.Intn(len(x.spec.Ctl.Kids))]
			kind, av = k.Kind, k.APIVersion
			var mine []J
			for _, p := range parents {
				if p["kind"] == x.spec.Ctl.ParentKind {
					mine = append(mine, p)
				}
			}
			if len(mine) > 0 {
				parents = mine
			}
		}
		md := J{"name": "c" + fmt.Sprint(r.Intn(6)), "namespace": []string{"ns1", "ns2"}[r.Intn(2)], "uid": "uid-c-" + fmt.Sprint(l.counter)}
		op.Verb, op.Role = "add", "child-orphan"
		md["labels"] = J{"app": []string{"x", "y"}[r.Intn(2)]}
		if len(parents) > 0 && r.Chance(3, 5) {
			p := parents[r.Intn(len(parents))]
			ref := c14mRef(p)
			op.Role = "child-owned"
			if pns, ok := c14Meta(p)["namespace"].(string); ok && r.Chance(4, 5) {
				md["namespace"] = pns
			}
			if r.Chance(1, 6) {
				ref["uid"] = "uid-previous-incarnation"
				op.Role = "child-wrong-uid"
			}
			md["ownerReferences"] = A{ref}
		} else if r.Chance(1, 4) && len(parents) > 0 {
			md["labels"] = J{"controller-uid": c14Meta(parents[r.Intn(len(parents))])["uid"], "app": "x"}
			op.Role = "child-orphan-gen-label"
		}
		op.Obj = J{"apiVersion": av, "kind": kind, "metadata": md}
	}
	op.Obj = c14Canon(op.Obj)
	return op
}

func c14mRef(p J) J {
	md := c14Meta(p)
	return J{"apiVersion": p["apiVersion"], "kind": p["kind"], "name": md["name"], "uid": md["uid"], "controller": true, "blockOwnerDeletion": true}
}

// nextOp: mostly events; now and then a controller is stopped or (re)started
func (g *c14mGen) nextOp(l *c14mLive, i, total int, lastWasLifecycle bool) c14mOp {
	r := g.r
	var running []int
	for idx, x := range l.instances {
		if x.running {
			running = append(running, idx)
		}
	}
	if !lastWasLifecycle && i > 0 && i < total-1 {
		switch {
		case len(running) >= 2 && r.Chance(1, 4):
			return c14mOp{Op: "stop", Ctl: running[r.Intn(len(running))]}
		case len(running) <= 2 && r.Chance(1, 6):
			// start a controller that is not running (a fresh instance of a stopped or never started one)
			runningSpec := map[string]bool{}
			for _, idx := range running {
				runningSpec[l.instances[idx].spec.Ctl.Name] = true
			}
			for si := range l.spec.Ctls {
				if !runningSpec[l.spec.Ctls[si].Ctl.Name] {
					return c14mOp{Op: "start", Ctl: si}
				}
			}
		}
	}
	return g.nextEvent(l)
}

// ---- test ----
func c14mFeatures(op *c14mOp, history []c14mOp) []string {
	f := []string{"multi", "role-" + op.Role, "verb-" + op.Verb}
	stops, starts := 0, 0
	for _, h := range history {
		if h.Op == "stop" {
			stops++
		}
		if h.Op == "start" {
			starts++
		}
	}
	if stops > 0 {
		f = append(f, "after-stop")
	}
	if starts > 0 {
		f = append(f, "after-start")
	}
	return f
}

func TestVerif_C14m(t *testing.T) {
	env := vh.GetEnv()
	if env.OutDir == "" {
		t.Skip("VERIF_OUT not set")
	}
	header := "From MC Require Import Check.C14_check.\nOpen Scope string_scope.\n"
	w, err := vh.NewCaseWriter(env.OutDir, "C14m", header, 40)
	if err != nil {
		t.Fatal(err)
	}
	emit := func(id string, l *c14mLive, step *c14mStep, op *c14mOp, history []c14mOp) {
		hist := append([]c14mOp{}, history...)
		ws := *l.spec
		ws.Ops = hist
		feats := c14mFeatures(op, history)
		replay := J{"world": &ws, "queues": step.keys, "running": step.running, "features": feats, "barrierTimeout": step.timeout}
		if err := w.Add(id, l.coqCase(step), "C14m_check", replay); err != nil {
			t.Fatal(err)
		}
		w.Count("event-" + step.ev.Kind + "-" + step.res.resource)
		w.Count("role-" + op.Role)
		nrun, nstopped, woken := 0, 0, 0
		for i, r := range step.running {
			if r {
				nrun++
			} else {
				nstopped++
			}
			if len(step.keys[i]) > 0 {
				woken++
			}
		}
		w.Count(fmt.Sprintf("running-%d", nrun))
		w.Count(fmt.Sprintf("stopped-%d", nstopped))
		w.Count(fmt.Sprintf("controllers-woken-%d", woken))
		for _, f := range feats {
			if strings.HasPrefix(f, "after-") {
				w.Count(f)
			}
		}
		if step.timeout {
			w.Count("barrier-timeout")
		}
		if nrun >= 2 && woken >= 1 {
			w.NonTrivial(vh.Sig(step.ev.Kind, step.res.resource, op.Role, nrun, nstopped, woken, len(feats)))
		}
	}
	// run executes recorded ops (replay) or generates them (g != nil)
	run := func(prefix string, spec *c14mWorldSpec, g *c14mGen, total int, onlyLast bool) {
		recorded := spec.Ops
		spec.Ops = nil
		l, err := c14mBuild(spec)
		if err != nil {
			t.Fatalf("%s: %v", prefix, err)
		}
		defer l.close()
		var history []c14mOp
		lastLifecycle := false
		if g == nil {
			total = len(recorded)
		}
		for i := 0; i < total && !l.lost; i++ {
			var op c14mOp
			if g != nil {
				op = g.nextOp(l, i, total, lastLifecycle)
			} else {
				op = recorded[i]
			}
			history = append(history, op)
			switch op.Op {
			case "stop":
				l.stop(op.Ctl)
				lastLifecycle = true
				w.Count("op-stop")
			case "start":
				if err := l.start(op.Ctl); err != nil {
					t.Fatalf("%s: start: %v", prefix, err)
				}
				lastLifecycle = true
				w.Count("op-start")
			default:
				lastLifecycle = false
				step := l.deliver(&op)
				if step == nil {
					continue
				}
				if !onlyLast || i == total-1 {
					id := fmt.Sprintf("%s_s%d", prefix, i)
					if onlyLast {
						id = "r0"
					}
					emit(id, l, step, &op, history)
				}
			}
		}
	}
	if env.Replay != "" {
		data, err := os.ReadFile(env.Replay)
		if err != nil {
			t.Fatal(err)
		}
		var rf struct {
			Case struct {
				World *c14mWorldSpec `json:"world"`
			} `json:"case"`
		}
		if err := json.Unmarshal(data, &rf); err != nil || rf.Case.World == nil {
			t.Fatalf("cannot read replay: %v", err)
		}
		spec := rf.Case.World
		for i := range spec.Parents {
			spec.Parents[i] = c14Canon(spec.Parents[i])
		}
		for i := range spec.Ops {
			if spec.Ops[i].Obj != nil {
				spec.Ops[i].Obj = c14Canon(spec.Ops[i].Obj)
			}
		}
		run("r", spec, nil, 0, true)
		if err := w.Close(nil); err != nil {
			t.Fatal(err)
		}
		return
	}
	// corpus: two controllers on the same parent and child resources, one stopped in the middle
	{
		g := &c14mGen{r: vh.NewRng(14)}
		p := func(ns, name, tier string) J {
			return c14Canon(J{"apiVersion": c14APIVersion, "kind": "Thing",
				"metadata": J{"name": name, "namespace": ns, "uid": "uid-Thing-" + ns + "-" + name, "generation": int64(1), "labels": J{"tier": tier}},
				"spec":     J{"selector": J{"matchLabels": J{"app": "x"}}}, "status": J{"n": int64(0)}})
		}
		pa, pb := p("ns1", "p1", "a"), p("ns1", "p2", "b")
		pod := func(name string, labels J, owner J) J {
			md := J{"name": name, "namespace": "ns1", "uid": "uid-" + name}
			if labels != nil {
				md["labels"] = labels
			}
			if owner != nil {
				md["ownerReferences"] = A{c14mRef(owner)}
			}
			return c14Canon(J{"apiVersion": "v1", "kind": "Pod", "metadata": md})
		}
		relabelled := c14CopyJ(pb)
		c14Meta(relabelled)["labels"] = J{"tier": "a"}
		spec := &c14mWorldSpec{Ctls: []c14mCtlSpec{c14mCtlPool[1], c14mCtlPool[2], c14mCtlPool[0]}, Initial: []int{0, 1},
			Parents: []J{pa, pb},
			Ops: []c14mOp{
				{Op: "event", Verb: "add", Obj: pod("k1", nil, pa), Role: "child-owned"},
				{Op: "event", Verb: "add", Obj: pod("k2", nil, pb), Role: "child-owned"},
				{Op: "event", Verb: "add", Obj: pod("k3", J{"app": "x"}, nil), Role: "child-orphan"},
				{Op: "stop", Ctl: 0},
				{Op: "event", Verb: "add", Obj: pod("k4", nil, pb), Role: "child-owned"},
				{Op: "event", Verb: "add", Obj: pod("k5", nil, pa), Role: "child-owned"},
				{Op: "event", Verb: "update", Obj: pod("k2", J{"app": "y"}, pb), Role: "child-relabel"},
				{Op: "event", Verb: "update", Obj: relabelled, Role: "parent-labels"},
				{Op: "start", Ctl: 2},
				{Op: "event", Verb: "delete", Obj: pod("k4", nil, pb), Role: "child-delete"},
				{Op: "event", Verb: "add", Obj: pod("k6", J{"app": "x"}, nil), Role: "child-orphan"},
				{Op: "stop", Ctl: 1},
				{Op: "event", Verb: "add", Obj: pod("k7", nil, pa), Role: "child-owned"},
			}}
		_ = g
		run("k", spec, nil, 0, false)
	}
	n := env.N
	if n == 0 {
		n = 60
	}
	root := vh.NewRng(env.Seed ^ 0xc14a)
	for wi := 0; wi < n; wi++ {
		r, _ := root.Fork()
		g := &c14mGen{r: r}
		run(fmt.Sprintf("w%d", wi), g.world(), g, 10+r.Intn(5), false)
	}
	if err := w.Close(nil); err != nil {
		t.Fatal(err)
	}
	fmt.Fprintf(os.Stderr, "C14m: wrote %d cases\n", w.Total)
}
