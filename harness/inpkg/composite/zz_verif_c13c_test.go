package composite

// C13c: malformed customize answers never panic a worker or an informer
// handler, a rejected answer causes no write, and a rejected answer is not
// accepted later from the response cache.
//
// One controller instance per case; the parent under test (p1) gets the
// malformed answer, a second parent (anchor) gets a valid rule over pods so
// that the related informer with the manager's real event handlers exists.
// Uses of the answer, in order:
//   sync-first, sync-retry            p1, same uid and generation
//   anchor-sync                       creates the pods informer; its initial
//                                     ADD events run findRelatedParents over p1
//   event-add / -update / -delete     watch events on pods (onRelatedAdd/Update/Delete)
//   sync-bumped, sync-bumped-retry    p1 after a generation bump delivered
//                                     through the parent informer's watch

import (
	"context"
	"fmt"
	"net/http"
	"os"
	"strings"
	"sync/atomic"
	"testing"
	"time"

	"k8s.io/apimachinery/pkg/runtime"
	k8sjson "k8s.io/apimachinery/pkg/util/json"
	utilruntime "k8s.io/apimachinery/pkg/util/runtime"

	"metacontroller/pkg/controller/common"
	vh "metacontroller/pkg/internal/verifh"
)

type c13cScenario struct {
	Seed     uint64   `json:"seed"`
	Mutation string   `json:"mutation"` // what was done to the answer
	Ctl      ctlSpec  `json:"ctl"`
	Parent   J        `json:"parent"`
	Anchor   J        `json:"anchor"`
	Objects  []J      `json:"objects"`
	Body     string   `json:"body"` // raw customize response for p1
	Code     int      `json:"code"` // 0 = 200
	Retry    string   `json:"retryAfter"`
	NetErr   bool     `json:"netErr"`
	Features []string `json:"features"`
}

const c13cAnchorAnswer = `{"relatedResources":[{"apiVersion":"v1","resource":"pods"}]}`

func (sc *c13cScenario) hookFunc(w *cworld) vh.HookFunc {
	return func(url string, hdr http.Header, req map[string]interface{}) (int, map[string]string, []byte, bool) {
		h := map[string]string{"X-Verif-Seq": fmt.Sprint(len(w.srv.Log()))}
		pname := c15HookParentName(req)
		if strings.HasSuffix(url, "/customize") {
			if pname == "anchor" {
				return 200, h, []byte(c13cAnchorAnswer), false
			}
			if sc.NetErr {
				return 0, nil, nil, true
			}
			code := sc.Code
			if code == 0 {
				code = 200
			}
			if sc.Retry != "" {
				h["Retry-After"] = sc.Retry
			}
			return code, h, []byte(sc.Body), false
		}
		n := 0
		if rm, ok := req["related"].(map[string]interface{}); ok {
			n = c15RelatedCount(rm)
		}
		resp := J{"status": J{"related": int64(n)}}
		cl := A{}
		if fin, _ := req["finalizing"].(bool); fin {
			resp["finalized"] = true
		} else {
			// a child per parent: an accepted answer is followed by a write, a rejected one must not be
			cmd := J{"name": "kid-" + pname, "labels": J{"app": "own"}}
			if !sc.Ctl.ParentNamespaced {
				cmd["namespace"] = "ns2"
			}
			cl = append(cl, J{"apiVersion": sc.Ctl.Kids[0].APIVersion, "kind": sc.Ctl.Kids[0].Kind, "metadata": cmd, "spec": J{"size": int64(1)}})
		}
		resp["children"] = cl
		body, _ := k8sjson.Marshal(resp)
		return 200, h, body, false
	}
}

type c13cUse struct {
	Kind  string
	Panic bool
	Woken bool // events: the anchor parent (whose rule selects every pod) was enqueued
	Round *roundRec
	Msg   string
}

func c13cRun(sc *c13cScenario) ([]c13cUse, error) {
	w := newWorld()
	defer w.close()
	hookTransport.Set(sc.hookFunc(w))
	w.srv.Seed(runtime.DeepCopyJSON(sc.Parent))
	w.srv.Seed(runtime.DeepCopyJSON(sc.Anchor))
	for _, o := range sc.Objects {
		w.srv.Seed(runtime.DeepCopyJSON(o))
	}
	key := parentKey(sc.Parent)
	anchorKey := parentKey(sc.Anchor)
	pns, _ := sc.Parent["metadata"].(map[string]interface{})["namespace"].(string)
	w.freezeViews()
	view := w.c15RelatedView()
	b, err := w.buildPC(&sc.Ctl)
	if err != nil {
		return nil, err
	}
	defer b.close()
	var uses []c13cUse

	sync := func(kind, k, pname string) *roundRec {
		rec := w.runSync(&sc.Ctl, b, k)
		// hook calls made meanwhile by the informer handler goroutine for the other parent are not part of this sync
		kept := rec.Events[:0]
		for _, e := range rec.Events {
			if e.Hook != nil && c15HookParentName(e.Hook.Req) != pname {
				continue
			}
			kept = append(kept, e)
		}
		rec.Events = kept
		for rk, objs := range view {
			if _, ok := rec.CacheChildren[rk]; !ok {
				rec.CacheChildren[rk] = append([]map[string]interface{}(nil), objs...)
			}
		}
		uses = append(uses, c13cUse{Kind: kind, Panic: rec.Result == "panic", Round: rec, Msg: rec.PanicMsg})
		return rec
	}
	// waits until the handler has dealt with the event: it enqueues the anchor last, or it panicked
	settle := func(panicsBefore int32) (woken, panicked bool) {
		deadline := time.Now().Add(2 * time.Second)
		for time.Now().Before(deadline) {
			if atomic.LoadInt32(&c15HandlerPanics) > panicsBefore {
				return false, true
			}
			for _, op := range b.queue.Snapshot() {
				if op.Op == "Add" && op.Key == anchorKey {
					return true, atomic.LoadInt32(&c15HandlerPanics) > panicsBefore
				}
			}
			time.Sleep(200 * time.Microsecond)
		}
		return false, atomic.LoadInt32(&c15HandlerPanics) > panicsBefore
	}
	event := func(kind, evType string, obj J) {
		deadline := time.Now().Add(3 * time.Second)
		for w.srv.WatchCount("v1", "Pod") == 0 && time.Now().Before(deadline) {
			time.Sleep(200 * time.Microsecond)
		}
		before := atomic.LoadInt32(&c15HandlerPanics)
		b.queue.Reset()
		w.srv.Emit(evType, obj)
		woken, panicked := settle(before)
		uses = append(uses, c13cUse{Kind: kind, Panic: panicked, Woken: woken})
	}

	sync("sync-first", key, "p1")
	sync("sync-retry", key, "p1")
	// the anchor's sync creates the pods informer: its initial ADD events are related-object events
	before := atomic.LoadInt32(&c15HandlerPanics)
	hadInformer := w.srv.WatchCount("v1", "Pod") > 0 // an accepted answer over pods has created it already
	sync("anchor-sync", anchorKey, "anchor")
	if !hadInformer {
		woken, panicked := settle(before)
		uses = append(uses, c13cUse{Kind: "event-initial-add", Panic: panicked, Woken: woken})
	}

	pods := view["pods.v1"]
	newPod := J{"apiVersion": "v1", "kind": "Pod", "metadata": J{"name": "fresh", "namespace": "ns1", "uid": "uid-fresh", "resourceVersion": "900001", "labels": J{"tier": "x"}}}
	event("event-add", "ADDED", newPod)
	pods = append(pods, newPod)
	if len(pods) > 1 {
		mod := runtime.DeepCopyJSON(pods[0])
		md := mod["metadata"].(map[string]interface{})
		md["resourceVersion"] = "900002"
		md["annotations"] = map[string]interface{}{"touched": "yes"}
		event("event-update", "MODIFIED", mod)
		pods[0] = mod
		del := runtime.DeepCopyJSON(pods[1])
		del["metadata"].(map[string]interface{})["resourceVersion"] = "900003"
		event("event-delete", "DELETED", del)
		pods = append(pods[:1:1], pods[2:]...)
	}
	view["pods.v1"] = pods

	// generation bump, delivered through the parent informer's watch
	cur := w.srv.GetLive(sc.Ctl.ParentAPIVersion, sc.Ctl.ParentKind, pns, "p1")
	if cur != nil {
		md := cur["metadata"].(map[string]interface{})
		g, _ := md["generation"].(int64)
		md["generation"] = g + 1
		delete(md, "resourceVersion")
		if sp, ok := cur["spec"].(map[string]interface{}); ok {
			sp["note"] = "edited"
		}
		seeded := w.srv.Seed(cur)
		deadline := time.Now().Add(3 * time.Second)
		for w.srv.WatchCount(sc.Ctl.ParentAPIVersion, sc.Ctl.ParentKind) == 0 && time.Now().Before(deadline) {
			time.Sleep(200 * time.Microsecond)
		}
		w.srv.Emit("MODIFIED", seeded)
		seen := false
		deadline = time.Now().Add(2 * time.Second)
		for !seen && time.Now().Before(deadline) {
			if lp, err := common.GetObject(b.pc.parentInformer, pns, "p1"); err == nil && lp.GetGeneration() == g+1 {
				seen = true
			} else {
				time.Sleep(200 * time.Microsecond)
			}
		}
		if seen {
			sync("sync-bumped", key, "p1")
			sync("sync-bumped-retry", key, "p1")
		}
	}
	return uses, nil
}

// ---- emission ----

func c13cCoqCase(sc *c13cScenario, uses []c13cUse) string {
	us := []string{}
	for _, u := range uses {
		round := "None"
		if u.Round != nil {
			round = "(Some " + coqRound(&sc.Ctl, u.Round) + ")"
		}
		us = append(us, fmt.Sprintf("(mkUse %s %s %s %s)", vh.MustCoqString(u.Kind), vh.CoqBool(u.Panic), vh.CoqBool(u.Woken), round))
	}
	return fmt.Sprintf("mkC13c %s [%s] %s", coqCfg(&sc.Ctl), strings.Join(us, ";\n "), vh.CoqStringList(sc.Features))
}

func c13cOutcome(uses []c13cUse) []string {
	var out []string
	for _, u := range uses {
		if u.Round != nil {
			ncust, nhook, nwrite := 0, 0, 0
			for _, e := range u.Round.Events {
				switch {
				case e.Hook != nil && strings.HasSuffix(e.Hook.URL, "/customize"):
					ncust++
				case e.Hook != nil:
					nhook++
				case e.API != nil && e.API.Verb != "get":
					nwrite++
				}
			}
			msg := ""
			if u.Panic {
				msg = " " + u.Msg
			}
			out = append(out, fmt.Sprintf("%s:%s customize=%d hook=%d writes=%d%s", u.Kind, u.Round.Result, ncust, nhook, nwrite, msg))
		} else {
			out = append(out, fmt.Sprintf("%s:panic=%v anchor-woken=%v", u.Kind, u.Panic, u.Woken))
		}
	}
	return out
}

// ---- the answers ----

type c13cAnswer struct {
	mutation string
	body     string
	code     int
	retry    string
	netErr   bool
}

// every JSON type (and a few hostile literals) as raw text
var c13cValues = []struct{ name, text string }{
	{"null", "null"}, {"true", "true"}, {"int", "7"}, {"float", "1.5"}, {"huge-int", "123456789012345678901234567890"},
	{"huge-float", "1e400"}, {"negative", "-1"}, {"string", `"x"`}, {"empty-string", `""`}, {"array", "[]"},
	{"array-of-null", "[null]"}, {"array-of-int", "[7]"}, {"array-of-array", "[[]]"}, {"object", "{}"},
	{"object-of-null", `{"a":null}`}, {"object-of-int", `{"a":7}`},
}

func c13cRule(fields map[string]string) string {
	order := []string{"apiVersion", "resource", "labelSelector", "namespace", "names"}
	parts := []string{}
	for _, k := range order {
		if v, ok := fields[k]; ok {
			parts = append(parts, fmt.Sprintf("%q:%s", k, v))
		}
	}
	return "{" + strings.Join(parts, ",") + "}"
}

func c13cAnswers() []c13cAnswer {
	var out []c13cAnswer
	wrap := func(rr string) string { return `{"relatedResources":` + rr + `}` }
	validNames := map[string]string{"apiVersion": `"v1"`, "resource": `"pods"`, "names": `["a"]`}
	validLabels := map[string]string{"apiVersion": `"v1"`, "resource": `"pods"`, "labelSelector": `{"matchLabels":{"tier":"x"}}`}
	// controls: accepted answers
	out = append(out, c13cAnswer{mutation: "control-valid-names", body: wrap("[" + c13cRule(validNames) + "]")})
	out = append(out, c13cAnswer{mutation: "control-valid-labels", body: wrap("[" + c13cRule(validLabels) + "]")})
	out = append(out, c13cAnswer{mutation: "control-unknown-fields", body: `{"relatedResources":[{"apiVersion":"v1","resource":"pods","Names":["a"],"extra":{"x":1}}],"other":[1,2]}`})
	// relatedResources replaced
	for _, v := range c13cValues {
		out = append(out, c13cAnswer{mutation: "relatedResources=" + v.name, body: wrap(v.text)})
	}
	// null entries
	r := c13cRule(validNames)
	for _, rr := range []struct{ name, text string }{
		{"null-entry-only", "[null]"}, {"null-entry-first", "[null," + r + "]"}, {"null-entry-last", "[" + r + ",null]"},
		{"null-entry-middle", "[" + r + ",null," + c13cRule(validLabels) + "]"}, {"null-entries", "[null,null]"},
		{"entry-not-object", "[" + r + `,"pods"]`}, {"entry-array", "[" + r + ",[]]"}, {"entry-int", "[7," + r + "]"},
	} {
		out = append(out, c13cAnswer{mutation: rr.name, body: wrap(rr.text)})
	}
	// each rule field replaced by each value, on both rule styles, alone and behind a valid rule
	for _, f := range []string{"apiVersion", "resource", "labelSelector", "namespace", "names"} {
		for _, v := range c13cValues {
			for bi, base := range []map[string]string{validNames, validLabels} {
				m := map[string]string{}
				for k, x := range base {
					m[k] = x
				}
				m[f] = v.text
				style := []string{"names", "labels"}[bi]
				out = append(out, c13cAnswer{mutation: fmt.Sprintf("%s=%s/%s-rule", f, v.name, style), body: wrap("[" + c13cRule(m) + "]")})
				if bi == 0 {
					out = append(out, c13cAnswer{mutation: fmt.Sprintf("%s=%s/behind-valid", f, v.name), body: wrap("[" + r + "," + c13cRule(m) + "]")})
				}
			}
		}
	}
	// inside the label selector
	for _, v := range c13cValues {
		out = append(out, c13cAnswer{mutation: "matchLabels=" + v.name, body: wrap(`[{"apiVersion":"v1","resource":"pods","labelSelector":{"matchLabels":` + v.text + `}}]`)})
		out = append(out, c13cAnswer{mutation: "matchExpressions=" + v.name, body: wrap(`[{"apiVersion":"v1","resource":"pods","labelSelector":{"matchExpressions":` + v.text + `}}]`)})
		out = append(out, c13cAnswer{mutation: "label-value=" + v.name, body: wrap(`[{"apiVersion":"v1","resource":"pods","labelSelector":{"matchLabels":{"tier":` + v.text + `}}}]`)})
		for _, rf := range []string{"key", "operator", "values"} {
			m := map[string]string{"key": `"tier"`, "operator": `"In"`, "values": `["x"]`}
			m[rf] = v.text
			out = append(out, c13cAnswer{mutation: "requirement-" + rf + "=" + v.name,
				body: wrap(fmt.Sprintf(`[{"apiVersion":"v1","resource":"pods","labelSelector":{"matchExpressions":[{"key":%s,"operator":%s,"values":%s}]}}]`, m["key"], m["operator"], m["values"]))})
		}
	}
	// semantic rejections
	out = append(out, c13cAnswer{mutation: "unknown-resource", body: wrap(`[{"apiVersion":"v1","resource":"gadgets"}]`)})
	out = append(out, c13cAnswer{mutation: "unknown-resource-behind-valid", body: wrap("[" + r + `,{"apiVersion":"v9","resource":"pods"}]`)})
	out = append(out, c13cAnswer{mutation: "both-styles", body: wrap(`[{"apiVersion":"v1","resource":"pods","labelSelector":{},"names":["a"]}]`)})
	out = append(out, c13cAnswer{mutation: "foreign-namespace", body: wrap(`[{"apiVersion":"v1","resource":"pods","namespace":"ns3"}]`)})
	out = append(out, c13cAnswer{mutation: "bad-operator", body: wrap(`[{"apiVersion":"v1","resource":"pods","labelSelector":{"matchExpressions":[{"key":"tier","operator":"Near","values":["x"]}]}}]`)})
	// the whole body
	for _, v := range c13cValues {
		out = append(out, c13cAnswer{mutation: "body=" + v.name, body: v.text})
	}
	for _, nb := range []struct{ name, text string }{
		{"empty", ""}, {"not-json", "{not json"}, {"truncated", `{"relatedResources":[{"apiVersion":"v1","resource":"po`}, {"html", "<html>502</html>"},
		{"trailing-garbage", wrap("[]") + " x"}, {"two-documents", wrap("[]") + wrap("[null]")}, {"nul-literal", "nul"}, {"duplicate-key", `{"relatedResources":[],"relatedResources":[null]}`},
		{"deep-nesting", wrap(strings.Repeat("[", 200) + strings.Repeat("]", 200))},
	} {
		out = append(out, c13cAnswer{mutation: "body-" + nb.name, body: nb.text})
	}
	// status codes
	good := wrap("[" + r + "]")
	for _, code := range []int{201, 204, 301, 400, 401, 404, 409, 422, 500, 502, 503} {
		out = append(out, c13cAnswer{mutation: fmt.Sprintf("code-%d", code), body: good, code: code})
		out = append(out, c13cAnswer{mutation: fmt.Sprintf("code-%d-null-rule", code), body: wrap("[null]"), code: code})
	}
	out = append(out, c13cAnswer{mutation: "code-429", body: good, code: 429, retry: "7"})
	out = append(out, c13cAnswer{mutation: "code-429-no-retry-after", body: good, code: 429})
	out = append(out, c13cAnswer{mutation: "code-429-bad-retry-after", body: good, code: 429, retry: "soon"})
	out = append(out, c13cAnswer{mutation: "connection-refused", netErr: true})
	return out
}

func c13cGenerate(seed uint64, n int) []*c13cScenario {
	all := c13cAnswers()
	root := vh.NewRng(seed ^ 0xc13c)
	// a fixed core first (one of each family), then a seeded walk through the enumeration
	idx := []int{}
	seen := map[int]bool{}
	famSeen := map[string]bool{}
	for i, a := range all {
		fam := strings.SplitN(a.mutation, "=", 2)[0]
		if strings.HasPrefix(fam, "code-") && !strings.HasPrefix(fam, "code-429") && fam != "code-500" && fam != "code-400" && fam != "code-500-null-rule" {
			fam = "code"
		}
		if !famSeen[fam] {
			famSeen[fam] = true
			idx = append(idx, i)
			seen[i] = true
		}
	}
	for len(idx) < n && len(seen) < len(all) {
		i := root.Intn(len(all))
		if !seen[i] {
			seen[i] = true
			idx = append(idx, i)
		}
	}
	if n > 0 && len(idx) > n {
		idx = idx[:n]
	}
	var out []*c13cScenario
	for ci, i := range idx {
		a := all[i]
		r, s := root.Fork()
		g := &c15Gen{r: r}
		b := g.base(ci, s, "c13c")
		sc := &c13cScenario{Seed: s, Mutation: a.mutation, Ctl: b.Ctl, Parent: b.Parent, Objects: b.Objects,
			Body: a.body, Code: a.code, Retry: a.retry, NetErr: a.netErr}
		sc.Ctl.Name = fmt.Sprintf("c13c%d", ci%5)
		anchor := runtime.DeepCopyJSON(b.Parent)
		amd := anchor["metadata"].(map[string]interface{})
		amd["name"] = "anchor"
		amd["generation"] = amd["generation"].(int64) + 7
		sc.Anchor = anchor
		sc.Features = append(append([]string{}, b.Features[:1]...), "answer-"+strings.SplitN(a.mutation, "=", 2)[0])
		if strings.Contains(a.body, "null") && strings.Contains(a.mutation, "null-entr") {
			sc.Features = append(sc.Features, "null-rule")
		}
		out = append(out, sc)
	}
	return out
}

// ---- the test ----

func TestVerif_C13c(t *testing.T) {
	env := vh.GetEnv()
	if env.OutDir == "" {
		t.Skip("VERIF_OUT not set")
	}
	prevCrash, prevHandlers := utilruntime.ReallyCrash, utilruntime.PanicHandlers
	utilruntime.ReallyCrash = false
	utilruntime.PanicHandlers = []func(context.Context, interface{}){func(context.Context, interface{}) {
		atomic.AddInt32(&c15HandlerPanics, 1)
	}}
	defer func() { utilruntime.ReallyCrash = prevCrash; utilruntime.PanicHandlers = prevHandlers }()
	header := "From MC Require Import Check.C15_check.\nOpen Scope string_scope.\n"
	w, err := vh.NewCaseWriter(env.OutDir, "C13c", header, 25)
	if err != nil {
		t.Fatal(err)
	}
	var scs []*c13cScenario
	if env.Replay != "" {
		data, err := os.ReadFile(env.Replay)
		if err != nil {
			t.Fatal(err)
		}
		var rf struct {
			Case struct {
				Scenario *c13cScenario `json:"scenario"`
			} `json:"case"`
		}
		if err := k8sjson.Unmarshal(data, &rf); err != nil || rf.Case.Scenario == nil {
			t.Fatalf("cannot read replay: %v", err)
		}
		scs = append(scs, rf.Case.Scenario)
	} else {
		n := env.N
		if n == 0 {
			n = 150
		}
		if env.Tier == "thorough" {
			n = len(c13cAnswers())
		}
		scs = c13cGenerate(env.Seed, n)
	}
	for i, sc := range scs {
		atomic.StoreInt32(&c15HandlerPanics, 0)
		uses, err := c13cRun(sc)
		if err != nil {
			t.Fatalf("scenario %d (%s): %v", i, sc.Mutation, err)
		}
		id := fmt.Sprintf("s%d", i)
		outcome := c13cOutcome(uses)
		replay := J{"scenario": sc, "features": sc.Features, "mutation": sc.Mutation, "outcome": outcome}
		if err := w.Add(id, c13cCoqCase(sc, uses), "C13c_check", replay); err != nil {
			t.Fatal(err)
		}
		for _, f := range sc.Features {
			w.Count("feature-" + f)
		}
		rejected := false
		for _, l := range outcome {
			w.Count("use-" + strings.SplitN(l, " ", 2)[0])
			if strings.HasPrefix(l, "sync-first:") && strings.Contains(l, "hook=0") {
				rejected = true
			}
		}
		if rejected {
			w.Count("answer-rejected")
			w.NonTrivial(vh.Sig(sc.Mutation, sc.Ctl.ParentNamespaced, fmt.Sprint(outcome)))
		} else {
			w.Count("answer-accepted")
		}
	}
	if err := w.Close(nil); err != nil {
		t.Fatal(err)
	}
}
