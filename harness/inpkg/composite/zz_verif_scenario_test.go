package composite

import (
	"encoding/json"
	"fmt"
	"net/http"
	"os"
	"regexp"
	"sort"
	"strings"
	"testing"
	"time"

	"k8s.io/apimachinery/pkg/runtime"
	k8sjson "k8s.io/apimachinery/pkg/util/json"

	vh "metacontroller/pkg/internal/verifh"
	sim "metacontroller/pkg/internal/verifsim"
)

type J = map[string]interface{}
type A = []interface{}

// ---- hook programs (data, so that a scenario replays from its JSON) ----
type hookProgram struct {
	Kind             string  `json:"kind"` // const | raw
	Children         []J     `json:"children"`
	Status           J       `json:"status"`
	NullStatus       bool    `json:"nullStatus"`
	Resync           float64 `json:"resync"`
	FinalizeChildren []J     `json:"finalizeChildren"` // answer of the finalize hook
	FinalizedIfEmpty bool    `json:"finalizedIfEmpty"` // finalized := no observed children left
	FinalizedAlways  bool    `json:"finalizedAlways"`
	RawBody          string  `json:"rawBody"`
	Code             int     `json:"code"`
	RetryAfter       string  `json:"retryAfter"`
	NetErr           bool    `json:"netErr"`
	OmitStatus       bool    `json:"omitStatus"`
	EchoParentConditions bool `json:"echoParentConditions"` // template hooks: status.conditions = the parent's current ones
	CustomizeBody    string  `json:"customizeBody"` // answer of the customize hook (default: no related resources)
	Reverse          bool    `json:"reverse"`       // template: list the children highest index first
	FinalizedForImage string `json:"finalizedForImage"` // template, finalizing: finalized iff the parent (revision) has this image
	FinalizeKeeps     bool   `json:"finalizeKeeps"`     // template, finalizing: keep asking for the children (step-down not started)
	IntegralFloat     bool   `json:"integralFloat"`     // const: write the first "replicas":N as N.0 on the wire
	PlainOwnerRef     bool   `json:"plainOwnerRef"`     // const: every child lists the parent as a plain (non-controller) owner
	EmptyForImage     string `json:"emptyForImage"`     // template: no children at all for a parent (revision) with this image
	BadForImage       string `json:"badForImage"`       // template: the call fails for a parent (revision) with this image ...
	BadKind           string `json:"badKind"`           // ... "500" (default), "garbage" (a rejected body) or "neterr"
}

func (h *hookProgram) answer(url string, req J) (int, map[string]string, []byte, bool) {
	if h.NetErr {
		return 0, nil, nil, true
	}
	code := h.Code
	if code == 0 {
		code = 200
	}
	hdr := map[string]string{}
	if strings.HasSuffix(url, "/customize") {
		if h.CustomizeBody != "" {
			return 200, hdr, []byte(h.CustomizeBody), false
		}
		return 200, hdr, []byte(`{"relatedResources":[]}`), false
	}
	if h.RetryAfter != "" {
		hdr["Retry-After"] = h.RetryAfter
	}
	if h.Kind == "raw" {
		return code, hdr, []byte(h.RawBody), false
	}
	if h.Kind == "template" {
		if h.BadForImage != "" {
			// a hook that fails for one parent state only (the older revision's, say)
			parent, _ := req["parent"].(map[string]interface{})
			spec, _ := parent["spec"].(map[string]interface{})
			if image, _ := spec["image"].(string); image == h.BadForImage {
				switch h.BadKind {
				case "garbage":
					return 200, hdr, []byte(`{"children": 7, "status": {}}`), false
				case "neterr":
					return 0, nil, nil, true
				default:
					return 500, hdr, []byte("the hook does not know this parent state"), false
				}
			}
		}
		return code, hdr, h.templateAnswer(req), false
	}
	if h.Kind == "ordered" || h.Kind == "echo" || h.Kind == "echo-meta" {
		return code, hdr, h.statefulAnswer(req), false
	}
	resp := J{}
	finalizing, _ := req["finalizing"].(bool)
	children := h.Children
	if finalizing {
		children = h.FinalizeChildren
		observed := 0
		if cm, ok := req["children"].(map[string]interface{}); ok {
			for _, g := range cm {
				if gm, ok := g.(map[string]interface{}); ok {
					observed += len(gm)
				}
			}
		}
		resp["finalized"] = h.FinalizedAlways || (h.FinalizedIfEmpty && observed == 0)
	}
	cl := make(A, 0, len(children))
	for _, c := range children {
		c2 := runtime.DeepCopyJSON(c)
		if h.PlainOwnerRef {
			if parent, ok := req["parent"].(map[string]interface{}); ok {
				pmd, _ := parent["metadata"].(map[string]interface{})
				if md, ok := c2["metadata"].(map[string]interface{}); ok && pmd != nil {
					md["ownerReferences"] = A{J{"apiVersion": parent["apiVersion"], "kind": parent["kind"], "name": pmd["name"], "uid": pmd["uid"]}}
				}
			}
		}
		cl = append(cl, c2)
	}
	resp["children"] = cl
	if h.NullStatus {
		resp["status"] = nil
	} else if h.Status != nil {
		resp["status"] = runtime.DeepCopyJSON(h.Status)
	}
	if h.Resync != 0 {
		resp["resyncAfterSeconds"] = h.Resync
	}
	body, _ := k8sjson.Marshal(resp)
	if h.IntegralFloat {
		body = integralFloatRe.ReplaceAll(body, []byte(`"replicas":$1.0`))
	}
	return code, hdr, body, false
}

var integralFloatRe = regexp.MustCompile(`"replicas":(\d+)`)

// template: children = Template x parent.spec.replicas, each carrying parent.spec.image (revisioned)
// and parent.spec.note (may be outside the revision field paths)
func (h *hookProgram) templateAnswer(req J) []byte {
	parent, _ := req["parent"].(map[string]interface{})
	spec, _ := parent["spec"].(map[string]interface{})
	n, _ := spec["replicas"].(int64)
	image, _ := spec["image"].(string)
	note, _ := spec["note"].(string)
	cl := A{}
	if h.EmptyForImage != "" && image == h.EmptyForImage {
		n = 0
	}
	for i := int64(0); i < n; i++ {
		for _, t := range h.Children {
			c := runtime.DeepCopyJSON(t)
			md := c["metadata"].(map[string]interface{})
			md["name"] = fmt.Sprintf("%s%d", md["name"], i)
			sp, _ := c["spec"].(map[string]interface{})
			if sp == nil {
				sp = J{}
				c["spec"] = sp
			}
			sp["image"] = image
			if note != "" {
				sp["note"] = note
			}
			cl = append(cl, c)
		}
	}
	if h.Reverse {
		for i, j := 0, len(cl)-1; i < j; i, j = i+1, j-1 {
			cl[i], cl[j] = cl[j], cl[i]
		}
	}
	resp := J{"children": cl}
	if h.NullStatus {
		resp["status"] = nil
	} else if h.Status != nil {
		resp["status"] = runtime.DeepCopyJSON(h.Status)
	} else if !h.OmitStatus {
		resp["status"] = J{"replicas": n}
	}
	if h.EchoParentConditions {
		st, _ := resp["status"].(J)
		if st == nil {
			st = J{"replicas": n}
			resp["status"] = st
		}
		if pst, ok := parent["status"].(map[string]interface{}); ok {
			if conds, ok := pst["conditions"]; ok {
				st["conditions"] = runtime.DeepCopyJSONValue(conds)
			}
		}
	}
	if finalizing, _ := req["finalizing"].(bool); finalizing {
		if !h.FinalizeKeeps {
			resp["children"] = A{}
		}
		observed := 0
		if cm, ok := req["children"].(map[string]interface{}); ok {
			for _, g := range cm {
				if gm, ok := g.(map[string]interface{}); ok {
					observed += len(gm)
				}
			}
		}
		resp["finalized"] = observed == 0
		if h.FinalizedForImage != "" {
			resp["finalized"] = image == h.FinalizedForImage
		}
	}
	body, _ := k8sjson.Marshal(resp)
	return body
}

// statefulAnswer: hooks whose answer depends on the observed children.
// "ordered" (StatefulSet-like): child i+1 is only asked for once children 0..i are observed Ready.
// "echo": returns every observed child verbatim (resourceVersion and all) plus the constant children not yet there.
func (h *hookProgram) statefulAnswer(req J) []byte {
	observed := map[string]J{}
	if cm, ok := req["children"].(map[string]interface{}); ok {
		for _, g := range cm {
			if gm, ok := g.(map[string]interface{}); ok {
				for name, o := range gm {
					if om, ok := o.(map[string]interface{}); ok {
						observed[name] = om
					}
				}
			}
		}
	}
	cl := A{}
	if h.Kind == "ordered" {
		for _, c := range h.Children {
			cl = append(cl, runtime.DeepCopyJSON(c))
			name := c["metadata"].(map[string]interface{})["name"].(string)
			o, ok := observed[name]
			if !ok {
				break
			}
			ready := false
			if st, ok := o["status"].(map[string]interface{}); ok {
				if conds, ok := st["conditions"].([]interface{}); ok {
					for _, cnd := range conds {
						if cmap, ok := cnd.(map[string]interface{}); ok && cmap["type"] == "Ready" && cmap["status"] == "True" {
							ready = true
						}
					}
				}
			}
			if !ready {
				break
			}
		}
	} else if h.Kind == "echo-meta" {
		// the hook's own children, each carrying the annotations it was observed with
		// (bookkeeping annotation included), as a hook that round-trips metadata does
		for _, c := range h.Children {
			c2 := runtime.DeepCopyJSON(c)
			md := c2["metadata"].(map[string]interface{})
			for _, o := range observed {
				omd, _ := o["metadata"].(map[string]interface{})
				if omd == nil || omd["name"] != md["name"] {
					continue
				}
				if ann, ok := omd["annotations"].(map[string]interface{}); ok {
					md["annotations"] = runtime.DeepCopyJSON(ann)
				}
			}
			cl = append(cl, c2)
		}
	} else {
		seen := map[string]bool{}
		for name, o := range observed {
			cl = append(cl, runtime.DeepCopyJSON(o))
			seen[name] = true
		}
		for _, c := range h.Children {
			if !seen[c["metadata"].(map[string]interface{})["name"].(string)] {
				cl = append(cl, runtime.DeepCopyJSON(c))
			}
		}
	}
	resp := J{"children": cl}
	if h.Status != nil {
		resp["status"] = runtime.DeepCopyJSON(h.Status)
	}
	body, _ := k8sjson.Marshal(resp)
	return body
}

// ---- external operations on the store ----
type extOp struct {
	Op         string `json:"op"` // delete | recreate | orphan | steal | relabel | deleting | edit | status | parent-delete | parent-edit | parent-recreate
	APIVersion string `json:"apiVersion"`
	Kind       string `json:"kind"`
	Namespace  string `json:"namespace"`
	Name       string `json:"name"`
	Data       J      `json:"data"`
}

func (w *cworld) applyExt(op extOp) {
	if op.Op == "recreate-revisions" || op.Op == "orphan-revisions" || op.Op == "relabel-revisions" || op.Op == "steal-revisions" {
		// every ControllerRevision: a new incarnation under the same name / no owner any more / extra labels
		// (Data["labels"], also with orphan-revisions)
		mdOf := func(o J) J {
			m, _ := o["metadata"].(map[string]interface{})
			return m
		}
		for _, o := range w.srv.AllLive() {
			if o["kind"] != "ControllerRevision" {
				continue
			}
			m := mdOf(o)
			ns, _ := m["namespace"].(string)
			name, _ := m["name"].(string)
			if op.Op == "recreate-revisions" {
				w.srv.RemoveLive(fmt.Sprint(o["apiVersion"]), "ControllerRevision", ns, name)
				delete(m, "uid")
			} else if op.Op == "orphan-revisions" {
				delete(m, "ownerReferences")
			} else if op.Op == "steal-revisions" {
				// another parent has adopted it (after a release, an overlapping selector)
				m["ownerReferences"] = []interface{}{map[string]interface{}{"apiVersion": "ctl.example.com/v1", "kind": "Thing",
					"name": "somebody-else", "uid": "uid-somebody-else", "controller": true, "blockOwnerDeletion": true}}
			}
			if extra, ok := op.Data["labels"].(J); ok {
				ls, _ := m["labels"].(map[string]interface{})
				if ls == nil {
					ls = map[string]interface{}{}
					m["labels"] = ls
				}
				for k, v := range extra {
					ls[k] = v
				}
			}
			delete(m, "resourceVersion")
			w.srv.Seed(o)
		}
		return
	}
	cur := w.srv.GetLive(op.APIVersion, op.Kind, op.Namespace, op.Name)
	md := func(o J) J {
		m, _ := o["metadata"].(map[string]interface{})
		if m == nil {
			m = J{}
			o["metadata"] = m
		}
		return m
	}
	switch op.Op {
	case "delete":
		w.srv.RemoveLive(op.APIVersion, op.Kind, op.Namespace, op.Name)
	case "recreate": // same name, new incarnation
		if cur == nil {
			return
		}
		w.srv.RemoveLive(op.APIVersion, op.Kind, op.Namespace, op.Name)
		m := md(cur)
		delete(m, "uid")
		delete(m, "resourceVersion")
		delete(m, "ownerReferences")
		delete(m, "deletionTimestamp")
		delete(m, "annotations")
		w.srv.Seed(cur)
	case "orphan":
		if cur == nil {
			return
		}
		delete(md(cur), "ownerReferences")
		delete(md(cur), "resourceVersion")
		w.srv.Seed(cur)
	case "plainowner": // controlled by somebody else, and listing the parent (op.Data: apiVersion, kind, namespace, name) as a plain owner
		if cur == nil {
			return
		}
		refs := A{J{"apiVersion": "v1", "kind": "Other", "name": "other", "uid": "uid-other", "controller": true}}
		if op.Data["orphan"] == true {
			refs = A{} // nobody controls it: an orphan that names the parent as a plain (garbage-collection) owner
		}
		pav, _ := op.Data["apiVersion"].(string)
		pk, _ := op.Data["kind"].(string)
		pns, _ := op.Data["namespace"].(string)
		pn, _ := op.Data["name"].(string)
		if p := w.srv.GetLive(pav, pk, pns, pn); p != nil {
			refs = append(refs, J{"apiVersion": pav, "kind": pk, "name": pn, "uid": md(p)["uid"]})
		}
		md(cur)["ownerReferences"] = refs
		delete(md(cur), "resourceVersion")
		w.srv.Seed(cur)
	case "replace-drifted": // a new incarnation under the same name, same owners and labels, generation 1 again, spec drifted
		if cur == nil {
			return
		}
		w.srv.RemoveLive(op.APIVersion, op.Kind, op.Namespace, op.Name)
		m := md(cur)
		delete(m, "uid")
		delete(m, "resourceVersion")
		m["generation"] = int64(1)
		for k, v := range op.Data {
			cur[k] = v
		}
		w.srv.Seed(cur)
	case "steal": // now controlled by somebody else
		if cur == nil {
			return
		}
		md(cur)["ownerReferences"] = A{J{"apiVersion": "v1", "kind": "Other", "name": "other", "uid": "uid-other", "controller": true}}
		delete(md(cur), "resourceVersion")
		w.srv.Seed(cur)
	case "relabel":
		if cur == nil {
			return
		}
		md(cur)["labels"] = op.Data
		delete(md(cur), "resourceVersion")
		w.srv.Seed(cur)
	case "unfinalize": // metacontroller's own finalizers are gone from the live object (an earlier sync took them off)
		if cur == nil {
			return
		}
		var keep []interface{}
		fs, _ := md(cur)["finalizers"].([]interface{})
		for _, f := range fs {
			if fstr, _ := f.(string); !strings.HasPrefix(fstr, "metacontroller.io/") {
				keep = append(keep, f)
			}
		}
		if len(keep) == 0 {
			delete(md(cur), "finalizers")
		} else {
			md(cur)["finalizers"] = keep
		}
		delete(md(cur), "resourceVersion")
		w.srv.Seed(cur)
	case "relabel-merge": // the labels named change (nil: go away), the others stay
		if cur == nil {
			return
		}
		ls, _ := md(cur)["labels"].(map[string]interface{})
		if ls == nil {
			ls = map[string]interface{}{}
		}
		for k, v := range op.Data {
			if v == nil {
				delete(ls, k)
			} else {
				ls[k] = v
			}
		}
		md(cur)["labels"] = ls
		delete(md(cur), "resourceVersion")
		w.srv.Seed(cur)
	case "deleting":
		if cur == nil {
			return
		}
		md(cur)["deletionTimestamp"] = "2020-01-02T00:00:00Z"
		fs, _ := md(cur)["finalizers"].([]interface{})
		if op.Data != nil {
			for _, f := range op.Data["finalizers"].([]interface{}) {
				fs = append(fs, f)
			}
		}
		if len(fs) > 0 {
			md(cur)["finalizers"] = fs
		}
		delete(md(cur), "resourceVersion")
		w.srv.Seed(cur)
	case "edit": // merge top-level fields (spec etc.)
		if cur == nil {
			return
		}
		for k, v := range op.Data {
			cur[k] = v
		}
		if g, ok := md(cur)["generation"].(int64); ok {
			md(cur)["generation"] = g + 1
		} else {
			md(cur)["generation"] = int64(2)
		}
		delete(md(cur), "resourceVersion")
		w.srv.Seed(cur)
	case "create":
		w.srv.Seed(runtime.DeepCopyJSON(op.Data))
	case "status": // set status, no generation change
		if cur == nil {
			return
		}
		cur["status"] = op.Data
		delete(md(cur), "resourceVersion")
		w.srv.Seed(cur)
	case "healthy-all": // the fair environment: every object of the kind reports Ready and its own generation
		for _, o := range w.srv.AllLive() {
			also := op.Data != nil && o["apiVersion"] == op.Data["alsoAPIVersion"] && o["kind"] == op.Data["alsoKind"]
			if (o["apiVersion"] == op.APIVersion && o["kind"] == op.Kind) || also {
				if op.Data != nil && op.Data["bare"] == true {
					delete(o, "status")
					delete(md(o), "resourceVersion")
					w.srv.Seed(o)
					continue
				}
				g, _ := md(o)["generation"].(int64)
				cond := J{"type": "Ready", "status": "True"}
				if op.Data != nil {
					if rs, ok := op.Data["reason"].(string); ok {
						cond["reason"] = rs
					}
					if cs, ok := op.Data["condStatus"].(string); ok {
						cond["status"] = cs // healthy for a check that names no status
					}
				}
				st := J{"conditions": A{cond}}
				if op.Data == nil || op.Data["noObservedGeneration"] != true {
					st["observedGeneration"] = g
				}
				if op.Data != nil && op.Data["observedGenerationAsString"] == true {
					st["observedGeneration"] = fmt.Sprint(g)
				}
				o["status"] = st
				delete(md(o), "resourceVersion")
				w.srv.Seed(o)
			}
		}
	}
}

// ---- scenario ----
type roundSpec struct {
	PreOps []extOp            `json:"preOps"`   // before the caches are refreshed
	Stale  bool               `json:"stale"`    // keep the previous round's cache view
	MidOps map[string][]extOp `json:"midOps"`   // request index -> ops applied just before that request
	Faults map[string]J       `json:"faults"`   // request index -> {code, reason}
	LateOps []extOp           `json:"lateOps"`  // after the caches are taken, before the sync starts
	FaultOn []faultOn         `json:"faultOn"`  // faults aimed at a kind of request rather than a position
	Requeues int              `json:"requeues"` // what the work queue reports as earlier failures of this key
	StaleRevisions bool       `json:"staleRevisions"` // the ControllerRevision lister still shows what was there before the previous sync
}

type faultOn struct {
	Verb      string `json:"verb"`
	Kind      string `json:"kind"`
	AfterHook bool   `json:"afterHook"`
	Nth       int    `json:"nth"` // 0 = first matching request
	Fault     J      `json:"fault"`
	Ops       []extOp `json:"ops"` // store edits applied just before that request (with or without a fault)
}

type scenario struct {
	Seed     uint64        `json:"seed"`
	Family   string        `json:"family"`
	Ctl      ctlSpec       `json:"ctl"`
	Parent   J             `json:"parent"`
	Warmup   bool          `json:"warmup"` // run one unrecorded sync first so children exist as the controller makes them
	Setup    []extOp       `json:"setup"`  // store edits after warm-up
	Hook     hookProgram   `json:"hook"`
	Hook2    *hookProgram  `json:"hook2"` // when set: the program used after the warm-up
	Rounds   []roundSpec   `json:"rounds"`
	Features []string      `json:"features"`
	LongLived bool         `json:"longLived"` // one controller instance serves every recorded sync (its informers are fed by watch events)
	SSAAfterWarmup bool    `json:"ssaAfterWarmup"` // the warm-up runs with dynamic apply, the recorded syncs with server-side apply
	SubFirst bool          `json:"subFirst"` // API discovery lists every "x/status" before "x"
}

func parentKey(p J) string {
	md := p["metadata"].(map[string]interface{})
	ns, _ := md["namespace"].(string)
	if ns == "" {
		return md["name"].(string)
	}
	return ns + "/" + md["name"].(string)
}

type caseRec struct {
	Sc     *scenario
	Rounds []*roundRec
	Final  []J
}

func (w *cworld) refreshViews(s *ctlSpec) {
	w.srv.ClearListViews()
}

// freezeViews pins LIST to the current live content (a snapshot that later writes do not change).
func (w *cworld) freezeViews() {
	byRes := map[string][]J{}
	for _, o := range w.srv.AllLive() {
		k := fmt.Sprint(o["apiVersion"], "|", o["kind"])
		byRes[k] = append(byRes[k], o)
	}
	for _, r := range simResources {
		objs := byRes[r.APIVersion()+"|"+r.Kind]
		if objs == nil {
			objs = []J{}
		}
		w.srv.SetListView(r.APIVersion(), r.Kind, objs)
	}
}

// hookFunc: the scripted hook of a scenario, stamped with the API log position
func (sc *scenario) hookFunc(w *cworld) vh.HookFunc {
	return func(url string, hdr http.Header, req map[string]interface{}) (int, map[string]string, []byte, bool) {
		code, h, body, ne := sc.Hook.answer(url, req)
		if h == nil {
			h = map[string]string{}
		}
		h["X-Verif-Seq"] = fmt.Sprint(len(w.srv.Log()))
		return code, h, body, ne
	}
}

func runScenario(sc *scenario) (*caseRec, error) {
	w := newWorldWith(sc.SubFirst)
	defer w.close()
	ctlCounter++
	sc.Ctl.Name = fmt.Sprintf("%s", sc.Ctl.Name)
	hookTransport.Set(func(url string, hdr http.Header, req map[string]interface{}) (int, map[string]string, []byte, bool) {
		code, h, body, ne := sc.Hook.answer(url, req)
		if h == nil {
			h = map[string]string{}
		}
		h["X-Verif-Seq"] = fmt.Sprint(len(w.srv.Log()))
		return code, h, body, ne
	})
	if sc.SSAAfterWarmup {
		sc.Ctl.SSA = false
	}
	seedParent := runtime.DeepCopyJSON(sc.Parent)
	if md, ok := seedParent["metadata"].(map[string]interface{}); ok {
		if _, has := md["generation"]; !has {
			md["generation"] = int64(1) // as an object created through the API would carry
		}
	}
	w.srv.Seed(seedParent)
	key := parentKey(sc.Parent)
	if sc.Warmup {
		b, err := w.buildPC(&sc.Ctl)
		if err != nil {
			return nil, err
		}
		func() {
			defer func() { recover() }()
			_ = b.pc.sync(key)
		}()
		b.close()
		// a second pass so that finalizer/status settle
		b, err = w.buildPC(&sc.Ctl)
		if err != nil {
			return nil, err
		}
		func() {
			defer func() { recover() }()
			_ = b.pc.sync(key)
		}()
		b.close()
	}
	if sc.SSAAfterWarmup {
		sc.Ctl.SSA = true
	}
	for _, op := range sc.Setup {
		w.applyExt(op)
	}
	if sc.Hook2 != nil {
		h2 := sc.Hook2
		hookTransport.Set(func(url string, hdr http.Header, req map[string]interface{}) (int, map[string]string, []byte, bool) {
			code, h, body, ne := h2.answer(url, req)
			if h == nil {
				h = map[string]string{}
			}
			h["X-Verif-Seq"] = fmt.Sprint(len(w.srv.Log()))
			return code, h, body, ne
		})
	}
	out := &caseRec{Sc: sc}
	w.freezeViews()
	var persistent *builtPC
	var prevRevs []map[string]interface{}
	for _, r := range sc.Rounds {
		for _, op := range r.PreOps {
			w.applyExt(op)
		}
		curRevs := w.listRevisions()
		if curRevs == nil {
			curRevs = []map[string]interface{}{}
		}
		if r.StaleRevisions && prevRevs != nil {
			w.revView = prevRevs
		} else {
			w.revView = nil
		}
		prevRevs = curRevs
		if !r.Stale {
			w.freezeViews()
		}
		var b *builtPC
		if sc.LongLived && persistent != nil {
			b = persistent
			if !r.Stale {
				if err := w.refreshInformers(b); err != nil {
					return nil, err
				}
			}
		} else {
			var err error
			b, err = w.buildPC(&sc.Ctl)
			if err != nil {
				return nil, err
			}
			if sc.LongLived {
				persistent = b
			}
		}
		for _, op := range r.LateOps {
			w.applyExt(op)
		}
		seen := make([]int, len(r.FaultOn))
		w.srv.SetBeforeRequest(func(n int, verb, apiVersion, kind, ns, name string) *sim.Fault {
			// every entry counts the requests it matches (also when another entry fires on the same request)
			var fire *sim.Fault
			for fi, fo := range r.FaultOn {
				if fo.Verb == verb && fo.Kind == kind && (!fo.AfterHook || len(hookTransport.Calls()) > 0) {
					seen[fi]++
					if seen[fi]-1 == fo.Nth {
						for _, op := range fo.Ops {
							w.applyExt(op)
						}
						if fo.Fault == nil || fire != nil {
							continue
						}
						code, _ := fo.Fault["code"].(float64)
						if c2, ok := fo.Fault["code"].(int); ok {
							code = float64(c2)
						}
						reason, _ := fo.Fault["reason"].(string)
						fire = &sim.Fault{Code: int(code), Reason: reason}
					}
				}
			}
			if fire != nil {
				return fire
			}
			idx := fmt.Sprint(n)
			for _, op := range r.MidOps[idx] {
				w.applyExt(op)
			}
			if f, ok := r.Faults[idx]; ok {
				code, _ := f["code"].(float64)
				if c2, ok := f["code"].(int); ok {
					code = float64(c2)
				}
				if c3, ok := f["code"].(int64); ok {
					code = float64(c3)
				}
				reason, _ := f["reason"].(string)
				return &sim.Fault{Code: int(code), Reason: reason}
			}
			return nil
		})
		b.queue.Requeues = r.Requeues
		rec := w.runSync(&sc.Ctl, b, key)
		w.srv.SetBeforeRequest(nil)
		if !sc.LongLived {
			b.close()
		}
		out.Rounds = append(out.Rounds, rec)
	}
	if persistent != nil {
		persistent.close()
	}
	out.Final = w.srv.AllLive()
	return out, nil
}

// ---- emission ----
func coqVerb(v string) string {
	switch v {
	case "get":
		return "VGet"
	case "create":
		return "VCreate"
	case "update":
		return "VUpdate"
	case "updatestatus":
		return "VUpdateStatus"
	case "delete":
		return "VDelete"
	case "patch-json":
		return "VPatchJson"
	case "patch-apply":
		return "VPatchApply"
	}
	return "VGet"
}

func coqEclass(code int, reason string) string {
	switch reason {
	case "NotFound":
		return "ENotFound"
	case "Conflict":
		return "EConflict"
	case "AlreadyExists":
		return "EAlreadyExists"
	case "Gone":
		return "EGone"
	case "Invalid":
		return "EInvalid"
	}
	return "EOther"
}

func coqOptJSON(o map[string]interface{}) string {
	if o == nil {
		return "JNull"
	}
	return vh.MustCoqJSON(map[string]interface{}(o))
}

func coqEvent(e event) string {
	if e.API != nil {
		a := e.API
		body := "JNull"
		if a.Body != nil && a.Verb != "delete" {
			body = vh.MustCoqJSON(stripNullCreation(a.Body))
		}
		call := fmt.Sprintf("(CApi (mkRq %s %s %s %s %s %s %s))", coqVerb(a.Verb),
			vh.MustCoqString(resKey(a.Resource, a.APIVersion)), vh.MustCoqString(a.Namespace), vh.MustCoqString(a.Name),
			body, vh.MustCoqString(a.UIDPrecondition), vh.MustCoqString(a.Propagation))
		var ans string
		if a.Code >= 200 && a.Code < 300 {
			ans = "(AObj " + vh.MustCoqJSON(a.Resp) + ")"
		} else {
			ans = "(AFail " + coqEclass(a.Code, a.Reason) + ")"
		}
		return fmt.Sprintf("(mkEv %s %s %s %s)", call, ans, coqOptJSON(a.Pre), coqOptJSON(a.Post))
	}
	h := e.Hook
	kind := "HSync"
	if strings.HasSuffix(h.URL, "/finalize") {
		kind = "HFinalize"
	} else if strings.HasSuffix(h.URL, "/customize") {
		kind = "HCustomize"
	}
	req, _ := h.Req.(map[string]interface{})
	reqNoCtl := J{}
	for k, v := range req {
		if k != "controller" {
			reqNoCtl[k] = v
		}
	}
	var ans string
	switch {
	case h.NetErr:
		ans = "AHookErr"
	case h.Code == 429:
		ans = fmt.Sprintf("(AHook429 %s)", vh.CoqZ(retryAfterSeconds(h.RespHdr["Retry-After"])))
	case h.Code != 200:
		ans = "AHookErr"
	default:
		var body interface{}
		if err := k8sjson.Unmarshal(h.Resp, &body); err != nil {
			ans = "AHookErr"
		} else if s, err := vh.CoqJSON(body); err != nil {
			ans = "AHookErr"
		} else {
			ans = "(AHook " + s + ")"
		}
	}
	return fmt.Sprintf("(mkEv (CHook %s %s) %s JNull JNull)", kind, vh.MustCoqJSON(map[string]interface{}(reqNoCtl)), ans)
}

func retryAfterSeconds(s string) int64 {
	var n int64
	fmt.Sscanf(s, "%d", &n)
	return n
}

func coqSelector(ml map[string]string) string {
	if ml == nil {
		return "sel_everything"
	}
	keys := make([]string, 0, len(ml))
	for k := range ml {
		keys = append(keys, k)
	}
	sort.Strings(keys)
	parts := []string{}
	for _, k := range keys {
		parts = append(parts, fmt.Sprintf("mkReq %s OpIn [%s]", vh.MustCoqString(k), vh.MustCoqString(ml[k])))
	}
	return "(SelReqs [" + strings.Join(parts, "; ") + "])"
}

func coqKid(k kidSpec) string {
	_ = k.EmptyStrategy // an empty strategy block reads as method "" (the default) in the model
	return fmt.Sprintf("(mkChild %s %s %s %s %s)", vh.MustCoqString(k.APIVersion), vh.MustCoqString(k.Resource),
		vh.MustCoqString(k.Kind), vh.CoqBool(k.Namespaced), vh.MustCoqString(k.Method))
}

func coqCfg(s *ctlSpec) string {
	kids := []string{}
	for _, k := range s.Kids {
		kids = append(kids, coqKid(k))
	}
	known := []string{}
	for _, r := range simResources {
		known = append(known, coqKid(kidSpec{APIVersion: r.APIVersion(), Resource: r.Resource, Kind: r.Kind, Namespaced: r.Namespaced}))
	}
	hasStatus := true
	if pr := resByKind(s.ParentAPIVersion, s.ParentKind); pr != nil {
		hasStatus = pr.HasStatus
	}
	return fmt.Sprintf("(mkCfg %s %s %s %s %s %s %s %s [%s] %s %s [%s] %s %s %s %s)", vh.MustCoqString(s.Name),
		vh.MustCoqString(s.ParentAPIVersion), vh.MustCoqString(s.ParentKind), vh.MustCoqString(s.ParentResource),
		vh.CoqBool(s.ParentNamespaced), vh.CoqBool(hasStatus), vh.CoqBool(s.GenSelector), coqSelector(s.CtlSelector),
		strings.Join(kids, "; "), vh.CoqBool(!s.NoSync), vh.CoqBool(s.Finalize), strings.Join(known, "; "), vh.CoqBool(s.SSA), vh.CoqBool(s.Customize), coqFieldPaths(s), coqChecks(s))
}

func coqFieldPaths(s *ctlSpec) string {
	fps := s.FieldPaths
	if len(fps) == 0 {
		fps = []string{"spec"}
	}
	parts := []string{}
	for _, fp := range fps {
		parts = append(parts, vh.CoqStringList(strings.Split(fp, ".")))
	}
	return "[" + strings.Join(parts, "; ") + "]"
}

func coqOptString(s *string) string {
	if s == nil {
		return "None"
	}
	return "(Some " + vh.MustCoqString(*s) + ")"
}

func coqChecks(s *ctlSpec) string {
	parts := []string{}
	for _, k := range s.Kids {
		if len(k.Checks) == 0 {
			continue
		}
		cs := []string{}
		for _, c := range k.Checks {
			cs = append(cs, fmt.Sprintf("(%s, %s, %s)", vh.MustCoqString(c.Type), coqOptString(c.Status), coqOptString(c.Reason)))
		}
		parts = append(parts, fmt.Sprintf("(%s, [%s])", vh.MustCoqString(resKey(k.Resource, k.APIVersion)), strings.Join(cs, "; ")))
	}
	return "[" + strings.Join(parts, "; ") + "]"
}

func stripNullCreation(v interface{}) interface{} {
	m, ok := v.(map[string]interface{})
	if !ok {
		return v
	}
	md, ok := m["metadata"].(map[string]interface{})
	if !ok {
		return v
	}
	if ct, present := md["creationTimestamp"]; present && ct == nil {
		md2 := map[string]interface{}{}
		for k, x := range md {
			if k != "creationTimestamp" {
				md2[k] = x
			}
		}
		m2 := map[string]interface{}{}
		for k, x := range m {
			m2[k] = x
		}
		m2["metadata"] = md2
		return m2
	}
	return v
}

func coqRound(s *ctlSpec, r *roundRec) string {
	fresh := ""
	for _, e := range r.Events {
		if e.API != nil && e.API.Verb == "create" && e.API.Kind == "ControllerRevision" {
			fresh = e.API.Name
			if fresh == "" {
				if b, ok := e.API.Body.(map[string]interface{}); ok {
					if md, ok := b["metadata"].(map[string]interface{}); ok {
						fresh, _ = md["name"].(string)
					}
				}
			}
		}
	}
	parent := "None"
	if r.CacheParent != nil {
		parent = "(Some " + vh.MustCoqJSON(map[string]interface{}(r.CacheParent)) + ")"
	}
	keys := make([]string, 0, len(r.CacheChildren))
	for k := range r.CacheChildren {
		keys = append(keys, k)
	}
	sort.Strings(keys)
	groups := []string{}
	for _, k := range keys {
		objs := []string{}
		for _, o := range r.CacheChildren[k] {
			objs = append(objs, vh.MustCoqJSON(map[string]interface{}(o)))
		}
		groups = append(groups, fmt.Sprintf("(%s, [%s])", vh.MustCoqString(k), strings.Join(objs, "; ")))
	}
	groups = append(groups, fmt.Sprintf("(\"fresh-revision-name\", [JStr %s])", vh.MustCoqString(fresh)))
	evs := []string{}
	for _, e := range r.Events {
		evs = append(evs, coqEvent(e))
	}
	res := "SDone"
	switch r.Result {
	case "err":
		res = "SErr"
	case "panic":
		res = "SPanic"
	case "requeue":
		res = fmt.Sprintf("(SRequeue %s)", vh.CoqZ(r.RequeueAfter))
	}
	qs := []string{}
	for _, op := range r.Queue {
		qs = append(qs, fmt.Sprintf("(%s, %s, %s)", vh.MustCoqString(op.Op), vh.MustCoqString(op.Key), vh.CoqZ(int64(op.Delay/time.Millisecond))))
	}
	return fmt.Sprintf("(mkRound (mkCache %s [%s]) [%s] %s [%s] %s %s)", parent, strings.Join(groups, "; "), strings.Join(evs, ";\n  "), res,
		strings.Join(qs, "; "), vh.MustCoqString(parentKeyOf(r)), vh.MustCoqString(r.CacheMutated))
}

func parentKeyOf(r *roundRec) string { return r.Key }

func coqCase(c *caseRec) string {
	rounds := []string{}
	for _, r := range c.Rounds {
		rounds = append(rounds, coqRound(&c.Sc.Ctl, r))
	}
	final := []string{}
	for _, o := range c.Final {
		final = append(final, vh.MustCoqJSON(map[string]interface{}(o)))
	}
	return fmt.Sprintf("mkCase %s [%s] [%s] %s", coqCfg(&c.Sc.Ctl), strings.Join(rounds, ";\n "), strings.Join(final, "; "),
		vh.CoqStringList(c.Sc.Features))
}

// ---- the test entry point ----
func TestVerif_Composite(t *testing.T) {
	env := vh.GetEnv()
	if env.OutDir == "" {
		t.Skip("VERIF_OUT not set")
	}
	prop := os.Getenv("VERIF_PROP")
	if prop == "" {
		prop = "C02"
	}
	header := "From MC Require Import Check.Composite_check.\nOpen Scope string_scope.\n"
	w, err := vh.NewCaseWriter(env.OutDir, prop, header, 40)
	if err != nil {
		t.Fatal(err)
	}
	var scs []*scenario
	if env.Replay != "" {
		data, err := os.ReadFile(env.Replay)
		if err != nil {
			t.Fatal(err)
		}
		var rf struct {
			Case struct {
				Scenario *scenario `json:"scenario"`
			} `json:"case"`
		}
		if err := json.Unmarshal(data, &rf); err != nil || rf.Case.Scenario == nil {
			t.Fatalf("cannot read replay: %v", err)
		}
		scs = append(scs, rf.Case.Scenario)
	} else {
		n := env.N
		if n == 0 {
			n = 100
		}
		scs = generateScenarios(prop, env.Seed, n, os.Getenv("VERIF_ADV") == "1")
	}
	for i, sc := range scs {
		rec, err := runScenario(sc)
		if err != nil {
			t.Fatalf("scenario %d (%s): %v", i, sc.Family, err)
		}
		id := fmt.Sprintf("s%d", i)
		replay := J{"scenario": sc, "features": sc.Features, "results": roundResults(rec), "trace": traceSummary(rec)}
		checkFn := prop + "_check"
		if prop == "C10" {
			checkFn = "C10_check_r"
		}
		if err := w.Add(id, coqCase(rec), checkFn, replay); err != nil {
			t.Fatal(err)
		}
		w.Count("family-" + sc.Family)
		for _, f := range sc.Features {
			w.Count("feature-" + f)
		}
		writes := 0
		for _, r := range rec.Rounds {
			w.Count("result-" + r.Result)
			for _, e := range r.Events {
				if e.API != nil {
					w.Count("verb-" + e.API.Verb)
					if e.API.Verb != "get" && e.API.Code < 300 {
						writes++
					}
					if e.API.Injected {
						w.Count("fault-reached")
					}
				}
			}
		}
		if writes > 0 {
			w.NonTrivial(vh.Sig(sc.Family, strings.Join(sc.Features, ","), signature(rec)))
		}
	}
	if err := w.Close(nil); err != nil {
		t.Fatal(err)
	}
}

// traceSummary: one readable line per event, for the replay files
func traceSummary(c *caseRec) [][]string {
	var out [][]string
	for _, r := range c.Rounds {
		var lines []string
		for _, e := range r.Events {
			if e.API != nil {
				a := e.API
				extra := ""
				if a.Verb == "updatestatus" || a.Verb == "update" || a.Verb == "create" {
					if b, ok := a.Body.(map[string]interface{}); ok {
						if st, ok := b["status"].(map[string]interface{}); ok && a.Verb == "updatestatus" {
							js, _ := json.Marshal(st)
							extra = " status=" + string(js)
						}
						if ch, ok := b["children"]; ok && a.Kind == "ControllerRevision" {
							js, _ := json.Marshal(ch)
							extra = " children=" + string(js)
						}
					}
				}
				lines = append(lines, fmt.Sprintf("%s %s %s/%s -> %d %s%s", a.Verb, a.Kind, a.Namespace, a.Name, a.Code, a.Reason, extra))
			} else {
				lines = append(lines, fmt.Sprintf("hook %s -> %d", e.Hook.URL, e.Hook.Code))
			}
		}
		lines = append(lines, "=> "+r.Result+" "+r.PanicMsg)
		out = append(out, lines)
	}
	return out
}

func roundResults(c *caseRec) []string {
	out := []string{}
	for _, r := range c.Rounds {
		s := r.Result
		if r.PanicMsg != "" {
			s += ": " + r.PanicMsg
		}
		out = append(out, s)
	}
	return out
}

// signature: the projected trace shape (verbs, kinds and outcomes), names abstracted away
func signature(c *caseRec) string {
	var b strings.Builder
	for _, r := range c.Rounds {
		b.WriteString("[")
		for _, e := range r.Events {
			if e.API != nil {
				fmt.Fprintf(&b, "%s:%s:%d,", e.API.Verb, e.API.Kind, e.API.Code)
			} else {
				fmt.Fprintf(&b, "hook:%d,", e.Hook.Code)
			}
		}
		b.WriteString(r.Result + "]")
	}
	return b.String()
}

