package composite

import (
	"fmt"

	"k8s.io/apimachinery/pkg/runtime"

	vh "metacontroller/pkg/internal/verifh"
)

var methods = []string{"", "OnDelete", "Recreate", "InPlace", "RollingRecreate", "RollingInPlace"}
var plainMethods = []string{"", "OnDelete", "Recreate", "InPlace"}

var kidPool = []kidSpec{
	{APIVersion: "v1", Resource: "pods", Kind: "Pod", Namespaced: true},
	{APIVersion: "apps.example.com/v1", Resource: "widgets", Kind: "Widget", Namespaced: true},
	{APIVersion: "v1", Resource: "namespaces", Kind: "Namespace", Namespaced: false},
}

type gen struct {
	r   *vh.Rng
	adv bool
}

// child object as the hook would return it
func (g *gen) desiredChild(k kidSpec, name, ns, app string, variant int) J {
	md := J{"name": name, "labels": J{"app": app}}
	if k.Namespaced && ns != "" && g.r.Chance(1, 2) {
		md["namespace"] = ns
	}
	o := J{"apiVersion": k.APIVersion, "kind": k.Kind, "metadata": md}
	spec := J{"replicas": int64(variant), "image": fmt.Sprintf("img:%d", variant)}
	if g.r.Chance(1, 2) {
		spec["containers"] = A{J{"name": "main", "image": fmt.Sprintf("img:%d", variant)}, J{"name": "side", "args": A{"a", "b"}}}
	}
	if g.r.Chance(1, 3) {
		spec["ports"] = A{J{"containerPort": int64(80), "protocol": "TCP"}}
	}
	o["spec"] = spec
	return o
}

// basic scenario: a parent, a desired set, and a population of existing objects in every role
func (g *gen) basic(family string, i int, seed uint64) *scenario {
	r := g.r
	sc := &scenario{Seed: seed, Family: family}
	namespaced := r.Chance(3, 4)
	ctl := ctlSpec{Name: fmt.Sprintf("cc%d", i%7), ParentAPIVersion: "ctl.example.com/v1", ParentNamespaced: namespaced,
		GenSelector: r.Chance(1, 3), Finalize: r.Chance(1, 3)}
	if namespaced {
		ctl.ParentResource, ctl.ParentKind = "things", "Thing"
	} else {
		ctl.ParentResource, ctl.ParentKind = "clusterthings", "ClusterThing"
	}
	nk := 1 + r.Intn(2)
	perm := []int{0, 1, 2}
	if namespaced {
		perm = []int{0, 1}
	}
	for j := len(perm) - 1; j > 0; j-- {
		x := r.Intn(j + 1)
		perm[j], perm[x] = perm[x], perm[j]
	}
	for j := 0; j < nk && j < len(perm); j++ {
		k := kidPool[perm[j]]
		k.Method = plainMethods[r.Intn(len(plainMethods))]
		ctl.Kids = append(ctl.Kids, k)
	}
	if r.Chance(1, 5) {
		ctl.CtlSelector = map[string]string{"managed": "yes"}
	}
	sc.Ctl = ctl
	app := fmt.Sprintf("app%d", r.Intn(3))
	pns := ""
	if namespaced {
		pns = "ns1"
	}
	pmd := J{"name": "p1", "labels": J{}}
	if namespaced {
		pmd["namespace"] = pns
	}
	if ctl.CtlSelector != nil && r.Chance(4, 5) {
		pmd["labels"] = J{"managed": "yes"}
	}
	parent := J{"apiVersion": ctl.ParentAPIVersion, "kind": ctl.ParentKind, "metadata": pmd,
		"spec": J{"selector": J{"matchLabels": J{"app": app}}, "replicas": int64(2)}}
	if r.Chance(1, 6) {
		parent["spec"].(J)["selector"] = J{"matchExpressions": A{J{"key": "app", "operator": "In", "values": A{app, "other"}}}}
		sc.Features = append(sc.Features, "match-expressions")
	}
	sc.Parent = parent
	// desired children
	childNS := pns
	if !namespaced {
		childNS = "ns2"
	}
	nd := r.Intn(4)
	for j := 0; j < nd; j++ {
		k := ctl.Kids[r.Intn(len(ctl.Kids))]
		ns := childNS
		if !k.Namespaced {
			ns = ""
		}
		c := g.desiredChild(k, fmt.Sprintf("c%d", j), ns, app, 1)
		if !namespaced && k.Namespaced {
			c["metadata"].(J)["namespace"] = ns // cluster-scoped parent: the hook must say where
		}
		sc.Hook.Children = append(sc.Hook.Children, c)
	}
	sc.Hook.Kind = "const"
	switch r.Intn(4) {
	case 0:
		sc.Hook.Status = J{"ready": int64(nd)}
	case 1:
		sc.Hook.Status = J{"observedGeneration": int64(7), "conditions": A{J{"type": "Ready", "status": "True"}}}
	case 2:
		sc.Hook.NullStatus = true
	}
	if ctl.Finalize {
		sc.Hook.FinalizedIfEmpty = true
		if r.Chance(1, 2) {
			sc.Hook.FinalizeChildren = sc.Hook.Children[:len(sc.Hook.Children)/2]
		}
	}
	sc.Warmup = r.Chance(3, 4)
	// population edits after warm-up
	for j, c := range sc.Hook.Children {
		md := c["metadata"].(J)
		ns, _ := md["namespace"].(string)
		k := resByKind(c["apiVersion"].(string), c["kind"].(string))
		if ns == "" && k.Namespaced {
			ns = pns
		}
		ref := extOp{APIVersion: c["apiVersion"].(string), Kind: c["kind"].(string), Namespace: ns, Name: md["name"].(string)}
		if !sc.Warmup {
			// nothing exists yet: maybe pre-create an orphan or a foreign look-alike
			switch r.Intn(5) {
			case 0:
				o := runtime.DeepCopyJSON(c)
				o["metadata"].(J)["namespace"] = ns
				if !k.Namespaced {
					delete(o["metadata"].(J), "namespace")
				}
				ref.Op, ref.Data = "create", o
				sc.Setup = append(sc.Setup, ref)
				sc.Features = append(sc.Features, "orphan-matching")
			case 1:
				o := runtime.DeepCopyJSON(c)
				o["metadata"].(J)["namespace"] = ns
				if !k.Namespaced {
					delete(o["metadata"].(J), "namespace")
				}
				o["metadata"].(J)["ownerReferences"] = A{J{"apiVersion": "v1", "kind": "Other", "name": "other", "uid": "uid-other", "controller": true}}
				ref.Op, ref.Data = "create", o
				sc.Setup = append(sc.Setup, ref)
				sc.Features = append(sc.Features, "foreign-on-desired-name")
			}
			continue
		}
		switch r.Intn(9) {
		case 0:
			ref.Op = "delete"
			sc.Features = append(sc.Features, "absent")
		case 1:
			ref.Op, ref.Data = "edit", J{"spec": J{"replicas": int64(9), "extra": "x"}}
			sc.Features = append(sc.Features, "drift-owned-field")
		case 2:
			ref.Op, ref.Data = "edit", J{"foreign": J{"k": "v"}}
			sc.Features = append(sc.Features, "drift-foreign-field")
		case 3:
			ref.Op = "orphan"
			sc.Features = append(sc.Features, "orphan-matching")
		case 4:
			ref.Op = "steal"
			sc.Features = append(sc.Features, "foreign-owned")
		case 5:
			ref.Op, ref.Data = "relabel", J{"app": "nomatch"}
			sc.Features = append(sc.Features, "owned-nonmatching")
		case 6:
			ref.Op, ref.Data = "deleting", J{"finalizers": A{"example.com/hold"}}
			sc.Features = append(sc.Features, "child-deleting")
		case 7:
			ref.Op = "recreate"
			sc.Features = append(sc.Features, "recreated-orphan")
		default:
			ref.Op = ""
		}
		if ref.Op != "" {
			sc.Setup = append(sc.Setup, ref)
		}
		_ = j
	}
	// extra objects nobody desires
	for j := 0; j < r.Intn(3); j++ {
		k := ctl.Kids[r.Intn(len(ctl.Kids))]
		ns := childNS
		if !k.Namespaced {
			ns = ""
		}
		o := g.desiredChild(k, fmt.Sprintf("x%d", j), ns, app, 3)
		if k.Namespaced {
			o["metadata"].(J)["namespace"] = ns
		}
		switch r.Intn(4) {
		case 0: // undesired orphan that matches
			sc.Features = append(sc.Features, "undesired-orphan")
		case 1: // owned by someone else
			o["metadata"].(J)["ownerReferences"] = A{J{"apiVersion": "v1", "kind": "Other", "name": "other", "uid": "uid-other", "controller": true}}
			sc.Features = append(sc.Features, "undesired-foreign")
		case 2: // look-alike in another namespace
			if k.Namespaced {
				o["metadata"].(J)["namespace"] = "ns9"
			}
			sc.Features = append(sc.Features, "other-namespace")
		case 3: // non-matching labels
			o["metadata"].(J)["labels"] = J{"app": "zzz"}
			sc.Features = append(sc.Features, "nonmatching-orphan")
		}
		ons, _ := o["metadata"].(J)["namespace"].(string)
		sc.Setup = append(sc.Setup, extOp{Op: "create", APIVersion: k.APIVersion, Kind: k.Kind, Namespace: ons, Name: fmt.Sprintf("x%d", j), Data: o})
	}
	nr := 1 + r.Intn(3)
	for j := 0; j < nr; j++ {
		sc.Rounds = append(sc.Rounds, roundSpec{})
	}
	return sc
}

func generateScenarios(prop string, seed uint64, n int, adv bool) []*scenario {
	root := vh.NewRng(seed ^ 0xc0de)
	var out []*scenario
	for i := 0; i < n; i++ {
		r, s := root.Fork()
		g := &gen{r: r, adv: adv}
		out = append(out, g.basic("basic", i, s))
	}
	return out
}
