package composite

import (
	"strings"
	"fmt"

	"k8s.io/apimachinery/pkg/runtime"

	vh "metacontroller/pkg/internal/verifh"
)

var methods = []string{"", "OnDelete", "Recreate", "InPlace", "RollingRecreate", "RollingInPlace"}
var plainMethods = []string{"", "OnDelete", "Recreate", "InPlace"}

var kidPool = []kidSpec{
	{APIVersion: "v1", Resource: "pods", Kind: "Pod", Namespaced: true},
	{APIVersion: "apps.example.com/v1", Resource: "widgets", Kind: "Widget", Namespaced: true},
	{APIVersion: "v1", Resource: "namespaces", Kind: "Namespace", Namespaced: false},
}

// twinKid: a kind with the name (and plural) of the core Pod, in a named API group
var twinKid = kidSpec{APIVersion: "serving.example.com/v1", Resource: "pods", Kind: "Pod", Namespaced: true}

type gen struct {
	oddMethods bool // C06 only: child kinds with an update method the controller does not know
	twins      bool // C03, C06: sometimes a second child kind called Pod, in a named API group
	r   *vh.Rng
	adv bool
}

// addSelectorExpressions adds matchExpressions to the parent's selector: in the initial parent and in every
// later edit of the parent's spec that carries a selector.
func (sc *scenario) addSelectorExpressions(exprs A) {
	patch := func(spec interface{}) {
		if sp, ok := spec.(map[string]interface{}); ok {
			if sel, ok := sp["selector"].(map[string]interface{}); ok {
				sel["matchExpressions"] = runtime.DeepCopyJSONValue(exprs)
			}
		}
	}
	patch(map[string]interface{}(sc.Parent["spec"].(J)))
	ops := func(l []extOp) {
		for _, op := range l {
			if op.Op == "edit" && op.Kind == sc.Ctl.ParentKind && op.Data != nil {
				patch(op.Data["spec"])
			}
		}
	}
	ops(sc.Setup)
	for _, rs := range sc.Rounds {
		ops(rs.PreOps)
		ops(rs.LateOps)
		for _, l := range rs.MidOps {
			ops(l)
		}
	}
}

// child object as the hook would return it
func (g *gen) desiredChild(k kidSpec, name, ns, app string, variant int) J {
	md := J{"name": name, "labels": J{"app": app}}
	if k.Namespaced && ns != "" && g.r.Chance(1, 2) {
		md["namespace"] = ns
	}
	o := J{"apiVersion": k.APIVersion, "kind": k.Kind, "metadata": md}
	spec := J{"replicas": int64(variant), "image": fmt.Sprintf("img:%d", variant)}
	if g.r.Chance(1, 2) {
		spec["containers"] = A{J{"name": "main", "image": fmt.Sprintf("img:%d", variant)}, J{"name": "side", "args": A{"a", "b"}}}
	}
	if g.r.Chance(1, 3) {
		spec["ports"] = A{J{"containerPort": int64(80), "protocol": "TCP"}}
	}
	if g.r.Chance(1, 4) {
		spec["sidecars"] = A{} // a list the hook owns and wants empty; others may add entries of their own
	}
	o["spec"] = spec
	if g.r.Chance(1, 5) {
		o["status"] = J{"phase": "Wanted"} // a hook that (wrongly but harmlessly) returns a status block
	}
	return o
}

// basic scenario: a parent, a desired set, and a population of existing objects in every role
func (g *gen) basic(family string, i int, seed uint64) *scenario {
	r := g.r
	sc := &scenario{Seed: seed, Family: family}
	namespaced := r.Chance(3, 4)
	ctl := ctlSpec{Name: fmt.Sprintf("cc%d", i%7), ParentAPIVersion: "ctl.example.com/v1", ParentNamespaced: namespaced,
		GenSelector: r.Chance(1, 3), Finalize: r.Chance(1, 3)}
	if namespaced {
		ctl.ParentResource, ctl.ParentKind = "things", "Thing"
	} else {
		ctl.ParentResource, ctl.ParentKind = "clusterthings", "ClusterThing"
	}
	nk := 1 + r.Intn(2)
	perm := []int{0, 1, 2}
	if namespaced {
		perm = []int{0, 1}
	}
	for j := len(perm) - 1; j > 0; j-- {
		x := r.Intn(j + 1)
		perm[j], perm[x] = perm[x], perm[j]
	}
	for j := 0; j < nk && j < len(perm); j++ {
		k := kidPool[perm[j]]
		k.Method = plainMethods[r.Intn(len(plainMethods))]
		switch r.Intn(12) {
		case 0:
			k.Method, k.EmptyStrategy = "", true // a strategy block without a method: the default (OnDelete) applies
		case 1:
			if g.oddMethods {
				k.Method = "Replace" // not a method the controller knows: every sync of a differing child reports an error
			}
		}
		ctl.Kids = append(ctl.Kids, k)
	}
	if g.twins && r.Chance(1, 4) {
		for _, k := range ctl.Kids {
			if k.Resource == "pods" {
				// the core Pod's namesake in a named group, with a method of its own
				t := twinKid
				t.Method = plainMethods[r.Intn(len(plainMethods))]
				for tries := 0; tries < 4 && t.Method == k.Method; tries++ {
					t.Method = plainMethods[r.Intn(len(plainMethods))]
				}
				ctl.Kids = append(ctl.Kids, t)
				sc.Features = append(sc.Features, "same-kind-in-two-groups")
				break
			}
		}
	}
	if r.Chance(1, 5) {
		ctl.CtlSelector = map[string]string{"managed": "yes"}
	}
	sc.Ctl = ctl
	app := fmt.Sprintf("app%d", r.Intn(3))
	pns := ""
	if namespaced {
		pns = "ns1"
	}
	pmd := J{"name": "p1", "labels": J{}}
	if namespaced {
		pmd["namespace"] = pns
	}
	if ctl.CtlSelector != nil && r.Chance(4, 5) {
		pmd["labels"] = J{"managed": "yes"}
	}
	parent := J{"apiVersion": ctl.ParentAPIVersion, "kind": ctl.ParentKind, "metadata": pmd,
		"spec": J{"selector": J{"matchLabels": J{"app": app}}, "replicas": int64(2)}}
	bothParts := false
	if r.Chance(1, 6) {
		parent["spec"].(J)["selector"] = J{"matchExpressions": A{J{"key": "app", "operator": "In", "values": A{app, "other"}}}}
		sc.Features = append(sc.Features, "match-expressions")
	} else if g.twins || r.Chance(1, 5) {
		if r.Chance(1, 3) {
			// labels AND an expression: both must hold
			parent["spec"].(J)["selector"] = J{"matchLabels": J{"app": app}, "matchExpressions": A{J{"key": "tier", "operator": "NotIn", "values": A{"canary"}}}}
			sc.Features = append(sc.Features, "labels-and-expressions")
			bothParts = true
		} else if !ctl.GenSelector && r.Chance(1, 6) {
			// a selector that is there but says nothing: refused like a missing one (it would select everything)
			parent["spec"].(J)["selector"] = []interface{}{J{"matchLabels": J{}}, J{"matchExpressions": A{}}, J{"matchLabels": nil}}[r.Intn(3)]
			sc.Features = append(sc.Features, "selector-empty-content")
		}
	}
	sc.Parent = parent
	// desired children
	childNS := pns
	if !namespaced {
		childNS = "ns2"
	}
	nd := r.Intn(4)
	for j := 0; j < nd; j++ {
		k := ctl.Kids[r.Intn(len(ctl.Kids))]
		ns := childNS
		if !k.Namespaced {
			ns = ""
		}
		c := g.desiredChild(k, fmt.Sprintf("c%d", j), ns, app, 1)
		if !namespaced && k.Namespaced {
			c["metadata"].(J)["namespace"] = ns // cluster-scoped parent: the hook must say where
		}
		sc.Hook.Children = append(sc.Hook.Children, c)
	}
	if ctl.GenSelector && len(sc.Hook.Children) > 0 && r.Chance(1, 4) {
		// a desired child that already carries a controller-uid label, and not ours
		c := sc.Hook.Children[r.Intn(len(sc.Hook.Children))]
		c["metadata"].(J)["labels"].(J)["controller-uid"] = "uid-of-somebody-else"
		sc.Features = append(sc.Features, "desired-foreign-uid-label")
	} else if g.twins && ctl.GenSelector && len(sc.Hook.Children) > 0 && r.Chance(1, 2) {
		// under selector generation the parent's own .spec.selector is ignored: children that do not
		// match it (no labels of their own at all) are as much the parent's as any other
		for _, c := range sc.Hook.Children {
			delete(c["metadata"].(J), "labels")
		}
		sc.Features = append(sc.Features, "children-without-labels")
	}
	sc.Hook.Kind = "const"
	if r.Chance(1, 6) {
		sc.Hook.PlainOwnerRef = true // the hook lists the parent as an owner itself, not as the controller
		sc.Features = append(sc.Features, "hook-sets-plain-owner-ref")
	}
	switch r.Intn(4) {
	case 0:
		sc.Hook.Status = J{"ready": int64(nd)}
	case 1:
		sc.Hook.Status = J{"observedGeneration": int64(7), "conditions": A{J{"type": "Ready", "status": "True"}}}
	case 2:
		sc.Hook.NullStatus = true
	}
	if ctl.Finalize {
		sc.Hook.FinalizedIfEmpty = true
		if r.Chance(1, 2) {
			sc.Hook.FinalizeChildren = sc.Hook.Children[:len(sc.Hook.Children)/2]
		}
	}
	sc.Warmup = r.Chance(3, 4)
	// population edits after warm-up
	for j, c := range sc.Hook.Children {
		md := c["metadata"].(J)
		ns, _ := md["namespace"].(string)
		k := resByKind(c["apiVersion"].(string), c["kind"].(string))
		if ns == "" && k.Namespaced {
			ns = pns
		}
		ref := extOp{APIVersion: c["apiVersion"].(string), Kind: c["kind"].(string), Namespace: ns, Name: md["name"].(string)}
		if !sc.Warmup {
			// nothing exists yet: maybe pre-create an orphan or a foreign look-alike
			switch r.Intn(5) {
			case 0:
				o := runtime.DeepCopyJSON(c)
				o["metadata"].(J)["namespace"] = ns
				if !k.Namespaced {
					delete(o["metadata"].(J), "namespace")
				}
				ref.Op, ref.Data = "create", o
				sc.Setup = append(sc.Setup, ref)
				sc.Features = append(sc.Features, "orphan-matching")
			case 1:
				o := runtime.DeepCopyJSON(c)
				o["metadata"].(J)["namespace"] = ns
				if !k.Namespaced {
					delete(o["metadata"].(J), "namespace")
				}
				o["metadata"].(J)["ownerReferences"] = A{J{"apiVersion": "v1", "kind": "Other", "name": "other", "uid": "uid-other", "controller": true}}
				ref.Op, ref.Data = "create", o
				sc.Setup = append(sc.Setup, ref)
				sc.Features = append(sc.Features, "foreign-on-desired-name")
			}
			continue
		}
		switch r.Intn(9) {
		case 0:
			ref.Op = "delete"
			sc.Features = append(sc.Features, "absent")
		case 1:
			ref.Op, ref.Data = "edit", J{"spec": J{"replicas": int64(9), "extra": "x"}}
			sc.Features = append(sc.Features, "drift-owned-field")
		case 2:
			ref.Op, ref.Data = "edit", J{"foreign": J{"k": "v"}}
			sc.Features = append(sc.Features, "drift-foreign-field")
			if sp, ok := c["spec"].(J); ok {
				if _, has := sp["sidecars"]; has {
					// somebody injects an entry into the list the hook keeps empty
					sp2 := runtime.DeepCopyJSON(sp)
					sp2["sidecars"] = A{J{"name": "injected", "image": "mesh:1"}}
					ref.Data = J{"spec": sp2}
					sc.Features = append(sc.Features, "foreign-entry-in-empty-desired-list")
				}
			}
		case 3:
			ref.Op = "orphan"
			sc.Features = append(sc.Features, "orphan-matching")
		case 4:
			ref.Op = "steal"
			sc.Features = append(sc.Features, "foreign-owned")
		case 5:
			ref.Op, ref.Data = "relabel", J{"app": "nomatch"}
			if ctl.GenSelector && r.Chance(2, 3) {
				// under selector generation only the controller-uid label counts: the child stops matching the
				// parent's own (ignored) .spec.selector and keeps the uid label
				ref.Op = "relabel-merge"
				if r.Bool() {
					ref.Data = J{"app": nil}
				}
				sc.Features = append(sc.Features, "owned-off-the-ignored-selector")
			} else {
				sc.Features = append(sc.Features, "owned-nonmatching")
			}
		case 6:
			ref.Op, ref.Data = "deleting", J{"finalizers": A{"example.com/hold"}}
			sc.Features = append(sc.Features, "child-deleting")
		case 7:
			ref.Op = "recreate"
			sc.Features = append(sc.Features, "recreated-orphan")
		default:
			ref.Op = ""
		}
		if ref.Op != "" {
			sc.Setup = append(sc.Setup, ref)
		}
		if (ref.Op == "edit" || ref.Op == "") && r.Chance(1, 4) {
			// ... and on top of that the child is already terminating, held by someone's finalizer
			d2 := ref
			d2.Op, d2.Data = "deleting", J{"finalizers": A{"example.com/hold"}}
			sc.Setup = append(sc.Setup, d2)
			sc.Features = append(sc.Features, "child-deleting")
		}
		_ = j
	}
	// extra objects nobody desires
	for j := 0; j < r.Intn(3); j++ {
		k := ctl.Kids[r.Intn(len(ctl.Kids))]
		ns := childNS
		if !k.Namespaced {
			ns = ""
		}
		o := g.desiredChild(k, fmt.Sprintf("x%d", j), ns, app, 3)
		if k.Namespaced {
			o["metadata"].(J)["namespace"] = ns
		}
		switch r.Intn(4) {
		case 0: // undesired orphan that matches
			sc.Features = append(sc.Features, "undesired-orphan")
		case 1: // owned by someone else
			o["metadata"].(J)["ownerReferences"] = A{J{"apiVersion": "v1", "kind": "Other", "name": "other", "uid": "uid-other", "controller": true}}
			sc.Features = append(sc.Features, "undesired-foreign")
		case 2: // look-alike in another namespace
			if k.Namespaced {
				o["metadata"].(J)["namespace"] = "ns9"
			}
			sc.Features = append(sc.Features, "other-namespace")
		case 3: // non-matching labels
			o["metadata"].(J)["labels"] = J{"app": "zzz"}
			sc.Features = append(sc.Features, "nonmatching-orphan")
		}
		plainOwner := r.Chance(1, 5)
		ons, _ := o["metadata"].(J)["namespace"].(string)
		sc.Setup = append(sc.Setup, extOp{Op: "create", APIVersion: k.APIVersion, Kind: k.Kind, Namespace: ons, Name: fmt.Sprintf("x%d", j), Data: o})
		if plainOwner {
			// a matching look-alike that somebody else controls and that names our parent as a plain owner (GC-only idiom)
			pr := sc.parentRef()
			sc.Setup = append(sc.Setup, extOp{Op: "plainowner", APIVersion: k.APIVersion, Kind: k.Kind, Namespace: ons, Name: fmt.Sprintf("x%d", j),
				Data: J{"apiVersion": pr.APIVersion, "kind": pr.Kind, "namespace": pr.Namespace, "name": pr.Name}})
			sc.Features = append(sc.Features, "foreign-controlled-lists-parent-as-owner")
		}
	}
	if bothParts {
		// objects that satisfy the labels and fail the expression: orphans (not to be adopted), owned ones (to be released)
		var more []extOp
		for _, op := range sc.Setup {
			md, _ := op.Data["metadata"].(J)
			_, foreign := md["ownerReferences"]
			if (op.Op == "orphan" || (op.Op == "create" && !foreign) || op.Op == "edit") && r.Bool() {
				e := op
				e.Op, e.Data = "relabel-merge", J{"tier": "canary"}
				more = append(more, e)
				sc.Features = append(sc.Features, "excluded-by-expression-only")
			}
		}
		sc.Setup = append(sc.Setup, more...)
	}
	nr := 1 + r.Intn(3)
	for j := 0; j < nr; j++ {
		sc.Rounds = append(sc.Rounds, roundSpec{})
	}
	return sc
}

// race: the caches are taken, then the world changes under the controller
// (before the sync or between two of its requests)
func (g *gen) race(i int, seed uint64) *scenario {
	r := g.r
	sc := g.basic("race", i, seed)
	sc.Warmup = true
	sc.Setup = nil
	sc.Features = nil
	// after the warm-up the hook changes its mind: drop some children, modify others
	h2 := sc.Hook
	h2.Children = nil
	for _, c := range sc.Hook.Children {
		switch r.Intn(3) {
		case 0: // no longer desired
		case 1:
			c2 := runtime.DeepCopyJSON(c)
			c2["spec"].(J)["replicas"] = int64(5)
			h2.Children = append(h2.Children, c2)
		default:
			h2.Children = append(h2.Children, c)
		}
	}
	sc.Hook2 = &h2
	pns, _ := sc.Parent["metadata"].(J)["namespace"].(string)
	var ops []extOp
	for _, c := range sc.Hook.Children {
		md := c["metadata"].(J)
		ns, _ := md["namespace"].(string)
		k := resByKind(c["apiVersion"].(string), c["kind"].(string))
		if ns == "" && k.Namespaced {
			ns = pns
		}
		ref := extOp{APIVersion: c["apiVersion"].(string), Kind: c["kind"].(string), Namespace: ns, Name: md["name"].(string)}
		switch r.Intn(6) {
		case 0:
			ref.Op = "recreate"
			sc.Features = append(sc.Features, "recreated-after-cache")
		case 1:
			ref.Op = "steal"
			sc.Features = append(sc.Features, "ownership-edit-after-cache")
		case 2:
			ref.Op = "orphan"
			sc.Features = append(sc.Features, "ownership-edit-after-cache")
		case 3:
			ref.Op = "delete"
			sc.Features = append(sc.Features, "deleted-after-cache")
		case 4:
			ref.Op, ref.Data = "edit", J{"spec": J{"replicas": int64(11)}}
			sc.Features = append(sc.Features, "edited-after-cache")
		default:
			continue
		}
		ops = append(ops, ref)
	}
	rs := roundSpec{}
	if r.Bool() {
		rs.LateOps = ops
	} else {
		rs.MidOps = map[string][]extOp{}
		for _, op := range ops {
			idx := fmt.Sprint(r.Intn(6))
			rs.MidOps[idx] = append(rs.MidOps[idx], op)
		}
	}
	sc.Rounds = []roundSpec{rs, {}}
	return sc
}

var faultKinds = []J{
	{"code": 404, "reason": "NotFound"}, {"code": 409, "reason": "Conflict"}, {"code": 409, "reason": "AlreadyExists"},
	{"code": 410, "reason": "Gone"}, {"code": 422, "reason": "Invalid"}, {"code": 500, "reason": "InternalError"},
	{"code": 504, "reason": "Timeout"},
}

func (sc *scenario) parentRef() extOp {
	md := sc.Parent["metadata"].(J)
	ns, _ := md["namespace"].(string)
	return extOp{APIVersion: sc.Parent["apiVersion"].(string), Kind: sc.Parent["kind"].(string), Namespace: ns, Name: md["name"].(string)}
}

// lifecycle: the parent is created, (un)matched, deleted with every kind of propagation; finalize hook on/off
func (g *gen) lifecycle(i int, seed uint64) *scenario {
	r := g.r
	sc := g.basic("lifecycle", i, seed)
	sc.Ctl.Finalize = r.Chance(2, 3)
	sc.Hook.FinalizedIfEmpty = r.Chance(2, 3)
	sc.Hook.FinalizedAlways = r.Chance(1, 6)
	if len(sc.Hook.Children) > 0 && r.Bool() {
		sc.Hook.FinalizeChildren = sc.Hook.Children[:r.Intn(len(sc.Hook.Children))]
	}
	if sc.Ctl.CtlSelector == nil && r.Chance(1, 2) {
		sc.Ctl.CtlSelector = map[string]string{"managed": "yes"}
		sc.Parent["metadata"].(J)["labels"] = J{"managed": "yes"}
	}
	sc.Warmup = r.Chance(4, 5)
	sc.Setup = nil
	sc.Features = nil
	sc.Rounds = nil
	if !sc.Ctl.Finalize && r.Chance(1, 2) {
		// the controller used to have a finalize hook: its finalizer is still on the parent
		md := sc.Parent["metadata"].(J)
		md["finalizers"] = A{"metacontroller.io/compositecontroller-" + sc.Ctl.Name}
		sc.Features = append(sc.Features, "leftover-finalizer")
	}
	nr := 2 + r.Intn(3)
	for j := 0; j < nr; j++ {
		rs := roundSpec{}
		ref := sc.parentRef()
		switch r.Intn(7) {
		case 0:
			ref.Op, ref.Data = "deleting", nil
			sc.Features = append(sc.Features, "parent-deleted-background")
			rs.PreOps = append(rs.PreOps, ref)
		case 1:
			ref.Op, ref.Data = "deleting", J{"finalizers": A{"foregroundDeletion"}}
			sc.Features = append(sc.Features, "parent-deleted-foreground")
			rs.PreOps = append(rs.PreOps, ref)
		case 2:
			ref.Op, ref.Data = "deleting", J{"finalizers": A{"orphan"}}
			sc.Features = append(sc.Features, "parent-deleted-orphan")
			rs.PreOps = append(rs.PreOps, ref)
		case 3:
			if sc.Ctl.CtlSelector != nil {
				ref.Op, ref.Data = "relabel", J{"managed": "no"}
				sc.Features = append(sc.Features, "parent-unmatched")
				rs.PreOps = append(rs.PreOps, ref)
			}
		case 4:
			ref.Op, ref.Data = "deleting", J{"finalizers": A{"example.com/other"}}
			sc.Features = append(sc.Features, "parent-deleted-foreign-finalizer")
			if r.Bool() {
				rs.LateOps = append(rs.LateOps, ref) // live parent deleting, cached parent alive
				sc.Features = append(sc.Features, "parent-deleting-after-cache")
			} else {
				rs.PreOps = append(rs.PreOps, ref)
			}
		}
		if r.Chance(1, 4) {
			rs.Faults = map[string]J{fmt.Sprint(r.Intn(4)): faultKinds[r.Intn(len(faultKinds))]}
			sc.Features = append(sc.Features, "fault")
		}
		sc.Rounds = append(sc.Rounds, rs)
	}
	return sc
}

// statusy: the live parent differs from the cached one, the status write meets conflicts and errors
func (g *gen) statusy(i int, seed uint64) *scenario {
	r := g.r
	sc := g.basic("status", i, seed)
	switch r.Intn(5) {
	case 0:
		sc.Hook.Status = J{"observedGeneration": int64(99), "nested": J{"a": A{int64(1), "x"}}}
	case 1:
		sc.Hook.Status = J{}
	case 2:
		sc.Hook.NullStatus, sc.Hook.Status = true, nil
	case 3:
		sc.Hook.Status = J{"conditions": A{J{"type": "Updated", "status": "False"}}, "replicas": int64(3)}
	}
	if r.Chance(1, 4) {
		// after the warm-up the hook's status shrinks: keys dropped, values emptied
		sc.Warmup = true
		full := J{"message": "all good", "conditions": A{J{"type": "Ready", "status": "True"}}, "replicas": int64(3), "extra": J{"a": int64(1)}}
		sc.Hook.Status, sc.Hook.NullStatus = full, false
		h2 := sc.Hook
		switch r.Intn(3) {
		case 0:
			h2.Status = J{"conditions": A{}, "replicas": int64(3), "extra": J{}}
		case 1:
			h2.Status = J{"replicas": int64(3)}
		default:
			h2.Status = J{"message": "", "conditions": A{J{"type": "Ready", "status": "True"}}, "replicas": int64(0), "extra": J{"a": int64(1)}}
		}
		sc.Hook2 = &h2
		sc.Features = append(sc.Features, "status-shrinks")
	}
	if r.Chance(1, 5) {
		// the parent arrives with a status from an earlier life (restored from a backup, re-applied with its old
		// status): generation 1 again, an observedGeneration far ahead
		sc.Parent["status"] = J{"observedGeneration": int64(7 + r.Intn(90)), "phase": "Old"}
		sc.Features = append(sc.Features, "status-from-an-earlier-life")
	}
	plain := sc.Ctl.ParentNamespaced && r.Chance(1, 4)
	if plain {
		// a parent kind without the status subresource: the status goes out with a whole-object update
		sc.Ctl.ParentResource, sc.Ctl.ParentKind = "plainthings", "PlainThing"
		sc.Parent["kind"] = "PlainThing"
		sc.Features = append(sc.Features, "parent-without-status-subresource")
	}
	sc.Rounds = nil
	for j := 0; j < 2+r.Intn(2); j++ {
		rs := roundSpec{}
		ref := sc.parentRef()
		if plain && r.Bool() {
			// somebody edits spec and labels between the controller's read of the parent and its write: a conflict, then a retry
			e := sc.parentRef()
			e.Op, e.Data = "edit", J{"spec": J{"selector": sc.Parent["spec"].(J)["selector"], "replicas": int64(40 + j), "foo": "edited"}}
			l := sc.parentRef()
			lbl := J{"team": "blue"}
			if cur, ok := sc.Parent["metadata"].(J)["labels"].(J); ok {
				for k, v := range cur {
					lbl[k] = v
				}
			}
			l.Op, l.Data = "relabel", lbl
			rs.FaultOn = append(rs.FaultOn, faultOn{Verb: "update", Kind: sc.Ctl.ParentKind, AfterHook: true, Nth: 0, Ops: []extOp{e, l}})
			sc.Features = append(sc.Features, "parent-edited-between-read-and-write")
		}
		switch r.Intn(6) {
		case 0:
			ref.Op, ref.Data = "edit", J{"spec": J{"selector": sc.Parent["spec"].(J)["selector"], "replicas": int64(7)}}
			rs.LateOps = append(rs.LateOps, ref)
			sc.Features = append(sc.Features, "parent-edited-after-cache")
		case 1:
			ref.Op = "recreate"
			rs.LateOps = append(rs.LateOps, ref)
			sc.Features = append(sc.Features, "parent-recreated-after-cache")
		case 2:
			ref.Op, ref.Data = "edit", J{"status": J{"stale": true}}
			rs.PreOps = append(rs.PreOps, ref)
			sc.Features = append(sc.Features, "parent-status-edited")
		}
		if r.Chance(1, 2) {
			rs.Faults = map[string]J{}
			for x := 0; x < 1+r.Intn(2); x++ {
				rs.Faults[fmt.Sprint(r.Intn(8))] = faultKinds[r.Intn(len(faultKinds))]
			}
			sc.Features = append(sc.Features, "fault")
		}
		sc.Rounds = append(sc.Rounds, rs)
	}
	return sc
}

// adoptrace: orphans are there to adopt while the world moves
func (g *gen) adoptrace(i int, seed uint64) *scenario {
	r := g.r
	sc := g.basic("adoptrace", i, seed)
	sc.Warmup = true
	sc.Setup = nil
	sc.Features = nil
	pns, _ := sc.Parent["metadata"].(J)["namespace"].(string)
	var late []extOp
	for _, c := range sc.Hook.Children {
		md := c["metadata"].(J)
		ns, _ := md["namespace"].(string)
		k := resByKind(c["apiVersion"].(string), c["kind"].(string))
		if ns == "" && k.Namespaced {
			ns = pns
		}
		ref := extOp{APIVersion: c["apiVersion"].(string), Kind: c["kind"].(string), Namespace: ns, Name: md["name"].(string)}
		o := ref
		switch r.Intn(4) {
		case 0:
			o.Op = "orphan"
			sc.Features = append(sc.Features, "orphan-matching")
		case 1:
			o.Op, o.Data = "relabel", J{"app": "nomatch"}
			sc.Features = append(sc.Features, "owned-nonmatching")
		case 2:
			o.Op = "orphan"
			sc.Setup = append(sc.Setup, o)
			o.Op, o.Data = "deleting", J{"finalizers": A{"example.com/hold"}}
			sc.Features = append(sc.Features, "orphan-deleting")
		default:
			continue
		}
		sc.Setup = append(sc.Setup, o)
		l := ref
		switch r.Intn(5) {
		case 0:
			l.Op = "steal"
			sc.Features = append(sc.Features, "stolen-after-cache", "ownership-edit-after-cache")
		case 1:
			l.Op, l.Data = "relabel", J{"app": "moved"}
			sc.Features = append(sc.Features, "relabelled-after-cache")
		case 2:
			l.Op = "recreate"
			sc.Features = append(sc.Features, "recreated-after-cache")
		default:
			continue
		}
		late = append(late, l)
	}
	rs := roundSpec{}
	p := sc.parentRef()
	switch r.Intn(5) {
	case 0:
		p.Op, p.Data = "deleting", J{"finalizers": A{"example.com/other"}}
		late = append(late, p)
		sc.Features = append(sc.Features, "parent-deleting-after-cache")
	case 1:
		p.Op = "recreate"
		late = append(late, p)
		sc.Features = append(sc.Features, "parent-recreated-after-cache")
	case 2:
		p.Op, p.Data = "deleting", J{"finalizers": A{"example.com/other"}}
		rs.PreOps = append(rs.PreOps, p)
		sc.Features = append(sc.Features, "parent-deleting")
	}
	if r.Bool() {
		rs.LateOps = late
	} else {
		rs.MidOps = map[string][]extOp{}
		for _, op := range late {
			idx := fmt.Sprint(r.Intn(5))
			rs.MidOps[idx] = append(rs.MidOps[idx], op)
		}
	}
	sc.Rounds = []roundSpec{rs, {}}
	return sc
}

// malformed: near-valid hook responses with one field replaced by every JSON type
var jsonTypes = []string{"null", "true", "7", "-3", "2.5", "\"str\"", "[]", "[1]", "{}", "{\"a\":1}", "123456789012345678901234567890", "1e400"}

func (g *gen) malformed(i int, seed uint64) *scenario {
	r := g.r
	sc := g.basic("malformed", i, seed)
	sc.Warmup = r.Bool()
	sc.Setup = nil
	sc.Features = nil
	child := func(name string) string {
		k := sc.Ctl.Kids[0]
		ns := ""
		if k.Namespaced && !sc.Ctl.ParentNamespaced {
			ns = `,"namespace":"ns2"`
		}
		return fmt.Sprintf(`{"apiVersion":%q,"kind":%q,"metadata":{"name":%q,"labels":{"app":%q}%s},"spec":{"x":1}}`,
			k.APIVersion, k.Kind, name, sc.Parent["spec"].(J)["selector"].(J)["matchLabels"].(J)["app"], ns)
	}
	if ml, ok := sc.Parent["spec"].(J)["selector"].(J)["matchLabels"].(J); !ok || ml["app"] == nil {
		sc.Parent["spec"].(J)["selector"] = J{"matchLabels": J{"app": "app0"}}
	}
	fields := map[string]string{
		"status":             `{"ready":1}`,
		"children":           "[" + child("c0") + "," + child("c1") + "]",
		"resyncAfterSeconds": "0",
		"finalized":          "false",
	}
	t := jsonTypes[r.Intn(len(jsonTypes))]
	what := ""
	switch r.Intn(9) {
	case 0:
		fields["status"] = t
		what = "status"
	case 1:
		fields["children"] = t
		what = "children"
	case 2:
		fields["resyncAfterSeconds"] = t
		what = "resync"
	case 3:
		fields["finalized"] = t
		what = "finalized"
	case 4: // one child entry replaced (sometimes two adjacent ones)
		if r.Chance(1, 3) {
			fields["children"] = "[" + t + "," + t + "," + child("c0") + "]"
			what = "child-entries-adjacent"
		} else {
			fields["children"] = "[" + child("c0") + "," + t + "]"
			what = "child-entry"
		}
	case 5: // a field inside a child replaced
		c := child("c0")
		sub := []string{`"kind":`, `"apiVersion":`, `"metadata":`, `"name":`, `"labels":`, `"app":`}[r.Intn(6)]
		idx := indexOf(c, sub)
		if idx >= 0 {
			// replace the value that follows sub by t
			end := valueEnd(c, idx+len(sub))
			c = c[:idx+len(sub)] + t + c[end:]
		}
		fields["children"] = "[" + c + "]"
		what = "child-field-" + sub
	case 6: // whole body replaced
		sc.Hook.Kind, sc.Hook.RawBody = "raw", t
		what = "body"
	case 7: // unknown / duplicate fields
		if t == "1e400" {
			t = "7" // the harness cannot carry an out-of-range number inside an ignored field
		}
		fields["bogus"] = t
		what = "unknown-field"
	case 8: // missing fields
		delete(fields, []string{"status", "children", "resyncAfterSeconds", "finalized"}[r.Intn(4)])
		what = "missing-field"
	}
	if sc.Hook.Kind != "raw" {
		body := "{"
		first := true
		for _, k := range []string{"status", "children", "resyncAfterSeconds", "finalized", "bogus"} {
			v, ok := fields[k]
			if !ok {
				continue
			}
			if !first {
				body += ","
			}
			first = false
			body += fmt.Sprintf("%q:%s", k, v)
		}
		body += "}"
		sc.Hook.Kind, sc.Hook.RawBody = "raw", body
	}
	if r.Chance(1, 10) {
		sc.Hook.Code = []int{201, 204, 301, 400, 404, 500, 503}[r.Intn(7)]
		what += "+status-code"
	}
	sc.Features = append(sc.Features, "malformed-"+what, "type-"+t)
	sc.Hook2 = nil
	if sc.Warmup {
		// the warm-up uses a well-formed answer
		h := sc.Hook
		good := hookProgram{Kind: "raw", RawBody: "{\"status\":{\"ready\":1},\"children\":[" + child("c0") + "]}"}
		sc.Hook = good
		sc.Hook2 = &h
	}
	sc.Rounds = []roundSpec{{}}
	return sc
}

func indexOf(s, sub string) int {
	for i := 0; i+len(sub) <= len(s); i++ {
		if s[i:i+len(sub)] == sub {
			return i
		}
	}
	return -1
}

// valueEnd returns the index just after the JSON value starting at i
func valueEnd(s string, i int) int {
	depth := 0
	inStr := false
	for j := i; j < len(s); j++ {
		c := s[j]
		if inStr {
			if c == '\\' {
				j++
			} else if c == '"' {
				inStr = false
				if depth == 0 {
					return j + 1
				}
			}
			continue
		}
		switch c {
		case '"':
			inStr = true
		case '{', '[':
			depth++
		case '}', ']':
			if depth == 0 {
				return j
			}
			depth--
			if depth == 0 {
				return j + 1
			}
		case ',':
			if depth == 0 {
				return j
			}
		}
	}
	return len(s)
}

// faulty: every request position x every error kind, singly; sometimes two
func (g *gen) faulty(i int, seed uint64) *scenario {
	r := g.r
	var sc *scenario
	if r.Chance(1, 3) {
		sc = g.race(i, seed)
	} else {
		sc = g.basic("faults", i, seed)
		sc.Warmup = r.Chance(2, 3)
		if sc.Warmup && len(sc.Hook.Children) > 0 {
			h2 := sc.Hook
			h2.Children = nil
			for _, c := range sc.Hook.Children {
				switch r.Intn(3) {
				case 0:
				case 1:
					c2 := runtime.DeepCopyJSON(c)
					c2["spec"].(J)["replicas"] = int64(5)
					h2.Children = append(h2.Children, c2)
				default:
					h2.Children = append(h2.Children, c)
				}
			}
			sc.Hook2 = &h2
		}
	}
	sc.Family = "faults"
	rs := &sc.Rounds[0]
	rs.Faults = map[string]J{}
	pos := i % 12 // the driver walks the positions; the kind is random
	rs.Faults[fmt.Sprint(pos)] = faultKinds[r.Intn(len(faultKinds))]
	if r.Chance(1, 5) {
		rs.Faults[fmt.Sprint(r.Intn(12))] = faultKinds[r.Intn(len(faultKinds))]
	}
	switch r.Intn(12) {
	case 0:
		sc.hookFor().Code, sc.hookFor().RetryAfter = 429, fmt.Sprint(1+r.Intn(50))
		sc.Features = append(sc.Features, "hook-429")
	case 1:
		sc.hookFor().Code = 503
		sc.Features = append(sc.Features, "hook-5xx")
	case 2:
		sc.hookFor().NetErr = true
		sc.Features = append(sc.Features, "hook-conn-refused")
	}
	if r.Chance(1, 4) && len(sc.Ctl.Kids) > 0 {
		// a child write fails hard and the status write meets a benign race
		k := sc.Ctl.Kids[r.Intn(len(sc.Ctl.Kids))]
		verb := []string{"create", "update", "delete"}[r.Intn(3)]
		rs.Faults = map[string]J{}
		rs.FaultOn = []faultOn{
			{Verb: verb, Kind: k.Kind, AfterHook: true, Fault: J{"code": 500, "reason": "InternalError"}},
			{Verb: []string{"get", "updatestatus"}[r.Intn(2)], Kind: sc.Ctl.ParentKind, AfterHook: true,
				Fault: []J{{"code": 404, "reason": "NotFound"}, {"code": 409, "reason": "Conflict"}}[r.Intn(2)]},
		}
		if rs.FaultOn[1].Verb == "updatestatus" && rs.FaultOn[1].Fault["code"] == 409 {
			// a conflict is retried: make every attempt conflict
			for x := 1; x < 4; x++ {
				f := rs.FaultOn[1]
				f.Nth = x
				rs.FaultOn = append(rs.FaultOn, f)
			}
		}
		sc.Features = append(sc.Features, "child-failure+status-race")
	}
	if r.Chance(1, 3) {
		rs.Requeues = 1 + r.Intn(12) // the key is said to have failed that many times already
		sc.Features = append(sc.Features, "many-requeues")
	}
	sc.Features = append(sc.Features, "fault")
	for len(sc.Rounds) < 2 {
		sc.Rounds = append(sc.Rounds, roundSpec{})
	}
	return sc
}

func (sc *scenario) hasFeature(f string) bool {
	for _, x := range sc.Features {
		if x == f {
			return true
		}
	}
	return false
}

func (sc *scenario) hookFor() *hookProgram {
	if sc.Hook2 != nil {
		return sc.Hook2
	}
	return &sc.Hook
}

// rollout: a rolling strategy, a spec change, and a fair (or not so fair) environment
func (g *gen) rollout(i int, seed uint64, fair bool) *scenario {
	r := g.r
	sc := &scenario{Seed: seed, Family: "rollout"}
	namespaced := r.Chance(7, 8)
	ctl := ctlSpec{Name: fmt.Sprintf("rc%d", i%5), ParentAPIVersion: "ctl.example.com/v1", ParentNamespaced: namespaced,
		GenSelector: r.Chance(1, 6), Finalize: r.Chance(1, 5)}
	if namespaced {
		ctl.ParentResource, ctl.ParentKind = "things", "Thing"
	} else {
		ctl.ParentResource, ctl.ParentKind = "clusterthings", "ClusterThing"
	}
	kid := kidPool[r.Intn(2)]
	kid.Method = []string{"RollingInPlace", "RollingRecreate"}[r.Intn(2)]
	ready := "True"
	reason := "Healthy"
	switch r.Intn(4) {
	case 0:
		kid.Checks = []condCheck{{Type: "Ready", Status: &ready}}
	case 1:
		kid.Checks = []condCheck{{Type: "Ready", Status: &ready, Reason: &reason}}
	case 2:
		kid.Checks = []condCheck{{Type: "Ready", Reason: &reason}}
	}
	anyStatus := ""
	if len(kid.Checks) == 1 && kid.Checks[0].Status == nil && r.Bool() {
		// a check that names no status accepts any: the children report Ready=False (run to completion, say)
		anyStatus = []string{"False", "Unknown"}[r.Intn(2)]
		if r.Bool() {
			kid.Checks[0].Reason = nil // the type alone
		}
		sc.Features = append(sc.Features, "status-check-without-status")
	}
	ctl.Kids = []kidSpec{kid}
	if r.Chance(1, 4) {
		k2 := kidPool[1-indexOfKid(kid)]
		if kid.Resource == "pods" && r.Chance(1, 3) {
			k2 = twinKid // two child kinds called Pod, told apart by their API group only
			sc.Features = append(sc.Features, "same-kind-in-two-groups")
		}
		k2.Method = plainMethods[r.Intn(len(plainMethods))]
		if r.Bool() {
			// a second rolling kind with a strategy of its own
			k2.Method = []string{"RollingInPlace", "RollingRecreate"}[r.Intn(2)]
			if len(kid.Checks) == 0 {
				k2.Checks = []condCheck{{Type: "Ready", Status: &ready}}
			}
		}
		ctl.Kids = append(ctl.Kids, k2)
	}
	switch r.Intn(4) {
	case 0:
		ctl.FieldPaths = []string{"spec.image", "spec.replicas"}
	case 1:
		ctl.FieldPaths = []string{"spec.image"} // scaling is not part of the revision history
	}
	sc.Ctl = ctl
	app := "roll"
	pns := ""
	if namespaced {
		pns = "ns1"
	}
	pmd := J{"name": "p1"}
	if namespaced {
		pmd["namespace"] = pns
	}
	nrep := int64(1 + r.Intn(4))
	sc.Parent = J{"apiVersion": ctl.ParentAPIVersion, "kind": ctl.ParentKind, "metadata": pmd,
		"spec": J{"selector": J{"matchLabels": J{"app": app}}, "replicas": nrep, "image": "v1",
			"template": J{"metadata": J{"labels": J{"app": app}}}}}
	tmd := J{"name": "c", "labels": J{"app": app}}
	if !namespaced && kid.Namespaced {
		tmd["namespace"] = "ns2"
	}
	if ctl.GenSelector && r.Bool() {
		delete(tmd, "labels") // with a generated selector the children need no labels of their own
		sc.Features = append(sc.Features, "children-without-labels")
	}
	sc.Hook = hookProgram{Kind: "template", Children: []J{{"apiVersion": kid.APIVersion, "kind": kid.Kind, "metadata": tmd, "spec": J{}}}}
	secondRolling := len(ctl.Kids) > 1 && strings.HasPrefix(ctl.Kids[1].Method, "Rolling")
	if secondRolling {
		k2 := ctl.Kids[1]
		tmd2 := runtime.DeepCopyJSON(tmd)
		tmd2["name"] = "d"
		delete(tmd2, "namespace")
		if !namespaced && k2.Namespaced {
			tmd2["namespace"] = "ns2"
		}
		sc.Hook.Children = append(sc.Hook.Children, J{"apiVersion": k2.APIVersion, "kind": k2.Kind, "metadata": tmd2, "spec": J{}})
		sc.Features = append(sc.Features, "two-rolling-kinds")
	}
	switch r.Intn(4) {
	case 0:
		sc.Hook.OmitStatus = true
	case 1:
		sc.Hook.Status = J{"conditions": A{J{"type": "Updated", "status": "Unknown"}, J{"type": "Ready", "status": "True"}}}
		if r.Bool() {
			// conditions of the hook's own, none of them the rollout's: `Updated` is added to the list
			sc.Hook.Status = J{"conditions": A{J{"type": "Ready", "status": "True"}, J{"type": "Scaled", "status": "False", "reason": "Busy"}}}
			sc.Features = append(sc.Features, "hook-conditions-without-updated")
		}
	case 2:
		// a hook that passes the parent's current conditions through (the rollout condition of the last sync included)
		sc.Hook.EchoParentConditions = true
		sc.Features = append(sc.Features, "hook-echoes-parent-conditions")
	}
	if r.Chance(1, 3) {
		sc.Hook.Reverse = true
		sc.Features = append(sc.Features, "reverse-order")
	}
	sc.Warmup = true
	// after the warm-up: everything healthy, then the spec changes
	healthy := extOp{Op: "healthy-all", APIVersion: kid.APIVersion, Kind: kid.Kind, Data: J{"reason": "Healthy"}}
	if anyStatus != "" {
		healthy.Data["condStatus"] = anyStatus
	}
	if secondRolling {
		healthy.Data["alsoAPIVersion"], healthy.Data["alsoKind"] = ctl.Kids[1].APIVersion, ctl.Kids[1].Kind
	}
	relabelTemplate := !ctl.GenSelector && r.Chance(1, 4)
	if relabelTemplate {
		sc.Features = append(sc.Features, "template-labels-change-with-spec")
	}
	switch r.Intn(6) {
	case 0:
		healthy.Data["noObservedGeneration"] = true
	case 1:
		healthy.Data["observedGenerationAsString"] = true // legal in a schemaless custom resource; must be ignored
		sc.Features = append(sc.Features, "observed-generation-not-integer")
	}
	if len(kid.Checks) == 0 && !secondRolling && r.Bool() {
		// a kind without status checks whose objects report nothing at all (ConfigMap-like)
		healthy.Data["bare"] = true
		sc.Features = append(sc.Features, "children-without-status")
	}
	sickly := extOp{Op: "healthy-all", APIVersion: kid.APIVersion, Kind: kid.Kind, Data: J{"reason": "CrashLoopBackOff"}}
	sc.Setup = []extOp{healthy}
	pref := sc.parentRef()
	edit := func(image string, replicas int64, note string) extOp {
		e := pref
		e.Op = "edit"
		spec := runtime.DeepCopyJSON(sc.Parent["spec"].(J))
		spec["image"], spec["replicas"] = image, replicas
		if note != "" {
			spec["note"] = note
		}
		if relabelTemplate {
			// the spec change also changes a label of the template (the selector still matches both)
			if t, ok := spec["template"].(map[string]interface{}); ok {
				if tm, ok := t["metadata"].(map[string]interface{}); ok {
					if tl, ok := tm["labels"].(map[string]interface{}); ok {
						tl["release"] = image
					}
				}
			}
		}
		e.Data = J{"spec": spec}
		return e
	}
	sc.Setup = append(sc.Setup, edit("v2", nrep, ""))
	nr := int(2*nrep) + 3
	if secondRolling {
		nr = int(4*nrep) + 5 // two kinds roll one child at a time
	}
	for j := 0; j < nr; j++ {
		rs := roundSpec{}
		if fair || r.Chance(2, 3) {
			rs.PreOps = append(rs.PreOps, healthy)
		} else if r.Bool() {
			rs.PreOps = append(rs.PreOps, sickly) // Ready, but for the wrong reason
			sc.Features = append(sc.Features, "wrong-reason-step")
		} else {
			sc.Features = append(sc.Features, "unhealthy-step")
		}
		if !fair {
			switch r.Intn(10) {
			case 0: // a child disappears
				ns := pns
				if !namespaced {
					ns = "ns2"
				}
				if !kid.Namespaced {
					ns = ""
				}
				rs.PreOps = append(rs.PreOps, extOp{Op: "delete", APIVersion: kid.APIVersion, Kind: kid.Kind, Namespace: ns, Name: fmt.Sprintf("c%d", r.Intn(int(nrep)))})
				sc.Features = append(sc.Features, "child-deleted-mid-rollout")
			case 1:
				rs.PreOps = append(rs.PreOps, edit("v2", nrep+1, ""))
				sc.Features = append(sc.Features, "scale-up-mid-rollout")
			case 2:
				if nrep > 1 {
					rs.PreOps = append(rs.PreOps, edit("v2", nrep-1, ""))
					sc.Features = append(sc.Features, "scale-down-mid-rollout")
				}
			case 3:
				rs.PreOps = append(rs.PreOps, edit("v3", nrep, ""))
				sc.Features = append(sc.Features, "second-spec-change")
			case 4:
				rs.PreOps = append(rs.PreOps, edit("v2", nrep, "hello"))
				sc.Features = append(sc.Features, "non-revisioned-edit")
			}
		}
		sc.Rounds = append(sc.Rounds, rs)
	}
	if fair && r.Chance(1, 3) && len(sc.Rounds) > 3 {
		// a second spec change arrives while the first rollout is under way (the environment stays fair)
		at := 1 + r.Intn(2)
		switch r.Intn(3) {
		case 0:
			if nrep > 1 {
				sc.Rounds[at].PreOps = append(sc.Rounds[at].PreOps, edit("v2", nrep-1, ""))
				sc.Features = append(sc.Features, "scale-down-mid-rollout")
			}
		case 1:
			sc.Rounds[at].PreOps = append(sc.Rounds[at].PreOps, edit("v2", nrep+1, ""))
			sc.Features = append(sc.Features, "scale-up-mid-rollout")
		default:
			sc.Rounds[at].PreOps = append(sc.Rounds[at].PreOps, edit("v3", nrep, ""))
			sc.Features = append(sc.Features, "second-spec-change")
		}
		for x := 0; x < int(2*nrep)+4; x++ {
			sc.Rounds = append(sc.Rounds, roundSpec{PreOps: []extOp{healthy}})
		}
	}
	if fair {
		sc.Features = append(sc.Features, "fair")
	}
	sc.Features = append(sc.Features, "method-"+kid.Method)
	if ctl.GenSelector {
		sc.Features = append(sc.Features, "generate-selector")
	}
	if len(ctl.FieldPaths) == 1 {
		sc.Features = append(sc.Features, "replicas-not-revisioned")
	}
	if !namespaced {
		sc.Features = append(sc.Features, "cluster-scoped-parent")
	}
	return sc
}

// rolloutFinalize: the parent is deleted in the middle of a rollout; the live revisions disagree about `finalized`
func (g *gen) rolloutFinalize(i int, seed uint64) *scenario {
	r := g.r
	sc := g.rollout(i, seed, true)
	sc.Family = "rollout-finalize"
	sc.Ctl.Finalize = true
	sc.Hook.FinalizedForImage = []string{"v1", "v2"}[r.Intn(2)]
	sc.Hook.FinalizeKeeps = r.Chance(2, 3)
	ref := sc.parentRef()
	ref.Op, ref.Data = "deleting", nil
	at := 1 + r.Intn(2)
	if at < len(sc.Rounds) {
		sc.Rounds[at].PreOps = append(sc.Rounds[at].PreOps, ref)
	}
	if len(sc.Rounds) > at+3 {
		sc.Rounds = sc.Rounds[:at+3]
	}
	sc.Features = append(sc.Features, "parent-deleted-mid-rollout", "revisions-disagree-on-finalized")
	return sc
}

func indexOfKid(k kidSpec) int {
	for i, p := range kidPool {
		if p.Resource == k.Resource {
			return i
		}
	}
	return 0
}

// converge: fault-free syncs with fresh caches until nothing happens any more
func (g *gen) converge(i int, seed uint64) *scenario {
	r := g.r
	sc := g.basic("converge", i, seed)
	for tries := 0; tries < 50 && sc.hasFeature("selector-empty-content"); tries++ {
		sc = g.basic("converge", i, seed) // a parent the controller refuses has nothing to converge to
	}
	// a population that the statement covers: no foreign object on a desired name, nothing stuck terminating
	var setup []extOp
	var feats []string
	for _, op := range sc.Setup {
		if op.Op == "steal" || op.Op == "deleting" || op.Op == "relabel" || op.Op == "relabel-merge" {
			continue // would leave a foreign (unadoptable) object on a desired child's name
		}
		if op.Op == "create" && sc.Ctl.GenSelector && len(op.Name) > 0 && op.Name[0] == 'c' {
			continue // an orphan without the controller-uid label cannot be adopted under a generated selector
		}
		if op.Op == "create" && op.Data != nil {
			if md, ok := op.Data["metadata"].(map[string]interface{}); ok {
				if _, foreign := md["ownerReferences"]; foreign {
					name, _ := md["name"].(string)
					if len(name) > 0 && name[0] == 'c' {
						continue
					}
				}
			}
		}
		setup = append(setup, op)
	}
	sc.Setup = setup
	if sc.Warmup && !sc.Ctl.GenSelector && len(sc.Hook.Children) > 0 && r.Chance(1, 6) {
		// a desired child that nobody controls any more and that names the parent as a plain owner (somebody
		// stripped the controller flag): adoption makes that very reference the controller reference
		pr := sc.parentRef()
		for _, ref := range sc.childRefs() {
			ref.Op, ref.Data = "plainowner", J{"apiVersion": pr.APIVersion, "kind": pr.Kind, "namespace": pr.Namespace, "name": pr.Name, "orphan": true}
			sc.Setup = append(sc.Setup, ref)
			break
		}
		feats = append(feats, "orphan-lists-parent-as-plain-owner")
	}
	for _, c := range sc.Hook.Children {
		delete(c["metadata"].(J)["labels"].(J), "controller-uid") // a hook answer the controller accepts
	}
	for _, f := range sc.Features {
		if f != "foreign-owned" && f != "foreign-on-desired-name" && f != "child-deleting" && f != "desired-foreign-uid-label" && f != "owned-nonmatching" {
			feats = append(feats, f)
		}
	}
	sc.Features = feats
	healthy := []extOp{}
	for _, k := range sc.Ctl.Kids {
		healthy = append(healthy, extOp{Op: "healthy-all", APIVersion: k.APIVersion, Kind: k.Kind, Data: J{"reason": "Healthy"}})
	}
	for ki := range sc.Ctl.Kids {
		if sc.Ctl.Kids[ki].Method == "Replace" {
			sc.Ctl.Kids[ki].Method = "" // a method the controller does not know is a configuration error: every sync fails, by design
		}
	}
	// hook programs with a known finding (echo, integral float, parent named as owner) are kept to a small
	// share of the family: a case that carries such a feature is excused for that finding's symptom
	if sc.Hook.PlainOwnerRef && r.Chance(5, 8) {
		sc.Hook.PlainOwnerRef = false
		kept := sc.Features[:0]
		for _, f := range sc.Features {
			if f != "hook-sets-plain-owner-ref" {
				kept = append(kept, f)
			}
		}
		sc.Features = kept
	}
	switch r.Intn(16) {
	case 0, 1:
		sc.Hook.Kind = "ordered"
		sc.Features = append(sc.Features, "hook-ordered")
	case 2:
		if !sc.Hook.PlainOwnerRef {
			sc.Hook.Kind = "echo"
			sc.Features = append(sc.Features, "hook-echo")
		}
	case 3:
		if len(sc.Hook.Children) > 0 && !sc.Hook.PlainOwnerRef {
			sc.Hook.IntegralFloat = true // an integral float: replicas 1.0 on the wire
			sc.Features = append(sc.Features, "integral-float")
		}
	case 4, 5:
		sc.Ctl.SSA = true
		sc.Features = append(sc.Features, "ssa")
	case 6, 7:
		sc.Hook.Kind = "echo-meta"
		sc.Features = append(sc.Features, "hook-echo-annotations")
	}
	if sc.Hook.Kind != "ordered" && r.Bool() {
		healthy = nil // nobody writes a status into the children: they stay as the controller made them
		sc.Features = append(sc.Features, "children-report-no-status")
	}
	replaced := false
	if sc.Ctl.SSA && sc.Hook.Kind == "const" && len(sc.Hook.Children) > 0 && r.Bool() {
		// the hook first wants one thing, then another (the child is applied twice); later the child is
		// replaced behind the controller's back by a drifted new incarnation (generation 1 again)
		sc.Warmup = true
		h1 := sc.Hook
		h1.Children = nil
		for _, c := range sc.Hook.Children {
			c1 := runtime.DeepCopyJSON(c)
			c1["spec"].(map[string]interface{})["replicas"] = int64(7)
			h1.Children = append(h1.Children, c1)
		}
		h2 := sc.Hook
		sc.Hook, sc.Hook2 = h1, &h2
		replaced = true
		sc.Features = append(sc.Features, "child-replaced-by-drifted-incarnation")
	}
	unmatch := false
	if r.Chance(1, 8) && sc.Ctl.CtlSelector == nil {
		// the parent stops matching the controller's label selector: the finalize hook cleans up
		sc.Ctl.CtlSelector = map[string]string{"managed": "yes"}
		sc.Parent["metadata"].(J)["labels"] = J{"managed": "yes"}
		sc.Ctl.Finalize = true
		sc.Hook.FinalizedAlways, sc.Hook.FinalizedIfEmpty, sc.Hook.FinalizeChildren = true, false, nil
		unmatch = true
		sc.Features = append(sc.Features, "parent-unmatched-then-finalized")
	}
	vanish := !replaced && !unmatch && len(sc.Hook.Children) > 0 && sc.Hook.Kind != "ordered" && (r.Chance(1, 5) || (sc.Ctl.SSA && r.Bool()))
	if vanish {
		// once converged, a child is deleted by somebody else: the desired state has not changed, the child is made again
		sc.Features = append(sc.Features, "child-deleted-behind-the-controllers-back")
	}
	sc.Rounds = nil
	n := 6 + 2*len(sc.Hook.Children)
	for j := 0; j < n; j++ {
		rs := roundSpec{PreOps: healthy}
		if vanish && j == 3 {
			for _, ref := range sc.childRefs() {
				d := ref
				d.Op = "delete"
				rs.PreOps = append(append([]extOp{}, rs.PreOps...), d)
				break
			}
		}
		if replaced && j == 3 {
			for _, ref := range sc.childRefs() {
				d := ref
				d.Op, d.Data = "replace-drifted", J{"spec": J{"replicas": int64(99), "image": "drifted"}}
				rs.PreOps = append(append([]extOp{}, rs.PreOps...), d)
				break
			}
		}
		if unmatch && j == 3 {
			ref := sc.parentRef()
			ref.Op, ref.Data = "relabel", J{"managed": "no"}
			rs.PreOps = append(append([]extOp{}, healthy...), ref)
		}
		sc.Rounds = append(sc.Rounds, rs)
	}
	return sc
}

// childRefs: where the hook's children live in the store
func (sc *scenario) childRefs() []extOp {
	pns, _ := sc.Parent["metadata"].(J)["namespace"].(string)
	var out []extOp
	for _, c := range sc.Hook.Children {
		md := c["metadata"].(J)
		ns, _ := md["namespace"].(string)
		k := resByKind(c["apiVersion"].(string), c["kind"].(string))
		if k == nil {
			continue
		}
		if ns == "" && k.Namespaced {
			ns = pns
		}
		if !k.Namespaced {
			ns = ""
		}
		out = append(out, extOp{APIVersion: c["apiVersion"].(string), Kind: c["kind"].(string), Namespace: ns, Name: md["name"].(string)})
	}
	return out
}

func generateScenarios(prop string, seed uint64, n int, adv bool) []*scenario {
	root := vh.NewRng(seed ^ 0xc0de)
	var out []*scenario
	for i := 0; i < n; i++ {
		r, s := root.Fork()
		g := &gen{r: r, adv: adv, oddMethods: prop == "C06", twins: prop == "C06" || prop == "C03" || prop == "C02" || prop == "C04"}
		switch {
		case (prop == "C02" || prop == "C04") && i%16 == 14:
			// the parent is deleted and created again under its old name (a new UID) before a sync; its former
			// children are still there, controlled by the old UID: somebody else's as far as the new parent goes
			sc := g.basic("successor", i, s)
			for tries := 0; tries < 60 && (len(sc.Hook.Children) == 0 || sc.Hook.PlainOwnerRef || sc.hasFeature("selector-empty-content")); tries++ {
				sc = g.basic("successor", i, s)
			}
			sc.Warmup, sc.Setup = true, nil
			p := sc.parentRef()
			p.Op = "recreate"
			sc.Rounds = []roundSpec{{PreOps: []extOp{p}}, {}}
			if r.Chance(1, 3) {
				sc.Rounds = []roundSpec{{LateOps: []extOp{p}}, {}}
				sc.Features = []string{"parent-recreated-after-cache"}
			} else {
				sc.Features = nil
			}
			if r.Bool() {
				// the hook of the new parent wants nothing (or something else): nothing of the predecessor's is deleted
				h2 := sc.Hook
				h2.Children = nil
				sc.Hook2 = &h2
				sc.Features = append(sc.Features, "hook-changes-mind")
			}
			sc.Features = append(sc.Features, "parent-recreated-same-name", "children-of-the-predecessor-left-behind")
			out = append(out, sc)
		case (prop == "C12" && i%12 == 1) || (prop == "C04" && i%16 == 3):
			// orphans to adopt, and the live read of the parent that must precede an adoption fails: gone, or a
			// transient server error (the cache is no substitute: it may show a parent that is being deleted)
			sc := g.adoptrace(i, s)
			for ri := range sc.Rounds {
				sc.Rounds[ri].MidOps = nil
			}
			code := []J{{"code": 404, "reason": "NotFound"}, {"code": 500, "reason": "InternalError"}, {"code": 503, "reason": "ServiceUnavailable"},
				{"code": 429, "reason": "TooManyRequests"}, {"code": 504, "reason": "Timeout"}}[r.Intn(5)]
			sc.Rounds[0].FaultOn = append(sc.Rounds[0].FaultOn, faultOn{Verb: "get", Kind: sc.Ctl.ParentKind, Nth: 0, Fault: code})
			sc.Features = append(sc.Features, "parent-recheck-read-fails")
			out = append(out, sc)
		case (prop == "C02" || prop == "C04") && i%16 == 10:
			// a selector of labels AND an expression; orphans and owned children that satisfy the labels and fail
			// the expression (never to be adopted; to be released)
			sc := g.basic("labels-and-expressions", i, s)
			ok := func(sc *scenario) bool {
				if !sc.hasFeature("labels-and-expressions") || sc.Ctl.GenSelector || !sc.Warmup {
					return false
				}
				for _, op := range sc.Setup {
					if op.Op == "orphan" {
						return true
					}
				}
				return false
			}
			for tries := 0; tries < 200 && !ok(sc); tries++ {
				sc = g.basic("labels-and-expressions", i, s)
			}
			if ok(sc) {
				var more []extOp
				for _, op := range sc.Setup {
					if op.Op == "orphan" || op.Op == "edit" {
						e := op
						e.Op, e.Data = "relabel-merge", J{"tier": "canary"}
						more = append(more, e)
					}
				}
				sc.Setup = append(sc.Setup, more...)
				sc.Features = append(sc.Features, "excluded-by-expression-only")
			}
			out = append(out, sc)
		case prop == "C02" && i%2 == 1:
			out = append(out, g.race(i, s))
		case prop == "C02" && i%4 == 2:
			// adoption races, with a hook that then changes its mind (writes and deletes follow the claim)
			sc := g.adoptrace(i, s)
			h2 := sc.Hook
			h2.Children = nil
			for _, c := range sc.Hook.Children {
				switch r.Intn(3) {
				case 0: // no longer desired
				case 1:
					c2 := runtime.DeepCopyJSON(c)
					c2["spec"].(J)["replicas"] = int64(5)
					h2.Children = append(h2.Children, c2)
				default:
					h2.Children = append(h2.Children, c)
				}
			}
			sc.Hook2 = &h2
			sc.Features = append(sc.Features, "hook-changes-mind")
			out = append(out, sc)
		case prop == "C02" && i%16 == 4:
			// a rolling-update controller whose ControllerRevisions are replaced by new incarnations behind its back
			sc := g.rollout(i, s, true)
			for ri := range sc.Rounds {
				if sc.Rounds[ri].MidOps == nil {
					sc.Rounds[ri].MidOps = map[string][]extOp{}
				}
				idx := fmt.Sprint(r.Intn(5))
				sc.Rounds[ri].MidOps[idx] = append(sc.Rounds[ri].MidOps[idx], extOp{Op: "recreate-revisions"})
			}
			sc.Features = append(sc.Features, "revisions-recreated-after-cache")
			if r.Bool() {
				// ... or, before a sync, taken over by another parent: the names the parent wants are taken by
				// objects it does not control
				at := r.Intn(len(sc.Rounds))
				for ri := range sc.Rounds {
					sc.Rounds[ri].MidOps = nil
				}
				if r.Bool() {
					sc.Rounds[at].PreOps = append(sc.Rounds[at].PreOps, extOp{Op: "steal-revisions"})
				} else {
					sc.Rounds[at].LateOps = append(sc.Rounds[at].LateOps, extOp{Op: "steal-revisions"})
				}
				sc.Features = []string{"rolling", "revisions-taken-over-by-another-parent"}
				if len(sc.Rounds[at].LateOps) > 0 {
					sc.Features = append(sc.Features, "ownership-edit-after-cache") // the caches still show the old owner
				}
			}
			out = append(out, sc)
		case prop == "C02" && i%8 == 0:
			sc := g.basic("basic", i, s)
			sc.Ctl.SSA = true
			sc.Features = append(sc.Features, "ssa")
			out = append(out, sc)
		case prop == "C01":
			out = append(out, g.converge(i, s))
		case prop == "C03" && i%12 == 11:
			// one controller declaring the same resource at two API versions as two child kinds
			sc := g.basic("two-versions", i, s)
			k1 := kidSpec{APIVersion: "apps.example.com/v1", Resource: "widgets", Kind: "Widget", Namespaced: true, Method: "InPlace"}
			k2 := kidSpec{APIVersion: "apps.example.com/v2", Resource: "widgets", Kind: "Widget", Namespaced: true, Method: "InPlace"}
			sc.Ctl.Kids = []kidSpec{k1, k2}
			if !sc.Ctl.ParentNamespaced {
				sc.Ctl.ParentNamespaced, sc.Ctl.ParentResource, sc.Ctl.ParentKind = true, "things", "Thing"
				sc.Parent["kind"] = "Thing"
				sc.Parent["metadata"].(J)["namespace"] = "ns1"
			}
			app := "appv"
			sc.Parent["spec"].(J)["selector"] = J{"matchLabels": J{"app": app}}
			sc.Hook.Children = []J{
				{"apiVersion": k1.APIVersion, "kind": "Widget", "metadata": J{"name": "w1", "labels": J{"app": app}}, "spec": J{"replicas": int64(1)}},
				{"apiVersion": k2.APIVersion, "kind": "Widget", "metadata": J{"name": "w2", "labels": J{"app": app}}, "spec": J{"replicas": int64(2)}},
			}
			sc.Hook.FinalizeChildren = nil
			sc.Warmup, sc.Setup = true, nil
			sc.Rounds = []roundSpec{{}, {}}
			sc.Features = []string{"same-resource-two-versions"}
			out = append(out, sc)
		case prop == "C03" && i%12 == 7:
			// selector generation on a parent that has a .spec.selector of its own (a Job-like API): owned children
			// carry the controller-uid label and have stopped matching the ignored selector
			sc := g.basic("generated-selector", i, s)
			for tries := 0; tries < 60 && !(sc.Ctl.GenSelector && len(sc.Hook.Children) > 0 && !sc.hasFeature("desired-foreign-uid-label") && !sc.hasFeature("children-without-labels")); tries++ {
				sc = g.basic("generated-selector", i, s)
			}
			sc.Warmup, sc.Setup, sc.Hook.PlainOwnerRef = true, nil, false
			for _, ref := range sc.childRefs() {
				ref.Op, ref.Data = "relabel-merge", J{"app": []interface{}{nil, "nomatch"}[r.Intn(2)]}
				sc.Setup = append(sc.Setup, ref)
			}
			sc.Rounds = []roundSpec{{}, {}}
			sc.Features = []string{"generate-selector", "owned-off-the-ignored-selector"}
			out = append(out, sc)
		case prop == "C03" && i%12 == 9:
			// the update that adopts (or releases) one object is refused while the parent owns other objects:
			// the sync ends there; the hook is not shown a map with that kind's group left empty
			sc := g.adoptrace(i, s)
			for ri := range sc.Rounds {
				sc.Rounds[ri].MidOps = nil
			}
			for _, ref := range sc.childRefs() {
				f := []J{{"code": 500, "reason": "InternalError"}, {"code": 422, "reason": "Invalid"}, {"code": 403, "reason": "Forbidden"}}[r.Intn(3)]
				sc.Rounds[0].FaultOn = append(sc.Rounds[0].FaultOn, faultOn{Verb: "update", Kind: ref.Kind, Nth: 0, Fault: f})
				break
			}
			sc.Features = append(sc.Features, "ownership-edit-refused")
			out = append(out, sc)
		case prop == "C03" && i%12 == 5:
			// one controller instance over the whole history; the parent is deleted and re-created under
			// the same name (new UID, generation 1 again) while its children are left behind as orphans
			sc := g.basic("reincarnation", i, s)
			sc.Warmup, sc.Setup, sc.LongLived = true, nil, true
			sc.Ctl.GenSelector = r.Chance(3, 4)
			p := sc.parentRef()
			p.Op = "recreate"
			pre := []extOp{p}
			pns, _ := sc.Parent["metadata"].(J)["namespace"].(string)
			for _, c := range sc.Hook.Children {
				md := c["metadata"].(J)
				ns, _ := md["namespace"].(string)
				k := resByKind(c["apiVersion"].(string), c["kind"].(string))
				if ns == "" && k.Namespaced {
					ns = pns
				}
				if !k.Namespaced {
					ns = ""
				}
				pre = append(pre, extOp{Op: "orphan", APIVersion: c["apiVersion"].(string), Kind: c["kind"].(string), Namespace: ns, Name: md["name"].(string)})
			}
			sc.Rounds = []roundSpec{{}, {PreOps: pre}, {}}
			sc.Features = []string{"long-lived-controller", "parent-recreated-same-name", "children-orphaned"}
			if sc.Ctl.GenSelector {
				sc.Features = append(sc.Features, "generate-selector")
			}
			out = append(out, sc)
		case prop == "C03" && i%3 == 1:
			out = append(out, g.lifecycle(i, s))
		case prop == "C03" && i%3 == 2:
			out = append(out, g.adoptrace(i, s))
		case prop == "C10" && i%8 == 1:
			out = append(out, g.rolloutFinalize(i, s))
		case (prop == "C04" || prop == "C02") && i%16 == 12:
			// the ownership edit (adopt / release) meets a conflict, and before the retry the object is
			// replaced by a new incarnation under the same name
			sc := g.adoptrace(i, s)
			for ri := range sc.Rounds {
				sc.Rounds[ri].LateOps, sc.Rounds[ri].MidOps = nil, nil
			}
			for _, ref := range sc.childRefs() {
				re := ref
				re.Op = "recreate"
				sc.Rounds[0].FaultOn = append(sc.Rounds[0].FaultOn, faultOn{Verb: "update", Kind: ref.Kind, Nth: 0,
					Fault: J{"code": 409, "reason": "Conflict"}, Ops: []extOp{re}})
				break
			}
			sc.Features = append(sc.Features, "conflict-then-replaced-before-retry")
			out = append(out, sc)
		case prop == "C04" && i%16 == 0:
			// the hook returns a child whose labels the parent's selector does not match: a new child, or (after
			// the warm-up created it with matching labels) one that exists and is owned; every update method
			sc := g.basic("desired-unselectable", i, s)
			for tries := 0; tries < 20 && (sc.Ctl.GenSelector || len(sc.Hook.Children) == 0); tries++ {
				sc = g.basic("desired-unselectable", i, s)
			}
			if sc.Ctl.GenSelector || len(sc.Hook.Children) == 0 {
				out = append(out, sc)
				break
			}
			sc.Setup, sc.Hook.PlainOwnerRef = nil, false
			for ki := range sc.Ctl.Kids {
				sc.Ctl.Kids[ki].Method, sc.Ctl.Kids[ki].EmptyStrategy = []string{"InPlace", "Recreate", "OnDelete"}[r.Intn(3)], false
			}
			sc.Ctl.SSA = r.Chance(1, 5)
			h2 := sc.Hook
			h2.Children = nil
			bad := r.Intn(len(sc.Hook.Children))
			for ci, c := range sc.Hook.Children {
				c2 := runtime.DeepCopyJSON(c)
				if ci == bad {
					switch r.Intn(3) {
					case 0:
						c2["metadata"].(map[string]interface{})["labels"] = map[string]interface{}{"app": "elsewhere"}
					case 1:
						delete(c2["metadata"].(map[string]interface{}), "labels")
					default:
						c2["metadata"].(map[string]interface{})["labels"] = map[string]interface{}{"other": "x"}
					}
				}
				if sp, ok := c2["spec"].(map[string]interface{}); ok {
					sp["replicas"] = int64(9) // every child differs from what exists
				}
				h2.Children = append(h2.Children, c2)
			}
			sc.Warmup = r.Chance(3, 4)
			if sc.Warmup {
				sc.Hook2 = &h2
				sc.Features = []string{"desired-unselectable", "existing-child-relabelled-by-hook"}
			} else {
				sc.Hook = h2
				sc.Features = []string{"desired-unselectable"}
			}
			if sc.Ctl.SSA {
				sc.Features = append(sc.Features, "ssa")
			}
			sc.Rounds = []roundSpec{{}, {}}
			out = append(out, sc)
		case prop == "C04" && i%16 == 8:
			// one controller instance; between two syncs the parent's selector is edited in place (same UID)
			sc := g.basic("selector-edit", i, s)
			sc.Warmup, sc.Setup, sc.LongLived = true, nil, true
			sc.Ctl.GenSelector = false
			e := sc.parentRef()
			spec := runtime.DeepCopyJSON(sc.Parent["spec"].(J))
			spec["selector"] = J{"matchLabels": J{"app": "edited"}}
			e.Op, e.Data = "edit", J{"spec": spec}
			pre := []extOp{e}
			// an orphan that matches the new selector, and one that matches the old
			for _, ref := range sc.childRefs() {
				if c := sc.Hook.Children[0]; c != nil {
					o := runtime.DeepCopyJSON(c)
					o["metadata"].(map[string]interface{})["name"] = "fresh"
					o["metadata"].(map[string]interface{})["namespace"] = ref.Namespace
					o["metadata"].(map[string]interface{})["labels"] = J{"app": "edited"}
					pre = append(pre, extOp{Op: "create", APIVersion: ref.APIVersion, Kind: ref.Kind, Namespace: ref.Namespace, Name: "fresh", Data: o})
				}
				break
			}
			sc.Rounds = []roundSpec{{}, {PreOps: pre}, {}}
			sc.Features = []string{"long-lived-controller", "selector-edited-in-place"}
			out = append(out, sc)
		case prop == "C04" && i%8 == 4:
			// orphaned ControllerRevisions to adopt while the live parent is gone, dying or replaced
			sc := g.rollout(i, s, true)
			if len(sc.Rounds) > 4 {
				sc.Rounds = sc.Rounds[:4]
			}
			at := r.Intn(len(sc.Rounds))
			orph := extOp{Op: "orphan-revisions"}
			if !sc.Ctl.GenSelector && r.Bool() {
				// the parent's selector has an expression besides its labels, and the revisions are relabelled so
				// that they violate the expression only: not to be adopted when orphaned, to be released when owned
				sc.addSelectorExpressions(A{J{"key": "track", "operator": "NotIn", "values": A{"retired"}}})
				orph.Data = J{"labels": J{"track": "retired"}}
				if r.Bool() {
					orph.Op = "relabel-revisions"
				}
				sc.Features = append(sc.Features, "revisions-violate-selector-expression")
			}
			sc.Rounds[at].PreOps = append(sc.Rounds[at].PreOps, orph)
			p := sc.parentRef()
			switch r.Intn(3) {
			case 0:
				p.Op, p.Data = "deleting", J{"finalizers": A{"example.com/other"}}
				sc.Features = append(sc.Features, "parent-deleting-after-cache")
			case 1:
				p.Op = "recreate"
				sc.Features = append(sc.Features, "parent-recreated-after-cache")
			default:
				p.Op = ""
			}
			if p.Op != "" {
				sc.Rounds[at].LateOps = append(sc.Rounds[at].LateOps, p)
			}
			sc.Features = append(sc.Features, "orphan-revisions")
			out = append(out, sc)
		case prop == "C04" && i%2 == 1:
			out = append(out, g.adoptrace(i, s))
		case prop == "C10" && i%16 == 6:
			// a dying parent (held by somebody's finalizer) whose own finalizer an earlier sync has already taken off the
			// live object, while the cache still shows it: the finalize hook answers finalized once more, the removal
			// finds nothing to do on the live object, and no child is touched (one is missing and would be made again)
			sc := g.basic("lifecycle", i, s)
			for tries := 0; tries < 40 && (len(sc.Hook.Children) == 0 || sc.Hook.PlainOwnerRef || sc.hasFeature("selector-empty-content")); tries++ {
				sc = g.basic("lifecycle", i, s)
			}
			sc.Ctl.Finalize, sc.Warmup, sc.Setup, sc.Ctl.SSA = true, true, nil, false
			sc.Hook.FinalizedAlways, sc.Hook.FinalizedIfEmpty, sc.Hook.FinalizeChildren = true, false, sc.Hook.Children
			p := sc.parentRef()
			p.Op, p.Data = "deleting", J{"finalizers": A{"example.com/other"}}
			sc.Setup = append(sc.Setup, p)
			for _, ref := range sc.childRefs() {
				ref.Op = "delete"
				sc.Setup = append(sc.Setup, ref)
				break
			}
			u := sc.parentRef()
			u.Op = "unfinalize"
			sc.Rounds = []roundSpec{{LateOps: []extOp{u}}, {}}
			sc.Features = []string{"parent-deleted-foreign-finalizer", "own-finalizer-gone-after-cache"}
			out = append(out, sc)
		case prop == "C10" && i%16 == 2:
			// the request that adds the finalizer keeps meeting conflicts
			sc := g.basic("lifecycle", i, s)
			sc.Ctl.Finalize, sc.Warmup, sc.Setup = true, false, nil
			var fo []faultOn
			for x := 0; x < 6; x++ {
				fo = append(fo, faultOn{Verb: "update", Kind: sc.Ctl.ParentKind, Nth: x, Fault: J{"code": 409, "reason": "Conflict"}})
			}
			sc.Rounds = []roundSpec{{FaultOn: fo}, {}}
			sc.Features = []string{"finalizer-add-meets-conflicts"}
			out = append(out, sc)
		case prop == "C10" && i%4 != 0:
			out = append(out, g.lifecycle(i, s))
		case prop == "C11" && i%8 == 0:
			// parents being finalized: the finalize hook's status is written like any other
			sc := g.lifecycle(i, s)
			sc.Ctl.Finalize = true
			sc.Hook.Status, sc.Hook.NullStatus = J{"phase": "CleaningUp", "left": int64(len(sc.Hook.Children))}, false
			out = append(out, sc)
		case prop == "C11" && i%4 != 0:
			out = append(out, g.statusy(i, s))
		case prop == "C07" && i%4 != 3 && i%8 != 1 && i%8 != 5:
			out = append(out, g.rollout(i, s, i%3 == 0))
		case (prop == "C08" && i%4 == 1) || (prop == "C07" && i%8 == 1):
			// two rolling child kinds with the same kind name, told apart by their API group only
			sc := g.rollout(i, s, true)
			for tries := 0; tries < 60 && !(sc.hasFeature("same-kind-in-two-groups") && sc.hasFeature("two-rolling-kinds")); tries++ {
				sc = g.rollout(i, s, true)
			}
			out = append(out, sc)
		case prop == "C08":
			out = append(out, g.rollout(i, s, true))
		case (prop == "C09" && i%6 == 4) || (prop == "C07" && i%8 == 5) || (prop == "C13" && i%8 == 4):
			// during a rollout the hook fails for one parent state only: the older revision's (or, as a
			// control, the latest one's) - an error status, a connection error or a body that is rejected
			sc := g.rollout(i, s, true)
			for tries := 0; tries < 20 && (sc.Ctl.GenSelector || !sc.Ctl.ParentNamespaced); tries++ {
				sc = g.rollout(i, s, true)
			}
			h2 := sc.Hook
			h2.BadForImage = []string{"v1", "v1", "v1", "v2"}[r.Intn(4)]
			h2.BadKind = []string{"500", "garbage", "neterr"}[r.Intn(3)]
			if prop == "C13" {
				h2.BadKind = "garbage"
			}
			sc.Hook2 = &h2
			if len(sc.Rounds) > 4 {
				sc.Rounds = sc.Rounds[:4]
			}
			var fs []string
			for _, f := range sc.Features {
				if f != "fair" { // a rollout whose hook keeps failing does not finish
					fs = append(fs, f)
				}
			}
			sc.Features = append(fs, "rolling", "hook-fails-for-one-revision-"+h2.BadKind)
			out = append(out, sc)
		case prop == "C09" && i%6 == 3:
			// two rolling child kinds: a revision's record has one claim group per kind
			sc := g.rollout(i, s, true)
			for tries := 0; tries < 80 && !(sc.hasFeature("two-rolling-kinds") && !sc.Ctl.GenSelector && sc.Ctl.ParentNamespaced); tries++ {
				sc = g.rollout(i, s, true)
			}
			out = append(out, sc)
		case prop == "C09" && i%6 == 5:
			// the parent is deleted in the middle of a rollout while a finalize hook keeps the children
			sc := g.rolloutFinalize(i, s)
			for tries := 0; tries < 20 && (sc.Ctl.GenSelector || !sc.Ctl.ParentNamespaced); tries++ {
				sc = g.rolloutFinalize(i, s)
			}
			out = append(out, sc)
		case prop == "C09" || (prop == "C07" && i%4 == 3):
			// (C07 too: after a failed or unseen revision write a child may be recorded by two revisions)
			sc := g.rollout(i, s, true)
			for tries := 0; tries < 20 && (sc.Ctl.GenSelector || !sc.Ctl.ParentNamespaced); tries++ {
				sc = g.rollout(i, s, true) // configurations with a known rollout finding (D27, D28) belong to C08
			}
			// an API error on a ControllerRevision write, or a crash cut (every later request of that sync fails)
			at := r.Intn(3)
			if at < len(sc.Rounds) {
				rs := &sc.Rounds[at]
				switch r.Intn(3) {
				case 0:
					verb := []string{"create", "update", "delete"}[r.Intn(3)]
					f := []J{{"code": 409, "reason": "Conflict"}, {"code": 409, "reason": "AlreadyExists"}, {"code": 500, "reason": "InternalError"}}[r.Intn(3)]
					rs.FaultOn = []faultOn{{Verb: verb, Kind: "ControllerRevision", Fault: f}}
					sc.Features = append(sc.Features, "revision-write-fault")
				case 2:
					if !sc.Ctl.GenSelector {
						// the parent's ControllerRevisions have lost their owner (parent deleted with its dependents
						// orphaned and created again, say) and the request that adopts one of them back fails
						rs.PreOps = append(rs.PreOps, extOp{Op: "orphan-revisions"})
						f := []J{{"code": 409, "reason": "Conflict"}, {"code": 500, "reason": "InternalError"}, {"code": 403, "reason": "Forbidden"}}[r.Intn(3)]
						rs.FaultOn = []faultOn{{Verb: "update", Kind: "ControllerRevision", Nth: r.Intn(2), Fault: f}}
						if r.Chance(1, 3) {
							rs.FaultOn = []faultOn{{Verb: "get", Kind: sc.Ctl.ParentKind, Nth: 0, Fault: J{"code": 500, "reason": "InternalError"}}}
						}
						sc.Features = append(sc.Features, "revision-adoption-fault")
					}
				case 1:
					cut := r.Intn(8)
					rs.Faults = map[string]J{}
					for x := cut; x < cut+40; x++ {
						rs.Faults[fmt.Sprint(x)] = J{"code": 500, "reason": "InternalError"}
					}
					sc.Features = append(sc.Features, "crash-cut")
				}
			}
			if r.Chance(1, 3) {
				refs := sc.childRefs()
				if len(refs) > 0 {
					d := refs[0]
					d.Op = "delete"
					d.Name = fmt.Sprintf("%s%d", d.Name, r.Intn(3))
					at2 := 1 + r.Intn(2)
					if at2 < len(sc.Rounds) {
						sc.Rounds[at2].PreOps = append(sc.Rounds[at2].PreOps, d)
						sc.Features = append(sc.Features, "child-deleted-mid-rollout")
					}
				}
			}
			if len(sc.Ctl.FieldPaths) == 1 && len(sc.Rounds) > 2 && r.Bool() {
				// a field outside the revision history is edited (the generation moves, the revisioned fields do
				// not) and the next sync runs on a ControllerRevision lister that has not seen the last sync's writes
				e := sc.parentRef()
				spec := runtime.DeepCopyJSON(sc.Parent["spec"].(J))
				spec["image"], spec["note"] = "v2", "generation-bump"
				e.Op, e.Data = "edit", J{"spec": spec}
				sc.Rounds[1].PreOps = append(sc.Rounds[1].PreOps, e)
				sc.Rounds[1].StaleRevisions = true
				sc.Features = append(sc.Features, "stale-revision-lister-after-generation-bump")
			}
			// room to recover
			healthy := sc.Rounds[len(sc.Rounds)-1].PreOps
			for x := 0; x < 4; x++ {
				sc.Rounds = append(sc.Rounds, roundSpec{PreOps: healthy})
			}
			out = append(out, sc)
		case prop == "C17" && i%14 == 13:
			sc := g.basic("basic", i, s)
			sc.Warmup, sc.SSAAfterWarmup = true, true
			sc.Features = append(sc.Features, "ssa-after-dynamic-apply")
			out = append(out, sc)
		case prop == "C17":
			switch i % 7 {
			case 0:
				out = append(out, g.basic("basic", i, s))
			case 1:
				out = append(out, g.race(i, s))
			case 2:
				out = append(out, g.lifecycle(i, s))
			case 3:
				out = append(out, g.statusy(i, s))
			case 4:
				out = append(out, g.faulty(i, s))
			case 5:
				out = append(out, g.malformed(i, s))
			default:
				out = append(out, g.rollout(i, s, i%2 == 0))
			}
		case prop == "C06" && i%5 == 0:
			// the API server refuses an in-place update (an immutable field, say): the strategy still decides the verb
			sc := g.basic("basic", i, s)
			if len(sc.Ctl.Kids) > 0 && len(sc.Rounds) > 0 {
				k := sc.Ctl.Kids[r.Intn(len(sc.Ctl.Kids))]
				sc.Rounds[0].FaultOn = []faultOn{{Verb: "update", Kind: k.Kind, AfterHook: true, Nth: 0, Fault: J{"code": 422, "reason": "Invalid"}}}
				sc.Features = append(sc.Features, "child-update-refused-422")
			}
			out = append(out, sc)
		case prop == "C06" && i%10 == 4:
			// an owned child is already terminating (held by a finalizer) and the hook no longer wants any child of
			// that kind (or none at all): the dying child is left alone, not deleted again on every sync
			sc := g.basic("basic", i, s)
			for tries := 0; tries < 40 && (len(sc.Hook.Children) == 0 || sc.Hook.PlainOwnerRef); tries++ {
				sc = g.basic("basic", i, s)
			}
			sc.Warmup, sc.Setup, sc.Ctl.SSA = true, nil, false
			h2 := sc.Hook
			h2.Children = nil
			if len(sc.Hook.Children) > 1 && r.Bool() {
				h2.Children = sc.Hook.Children[1:] // perhaps still of the same kind: the per-child path
			}
			sc.Hook2 = &h2
			for _, ref := range sc.childRefs() {
				ref.Op, ref.Data = "deleting", J{"finalizers": A{"example.com/hold"}}
				sc.Setup = append(sc.Setup, ref)
				break
			}
			sc.Rounds = []roundSpec{{}, {}}
			sc.Features = []string{"child-deleting", "hook-changes-mind", "undesired-child-already-terminating"}
			if sc.Ctl.SSA {
				sc.Features = append(sc.Features, "ssa")
			}
			out = append(out, sc)
		case prop == "C06" && i%10 == 9:
			// a child that needs an update has begun terminating (held by a finalizer) since the cache was taken: the
			// update built on the cached copy meets a conflict, and nothing may be written to the dying child after it
			sc := g.basic("basic", i, s)
			for tries := 0; tries < 40 && (len(sc.Hook.Children) == 0 || sc.Hook.PlainOwnerRef); tries++ {
				sc = g.basic("basic", i, s)
			}
			for ki := range sc.Ctl.Kids {
				sc.Ctl.Kids[ki].Method, sc.Ctl.Kids[ki].EmptyStrategy = []string{"InPlace", "InPlace", "Recreate"}[r.Intn(3)], false
			}
			sc.Warmup, sc.Setup, sc.Ctl.SSA = true, nil, false
			h2 := sc.Hook
			h2.Children = nil
			for _, c := range sc.Hook.Children {
				c2 := runtime.DeepCopyJSON(c)
				if sp, ok := c2["spec"].(map[string]interface{}); ok {
					sp["replicas"] = int64(5)
				}
				h2.Children = append(h2.Children, c2)
			}
			sc.Hook2 = &h2
			var late []extOp
			for _, ref := range sc.childRefs() {
				ref.Op, ref.Data = "deleting", J{"finalizers": A{"example.com/hold"}}
				late = append(late, ref)
			}
			sc.Rounds = []roundSpec{{LateOps: late}, {}}
			sc.Features = []string{"child-terminating-after-cache", "hook-changes-mind"}
			out = append(out, sc)
		case prop == "C06" && i%5 == 3:
			// parents being deleted (background, foreground, orphan cascades) whose finalize hook still manages
			// the children: a child no longer desired goes with background propagation whatever the parent's cascade
			sc := g.lifecycle(i, s)
			sc.Ctl.Finalize = true
			out = append(out, sc)
		case prop == "C06" && i%5 == 2:
			// two child kinds with the same kind name in different API groups, each with its own method
			sc := g.basic("basic", i, s)
			for tries := 0; tries < 60 && !(sc.hasFeature("same-kind-in-two-groups") && len(sc.Hook.Children) > 1); tries++ {
				sc = g.basic("basic", i, s)
			}
			out = append(out, sc)
		case prop == "C06" && i%5 == 1:
			// a hook that round-trips the metadata it observed: every desired child carries the annotations
			// of the observed one, the controller's own bookkeeping annotation included
			sc := g.basic("basic", i, s)
			if !sc.Hook.PlainOwnerRef && len(sc.Hook.Children) > 0 {
				sc.Hook.Kind, sc.Warmup = "echo-meta", true
				if len(sc.Rounds) < 2 {
					sc.Rounds = append(sc.Rounds, roundSpec{})
				}
				sc.Features = append(sc.Features, "hook-echo-annotations")
			}
			out = append(out, sc)
		case prop == "C19c":
			// what the controller does with the transport's verdicts: hook answers 429 (with and without
			// Retry-After), 5xx, connection refused - through the plain path and through the parallel
			// per-revision calls of a rolling update
			var sc *scenario
			if i%2 == 0 {
				sc = g.rollout(i, s, true)
				sc.Family = "faults"
				if len(sc.Rounds) > 2 {
					sc.Rounds = sc.Rounds[:2]
				}
				sc.Features = append(sc.Features, "rolling")
			} else {
				sc = g.basic("faults", i, s)
				sc.Warmup = r.Bool()
			}
			h2 := sc.Hook
			switch r.Intn(5) {
			case 0, 1:
				h2.Code, h2.RetryAfter = 429, fmt.Sprint(1+r.Intn(50))
				sc.Features = append(sc.Features, "hook-429")
			case 2:
				h2.Code = 429 // no Retry-After
				sc.Features = append(sc.Features, "hook-429-no-retry-after")
			case 3:
				h2.Code = []int{500, 502, 503}[r.Intn(3)]
				sc.Features = append(sc.Features, "hook-5xx")
			default:
				h2.NetErr = true
				sc.Features = append(sc.Features, "hook-conn-refused")
			}
			if sc.Warmup {
				sc.Hook2 = &h2
			} else {
				sc.Hook = h2
			}
			out = append(out, sc)
		case prop == "C12" && i%12 == 0:
			// a finalizing sync whose finalizer removal finds the parent gone (404 on its read or its write)
			sc := g.lifecycle(i, s)
			sc.Family = "faults"
			sc.Ctl.Finalize = true
			sc.Hook.FinalizedAlways = true
			for ri := range sc.Rounds {
				sc.Rounds[ri].Faults = nil
				sc.Rounds[ri].FaultOn = append(sc.Rounds[ri].FaultOn, faultOn{Verb: []string{"get", "update"}[r.Intn(2)], Kind: sc.Ctl.ParentKind,
					AfterHook: true, Nth: 0, Fault: J{"code": 404, "reason": "NotFound"}})
			}
			sc.Features = append(sc.Features, "parent-gone-at-finalizer-removal")
			out = append(out, sc)
		case prop == "C12" && i%12 == 6:
			// a rolling-update controller (the ControllerRevision path of the hook calls) whose hook says 429
			sc := g.rollout(i, s, true)
			sc.Family = "faults"
			h2 := sc.Hook
			h2.Code, h2.RetryAfter = 429, fmt.Sprint(1+r.Intn(50))
			sc.Hook2 = &h2
			if len(sc.Rounds) > 2 {
				sc.Rounds = sc.Rounds[:2]
			}
			sc.Features = append(sc.Features, "hook-429", "rolling")
			out = append(out, sc)
		case prop == "C12" && i%6 != 0:
			out = append(out, g.faulty(i, s))
		case prop == "C13" && i%8 == 0:
			// a rolling-update controller writes its own condition into the status the hook returned:
			// conditions of every wrong shape
			sc := g.rollout(i, s, i%16 == 0)
			sc.Family = "malformed"
			bad := []interface{}{"Ready", nil, int64(7), true, A{J{"type": "Updated"}}, 2.5}[r.Intn(6)]
			conds := A{bad}
			if r.Bool() {
				conds = A{J{"type": "Ready", "status": "True"}, bad, J{"type": "Updated", "status": "Unknown"}}
			}
			switch r.Intn(5) {
			case 0:
				sc.Hook.Status = J{"conditions": conds}
			case 1:
				sc.Hook.Status = J{"conditions": bad}
			case 2:
				sc.Hook.Status = J{"conditions": J{"type": "Updated"}}
			case 3:
				sc.Hook.Status, sc.Hook.OmitStatus, sc.Hook.NullStatus = nil, true, false // no status at all
				if r.Bool() {
					// after the warm-up (which creates the children from the v1 parent) the hook answers "no
					// children" for the v1 view: the older revision's answer omits the children it still claims
					h2 := sc.Hook
					h2.EmptyForImage = "v1"
					sc.Features = append(sc.Features, "old-revision-answer-omits-claimed-children")
					if r.Bool() {
						// ... or the latest revision's: children it has already taken over are missing from its answer
						h2.EmptyForImage = "v2"
						sc.Features[len(sc.Features)-1] = "latest-revision-answer-omits-claimed-children"
					}
					sc.Hook2 = &h2
				}
			default:
				sc.Hook.Status, sc.Hook.OmitStatus, sc.Hook.NullStatus = nil, false, true // status: null
			}
			if len(sc.Rounds) > 5 {
				sc.Rounds = sc.Rounds[:5]
			}
			sc.Features = append(sc.Features, "malformed-status-conditions", "rolling")
			out = append(out, sc)
		case prop == "C13":
			out = append(out, g.malformed(i, s))
		default:
			out = append(out, g.basic("basic", i, s))
		}
	}
	// a share of every family runs on one long-lived controller instance (informers fed by watch events)
	// instead of a fresh one per recorded sync: state kept inside the instance is then in play
	for i, sc := range out {
		switch prop {
		case "C02", "C03", "C04", "C06", "C10", "C11", "C12", "C17":
			if i%5 == 3 && !sc.LongLived {
				sc.LongLived = true
				sc.Features = append(sc.Features, "long-lived-controller")
			}
		}
		if prop == "C17" && i%3 == 0 && sc.Warmup && sc.Hook.Kind == "const" && sc.Hook2 == nil && sc.Family != "rollout" {
			// the hook's children carry a status stanza (harmless: never applied) and the observed children have one
			// of their own, written by their controller: nothing of the hook's may leak into the cached objects
			for _, c := range sc.Hook.Children {
				c["status"] = J{"phase": "Wanted", "conditions": A{J{"type": "Ready", "status": "Unknown"}}}
			}
			for _, ref := range sc.childRefs() {
				ref.Op, ref.Data = "edit", J{"status": J{"phase": "Running", "conditions": A{J{"type": "Ready", "status": "True"}}, "n": int64(1)}}
				sc.Setup = append(sc.Setup, ref)
			}
			sc.Features = append(sc.Features, "desired-and-observed-status-differ")
		}
		// the order of a discovery document's resource list is not specified: a third of all scenarios see
		// every "x/status" entry before its "x"
		if i%3 == 2 {
			sc.SubFirst = true
			sc.Features = append(sc.Features, "discovery-lists-subresources-first")
		}
	}
	return out
}
