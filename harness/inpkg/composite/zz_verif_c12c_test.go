package composite

// C12c (a leg of property C12): the customize hook FAILS a number of times
// (5xx, gateway timeout, connection refused, 429, unreadable body) and then
// answers normally, while ONE controller instance keeps syncing the same
// parent generation. Once a sync gets through, the hook must have been asked
// again after the failure and the `related` map handed to the sync hook must
// be the one the (good) rules select: the faults must leave no trace.

import (
	"fmt"
	"os"
	"strings"
	"testing"

	k8sjson "k8s.io/apimachinery/pkg/util/json"

	vh "metacontroller/pkg/internal/verifh"
)

var c12cFaults = []string{"500", "502", "503", "504", "net", "429", "429-no-retry-after", "garbage", "empty", "404"}

// rules that GetRelatedObjects accepts (so that a sync gets through once the hook answers)
func (g *c15Gen) c12cGoodRules(namespaced bool) ([]interface{}, []string) {
	for {
		rs, feats := g.rules(namespaced, false)
		ok := len(rs) > 0
		for _, f := range feats {
			if f == "rule-both-styles" || (f == "rule-other-namespace" && namespaced) {
				ok = false
			}
		}
		if ok {
			return rs, feats
		}
	}
}

func (g *c15Gen) c12cScenario(i int, seed uint64, faults []string) *c15Scenario {
	sc := g.base(i, seed, "customize-faults")
	sc.Ctl.Name = fmt.Sprintf("c12c%d", i%5)
	rs, feats := g.c12cGoodRules(sc.Ctl.ParentNamespaced)
	sc.Hook.Rules = rs
	sc.Features = append(sc.Features, feats...)
	for _, f := range faults {
		sc.Hook.Fail = append(sc.Hook.Fail, f)
		sc.Features = append(sc.Features, "customize-fails-"+f)
	}
	// every failed attempt, the sync that gets through, and one or two more of the same generation
	sc.Builds = []c15Build{{Steps: c15Syncs(len(faults) + 2 + g.r.Intn(2))}}
	sc.Wake = true
	return sc
}

func c12cGenerate(seed uint64, n int) []*c15Scenario {
	var out []*c15Scenario
	root := vh.NewRng(seed ^ 0xc12c)
	// corpus: every kind of fault once, alone
	for i, f := range c12cFaults {
		r, s := root.Fork()
		out = append(out, (&c15Gen{r: r}).c12cScenario(i, s, []string{f}))
	}
	for i := len(out); len(out) < n; i++ {
		r, s := root.Fork()
		g := &c15Gen{r: r}
		nf := 1 + r.Intn(3)
		var faults []string
		for j := 0; j < nf; j++ {
			faults = append(faults, r.Pick(c12cFaults))
		}
		out = append(out, g.c12cScenario(i, s, faults))
	}
	if n > 0 && len(out) > n {
		out = out[:n]
	}
	return out
}

func TestVerif_C12c(t *testing.T) {
	env := vh.GetEnv()
	if env.OutDir == "" {
		t.Skip("VERIF_OUT not set")
	}
	header := "From MC Require Import Check.C15_check.\nOpen Scope string_scope.\n"
	w, err := vh.NewCaseWriter(env.OutDir, "C12c", header, 25)
	if err != nil {
		t.Fatal(err)
	}
	var scs []*c15Scenario
	if env.Replay != "" {
		data, err := os.ReadFile(env.Replay)
		if err != nil {
			t.Fatal(err)
		}
		var rf struct {
			Case struct {
				Scenario *c15Scenario `json:"scenario"`
			} `json:"case"`
		}
		if err := k8sjson.Unmarshal(data, &rf); err != nil || rf.Case.Scenario == nil {
			t.Fatalf("cannot read replay: %v", err)
		}
		scs = append(scs, rf.Case.Scenario)
	} else {
		n := env.N
		if n == 0 {
			n = 100
		}
		scs = c12cGenerate(env.Seed, n)
	}
	for i, sc := range scs {
		rec, err := c15Run(sc)
		if err != nil {
			t.Fatalf("scenario %d: %v", i, err)
		}
		id := fmt.Sprintf("s%d", i)
		outcome := c15Outcome(rec)
		good := c15Normalize(J{"relatedResources": sc.c15RulesFor(0)})
		replay := J{"scenario": sc, "features": sc.Features, "outcome": outcome, "wakes": rec.Wakes}
		def := fmt.Sprintf("mkC12c (%s) %s", c15CoqCase(rec), vh.MustCoqJSON(good))
		if err := w.Add(id, def, "C12c_check", replay); err != nil {
			t.Fatal(err)
		}
		for _, f := range sc.Features {
			w.Count("feature-" + f)
		}
		through := false
		for _, b := range outcome {
			for _, l := range b {
				w.Count("step-" + strings.SplitN(l, " ", 2)[0])
				if strings.HasPrefix(l, "sync:done") && !strings.Contains(l, "hook=0") {
					through = true
				}
			}
		}
		if through {
			w.Count("sync-got-through-after-faults")
			w.NonTrivial(vh.Sig(strings.Join(sc.Features, ","), fmt.Sprint(outcome)))
		}
	}
	if err := w.Close(nil); err != nil {
		t.Fatal(err)
	}
}
