package composite

// Leg C09m of property C09 (run by TestVerif_C20 when VERIF_PROP=C09m): a
// metacontroller process is restarted in the middle of the life of a rolling
// parent while the shared ControllerRevision informer of the new process has
// not synced yet (its LIST is held).  The REAL composite Metacontroller.Reconcile
// and the hosted parentController it starts run over the simulated API server;
// the store survives the crash, the clients, caches and controllers do not.
//
// One history:
//   life A  create the CompositeController, let the hosted controller create the
//           children and record them in a ControllerRevision; optionally start a
//           rollout and stall it after the first child (two live revisions);
//           optionally edit the parent's spec just before the crash (the hook is
//           down, nothing is written for it) or while the process is down;
//   crash   stop everything, drop clients and caches;
//   life B  new clients over the same store, the LIST of controllerrevisions held;
//           Reconcile the CompositeController; watch what is done before the LIST
//           is released (early: at once; late: after a bounded quiet wait);
//           release; retry the Reconcile; let the rollout finish.

import (
	"context"
	"encoding/json"
	"fmt"
	"net/http"
	"os"
	"sort"
	"strings"
	"sync"
	"sync/atomic"
	"testing"
	"time"

	"github.com/go-logr/logr"
	apiextensionsv1 "k8s.io/apiextensions-apiserver/pkg/apis/apiextensions/v1"
	metav1 "k8s.io/apimachinery/pkg/apis/meta/v1"
	"k8s.io/apimachinery/pkg/labels"
	"k8s.io/apimachinery/pkg/types"
	k8sjson "k8s.io/apimachinery/pkg/util/json"
	"k8s.io/client-go/discovery"
	"k8s.io/client-go/rest"
	"k8s.io/client-go/tools/cache"
	"sigs.k8s.io/controller-runtime/pkg/reconcile"

	"metacontroller/pkg/apis/metacontroller/v1alpha1"
	mcclientset "metacontroller/pkg/client/generated/clientset/internalclientset"
	mcinformers "metacontroller/pkg/client/generated/informer/externalversions"
	"metacontroller/pkg/controller/common"
	dynamicclientset "metacontroller/pkg/dynamic/clientset"
	dynamicdiscovery "metacontroller/pkg/dynamic/discovery"
	dynamicinformer "metacontroller/pkg/dynamic/informer"
	vh "metacontroller/pkg/internal/verifh"
	sim "metacontroller/pkg/internal/verifsim"
)

type c09mVar struct {
	Children int    `json:"children"` // 2..4
	Method   string `json:"method"`   // RollingInPlace | RollingRecreate
	LiveRevs int    `json:"liveRevs"` // revisions holding children at the crash: 1 | 2
	Edit     string `json:"edit"`     // none | before (just before the crash, unseen) | down (while the process is down)
	Release  string `json:"release"`  // early | late
}

type c09mEvent struct {
	Kind     string   // hook | rev | child | other
	Verb     string   // create | update | delete | ...
	Name     string   // object name (rev, child) or kind (other)
	Children []string // rev: the children it records
}

type c09mRec struct {
	Latest          string
	Children        []string
	OutcomeUnsynced string
	RunningUnsynced bool
	SyncedAtReturn  bool // the informer had synced when the first Reconcile returned (the hold did not work)
	Before          []c09mEvent
	RevsCrash       map[string][]string
	RevsUnsynced    map[string][]string
	ImagesUnsynced  map[string]string
	OutcomeSynced   string
	RunningSynced   bool
	After           []c09mEvent
	RevsFinal       map[string][]string
	ImagesFinal     map[string]string
	Notes           []string
}

// holdTransport holds LIST and WATCH of controllerrevisions until released.
type c09mHold struct {
	inner   http.RoundTripper
	release chan struct{}
	once    sync.Once
}

func (h *c09mHold) RoundTrip(r *http.Request) (*http.Response, error) {
	if r.Method == "GET" && strings.HasSuffix(r.URL.Path, "/controllerrevisions") {
		<-h.release
	}
	return h.inner.RoundTrip(r)
}

func (h *c09mHold) open() { h.once.Do(func() { close(h.release) }) }

// one process life: clients, caches and the Metacontroller over a given store
type c09mLife struct {
	resources   *dynamicdiscovery.ResourceMap
	mc          *Metacontroller
	cli         *c20Client
	hold        *c09mHold
	revInformer cache.SharedIndexInformer
	stopCh      chan struct{}
}

func c09mNewLife(srv *sim.Server, held bool) *c09mLife {
	cfg := srv.RestConfig()
	resources := dynamicdiscovery.NewResourceMap(discovery.NewDiscoveryClientForConfigOrDie(cfg))
	resources.Start(time.Hour)
	for i := 0; !resources.HasSynced(); i++ {
		if i > 5000 {
			panic("discovery never synced")
		}
		time.Sleep(time.Millisecond)
	}
	dynClient, err := dynamicclientset.New(cfg, resources)
	if err != nil {
		panic(err)
	}
	hold := &c09mHold{inner: srv, release: make(chan struct{})}
	if !held {
		hold.open()
	}
	mcCfg := rest.CopyConfig(cfg)
	mcCfg.Transport = hold
	mcClient := mcclientset.NewForConfigOrDie(mcCfg)
	// as common.NewControllerContext + ControllerContext.Start do
	mcFactory := mcinformers.NewSharedInformerFactory(mcClient, time.Hour)
	revisions := mcFactory.Metacontroller().V1alpha1().ControllerRevisions()
	cli := &c20Client{objs: map[string]*v1alpha1.CompositeController{}, crds: map[string]*apiextensionsv1.CustomResourceDefinition{}, failGet: map[string]bool{}}
	l := &c09mLife{resources: resources, cli: cli, hold: hold, revInformer: revisions.Informer(), stopCh: make(chan struct{})}
	l.mc = &Metacontroller{
		k8sClient:         cli,
		resources:         resources,
		dynClient:         dynClient,
		dynInformers:      dynamicinformer.NewSharedInformerFactory(dynClient, time.Hour),
		eventRecorder:     vh.NoopRecorder{},
		mcClient:          mcClient,
		revisionLister:    revisions.Lister(),
		revisionInformer:  l.revInformer,
		parentControllers: map[string]*parentController{},
		numWorkers:        1,
		ssaOptions:        &common.ApplyOptions{FieldManager: "metacontroller", Strategy: common.ApplyStrategyDynamicApply},
		logger:            logr.Discard(),
	}
	mcFactory.Start(l.stopCh)
	return l
}

func (l *c09mLife) reconcile(name string) (out string) {
	defer func() {
		if p := recover(); p != nil {
			out = "panic"
		}
	}()
	if _, err := l.mc.Reconcile(context.Background(), reconcile.Request{NamespacedName: types.NamespacedName{Name: name}}); err != nil {
		return "error"
	}
	return "ok"
}

// die: the process goes away (hosted controllers stopped, caches dropped)
func (l *c09mLife) die(name string) {
	l.cli.mu.Lock()
	delete(l.cli.objs, name)
	l.cli.mu.Unlock()
	l.hold.open()
	l.reconcile(name)
	close(l.stopCh)
	l.resources.Stop()
}

func (l *c09mLife) put(name string, v c09mVar) {
	ready := "True"
	gs := true
	u := "http://hooks.test/" + name + "/1/sync"
	cc := &v1alpha1.CompositeController{
		TypeMeta:   metav1.TypeMeta{APIVersion: "metacontroller.k8s.io/v1alpha1", Kind: "CompositeController"},
		ObjectMeta: metav1.ObjectMeta{Name: name, Generation: 1, UID: types.UID("uid-" + name)},
	}
	cc.Spec.ParentResource.APIVersion = "ctl.example.com/v1"
	cc.Spec.ParentResource.Resource = "things"
	cc.Spec.GenerateSelector = &gs
	rule := v1alpha1.CompositeControllerChildResourceRule{}
	rule.APIVersion, rule.Resource = "v1", "pods"
	rule.UpdateStrategy = &v1alpha1.CompositeControllerChildUpdateStrategy{Method: v1alpha1.ChildUpdateMethod(v.Method)}
	rule.UpdateStrategy.StatusChecks.Conditions = []v1alpha1.StatusConditionCheck{{Type: "Ready", Status: &ready}}
	cc.Spec.ChildResources = append(cc.Spec.ChildResources, rule)
	cc.Spec.Hooks = &v1alpha1.CompositeControllerHooks{Sync: &v1alpha1.Hook{Webhook: &v1alpha1.Webhook{URL: &u}}}
	l.cli.mu.Lock()
	defer l.cli.mu.Unlock()
	l.cli.objs[name] = cc
	l.cli.crds["things.ctl.example.com"] = &apiextensionsv1.CustomResourceDefinition{
		ObjectMeta: metav1.ObjectMeta{Name: "things.ctl.example.com"},
		Spec: apiextensionsv1.CustomResourceDefinitionSpec{Group: "ctl.example.com",
			Versions: []apiextensionsv1.CustomResourceDefinitionVersion{{Name: "v1", Served: true, Storage: true,
				Subresources: &apiextensionsv1.CustomResourceSubresources{Status: &apiextensionsv1.CustomResourceSubresourceStatus{}}}}},
	}
}

// ---- one history ----

type c09mRun struct {
	name     string
	srv      *sim.Server
	mu       sync.Mutex
	hookFail bool
	hooks    []int // for every answered sync hook call: the length of the API log at that time
	failed   int   // hook calls refused while the hook was down
}

var c09mRuns sync.Map // controller name -> *c09mRun
var c09mOnce sync.Once

func c09mInstall() {
	c20Install()
	c09mOnce.Do(func() { hookTransport.Set(c09mAnswer) })
}

func c09mAnswer(rawURL string, hdr http.Header, req map[string]interface{}) (int, map[string]string, []byte, bool) {
	real, _, _, _, ok := c20ParseURL(rawURL)
	if !ok {
		return 500, nil, []byte("unknown hook"), false
	}
	rv, found := c09mRuns.Load(real)
	if !found {
		return 500, nil, []byte("no run"), false
	}
	run := rv.(*c09mRun)
	run.mu.Lock()
	fail := run.hookFail
	if fail {
		run.failed++
	}
	run.mu.Unlock()
	if fail {
		return 503, nil, []byte("hook is down"), false
	}
	seq := len(run.srv.Log())
	run.mu.Lock()
	run.hooks = append(run.hooks, seq)
	run.mu.Unlock()
	if atomic.AddInt64(&c20CallCount, 1)%256 == 0 {
		hookTransport.ResetCalls()
	}
	parent, _ := req["parent"].(map[string]interface{})
	spec, _ := parent["spec"].(map[string]interface{})
	image, _ := spec["image"].(string)
	n, _ := spec["replicas"].(int64)
	kids := []interface{}{}
	for i := 0; i < int(n); i++ {
		kids = append(kids, map[string]interface{}{"apiVersion": "v1", "kind": "Pod",
			"metadata": map[string]interface{}{"name": fmt.Sprintf("c-%d", i)},
			"spec":     map[string]interface{}{"image": image}})
	}
	body, _ := k8sjson.Marshal(map[string]interface{}{"status": map[string]interface{}{"ok": true}, "children": kids})
	return 200, nil, body, false
}

// pump announces every accepted write to the open watches, as an API server does (the
// simulator leaves that to its user).
func (r *c09mRun) pump(stop chan struct{}) {
	idx := 0
	for {
		select {
		case <-stop:
			return
		default:
		}
		log := r.srv.Log()
		if len(log) < idx {
			idx = 0
		}
		for ; idx < len(log); idx++ {
			e := log[idx]
			if e.Code >= 300 || e.Verb == "get" || e.Verb == "list" || e.Verb == "watch" {
				continue
			}
			switch {
			case e.Verb == "create" && e.Post != nil:
				r.srv.Emit("ADDED", e.Post)
			case e.Post == nil && e.Pre != nil:
				r.srv.Emit("DELETED", e.Pre)
			case e.Post != nil:
				r.srv.Emit("MODIFIED", e.Post)
			}
		}
		time.Sleep(300 * time.Microsecond)
	}
}

func (r *c09mRun) setHookFail(b bool) {
	r.mu.Lock()
	r.hookFail = b
	r.mu.Unlock()
}

func (r *c09mRun) counters() (hooks, failed int) {
	r.mu.Lock()
	defer r.mu.Unlock()
	return len(r.hooks), r.failed
}

func (r *c09mRun) reset() {
	r.srv.ResetLog()
	r.mu.Lock()
	r.hooks = nil
	r.mu.Unlock()
}

func c09mWait(timeout time.Duration, cond func() bool) bool {
	for t0 := time.Now(); ; {
		if cond() {
			return true
		}
		if time.Since(t0) > timeout {
			return false
		}
		time.Sleep(2 * time.Millisecond)
	}
}

// quiet: no API request and no hook call for d
func (r *c09mRun) quiet(d, timeout time.Duration) bool {
	last, lastAt := -1, time.Now()
	return c09mWait(timeout, func() bool {
		h, f := r.counters()
		cur := len(r.srv.Log()) + h + f
		if cur != last {
			last, lastAt = cur, time.Now()
			return false
		}
		return time.Since(lastAt) >= d
	})
}

func (r *c09mRun) pods() map[string]map[string]interface{} {
	out := map[string]map[string]interface{}{}
	for _, o := range r.srv.AllLive() {
		if o["kind"] == "Pod" {
			md, _ := o["metadata"].(map[string]interface{})
			n, _ := md["name"].(string)
			out[n] = o
		}
	}
	return out
}

func c09mImage(o map[string]interface{}) string {
	spec, _ := o["spec"].(map[string]interface{})
	img, _ := spec["image"].(string)
	return img
}

func (r *c09mRun) images() map[string]string {
	out := map[string]string{}
	for n, o := range r.pods() {
		out[n] = c09mImage(o)
	}
	return out
}

func c09mRevChildren(o map[string]interface{}) []string {
	var out []string
	kids, _ := o["children"].([]interface{})
	for _, k := range kids {
		km, _ := k.(map[string]interface{})
		names, _ := km["names"].([]interface{})
		for _, n := range names {
			if s, ok := n.(string); ok {
				out = append(out, s)
			}
		}
	}
	sort.Strings(out)
	return out
}

func (r *c09mRun) revs() map[string][]string {
	out := map[string][]string{}
	for _, o := range r.srv.AllLive() {
		if o["kind"] == "ControllerRevision" {
			md, _ := o["metadata"].(map[string]interface{})
			n, _ := md["name"].(string)
			out[n] = c09mRevChildren(o)
		}
	}
	return out
}

func c09mPodReady(o map[string]interface{}) bool {
	st, _ := o["status"].(map[string]interface{})
	conds, _ := st["conditions"].([]interface{})
	for _, c := range conds {
		cm, _ := c.(map[string]interface{})
		if cm["type"] == "Ready" && cm["status"] == "True" {
			return true
		}
	}
	return false
}

// setReady edits the status of pods in the store (as a kubelet would) and announces it
func (r *c09mRun) setReady(ready bool) {
	for _, o := range r.pods() {
		if c09mPodReady(o) == ready {
			continue
		}
		val := "False"
		if ready {
			val = "True"
		}
		o["status"] = map[string]interface{}{"conditions": []interface{}{map[string]interface{}{"type": "Ready", "status": val}}}
		md := o["metadata"].(map[string]interface{})
		delete(md, "resourceVersion")
		r.srv.Emit("MODIFIED", r.srv.Seed(o))
	}
}

func (r *c09mRun) touchPods() {
	for _, o := range r.pods() {
		md := o["metadata"].(map[string]interface{})
		delete(md, "resourceVersion")
		r.srv.Emit("MODIFIED", r.srv.Seed(o))
	}
}

func (r *c09mRun) editParent(image string) {
	o := r.srv.GetLive("ctl.example.com/v1", "Thing", "ns1", "roll")
	spec := o["spec"].(map[string]interface{})
	spec["image"] = image
	md := o["metadata"].(map[string]interface{})
	gen, _ := md["generation"].(int64)
	md["generation"] = gen + 1
	delete(md, "resourceVersion")
	r.srv.Emit("MODIFIED", r.srv.Seed(o))
}

// events: hook calls and accepted writes since the last reset, in order; cut = API log length at the release
func (r *c09mRun) events(cutSeq int) (before, after []c09mEvent) {
	log := r.srv.Log()
	r.mu.Lock()
	hooks := append([]int(nil), r.hooks...)
	r.mu.Unlock()
	hi := 0
	add := func(seq int, e c09mEvent) {
		if seq < cutSeq {
			before = append(before, e)
		} else {
			after = append(after, e)
		}
	}
	for i, e := range log {
		for hi < len(hooks) && hooks[hi] <= i {
			add(hooks[hi], c09mEvent{Kind: "hook"})
			hi++
		}
		if e.Verb == "get" || e.Verb == "list" || e.Verb == "watch" || e.Code >= 300 {
			continue
		}
		switch e.Kind {
		case "ControllerRevision":
			ev := c09mEvent{Kind: "rev", Verb: e.Verb, Name: e.Name}
			if b, ok := e.Body.(map[string]interface{}); ok {
				ev.Children = c09mRevChildren(b)
				if ev.Name == "" {
					md, _ := b["metadata"].(map[string]interface{})
					ev.Name, _ = md["name"].(string)
				}
			}
			add(i, ev)
		case "Pod":
			name := e.Name
			if b, ok := e.Body.(map[string]interface{}); ok && name == "" {
				md, _ := b["metadata"].(map[string]interface{})
				name, _ = md["name"].(string)
			}
			add(i, c09mEvent{Kind: "child", Verb: e.Verb, Name: name})
		default:
			add(i, c09mEvent{Kind: "other", Verb: e.Verb, Name: e.Kind})
		}
	}
	for ; hi < len(hooks); hi++ {
		add(hooks[hi], c09mEvent{Kind: "hook"})
	}
	return before, after
}

func c09mRunCase(slot int, v c09mVar) *c09mRec {
	c09mInstall()
	name := fmt.Sprintf("c09m%d", slot)
	srv := sim.NewServer(simResources)
	run := &c09mRun{name: name, srv: srv}
	c09mRuns.Store(name, run)
	stopPump := make(chan struct{})
	go run.pump(stopPump)
	defer close(stopPump)
	rec := &c09mRec{}
	note := func(f string, a ...interface{}) { rec.Notes = append(rec.Notes, fmt.Sprintf(f, a...)) }
	for i := 0; i < v.Children; i++ {
		rec.Children = append(rec.Children, fmt.Sprintf("c-%d", i))
	}
	srv.Seed(map[string]interface{}{"apiVersion": "v1", "kind": "Namespace", "metadata": map[string]interface{}{"name": "ns1"}})
	srv.Seed(map[string]interface{}{"apiVersion": "ctl.example.com/v1", "kind": "Thing",
		"metadata": map[string]interface{}{"name": "roll", "namespace": "ns1", "generation": int64(1)},
		"spec":     map[string]interface{}{"image": "v1", "replicas": int64(v.Children)}})

	// ---- life A ----
	a := c09mNewLife(srv, false)
	c09mWait(5*time.Second, a.revInformer.HasSynced)
	a.put(name, v)
	if out := a.reconcile(name); out != "ok" {
		note("life A: reconcile %s", out)
	}
	if !c09mWait(5*time.Second, func() bool { return len(run.pods()) == v.Children && len(run.revs()) == 1 }) {
		note("life A: children were not created")
	}
	run.setReady(true)
	run.quiet(150*time.Millisecond, 3*time.Second)
	current := "v1"
	if os.Getenv("VERIF_C20_DEBUG") != "" {
		l, err := a.mc.revisionLister.List(labels.Everything())
		note("debug: lister has %d revisions (err %v), store has %d, watches %d", len(l), err, len(run.revs()), srv.WatchCount("metacontroller.k8s.io/v1alpha1", "ControllerRevision"))
	}
	if v.LiveRevs == 2 {
		// start a rollout and stall it after the first child: nothing in the new revision is ready
		run.setReady(false)
		run.quiet(100*time.Millisecond, 3*time.Second)
		run.editParent("v2")
		current = "v2"
		if !c09mWait(5*time.Second, func() bool {
			moved := 0
			for _, img := range run.images() {
				if img == "v2" {
					moved++
				}
			}
			return moved == 1 && len(run.revs()) == 2
		}) {
			note("life A: the rollout did not reach one moved child: %v %v", run.images(), run.revs())
		}
		run.quiet(200*time.Millisecond, 3*time.Second)
	}
	rec.Latest = current
	switch v.Edit {
	case "before":
		// the spec changes just before the crash: the process sees it but, its hook being down, writes nothing for it
		run.setHookFail(true)
		_, f0 := run.counters()
		run.editParent("v9")
		c09mWait(3*time.Second, func() bool { _, f := run.counters(); return f > f0 })
		a.die(name)
		run.setHookFail(false)
		rec.Latest = "v9"
	case "down":
		a.die(name)
		run.editParent("v9")
		rec.Latest = "v9"
	default:
		a.die(name)
	}
	rec.RevsCrash = run.revs()

	// ---- life B: the ControllerRevision LIST is held ----
	b := c09mNewLife(srv, true)
	b.put(name, v)
	run.reset()
	rec.OutcomeUnsynced = b.reconcile(name)
	rec.SyncedAtReturn = b.revInformer.HasSynced()
	_, rec.RunningUnsynced = b.mc.parentControllers[name]
	if v.Release == "late" {
		if rec.RunningUnsynced {
			// bounded: until the hosted controller has had its say and fallen silent
			c09mWait(1500*time.Millisecond, func() bool { h, _ := run.counters(); return h > 0 })
			run.quiet(250*time.Millisecond, 1500*time.Millisecond)
		} else {
			run.quiet(100*time.Millisecond, 500*time.Millisecond)
		}
	}
	if b.revInformer.HasSynced() {
		note("the ControllerRevision informer synced although its LIST was held")
	}
	rec.RevsUnsynced = run.revs()
	rec.ImagesUnsynced = run.images()
	cut := len(srv.Log())
	b.hold.open()
	if !c09mWait(5*time.Second, b.revInformer.HasSynced) {
		note("life B: the ControllerRevision informer never synced")
	}
	// controller-runtime retries a failed reconcile; an object event would bring a successful one back too
	rec.OutcomeSynced = b.reconcile(name)
	_, rec.RunningSynced = b.mc.parentControllers[name]
	// let the rollout run to its end: children become ready as they come
	done := func() bool {
		revs := run.revs()
		if len(revs) != 1 {
			return false
		}
		imgs := run.images()
		if len(imgs) != v.Children {
			return false
		}
		for _, img := range imgs {
			if img != rec.Latest {
				return false
			}
		}
		return true
	}
	deadline := time.Now().Add(8 * time.Second)
	lastTouch := time.Now()
	for time.Now().Before(deadline) {
		run.setReady(true)
		if done() && run.quiet(200*time.Millisecond, 400*time.Millisecond) && done() {
			break
		}
		if time.Since(lastTouch) > 120*time.Millisecond {
			// the simulator's watch does not replay what happened between an informer's
			// LIST and its WATCH: announce the children again (new resourceVersion, same content)
			run.touchPods()
			lastTouch = time.Now()
		}
		time.Sleep(10 * time.Millisecond)
	}
	rec.Before, rec.After = run.events(cut)
	rec.RevsFinal = run.revs()
	rec.ImagesFinal = run.images()
	b.die(name)
	srv.Close()
	return rec
}

// ---- Coq term ----

func c09mCoqEvents(evs []c09mEvent) string {
	parts := make([]string, len(evs))
	for i, e := range evs {
		switch e.Kind {
		case "hook":
			parts[i] = "C9Hook"
		case "rev":
			parts[i] = fmt.Sprintf("(C9RevWrite %s %s %s)", vh.MustCoqString(e.Verb), vh.MustCoqString(e.Name), vh.CoqStringList(e.Children))
		case "child":
			parts[i] = fmt.Sprintf("(C9ChildWrite %s %s)", vh.MustCoqString(e.Verb), vh.MustCoqString(e.Name))
		default:
			parts[i] = fmt.Sprintf("(C9Other %s %s)", vh.MustCoqString(e.Verb), vh.MustCoqString(e.Name))
		}
	}
	return "[" + strings.Join(parts, "; ") + "]"
}

func c09mCoqRevs(m map[string][]string) string {
	names := []string{}
	for n := range m {
		names = append(names, n)
	}
	sort.Strings(names)
	parts := []string{}
	for _, n := range names {
		parts = append(parts, fmt.Sprintf("(%s, %s)", vh.MustCoqString(n), vh.CoqStringList(m[n])))
	}
	return "[" + strings.Join(parts, "; ") + "]"
}

func c09mCoqCase(r *c09mRec) string {
	out := map[string]string{"ok": "ROk", "error": "RErr", "panic": "RPanic"}
	names := []string{}
	for n := range r.ImagesFinal {
		names = append(names, n)
	}
	sort.Strings(names)
	imgs := []string{}
	for _, n := range names {
		imgs = append(imgs, fmt.Sprintf("(%s, %s)", vh.MustCoqString(n), vh.MustCoqString(r.ImagesFinal[n])))
	}
	return fmt.Sprintf("(mkC09m %s %s %s %s %s %s %s %s %s %s [%s])",
		vh.MustCoqString(r.Latest), vh.CoqStringList(r.Children),
		out[r.OutcomeUnsynced], vh.CoqBool(r.RunningUnsynced), c09mCoqEvents(r.Before), c09mCoqRevs(r.RevsUnsynced),
		out[r.OutcomeSynced], vh.CoqBool(r.RunningSynced), c09mCoqEvents(r.After), c09mCoqRevs(r.RevsFinal), strings.Join(imgs, "; "))
}

// ---- the leg ----

func c09mVariations(seed uint64, n int, tier string) []c09mVar {
	var all []c09mVar
	for _, edit := range []string{"down", "before", "none"} {
		for _, rel := range []string{"late", "early"} {
			for _, live := range []int{1, 2} {
				for _, m := range []string{"RollingInPlace", "RollingRecreate"} {
					for k := 2; k <= 4; k++ {
						all = append(all, c09mVar{Children: k, Method: m, LiveRevs: live, Edit: edit, Release: rel})
					}
				}
			}
		}
	}
	// a seeded order; the first variation is always the plainest witness
	rng := vh.NewRng(seed ^ 0xc09)
	for i := len(all) - 1; i > 1; i-- {
		j := 1 + rng.Intn(i)
		all[i], all[j] = all[j], all[i]
	}
	all[0], all[1] = c09mVar{Children: 3, Method: "RollingInPlace", LiveRevs: 1, Edit: "down", Release: "late"}, all[0]
	if tier != "thorough" && n > 0 && n < len(all) {
		all = all[:n]
	}
	return all
}

func c09mMain(t *testing.T) {
	env := vh.GetEnv()
	if env.OutDir == "" {
		t.Skip("VERIF_OUT not set")
	}
	header := "From MC Require Import Check.C20_check.\nOpen Scope string_scope.\n"
	w, err := vh.NewCaseWriter(env.OutDir, "C09m", header, 40)
	if err != nil {
		t.Fatal(err)
	}
	var vars []c09mVar
	if env.Replay != "" {
		data, err := os.ReadFile(env.Replay)
		if err != nil {
			t.Fatal(err)
		}
		var rf struct {
			Case struct {
				Case *c09mVar `json:"case"`
			} `json:"case"`
		}
		if err := json.Unmarshal(data, &rf); err != nil || rf.Case.Case == nil {
			t.Fatalf("cannot read replay: %v", err)
		}
		vars = append(vars, *rf.Case.Case)
	} else {
		vars = c09mVariations(env.Seed, env.N, env.Tier)
	}
	recs := make([]*c09mRec, len(vars))
	slots := 8
	if len(vars) < slots {
		slots = len(vars)
	}
	var next int64 = -1
	var wg sync.WaitGroup
	for s := 0; s < slots; s++ {
		wg.Add(1)
		go func(slot int) {
			defer wg.Done()
			for {
				i := int(atomic.AddInt64(&next, 1))
				if i >= len(vars) {
					return
				}
				recs[i] = c09mRunCase(slot, vars[i])
			}
		}(s)
	}
	wg.Wait()
	for i, v := range vars {
		r := recs[i]
		features := []string{"edit-" + v.Edit, "release-" + v.Release, fmt.Sprintf("live-revisions-%d", v.LiveRevs), v.Method}
		trace := map[string]interface{}{
			"reconcileWhileUnsynced": r.OutcomeUnsynced, "hostedWhileUnsynced": r.RunningUnsynced,
			"revisionsAtCrash": r.RevsCrash, "doneBeforeCacheSynced": c09mTrace(r.Before),
			"revisionsBeforeCacheSynced": r.RevsUnsynced, "imagesBeforeCacheSynced": r.ImagesUnsynced,
			"revisionsFinal": r.RevsFinal, "imagesFinal": r.ImagesFinal, "notes": r.Notes,
		}
		replay := map[string]interface{}{"case": v, "features": features, "trace": trace}
		if err := w.Add(fmt.Sprintf("r%d", i), c09mCoqCase(r), "C09m_check", replay); err != nil {
			t.Fatal(err)
		}
		for _, f := range features {
			w.Count(f)
		}
		w.Count(fmt.Sprintf("children-%d", v.Children))
		w.Count("reconcile-while-unsynced-" + r.OutcomeUnsynced)
		if len(r.Before) > 0 {
			w.Count("activity-before-cache-synced")
		}
		if len(r.Notes) > 0 {
			w.Count("harness-note")
		}
		// non-trivial: the restarted process had a rollout to carry on (some child was not at the latest image)
		w.NonTrivial(fmt.Sprintf("%+v|%s|%d|%d", v, r.OutcomeUnsynced, len(r.Before), len(r.After)))
	}
	if err := w.Close(nil); err != nil {
		t.Fatal(err)
	}
}

func c09mTrace(evs []c09mEvent) []string {
	out := []string{}
	for _, e := range evs {
		switch e.Kind {
		case "hook":
			out = append(out, "hook")
		case "rev":
			out = append(out, fmt.Sprintf("%s revision %s %v", e.Verb, e.Name, e.Children))
		default:
			out = append(out, fmt.Sprintf("%s %s %s", e.Verb, e.Kind, e.Name))
		}
	}
	return out
}
