package composite

// Harness: builds the real parentController over the simulated API server
// and scripted hook transport, runs real syncs, records what happened.

import (
	"context"
	"encoding/json"
	"fmt"
	"reflect"
	"net/http"
	"sort"

	"k8s.io/apimachinery/pkg/labels"
	"sync"
	"time"

	"github.com/go-logr/logr"
	metav1 "k8s.io/apimachinery/pkg/apis/meta/v1"
	"k8s.io/apimachinery/pkg/runtime"
	utilruntime "k8s.io/apimachinery/pkg/util/runtime"
	"k8s.io/client-go/discovery"
	"k8s.io/client-go/tools/cache"

	"metacontroller/pkg/apis/metacontroller/v1alpha1"
	mcclientset "metacontroller/pkg/client/generated/clientset/internalclientset"
	mclisters "metacontroller/pkg/client/generated/lister/metacontroller/v1alpha1"
	"metacontroller/pkg/controller/common"
	dynamicclientset "metacontroller/pkg/dynamic/clientset"
	dynamicdiscovery "metacontroller/pkg/dynamic/discovery"
	dynamicinformer "metacontroller/pkg/dynamic/informer"
	vh "metacontroller/pkg/internal/verifh"
	sim "metacontroller/pkg/internal/verifsim"
	"metacontroller/pkg/logging"
)

var simResources = []sim.Resource{
	{Group: "ctl.example.com", Version: "v1", Resource: "things", Kind: "Thing", Namespaced: true, HasStatus: true},
	{Group: "ctl.example.com", Version: "v1", Resource: "clusterthings", Kind: "ClusterThing", Namespaced: false, HasStatus: true},
	{Group: "ctl.example.com", Version: "v1", Resource: "plainthings", Kind: "PlainThing", Namespaced: true, HasStatus: false}, // a parent kind without the status subresource
	{Group: "", Version: "v1", Resource: "pods", Kind: "Pod", Namespaced: true, HasStatus: true},
	{Group: "apps.example.com", Version: "v1", Resource: "widgets", Kind: "Widget", Namespaced: true, HasStatus: false},
	{Group: "apps.example.com", Version: "v2", Resource: "widgets", Kind: "Widget", Namespaced: true, HasStatus: false}, // the same resource at another version (its own objects here)
	{Group: "", Version: "v1", Resource: "namespaces", Kind: "Namespace", Namespaced: false, HasStatus: true},
	{Group: "serving.example.com", Version: "v1", Resource: "pods", Kind: "Pod", Namespaced: true, HasStatus: true}, // the core Pod's namesake in a named group
	{Group: "metacontroller.k8s.io", Version: "v1alpha1", Resource: "controllerrevisions", Kind: "ControllerRevision", Namespaced: true, HasStatus: false},
}

func resByKind(apiVersion, kind string) *sim.Resource {
	for i := range simResources {
		r := &simResources[i]
		if r.APIVersion() == apiVersion && r.Kind == kind {
			return r
		}
	}
	return nil
}

func resByResource(apiVersion, resource string) *sim.Resource {
	for i := range simResources {
		r := &simResources[i]
		if r.APIVersion() == apiVersion && r.Resource == resource {
			return r
		}
	}
	return nil
}

var hookTransport = &vh.HookTransport{}
var hookOnce sync.Once

var lastSyncErrors []string
var lastSyncErrorsMu sync.Mutex

func installHookTransport() {
	hookOnce.Do(func() {
		http.DefaultTransport = hookTransport
		logging.Logger = logr.Discard()
		utilruntime.ErrorHandlers = []utilruntime.ErrorHandler{func(_ context.Context, err error, msg string, kv ...interface{}) {
			lastSyncErrorsMu.Lock()
			lastSyncErrors = append(lastSyncErrors, err.Error())
			lastSyncErrorsMu.Unlock()
		}}
	})
}

// cworld is one simulated cluster with the clients the controllers use.
type cworld struct {
	revView []map[string]interface{} // when set: what the ControllerRevision lister shows instead of the live store (a lister that lags)
	srv       *sim.Server
	resources *dynamicdiscovery.ResourceMap
	dynClient *dynamicclientset.Clientset
	mcClient  mcclientset.Interface
}

func newWorld() *cworld { return newWorldWith(false) }

// newWorldWith: subFirst makes discovery list every "x/status" entry before "x"
func newWorldWith(subFirst bool) *cworld {
	installHookTransport()
	srv := sim.NewServer(simResources)
	srv.SubresourcesFirst = subFirst
	cfg := srv.RestConfig()
	resources := dynamicdiscovery.NewResourceMap(discovery.NewDiscoveryClientForConfigOrDie(cfg))
	resources.Start(time.Hour)
	for i := 0; !resources.HasSynced(); i++ {
		if i > 5000 {
			panic("discovery never synced")
		}
		time.Sleep(time.Millisecond)
	}
	dynClient, err := dynamicclientset.New(cfg, resources)
	if err != nil {
		panic(err)
	}
	return &cworld{srv: srv, resources: resources, dynClient: dynClient, mcClient: mcclientset.NewForConfigOrDie(cfg)}
}

func (w *cworld) close() {
	w.resources.Stop()
	w.srv.Close()
}

// ---- controller construction ----

type condCheck struct {
	Type   string  `json:"type"`
	Status *string `json:"status"`
	Reason *string `json:"reason"`
}

type kidSpec struct {
	APIVersion string      `json:"apiVersion"`
	Resource   string      `json:"resource"`
	Kind       string      `json:"kind"`
	Namespaced bool        `json:"namespaced"`
	Method     string      `json:"method"`
	Checks     []condCheck `json:"checks"`
	EmptyStrategy bool     `json:"emptyStrategy"` // an updateStrategy block without a method (the CRD allows it)
}

type ctlSpec struct {
	Name             string            `json:"name"`
	ParentAPIVersion string            `json:"parentApiVersion"`
	ParentResource   string            `json:"parentResource"`
	ParentKind       string            `json:"parentKind"`
	ParentNamespaced bool              `json:"parentNamespaced"`
	GenSelector      bool              `json:"generateSelector"`
	Finalize         bool              `json:"finalize"`
	NoSync           bool              `json:"noSync"`
	CtlSelector      map[string]string `json:"ctlSelector"` // parentResource.labelSelector.matchLabels; nil = unset
	Kids             []kidSpec         `json:"kids"`
	SSA              bool              `json:"ssa"`
	FieldPaths       []string          `json:"fieldPaths"`
	Customize        bool              `json:"customize"`
}

func (s *ctlSpec) compositeController() *v1alpha1.CompositeController {
	cc := &v1alpha1.CompositeController{
		TypeMeta:   metav1.TypeMeta{APIVersion: "metacontroller.k8s.io/v1alpha1", Kind: "CompositeController"},
		ObjectMeta: metav1.ObjectMeta{Name: s.Name},
	}
	cc.Spec.ParentResource.APIVersion = s.ParentAPIVersion
	cc.Spec.ParentResource.Resource = s.ParentResource
	if s.CtlSelector != nil {
		cc.Spec.ParentResource.LabelSelector = &metav1.LabelSelector{MatchLabels: s.CtlSelector}
	}
	if len(s.FieldPaths) > 0 {
		cc.Spec.ParentResource.RevisionHistory = &v1alpha1.CompositeControllerRevisionHistory{FieldPaths: s.FieldPaths}
	}
	gs := s.GenSelector
	cc.Spec.GenerateSelector = &gs
	for _, k := range s.Kids {
		rule := v1alpha1.CompositeControllerChildResourceRule{}
		rule.APIVersion = k.APIVersion
		rule.Resource = k.Resource
		if k.Method != "" || k.EmptyStrategy {
			rule.UpdateStrategy = &v1alpha1.CompositeControllerChildUpdateStrategy{Method: v1alpha1.ChildUpdateMethod(k.Method)}
			for _, c := range k.Checks {
				rule.UpdateStrategy.StatusChecks.Conditions = append(rule.UpdateStrategy.StatusChecks.Conditions,
					v1alpha1.StatusConditionCheck{Type: c.Type, Status: c.Status, Reason: c.Reason})
			}
		}
		cc.Spec.ChildResources = append(cc.Spec.ChildResources, rule)
	}
	hooks := &v1alpha1.CompositeControllerHooks{}
	mk := func(path string) *v1alpha1.Hook {
		u := "http://hooks.test/" + s.Name + "/" + path
		return &v1alpha1.Hook{Webhook: &v1alpha1.Webhook{URL: &u}}
	}
	if !s.NoSync {
		hooks.Sync = mk("sync")
	}
	if s.Finalize {
		hooks.Finalize = mk("finalize")
	}
	if s.Customize {
		hooks.Customize = mk("customize")
	}
	cc.Spec.Hooks = hooks
	return cc
}

// listRevisions returns the ControllerRevisions as the LIST view serves them (the informer's content).
// cachedRevisions: what the controller's ControllerRevision lister holds
func (w *cworld) cachedRevisions() []map[string]interface{} {
	if w.revView != nil {
		return w.revView
	}
	return w.listRevisions()
}

func (w *cworld) listRevisions() []map[string]interface{} {
	rc, err := w.dynClient.Resource("metacontroller.k8s.io/v1alpha1", "controllerrevisions")
	if err != nil {
		return nil
	}
	l, err := rc.List(context.TODO(), metav1.ListOptions{})
	if err != nil {
		return nil
	}
	var out []map[string]interface{}
	for i := range l.Items {
		out = append(out, l.Items[i].Object)
	}
	return out
}

type builtPC struct {
	pc          *parentController
	queue       *vh.RecQueue
	revIndexer  cache.Indexer
	revSnapshot []string
}

// revDump serialises the typed ControllerRevisions held by the lister's indexer.
func (b *builtPC) revDump() []string {
	var out []string
	for _, o := range b.revIndexer.List() {
		data, _ := json.Marshal(o)
		out = append(out, string(data))
	}
	sort.Strings(out)
	return out
}

var ctlCounter int

// buildPC constructs a fresh controller whose informers list from the
// simulator's current list views, and waits until they are synced.
func (w *cworld) buildPC(s *ctlSpec) (*builtPC, error) {
	dynInformers := dynamicinformer.NewSharedInformerFactory(w.dynClient, time.Hour)
	revIndexer := cache.NewIndexer(cache.MetaNamespaceKeyFunc, cache.Indexers{cache.NamespaceIndex: cache.MetaNamespaceIndexFunc})
	for _, o := range w.cachedRevisions() {
		cr := &v1alpha1.ControllerRevision{}
		if err := runtime.DefaultUnstructuredConverter.FromUnstructured(o, cr); err == nil {
			revIndexer.Add(cr)
		}
	}
	strategy := common.ApplyStrategyDynamicApply
	if s.SSA {
		strategy = common.ApplyStrategyServerSideApply
	}
	cc := s.compositeController()
	// the metrics registry refuses a second collector for the same (controller, hook, url)
	pc, err := newParentController(w.resources, w.dynClient, dynInformers, vh.NoopRecorder{}, w.mcClient,
		sortedRevLister{mclisters.NewControllerRevisionLister(revIndexer)}, cc, 1,
		&common.ApplyOptions{FieldManager: "metacontroller", Strategy: strategy}, logr.Discard())
	if err != nil {
		return nil, err
	}
	q := &vh.RecQueue{}
	pc.queue = q
	syncs := []cache.InformerSynced{pc.parentInformer.Informer().HasSynced}
	for _, ci := range pc.childInformers {
		syncs = append(syncs, ci.Informer().HasSynced)
	}
	deadline := time.Now().Add(10 * time.Second)
	for _, f := range syncs {
		for !f() {
			if time.Now().After(deadline) {
				return nil, fmt.Errorf("informers never synced")
			}
			time.Sleep(200 * time.Microsecond)
		}
	}
	bp := &builtPC{pc: pc, queue: q, revIndexer: revIndexer}
	bp.revSnapshot = bp.revDump()
	return bp, nil
}

func (b *builtPC) close() {
	for _, ci := range b.pc.childInformers {
		ci.Close()
	}
	b.pc.parentInformer.Close()
	b.pc.customize.Stop()
}

// ---- one recorded sync ----

type event struct {
	API  *sim.LogEntry
	Hook *vh.HookCall
}

type roundRec struct {
	CacheParent   map[string]interface{}
	CacheChildren map[string][]map[string]interface{} // res key -> objects
	Events        []event
	Result        string // done | err | requeue | panic
	RequeueAfter  int64
	Queue         []vh.QueueOp
	PanicMsg      string
	Key           string
	CacheMutated  string // "" or which cached object changed during the sync
}

func resKey(resource, apiVersion string) string { return resource + "." + apiVersion }

// runSync runs the real pc.sync(key) and gathers the round record.
func (w *cworld) runSync(s *ctlSpec, b *builtPC, key string) *roundRec {
	rec := &roundRec{CacheChildren: map[string][]map[string]interface{}{}, Key: key}
	// what the caches hold
	ns, name, _ := cache.SplitMetaNamespaceKey(key)
	if p, err := common.GetObject(b.pc.parentInformer, ns, name); err == nil {
		rec.CacheParent = runtime.DeepCopyJSON(p.Object)
	}
	for _, k := range s.Kids {
		var objs []map[string]interface{}
		for gvr, ci := range b.pc.childInformers {
			if gvr.Resource == k.Resource && gvr.GroupVersion().String() == k.APIVersion {
				for _, o := range ci.Informer().GetIndexer().List() {
					objs = append(objs, runtime.DeepCopyJSON(o.(interface{ UnstructuredContent() map[string]interface{} }).UnstructuredContent()))
				}
			}
		}
		sort.Slice(objs, func(i, j int) bool { return objKey(objs[i]) < objKey(objs[j]) })
		rec.CacheChildren[resKey(k.Resource, k.APIVersion)] = objs
	}
	revs := w.cachedRevisions()
	sort.Slice(revs, func(i, j int) bool { return objKey(revs[i]) < objKey(revs[j]) })
	rec.CacheChildren["controllerrevisions.metacontroller.k8s.io/v1alpha1"] = revs
	w.srv.ResetLog()
	hookTransport.ResetCalls()
	b.queue.Reset()
	var hookAt []int
	var mu sync.Mutex
	_ = mu
	func() {
		defer func() {
			if r := recover(); r != nil {
				rec.Result = "panic"
				rec.PanicMsg = fmt.Sprint(r)
			}
		}()
		// the real worker step: Get, sync, then AddRateLimited / Forget, Done
		lastSyncErrorsMu.Lock()
		lastSyncErrors = nil
		lastSyncErrorsMu.Unlock()
		b.queue.Push(key)
		b.pc.processNextWorkItem()
	}()
	lastSyncErrorsMu.Lock()
	if len(lastSyncErrors) > 0 && rec.PanicMsg == "" {
		rec.PanicMsg = lastSyncErrors[0]
	}
	lastSyncErrorsMu.Unlock()
	// C17 oracle: nothing a sync does may change an object held in the shared caches
	if p, err := common.GetObject(b.pc.parentInformer, ns, name); err == nil && rec.CacheParent != nil {
		if !reflect.DeepEqual(p.Object, rec.CacheParent) {
			rec.CacheMutated = "parent"
		}
	}
	for _, k := range s.Kids {
		for gvr, ci := range b.pc.childInformers {
			if gvr.Resource == k.Resource && gvr.GroupVersion().String() == k.APIVersion {
				var objs []map[string]interface{}
				for _, o := range ci.Informer().GetIndexer().List() {
					objs = append(objs, o.(interface{ UnstructuredContent() map[string]interface{} }).UnstructuredContent())
				}
				sort.Slice(objs, func(i, j int) bool { return objKey(objs[i]) < objKey(objs[j]) })
				if !reflect.DeepEqual(objs, rec.CacheChildren[resKey(k.Resource, k.APIVersion)]) && !(len(objs) == 0 && len(rec.CacheChildren[resKey(k.Resource, k.APIVersion)]) == 0) {
					rec.CacheMutated = "child " + k.Kind
				}
			}
		}
	}
	if b.revSnapshot != nil {
		now := b.revDump()
		if !reflect.DeepEqual(now, b.revSnapshot) {
			rec.CacheMutated = "ControllerRevision"
		}
	}
	rec.Queue = b.queue.Snapshot()
	if rec.Result != "panic" {
		rec.Result = "done"
		for _, op := range rec.Queue {
			if op.Op == "AddRateLimited" {
				rec.Result = "err"
			}
		}
		if rec.Result == "done" && requeue429(hookTransport.Calls()) {
			for _, op := range rec.Queue {
				if op.Op == "AddAfter" && op.Key == key {
					rec.Result = "requeue"
					rec.RequeueAfter = int64(op.Delay / time.Second)
				}
			}
		}
	}
	_ = hookAt
	// merge API log and hook calls by the order in which they happened
	apiLog := w.srv.Log()
	calls := hookTransport.Calls()
	hi := 0
	for i := range apiLog {
		e := apiLog[i]
		if e.Verb == "list" || e.Verb == "watch" {
			continue
		}
		for hi < len(calls) && hookSeq(calls[hi]) <= e.Seq {
			c := calls[hi]
			rec.Events = append(rec.Events, event{Hook: &c})
			hi++
		}
		rec.Events = append(rec.Events, event{API: &e})
	}
	for ; hi < len(calls); hi++ {
		c := calls[hi]
		rec.Events = append(rec.Events, event{Hook: &c})
	}
	return rec
}

func requeue429(calls []vh.HookCall) bool {
	for _, c := range calls {
		if c.Code == 429 {
			return true
		}
	}
	return false
}

// hookSeq: the API log length at the time of the hook call is carried in a response header field
func hookSeq(c vh.HookCall) int {
	var n int
	fmt.Sscanf(c.RespHdr["X-Verif-Seq"], "%d", &n)
	return n
}

func objKey(o map[string]interface{}) string {
	md, _ := o["metadata"].(map[string]interface{})
	ns, _ := md["namespace"].(string)
	n, _ := md["name"].(string)
	return fmt.Sprint(o["apiVersion"], "/", o["kind"], "/", ns, "/", n)
}

// sortedRevLister returns the cached ControllerRevisions in name order. The
// indexer lists them in Go map order; after an interrupted revision write a
// child can be claimed by two revisions and the first claimant wins, so the
// order is an input of the sync: the harness fixes it (and hands the model the
// same order) instead of leaving it to chance.
type sortedRevLister struct {
	mclisters.ControllerRevisionLister
}

func (l sortedRevLister) List(sel labels.Selector) ([]*v1alpha1.ControllerRevision, error) {
	ret, err := l.ControllerRevisionLister.List(sel)
	sort.Slice(ret, func(i, j int) bool {
		return ret[i].Namespace+"/"+ret[i].Name < ret[j].Namespace+"/"+ret[j].Name
	})
	return ret, err
}

func (l sortedRevLister) ControllerRevisions(ns string) mclisters.ControllerRevisionNamespaceLister {
	return sortedRevNsLister{l.ControllerRevisionLister.ControllerRevisions(ns)}
}

type sortedRevNsLister struct {
	mclisters.ControllerRevisionNamespaceLister
}

func (l sortedRevNsLister) List(sel labels.Selector) ([]*v1alpha1.ControllerRevision, error) {
	ret, err := l.ControllerRevisionNamespaceLister.List(sel)
	sort.Slice(ret, func(i, j int) bool { return ret[i].Name < ret[j].Name })
	return ret, err
}

// refreshInformers brings the caches of a long-lived controller to the current list views by
// sending the watch events an API server would have sent (ADDED / MODIFIED / DELETED), and
// waits until every informer shows exactly that content. The ControllerRevision lister, which
// the harness fills itself, is refilled.
func (w *cworld) refreshInformers(b *builtPC) error {
	type inf struct {
		apiVersion, kind string
		idx              cache.Indexer
	}
	var infs []inf
	pr := resByResource(b.pc.cc.Spec.ParentResource.APIVersion, b.pc.cc.Spec.ParentResource.Resource)
	if pr != nil {
		infs = append(infs, inf{pr.APIVersion(), pr.Kind, b.pc.parentInformer.Informer().GetIndexer()})
	}
	for gvr, ci := range b.pc.childInformers {
		if r := resByResource(gvr.GroupVersion().String(), gvr.Resource); r != nil {
			infs = append(infs, inf{r.APIVersion(), r.Kind, ci.Informer().GetIndexer()})
		}
	}
	want := map[string]map[string]J{} // apiVersion|kind -> key -> object
	for _, o := range w.srv.AllLive() {
		k := fmt.Sprint(o["apiVersion"], "|", o["kind"])
		if want[k] == nil {
			want[k] = map[string]J{}
		}
		md, _ := o["metadata"].(map[string]interface{})
		ns, _ := md["namespace"].(string)
		name, _ := md["name"].(string)
		key := name
		if ns != "" {
			key = ns + "/" + name
		}
		want[k][key] = o
	}
	for _, in := range infs {
		target := want[in.apiVersion+"|"+in.kind]
		for _, key := range in.idx.ListKeys() {
			if _, ok := target[key]; !ok {
				if o, exists, _ := in.idx.GetByKey(key); exists {
					w.srv.Emit("DELETED", runtime.DeepCopyJSON(o.(interface{ UnstructuredContent() map[string]interface{} }).UnstructuredContent()))
				}
			}
		}
		for key, o := range target {
			cur, exists, _ := in.idx.GetByKey(key)
			switch {
			case !exists:
				w.srv.Emit("ADDED", o)
			case !reflect.DeepEqual(vh.Normalize(cur.(interface{ UnstructuredContent() map[string]interface{} }).UnstructuredContent()), vh.Normalize(map[string]interface{}(o))):
				curUID, _ := cur.(interface{ UnstructuredContent() map[string]interface{} }).UnstructuredContent()["metadata"].(map[string]interface{})["uid"].(string)
				newUID, _ := o["metadata"].(map[string]interface{})["uid"].(string)
				if curUID != newUID {
					// another incarnation under the same name: the old one went away first
					w.srv.Emit("DELETED", runtime.DeepCopyJSON(cur.(interface{ UnstructuredContent() map[string]interface{} }).UnstructuredContent()))
					w.srv.Emit("ADDED", o)
				} else {
					w.srv.Emit("MODIFIED", o)
				}
			}
		}
	}
	deadline := time.Now().Add(2 * time.Second)
	for {
		ok := true
		for _, in := range infs {
			target := want[in.apiVersion+"|"+in.kind]
			keys := in.idx.ListKeys()
			if len(keys) != len(target) {
				ok = false
				break
			}
			for key, o := range target {
				cur, exists, _ := in.idx.GetByKey(key)
				if !exists || !reflect.DeepEqual(vh.Normalize(cur.(interface{ UnstructuredContent() map[string]interface{} }).UnstructuredContent()), vh.Normalize(map[string]interface{}(o))) {
					ok = false
					break
				}
			}
		}
		if ok {
			break
		}
		if time.Now().After(deadline) {
			// not the harness's call: the sync runs on whatever the informers hold, the round record shows it
			// (a cache that holds objects of another type than its resource is judged by the checks)
			break
		}
		time.Sleep(500 * time.Microsecond)
	}
	// the typed ControllerRevision lister
	for _, o := range b.revIndexer.List() {
		b.revIndexer.Delete(o)
	}
	for _, o := range w.cachedRevisions() {
		cr := &v1alpha1.ControllerRevision{}
		if err := runtime.DefaultUnstructuredConverter.FromUnstructured(o, cr); err == nil {
			b.revIndexer.Add(cr)
		}
	}
	b.revSnapshot = b.revDump()
	return nil
}
