package informer

// Correspondence harness of property C18: drives the REAL SharedInformerFactory
// (factory.go, informer.go) over the simulated API server with sequences of
// subscribe / add handler / remove handlers / close / object event / timer tick
// operations and writes, per step, what every recording handler received and
// what the server saw (open WATCH streams, LIST requests) as Coq terms.

import (
	"bytes"
	"encoding/json"
	"fmt"
	"io"
	"net/http"
	"os"
	"runtime"
	"sort"
	"strings"
	"sync"
	"sync/atomic"
	"testing"
	"time"

	"github.com/go-logr/logr"
	"k8s.io/apimachinery/pkg/apis/meta/v1/unstructured"
	"k8s.io/apimachinery/pkg/labels"
	"k8s.io/client-go/discovery"
	"k8s.io/client-go/tools/cache"

	dynamicclientset "metacontroller/pkg/dynamic/clientset"
	dynamicdiscovery "metacontroller/pkg/dynamic/discovery"
	vh "metacontroller/pkg/internal/verifh"
	verifsim "metacontroller/pkg/internal/verifsim"
	"metacontroller/pkg/logging"
)

var c18Resources = []verifsim.Resource{
	{Group: "", Version: "v1", Resource: "pods", Kind: "Pod", Namespaced: true, HasStatus: true},
	{Group: "apps.example.com", Version: "v1", Resource: "widgets", Kind: "Widget", Namespaced: true, HasStatus: false},
	// served by the simulator from the start, but hidden from discovery (a CRD that
	// is "not installed yet") until the harness reveals it: see c18Transport
	{Group: "apps.example.com", Version: "v1", Resource: "gadgets", Kind: "Gadget", Namespaced: true, HasStatus: false},
}

const c18LateResource = 2

// c18Transport passes everything to the simulator, but removes the hidden
// resources from the discovery document of their group/version.
type c18Transport struct {
	srv    *verifsim.Server
	mu     sync.Mutex
	hidden map[string]bool // plural resource name
}

func (t *c18Transport) RoundTrip(req *http.Request) (*http.Response, error) {
	resp, err := t.srv.RoundTrip(req)
	if err != nil || resp == nil || req.URL.Path != "/apis/apps.example.com/v1" || resp.StatusCode != 200 {
		return resp, err
	}
	body, rerr := io.ReadAll(resp.Body)
	resp.Body.Close()
	if rerr != nil {
		return nil, rerr
	}
	var doc map[string]interface{}
	if json.Unmarshal(body, &doc) == nil {
		t.mu.Lock()
		if rs, ok := doc["resources"].([]interface{}); ok {
			kept := make([]interface{}, 0, len(rs))
			for _, x := range rs {
				m, _ := x.(map[string]interface{})
				name, _ := m["name"].(string)
				if !t.hidden[strings.SplitN(name, "/", 2)[0]] {
					kept = append(kept, x)
				}
			}
			doc["resources"] = kept
		}
		t.mu.Unlock()
		body, _ = json.Marshal(doc)
	}
	resp.Body = io.NopCloser(bytes.NewReader(body))
	resp.ContentLength = int64(len(body))
	return resp, nil
}

const (
	c18Namespace  = "ns1"
	c18TickPeriod = 2 * time.Millisecond // own resync period of "own" handlers (< relist period)
	c18Relist     = time.Hour
	c18Marker     = "zz-barrier"
	c18Settle     = 300 * time.Microsecond
)

var c18Once sync.Once

// c18Sink is the logger the package under test writes to. It discards
// everything; while a close-vs-subscribe round has a pin installed it calls the
// pin at the factory's own "Stopping shared informer" line (the moment between
// the last reference being given up and the informer being stopped and
// forgotten), which lets the round hold the closing goroutine exactly there.
type c18Sink struct{}

var c18Pin atomic.Value // of func()

func c18CurrentPin() func() {
	if f, ok := c18Pin.Load().(func()); ok {
		return f
	}
	return nil
}

func (c18Sink) Init(logr.RuntimeInfo)                    {}
func (c18Sink) Enabled(int) bool                         { return c18CurrentPin() != nil }
func (c18Sink) Error(error, string, ...interface{})      {}
func (s c18Sink) WithValues(...interface{}) logr.LogSink { return s }
func (s c18Sink) WithName(string) logr.LogSink           { return s }
func (c18Sink) Info(_ int, msg string, _ ...interface{}) {
	if strings.Contains(msg, "Stopping shared informer") {
		if f := c18CurrentPin(); f != nil {
			f()
		}
	}
}

// ---- operations ----

type c18Op struct {
	Kind string `json:"kind"` // sub | add | rem | close | ev | tick | addwin | remwin | subu | reveal | clsub | tickrem
	R    int    `json:"r,omitempty"`
	S    int    `json:"s,omitempty"`
	H    int    `json:"h,omitempty"`
	Own  bool   `json:"own,omitempty"`
	EK   string `json:"ek,omitempty"` // ADDED | MODIFIED | DELETED
	O    int    `json:"o,omitempty"`
	// addwin = add(S,H) whose handler is held inside its Blk-th replay callback
	// while the event (R,EK,O) is emitted, then released
	Blk int `json:"blk,omitempty"`
	// clsub = close(S) and sub(R) issued at the same time from two goroutines;
	// Pin: the closing goroutine is held at the factory's "Stopping shared informer" line
	Pin bool `json:"pin,omitempty"`
	// tickrem = add(S,H) with an own resync period of PeriodMs, the handler is then
	// held inside the first object of a PERIODIC resync while rem(S) is called
	PeriodMs int `json:"period_ms,omitempty"`
}

func (o c18Op) String() string {
	switch o.Kind {
	case "sub":
		return fmt.Sprintf("sub(r%d)", o.R)
	case "add":
		if o.Own {
			return fmt.Sprintf("addown(s%d,h%d)", o.S, o.H)
		}
		return fmt.Sprintf("add(s%d,h%d)", o.S, o.H)
	case "rem":
		return fmt.Sprintf("rem(s%d)", o.S)
	case "close":
		return fmt.Sprintf("close(s%d)", o.S)
	case "ev":
		return fmt.Sprintf("ev(r%d,%s,o%d)", o.R, o.EK, o.O)
	case "tick":
		return fmt.Sprintf("tick(s%d,h%d)", o.S, o.H)
	case "addwin":
		return fmt.Sprintf("addwin(s%d,h%d,blk%d,ev(r%d,%s,o%d))", o.S, o.H, o.Blk, o.R, o.EK, o.O)
	case "remwin":
		return fmt.Sprintf("remwin(ev(r%d,%s,o%d),rem(s%d))", o.R, o.EK, o.O, o.S)
	case "subu":
		return fmt.Sprintf("subunknown(r%d)", o.R)
	case "reveal":
		return fmt.Sprintf("reveal(r%d)", o.R)
	case "clsub":
		return fmt.Sprintf("close(s%d)||sub(r%d)[pin=%v]", o.S, o.R, o.Pin)
	case "tickrem":
		return fmt.Sprintf("tickrem(addown(s%d,h%d,%dms),rem(s%d))", o.S, o.H, o.PeriodMs, o.S)
	}
	return "?"
}

func (o c18Op) coq() string {
	z := func(n int) string { return vh.CoqZ(int64(n)) }
	switch o.Kind {
	case "sub":
		return "(oSub " + z(o.R) + ")"
	case "add":
		return "(oAdd " + z(o.S) + " " + z(o.H) + " " + vh.CoqBool(o.Own) + ")"
	case "rem":
		return "(oRem " + z(o.S) + ")"
	case "close":
		return "(oClose " + z(o.S) + ")"
	case "ev":
		k := map[string]string{"ADDED": "EAdd", "MODIFIED": "EMod", "DELETED": "EDel"}[o.EK]
		return "(oEv " + z(o.R) + " " + k + " " + z(o.O) + ")"
	case "tick":
		return "(oTick " + z(o.S) + " " + z(o.H) + ")"
	case "subu":
		return "(oSubU " + z(o.R) + ")"
	}
	panic("bad op")
}

type c18Spec struct {
	NRes     int      `json:"nres"`
	Ops      []c18Op  `json:"ops"`
	Stream   string   `json:"stream"`
	Seed     uint64   `json:"seed"`
	Features []string `json:"features"`
	// Conc > 0: the first Conc operations (all Subscribe of one resource) are
	// issued by Conc goroutines released together
	Conc int `json:"conc,omitempty"`
	// Solo: run this scenario alone, after the worker pool (it times goroutines
	// against each other, or installs the log pin)
	Solo bool `json:"solo,omitempty"`
}

func (s c18Spec) hasOwn() bool {
	for _, o := range s.Ops {
		if o.Kind == "tick" || (o.Kind == "add" && o.Own) {
			return true
		}
	}
	return false
}

// ---- recording handlers ----

type c18Del struct {
	sub, h int
	kind   byte // 'A' add, 'U' update, 'D' delete, 'S' resync (OnUpdate(obj,obj))
	obj    int
	late   bool // received by a handler of subscription lateFor after its RemoveEventHandlers() had returned
}

type c18Rec struct {
	mu  sync.Mutex
	buf []c18Del
	// removal window (remwin): park, if set, is called (outside the lock) for every
	// delivery; returned is set once RemoveEventHandlers() of lateFor has returned
	park     func(c18Del)
	lateFor  int
	returned int32
}

func c18ObjID(obj interface{}) int {
	if t, ok := obj.(cache.DeletedFinalStateUnknown); ok {
		obj = t.Obj
	}
	u, ok := obj.(*unstructured.Unstructured)
	if !ok {
		return -1
	}
	var n int
	if _, err := fmt.Sscanf(u.GetName(), "o%d", &n); err != nil {
		return -1
	}
	return n
}

func (r *c18Rec) put(d c18Del) {
	if d.obj < 0 {
		return // the harness's barrier marker
	}
	r.mu.Lock()
	if d.sub == r.lateFor && atomic.LoadInt32(&r.returned) == 1 {
		d.late = true
	}
	r.buf = append(r.buf, d)
	park := r.park
	r.mu.Unlock()
	if park != nil {
		park(d)
	}
}

func (r *c18Rec) handler(sub, h int) cache.ResourceEventHandler {
	return cache.ResourceEventHandlerFuncs{
		AddFunc: func(obj interface{}) { r.put(c18Del{sub: sub, h: h, kind: 'A', obj: c18ObjID(obj)}) },
		UpdateFunc: func(oldObj, newObj interface{}) {
			k := byte('U')
			if oldObj == newObj {
				k = 'S'
			}
			r.put(c18Del{sub: sub, h: h, kind: k, obj: c18ObjID(newObj)})
		},
		DeleteFunc: func(obj interface{}) { r.put(c18Del{sub: sub, h: h, kind: 'D', obj: c18ObjID(obj)}) },
	}
}

func (r *c18Rec) take() []c18Del {
	r.mu.Lock()
	defer r.mu.Unlock()
	out := r.buf
	r.buf = nil
	return out
}

// count of recorded deliveries matching f, without taking them
func (r *c18Rec) count(f func(c18Del) bool) int {
	r.mu.Lock()
	defer r.mu.Unlock()
	n := 0
	for _, d := range r.buf {
		if f(d) {
			n++
		}
	}
	return n
}

// ---- the world: simulator + real clients + real factory ----

type c18World struct {
	srv           *verifsim.Server
	resources     *dynamicdiscovery.ResourceMap
	factory       *SharedInformerFactory
	nres          int
	tr            *c18Transport
	barrierBroken bool
}

// c18Sentinel is the harness's completion signal. The informer hands
// notifications to the sharedEventHandler asynchronously (indexer first, then a
// listener goroutine), and nothing says when a fan-out is over. The harness
// therefore adds one handler of its own to the real table (through the real
// addHandler, under a wrapper nobody else holds) and pushes a marker object
// through the same watch: when the sentinel has seen the marker go, every
// earlier notification has been fanned out. The sentinel is in no reference
// count, is invisible to the recording handlers, and is in the table only while
// a barrier runs.
type c18Sentinel struct {
	mu sync.Mutex
	n  int
}

func (s *c18Sentinel) seen() int {
	s.mu.Lock()
	defer s.mu.Unlock()
	return s.n
}

func newC18World(nres int) *c18World {
	c18Once.Do(func() { logging.Logger = logr.New(c18Sink{}) })
	srv := verifsim.NewServer(c18Resources)
	cfg := srv.RestConfig()
	tr := &c18Transport{srv: srv, hidden: map[string]bool{c18Resources[c18LateResource].Resource: true}}
	cfg.Transport = tr
	resources := dynamicdiscovery.NewResourceMap(discovery.NewDiscoveryClientForConfigOrDie(cfg))
	resources.Start(time.Hour)
	for i := 0; !resources.HasSynced(); i++ {
		if i > 20000 {
			panic("c18: discovery never synced")
		}
		time.Sleep(250 * time.Microsecond)
	}
	clientset, err := dynamicclientset.New(cfg, resources)
	if err != nil {
		panic(err)
	}
	return &c18World{srv: srv, resources: resources, factory: NewSharedInformerFactory(clientset, c18Relist), nres: nres,
		tr: tr}
}

// reveal makes discovery serve resource r and waits until the (real) resource
// map has picked it up.
func (w *c18World) reveal(r int) bool {
	w.tr.mu.Lock()
	delete(w.tr.hidden, c18Resources[r].Resource)
	w.tr.mu.Unlock()
	w.resources.Stop()
	w.resources.Start(time.Hour) // refreshes at once
	return c18Until(5*time.Second, func() bool {
		return w.resources.Get(c18Resources[r].APIVersion(), c18Resources[r].Resource) != nil
	})
}

func (w *c18World) key(r int) string {
	return resourceKey(c18Resources[r].APIVersion(), c18Resources[r].Resource)
}

// the informer the factory currently holds for resource r (implementation state)
func (w *c18World) curSRI(r int) *sharedResourceInformer {
	w.factory.mutex.Lock()
	defer w.factory.mutex.Unlock()
	return w.factory.sharedInformers[w.key(r)]
}

// barrier returns once everything the running informer of r was sent so far
// has been delivered to the handlers. The sentinel is in the real table only
// for the duration of the barrier (added through the real addHandler under a
// wrapper nobody else holds, taken out through the real removeHandlers), so
// that between barriers the table holds exactly what the subscribers put there.
func (w *c18World) barrier(r int, sri *sharedResourceInformer) bool {
	if w.barrierBroken {
		time.Sleep(2 * time.Millisecond)
		return false
	}
	s := &c18Sentinel{}
	iw := &informerWrapper{SharedIndexInformer: sri.informer, sharedResourceInformer: sri}
	sri.eventHandlers.addHandler(iw, cache.ResourceEventHandlerFuncs{
		DeleteFunc: func(obj interface{}) {
			if t, ok := obj.(cache.DeletedFinalStateUnknown); ok {
				obj = t.Obj
			}
			if u, ok := obj.(*unstructured.Unstructured); ok && u.GetName() == c18Marker {
				s.mu.Lock()
				s.n++
				s.mu.Unlock()
			}
		},
	}, c18Relist)
	defer sri.eventHandlers.removeHandlers(iw)
	res := c18Resources[r]
	stored := w.srv.Seed(map[string]interface{}{"apiVersion": res.APIVersion(), "kind": res.Kind,
		"metadata": map[string]interface{}{"name": c18Marker, "namespace": c18Namespace}})
	w.srv.Emit("ADDED", stored)
	w.srv.RemoveLive(res.APIVersion(), res.Kind, c18Namespace, c18Marker)
	w.srv.Emit("DELETED", stored)
	if !c18Until(500*time.Millisecond, func() bool { return s.seen() > 0 }) {
		// the fan-out does not work any more; do not wait again in this case
		w.barrierBroken = true
		return false
	}
	return true
}

func (w *c18World) watchCount(r int) int {
	return w.srv.WatchCount(c18Resources[r].APIVersion(), c18Resources[r].Kind)
}

func (w *c18World) listCount(r int) int {
	return w.srv.ListCount(c18Resources[r].APIVersion(), c18Resources[r].Kind)
}

// forceStop stops whatever the factory still runs (end of a case).
func (w *c18World) forceStop() {
	for r := 0; r < len(c18Resources); r++ {
		for i := 0; i < 64; i++ {
			sri := w.curSRI(r)
			if sri == nil {
				break
			}
			func() {
				defer func() { _ = recover() }()
				sri.close()
			}()
		}
	}
}

func (w *c18World) shutdown() {
	w.forceStop()
	w.resources.Stop()
	w.srv.Close()
}

func c18Until(max time.Duration, cond func() bool) bool {
	deadline := time.Now().Add(max)
	for i := 0; ; i++ {
		if cond() {
			return true
		}
		if time.Now().After(deadline) {
			return false
		}
		if i < 50 {
			time.Sleep(50 * time.Microsecond)
		} else {
			time.Sleep(500 * time.Microsecond)
		}
	}
}

// ---- running one case ----

type c18Step struct {
	op     c18Op
	dels   []c18Del
	panic  bool
	watch  []int
	lists  []int
	notes  int // deliveries other than resyncs
	issues []string
}

type c18Runner struct {
	w       *c18World
	rec     *c18Rec
	subs    []*ResourceInformer
	subRes  []int
	ownLive map[[2]int]bool // (sub,h) added with own timer and not removed since (the harness's record of its own calls)
	steps   []c18Step
	windows []int    // indices of event steps emitted inside a replay window
	goErrs  []string // failures of the harness's own environment (not of the code under test)
	anoms   []int    // see c_anomalies in Check/C18_check.v

	pubMu    sync.Mutex // what the watchdog may read while the scenario goroutine is stuck
	pubSteps []c18Step
	pubWins  []int
	pubAnoms []int
}

// publish makes the operations completed so far visible to the watchdog.
func (rn *c18Runner) publish() {
	rn.pubMu.Lock()
	rn.pubSteps = append([]c18Step(nil), rn.steps...)
	rn.pubWins = append([]int(nil), rn.windows...)
	rn.pubAnoms = append([]int(nil), rn.anoms...)
	rn.pubMu.Unlock()
}

func (rn *c18Runner) obj(r, o int, rev int) map[string]interface{} {
	res := c18Resources[r]
	return map[string]interface{}{
		"apiVersion": res.APIVersion(),
		"kind":       res.Kind,
		"metadata": map[string]interface{}{
			"name":      fmt.Sprintf("o%d", o),
			"namespace": c18Namespace,
			"labels":    map[string]interface{}{"rev": fmt.Sprintf("%d", rev)},
		},
	}
}

func (rn *c18Runner) listerNames(s int) []int {
	objs, err := rn.subs[s].Lister().List(labels.Everything())
	if err != nil {
		return nil
	}
	var out []int
	for _, u := range objs {
		if id := c18ObjID(u); id >= 0 {
			out = append(out, id)
		}
	}
	return out
}

func (rn *c18Runner) subHasOwn(s int) bool {
	for k, v := range rn.ownLive {
		if v && k[0] == s {
			return true
		}
	}
	return false
}

func (rn *c18Runner) guarded(st *c18Step, f func()) {
	defer func() {
		if r := recover(); r != nil {
			st.panic = true
		}
	}()
	f()
}

func (rn *c18Runner) do(_ int, op c18Op) {
	idx := len(rn.steps)
	switch op.Kind {
	case "addwin":
		rn.addWindow(op)
		return
	case "remwin":
		rn.removeWindow(op)
		return
	case "clsub":
		rn.closeVsSubscribe(op)
		return
	case "tickrem":
		rn.tickRemove(op)
		return
	case "reveal":
		if !rn.w.reveal(op.R) {
			rn.goErrs = append(rn.goErrs, fmt.Sprintf("resource %d never appeared in discovery", op.R))
		}
		return
	case "subu":
		res := c18Resources[op.R]
		st := c18Step{op: op}
		var ri *ResourceInformer
		var err error
		rn.guarded(&st, func() { ri, err = rn.w.factory.Resource(res.APIVersion(), res.Resource) })
		if err == nil && !st.panic {
			rn.anoms = append(rn.anoms, 2)
			if ri != nil {
				ri.Close()
			}
		}
		time.Sleep(c18Settle)
		st.dels = rn.rec.take()
		for r := 0; r < rn.w.nres; r++ {
			st.watch = append(st.watch, rn.w.watchCount(r))
			st.lists = append(st.lists, rn.w.listCount(r))
		}
		rn.steps = append(rn.steps, st)
		return
	}
	w := rn.w
	st := c18Step{op: op}
	switch op.Kind {
	case "sub":
		res := c18Resources[op.R]
		ri, err := w.factory.Resource(res.APIVersion(), res.Resource)
		if err != nil {
			panic(fmt.Sprintf("c18: Resource(): %v", err))
		}
		rn.subs = append(rn.subs, ri)
		rn.subRes = append(rn.subRes, op.R)
		if !c18Until(5*time.Second, ri.Informer().HasSynced) {
			st.issues = append(st.issues, "never-synced")
		}
		// the simulator does not replay events emitted before the WATCH is open
		if !c18Until(2*time.Second, func() bool { return w.watchCount(op.R) > 0 }) {
			st.issues = append(st.issues, "watch-never-opened")
		}
		// the notifications of the initial list may still be on their way to the (empty) table
		if !w.barrier(op.R, ri.sharedResourceInformer) {
			st.issues = append(st.issues, "barrier-timeout")
		}
	case "add":
		h := rn.rec.handler(op.S, op.H)
		rn.guarded(&st, func() {
			if op.Own {
				rn.subs[op.S].Informer().AddEventHandlerWithResyncPeriod(h, c18TickPeriod)
				rn.ownLive[[2]int{op.S, op.H}] = true
			} else {
				rn.subs[op.S].Informer().AddEventHandler(h)
			}
		})
		time.Sleep(c18Settle)
	case "rem":
		hadOwn := rn.subHasOwn(op.S)
		rn.guarded(&st, func() { rn.subs[op.S].Informer().RemoveEventHandlers() })
		// whatever arrived before the call returned belongs to the time before the removal
		if pre := rn.rec.take(); len(pre) > 0 {
			if idx > 0 {
				p := &rn.steps[idx-1]
				p.dels = append(p.dels, pre...)
			} else {
				st.dels = append(st.dels, pre...)
			}
		}
		for k := range rn.ownLive {
			if k[0] == op.S {
				rn.ownLive[k] = false
			}
		}
		if hadOwn {
			time.Sleep(3 * c18TickPeriod) // a timer that survived the removal would fire now
		} else {
			time.Sleep(c18Settle)
		}
	case "close":
		rn.guarded(&st, func() { rn.subs[op.S].Close() })
		// poll the server's WATCH count until it has been stable for ~20 ms
		// (0 is final: nothing re-opens a watch without a new subscription)
		r := rn.subRes[op.S]
		last, since := w.watchCount(r), time.Now()
		for last != 0 && time.Since(since) < 20*time.Millisecond {
			time.Sleep(500 * time.Microsecond)
			if n := w.watchCount(r); n != last {
				last, since = n, time.Now()
			}
		}
		time.Sleep(c18Settle)
	case "ev":
		res := c18Resources[op.R]
		name := fmt.Sprintf("o%d", op.O)
		sri := w.curSRI(op.R) // implementation state, not the model's
		var stored map[string]interface{}
		if op.EK == "DELETED" {
			stored = w.srv.GetLive(res.APIVersion(), res.Kind, c18Namespace, name)
			if stored == nil {
				stored = w.srv.Seed(rn.obj(op.R, op.O, idx))
			}
			w.srv.RemoveLive(res.APIVersion(), res.Kind, c18Namespace, name)
		} else {
			stored = w.srv.Seed(rn.obj(op.R, op.O, idx))
		}
		w.srv.Emit(op.EK, stored)
		if sri != nil && w.watchCount(op.R) > 0 {
			// wait until the shared informer's indexer reflects the event ...
			wantRV, _, _ := unstructured.NestedString(stored, "metadata", "resourceVersion")
			ok := c18Until(2*time.Second, func() bool {
				cur, exists, _ := sri.informer.GetIndexer().GetByKey(c18Namespace + "/" + name)
				if op.EK == "DELETED" {
					return !exists
				}
				return exists && cur.(*unstructured.Unstructured).GetResourceVersion() == wantRV
			})
			if !ok {
				st.issues = append(st.issues, "indexer-never-updated")
			}
			// ... and until its notification went through the fan-out
			if !w.barrier(op.R, sri) {
				st.issues = append(st.issues, "barrier-timeout")
			}
		}
		time.Sleep(c18Settle)
	case "tick":
		live := rn.ownLive[[2]int{op.S, op.H}]
		names := rn.listerNames(op.S)
		if live && len(names) > 0 {
			c18Until(500*time.Millisecond, func() bool {
				for _, n := range names {
					n := n
					if rn.rec.count(func(d c18Del) bool { return d.sub == op.S && d.h == op.H && d.kind == 'S' && d.obj == n }) == 0 {
						return false
					}
				}
				return true
			})
		} else {
			time.Sleep(3 * c18TickPeriod)
		}
	}
	st.dels = append(st.dels, rn.rec.take()...)
	for r := 0; r < w.nres; r++ {
		st.watch = append(st.watch, w.watchCount(r))
		st.lists = append(st.lists, w.listCount(r))
	}
	rn.steps = append(rn.steps, st)
}

// addWindow: AddEventHandler(S,H) runs in its own goroutine; its handler stops
// inside its Blk-th replay callback (channel), the harness lets an object event
// happen while it is there, then releases it. Ordering is by channels only; the
// one bounded wait gives a fan-out that (wrongly) does not wait for the add the
// chance to run inside the window. Emitted as two steps, add then event; the
// event step is marked as a window.
func (rn *c18Runner) addWindow(op c18Op) {
	w := rn.w
	addOp := c18Op{Kind: "add", S: op.S, H: op.H}
	evOp := c18Op{Kind: "ev", R: op.R, EK: op.EK, O: op.O}
	st1, st2 := c18Step{op: addOp}, c18Step{op: evOp}
	entered, release, done := make(chan struct{}), make(chan struct{}), make(chan struct{})
	inner := rn.rec.handler(op.S, op.H)
	var mu sync.Mutex
	replays := 0
	h := cache.ResourceEventHandlerFuncs{
		AddFunc: func(obj interface{}) { inner.OnAdd(obj, false) },
		UpdateFunc: func(oldObj, newObj interface{}) {
			inner.OnUpdate(oldObj, newObj)
			if oldObj == newObj && c18ObjID(newObj) >= 0 {
				mu.Lock()
				n := replays
				replays++
				mu.Unlock()
				if n == op.Blk {
					close(entered)
					<-release
				}
			}
		},
		DeleteFunc: func(obj interface{}) { inner.OnDelete(obj) },
	}
	go func() {
		defer close(done)
		rn.guarded(&st1, func() { rn.subs[op.S].Informer().AddEventHandler(h) })
	}()
	inWindow := false
	select {
	case <-entered:
		inWindow = true
	case <-done: // fewer cached objects than Blk: no window, plain add then event
	case <-time.After(5 * time.Second):
		st1.issues = append(st1.issues, "window-never-entered")
	}
	res := c18Resources[op.R]
	name := fmt.Sprintf("o%d", op.O)
	sri := w.curSRI(op.R)
	stored := w.srv.Seed(rn.obj(op.R, op.O, len(rn.steps)))
	w.srv.Emit(op.EK, stored)
	if sri != nil && w.watchCount(op.R) > 0 {
		wantRV, _, _ := unstructured.NestedString(stored, "metadata", "resourceVersion")
		if !c18Until(2*time.Second, func() bool {
			cur, exists, _ := sri.informer.GetIndexer().GetByKey(c18Namespace + "/" + name)
			return exists && cur.(*unstructured.Unstructured).GetResourceVersion() == wantRV
		}) {
			st2.issues = append(st2.issues, "indexer-never-updated")
		}
		if inWindow {
			// a fan-out that does not wait for the pending add reaches the other handlers now
			c18Until(25*time.Millisecond, func() bool {
				return rn.rec.count(func(d c18Del) bool {
					return d.kind != 'S' && d.obj == op.O && !(d.sub == op.S && d.h == op.H)
				}) > 0
			})
		}
	}
	_ = res
	close(release)
	<-done
	if sri != nil && w.watchCount(op.R) > 0 {
		if !w.barrier(op.R, sri) {
			st2.issues = append(st2.issues, "barrier-timeout")
		}
	}
	time.Sleep(c18Settle)
	for _, d := range rn.rec.take() {
		if d.kind == 'S' && d.sub == op.S && d.h == op.H {
			st1.dels = append(st1.dels, d)
		} else {
			st2.dels = append(st2.dels, d)
		}
	}
	for r := 0; r < w.nres; r++ {
		st1.watch = append(st1.watch, w.watchCount(r))
		st1.lists = append(st1.lists, w.listCount(r))
	}
	st2.watch, st2.lists = st1.watch, st1.lists
	rn.steps = append(rn.steps, st1, st2)
	if inWindow {
		rn.windows = append(rn.windows, len(rn.steps)-1)
	}
}

// closeVsSubscribe: Close() of subscription S - the last one open on resource R -
// and Resource(R) run at the same time in two goroutines. Unpinned, they are
// released together by a spin barrier; pinned, the closing goroutine is held at
// the factory's "Stopping shared informer" log line until the subscriber has
// returned (or, on a tree where that line is written under the factory mutex,
// until a bounded wait has shown that the subscriber waits for it). Both orders
// are legitimate: the new subscription either joined the old informer before it
// was given up (then it keeps running) or got a fresh one; the harness reads the
// order off the implementation (same sharedResourceInformer or not) and emits
// the two steps in that order. The server's counters are read once, after both
// returned: the first step carries -1 (not observed).
func (rn *c18Runner) closeVsSubscribe(op c18Op) {
	w := rn.w
	res := c18Resources[op.R]
	old := rn.subs[op.S]
	oldSRI := old.sharedResourceInformer
	stClose := c18Step{op: c18Op{Kind: "close", S: op.S}}
	stSub := c18Step{op: c18Op{Kind: "sub", R: op.R}}
	closeDone, subDone := make(chan struct{}), make(chan struct{})
	parked, release := make(chan struct{}), make(chan struct{})
	var ri *ResourceInformer
	var err error
	var arrived int32
	if op.Pin {
		var once sync.Once
		c18Pin.Store(func() {
			mine := false
			once.Do(func() { mine = true })
			if mine {
				close(parked)
				select {
				case <-release:
				case <-time.After(3 * time.Second):
				}
			}
		})
	}
	go func() {
		defer close(closeDone)
		if !op.Pin {
			atomic.AddInt32(&arrived, 1)
			for atomic.LoadInt32(&arrived) < 2 {
			}
		}
		rn.guarded(&stClose, func() { old.Close() })
	}()
	go func() {
		defer close(subDone)
		if op.Pin {
			select {
			case <-parked:
			case <-closeDone:
			case <-time.After(2 * time.Second):
			}
		} else {
			atomic.AddInt32(&arrived, 1)
			for atomic.LoadInt32(&arrived) < 2 {
			}
		}
		rn.guarded(&stSub, func() { ri, err = w.factory.Resource(res.APIVersion(), res.Resource) })
	}()
	if op.Pin {
		// a subscriber that is not serialised behind the close returns now
		select {
		case <-subDone:
		case <-time.After(25 * time.Millisecond):
		}
		close(release)
	}
	<-closeDone
	<-subDone
	if op.Pin {
		c18Pin.Store((func())(nil))
	}
	if err != nil || ri == nil {
		panic(fmt.Sprintf("c18: Resource(): %v", err)) // recovered by c18Run: anomaly 4
	}
	rn.subs = append(rn.subs, ri)
	rn.subRes = append(rn.subRes, op.R)
	c18Until(2*time.Second, ri.Informer().HasSynced)
	c18Until(500*time.Millisecond, func() bool { return w.watchCount(op.R) > 0 })
	// let the stop of the old informer and the start of a new one settle
	last, since := w.watchCount(op.R), time.Now()
	for time.Since(since) < 5*time.Millisecond {
		time.Sleep(250 * time.Microsecond)
		if n := w.watchCount(op.R); n != last {
			last, since = n, time.Now()
		}
	}
	if sri := w.curSRI(op.R); sri != nil && w.watchCount(op.R) > 0 {
		if !w.barrier(op.R, sri) {
			stSub.issues = append(stSub.issues, "barrier-timeout")
		}
	}
	first, second := &stClose, &stSub
	if ri.sharedResourceInformer == oldSRI {
		first, second = &stSub, &stClose // joined the old informer before it was given up
	}
	second.dels = rn.rec.take()
	for r := 0; r < w.nres; r++ {
		first.watch = append(first.watch, -1)
		first.lists = append(first.lists, -1)
		second.watch = append(second.watch, w.watchCount(r))
		second.lists = append(second.lists, w.listCount(r))
	}
	rn.steps = append(rn.steps, *first, *second)
	// the reference count must be the number of open subscriptions: the new one
	w.factory.mutex.Lock()
	ref := w.factory.refCount[w.key(op.R)]
	w.factory.mutex.Unlock()
	if ref != 1 {
		rn.anoms = append(rn.anoms, 1)
	}
}

// tickRemove: a handler is added through subscription S with its own resync
// period; after the add (and its replay) returned, the handler is held, by a
// channel, inside the FIRST object of the next periodic resync of its timer.
// While it is there RemoveEventHandlers() of S is called from another goroutine.
// On a tree where the removal waits for the timer goroutine it can only return
// after the handler was released (the harness releases it once it has seen, for
// a bounded time, that the removal does not return); the rest of that resync
// then arrives BEFORE the removal returns. Whatever the handlers of S receive
// after the removal has returned is the content of the RemoveHandlers step,
// marked as a window (clause event-delivered-after-removal-returned).
func (rn *c18Runner) tickRemove(op c18Op) {
	w := rn.w
	period := time.Duration(op.PeriodMs) * time.Millisecond
	stAdd := c18Step{op: c18Op{Kind: "add", S: op.S, H: op.H, Own: true}}
	stRem := c18Step{op: c18Op{Kind: "rem", S: op.S}}
	entered, release, remDone := make(chan struct{}), make(chan struct{}), make(chan struct{})
	var armed int32
	var once sync.Once
	rn.rec.mu.Lock()
	rn.rec.lateFor = op.S
	atomic.StoreInt32(&rn.rec.returned, 0)
	rn.rec.park = func(d c18Del) {
		if d.kind == 'S' && d.sub == op.S && d.h == op.H && atomic.LoadInt32(&armed) == 1 {
			parked := false
			once.Do(func() { parked = true })
			if parked {
				close(entered)
				<-release
			}
		}
	}
	rn.rec.mu.Unlock()
	rn.guarded(&stAdd, func() {
		rn.subs[op.S].Informer().AddEventHandlerWithResyncPeriod(rn.rec.handler(op.S, op.H), period)
	})
	atomic.StoreInt32(&armed, 1) // the add-time replay is over: the next resync is a tick
	inWindow := false
	select {
	case <-entered:
		inWindow = true
	case <-time.After(2 * time.Second):
		stAdd.issues = append(stAdd.issues, "tick-never-came") // empty cache
	}
	go func() {
		defer close(remDone)
		rn.guarded(&stRem, func() { rn.subs[op.S].Informer().RemoveEventHandlers() })
		atomic.StoreInt32(&rn.rec.returned, 1)
	}()
	if inWindow {
		// a removal that does not wait for the resync in progress returns now
		select {
		case <-remDone:
		case <-time.After(25 * time.Millisecond):
		}
	}
	close(release)
	<-remDone
	wait := 3 * period // a timer that survived the removal would fire now
	if wait < 3*c18TickPeriod {
		wait = 3 * c18TickPeriod
	}
	time.Sleep(wait)
	rn.rec.mu.Lock()
	rn.rec.park = nil
	rn.rec.lateFor = -1
	rn.rec.mu.Unlock()
	for _, d := range rn.rec.take() {
		if d.late {
			stRem.dels = append(stRem.dels, d)
		} else {
			stAdd.dels = append(stAdd.dels, d)
		}
	}
	for r := 0; r < w.nres; r++ {
		stAdd.watch = append(stAdd.watch, w.watchCount(r))
		stAdd.lists = append(stAdd.lists, w.listCount(r))
	}
	stRem.watch, stRem.lists = stAdd.watch, stAdd.lists
	rn.steps = append(rn.steps, stAdd, stRem)
	if inWindow {
		rn.windows = append(rn.windows, len(rn.steps)-1)
	}
}

// removeWindow: the event (R,EK,O) is emitted; the first handler of ANOTHER
// subscription that receives it parks on a channel, in the middle of the
// fan-out. Meanwhile RemoveEventHandlers() of subscription S is called from its
// own goroutine (on the unchanged code it blocks until the fan-out is over) and
// the moment it returns is recorded; then the parked handler is released.
// Emitted as two steps: the event with everything that was received, except
// what the handlers of S received AFTER the removal had returned - that is the
// content of the RemoveHandlers step, marked as a window.
func (rn *c18Runner) removeWindow(op c18Op) {
	w := rn.w
	evOp := c18Op{Kind: "ev", R: op.R, EK: op.EK, O: op.O}
	remOp := c18Op{Kind: "rem", S: op.S}
	st1, st2 := c18Step{op: evOp}, c18Step{op: remOp}
	entered, release, remDone := make(chan struct{}), make(chan struct{}), make(chan struct{})
	var once sync.Once
	rn.rec.mu.Lock()
	rn.rec.lateFor = op.S
	atomic.StoreInt32(&rn.rec.returned, 0)
	rn.rec.park = func(d c18Del) {
		if d.kind != 'S' && d.obj == op.O && d.sub != op.S {
			parked := false
			once.Do(func() { parked = true })
			if parked {
				close(entered)
				<-release
			}
		}
	}
	rn.rec.mu.Unlock()

	res := c18Resources[op.R]
	name := fmt.Sprintf("o%d", op.O)
	sri := w.curSRI(op.R)
	var stored map[string]interface{}
	if op.EK == "DELETED" {
		stored = w.srv.GetLive(res.APIVersion(), res.Kind, c18Namespace, name)
		if stored == nil {
			stored = w.srv.Seed(rn.obj(op.R, op.O, len(rn.steps)))
		}
		w.srv.RemoveLive(res.APIVersion(), res.Kind, c18Namespace, name)
	} else {
		stored = w.srv.Seed(rn.obj(op.R, op.O, len(rn.steps)))
	}
	w.srv.Emit(op.EK, stored)
	inWindow := false
	select {
	case <-entered:
		inWindow = true
	case <-time.After(2 * time.Second):
		st1.issues = append(st1.issues, "window-never-entered") // nobody else is registered, or no notification
	}
	go func() {
		defer close(remDone)
		rn.guarded(&st2, func() { rn.subs[op.S].Informer().RemoveEventHandlers() })
		atomic.StoreInt32(&rn.rec.returned, 1)
	}()
	if inWindow {
		// a removal that does not wait for the fan-out in progress returns now
		select {
		case <-remDone:
		case <-time.After(25 * time.Millisecond):
		}
	}
	close(release)
	<-remDone
	if sri != nil && w.watchCount(op.R) > 0 {
		if !w.barrier(op.R, sri) {
			st1.issues = append(st1.issues, "barrier-timeout")
		}
	}
	if rn.subHasOwn(op.S) {
		time.Sleep(3 * c18TickPeriod) // a timer that survived the removal would fire now
	} else {
		time.Sleep(c18Settle)
	}
	rn.rec.mu.Lock()
	rn.rec.park = nil
	rn.rec.lateFor = -1
	rn.rec.mu.Unlock()
	for _, d := range rn.rec.take() {
		if d.late {
			st2.dels = append(st2.dels, d)
		} else {
			st1.dels = append(st1.dels, d)
		}
	}
	for k := range rn.ownLive {
		if k[0] == op.S {
			rn.ownLive[k] = false
		}
	}
	for r := 0; r < w.nres; r++ {
		st1.watch = append(st1.watch, w.watchCount(r))
		st1.lists = append(st1.lists, w.listCount(r))
	}
	st2.watch, st2.lists = st1.watch, st1.lists
	rn.steps = append(rn.steps, st1, st2)
	if inWindow {
		rn.windows = append(rn.windows, len(rn.steps)-1)
	}
}

func (rn *c18Runner) cleanup() {
	for _, ri := range rn.subs {
		func() {
			defer func() { _ = recover() }()
			ri.Informer().RemoveEventHandlers()
		}()
	}
	rn.w.shutdown()
}

type c18Result struct {
	spec    c18Spec
	steps   []c18Step
	windows []int
	goErrs  []string
	hungAt  int // index of the operation that never returned, -1 if none
	anoms   []int
}

// c18OpTimeout: how long one operation of a scenario (or the final cleanup) may
// take before the watchdog gives the scenario up (VERIF_C18_OPTIMEOUT, seconds).
// Every wait inside the harness is bounded well below this on a healthy tree.
func c18OpTimeout() time.Duration {
	if v := os.Getenv("VERIF_C18_OPTIMEOUT"); v != "" {
		var sec float64
		if _, err := fmt.Sscanf(v, "%g", &sec); err == nil && sec > 0 {
			return time.Duration(sec * float64(time.Second))
		}
	}
	return 8 * time.Second
}

func c18CountNotes(steps []c18Step) {
	for i := range steps {
		steps[i].notes = 0
		for _, d := range steps[i].dels {
			if d.kind != 'S' {
				steps[i].notes++
			}
		}
	}
}

// c18Run runs one scenario in its own goroutine, on its own server and factory,
// under a watchdog: if an operation does not return in time (a deadlock in the
// code under test) the scenario is given up - its goroutines are leaked - and
// reported with the operations completed so far and the index of the one that
// hung. A panic that escapes an operation is recovered and reported as well.
func c18Run(spec c18Spec) c18Result {
	w := newC18World(spec.NRes)
	rn := &c18Runner{w: w, rec: &c18Rec{lateFor: -1}, ownLive: map[[2]int]bool{}}
	bound := c18OpTimeout()
	progress := make(chan int, len(spec.Ops)+4)
	finished := make(chan struct{})
	var concErrs []string
	go func() {
		defer close(finished)
		defer func() {
			if r := recover(); r != nil {
				rn.anoms = append(rn.anoms, 4)
				rn.publish()
			}
		}()
		if spec.Conc > 0 {
			concErrs = rn.concurrentSubscribe(spec.Conc, spec.Ops[0].R)
			rn.publish()
			progress <- spec.Conc
		}
		for i, op := range spec.Ops {
			if i >= spec.Conc {
				rn.do(i, op)
				rn.publish()
				progress <- i + 1
			}
		}
		rn.cleanup()
		rn.publish()
	}()
	at := 0
	timer := time.NewTimer(bound)
	defer timer.Stop()
	for {
		select {
		case n := <-progress:
			at = n
			if !timer.Stop() {
				select {
				case <-timer.C:
				default:
				}
			}
			timer.Reset(bound)
		case <-finished:
			c18CountNotes(rn.steps)
			return c18Result{spec: spec, steps: rn.steps, windows: rn.windows, goErrs: append(concErrs, rn.goErrs...),
				hungAt: -1, anoms: rn.anoms}
		case <-timer.C:
			// drain a progress message that raced with the timer
			select {
			case n := <-progress:
				at = n
				timer.Reset(bound)
				continue
			default:
			}
			rn.pubMu.Lock()
			steps, wins, anoms := rn.pubSteps, rn.pubWins, rn.pubAnoms
			rn.pubMu.Unlock()
			c18CountNotes(steps)
			return c18Result{spec: spec, steps: steps, windows: wins, hungAt: at, anoms: anoms}
		}
	}
}

// concurrentSubscribe: k goroutines, released together, call
// factory.Resource for the same resource on a factory that has no informer for
// it yet. All k calls are reported as k Subscribe steps that share the
// observation taken after they all returned and synced (the subscriptions are
// interchangeable, so the order in which they get their ids does not matter).
func (rn *c18Runner) concurrentSubscribe(k, r int) []string {
	w := rn.w
	res := c18Resources[r]
	ris := make([]*ResourceInformer, k)
	errs := make([]error, k)
	// spin barrier: the calls start within nanoseconds of each other (a channel
	// close wakes the goroutines one scheduler hand-off at a time)
	var arrived int32
	yield := k > runtime.GOMAXPROCS(0)
	var done sync.WaitGroup
	for g := 0; g < k; g++ {
		done.Add(1)
		go func(g int) {
			defer done.Done()
			defer func() {
				if p := recover(); p != nil {
					errs[g] = fmt.Errorf("panic: %v", p)
				}
			}()
			atomic.AddInt32(&arrived, 1)
			for atomic.LoadInt32(&arrived) < int32(k) {
				if yield {
					runtime.Gosched()
				}
			}
			ris[g], errs[g] = w.factory.Resource(res.APIVersion(), res.Resource)
		}(g)
	}
	done.Wait()
	var issues []string
	for g := 0; g < k; g++ {
		if errs[g] != nil || ris[g] == nil {
			panic(fmt.Sprintf("c18: Resource(): %v", errs[g])) // recovered by c18Run: anomaly 4
		}
		rn.subs = append(rn.subs, ris[g])
		rn.subRes = append(rn.subRes, r)
		// every subscription's own informer (there should be one for all)
		if !c18Until(5*time.Second, ris[g].Informer().HasSynced) {
			issues = append(issues, "never-synced")
		}
	}
	if !c18Until(2*time.Second, func() bool { return w.watchCount(r) > 0 }) {
		issues = append(issues, "watch-never-opened")
	}
	// a second informer, if one was started, opens its watch now
	last, since := w.watchCount(r), time.Now()
	for time.Since(since) < 3*time.Millisecond {
		time.Sleep(200 * time.Microsecond)
		if n := w.watchCount(r); n != last {
			last, since = n, time.Now()
		}
	}
	if sri := w.curSRI(r); sri != nil {
		if !w.barrier(r, sri) {
			issues = append(issues, "barrier-timeout")
		}
	}
	var watch, lists []int
	for x := 0; x < w.nres; x++ {
		watch = append(watch, w.watchCount(x))
		lists = append(lists, w.listCount(x))
	}
	for g := 0; g < k; g++ {
		st := c18Step{op: c18Op{Kind: "sub", R: r}, watch: watch, lists: lists}
		if g == k-1 {
			st.issues = issues
			st.dels = rn.rec.take()
		}
		rn.steps = append(rn.steps, st)
	}
	// the reference count is not part of the case format: assert it here, but only
	// when the server-side observations (which the Coq check judges) look right
	w.factory.mutex.Lock()
	ref := w.factory.refCount[w.key(r)]
	w.factory.mutex.Unlock()
	if ref != k && lists[r] == 1 && watch[r] == 1 {
		rn.anoms = append(rn.anoms, 1)
	}
	return nil
}

// one round of the concurrent leg: k concurrent subscribes, then the survivor
// must keep working while the others close, and the last close stops the watch
// replay-window leg: ncache objects are cached, subscriber 0 has a handler;
// a handler is added (through subscription 1 of the same informer, or through
// subscription 0 itself) and held in its blk-th replay callback while a NEW
// object appears; afterwards a MODIFIED of it must reach everybody, and the
// usual removal/close tail follows.
func c18WindowSpec(ncache, blk int, sameSub bool, twice bool) c18Spec {
	ops := []c18Op{{Kind: "sub", R: 0}, {Kind: "sub", R: 0}}
	for o := 0; o < ncache; o++ {
		ops = append(ops, c18Op{Kind: "ev", R: 0, EK: "ADDED", O: o})
	}
	s := 1
	if sameSub {
		s = 0
	}
	ops = append(ops, c18Op{Kind: "add", S: 0, H: 0},
		c18Op{Kind: "addwin", S: s, H: 1, Blk: blk, R: 0, EK: "ADDED", O: ncache})
	if twice {
		// a second window on top: another handler, another new object
		ops = append(ops, c18Op{Kind: "addwin", S: 1, H: 2, Blk: blk, R: 0, EK: "ADDED", O: ncache + 1})
	}
	ops = append(ops, c18Op{Kind: "ev", R: 0, EK: "MODIFIED", O: ncache},
		c18Op{Kind: "rem", S: 0}, c18Op{Kind: "close", S: 0}, c18Op{Kind: "ev", R: 0, EK: "DELETED", O: 0}, c18Op{Kind: "close", S: 1})
	return c18Spec{NRes: 1, Ops: ops, Stream: "replay-window", Features: []string{"replay-window", "shared-informer"}}
}

// removal-window leg: nPark other subscribers (one handler each) and subscriber
// B share an informer; B registers first or last; an event is parked inside the
// first other handler that gets it while B removes its handlers. Afterwards B
// must stay silent, and gets events again only after adding a new handler.
func c18RemoveWindowSpec(nPark int, bFirst bool, ek string, own bool) c18Spec {
	n := nPark + 1
	b := n - 1
	if bFirst {
		b = 0
	}
	var ops []c18Op
	for i := 0; i < n; i++ {
		ops = append(ops, c18Op{Kind: "sub", R: 0})
	}
	if ek != "ADDED" {
		ops = append(ops, c18Op{Kind: "ev", R: 0, EK: "ADDED", O: 0})
	}
	for i := 0; i < n; i++ {
		// own: B's handler has its own short resync period, so one of its timer
		// ticks is pending while the removal waits for the parked fan-out
		ops = append(ops, c18Op{Kind: "add", S: i, H: i, Own: own && i == b})
	}
	ops = append(ops, c18Op{Kind: "remwin", S: b, R: 0, EK: ek, O: 0},
		c18Op{Kind: "ev", R: 0, EK: "ADDED", O: 1},
		c18Op{Kind: "add", S: b, H: n},
		c18Op{Kind: "ev", R: 0, EK: "MODIFIED", O: 1})
	for i := 0; i < n; i++ {
		ops = append(ops, c18Op{Kind: "close", S: i})
	}
	feats := []string{"removal-window", "shared-informer"}
	if own {
		feats = append(feats, "own-timer")
	}
	return c18Spec{NRes: 1, Ops: ops, Stream: "removal-window", Features: feats}
}

// unknown-resource family: Resource() for a resource discovery does not know
// fails (any number of times, before or between other operations); once the
// resource is known the usual life cycle must work: subscribe, close (informer
// stopped), subscribe again (fresh informer).
func c18UnknownSpec(r *vh.Rng, seed uint64) c18Spec {
	g := newC18Gen(3, 2, false)
	late := c18LateResource
	hidden := true
	pickRes := func() int {
		if r.Chance(7, 10) {
			return late
		}
		return 0
	}
	subscribe := func(a, res int) {
		if res == late && hidden {
			g.ops = append(g.ops, c18Op{Kind: "subu", R: res})
			g.feat["failed-subscribe"] = true
			return
		}
		if g.actorMoveOK(a, 0) {
			g.actorMove(a, 0, res)
		}
	}
	n := 5 + r.Intn(8)
	revealAt := 1 + r.Intn(4)
	if r.Chance(1, 8) {
		revealAt = 1000 // never
	}
	for guard := 0; len(g.ops) < n && guard < 500; guard++ {
		if hidden && len(g.ops) >= revealAt {
			g.ops = append(g.ops, c18Op{Kind: "reveal", R: late})
			hidden = false
			continue
		}
		if r.Chance(1, 5) {
			g.event(pickRes(), c18EventKinds[r.Intn(3)], r.Intn(2))
			continue
		}
		a := r.Intn(2)
		mv := []int{0, 0, 0, 1, 1, 3, 4, 4, 4}[r.Intn(9)]
		switch {
		case mv == 0 || g.slotSub[a] < 0:
			if a > 0 && g.slotSub[0] < 0 {
				a = 0
			}
			subscribe(a, pickRes())
		case g.actorMoveOK(a, mv):
			g.actorMove(a, mv, 0)
		}
	}
	// close what is open, then the life cycle once more on the late resource
	for a := 0; a < 2; a++ {
		if g.slotSub[a] >= 0 && !g.slotClosed[a] {
			g.actorMove(a, 4, 0)
		}
	}
	if !hidden {
		g.actorMove(0, 0, late)
		g.actorMove(0, 1, 0)
		g.event(late, "ADDED", 1)
		g.actorMove(0, 4, 0)
	}
	return g.spec("unknown-resource", seed)
}

// tick-removal family: nobj (>= 3) objects are cached; subscriber `who` adds a
// handler with its own short resync period, which is held in the first object
// of a periodic resync while its subscription removes its handlers. With or
// without a second subscriber (with a plain handler) on the same informer.
// Afterwards the removed handler must stay silent and a new one must work.
func c18TickRemoveSpec(periodMs, nobj, who int, second bool) c18Spec {
	ops := []c18Op{{Kind: "sub", R: 0}}
	nsub := 1
	if second || who == 1 {
		ops = append(ops, c18Op{Kind: "sub", R: 0})
		nsub = 2
	}
	for o := 0; o < nobj; o++ {
		ops = append(ops, c18Op{Kind: "ev", R: 0, EK: "ADDED", O: o})
	}
	h := 0
	if second {
		ops = append(ops, c18Op{Kind: "add", S: 1 - who, H: h})
		h++
	}
	ops = append(ops, c18Op{Kind: "tickrem", S: who, H: h, PeriodMs: periodMs},
		c18Op{Kind: "ev", R: 0, EK: "MODIFIED", O: 0},
		c18Op{Kind: "add", S: who, H: h + 1},
		c18Op{Kind: "ev", R: 0, EK: "DELETED", O: 1})
	for s := 0; s < nsub; s++ {
		ops = append(ops, c18Op{Kind: "close", S: s})
	}
	return c18Spec{NRes: 1, Ops: ops, Stream: "tick-removal", Features: []string{"tick-removal", "own-timer", "tick-after-remove"}}
}

// close-vs-subscribe family: the last subscriber closes while another controller
// subscribes to the same resource; whichever way it goes, the new subscription
// must work (replay, next event), hold the one reference, and close cleanly.
func c18CloseVsSubscribeSpec(round int, pin bool) c18Spec {
	r := round % 2
	ops := []c18Op{{Kind: "sub", R: r}}
	h := 0
	if round%3 != 0 {
		ops = append(ops, c18Op{Kind: "add", S: 0, H: h})
		h++
	}
	if round%4 < 2 {
		ops = append(ops, c18Op{Kind: "ev", R: r, EK: "ADDED", O: 0})
	}
	ops = append(ops, c18Op{Kind: "clsub", S: 0, R: r, Pin: pin},
		c18Op{Kind: "add", S: 1, H: h},
		c18Op{Kind: "ev", R: r, EK: "ADDED", O: 1},
		c18Op{Kind: "close", S: 1},
		c18Op{Kind: "sub", R: r}, c18Op{Kind: "close", S: 2})
	stream := "close-vs-subscribe"
	if pin {
		stream += "-pinned"
	}
	return c18Spec{NRes: 2, Ops: ops, Stream: stream, Solo: true, Features: []string{"close-vs-subscribe"}}
}

func c18ConcurrentSpec(round, k int, full bool) c18Spec {
	r := round % 2
	ops := make([]c18Op, 0, 2*k+3)
	for g := 0; g < k; g++ {
		ops = append(ops, c18Op{Kind: "sub", R: r})
	}
	if !full {
		// short round: only the concurrent subscribes (one LIST, one WATCH)
		return c18Spec{NRes: 2, Ops: ops, Stream: "concurrent-subscribe-short", Conc: k,
			Features: []string{"concurrent-subscribe", "shared-informer"}}
	}
	ops = append(ops, c18Op{Kind: "add", S: k - 1, H: 0})
	for g := 0; g < k-1; g++ {
		ops = append(ops, c18Op{Kind: "close", S: g})
	}
	ops = append(ops, c18Op{Kind: "ev", R: r, EK: "ADDED", O: round % 3}, c18Op{Kind: "close", S: k - 1})
	return c18Spec{NRes: 2, Ops: ops, Stream: "concurrent-subscribe", Conc: k,
		Features: []string{"concurrent-subscribe", "shared-informer"}}
}

// ---- Coq terms ----

func c18CoqDel(d c18Del) string {
	z := func(n int) string { return vh.CoqZ(int64(n)) }
	c := map[byte]string{'A': "dA", 'U': "dU", 'D': "dD", 'S': "dS"}[d.kind]
	return c + " " + z(d.sub) + " " + z(d.h) + " " + z(d.obj)
}

func c18ZList(l []int) string {
	p := make([]string, len(l))
	for i, n := range l {
		p[i] = vh.CoqZ(int64(n))
	}
	return "[" + strings.Join(p, ";") + "]"
}

func c18CoqCase(res c18Result) string {
	var b strings.Builder
	fmt.Fprintf(&b, "mkC18 %s [", vh.CoqZ(int64(res.spec.NRes)))
	for i, st := range res.steps {
		if i > 0 {
			b.WriteString(";\n ")
		}
		// canonical order: the fan-out order over a Go map is random
		ds := append([]c18Del(nil), st.dels...)
		sort.Slice(ds, func(i, j int) bool {
			a, c := ds[i], ds[j]
			if a.sub != c.sub {
				return a.sub < c.sub
			}
			if a.h != c.h {
				return a.h < c.h
			}
			if a.kind != c.kind {
				return a.kind < c.kind
			}
			return a.obj < c.obj
		})
		parts := make([]string, len(ds))
		for j, d := range ds {
			parts[j] = c18CoqDel(d)
		}
		fmt.Fprintf(&b, "mkObs %s [%s] %s %s %s", st.op.coq(), strings.Join(parts, "; "), vh.CoqBool(st.panic),
			c18ZList(st.watch), c18ZList(st.lists))
	}
	b.WriteString("] " + c18ZList(res.windows) + " " + vh.CoqZ(int64(res.hungAt)) + " " + c18ZList(res.anoms))
	return b.String()
}

// ---- generators ----

// c18Gen keeps the Go-level sanity of a sequence: a subscription is used only
// after the Subscribe that created it; each actor ("controller") holds at
// most one subscription at a time and may re-subscribe after closing.
type c18Gen struct {
	nres, nactors int
	adv           bool
	nsub, nh      int
	slotSub       []int // actor -> subscription id or -1
	slotClosed    []bool
	slotOwnH      []int // actor -> last handler added with own timer through its current subscription, or -1
	slotRes       []int
	ops           []c18Op
	feat          map[string]bool
	// bookkeeping for features only
	openPerRes []int
	everOpen   []bool
	removed    []bool // actor: RemoveHandlers called on current subscription with nothing added since
}

func newC18Gen(nres, nactors int, adv bool) *c18Gen {
	g := &c18Gen{nres: nres, nactors: nactors, adv: adv, feat: map[string]bool{}}
	g.slotSub = make([]int, nactors)
	g.slotClosed = make([]bool, nactors)
	g.slotOwnH = make([]int, nactors)
	g.slotRes = make([]int, nactors)
	g.removed = make([]bool, nactors)
	for i := range g.slotSub {
		g.slotSub[i] = -1
		g.slotOwnH[i] = -1
	}
	g.openPerRes = make([]int, nres)
	g.everOpen = make([]bool, nres)
	return g
}

func (g *c18Gen) clone() *c18Gen {
	c := *g
	c.slotSub = append([]int(nil), g.slotSub...)
	c.slotClosed = append([]bool(nil), g.slotClosed...)
	c.slotOwnH = append([]int(nil), g.slotOwnH...)
	c.slotRes = append([]int(nil), g.slotRes...)
	c.removed = append([]bool(nil), g.removed...)
	c.openPerRes = append([]int(nil), g.openPerRes...)
	c.everOpen = append([]bool(nil), g.everOpen...)
	c.ops = append([]c18Op(nil), g.ops...)
	c.feat = map[string]bool{}
	for k, v := range g.feat {
		c.feat[k] = v
	}
	return &c
}

// abstract moves of actor a: 0 sub, 1 add, 2 addown, 3 rem, 4 close, 5 tick
func (g *c18Gen) actorMoveOK(a, mv int) bool {
	has := g.slotSub[a] >= 0
	switch mv {
	case 0:
		// actors subscribe in order (symmetry), and only when they hold nothing open
		if a > 0 && g.slotSub[a-1] < 0 {
			return false
		}
		return !has || g.slotClosed[a]
	case 1, 2, 3:
		return has
	case 4:
		// also through a subscription that was closed before: a repeated Close
		// must be a no-op (closeOnce)
		return has
	case 5:
		return has && g.slotOwnH[a] >= 0
	}
	return false
}

func (g *c18Gen) actorMove(a, mv, r int) {
	s := g.slotSub[a]
	switch mv {
	case 0:
		if g.everOpen[r] && g.openPerRes[r] == 0 {
			g.feat["resubscribe-after-last-close"] = true
		}
		g.slotSub[a], g.slotClosed[a], g.slotOwnH[a], g.slotRes[a], g.removed[a] = g.nsub, false, -1, r, false
		g.ops = append(g.ops, c18Op{Kind: "sub", R: r})
		g.nsub++
		g.openPerRes[r]++
		g.everOpen[r] = true
		if g.openPerRes[r] >= 2 {
			g.feat["shared-informer"] = true
		}
	case 1, 2:
		if g.slotClosed[a] {
			g.feat["add-after-close"] = true
		}
		if g.removed[a] {
			g.feat["add-after-remove"] = true
		}
		g.removed[a] = false
		g.ops = append(g.ops, c18Op{Kind: "add", S: s, H: g.nh, Own: mv == 2})
		if mv == 2 {
			g.slotOwnH[a] = g.nh
			g.feat["own-timer"] = true
		}
		g.nh++
	case 3:
		if g.removed[a] {
			g.feat["double-remove"] = true
		}
		g.removed[a] = true
		g.ops = append(g.ops, c18Op{Kind: "rem", S: s})
	case 4:
		if g.slotClosed[a] {
			g.feat["double-close"] = true
		} else {
			g.openPerRes[g.slotRes[a]]--
		}
		g.slotClosed[a] = true
		g.ops = append(g.ops, c18Op{Kind: "close", S: s})
	case 5:
		if g.removed[a] {
			g.feat["tick-after-remove"] = true
		}
		g.ops = append(g.ops, c18Op{Kind: "tick", S: s, H: g.slotOwnH[a]})
	}
}

func (g *c18Gen) event(r int, ek string, o int) {
	if g.openPerRes[r] == 0 {
		g.feat["event-without-subscriber"] = true
	}
	g.ops = append(g.ops, c18Op{Kind: "ev", R: r, EK: ek, O: o})
}

func (g *c18Gen) spec(stream string, seed uint64) c18Spec {
	feats := make([]string, 0, len(g.feat))
	for k := range g.feat {
		feats = append(feats, k)
	}
	sort.Strings(feats)
	return c18Spec{NRes: g.nres, Ops: g.ops, Stream: stream, Seed: seed, Features: feats}
}

var c18EventKinds = []string{"ADDED", "MODIFIED", "DELETED"}

// one random sequence: length in [minLen,maxLen]; moves are drawn with weights
// that keep most sequences busy (subscribers present, handlers added, events
// that mostly make sense for the server's content) while still producing the
// odd orders (use after close, double remove, events nobody sees, MODIFIED or
// DELETED of unknown objects)
func c18Random(r *vh.Rng, seed uint64, nres, nactors, minLen, maxLen int, adv bool, own bool) c18Spec {
	g := newC18Gen(nres, nactors, adv)
	n := minLen + r.Intn(maxLen-minLen+1)
	nobj := 2 + r.Intn(2)
	exists := make([][]bool, nres)
	for i := range exists {
		exists[i] = make([]bool, nobj)
	}
	handlers := make([]int, nactors) // handlers added through the actor's current subscription since its last removal
	event := func() {
		res, o := r.Intn(nres), r.Intn(nobj)
		ek := c18EventKinds[r.Intn(3)]
		if !r.Chance(1, 6) {
			if exists[res][o] {
				ek = c18EventKinds[1+r.Intn(2)]
			} else {
				ek = "ADDED"
			}
		}
		exists[res][o] = ek != "DELETED"
		g.event(res, ek, o)
	}
	for guard := 0; len(g.ops) < n && guard < 1000; guard++ {
		if g.nsub == 0 {
			if r.Chance(1, 6) {
				event()
			} else {
				g.actorMove(0, 0, r.Intn(nres))
			}
			continue
		}
		if r.Chance(3, 10) {
			event()
			continue
		}
		a := r.Intn(nactors)
		// weights: sub 3, add 4, addown 2, rem 2, close 2, tick 1
		mv := []int{0, 0, 0, 1, 1, 1, 1, 2, 2, 3, 3, 4, 4, 5}[r.Intn(14)]
		if g.slotSub[a] >= 0 && handlers[a] == 0 && (mv == 3 || mv == 4) && r.Chance(2, 3) {
			mv = 1
		}
		if !own && (mv == 2 || mv == 5) {
			mv = 1
		}
		if g.slotSub[a] >= 0 && g.slotClosed[a] && ((adv && r.Chance(1, 3)) || r.Chance(1, 8)) {
			mv = 4 // Close through a subscription that was closed before (more often in the adversarial stream)
		}
		if !g.actorMoveOK(a, mv) {
			if !g.actorMoveOK(a, 0) {
				continue
			}
			mv = 0
		}
		switch mv {
		case 0, 3:
			handlers[a] = 0
		case 1, 2:
			handlers[a]++
		}
		g.actorMove(a, mv, r.Intn(nres))
		if mv == 3 && g.slotOwnH[a] >= 0 && r.Chance(1, 2) && len(g.ops) < n {
			g.actorMove(a, 5, 0) // does the removed timer still fire?
		}
	}
	stream := "sample"
	if adv {
		stream = "adversarial"
	}
	return g.spec(fmt.Sprintf("%s-%dx%d", stream, nactors, nres), seed)
}

// all sequences of exactly the given length over `nactors` actors and one
// resource; withOwn adds the own-timer moves.
func c18Exhaustive(nactors, length int, withOwn bool, emit func(c18Spec)) {
	var rec func(g *c18Gen)
	moves := []int{0, 1, 3, 4}
	if withOwn {
		moves = []int{0, 1, 2, 3, 4, 5}
	}
	rec = func(g *c18Gen) {
		if len(g.ops) == length {
			emit(g.spec(fmt.Sprintf("exhaustive-%dx1-len%d", nactors, length), 0))
			return
		}
		for a := 0; a < nactors; a++ {
			for _, mv := range moves {
				if g.actorMoveOK(a, mv) {
					c := g.clone()
					c.actorMove(a, mv, 0)
					rec(c)
				}
			}
		}
		// events: "up" = ADDED of o0 (a MODIFIED in effect when it exists), "down" = DELETED of o0
		for _, ek := range []string{"ADDED", "DELETED"} {
			c := g.clone()
			c.event(0, ek, 0)
			rec(c)
		}
	}
	rec(newC18Gen(1, nactors, false))
}

func c18Corpus() []c18Spec {
	sub := func(r int) c18Op { return c18Op{Kind: "sub", R: r} }
	add := func(s, h int) c18Op { return c18Op{Kind: "add", S: s, H: h} }
	addown := func(s, h int) c18Op { return c18Op{Kind: "add", S: s, H: h, Own: true} }
	rem := func(s int) c18Op { return c18Op{Kind: "rem", S: s} }
	cl := func(s int) c18Op { return c18Op{Kind: "close", S: s} }
	ev := func(r int, k string, o int) c18Op { return c18Op{Kind: "ev", R: r, EK: k, O: o} }
	tick := func(s, h int) c18Op { return c18Op{Kind: "tick", S: s, H: h} }
	mk := func(nres int, feats []string, ops ...c18Op) c18Spec {
		return c18Spec{NRes: nres, Ops: ops, Stream: "corpus", Features: feats}
	}
	return []c18Spec{
		// two subscribers share one informer; events fan out; removal and close are per subscriber
		mk(1, []string{"shared-informer"}, sub(0), add(0, 0), sub(0), add(1, 1), ev(0, "ADDED", 0), rem(0), ev(0, "MODIFIED", 0), cl(0), ev(0, "DELETED", 0), cl(1)),
		// replay of the cache on add; close, re-subscribe, close (fresh informer lists again)
		mk(1, []string{"resubscribe-after-last-close"}, ev(0, "ADDED", 0), sub(0), ev(0, "ADDED", 1), add(0, 0), cl(0), ev(0, "DELETED", 0), sub(0), add(1, 1), cl(1)),
		// own timer: ticks while registered, none after removal
		mk(1, []string{"own-timer", "tick-after-remove"}, sub(0), ev(0, "ADDED", 0), addown(0, 0), tick(0, 0), rem(0), tick(0, 0), cl(0)),
		// handler added through a closed subscription while another keeps the informer alive; double remove
		mk(1, []string{"add-after-close", "double-remove"}, sub(0), sub(0), cl(0), add(0, 0), ev(0, "ADDED", 0), rem(0), rem(0), ev(0, "MODIFIED", 0), cl(1)),
		// handler added through a subscription of a stopped informer: replay of the stale cache, no events
		mk(1, []string{"add-after-close"}, sub(0), ev(0, "ADDED", 0), cl(0), ev(0, "ADDED", 1), add(0, 0), sub(0), add(1, 1), ev(0, "MODIFIED", 0), cl(1)),
		// two resources are independent
		mk(2, nil, sub(0), sub(1), add(0, 0), add(1, 1), ev(0, "ADDED", 0), ev(1, "ADDED", 1), cl(0), ev(0, "ADDED", 1), ev(1, "DELETED", 1), cl(1)),
		// odd events: MODIFIED of an unknown object, DELETED of an unknown object, ADDED twice
		mk(1, nil, sub(0), add(0, 0), ev(0, "MODIFIED", 0), ev(0, "DELETED", 1), ev(0, "ADDED", 0), ev(0, "DELETED", 0), cl(0)),
		// a resource discovery does not know yet: Resource() fails and must leave nothing behind;
		// once known: subscribe, close (stopped), subscribe again (fresh), close
		mk(3, []string{"failed-subscribe", "resubscribe-after-last-close"}, c18Op{Kind: "subu", R: 2}, c18Op{Kind: "subu", R: 2}, c18Op{Kind: "reveal", R: 2},
			sub(2), add(0, 0), ev(2, "ADDED", 0), cl(0), ev(2, "ADDED", 1), sub(2), add(1, 1), ev(2, "MODIFIED", 0), cl(1)),
		// the handler table goes empty while a subscription stays open; a handler added
		// afterwards must get its replay AND the later events
		mk(1, []string{"shared-informer", "table-empty-then-add"}, sub(0), add(0, 0), sub(0), ev(0, "ADDED", 0), rem(0), cl(0), add(1, 1), ev(0, "MODIFIED", 0), ev(0, "ADDED", 1), cl(1)),
		mk(1, []string{"table-empty-then-add"}, sub(0), add(0, 0), rem(0), rem(0), ev(0, "ADDED", 0), add(0, 1), ev(0, "DELETED", 0), cl(0)),
		// own resync timers of two subscribers: removal stops exactly the remover's timers
		mk(1, []string{"own-timer", "tick-after-remove", "shared-informer"}, sub(0), sub(0), ev(0, "ADDED", 0), ev(0, "ADDED", 1), addown(0, 0), addown(1, 1), addown(0, 2),
			rem(0), tick(0, 0), tick(0, 2), tick(1, 1), cl(0), tick(1, 1), rem(1), tick(1, 1), cl(1)),
		// a stale own timer (informer stopped, handlers never removed) keeps replaying the old cache
		mk(1, []string{"own-timer"}, sub(0), ev(0, "ADDED", 0), addown(0, 0), cl(0), ev(0, "ADDED", 1), tick(0, 0), sub(0), addown(1, 1), tick(1, 1), rem(0), tick(0, 0), cl(1)),
	}
}

func c18AdvCorpus() []c18Spec {
	sub := func(r int) c18Op { return c18Op{Kind: "sub", R: r} }
	add := func(s, h int) c18Op { return c18Op{Kind: "add", S: s, H: h} }
	cl := func(s int) c18Op { return c18Op{Kind: "close", S: s} }
	ev := func(r int, k string, o int) c18Op { return c18Op{Kind: "ev", R: r, EK: k, O: o} }
	mk := func(ops ...c18Op) c18Spec {
		return c18Spec{NRes: 1, Ops: ops, Stream: "corpus", Features: []string{"double-close"}}
	}
	return []c18Spec{
		// (before closeOnce: the informer stopped under B and B's own Close panicked)
		// A closes twice: nothing happens the second time, B keeps receiving
		mk(sub(0), sub(0), add(1, 0), cl(0), cl(0), ev(0, "ADDED", 0), cl(1)),
		// single subscriber closing twice (was: close of a closed channel)
		mk(sub(0), cl(0), cl(0)),
		// stale repeated close after a re-subscribe (was: panic)
		mk(sub(0), cl(0), sub(0), add(1, 0), cl(0), ev(0, "ADDED", 0), cl(1)),
		// stale repeated close with two new subscribers (was: silently took one of their references)
		mk(sub(0), cl(0), sub(0), sub(0), add(2, 0), cl(0), cl(1), ev(0, "ADDED", 0), cl(2)),
	}
}

// ---- the test ----

func c18Text(ops []c18Op) string {
	p := make([]string, len(ops))
	for i, o := range ops {
		p[i] = o.String()
	}
	return strings.Join(p, " ")
}

func c18Emit(t *testing.T, w *vh.CaseWriter, id string, res c18Result) {
	spec := res.spec
	feats := append([]string(nil), spec.Features...)
	nonSync, panicked, issues := 0, false, []string{}
	for _, st := range res.steps {
		nonSync += st.notes
		panicked = panicked || st.panic
		issues = append(issues, st.issues...)
	}
	if panicked {
		feats = append(feats, "panic")
	}
	if res.hungAt >= 0 {
		feats = append(feats, "operation-never-returned")
	}
	replay := map[string]interface{}{"seed": spec.Seed, "stream": spec.Stream, "nres": spec.NRes, "ops": spec.Ops,
		"features": feats, "text": c18Text(spec.Ops), "harness_issues": issues, "conc": spec.Conc,
		"hung_at_op": res.hungAt, "anomalies": res.anoms}
	if err := w.Add(id, c18CoqCase(res), "C18_check", replay); err != nil {
		t.Fatal(err)
	}
	w.Count("stream-" + strings.SplitN(spec.Stream, "-len", 2)[0])
	w.Count(fmt.Sprintf("len-%02d", len(spec.Ops)))
	for _, f := range feats {
		w.Count("feature-" + f)
	}
	for _, is := range issues {
		w.Count("harness-issue-" + is)
	}
	nsub := 0
	for _, op := range spec.Ops {
		if op.Kind == "sub" {
			nsub++
		}
	}
	if nsub >= 2 && nonSync > 0 {
		w.Count("nontrivial")
		w.NonTrivial(c18Text(spec.Ops))
	}
}

func TestVerif_C18(t *testing.T) {
	env := vh.GetEnv()
	if env.OutDir == "" {
		t.Skip("VERIF_OUT not set")
	}
	header := "From Coq Require Import ZArith.\nFrom MC Require Import Check.C18_check.\n"
	w, err := vh.NewCaseWriter(env.OutDir, "C18", header, 250)
	if err != nil {
		t.Fatal(err)
	}
	vh.Cur = nil // the case terms carry no strings
	if runtime.GOMAXPROCS(0) < 4 {
		defer runtime.GOMAXPROCS(runtime.GOMAXPROCS(4))
	}
	adv := os.Getenv("VERIF_ADV") == "1"

	var specs []c18Spec
	var ids []string
	push := func(id string, s c18Spec) { ids = append(ids, id); specs = append(specs, s) }

	if env.Replay != "" {
		data, err := os.ReadFile(env.Replay)
		if err != nil {
			t.Fatal(err)
		}
		var rf struct {
			Case c18Spec `json:"case"`
		}
		if err := json.Unmarshal(data, &rf); err != nil {
			t.Fatal(err)
		}
		push("replay", rf.Case)
	} else {
		for i, s := range c18Corpus() {
			push(fmt.Sprintf("k%d", i), s)
		}
		for i, s := range c18AdvCorpus() {
			push(fmt.Sprintf("ka%d", i), s)
		}
		// exhaustive part: every sequence over 2 subscribers and 1 resource
		// (quick: up to length 5, with own-timer moves up to 4; thorough: 6 and 5)
		plainMax, ownMax := 5, 4
		if env.Tier == "thorough" {
			plainMax, ownMax = 6, 5
		}
		if v := os.Getenv("VERIF_C18_EXH"); v != "" {
			fmt.Sscanf(v, "%d,%d", &plainMax, &ownMax)
		}
		if !adv {
			n := 0
			for l := 1; l <= plainMax; l++ {
				c18Exhaustive(2, l, false, func(s c18Spec) { push(fmt.Sprintf("x%d", n), s); n++ })
			}
			n = 0
			for l := 1; l <= ownMax; l++ {
				c18Exhaustive(2, l, true, func(s c18Spec) {
					if s.hasOwn() { // the others are in the plain enumeration
						push(fmt.Sprintf("y%d", n), s)
						n++
					}
				})
			}
		}
		// concurrent leg (both tiers, no race detector needed): rounds of 8
		// goroutines subscribing at once to a resource nobody holds yet
		// (30 full rounds: subscribe, close all but one, event, close; 300 short
		// rounds with only the subscribes, 4-12 goroutines)
		rounds := 30
		if env.Tier == "thorough" {
			rounds = 200
		}
		for i := 0; i < rounds; i++ {
			push(fmt.Sprintf("p%d", i), c18ConcurrentSpec(i, 8, true))
		}
		for i := 0; i < 10*rounds; i++ {
			push(fmt.Sprintf("ps%d", i), c18ConcurrentSpec(i, 4+i%9, false))
		}
		// close-vs-subscribe family (both tiers): last Close || Resource of the same key
		pinned, unpinned := 40, 120
		if env.Tier == "thorough" {
			pinned, unpinned = 200, 1500
		}
		for i := 0; i < pinned; i++ {
			push(fmt.Sprintf("cp%d", i), c18CloseVsSubscribeSpec(i, true))
		}
		for i := 0; i < unpinned; i++ {
			push(fmt.Sprintf("cu%d", i), c18CloseVsSubscribeSpec(i, false))
		}
		// tick-removal family (both tiers): RemoveEventHandlers() while a periodic resync is parked
		trounds := 2
		if env.Tier == "thorough" {
			trounds = 8
		}
		tn := 0
		for round := 0; round < trounds; round++ {
			for _, periodMs := range []int{1, 3} {
				for _, nobj := range []int{3, 4} {
					for who := 0; who < 2; who++ {
						for _, second := range []bool{false, true} {
							push(fmt.Sprintf("tr%d", tn), c18TickRemoveSpec(periodMs, nobj, who, second))
							tn++
						}
					}
				}
			}
		}
		// replay-window leg (both tiers): an object appears while a handler is
		// inside its add-time replay; window in the first / a middle / the last callback
		wrounds := 2
		if env.Tier == "thorough" {
			wrounds = 10
		}
		wn := 0
		for round := 0; round < wrounds; round++ {
			for ncache := 1; ncache <= 3; ncache++ {
				for blk := 0; blk < ncache; blk++ {
					for v := 0; v < 4; v++ {
						push(fmt.Sprintf("w%d", wn), c18WindowSpec(ncache, blk, v&1 == 1, v&2 == 2))
						wn++
					}
				}
			}
		}
		// removal-window leg (both tiers): RemoveEventHandlers() while a fan-out is parked
		rrounds := 2
		if env.Tier == "thorough" {
			rrounds = 10
		}
		wn = 0
		for round := 0; round < rrounds; round++ {
			for nPark := 1; nPark <= 3; nPark++ {
				for _, bFirst := range []bool{false, true} {
					for _, ek := range []string{"ADDED", "MODIFIED", "DELETED"} {
						push(fmt.Sprintf("rw%d", wn), c18RemoveWindowSpec(nPark, bFirst, ek, false))
						wn++
						if nPark == 2 && ek != "DELETED" {
							// with an own resync timer on the remover (cache not empty for MODIFIED)
							push(fmt.Sprintf("rw%d", wn), c18RemoveWindowSpec(nPark, bFirst, ek, true))
							wn++
						}
					}
				}
			}
		}
		// unknown-resource family (both tiers): failed Resource() calls
		nu := 150
		if env.Tier == "thorough" {
			nu = 2000
		}
		uroot := vh.NewRng(env.Seed ^ 0xc18e)
		for i := 0; i < nu; i++ {
			r, seed := uroot.Fork()
			push(fmt.Sprintf("u%d", i), c18UnknownSpec(r, seed))
		}
		// sampled part: the bigger spaces
		n := env.N
		if n == 0 {
			n = 600
		}
		root := vh.NewRng(env.Seed ^ 0xc18)
		for i := 0; i < n; i++ {
			r, seed := root.Fork()
			var s c18Spec
			switch i % 4 {
			case 0:
				s = c18Random(r, seed, 1, 2, 4, 6, adv, i%8 == 0)
			case 1:
				s = c18Random(r, seed, 2, 3, 4, 6, adv, i%8 == 1)
			case 2:
				s = c18Random(r, seed, 2, 3, 6, 10, adv, i%8 == 2)
			default:
				s = c18Random(r, seed, 1, 3, 6, 12, adv, i%8 == 3)
			}
			push(fmt.Sprintf("c%d", i), s)
		}
	}

	// run the cases on a few workers (each case has its own server and factory),
	// write them in order
	workers := 4
	if env.Tier == "thorough" {
		workers = 8
	}
	// results are written in order as soon as they are there, so that the case
	// files hold everything that ran even if the test binary dies later
	results := make([]c18Result, len(specs))
	ready := make([]bool, len(specs))
	var emitMu sync.Mutex
	emitted := 0
	var envErrs []string
	finish := func(i int, res c18Result) {
		emitMu.Lock()
		defer emitMu.Unlock()
		results[i], ready[i] = res, true
		for emitted < len(specs) && ready[emitted] {
			c18Emit(t, w, ids[emitted], results[emitted])
			for _, e := range results[emitted].goErrs {
				envErrs = append(envErrs, fmt.Sprintf("case %s: %s", ids[emitted], e))
			}
			results[emitted] = c18Result{}
			emitted++
		}
	}
	var wg sync.WaitGroup
	next := make(chan int)
	for k := 0; k < workers; k++ {
		wg.Add(1)
		go func() {
			defer wg.Done()
			for i := range next {
				finish(i, c18Run(specs[i]))
			}
		}()
	}
	for i := range specs {
		if specs[i].Conc == 0 && !specs[i].Solo {
			next <- i
		}
	}
	close(next)
	wg.Wait()
	// the concurrent rounds run alone, so that their goroutines really run at once
	for i := range specs {
		if specs[i].Conc > 0 || specs[i].Solo {
			finish(i, c18Run(specs[i]))
		}
	}
	// only failures of the harness's own environment fail the test; what the code
	// under test did wrong is in the cases and judged by C18_check
	for _, e := range envErrs {
		t.Errorf("C18 harness environment: %s", e)
	}
	if err := w.Close(map[string]interface{}{"workers": workers}); err != nil {
		t.Fatal(err)
	}
	fmt.Fprintf(os.Stderr, "C18: wrote %d cases\n", w.Total)
}

// TestVerif_C18_Race issues the same operations from concurrent goroutines
// (meant for `go test -race`): no panic, no deadlock, and once everybody has
// closed what it opened the factory holds nothing and the server sees no watch.
func TestVerif_C18_Race(t *testing.T) {
	env := vh.GetEnv()
	if env.Tier != "thorough" {
		t.Skip("VERIF_TIER != thorough")
	}
	rounds := 12
	for round := 0; round < rounds; round++ {
		c18RaceRound(t, env.Seed+uint64(round))
	}
}

func c18RaceRound(t *testing.T, seed uint64) {
	w := newC18World(2)
	defer w.shutdown()
	rec := &c18Rec{}
	root := vh.NewRng(seed ^ 0xc18ace)
	const goroutines = 4
	const opsEach = 250
	var wg sync.WaitGroup
	stopEvents := make(chan struct{})
	errs := make(chan string, 64)
	report := func(s string) {
		select {
		case errs <- s:
		default:
		}
	}
	// external object events
	var evwg sync.WaitGroup
	evwg.Add(1)
	evRng, _ := root.Fork()
	go func() {
		defer evwg.Done()
		for i := 0; ; i++ {
			select {
			case <-stopEvents:
				return
			default:
			}
			res := c18Resources[evRng.Intn(2)]
			name := fmt.Sprintf("o%d", evRng.Intn(3))
			stored := w.srv.Seed(map[string]interface{}{"apiVersion": res.APIVersion(), "kind": res.Kind,
				"metadata": map[string]interface{}{"name": name, "namespace": c18Namespace,
					"labels": map[string]interface{}{"rev": fmt.Sprintf("%d", i)}}})
			if evRng.Chance(1, 4) {
				w.srv.RemoveLive(res.APIVersion(), res.Kind, c18Namespace, name)
				w.srv.Emit("DELETED", stored)
			} else {
				w.srv.Emit("MODIFIED", stored)
			}
			time.Sleep(200 * time.Microsecond)
		}
	}()
	for g := 0; g < goroutines; g++ {
		r, _ := root.Fork()
		wg.Add(1)
		go func(g int, r *vh.Rng) {
			defer wg.Done()
			defer func() {
				if p := recover(); p != nil {
					report(fmt.Sprintf("goroutine %d panicked: %v", g, p))
				}
			}()
			var open []*ResourceInformer
			h := 0
			for i := 0; i < opsEach; i++ {
				switch mv := r.Intn(6); {
				case mv == 0 || len(open) == 0:
					if len(open) >= 3 {
						continue
					}
					res := c18Resources[r.Intn(2)]
					ri, err := w.factory.Resource(res.APIVersion(), res.Resource)
					if err != nil {
						report(err.Error())
						return
					}
					if r.Bool() {
						c18Until(2*time.Second, ri.Informer().HasSynced)
					}
					open = append(open, ri)
				case mv == 1:
					open[r.Intn(len(open))].Informer().AddEventHandler(rec.handler(g, h))
					h++
				case mv == 2:
					open[r.Intn(len(open))].Informer().AddEventHandlerWithResyncPeriod(rec.handler(g, h), time.Millisecond)
					h++
				case mv == 3:
					open[r.Intn(len(open))].Informer().RemoveEventHandlers()
				case mv == 4:
					k := r.Intn(len(open))
					open[k].Informer().RemoveEventHandlers()
					open[k].Close()
					open = append(open[:k], open[k+1:]...)
				default:
					_, _ = open[r.Intn(len(open))].Lister().List(labels.Everything())
					rec.take()
				}
			}
			for _, ri := range open {
				ri.Informer().RemoveEventHandlers()
				ri.Close()
			}
		}(g, r)
	}
	done := make(chan struct{})
	go func() { wg.Wait(); close(done) }()
	select {
	case <-done:
	case <-time.After(120 * time.Second):
		t.Fatalf("C18 race: deadlock (operations did not finish)")
	}
	close(stopEvents)
	evwg.Wait()
	close(errs)
	for e := range errs {
		t.Errorf("C18 race: %s", e)
	}
	w.factory.mutex.Lock()
	nref, ninf := len(w.factory.refCount), len(w.factory.sharedInformers)
	w.factory.mutex.Unlock()
	if nref != 0 || ninf != 0 {
		t.Errorf("C18 race: after every subscription was closed the factory still holds refCount=%d sharedInformers=%d entries", nref, ninf)
	}
	for r := 0; r < 2; r++ {
		r := r
		if !c18Until(3*time.Second, func() bool { return w.watchCount(r) == 0 }) {
			t.Errorf("C18 race: resource %d still has %d open watches after the last close", r, w.watchCount(r))
		}
	}
	// nothing is delivered once every handler was removed
	rec.take()
	time.Sleep(5 * time.Millisecond)
	if late := rec.take(); len(late) > 0 {
		t.Errorf("C18 race: %d notifications after every handler was removed", len(late))
	}
}
