package customize

// C15m: the two pure functions behind "a related object's change wakes its
// parent" — determineSelectionType and matchesRelatedRule — called directly on
// (rule, parent, object) triples. The rule is decoded from JSON exactly as a
// customize hook response is (sigs.k8s.io/json into CustomizeHookResponse).

import (
	"fmt"
	"os"
	"testing"

	"k8s.io/apimachinery/pkg/apis/meta/v1/unstructured"
	"k8s.io/apimachinery/pkg/runtime"
	k8sjson "k8s.io/apimachinery/pkg/util/json"
	kjson "sigs.k8s.io/json"

	"metacontroller/pkg/apis/metacontroller/v1alpha1"
	v1 "metacontroller/pkg/controller/common/customize/api/v1"
	vh "metacontroller/pkg/internal/verifh"
)

type c15mJ = map[string]interface{}
type c15mA = []interface{}

type c15mCase struct {
	ParentNamespaced bool        `json:"parentNamespaced"`
	Parent           c15mJ       `json:"parent"`
	Obj              c15mJ       `json:"obj"`
	Rule             interface{} `json:"rule"`
	Kind             string      `json:"kind"`
	Feature          string      `json:"feature"`
	PFeature         string      `json:"parentFeature"`
}

type c15mObs struct {
	Decoded bool
	Sel     string
	Match   string
}

func c15mDecode(rule interface{}) (*v1alpha1.RelatedResourceRule, bool) {
	body, err := k8sjson.Marshal(c15mJ{"relatedResources": c15mA{rule}})
	if err != nil {
		return nil, false
	}
	var resp v1.CustomizeHookResponse
	if _, err := kjson.UnmarshalStrict(body, &resp); err != nil {
		return nil, false
	}
	if len(resp.RelatedResourceRules) != 1 {
		return nil, false
	}
	return resp.RelatedResourceRules[0], true
}

func c15mObserve(c *c15mCase) c15mObs {
	var o c15mObs
	rule, ok := c15mDecode(c.Rule)
	o.Decoded = ok
	if !ok {
		return o
	}
	func() {
		defer func() {
			if r := recover(); r != nil {
				o.Sel = "panic"
			}
		}()
		t, _ := determineSelectionType(rule)
		switch t {
		case selectByLabels:
			o.Sel = "Labels"
		case selectByNamespaceAndNames:
			o.Sel = "NamesNs"
		default:
			o.Sel = "Invalid"
		}
	}()
	func() {
		defer func() {
			if r := recover(); r != nil {
				o.Match = "MPanic"
			}
		}()
		parent := &unstructured.Unstructured{Object: runtime.DeepCopyJSON(c.Parent)}
		obj := &unstructured.Unstructured{Object: runtime.DeepCopyJSON(c.Obj)}
		m, err := matchesRelatedRule(c.ParentNamespaced, parent, obj, rule, c.Kind)
		switch {
		case err != nil:
			o.Match = "MErr"
		case m:
			o.Match = "MTrue"
		default:
			o.Match = "MFalse"
		}
	}()
	return o
}

func c15mCoq(c *c15mCase, o c15mObs) string {
	match := o.Match
	if match == "" {
		match = "MErr"
	}
	return fmt.Sprintf("mkC15m %s %s %s %s %s %s %s %s", vh.CoqBool(c.ParentNamespaced),
		vh.MustCoqJSON(map[string]interface{}(c.Parent)), vh.MustCoqJSON(map[string]interface{}(c.Obj)),
		vh.MustCoqJSON(c.Rule), vh.MustCoqString(c.Kind), vh.CoqBool(o.Decoded), vh.MustCoqString(o.Sel), match)
}

// ---- the space ----

type c15mRule struct {
	feature string
	rule    interface{}
}

func c15mRules() []c15mRule {
	pods := func(extra c15mJ) c15mJ {
		r := c15mJ{"apiVersion": "v1", "resource": "pods"}
		for k, v := range extra {
			r[k] = v
		}
		return r
	}
	sel := func(s c15mJ) c15mJ { return pods(c15mJ{"labelSelector": s}) }
	expr := func(key, op string, vals c15mA) c15mJ {
		e := c15mJ{"key": key, "operator": op}
		if vals != nil {
			e["values"] = vals
		}
		return sel(c15mJ{"matchExpressions": c15mA{e}})
	}
	return []c15mRule{
		{"select-all", pods(nil)},
		{"select-all-explicit-nulls", pods(c15mJ{"labelSelector": nil, "namespace": "", "names": c15mA{}})},
		{"names-null", pods(c15mJ{"names": nil})},
		{"labels-empty-selector", sel(c15mJ{})},
		{"labels-matchLabels", sel(c15mJ{"matchLabels": c15mJ{"tier": "x"}})},
		{"labels-matchLabels2", sel(c15mJ{"matchLabels": c15mJ{"tier": "x", "env": "p"}})},
		{"labels-matchLabels-null", sel(c15mJ{"matchLabels": nil, "matchExpressions": nil})},
		{"labels-expr-in", expr("tier", "In", c15mA{"x", "z"})},
		{"labels-expr-notin", expr("tier", "NotIn", c15mA{"x"})},
		{"labels-expr-exists", expr("env", "Exists", nil)},
		{"labels-expr-doesnotexist", expr("env", "DoesNotExist", c15mA{})},
		{"labels-expr-and-labels", pods(c15mJ{"labelSelector": c15mJ{"matchLabels": c15mJ{"env": "p"}, "matchExpressions": c15mA{c15mJ{"key": "tier", "operator": "In", "values": c15mA{"x"}}}}})},
		{"labels-and-expr-notin", pods(c15mJ{"labelSelector": c15mJ{"matchLabels": c15mJ{"env": "p"}, "matchExpressions": c15mA{c15mJ{"key": "tier", "operator": "NotIn", "values": c15mA{"y"}}}}})},
		{"labels-and-expr-exists", pods(c15mJ{"labelSelector": c15mJ{"matchLabels": c15mJ{"env": "p"}, "matchExpressions": c15mA{c15mJ{"key": "tier", "operator": "Exists"}}}})},
		{"labels-and-expr-doesnotexist", pods(c15mJ{"labelSelector": c15mJ{"matchLabels": c15mJ{"env": "p"}, "matchExpressions": c15mA{c15mJ{"key": "tier", "operator": "DoesNotExist"}}}})},
		{"selector-in-without-values", expr("tier", "In", c15mA{})},
		{"selector-exists-with-values", expr("tier", "Exists", c15mA{"x"})},
		{"selector-unknown-operator", expr("tier", "Near", c15mA{"x"})},
		{"selector-missing-operator", sel(c15mJ{"matchExpressions": c15mA{c15mJ{"key": "tier"}}})},
		{"selector-null-requirement", sel(c15mJ{"matchExpressions": c15mA{nil}})},
		{"namespace-own", pods(c15mJ{"namespace": "ns1"})},
		{"namespace-other", pods(c15mJ{"namespace": "ns2"})},
		{"names-only", pods(c15mJ{"names": c15mA{"a", "c"}})},
		{"names-only-miss", pods(c15mJ{"names": c15mA{"zz"}})},
		{"namespace-and-names", pods(c15mJ{"namespace": "ns1", "names": c15mA{"a"}})},
		{"namespace-other-and-names", pods(c15mJ{"namespace": "ns2", "names": c15mA{"a", "b"}})},
		{"names-null-entry", pods(c15mJ{"names": c15mA{nil, "a"}})},
		{"both-selector-and-names", pods(c15mJ{"labelSelector": c15mJ{}, "names": c15mA{"a"}})},
		{"both-selector-and-namespace", pods(c15mJ{"labelSelector": c15mJ{"matchLabels": c15mJ{"tier": "x"}}, "namespace": "ns1"})},
		{"both-bad-selector-and-names", pods(c15mJ{"labelSelector": c15mJ{"matchExpressions": c15mA{c15mJ{"key": "tier", "operator": "Near"}}}, "names": c15mA{"a"}})},
		{"other-resource", c15mJ{"apiVersion": "apps.example.com/v1", "resource": "widgets"}},
		{"other-resource-names", c15mJ{"apiVersion": "apps.example.com/v1", "resource": "widgets", "names": c15mA{"a"}}},
		{"unknown-fields", pods(c15mJ{"Namespace": "ns2", "extra": c15mJ{"x": int64(1)}, "names": c15mA{"a"}})},
		// a nil rule: GetRelatedObjects refuses it and findRelatedParents skips it (D22 repaired), so the two
		// functions are no longer reached with nil; called directly they still dereference it. The triples stay
		// in the stream: the check confirms the panic (as the model says) and reports SKIP "precondition violated".
		{"null-rule", nil},
		{"wrong-type-names", pods(c15mJ{"names": "a"})},
		{"wrong-type-namespace", pods(c15mJ{"namespace": int64(5)})},
		{"wrong-type-selector", pods(c15mJ{"labelSelector": c15mA{}})},
		{"wrong-type-matchLabels", sel(c15mJ{"matchLabels": c15mA{"tier"}})},
		{"wrong-type-label-value", sel(c15mJ{"matchLabels": c15mJ{"tier": int64(1)}})},
		{"wrong-type-apiVersion", c15mJ{"apiVersion": true, "resource": "pods"}},
		{"wrong-type-rule", "pods"},
		{"wrong-type-values", sel(c15mJ{"matchExpressions": c15mA{c15mJ{"key": "tier", "operator": "In", "values": "x"}}})},
		{"label-syntax-outside-domain", sel(c15mJ{"matchLabels": c15mJ{"Tier/x_y": "A.b"}})},
	}
}

func c15mObj(av, kind, ns, name string, labels c15mJ) c15mJ {
	md := c15mJ{"name": name}
	if ns != "" {
		md["namespace"] = ns
	}
	if labels != nil {
		md["labels"] = labels
	}
	return c15mJ{"apiVersion": av, "kind": kind, "metadata": md}
}

func c15mObjects() []c15mJ {
	return []c15mJ{
		c15mObj("v1", "Pod", "ns1", "a", c15mJ{"tier": "x", "env": "p"}),
		c15mObj("v1", "Pod", "ns1", "b", c15mJ{"tier": "y"}),
		c15mObj("v1", "Pod", "ns2", "a", c15mJ{"tier": "x"}),
		c15mObj("v1", "Pod", "ns2", "c", nil),
		c15mObj("v1", "Pod", "ns3", "b", c15mJ{"env": "q", "tier": "z"}),
		c15mObj("v1", "Pod", "ns1", "d", c15mJ{"tier": "y", "env": "p"}), // passes matchLabels env=p, fails tier In [x] / NotIn [y]
		c15mObj("v1", "Pod", "ns1", "e", c15mJ{"env": "p"}),              // passes matchLabels, has no tier
		c15mObj("v1", "Pod", "ns1", "c", c15mJ{"tier": int64(3)}),        // labels that are not all strings read as no labels
		c15mObj("apps.example.com/v1", "Widget", "ns1", "a", c15mJ{"tier": "x"}),
		c15mObj("v1", "Namespace", "", "ns1", c15mJ{"tier": "x"}),
		c15mObj("v1", "Pod", "", "a", c15mJ{"tier": "x"}), // a namespaced kind without a namespace
	}
}

type c15mParent struct {
	namespaced bool
	obj        c15mJ
	feature    string
}

func c15mParents() []c15mParent {
	return []c15mParent{
		{true, c15mObj("ctl.example.com/v1", "Thing", "ns1", "p1", nil), "parent-namespaced"},
		{true, c15mObj("ctl.example.com/v1", "Thing", "ns2", "p1", nil), "parent-namespaced-ns2"},
		{false, c15mObj("ctl.example.com/v1", "ClusterThing", "", "p1", nil), "parent-cluster-scoped"},
		{true, c15mObj("ctl.example.com/v1", "Thing", "", "p1", nil), "parent-scope-inconsistent"},
		{false, c15mObj("ctl.example.com/v1", "ClusterThing", "ns1", "p1", nil), "parent-scope-inconsistent"},
	}
}

func c15mKindOf(rule interface{}) string {
	if m, ok := rule.(c15mJ); ok {
		if m["resource"] == "widgets" {
			return "Widget"
		}
	}
	return "Pod"
}

func c15mSpace() []*c15mCase {
	var out []*c15mCase
	for _, ru := range c15mRules() {
		for _, p := range c15mParents() {
			for _, o := range c15mObjects() {
				out = append(out, &c15mCase{ParentNamespaced: p.namespaced, Parent: p.obj, Obj: o, Rule: ru.rule,
					Kind: c15mKindOf(ru.rule), Feature: ru.feature, PFeature: p.feature})
			}
		}
	}
	return out
}

func TestVerif_C15m(t *testing.T) {
	env := vh.GetEnv()
	if env.OutDir == "" {
		t.Skip("VERIF_OUT not set")
	}
	header := "From MC Require Import Check.C15_check.\nOpen Scope string_scope.\n"
	w, err := vh.NewCaseWriter(env.OutDir, "C15m", header, 400)
	if err != nil {
		t.Fatal(err)
	}
	var cases []*c15mCase
	if env.Replay != "" {
		data, err := os.ReadFile(env.Replay)
		if err != nil {
			t.Fatal(err)
		}
		var rf struct {
			Case struct {
				Triple *c15mCase `json:"triple"`
			} `json:"case"`
		}
		if err := k8sjson.Unmarshal(data, &rf); err != nil || rf.Case.Triple == nil {
			t.Fatalf("cannot read replay: %v", err)
		}
		cases = append(cases, rf.Case.Triple)
	} else {
		all := c15mSpace()
		n := env.N
		if n == 0 || n >= len(all) || env.Tier == "thorough" {
			cases = all
		} else {
			// a seeded sample of the enumeration, every rule shape kept at least once
			r := vh.NewRng(env.Seed ^ 0xc15a)
			per := len(c15mParents()) * len(c15mObjects())
			seen := map[int]bool{}
			for i := 0; i*per < len(all); i++ {
				j := i*per + r.Intn(per)
				seen[j] = true
			}
			for len(seen) < n {
				seen[r.Intn(len(all))] = true
			}
			for j := range all {
				if seen[j] {
					cases = append(cases, all[j])
				}
			}
		}
	}
	for i, c := range cases {
		o := c15mObserve(c)
		id := fmt.Sprintf("m%d", i)
		replay := c15mJ{"triple": c, "decoded": o.Decoded, "selectionType": o.Sel, "matches": o.Match, "features": []string{c.Feature, c.PFeature}}
		if err := w.Add(id, c15mCoq(c, o), "C15m_check", replay); err != nil {
			t.Fatal(err)
		}
		w.Count("rule-" + c.Feature)
		w.Count(c.PFeature)
		w.Count("match-" + o.Match)
		w.Count("selection-" + o.Sel)
		if !o.Decoded {
			w.Count("rule-not-decodable")
		}
		if o.Match == "MTrue" || o.Match == "MErr" || o.Match == "MPanic" {
			w.NonTrivial(vh.Sig(c.Feature, c.PFeature, fmt.Sprint(c.Parent), fmt.Sprint(c.Obj), o.Match))
		}
	}
	if err := w.Close(nil); err != nil {
		t.Fatal(err)
	}
}
