package customize

// Harness of property C14, related-object part: customize.Manager's REAL
// onRelatedAdd / onRelatedUpdate / onRelatedDelete (-> notifyRelatedParents ->
// findRelatedParents) are called directly on a Manager whose parent informers
// are synced from the simulated API server and whose customize answers come
// from a scripted hook (half of them pre-filled into the response cache).  The
// observation is the list of parents handed to enqueueParent.  Every identifier
// is prefixed c14r (the directory is shared with the C15 harness).

import (
	"encoding/json"
	"fmt"
	"os"
	"sort"
	"strings"
	"sync"
	"testing"
	"time"

	"github.com/go-logr/logr"
	metav1 "k8s.io/apimachinery/pkg/apis/meta/v1"
	"k8s.io/apimachinery/pkg/apis/meta/v1/unstructured"
	"k8s.io/apimachinery/pkg/runtime"
	"k8s.io/apimachinery/pkg/runtime/schema"
	"k8s.io/apimachinery/pkg/types"
	"k8s.io/client-go/discovery"
	clientgocache "k8s.io/client-go/tools/cache"

	"metacontroller/pkg/apis/metacontroller/v1alpha1"
	"metacontroller/pkg/controller/common"
	"metacontroller/pkg/controller/common/api"
	v1 "metacontroller/pkg/controller/common/customize/api/v1"
	dynamicclientset "metacontroller/pkg/dynamic/clientset"
	dynamicdiscovery "metacontroller/pkg/dynamic/discovery"
	dynamicinformer "metacontroller/pkg/dynamic/informer"
	vh "metacontroller/pkg/internal/verifh"
	sim "metacontroller/pkg/internal/verifsim"
	"metacontroller/pkg/logging"
)

type c14rJ = map[string]interface{}
type c14rA = []interface{}

var c14rSimResources = []sim.Resource{
	{Group: "ctl.example.com", Version: "v1", Resource: "things", Kind: "Thing", Namespaced: true, HasStatus: true},
	{Group: "ctl.example.com", Version: "v1", Resource: "clusterthings", Kind: "ClusterThing", Namespaced: false, HasStatus: true},
	{Group: "", Version: "v1", Resource: "pods", Kind: "Pod", Namespaced: true, HasStatus: true},
	{Group: "apps.example.com", Version: "v1", Resource: "widgets", Kind: "Widget", Namespaced: true, HasStatus: false},
	{Group: "", Version: "v1", Resource: "namespaces", Kind: "Namespace", Namespaced: false, HasStatus: true},
}

func c14rKindOf(apiVersion, resource string) (string, bool) {
	for _, r := range c14rSimResources {
		if r.APIVersion() == apiVersion && r.Resource == resource {
			return r.Kind, true
		}
	}
	return "", false
}

// ---- description of a world (data: a case replays from its JSON) ----
type c14rReq struct {
	Key    string   `json:"key"`
	Op     string   `json:"operator"`
	Values []string `json:"values,omitempty"`
}

type c14rSel struct {
	Match map[string]string `json:"matchLabels,omitempty"`
	Exprs []c14rReq         `json:"matchExpressions,omitempty"`
}

type c14rRule struct {
	APIVersion string   `json:"apiVersion"`
	Resource   string   `json:"resource"`
	Selector   *c14rSel `json:"labelSelector,omitempty"`
	Namespace  string   `json:"namespace,omitempty"`
	Names      []string `json:"names,omitempty"`
}

type c14rAnswer struct {
	UID        string     `json:"uid"`
	Generation int64      `json:"generation"`
	Rules      []c14rRule `json:"rules"`
	Prefilled  bool       `json:"prefilled"` // already in the response cache (else the hook is asked)
}

type c14rWorldSpec struct {
	TwoKinds bool         `json:"twoKinds"` // things + clusterthings as parents
	Parents  []c14rJ      `json:"parents"`
	Answers  []c14rAnswer `json:"answers"`
}

type c14rEvent struct {
	Kind string `json:"kind"` // add | update | delete | tombstone
	Old  c14rJ  `json:"old,omitempty"`
	Obj  c14rJ  `json:"obj"`
	Key  string `json:"key,omitempty"`
	Role string `json:"role"`
}

func (r *c14rRule) api() *v1alpha1.RelatedResourceRule {
	out := &v1alpha1.RelatedResourceRule{Namespace: r.Namespace, Names: r.Names}
	out.APIVersion = r.APIVersion
	out.Resource = r.Resource
	if r.Selector != nil {
		ls := &metav1.LabelSelector{MatchLabels: r.Selector.Match}
		for _, e := range r.Selector.Exprs {
			ls.MatchExpressions = append(ls.MatchExpressions, metav1.LabelSelectorRequirement{Key: e.Key, Operator: metav1.LabelSelectorOperator(e.Op), Values: e.Values})
		}
		out.LabelSelector = ls
	}
	return out
}

func (a *c14rAnswer) response() *v1.CustomizeHookResponse {
	resp := &v1.CustomizeHookResponse{}
	for i := range a.Rules {
		resp.RelatedResourceRules = append(resp.RelatedResourceRules, a.Rules[i].api())
	}
	return resp
}

// the scripted customize hook
type c14rHook struct {
	answers map[string]*c14rAnswer
}

func c14rAnswerKey(uid string, gen int64) string { return fmt.Sprintf("%s|%d", uid, gen) }

func (h *c14rHook) IsEnabled() bool { return true }
func (h *c14rHook) Call(request api.WebhookRequest, response interface{}) error {
	req, ok := request.(*v1.CustomizeHookRequest)
	if !ok || req.Parent == nil {
		return fmt.Errorf("c14r: unexpected request")
	}
	a := h.answers[c14rAnswerKey(string(req.Parent.GetUID()), req.Parent.GetGeneration())]
	if a == nil {
		return fmt.Errorf("c14r: hook unavailable (simulated)")
	}
	*(response.(*v1.CustomizeHookResponse)) = *a.response()
	return nil
}

var c14rOnce sync.Once

type c14rLive struct {
	spec      *c14rWorldSpec
	srv       *sim.Server
	resources *dynamicdiscovery.ResourceMap
	informers []*dynamicinformer.ResourceInformer
	rm        *Manager
	notified  []string
	cache     []c14rJ
}

func c14rCanon(o c14rJ) c14rJ {
	v, err := vh.Canon(map[string]interface{}(o))
	if err != nil {
		panic(err)
	}
	m, _ := v.(map[string]interface{})
	return m
}

func c14rDKey(o c14rJ) string {
	md, _ := o["metadata"].(map[string]interface{})
	ns, _ := md["namespace"].(string)
	n, _ := md["name"].(string)
	av, _ := o["apiVersion"].(string)
	k, _ := o["kind"].(string)
	return av + ":" + k + ":" + ns + ":" + n
}

func c14rBuild(spec *c14rWorldSpec) (*c14rLive, error) {
	c14rOnce.Do(func() { logging.Logger = logr.Discard() })
	srv := sim.NewServer(c14rSimResources)
	for _, p := range spec.Parents {
		srv.Seed(runtime.DeepCopyJSON(p))
	}
	cfg := srv.RestConfig()
	resources := dynamicdiscovery.NewResourceMap(discovery.NewDiscoveryClientForConfigOrDie(cfg))
	resources.Start(time.Hour)
	for i := 0; !resources.HasSynced(); i++ {
		if i > 5000 {
			panic("discovery never synced")
		}
		time.Sleep(time.Millisecond)
	}
	dynClient, err := dynamicclientset.New(cfg, resources)
	if err != nil {
		return nil, err
	}
	dynInformers := dynamicinformer.NewSharedInformerFactory(dynClient, time.Hour)
	l := &c14rLive{spec: spec, srv: srv, resources: resources}
	parentInformers := make(common.InformerMap)
	parentKinds := make(common.GroupKindMap)
	kinds := [][2]string{{"ctl.example.com/v1", "things"}}
	if spec.TwoKinds {
		kinds = append(kinds, [2]string{"ctl.example.com/v1", "clusterthings"})
	}
	for _, k := range kinds {
		res := resources.Get(k[0], k[1])
		if res == nil {
			return nil, fmt.Errorf("resource %v not discovered", k)
		}
		inf, err := dynInformers.Resource(k[0], k[1])
		if err != nil {
			return nil, err
		}
		gv, _ := schema.ParseGroupVersion(k[0])
		parentInformers.Set(gv.WithResource(k[1]), inf)
		parentKinds.Set(schema.GroupKind{Group: res.Group, Kind: res.Kind}, res)
		l.informers = append(l.informers, inf)
	}
	deadline := time.Now().Add(10 * time.Second)
	for _, inf := range l.informers {
		for !inf.Informer().HasSynced() {
			if time.Now().After(deadline) {
				return nil, fmt.Errorf("informers never synced")
			}
			time.Sleep(200 * time.Microsecond)
		}
	}
	enqueue := func(obj interface{}) {
		if u, ok := obj.(*unstructured.Unstructured); ok {
			l.notified = append(l.notified, c14rDKey(u.Object))
		} else {
			l.notified = append(l.notified, fmt.Sprintf("!%T", obj))
		}
	}
	rm, err := NewCustomizeManager("c14r", enqueue, &v1alpha1.CompositeController{}, dynClient, dynInformers,
		parentInformers, parentKinds, logr.Discard(), common.CompositeController)
	if err != nil {
		return nil, err
	}
	hook := &c14rHook{answers: map[string]*c14rAnswer{}}
	for i := range spec.Answers {
		a := &spec.Answers[i]
		hook.answers[c14rAnswerKey(a.UID, a.Generation)] = a
		if a.Prefilled {
			rm.customizeCache.Set(customizeKey{uid: types.UID(a.UID), parentGeneration: a.Generation}, a.response())
		}
	}
	rm.customizeHook = hook
	l.rm = rm
	for _, inf := range l.informers {
		for _, o := range inf.Informer().GetIndexer().List() {
			l.cache = append(l.cache, runtime.DeepCopyJSON(o.(*unstructured.Unstructured).Object))
		}
	}
	sort.Slice(l.cache, func(i, j int) bool { return c14rDKey(l.cache[i]) < c14rDKey(l.cache[j]) })
	return l, nil
}

func (l *c14rLive) close() {
	for _, inf := range l.informers {
		inf.Close()
	}
	l.rm.Stop()
	l.resources.Stop()
	l.srv.Close()
}

func c14rU(o c14rJ) *unstructured.Unstructured {
	return &unstructured.Unstructured{Object: runtime.DeepCopyJSON(o)}
}

func (l *c14rLive) run(ev *c14rEvent) (keys []string) {
	l.notified = nil
	func() {
		defer func() {
			if r := recover(); r != nil {
				l.notified = append(l.notified, "!panic")
			}
		}()
		switch ev.Kind {
		case "add":
			l.rm.onRelatedAdd(c14rU(ev.Obj))
		case "update":
			l.rm.onRelatedUpdate(c14rU(ev.Old), c14rU(ev.Obj))
		case "delete":
			l.rm.onRelatedDelete(c14rU(ev.Obj))
		case "tombstone":
			l.rm.onRelatedDelete(clientgocache.DeletedFinalStateUnknown{Key: ev.Key, Obj: c14rU(ev.Obj)})
		default:
			panic("c14r: unknown event kind " + ev.Kind)
		}
	}()
	keys = append([]string{}, l.notified...)
	return keys
}

// ---- Coq terms ----
func c14rCoqSel(s *c14rSel) string {
	if s == nil {
		return "None"
	}
	ops := map[string]string{"In": "OpIn", "NotIn": "OpNotIn", "Exists": "OpExists", "DoesNotExist": "OpDoesNotExist"}
	keys := make([]string, 0, len(s.Match))
	for k := range s.Match {
		keys = append(keys, k)
	}
	sort.Strings(keys)
	var parts []string
	for _, k := range keys {
		parts = append(parts, fmt.Sprintf("mkReq %s OpIn [%s]", vh.MustCoqString(k), vh.MustCoqString(s.Match[k])))
	}
	for _, e := range s.Exprs {
		op, ok := ops[e.Op]
		valid := ok
		if (e.Op == "In" || e.Op == "NotIn") && len(e.Values) == 0 {
			valid = false
		}
		if (e.Op == "Exists" || e.Op == "DoesNotExist") && len(e.Values) != 0 {
			valid = false
		}
		if !valid {
			return "(Some None)" // metav1.LabelSelectorAsSelector fails
		}
		parts = append(parts, fmt.Sprintf("mkReq %s %s %s", vh.MustCoqString(e.Key), op, vh.CoqStringList(e.Values)))
	}
	return "(Some (Some (SelReqs [" + strings.Join(parts, "; ") + "])))"
}

func c14rCoqRule(r *c14rRule) string {
	kind := "None"
	if k, ok := c14rKindOf(r.APIVersion, r.Resource); ok {
		kind = "(Some " + vh.MustCoqString(k) + ")"
	}
	return fmt.Sprintf("mkRR %s %s %s %s %s", vh.MustCoqString(r.APIVersion), kind, c14rCoqSel(r.Selector),
		vh.MustCoqString(r.Namespace), vh.CoqStringList(r.Names))
}

func c14rCoqCase(l *c14rLive, ev *c14rEvent, keys []string) string {
	kinds := `("ctl.example.com", "Thing", true)`
	if l.spec.TwoKinds {
		kinds += `; ("ctl.example.com", "ClusterThing", false)`
	}
	var answers []string
	for i := range l.spec.Answers {
		a := &l.spec.Answers[i]
		var rules []string
		for j := range a.Rules {
			rules = append(rules, c14rCoqRule(&a.Rules[j]))
		}
		answers = append(answers, fmt.Sprintf("(%s, %s, [%s])", vh.MustCoqString(a.UID), vh.CoqZ(a.Generation), strings.Join(rules, "; ")))
	}
	parents := make([]string, len(l.cache))
	for i, o := range l.cache {
		parents[i] = vh.MustCoqJSON(map[string]interface{}(o))
	}
	obj := vh.MustCoqJSON(map[string]interface{}(ev.Obj))
	var e string
	switch ev.Kind {
	case "add":
		e = "(EAdd " + obj + ")"
	case "update":
		e = "(EUpdate " + vh.MustCoqJSON(map[string]interface{}(ev.Old)) + " " + obj + ")"
	case "delete":
		e = "(EDelete " + obj + ")"
	default:
		e = "(EDeleteTombstone " + vh.MustCoqString(ev.Key) + " " + obj + ")"
	}
	return fmt.Sprintf("mkC14r (mkRCfg [%s]) [%s] [%s] %s %s", kinds, strings.Join(answers, "; "), strings.Join(parents, "; "), e, vh.CoqStringList(keys))
}

// ---- generators ----
var c14rRulePool = []c14rRule{
	{APIVersion: "v1", Resource: "pods", Selector: &c14rSel{Match: map[string]string{"app": "x"}}},
	{APIVersion: "v1", Resource: "pods", Selector: &c14rSel{Exprs: []c14rReq{{Key: "app", Op: "In", Values: []string{"x", "y"}}}}},
	{APIVersion: "v1", Resource: "pods", Names: []string{"c0", "c1"}},
	{APIVersion: "v1", Resource: "pods", Namespace: "ns1"},
	{APIVersion: "v1", Resource: "pods", Namespace: "ns2", Names: []string{"c1"}},
	{APIVersion: "v1", Resource: "pods"},
	{APIVersion: "v1", Resource: "pods", Selector: &c14rSel{}},
	{APIVersion: "apps.example.com/v1", Resource: "widgets", Selector: &c14rSel{Match: map[string]string{"app": "x"}}},
	{APIVersion: "v1", Resource: "namespaces", Names: []string{"ns1"}},
	{APIVersion: "v1", Resource: "namespaces", Selector: &c14rSel{Match: map[string]string{"team": "a"}}},
	{APIVersion: "v1", Resource: "nosuch", Names: []string{"c0"}},                                                              // unknown resource
	{APIVersion: "v9", Resource: "pods"},                                                                                       // unknown version
	{APIVersion: "v1", Resource: "pods", Selector: &c14rSel{Match: map[string]string{"app": "x"}}, Names: []string{"c0"}},      // both: invalid
	{APIVersion: "v1", Resource: "pods", Selector: &c14rSel{Exprs: []c14rReq{{Key: "app", Op: "Foo", Values: []string{"x"}}}}}, // does not convert
}

type c14rGen struct{ r *vh.Rng }

// indices into c14rRulePool: rules that select by a non-empty label selector only,
// and rules that never select anything (unknown resource/version, invalid, unconvertible)
var c14rLabelRules = []int{0, 1, 7, 9}
var c14rDeadRules = []int{10, 11, 12, 13}

func c14rIsLabelRule(r *c14rRule) bool {
	if r.Selector == nil || r.Namespace != "" || len(r.Names) != 0 {
		return false
	}
	if _, ok := c14rKindOf(r.APIVersion, r.Resource); !ok {
		return false
	}
	if len(r.Selector.Match)+len(r.Selector.Exprs) == 0 {
		return false
	}
	for _, e := range r.Selector.Exprs {
		if e.Op != "In" || len(e.Values) == 0 {
			return false
		}
	}
	return true
}

func c14rIsDeadRule(r *c14rRule) bool {
	if _, ok := c14rKindOf(r.APIVersion, r.Resource); !ok {
		return true
	}
	if r.Selector != nil && (r.Namespace != "" || len(r.Names) != 0) {
		return true
	}
	if r.Selector != nil {
		for _, e := range r.Selector.Exprs {
			if e.Op != "In" && e.Op != "NotIn" && e.Op != "Exists" && e.Op != "DoesNotExist" {
				return true
			}
		}
	}
	return false
}

// labelOnlyTargets: the label rules of answers that (a) belong to a cached parent at its
// current generation and (b) hold nothing but label rules and rules that never select
func c14rLabelOnlyTargets(spec *c14rWorldSpec) []*c14rRule {
	var out []*c14rRule
	for i := range spec.Answers {
		a := &spec.Answers[i]
		live := false
		for _, p := range spec.Parents {
			md, _ := p["metadata"].(map[string]interface{})
			if md["uid"] == a.UID && md["generation"] == a.Generation {
				live = true
			}
		}
		if !live {
			continue
		}
		var mine []*c14rRule
		pure := true
		for j := range a.Rules {
			switch {
			case c14rIsLabelRule(&a.Rules[j]):
				mine = append(mine, &a.Rules[j])
			case c14rIsDeadRule(&a.Rules[j]):
			default:
				pure = false
			}
		}
		if pure {
			out = append(out, mine...)
		}
	}
	return out
}

// deselected: an update whose OLD state is selected by a parent's label rule and
// whose NEW state is selected by none of that parent's rules (relabelled away,
// labels dropped, optionally already being deleted)
func (g *c14rGen) deselected(rule *c14rRule) *c14rEvent {
	r := g.r
	kind, _ := c14rKindOf(rule.APIVersion, rule.Resource)
	labels := c14rJ{}
	for k, v := range rule.Selector.Match {
		labels[k] = v
	}
	for _, e := range rule.Selector.Exprs {
		labels[e.Key] = e.Values[r.Intn(len(e.Values))]
	}
	md := c14rJ{"name": "c" + fmt.Sprint(r.Intn(3)), "uid": "uid-rel", "resourceVersion": "99", "labels": labels}
	if kind != "Namespace" {
		md["namespace"] = []string{"ns1", "ns2", "ns3"}[r.Intn(3)]
	}
	old := c14rCanon(c14rJ{"apiVersion": rule.APIVersion, "kind": kind, "metadata": md})
	cur := c14rCopy(old)
	cmd := cur["metadata"].(map[string]interface{})
	cmd["resourceVersion"] = "100"
	ev := &c14rEvent{Kind: "update"}
	switch r.Intn(4) {
	case 0:
		delete(cmd, "labels")
		ev.Role = "deselected-labels-dropped"
	case 1:
		cmd["labels"] = c14rJ{"app": "none", "team": "none"}
		cmd["deletionTimestamp"] = "2020-01-02T00:00:00Z"
		ev.Role = "deselected-relabelled-deleting"
	default:
		cmd["labels"] = c14rJ{"app": "none", "team": "none"}
		ev.Role = "deselected-relabelled"
	}
	ev.Old, ev.Obj = old, c14rCanon(cur)
	return ev
}

func (g *c14rGen) world() *c14rWorldSpec {
	r := g.r
	spec := &c14rWorldSpec{TwoKinds: r.Chance(1, 3)}
	slots := [][3]string{{"Thing", "ns1", "p1"}, {"Thing", "ns1", "p2"}, {"Thing", "ns2", "p1"}, {"Thing", "ns2", "p3"}}
	if spec.TwoKinds {
		slots = append(slots, [3]string{"ClusterThing", "", "p1"}, [3]string{"ClusterThing", "", "p2"})
	}
	for j := len(slots) - 1; j > 0; j-- {
		x := r.Intn(j + 1)
		slots[j], slots[x] = slots[x], slots[j]
	}
	np := []int{0, 1, 2, 3, 3, 4, 4, 5}[r.Intn(8)]
	for j := 0; j < np && j < len(slots); j++ {
		kind, ns, name := slots[j][0], slots[j][1], slots[j][2]
		uid := "uid-" + kind + "-" + ns + "-" + name
		gen := int64(1 + r.Intn(2))
		md := c14rJ{"name": name, "uid": uid, "generation": gen}
		if ns != "" {
			md["namespace"] = ns
		}
		spec.Parents = append(spec.Parents, c14rCanon(c14rJ{"apiVersion": "ctl.example.com/v1", "kind": kind, "metadata": md, "spec": c14rJ{}}))
		if j == 0 && r.Chance(3, 4) {
			// one parent whose answer selects by labels only: a relabelling can take an object out of it
			a := c14rAnswer{UID: uid, Generation: gen, Prefilled: r.Bool()}
			a.Rules = append(a.Rules, c14rRulePool[c14rLabelRules[r.Intn(len(c14rLabelRules))]])
			if r.Bool() {
				a.Rules = append(a.Rules, c14rRulePool[c14rDeadRules[r.Intn(len(c14rDeadRules))]])
			}
			if r.Chance(1, 3) {
				a.Rules = append(a.Rules, c14rRulePool[c14rLabelRules[r.Intn(len(c14rLabelRules))]])
			}
			spec.Answers = append(spec.Answers, a)
			continue
		}
		switch r.Intn(6) {
		case 0: // the hook fails for this parent
		case 1: // an answer for another generation only
			spec.Answers = append(spec.Answers, c14rAnswer{UID: uid, Generation: gen + 5, Rules: []c14rRule{c14rRulePool[5]}, Prefilled: true})
		default:
			a := c14rAnswer{UID: uid, Generation: gen, Prefilled: r.Bool()}
			for k := r.Intn(3); k >= 0; k-- {
				a.Rules = append(a.Rules, c14rRulePool[r.Intn(len(c14rRulePool))])
			}
			if r.Chance(1, 8) {
				a.Rules = nil
			}
			spec.Answers = append(spec.Answers, a)
		}
	}
	return spec
}

func (g *c14rGen) related() c14rJ {
	r := g.r
	md := c14rJ{"name": "c" + fmt.Sprint(r.Intn(3)), "namespace": []string{"ns1", "ns2", "ns3"}[r.Intn(3)], "uid": "uid-rel", "resourceVersion": "100"}
	switch r.Intn(5) {
	case 0:
	case 1:
		md["labels"] = c14rJ{"app": "y"}
	case 2:
		md["labels"] = c14rJ{"app": "z", "team": "a"}
	default:
		md["labels"] = c14rJ{"app": "x"}
	}
	o := c14rJ{"apiVersion": "v1", "kind": "Pod", "metadata": md}
	switch r.Intn(8) {
	case 0:
		o["apiVersion"], o["kind"] = "apps.example.com/v1", "Widget"
	case 1:
		o["kind"] = "Namespace"
		delete(md, "namespace")
		md["name"] = []string{"ns1", "ns2"}[r.Intn(2)]
	case 2:
		o["apiVersion"] = "v2" // the kind under another version
	}
	if r.Chance(1, 8) {
		md["deletionTimestamp"] = "2020-01-02T00:00:00Z"
	}
	return c14rCanon(o)
}

func c14rCopy(m c14rJ) c14rJ { return runtime.DeepCopyJSON(m) }

func (g *c14rGen) event(spec *c14rWorldSpec) *c14rEvent {
	r := g.r
	if ts := c14rLabelOnlyTargets(spec); len(ts) > 0 && r.Chance(1, 3) {
		return g.deselected(ts[r.Intn(len(ts))])
	}
	obj := g.related()
	ev := &c14rEvent{Obj: obj, Role: "related"}
	key := ""
	if md, ok := obj["metadata"].(map[string]interface{}); ok {
		ns, _ := md["namespace"].(string)
		n, _ := md["name"].(string)
		key = n
		if ns != "" {
			key = ns + "/" + n
		}
	}
	switch r.Intn(8) {
	case 0, 1:
		ev.Kind = "add"
	case 2:
		ev.Kind = "delete"
	case 3:
		ev.Kind, ev.Key = "tombstone", key
	case 4:
		ev.Kind, ev.Old, ev.Role = "update", c14rCopy(obj), "resync"
	default:
		ev.Kind = "update"
		old := c14rCopy(obj)
		omd := old["metadata"].(map[string]interface{})
		omd["resourceVersion"] = "99"
		switch r.Intn(3) {
		case 0: // relabelled: only the old state may be selected
			omd["labels"] = c14rJ{"app": "x"}
			ev.Role = "relabelled-from-x"
		case 1:
			omd["labels"] = c14rJ{"app": "q"}
			ev.Role = "relabelled-from-q"
		default:
			old["status"] = c14rJ{"phase": "Pending"}
			ev.Role = "status"
		}
		ev.Old = c14rCanon(old)
	}
	return ev
}

func TestVerif_C14r(t *testing.T) {
	env := vh.GetEnv()
	if env.OutDir == "" {
		t.Skip("VERIF_OUT not set")
	}
	header := "From MC Require Import Check.C14_check.\nOpen Scope string_scope.\n"
	w, err := vh.NewCaseWriter(env.OutDir, "C14r", header, 60)
	if err != nil {
		t.Fatal(err)
	}
	emit := func(id string, l *c14rLive, ev *c14rEvent) {
		keys := l.run(ev)
		replay := c14rJ{"world": l.spec, "event": ev, "notified": keys, "features": []string{"related-" + ev.Kind, "role-" + ev.Role}}
		if err := w.Add(id, c14rCoqCase(l, ev, keys), "C14r_check", replay); err != nil {
			t.Fatal(err)
		}
		w.Count("flavour-related")
		w.Count("event-related-" + ev.Kind)
		w.Count("role-" + ev.Role)
		w.Count(fmt.Sprintf("notified-%d", len(keys)))
		w.Count(fmt.Sprintf("cached-parents-%d", len(l.cache)))
		if len(l.spec.Answers) > 0 {
			w.NonTrivial(vh.Sig("related", ev.Kind, ev.Role, ev.Obj["kind"], l.spec.TwoKinds, len(keys)))
		}
	}
	if env.Replay != "" {
		data, err := os.ReadFile(env.Replay)
		if err != nil {
			t.Fatal(err)
		}
		var rf struct {
			Case struct {
				World *c14rWorldSpec `json:"world"`
				Event *c14rEvent     `json:"event"`
			} `json:"case"`
		}
		if err := json.Unmarshal(data, &rf); err != nil || rf.Case.World == nil || rf.Case.Event == nil {
			t.Fatalf("cannot read replay: %v", err)
		}
		spec := rf.Case.World
		for i := range spec.Parents {
			spec.Parents[i] = c14rCanon(spec.Parents[i])
		}
		ev := rf.Case.Event
		ev.Obj = c14rCanon(ev.Obj)
		if ev.Old != nil {
			ev.Old = c14rCanon(ev.Old)
		}
		l, err := c14rBuild(spec)
		if err != nil {
			t.Fatal(err)
		}
		emit("r0", l, ev)
		l.close()
		if err := w.Close(nil); err != nil {
			t.Fatal(err)
		}
		return
	}
	// corpus: p1 selects pods by label, p2 widgets by label, p3 pods by name
	{
		mk := func(name, uid string) c14rJ {
			return c14rCanon(c14rJ{"apiVersion": "ctl.example.com/v1", "kind": "Thing",
				"metadata": c14rJ{"name": name, "namespace": "ns1", "uid": uid, "generation": int64(1)}, "spec": c14rJ{}})
		}
		spec := &c14rWorldSpec{Parents: []c14rJ{mk("p1", "u1"), mk("p2", "u2"), mk("p3", "u3")},
			Answers: []c14rAnswer{
				{UID: "u1", Generation: 1, Rules: []c14rRule{c14rRulePool[0]}, Prefilled: true},
				{UID: "u2", Generation: 1, Rules: []c14rRule{c14rRulePool[7], c14rRulePool[10]}},
				{UID: "u3", Generation: 1, Rules: []c14rRule{c14rRulePool[2]}},
			}}
		l, err := c14rBuild(spec)
		if err != nil {
			t.Fatal(err)
		}
		obj := func(av, kind, name, rv string, labels c14rJ, deleting bool) c14rJ {
			md := c14rJ{"name": name, "namespace": "ns1", "uid": "uid-rel", "resourceVersion": rv}
			if labels != nil {
				md["labels"] = labels
			}
			if deleting {
				md["deletionTimestamp"] = "2020-01-02T00:00:00Z"
			}
			return c14rCanon(c14rJ{"apiVersion": av, "kind": kind, "metadata": md})
		}
		x, y := c14rJ{"app": "x"}, c14rJ{"app": "y"}
		evs := []*c14rEvent{
			{Kind: "update", Old: obj("v1", "Pod", "c9", "1", x, false), Obj: obj("v1", "Pod", "c9", "2", y, false), Role: "deselected-relabelled"},
			{Kind: "update", Old: obj("v1", "Pod", "c9", "1", x, false), Obj: obj("v1", "Pod", "c9", "2", nil, false), Role: "deselected-labels-dropped"},
			{Kind: "update", Old: obj("v1", "Pod", "c9", "1", x, false), Obj: obj("v1", "Pod", "c9", "2", y, true), Role: "deselected-relabelled-deleting"},
			{Kind: "update", Old: obj("apps.example.com/v1", "Widget", "w", "1", x, false), Obj: obj("apps.example.com/v1", "Widget", "w", "2", y, false), Role: "deselected-relabelled"},
			{Kind: "update", Old: obj("v1", "Pod", "c0", "1", x, false), Obj: obj("v1", "Pod", "c0", "2", y, false), Role: "deselected-relabelled"}, // p3 still selects it by name
			{Kind: "update", Old: obj("v1", "Pod", "c9", "1", y, false), Obj: obj("v1", "Pod", "c9", "2", x, false), Role: "selected-by-relabelling"},
			{Kind: "update", Old: obj("v1", "Pod", "c9", "1", x, false), Obj: obj("v1", "Pod", "c9", "2", x, true), Role: "status"},
			{Kind: "update", Old: obj("v1", "Pod", "c9", "1", x, false), Obj: obj("v1", "Pod", "c9", "1", x, false), Role: "resync"},
			{Kind: "add", Obj: obj("v1", "Pod", "c9", "1", x, true), Role: "related"},
			{Kind: "delete", Obj: obj("v1", "Pod", "c9", "1", x, true), Role: "related"},
			{Kind: "tombstone", Key: "ns1/c9", Obj: obj("v1", "Pod", "c9", "1", x, false), Role: "related"},
		}
		for i, ev := range evs {
			emit(fmt.Sprintf("k%d", i), l, ev)
		}
		l.close()
	}
	n := env.N
	if n == 0 {
		n = 200
	}
	const perWorld = 10
	root := vh.NewRng(env.Seed ^ 0xc14f)
	for wi := 0; wi*perWorld < n; wi++ {
		r, _ := root.Fork()
		g := &c14rGen{r: r}
		l, err := c14rBuild(g.world())
		if err != nil {
			t.Fatalf("world %d: %v", wi, err)
		}
		for ei := 0; ei < perWorld && wi*perWorld+ei < n; ei++ {
			emit(fmt.Sprintf("w%d_e%d", wi, ei), l, g.event(l.spec))
		}
		l.close()
	}
	if err := w.Close(nil); err != nil {
		t.Fatal(err)
	}
	fmt.Fprintf(os.Stderr, "C14r: wrote %d cases\n", w.Total)
}
