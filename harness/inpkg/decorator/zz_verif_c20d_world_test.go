package decorator

// Harness of property C20 (decorator side), flavour independent part: a
// verbatim copy of the "generic" section of
// harness/inpkg/composite/zz_verif_c20_test.go, preceded by the few world
// helpers of harness/inpkg/composite/zz_verif_world_test.go it relies on.

import (
	"context"
	"encoding/json"
	"fmt"
	"net/http"
	"net/url"
	"os"
	"reflect"
	"sort"
	"strconv"
	"strings"
	"sync"
	"sync/atomic"
	"testing"
	"time"
	"unsafe"

	"github.com/go-logr/logr"
	metav1 "k8s.io/apimachinery/pkg/apis/meta/v1"
	"k8s.io/apimachinery/pkg/runtime/schema"
	k8sjson "k8s.io/apimachinery/pkg/util/json"
	utilruntime "k8s.io/apimachinery/pkg/util/runtime"
	"k8s.io/client-go/discovery"

	"metacontroller/pkg/apis/metacontroller/v1alpha1"
	dynamicclientset "metacontroller/pkg/dynamic/clientset"
	dynamicdiscovery "metacontroller/pkg/dynamic/discovery"
	dynamicinformer "metacontroller/pkg/dynamic/informer"
	vh "metacontroller/pkg/internal/verifh"
	sim "metacontroller/pkg/internal/verifsim"
	"metacontroller/pkg/logging"
)

// ---- world helpers (as in the composite package's zz_verif_world_test.go) ----

var simResources = []sim.Resource{
	{Group: "ctl.example.com", Version: "v1", Resource: "things", Kind: "Thing", Namespaced: true, HasStatus: true},
	{Group: "ctl.example.com", Version: "v1", Resource: "clusterthings", Kind: "ClusterThing", Namespaced: false, HasStatus: true},
	{Group: "", Version: "v1", Resource: "pods", Kind: "Pod", Namespaced: true, HasStatus: true},
	{Group: "apps.example.com", Version: "v1", Resource: "widgets", Kind: "Widget", Namespaced: true, HasStatus: false},
	{Group: "", Version: "v1", Resource: "namespaces", Kind: "Namespace", Namespaced: false, HasStatus: true},
	{Group: "metacontroller.k8s.io", Version: "v1alpha1", Resource: "controllerrevisions", Kind: "ControllerRevision", Namespaced: true, HasStatus: false},
}

func resByResource(apiVersion, resource string) *sim.Resource {
	for i := range simResources {
		r := &simResources[i]
		if r.APIVersion() == apiVersion && r.Resource == resource {
			return r
		}
	}
	return nil
}

var hookTransport = &vh.HookTransport{}
var hookOnce sync.Once

func installHookTransport() {
	hookOnce.Do(func() {
		http.DefaultTransport = hookTransport
		logging.Logger = logr.Discard()
	})
}

// cworld is one simulated cluster with the clients the controllers use.
type cworld struct {
	srv       *sim.Server
	resources *dynamicdiscovery.ResourceMap
	dynClient *dynamicclientset.Clientset
}

func newWorld() *cworld {
	installHookTransport()
	srv := sim.NewServer(simResources)
	cfg := srv.RestConfig()
	resources := dynamicdiscovery.NewResourceMap(discovery.NewDiscoveryClientForConfigOrDie(cfg))
	resources.Start(time.Hour)
	for i := 0; !resources.HasSynced(); i++ {
		if i > 5000 {
			panic("discovery never synced")
		}
		time.Sleep(time.Millisecond)
	}
	dynClient, err := dynamicclientset.New(cfg, resources)
	if err != nil {
		panic(err)
	}
	return &cworld{srv: srv, resources: resources, dynClient: dynClient}
}

func (w *cworld) close() {
	w.resources.Stop()
	w.srv.Close()
}

// ================================ generic ======================================

// Every spec carries its id in the parent label selector, as a requirement every
// parent meets ("label c20id-<id> does not exist"): specs with different ids differ,
// and the id of a running instance can be read from the spec it remembers.
func c20SpecID(sel *metav1.LabelSelector) int {
	if sel == nil {
		return 0
	}
	for _, e := range sel.MatchExpressions {
		if strings.HasPrefix(e.Key, "c20id-") {
			id, _ := strconv.Atoi(strings.TrimPrefix(e.Key, "c20id-"))
			return id
		}
	}
	return 0
}

// spec.resyncPeriodSeconds: absent, or any value the CRD schema lets through
func c20Resync(s *c20Spec) *int32 {
	if s.Resync == nil {
		return nil
	}
	v := *s.Resync
	return &v
}

// fastResync: the parent handlers of an instance started with s run a resync ticker of
// their own of (clamped) one second
func (s *c20Spec) fastResync() bool { return s.Resync != nil && *s.Resync <= 1 }

// "" -> nil pointer, "true"/"false" -> pointer to the value
func c20BoolPtr(v string) *bool {
	switch v {
	case "true":
		b := true
		return &b
	case "false":
		b := false
		return &b
	}
	return nil
}

// an update strategy block may be present with an empty method
func c20Method(strategy string) v1alpha1.ChildUpdateMethod {
	if strategy == "empty" {
		return ""
	}
	return v1alpha1.ChildUpdateMethod(strategy)
}

// metadata.generation as the API server keeps it (events of older replay files carry none)
func c20Generation(s *c20Spec, gen int64) int64 {
	if gen == 0 {
		return int64(s.ID)
	}
	return gen
}

// c20Stopped: an instance that was stopped, and what is enqueued on its behalf since
type c20Stopped struct {
	short string
	id    int
	queue *vh.RecQueue
}

type c20InstInfo struct {
	ptr    uintptr
	obj    interface{} // the instance value itself (kept alive by the run: its address is its identity)
	specID int
}

type c20Svc struct {
	Name      bool `json:"name"`
	Namespace bool `json:"namespace"`
	Port      bool `json:"port"`
	Protocol  bool `json:"protocol"`
}

// c20HookCfg: nil pointer = the hook is absent
type c20HookCfg struct {
	NoWebhook    bool    `json:"noWebhook,omitempty"`
	URL          bool    `json:"url,omitempty"`
	Service      *c20Svc `json:"service,omitempty"`
	Path         bool    `json:"path,omitempty"`
	Timeout      string  `json:"timeout,omitempty"` // "" | pos | neg | zero
	Etag         string  `json:"etag,omitempty"`    // "" | nil-enabled | off | on
	CacheTimeout bool    `json:"cacheTimeout,omitempty"`
	CacheCleanup bool    `json:"cacheCleanup,omitempty"`
	Related      string  `json:"related,omitempty"` // customize hook: which related resource it asks for (pods | namespaces)
}

type c20Rule struct {
	APIVersion  string `json:"apiVersion"`
	Resource    string `json:"resource"`
	Strategy    string `json:"strategy,omitempty"`
	BadSelector bool   `json:"badSelector,omitempty"`
}

type c20Spec struct {
	ID        int         `json:"id"` // different id <=> different spec content
	Parents   []c20Rule   `json:"parents"`
	Children  []c20Rule   `json:"children"`
	NoHooks   bool        `json:"noHooks,omitempty"`
	Sync      *c20HookCfg `json:"sync,omitempty"`
	Finalize  *c20HookCfg `json:"finalize,omitempty"`
	Customize *c20HookCfg `json:"customize,omitempty"`
	Kind      string      `json:"kind"` // generator's label: valid | <invalid kind>
	// Resync: spec.resyncPeriodSeconds (nil: absent); values below 1 are clamped to one
	// second by Start, and anything below the shared informers' relist period (1 h)
	// gives the parent handlers a resync ticker of their own
	Resync *int32 `json:"resync,omitempty"`
	// GenSelector (composite), IgnoreStatus: "" = pointer absent | "true" | "false"
	GenSelector  string `json:"generateSelector,omitempty"`
	IgnoreStatus string `json:"ignoreStatusChanges,omitempty"`
}

type c20Event struct {
	Op    string   `json:"op"`   // apply | delete | geterr
	Name  string   `json:"name"` // a | b
	Spec  *c20Spec `json:"spec,omitempty"`
	Crd   string   `json:"crd,omitempty"` // ok | missing | nostatus (composite only)
	Touch int      `json:"touch,omitempty"`
	Abs   string   `json:"abs"` // abstract letter: V I N D E C K
	// Replace: the object was deleted and at once created again under the same name
	// (new UID, generation 1); the reconciler only ever sees the new object
	Replace bool `json:"replace,omitempty"`
	// Gen, UID: metadata.generation (1 on create, +1 on every spec change, unchanged by a
	// metadata-only update) and metadata.uid of the object the reconciler reads
	Gen int64  `json:"gen,omitempty"`
	UID string `json:"uid,omitempty"`
	// Blocked: the event is issued while a sync of the name's running instance is
	// held inside its sync hook call (ignored when nothing with a usable sync hook runs)
	Blocked bool `json:"blocked,omitempty"`
}

type c20Case struct {
	Flavor   string     `json:"flavor"`
	Workers  int        `json:"workers,omitempty"` // >= 2: that many workers per hosted controller and two parent objects per name and kind
	Family   string     `json:"family"`
	Events   []c20Event `json:"events"`
	Features []string   `json:"features"`
}

func c20Selector(short string, id int, bad bool) *metav1.LabelSelector {
	idReq := metav1.LabelSelectorRequirement{Key: fmt.Sprintf("c20id-%d", id), Operator: metav1.LabelSelectorOpDoesNotExist}
	if bad {
		return &metav1.LabelSelector{MatchExpressions: []metav1.LabelSelectorRequirement{idReq, {Key: "ctl", Operator: "Bogus"}}}
	}
	return &metav1.LabelSelector{MatchLabels: map[string]string{"ctl": short}, MatchExpressions: []metav1.LabelSelectorRequirement{idReq}}
}

// c20Hook renders a hook configuration; every usable URL names the instance
// (controller name, spec id) and the hook kind.
func c20Hook(realName string, id int, kind string, h *c20HookCfg) *v1alpha1.Hook {
	if h == nil {
		return nil
	}
	if h.NoWebhook {
		return &v1alpha1.Hook{}
	}
	wh := &v1alpha1.Webhook{}
	tail := kind
	if h.Related != "" {
		tail = kind + "/" + h.Related
	}
	if h.URL {
		u := fmt.Sprintf("http://hooks.test/%s/%d/%s", realName, id, tail)
		wh.URL = &u
	}
	if h.Service != nil {
		sv := &v1alpha1.ServiceReference{}
		if h.Service.Name {
			sv.Name = fmt.Sprintf("%s-%d", realName, id)
		}
		if h.Service.Namespace {
			sv.Namespace = "hooks"
		}
		if h.Service.Port {
			p := int32(8080)
			sv.Port = &p
		}
		if h.Service.Protocol {
			p := "http"
			sv.Protocol = &p
		}
		wh.Service = sv
	}
	if h.Path {
		p := "/" + tail
		wh.Path = &p
	}
	switch h.Timeout {
	case "pos":
		wh.Timeout = &metav1.Duration{Duration: 5 * time.Second}
	case "neg":
		wh.Timeout = &metav1.Duration{Duration: -time.Second}
	case "zero":
		wh.Timeout = &metav1.Duration{}
	}
	switch h.Etag {
	case "nil-enabled":
		wh.Etag = &v1alpha1.WebhookEtagConfig{}
	case "off", "on":
		en := h.Etag == "on"
		wh.Etag = &v1alpha1.WebhookEtagConfig{Enabled: &en}
	}
	if wh.Etag != nil {
		if h.CacheTimeout {
			v := int32(60)
			wh.Etag.CacheTimeoutSeconds = &v
		}
		if h.CacheCleanup {
			v := int32(120)
			wh.Etag.CacheCleanupSeconds = &v
		}
	}
	return &v1alpha1.Hook{Webhook: wh}
}

// usable reports whether hooks.NewHook yields an enabled hook for h (what the harness expects to see called)
func (h *c20HookCfg) usable() bool {
	if h == nil || h.NoWebhook {
		return false
	}
	if h.URL {
		return true
	}
	return h.Service != nil && h.Path && h.Service.Name && h.Service.Namespace
}

// ---- hook dispatch: one transport for all parallel runs ----

var c20Runs sync.Map // real controller name -> *c20Run
var c20WorkerPanics int64
var c20CallCount int64
var c20Once sync.Once

func c20Install() {
	installHookTransport()
	c20Once.Do(func() {
		utilruntime.ReallyCrash = false
		utilruntime.PanicHandlers = append(utilruntime.PanicHandlers, func(context.Context, interface{}) {
			atomic.AddInt64(&c20WorkerPanics, 1)
		})
		utilruntime.ErrorHandlers = nil
		if os.Getenv("VERIF_C20_DEBUG") != "" {
			utilruntime.ErrorHandlers = []utilruntime.ErrorHandler{func(_ context.Context, err error, msg string, kv ...interface{}) {
				fmt.Fprintf(os.Stderr, "handled error: %v %s\n", err, msg)
			}}
		}
		hookTransport.Set(c20Answer)
	})
}

// c20ParseURL: http://hooks.test/<real>/<id>/<kind>[/<related>]  or  http://<real>-<id>.hooks[:port]/<kind>[/<related>]
func c20ParseURL(raw string) (real string, id int, kind, related string, ok bool) {
	u, err := url.Parse(raw)
	if err != nil {
		return
	}
	parts := strings.Split(strings.Trim(u.Path, "/"), "/")
	host := u.Hostname()
	if host == "hooks.test" {
		if len(parts) < 3 {
			return
		}
		real = parts[0]
		id, _ = strconv.Atoi(parts[1])
		parts = parts[2:]
	} else if strings.HasSuffix(host, ".hooks") {
		h := strings.TrimSuffix(host, ".hooks")
		i := strings.LastIndex(h, "-")
		if i < 0 {
			return
		}
		real = h[:i]
		id, _ = strconv.Atoi(h[i+1:])
	} else {
		return
	}
	if len(parts) == 0 {
		return
	}
	kind = parts[0]
	if len(parts) > 1 {
		related = parts[1]
	}
	ok = true
	return
}

func c20Answer(rawURL string, hdr http.Header, req map[string]interface{}) (int, map[string]string, []byte, bool) {
	real, id, kind, related, ok := c20ParseURL(rawURL)
	if !ok {
		return 500, nil, []byte("unknown hook"), false
	}
	rv, found := c20Runs.Load(real)
	if !found {
		return 500, nil, []byte("no run"), false
	}
	run := rv.(*c20Run)
	short := run.short(real)
	if kind == "customize" {
		run.mu.Lock()
		run.entered[fmt.Sprintf("%s/%d", short, id)]++
		run.mu.Unlock()
		run.waitGate()
	}
	run.mu.Lock()
	run.calls[fmt.Sprintf("%s/%d/%s", short, id, kind)]++
	run.mu.Unlock()
	if kind == "sync" {
		run.waitSyncGate(fmt.Sprintf("%s/%d", short, id)) // the call is counted when it arrives
	}
	if atomic.AddInt64(&c20CallCount, 1)%256 == 0 {
		hookTransport.ResetCalls() // nobody reads the transport's own record
	}
	switch kind {
	case "customize":
		rule := map[string]interface{}{"apiVersion": "v1", "resource": related, "labelSelector": map[string]interface{}{}}
		body, _ := k8sjson.Marshal(map[string]interface{}{"relatedResources": []interface{}{rule}})
		return 200, nil, body, false
	case "finalize":
		body, _ := k8sjson.Marshal(map[string]interface{}{"finalized": true})
		return 200, nil, body, false
	}
	return 200, nil, c20SyncAnswer(fmt.Sprintf("%s/%d", short, id)), false
}

// ---- one run of one case ----

type c20Run struct {
	slot     int
	w        *c20World
	host     *c20Host
	mu       sync.Mutex
	calls    map[string]int           // "<short>/<id>/<kind>" -> hook calls since the last reset
	entered  map[string]int           // "<short>/<id>" -> customize hook requests received (answered or still held at the gate)
	syncGate map[string]chan struct{} // "<short>/<id>" -> sync hook calls of that instance are held until the channel is closed
	syncHeld map[string]int           // sync hook calls currently held
	workers  int
	gate     chan struct{}
	pokes    int
	// per name: last seen instance identity and its incarnation number
	lastPtr  map[string]uintptr
	incarn   map[string]int
	keep     []interface{}
	curInst  map[string]c20InstInfo // short name -> the instance last seen in the controller map
	stopped  []c20Stopped           // instances that left the controller map, with the queue put in their place
	sawPanic bool
}

func c20RealName(short string, slot int) string { return fmt.Sprintf("c20%s%d", short, slot) }

func (r *c20Run) short(real string) string {
	for _, s := range []string{"a", "b"} {
		if c20RealName(s, r.slot) == real {
			return s
		}
	}
	return real
}

func (r *c20Run) waitGate() {
	r.mu.Lock()
	g := r.gate
	r.mu.Unlock()
	if g == nil {
		return
	}
	select {
	case <-g:
	case <-time.After(3 * time.Second):
	}
}

func (r *c20Run) closeGate() {
	r.mu.Lock()
	r.gate = make(chan struct{})
	r.mu.Unlock()
}

func (r *c20Run) openGate() {
	r.mu.Lock()
	g := r.gate
	r.gate = nil
	r.mu.Unlock()
	if g != nil {
		close(g)
	}
}

// waitSyncGate holds a sync hook call of instance key while its gate is closed.
func (r *c20Run) waitSyncGate(key string) {
	r.mu.Lock()
	g := r.syncGate[key]
	if g != nil {
		r.syncHeld[key]++
	}
	r.mu.Unlock()
	if g == nil {
		return
	}
	select {
	case <-g:
	case <-time.After(8 * time.Second):
	}
	r.mu.Lock()
	r.syncHeld[key]--
	r.mu.Unlock()
}

func (r *c20Run) closeSyncGate(key string) {
	r.mu.Lock()
	r.syncGate[key] = make(chan struct{})
	r.mu.Unlock()
}

func (r *c20Run) openSyncGate(key string) {
	r.mu.Lock()
	g := r.syncGate[key]
	delete(r.syncGate, key)
	r.mu.Unlock()
	if g != nil {
		close(g)
	}
}

func (r *c20Run) syncHeldOf(key string) int {
	r.mu.Lock()
	defer r.mu.Unlock()
	return r.syncHeld[key]
}

func (r *c20Run) enteredOf(key string) int {
	r.mu.Lock()
	defer r.mu.Unlock()
	return r.entered[key]
}

func (r *c20Run) resetCalls() {
	r.mu.Lock()
	r.calls = map[string]int{}
	r.mu.Unlock()
}

func (r *c20Run) callsOf(key string) int {
	r.mu.Lock()
	defer r.mu.Unlock()
	return r.calls[key]
}

func (r *c20Run) callsSnapshot() map[string]int {
	r.mu.Lock()
	defer r.mu.Unlock()
	out := map[string]int{}
	for k, v := range r.calls {
		out[k] = v
	}
	return out
}

// refCounts reads the factory's unexported subscription counts under its own mutex.
func c20RefCounts(f *dynamicinformer.SharedInformerFactory) map[string]int {
	v := reflect.ValueOf(f).Elem()
	mu := (*sync.Mutex)(unsafe.Pointer(v.FieldByName("mutex").UnsafeAddr()))
	mu.Lock()
	defer mu.Unlock()
	out := map[string]int{}
	it := v.FieldByName("refCount").MapRange()
	for it.Next() {
		out[it.Key().String()] = int(it.Value().Int())
	}
	return out
}

var c20ParentKinds = []struct{ apiVersion, kind, ns, prefix string }{
	{"ctl.example.com/v1", "Thing", "ns1", "p-"},
	{"ctl.example.com/v1", "ClusterThing", "", "q-"},
}

// parentNames: the parent objects of one controller name and kind
func (r *c20Run) parentNames(prefix, short string) []string {
	if r.workers >= 2 {
		return []string{prefix + short, prefix + "2-" + short}
	}
	return []string{prefix + short}
}

func (r *c20Run) seedCluster() {
	r.w.srv.Seed(map[string]interface{}{"apiVersion": "v1", "kind": "Namespace", "metadata": map[string]interface{}{"name": "ns1"}})
	for _, short := range []string{"a", "b"} {
		for _, pk := range c20ParentKinds {
			for _, name := range r.parentNames(pk.prefix, short) {
				md := map[string]interface{}{"name": name, "labels": map[string]interface{}{"ctl": short}, "generation": int64(1)}
				if pk.ns != "" {
					md["namespace"] = pk.ns
				}
				r.w.srv.Seed(map[string]interface{}{"apiVersion": pk.apiVersion, "kind": pk.kind, "metadata": md,
					"spec": map[string]interface{}{"selector": map[string]interface{}{"matchLabels": map[string]interface{}{"c20": "none"}}}})
			}
		}
	}
	r.w.srv.Seed(map[string]interface{}{"apiVersion": "v1", "kind": "Pod", "metadata": map[string]interface{}{"name": "pod-1", "namespace": "ns1", "labels": map[string]interface{}{"app": "x"}}})
	r.w.srv.Seed(map[string]interface{}{"apiVersion": "apps.example.com/v1", "kind": "Widget", "metadata": map[string]interface{}{"name": "w-1", "namespace": "ns1"}})
}

// poke: every parent object changes (label bumped, status dropped), so does every
// object a customize hook may have declared related, and the changes are delivered
// to all open watches.
func (r *c20Run) poke() {
	r.pokes++
	touch := func(apiVersion, kind, ns, name string, dropStatus bool) {
		o := r.w.srv.GetLive(apiVersion, kind, ns, name)
		if o == nil {
			return
		}
		md := o["metadata"].(map[string]interface{})
		lb, _ := md["labels"].(map[string]interface{})
		if lb == nil {
			lb = map[string]interface{}{}
		}
		lb["poke"] = strconv.Itoa(r.pokes)
		md["labels"] = lb
		delete(md, "resourceVersion")
		if dropStatus {
			delete(o, "status")
		}
		r.w.srv.Emit("MODIFIED", r.w.srv.Seed(o))
	}
	for _, short := range []string{"a", "b"} {
		for _, pk := range c20ParentKinds {
			for _, name := range r.parentNames(pk.prefix, short) {
				touch(pk.apiVersion, pk.kind, pk.ns, name, true)
			}
		}
	}
	touch("v1", "Namespace", "", "ns1", false)
	touch("v1", "Pod", "ns1", "pod-1", false)
}

type c20Obs struct {
	Outcome  string            // ok | error | panic
	PanicMsg string            `json:",omitempty"`
	Insts    map[string][2]int // short name -> (spec id, incarnation)
	Refs     map[string]int
	Active   map[string][2]int // "<short>/<id>" -> (hook calls [and, for a stopped instance, enqueues on its queue], status writes)
	WPanics  int
	// Reconcile returned while a sync of the name's instance was still held in its hook call
	InFlightReturn bool
}

type c20StepRec struct {
	Event   c20Event
	Obs     c20Obs         // after the event (and before the related request, if one follows)
	Related *c20RelatedRec // the related-resource request the first sync of a freshly started instance made
}

type c20RelatedRec struct {
	Name     string
	Resource string // pods | namespaces (apiVersion v1)
	Obs      c20Obs
}

func (r *c20Run) instsObs() map[string][2]int {
	out := map[string][2]int{}
	cur := r.host.instances()
	for _, short := range []string{"a", "b"} {
		real := c20RealName(short, r.slot)
		info, ok := cur[real]
		if prev, had := r.curInst[short]; had && (!ok || prev.ptr != info.ptr) {
			// the previous instance was stopped: from now on its queue records
			r.stopped = append(r.stopped, c20Stopped{short: short, id: prev.specID, queue: c20RecordQueue(prev.obj)})
			delete(r.curInst, short)
		}
		if !ok {
			delete(r.lastPtr, short)
			continue
		}
		r.curInst[short] = info
		if r.lastPtr[short] != info.ptr {
			r.incarn[short]++
			r.lastPtr[short] = info.ptr
			r.keep = append(r.keep, info.obj)
		}
		out[short] = [2]int{info.specID, r.incarn[short]}
	}
	for real := range cur {
		if r.short(real) == real {
			out[real] = [2]int{cur[real].specID, 0}
		}
	}
	return out
}

// activity: per instance "<short>/<id>" the hook calls (sync and finalize; with all,
// customize too) and the API writes made on its behalf since the last reset
func (r *c20Run) activity(all bool) map[string][2]int {
	out := map[string][2]int{}
	for k, v := range r.callsSnapshot() {
		parts := strings.Split(k, "/")
		if len(parts) != 3 || (parts[2] == "customize" && !all) {
			continue
		}
		key := parts[0] + "/" + parts[1]
		e := out[key]
		e[0] += v
		out[key] = e
	}
	for _, e := range r.w.srv.Log() {
		// Only the status write names its author: any other write of a parent (adding a
		// finalizer, say) carries along whatever status the object had.
		if e.Verb != "updatestatus" {
			continue
		}
		if by := c20WriteBy(e.Body); by != "" {
			x := out[by]
			x[1]++
			out[by] = x
		}
	}
	return out
}

// runCase drives one history and returns what was observed.
func c20RunCase(slot int, c *c20Case) (recs []c20StepRec) {
	c20Install()
	run := &c20Run{slot: slot, calls: map[string]int{}, entered: map[string]int{}, syncGate: map[string]chan struct{}{}, syncHeld: map[string]int{}, workers: c.Workers, lastPtr: map[string]uintptr{}, incarn: map[string]int{}, curInst: map[string]c20InstInfo{}}
	run.w = c20NewWorld()
	workers := 1
	if c.Workers >= 2 {
		workers = c.Workers
	}
	run.host = c20NewHost(run.w, workers)
	for _, s := range []string{"a", "b"} {
		c20Runs.Store(c20RealName(s, slot), run)
	}
	defer func() {
		run.openGate()
		run.host.stopAll()
		run.host.close()
		run.w.close()
	}()
	run.seedCluster()
	for _, ev := range c.Events {
		real := c20RealName(ev.Name, slot)
		// A sync in flight: hold the running instance's next sync inside its hook call.
		heldKey := ""
		if ev.Blocked {
			if info, ok := run.host.instances()[real]; ok {
				if sp := c20SpecOf(c, ev.Name, info.specID); sp != nil && sp.Sync.usable() && c20ParentPresent(sp) {
					heldKey = fmt.Sprintf("%s/%d", ev.Name, info.specID)
					run.closeSyncGate(heldKey)
					run.poke()
					for t0 := time.Now(); run.syncHeldOf(heldKey) == 0; {
						if time.Since(t0) > 3*time.Second {
							run.openSyncGate(heldKey) // no sync came: the event runs unblocked
							heldKey = ""
							break
						}
						time.Sleep(200 * time.Microsecond)
					}
				}
			}
		}
		switch ev.Op {
		case "apply":
			run.host.setFail(real, false)
			run.host.apply(real, ev.Name, ev.Spec, ev.Crd, ev.Touch, ev.Gen, ev.UID)
		case "delete":
			run.host.setFail(real, false)
			run.host.remove(real)
		case "geterr":
			run.host.setFail(real, true)
		}
		wp0 := atomic.LoadInt64(&c20WorkerPanics)
		incBefore := run.incarn[ev.Name]
		// a freshly started instance cannot ask for related resources before the gate opens
		run.closeGate()
		obs := c20Obs{}
		done := make(chan struct{})
		go func() {
			defer close(done)
			defer func() {
				if p := recover(); p != nil {
					obs.Outcome = "panic"
					obs.PanicMsg = fmt.Sprint(p)
				}
			}()
			if err := run.host.reconcile(real); err != nil {
				obs.Outcome = "error"
			} else {
				obs.Outcome = "ok"
			}
		}()
		if heldKey == "" {
			<-done
		} else {
			// Reconcile runs while the sync is held.  If it stops the instance it must
			// wait for that sync: it may not return before the hook call is released.
			select {
			case <-done:
				obs.InFlightReturn = true
				// whatever the held worker does from now on happens after the stop
				run.resetCalls()
				run.w.srv.ResetLog()
				run.openSyncGate(heldKey)
				// let the released sync finish (its status write is what would show)
				for t0 := time.Now(); time.Since(t0) < 300*time.Millisecond; {
					if run.activity(false)[heldKey][1] > 0 {
						break
					}
					time.Sleep(time.Millisecond)
				}
			case <-time.After(200 * time.Millisecond):
				run.openSyncGate(heldKey)
				<-done
			}
		}
		stale := map[string][2]int{}
		if obs.InFlightReturn {
			stale = run.activity(true)
		}
		obs.Insts = run.instsObs()
		obs.Refs = c20RefCounts(run.host.factory())
		// now let the hosted workers run and watch what they do
		run.resetCalls()
		run.w.srv.ResetLog()
		need := 1
		if c.Workers >= 2 {
			need = 2 // two parent objects, two workers
		}
		if e, ok := obs.Insts[ev.Name]; ok && e[1] != incBefore && need > 1 {
			// Barrier: a freshly started instance whose syncs ask a customize hook has
			// both workers at the hook before either gets its answer, so that both go
			// on to subscribe to the related resource at the same time.
			if sp := c20SpecOf(c, ev.Name, e[0]); sp != nil && sp.Customize.usable() && c20ParentPresent(sp) {
				key := fmt.Sprintf("%s/%d", ev.Name, e[0])
				for t0 := time.Now(); run.enteredOf(key) < need && time.Since(t0) < 3*time.Second; {
					time.Sleep(200 * time.Microsecond)
				}
			}
		}
		run.openGate()
		run.poke()
		var wants []string
		wantPanic := false
		var fresh *c20RelatedRec
		for _, short := range []string{"a", "b"} {
			e, ok := obs.Insts[short]
			if !ok {
				continue
			}
			sp := c20SpecOf(c, short, e[0])
			if sp == nil || !c20ParentPresent(sp) {
				continue
			}
			if !sp.Sync.usable() {
				// no sync hook to call: a decorator worker dies on its first sync instead
				wantPanic = false // since the repair of D18 a missing sync hook is a sync error, not a worker panic
				continue
			}
			wants = append(wants, fmt.Sprintf("%s/%d", short, e[0]))
			if short == ev.Name && e[1] != incBefore && sp.Customize.usable() {
				fresh = &c20RelatedRec{Name: short, Resource: sp.Customize.Related}
			}
		}
		// wait until every instance that should be at work has called its sync hook
		// and (a little longer) written the parent's status
		deadline := time.Now().Add(4 * time.Second)
		var called time.Time
		for {
			calls, writes := true, true
			act := run.activity(false)
			for _, k := range wants {
				if act[k][0] < need {
					calls = false
				}
				if act[k][1] == 0 {
					writes = false
				}
			}
			if wantPanic && atomic.LoadInt64(&c20WorkerPanics) == wp0 {
				calls = false
			}
			if calls && called.IsZero() {
				called = time.Now()
			}
			if (calls && writes) || (calls && time.Since(called) > 150*time.Millisecond) || time.Now().After(deadline) {
				break
			}
			time.Sleep(2 * time.Millisecond)
		}
		if os.Getenv("VERIF_C20_DEBUG") != "" && time.Now().After(deadline.Add(-3500*time.Millisecond)) {
			fmt.Fprintf(os.Stderr, "slow step: %s %s wants=%v act=%v spec=%+v\n", ev.Name, ev.Abs, wants, run.activity(true), ev.Spec)
		}
		time.Sleep(c20Settle)
		final := obs
		final.Refs = c20RefCounts(run.host.factory())
		final.Active = run.activity(true)
		for k, v := range stale {
			// seen between the early return and the window's reset below
			e := final.Active[k]
			e[0] += v[0]
			e[1] += v[1]
			final.Active[k] = e
		}
		final.WPanics = int(atomic.LoadInt64(&c20WorkerPanics) - wp0)
		if final.WPanics > 0 {
			run.sawPanic = true // the history's verdict is settled; do not wait for the worker's next death
		}
		rec := c20StepRec{Event: ev}
		if fresh == nil {
			rec.Obs = final
		} else {
			// the counts taken when Reconcile returned belong to the event, the final ones to the related request
			obs.Active = final.Active
			obs.WPanics = final.WPanics
			rec.Obs = obs
			fresh.Obs = final
			fresh.Obs.Outcome = "ok"
			rec.Related = fresh
		}
		recs = append(recs, rec)
	}
	// Handlers with a resync period of their own run a ticker; after a stop it must be
	// gone.  One period later nothing may have been enqueued on behalf of a stopped
	// instance (its handlers would put the parents on its queue).
	wait := false
	for _, st := range run.stopped {
		if sp := c20SpecOf(c, st.short, st.id); sp != nil && sp.fastResync() {
			wait = true
		}
	}
	if wait && len(recs) > 0 {
		time.Sleep(1150 * time.Millisecond)
	}
	for _, st := range run.stopped {
		n := 0
		for _, op := range st.queue.Snapshot() {
			if strings.HasPrefix(op.Op, "Add") {
				n++
			}
		}
		if n == 0 || len(recs) == 0 {
			continue
		}
		key := fmt.Sprintf("%s/%d", st.short, st.id)
		last := &recs[len(recs)-1]
		for _, o := range []*c20Obs{&last.Obs, c20RelatedObs(last)} {
			if o == nil {
				continue
			}
			act := map[string][2]int{}
			for k, v := range o.Active {
				act[k] = v
			}
			e := act[key]
			e[0] += n
			act[key] = e
			o.Active = act
		}
	}
	return recs
}

func c20RelatedObs(r *c20StepRec) *c20Obs {
	if r.Related == nil {
		return nil
	}
	return &r.Related.Obs
}

var c20Settle = 30 * time.Millisecond

func c20SpecOf(c *c20Case, short string, id int) *c20Spec {
	for i := range c.Events {
		e := &c.Events[i]
		if e.Name == short && e.Spec != nil && e.Spec.ID == id {
			return e.Spec
		}
	}
	return nil
}

// a parent object matching the controller's selector exists for the resources seeded by seedCluster
func c20ParentPresent(s *c20Spec) bool {
	for _, p := range s.Parents {
		if p.APIVersion == "ctl.example.com/v1" && (p.Resource == "things" || p.Resource == "clusterthings") && !p.BadSelector {
			return true
		}
	}
	return false
}

// ---- Coq terms ----

func c20ResourceKey(r c20Rule) string { return r.Resource + "." + r.APIVersion }

func c20Known(r c20Rule) bool { return resByResource(r.APIVersion, r.Resource) != nil }

func c20CoqRule(r c20Rule) string {
	return fmt.Sprintf("(mkRule %s %s %s %s)", vh.MustCoqString(c20ResourceKey(r)), vh.CoqBool(c20Known(r)),
		vh.CoqBool(r.Strategy != "" && r.Strategy != "OnDelete"), vh.CoqBool(!r.BadSelector))
}

func c20CoqRules(rs []c20Rule) string {
	parts := make([]string, len(rs))
	for i, r := range rs {
		parts[i] = c20CoqRule(r)
	}
	return "[" + strings.Join(parts, "; ") + "]"
}

func c20CoqHook(h *c20HookCfg) string {
	if h == nil {
		return "HookAbsent"
	}
	if h.NoWebhook {
		return "HookNoWebhook"
	}
	svc := "None"
	if h.Service != nil {
		svc = fmt.Sprintf("(Some (mkSvc %s %s %s %s))", vh.CoqBool(h.Service.Name), vh.CoqBool(h.Service.Namespace), vh.CoqBool(h.Service.Port), vh.CoqBool(h.Service.Protocol))
	}
	tmo := map[string]string{"": "TmoUnset", "pos": "TmoPositive", "neg": "TmoNonPositive", "zero": "TmoNonPositive"}[h.Timeout]
	etag := "EtagUnset"
	switch h.Etag {
	case "nil-enabled":
		etag = "EtagEnabledUnset"
	case "off":
		etag = "EtagOff"
	case "on":
		etag = fmt.Sprintf("(EtagOn %s %s)", vh.CoqBool(h.CacheTimeout), vh.CoqBool(h.CacheCleanup))
	}
	return fmt.Sprintf("(HookWebhook (mkWh %s %s %s %s %s))", vh.CoqBool(h.URL), svc, vh.CoqBool(h.Path), tmo, etag)
}

// the model's spec id also separates hook details the classes do not carry
func c20CoqSpec(s *c20Spec) string {
	hooks := "None"
	if !s.NoHooks {
		hooks = fmt.Sprintf("(Some (mkHooks %s %s %s))", c20CoqHook(s.Sync), c20CoqHook(s.Finalize), c20CoqHook(s.Customize))
	}
	return fmt.Sprintf("(mkSpec %s %s %s %s)", vh.CoqZ(int64(s.ID)), c20CoqRules(s.Parents), c20CoqRules(s.Children), hooks)
}

func c20CoqEvent(flavor string, e c20Event) string {
	n := vh.MustCoqString(e.Name)
	switch e.Op {
	case "delete":
		return fmt.Sprintf("(Reconcile %s LNotFound)", n)
	case "geterr":
		return fmt.Sprintf("(Reconcile %s LError)", n)
	}
	crd := "CrdOk"
	if flavor == "Composite" {
		if _, err := schema.ParseGroupVersion(e.Spec.Parents[0].APIVersion); err != nil {
			crd = "GvUnparsable"
		} else if e.Crd == "missing" {
			crd = "CrdMissing"
		} else if e.Crd == "nostatus" {
			crd = "CrdNoStatus"
		}
	}
	return fmt.Sprintf("(Reconcile %s (LFound %s %s))", n, c20CoqSpec(e.Spec), crd)
}

func c20CoqObs(o c20Obs) string {
	out := map[string]string{"ok": "ROk", "error": "RErr", "panic": "RPanic"}[o.Outcome]
	names := []string{}
	for n := range o.Insts {
		names = append(names, n)
	}
	sort.Strings(names)
	insts := []string{}
	for _, n := range names {
		insts = append(insts, fmt.Sprintf("(%s, (%s, %s))", vh.MustCoqString(n), vh.CoqZ(int64(o.Insts[n][0])), vh.CoqZ(int64(o.Insts[n][1]))))
	}
	keys := []string{}
	for k := range o.Refs {
		keys = append(keys, k)
	}
	sort.Strings(keys)
	refs := []string{}
	for _, k := range keys {
		refs = append(refs, fmt.Sprintf("(%s, %s)", vh.MustCoqString(k), vh.CoqZ(int64(o.Refs[k]))))
	}
	akeys := []string{}
	for k := range o.Active {
		akeys = append(akeys, k)
	}
	sort.Strings(akeys)
	act := []string{}
	for _, k := range akeys {
		parts := strings.SplitN(k, "/", 2)
		id, _ := strconv.Atoi(parts[1])
		act = append(act, fmt.Sprintf("(%s, (%s, (%s, %s)))", vh.MustCoqString(parts[0]), vh.CoqZ(int64(id)), vh.CoqZ(int64(o.Active[k][0])), vh.CoqZ(int64(o.Active[k][1]))))
	}
	return fmt.Sprintf("(mkObs %s [%s] [%s] [%s] %s %s)", out, strings.Join(insts, "; "), strings.Join(refs, "; "), strings.Join(act, "; "), vh.CoqZ(int64(o.WPanics)), vh.CoqBool(o.InFlightReturn))
}

func c20CoqCase(c *c20Case, recs []c20StepRec) string {
	steps := []string{}
	for _, r := range recs {
		steps = append(steps, fmt.Sprintf("(%s, %s)", c20CoqEvent(c.Flavor, r.Event), c20CoqObs(r.Obs)))
		if r.Related != nil {
			rule := c20Rule{APIVersion: "v1", Resource: r.Related.Resource}
			steps = append(steps, fmt.Sprintf("(Related %s %s, %s)", vh.MustCoqString(r.Related.Name), c20CoqRule(rule), c20CoqObs(r.Related.Obs)))
		}
	}
	return fmt.Sprintf("(mkC20 %s [%s])", c.Flavor, strings.Join(steps, ";\n  "))
}

// signature: the projected course of a case (what makes two cases distinct)
func c20Signature(c *c20Case, recs []c20StepRec) string {
	parts := []string{}
	for _, r := range recs {
		kind := ""
		if r.Event.Spec != nil {
			kind = r.Event.Spec.Kind
		}
		names := []string{}
		for n, e := range r.Obs.Insts {
			names = append(names, fmt.Sprintf("%s=%d.%d", n, e[0], e[1]))
		}
		sort.Strings(names)
		parts = append(parts, fmt.Sprintf("%s:%s:%s:%s:%s>%s[%s]", r.Event.Name, r.Event.Abs, r.Event.Op, kind, r.Event.Crd, r.Obs.Outcome, strings.Join(names, ",")))
	}
	return strings.Join(parts, " ")
}

// ---- generators ----

var c20Things = c20Rule{APIVersion: "ctl.example.com/v1", Resource: "things"}
var c20ClusterThings = c20Rule{APIVersion: "ctl.example.com/v1", Resource: "clusterthings"}
var c20Pods = c20Rule{APIVersion: "v1", Resource: "pods"}
var c20Widgets = c20Rule{APIVersion: "apps.example.com/v1", Resource: "widgets"}
var c20Namespaces = c20Rule{APIVersion: "v1", Resource: "namespaces"}

type c20Gen struct {
	rng    *vh.Rng
	nextID int
	touch  int
}

func (g *c20Gen) validHook(kind string) *c20HookCfg {
	h := &c20HookCfg{}
	switch g.rng.Intn(4) {
	case 0:
		h.Service = &c20Svc{Name: true, Namespace: true, Port: g.rng.Bool(), Protocol: g.rng.Bool()}
		h.Path = true
	case 1:
		// url wins over an unusable service block
		h.URL = true
		h.Service = &c20Svc{Name: g.rng.Bool(), Namespace: g.rng.Bool()}
		h.Path = g.rng.Bool()
	default:
		h.URL = true
	}
	h.Timeout = g.rng.Pick([]string{"", "", "pos", "neg", "zero"})
	h.Etag = g.rng.Pick([]string{"", "", "nil-enabled", "off", "on", "on"})
	if h.Etag != "" {
		h.CacheTimeout = g.rng.Bool()
		h.CacheCleanup = g.rng.Bool()
	}
	return h
}

// resync: absent, large, or (1 in 6) one of the values that make the handlers tick every second
func (g *c20Gen) resync() *int32 {
	v := int32(0)
	switch g.rng.Intn(12) {
	case 0:
		v = 0
	case 1:
		v = int32(-1 - g.rng.Intn(5))
	case 2, 3, 4, 5:
		v = int32(3600 * (2 + g.rng.Intn(24)))
	case 6:
		v = 1800 // below the relist period: a ticker that never fires within a history
	default:
		return nil
	}
	if v == 0 && g.rng.Bool() {
		v = 1
	}
	return &v
}

func (g *c20Gen) children() []c20Rule {
	pool := []c20Rule{c20Pods, c20Widgets, c20Things, c20Namespaces}
	var out []c20Rule
	n := g.rng.Intn(4)
	perm := []int{0, 1, 2, 3}
	for i := 3; i > 0; i-- {
		j := g.rng.Intn(i + 1)
		perm[i], perm[j] = perm[j], perm[i]
	}
	for i := 0; i < n; i++ {
		r := pool[perm[i]]
		r.Strategy = g.rng.Pick([]string{"", "", "", "OnDelete", "InPlace", "Recreate", "empty"})
		out = append(out, r)
	}
	return out
}

func (g *c20Gen) parents(flavor string) []c20Rule {
	if flavor == "Composite" {
		return []c20Rule{[]c20Rule{c20Things, c20ClusterThings}[g.rng.Intn(2)]}
	}
	switch g.rng.Intn(4) {
	case 0:
		return []c20Rule{c20Things, c20ClusterThings}
	case 1:
		return []c20Rule{c20ClusterThings}
	default:
		return []c20Rule{c20Things}
	}
}

// valid: a specification the constructor accepts
func (g *c20Gen) valid(flavor string) *c20Spec {
	g.nextID++
	s := &c20Spec{ID: g.nextID, Kind: "valid", Parents: g.parents(flavor), Children: g.children()}
	s.Sync = g.validHook("sync")
	if g.rng.Chance(1, 3) {
		s.Finalize = g.validHook("finalize")
		if g.rng.Chance(1, 4) {
			s.Finalize = &c20HookCfg{NoWebhook: true}
		}
	}
	if g.rng.Chance(1, 3) {
		s.Customize = g.validHook("customize")
		s.Customize.Related = g.rng.Pick([]string{"pods", "namespaces"})
	}
	// the fields a constructor might be tempted to default in place
	s.Resync = g.resync()
	s.GenSelector = g.rng.Pick([]string{"true", "true", "false", ""})
	s.IgnoreStatus = g.rng.Pick([]string{"", "", "false", "true"})
	if g.rng.Chance(1, 24) {
		// the constructor also accepts a hooks block whose sync hook is missing or empty
		s.Kind = "nosync"
		s.Customize = nil
		if g.rng.Bool() {
			s.Sync = nil
		} else {
			s.Sync = &c20HookCfg{NoWebhook: true}
		}
	}
	if g.rng.Chance(1, 24) && len(s.Children) > 0 {
		// a rule named twice
		s.Kind = "dup-rule"
		if flavor == "Decorator" && g.rng.Bool() {
			s.Parents = append(s.Parents, s.Parents[0])
		} else {
			s.Children = append(s.Children, s.Children[g.rng.Intn(len(s.Children))])
		}
	}
	return s
}

var c20InvalidKinds = []string{"unknown-parent", "unknown-child", "unknown-child-strategy", "hooks-nil", "no-url-no-service",
	"service-no-path", "service-no-name", "service-no-namespace", "bad-finalize", "bad-customize", "bad-selector", "dup-then-unknown"}

// invalid: a specification the constructor must refuse
func (g *c20Gen) invalid(flavor, kind string) *c20Spec {
	s := g.valid(flavor)
	for s.Kind != "valid" {
		s = g.valid(flavor)
	}
	s.Kind = kind
	bad := func() *c20HookCfg {
		h := &c20HookCfg{Timeout: g.rng.Pick([]string{"", "neg"}), Etag: g.rng.Pick([]string{"", "on"})}
		switch g.rng.Intn(4) {
		case 0:
		case 1:
			h.Service = &c20Svc{Name: true, Namespace: true}
		case 2:
			h.Service = &c20Svc{Namespace: true}
			h.Path = true
		default:
			h.Service = &c20Svc{Name: true}
			h.Path = true
		}
		return h
	}
	unknownChild := c20Rule{APIVersion: "v1", Resource: "doohickeys"}
	switch kind {
	case "unknown-parent":
		if flavor == "Composite" || g.rng.Bool() {
			s.Parents[0] = c20Rule{APIVersion: "ctl.example.com/v1", Resource: "gizmos"}
		} else {
			s.Parents = append(s.Parents, c20Rule{APIVersion: "ctl.example.com/v1", Resource: "gizmos"})
		}
	case "unknown-child":
		pos := g.rng.Intn(len(s.Children) + 1)
		s.Children = append(s.Children[:pos:pos], append([]c20Rule{unknownChild}, s.Children[pos:]...)...)
	case "unknown-child-strategy":
		unknownChild.Strategy = "InPlace"
		s.Children = append(s.Children, unknownChild)
	case "hooks-nil":
		s.NoHooks = true
		s.Sync, s.Finalize, s.Customize = nil, nil, nil
	case "no-url-no-service":
		s.Sync = &c20HookCfg{Path: g.rng.Bool(), Timeout: g.rng.Pick([]string{"", "neg"})}
	case "service-no-path":
		s.Sync = &c20HookCfg{Service: &c20Svc{Name: true, Namespace: true, Port: true}}
	case "service-no-name":
		s.Sync = &c20HookCfg{Service: &c20Svc{Namespace: true}, Path: true}
	case "service-no-namespace":
		s.Sync = &c20HookCfg{Service: &c20Svc{Name: true, Protocol: true}, Path: true, Etag: "on"}
	case "bad-finalize":
		s.Finalize = bad()
	case "bad-customize":
		s.Customize = bad()
	case "bad-selector":
		s.Parents[g.rng.Intn(len(s.Parents))].BadSelector = true
	case "dup-then-unknown":
		s.Children = []c20Rule{c20Pods, c20Pods, unknownChild}
	}
	return s
}

// concretise turns abstract letters (per name) into events.
//
//	V apply a new startable spec     I apply a new unstartable spec   N no-op update (metadata only)
//	D delete                         E the read of the object fails
//	R delete and re-create under the same name with a new startable spec, seen as one event (generation 1 again)
//	C apply a new startable spec while the parent CRD is missing / has no status subresource (composite)
//	K no-op update while the CRD is missing / has no status subresource (composite)
//	G apply a new spec whose parent apiVersion does not parse (composite)
func (g *c20Gen) concretise(flavor, family string, letters []string, names []string) *c20Case {
	c := &c20Case{Flavor: flavor, Family: family}
	cur := map[string]*c20Spec{}
	lastTouch := map[string]int{}
	for i, l := range letters {
		n := names[i]
		g.touch++
		ev := c20Event{Name: n, Abs: l, Crd: "ok", Touch: g.touch}
		if flavor != "Composite" {
			ev.Crd = ""
			switch l {
			case "C", "G":
				l = "V"
			case "K":
				l = "N"
			}
		}
		if (l == "N" || l == "K" || l == "R") && cur[n] == nil {
			l = "V"
		}
		switch l {
		case "V", "C":
			ev.Op, ev.Spec = "apply", g.valid(flavor)
		case "I":
			ev.Op, ev.Spec = "apply", g.invalid(flavor, c20InvalidKinds[g.rng.Intn(len(c20InvalidKinds))])
		case "G":
			ev.Op, ev.Spec = "apply", g.valid(flavor)
			ev.Spec.Kind = "bad-gv"
			ev.Spec.Parents[0].APIVersion = "ctl.example.com/v1/x"
		case "R":
			ev.Op, ev.Spec, ev.Replace = "apply", g.valid(flavor), true
		case "N", "K":
			ev.Op, ev.Spec = "apply", cur[n]
			if g.rng.Bool() {
				// not even the metadata changed: the same object delivered again (informer resync)
				ev.Touch = lastTouch[n]
			}
		case "D":
			ev.Op = "delete"
		case "E":
			ev.Op = "geterr"
		}
		if l == "C" || l == "K" {
			ev.Crd = c20BadCrds[g.rng.Intn(len(c20BadCrds))]
		}
		// a quarter of the events that find an object of the name are issued while a
		// sync of its instance is in flight
		if cur[n] != nil && g.rng.Chance(1, 4) {
			ev.Blocked = true
		}
		if ev.Spec != nil {
			cur[n] = ev.Spec
			lastTouch[n] = ev.Touch
		}
		if ev.Op == "delete" {
			delete(cur, n)
		}
		c.Events = append(c.Events, ev)
	}
	c20Stamp(c)
	c.Features = c20Features(c)
	return c
}

// c20Stamp gives every stored object the generation and uid the API server would.
func c20Stamp(c *c20Case) {
	type stored struct {
		id  int
		gen int64
		uid string
	}
	cur := map[string]*stored{}
	uids := 0
	for i := range c.Events {
		ev := &c.Events[i]
		switch ev.Op {
		case "delete":
			delete(cur, ev.Name)
		case "apply":
			o := cur[ev.Name]
			switch {
			case o == nil || ev.Replace:
				uids++
				o = &stored{id: ev.Spec.ID, gen: 1, uid: fmt.Sprintf("uid-%s-%d", ev.Name, uids)}
				cur[ev.Name] = o
			case o.id != ev.Spec.ID:
				o.id = ev.Spec.ID
				o.gen++
			}
			ev.Gen, ev.UID = o.gen, o.uid
		}
	}
}

// c20Features: what a history contains (for the driver's known-finding matching)
func c20Features(c *c20Case) []string {
	feat := map[string]bool{}
	for _, ev := range c.Events {
		if ev.Spec == nil {
			continue
		}
		if ev.Crd == "missing" || ev.Crd == "nostatus" {
			feat["crd-"+ev.Crd] = true
			feat["crd-gate"] = true
		}
		if c.Flavor == "Composite" {
			if _, err := schema.ParseGroupVersion(ev.Spec.Parents[0].APIVersion); err != nil {
				feat["bad-gv"] = true
				feat["crd-gate"] = true
			}
		}
		if ev.Spec.Kind != "valid" && ev.Spec.Kind != "nosync" && ev.Spec.Kind != "dup-rule" {
			feat[ev.Spec.Kind] = true
		}
		if !ev.Spec.NoHooks && !ev.Spec.Sync.usable() && (ev.Spec.Sync == nil || ev.Spec.Sync.NoWebhook) {
			feat["nosync"] = true
		}
		for _, rules := range [][]c20Rule{ev.Spec.Children, ev.Spec.Parents} {
			seen := map[string]bool{}
			for _, k := range rules {
				if seen[c20ResourceKey(k)] {
					feat["dup-rule"] = true
				}
				seen[c20ResourceKey(k)] = true
			}
		}
	}
	out := []string{}
	for f := range feat {
		out = append(out, f)
	}
	sort.Strings(out)
	return out
}

// all letter sequences of length 1..maxLen over the alphabet
func c20AllSequences(alphabet []string, maxLen int) [][]string {
	var out [][]string
	var rec func(prefix []string)
	rec = func(prefix []string) {
		if len(prefix) > 0 {
			out = append(out, append([]string(nil), prefix...))
		}
		if len(prefix) == maxLen {
			return
		}
		for _, a := range alphabet {
			rec(append(prefix, a))
		}
	}
	rec(nil)
	return out
}

func c20Corpus(flavor string, rng *vh.Rng) []*c20Case {
	var out []*c20Case
	add := func(family string, letters, names []string, fix func(c *c20Case, g *c20Gen)) {
		sub, _ := rng.Fork()
		g := &c20Gen{rng: sub}
		c := g.concretise(flavor, family, letters, names)
		if fix != nil {
			fix(c, g)
		}
		c20Stamp(c)
		c.Features = c20Features(c)
		out = append(out, c)
	}
	a := func(n int) []string {
		l := make([]string, n)
		for i := range l {
			l[i] = "a"
		}
		return l
	}
	add("corpus-lifecycle", []string{"V", "N", "V", "D"}, a(4), nil)
	add("corpus-two-names", []string{"V", "V", "N", "D", "V", "D"}, []string{"a", "b", "a", "a", "b", "b"}, nil)
	// every way a specification can be unstartable, from nothing and over a running instance
	for _, k := range c20InvalidKinds {
		kind := k
		add("corpus-invalid-"+kind, []string{"I", "V", "I", "D"}, a(4), func(c *c20Case, g *c20Gen) {
			c.Events[0].Spec = g.invalid(flavor, kind)
			c.Events[2].Spec = g.invalid(flavor, kind)
		})
	}
	// every optional webhook field set and unset
	for _, etag := range []string{"", "nil-enabled", "off", "on"} {
		for _, ct := range []bool{false, true} {
			for _, cc := range []bool{false, true} {
				if etag == "" && (ct || cc) {
					continue
				}
				e, t, cl := etag, ct, cc
				add("corpus-webhook-fields", []string{"V", "V", "D"}, a(3), func(c *c20Case, g *c20Gen) {
					for i, tmo := range []string{"neg", "pos"} {
						s := c.Events[i].Spec
						s.Kind, s.Children, s.Customize = "valid", []c20Rule{c20Pods}, nil
						s.Sync = &c20HookCfg{URL: i == 0, Timeout: tmo, Etag: e, CacheTimeout: t, CacheCleanup: cl}
						if i == 1 {
							s.Sync.Service = &c20Svc{Name: true, Namespace: true, Port: t, Protocol: cl}
							s.Sync.Path = true
						}
						s.Finalize = &c20HookCfg{URL: true, Etag: e, CacheTimeout: cl, CacheCleanup: t}
					}
				})
			}
		}
	}
	add("corpus-get-error", []string{"V", "E", "N", "E", "D"}, a(5), nil)
	add("corpus-related", []string{"V", "V", "N", "V", "D", "D"}, []string{"a", "b", "a", "a", "a", "b"}, func(c *c20Case, g *c20Gen) {
		for i, rel := range map[int]string{0: "pods", 1: "pods", 3: "namespaces"} {
			s := c.Events[i].Spec
			s.Kind = "valid"
			s.Sync = &c20HookCfg{URL: true}
			s.Customize = &c20HookCfg{URL: true, Related: rel}
			s.Children = []c20Rule{c20Pods}
		}
		c.Events[2].Spec = c.Events[0].Spec
	})
	// two workers sync two parents of a freshly started controller at the same time and
	// both need a related resource nobody has subscribed to yet
	conc := func(c *c20Case, g *c20Gen) {
		c.Workers = 2
		for i := range c.Events {
			s := c.Events[i].Spec
			if s == nil || c.Events[i].Abs != "V" {
				continue
			}
			s.Kind, s.NoHooks = "valid", false
			s.Parents = []c20Rule{c20Things}
			s.Children = []c20Rule{c20Pods}
			s.Sync = &c20HookCfg{URL: true}
			s.Finalize = nil
			s.Customize = &c20HookCfg{URL: true, Related: "namespaces"}
		}
	}
	add("corpus-concurrent-related", []string{"V", "D"}, a(2), conc)
	add("corpus-concurrent-related", []string{"V", "N", "V", "D"}, a(4), func(c *c20Case, g *c20Gen) {
		conc(c, g)
		c.Events[1].Spec = c.Events[0].Spec
	})
	add("corpus-concurrent-related", []string{"V", "V", "D", "V", "D", "D"}, []string{"a", "b", "a", "a", "b", "a"}, conc)
	// delete / spec change / unstartable spec / no-op while a sync of the instance is held in its hook call
	inflight := func(blocked ...int) func(c *c20Case, g *c20Gen) {
		return func(c *c20Case, g *c20Gen) {
			for i := range c.Events {
				c.Events[i].Blocked = false
				if s := c.Events[i].Spec; s != nil && c.Events[i].Abs == "V" {
					s.Kind, s.NoHooks = "valid", false
					s.Parents = []c20Rule{c20Things}
					s.Children = []c20Rule{c20Pods}
					s.Sync = &c20HookCfg{URL: true}
					s.Finalize, s.Customize = nil, nil
				}
			}
			for _, i := range blocked {
				c.Events[i].Blocked = true
			}
		}
	}
	add("corpus-stop-in-flight", []string{"V", "D"}, a(2), inflight(1))
	add("corpus-stop-in-flight", []string{"V", "V", "D"}, a(3), inflight(1, 2))
	add("corpus-stop-in-flight", []string{"V", "I", "V", "N", "D"}, a(5), inflight(1, 3, 4))
	add("corpus-stop-in-flight", []string{"V", "V", "D", "V", "D"}, []string{"a", "b", "a", "b", "b"}, inflight(2, 3, 4))
	add("corpus-stop-in-flight", []string{"V", "E", "D"}, a(3), func(c *c20Case, g *c20Gen) {
		inflight(1, 2)(c, g)
		c.Workers = 2
	})
	if flavor == "Composite" {
		add("corpus-stop-in-flight", []string{"V", "C", "V", "G"}, a(4), inflight(1, 3))
	}
	// delete + re-create under the same name coalesced into one reconcile: generation 1 again
	add("corpus-replace", []string{"V", "R", "D"}, a(3), nil)
	add("corpus-replace", []string{"V", "N", "R", "N", "R", "D"}, a(6), nil)
	add("corpus-replace", []string{"V", "V", "R", "V", "R"}, a(5), nil)
	add("corpus-replace", []string{"V", "V", "R", "R", "D", "R"}, []string{"a", "b", "a", "b", "a", "b"}, nil)
	add("corpus-replace", []string{"I", "R", "V", "R"}, a(4), nil)
	// every value of the fields a constructor might default in place, each followed by
	// a metadata-only update and by the same object delivered again
	i32 := func(v int32) *int32 { return &v }
	for vi, rs := range []*int32{nil, i32(0), i32(-2), i32(1), i32(7200)} {
		resync, k := rs, vi
		add("corpus-normalisable", []string{"V", "N", "N", "V", "N", "D"}, a(6), func(c *c20Case, g *c20Gen) {
			c.Events[2].Touch = c.Events[1].Touch
			for _, i := range []int{0, 3} {
				s := c.Events[i].Spec
				s.Kind, s.NoHooks, s.Customize = "valid", false, nil
				s.Resync = resync
				s.GenSelector = []string{"", "false", "true"}[(k+i)%3]
				s.IgnoreStatus = []string{"", "true", "false"}[(k+i)%3]
				s.Children = []c20Rule{{APIVersion: "v1", Resource: "pods", Strategy: []string{"", "empty", "OnDelete", "InPlace", "Recreate"}[k]}}
				s.Sync = &c20HookCfg{URL: true, Timeout: []string{"", "zero", "neg", "pos", ""}[k], Etag: []string{"", "nil-enabled", "on", "off", "on"}[k]}
				s.Finalize = []*c20HookCfg{nil, {NoWebhook: true}, {URL: true, Timeout: "neg"}}[(k+i)%3]
			}
			c.Events[1].Spec, c.Events[2].Spec, c.Events[4].Spec = c.Events[0].Spec, c.Events[0].Spec, c.Events[3].Spec
		})
	}
	// controllers whose parent handlers run a resync ticker of their own (1 s), stopped and restarted
	fast := func(c *c20Case, g *c20Gen) {
		for i := range c.Events {
			if s := c.Events[i].Spec; s != nil && c.Events[i].Abs != "N" {
				s.Kind, s.NoHooks = "valid", false
				v := []int32{1, 0, -3}[i%3]
				s.Resync = &v
				s.Children = []c20Rule{c20Pods}
				s.Sync = &c20HookCfg{URL: true}
				s.Finalize, s.Customize = nil, nil
			}
		}
	}
	add("corpus-fast-resync", []string{"V", "D"}, a(2), fast)
	add("corpus-fast-resync", []string{"V", "V", "N", "D"}, a(4), fast)
	add("corpus-fast-resync", []string{"V", "V", "R", "D"}, []string{"a", "b", "a", "b"}, fast)
	// two controllers on the same parent, child and related resources: whatever happens to one
	// of them (delete, restart, unstartable spec, replace), the other keeps being served
	shared := func(c *c20Case, g *c20Gen) {
		for i := range c.Events {
			s := c.Events[i].Spec
			if s == nil || c.Events[i].Abs == "N" || c.Events[i].Abs == "I" {
				continue
			}
			s.Kind, s.NoHooks = "valid", false
			s.Parents = []c20Rule{c20Things}
			s.Children = []c20Rule{c20Pods, c20Widgets}
			s.Sync = &c20HookCfg{URL: true}
			s.Finalize = nil
			s.Customize = &c20HookCfg{URL: true, Related: "namespaces"}
			s.Resync = nil
		}
	}
	add("corpus-shared-resources", []string{"V", "V", "D", "N", "V", "D", "N"}, []string{"a", "b", "a", "b", "a", "b", "a"}, shared)
	add("corpus-shared-resources", []string{"V", "V", "V", "N", "I", "N", "R", "N"}, []string{"a", "b", "a", "b", "a", "b", "a", "b"}, shared)
	add("corpus-shared-resources", []string{"V", "V", "R", "V", "D", "N", "D"}, []string{"a", "b", "b", "a", "b", "a", "a"}, func(c *c20Case, g *c20Gen) {
		shared(c, g)
		c.Workers = 2
	})
	add("corpus-dup-rule", []string{"V", "D"}, a(2), func(c *c20Case, g *c20Gen) {
		s := c.Events[0].Spec
		s.Kind, s.Children, s.Customize = "dup-rule", []c20Rule{c20Pods, c20Pods}, nil
		s.Sync = &c20HookCfg{URL: true}
	})
	add("corpus-nosync", []string{"V", "N", "V", "D"}, a(4), func(c *c20Case, g *c20Gen) {
		s := c.Events[0].Spec
		s.Kind, s.Sync, s.Customize = "nosync", nil, nil
		c.Events[1].Spec = s
	})
	if flavor == "Composite" {
		for _, crd := range c20BadCrds {
			k := crd
			add("corpus-crd-"+k, []string{"C", "V", "C", "K", "D"}, a(5), func(c *c20Case, g *c20Gen) {
				for _, i := range []int{0, 2, 3} {
					c.Events[i].Crd = k
				}
				for _, i := range []int{0, 1, 2} {
					s := c.Events[i].Spec
					s.Kind, s.Customize = "valid", nil
					s.Sync = &c20HookCfg{URL: true}
					s.Parents = []c20Rule{c20Things}
				}
				c.Events[3].Spec = c.Events[2].Spec
			})
		}
		add("corpus-bad-gv", []string{"G", "V", "G", "D"}, a(4), nil)
	}
	return out
}

var c20Alphabet = []string{"V", "I", "N", "D"}
var c20AlphabetR = []string{"V", "I", "N", "D", "R"}

// c20Generate: the hand-written corpus, then (thorough) every sequence up to
// length 5 over one name or (quick) a seeded sample of the sequences up to
// length 4, then seeded two-name histories up to length 6 over the full alphabet.
func c20Generate(flavor string, seed uint64, n int, tier string, adv bool) []*c20Case {
	rng := vh.NewRng(seed ^ 0xc20c20)
	out := c20Corpus(flavor, rng)
	one := func(letters []string, family string) *c20Case {
		sub, _ := rng.Fork()
		g := &c20Gen{rng: sub}
		names := make([]string, len(letters))
		for i := range names {
			names[i] = "a"
		}
		return g.concretise(flavor, family, letters, names)
	}
	if tier == "thorough" {
		seqs := c20AllSequences(c20Alphabet, 5)
		for _, l := range c20AllSequences(c20AlphabetR, 4) {
			if strings.Contains(strings.Join(l, ""), "R") {
				seqs = append(seqs, l)
			}
		}
		for i, l := range seqs {
			c := one(l, "enum5")
			if i%4 == 3 {
				c.Workers = 2
			}
			out = append(out, c)
		}
	} else {
		all := c20AllSequences(c20AlphabetR, 4)
		// seeded sample without replacement
		for i := len(all) - 1; i > 0; i-- {
			j := rng.Intn(i + 1)
			all[i], all[j] = all[j], all[i]
		}
		k := n / 2
		if k > len(all) {
			k = len(all)
		}
		for i, l := range all[:k] {
			c := one(l, "enum4-sample")
			if i%4 == 3 {
				c.Workers = 2
			}
			out = append(out, c)
		}
		n -= k
	}
	full := []string{"V", "V", "V", "I", "I", "N", "N", "D", "D", "E", "C", "K", "G", "R", "R"}
	if adv {
		full = []string{"V", "I", "I", "I", "N", "D", "E", "C", "C", "K", "K", "G", "R", "R", "R"}
	}
	for i := 0; i < n; i++ {
		sub, _ := rng.Fork()
		g := &c20Gen{rng: sub}
		ln := 2 + sub.Intn(5)
		letters := make([]string, ln)
		names := make([]string, ln)
		for j := range letters {
			letters[j] = full[sub.Intn(len(full))]
			names[j] = []string{"a", "a", "b"}[sub.Intn(3)]
		}
		c := g.concretise(flavor, "two-names", letters, names)
		if sub.Chance(1, 3) {
			c.Workers = 2
		}
		out = append(out, c)
	}
	return out
}

// ---- the test ----

func c20Main(t *testing.T) {
	env := vh.GetEnv()
	if env.OutDir == "" {
		t.Skip("VERIF_OUT not set")
	}
	header := "From MC Require Import Check.C20_check.\nOpen Scope string_scope.\n"
	w, err := vh.NewCaseWriter(env.OutDir, c20Prop, header, 60)
	if err != nil {
		t.Fatal(err)
	}
	var cases []*c20Case
	if env.Replay != "" {
		data, err := os.ReadFile(env.Replay)
		if err != nil {
			t.Fatal(err)
		}
		var rf struct {
			Case struct {
				Case *c20Case `json:"case"`
			} `json:"case"`
		}
		if err := json.Unmarshal(data, &rf); err != nil || rf.Case.Case == nil {
			t.Fatalf("cannot read replay: %v", err)
		}
		cases = append(cases, rf.Case.Case)
	} else {
		n := env.N
		if n == 0 {
			n = 100
		}
		cases = c20Generate(c20Flavor, env.Seed, n, env.Tier, os.Getenv("VERIF_ADV") == "1")
	}
	// The histories run in parallel worlds (one slot = one pair of controller names).
	// Panics of hosted workers are counted process-wide, so the histories in which
	// one is conceivable (a hooks block without a usable sync hook) run alone afterwards.
	results := make([][]c20StepRec, len(cases))
	var par, seq []int
	for i, c := range cases {
		alone := false
		for _, f := range c.Features {
			if f == "nosync" && c20NosyncAlone {
				alone = true
			}
		}
		if alone || c20Sequential() {
			seq = append(seq, i)
		} else {
			par = append(par, i)
		}
	}
	slots := 12
	if len(par) < slots {
		slots = len(par)
	}
	var next int64 = -1
	var wg sync.WaitGroup
	for s := 0; s < slots; s++ {
		wg.Add(1)
		go func(slot int) {
			defer wg.Done()
			for {
				i := int(atomic.AddInt64(&next, 1))
				if i >= len(par) {
					return
				}
				results[par[i]] = c20RunCase(slot, cases[par[i]])
			}
		}(s)
	}
	wg.Wait()
	for _, i := range seq {
		results[i] = c20RunCase(0, cases[i])
	}
	for i, c := range cases {
		recs := results[i]
		id := fmt.Sprintf("h%d", i)
		outcomes := []string{}
		for _, r := range recs {
			outcomes = append(outcomes, r.Obs.Outcome)
		}
		replay := map[string]interface{}{"case": c, "features": c.Features, "outcomes": outcomes}
		if err := w.Add(id, c20CoqCase(c, recs), "C20_check", replay); err != nil {
			t.Fatal(err)
		}
		w.Count("family-" + strings.SplitN(c.Family, "-", 3)[0])
		for _, r := range recs {
			if r.Event.Replace {
				w.Count("event-replace")
			}
			if sp := r.Event.Spec; sp != nil {
				switch {
				case sp.Resync == nil:
					w.Count("resync-absent")
				case *sp.Resync < 1:
					w.Count("resync-below-one")
				case *sp.Resync == 1:
					w.Count("resync-one")
				default:
					w.Count("resync-large")
				}
				w.Count("generateSelector-" + sp.GenSelector)
			}
			if r.Event.Blocked {
				w.Count("event-with-sync-in-flight-requested")
			}
		}
		if c.Workers >= 2 {
			w.Count("two-workers")
			for _, r := range recs {
				if r.Related != nil {
					w.Count("two-workers-concurrent-related-request")
				}
			}
		}
		for _, f := range c.Features {
			w.Count("feature-" + f)
		}
		starts, stops, restarts, noops, related := 0, 0, 0, 0, 0
		prev := map[string][2]int{}
		for _, r := range recs {
			w.Count("letter-" + r.Event.Abs)
			w.Count("outcome-" + r.Obs.Outcome)
			if r.Event.Spec != nil {
				w.Count("spec-" + r.Event.Spec.Kind)
			}
			if r.Related != nil {
				related++
			}
			for _, n := range []string{"a", "b"} {
				p, was := prev[n]
				q, is := r.Obs.Insts[n]
				switch {
				case !was && is:
					starts++
				case was && !is:
					stops++
				case was && is && p[1] != q[1]:
					restarts++
				case was && is && n == r.Event.Name:
					noops++
				}
			}
			prev = r.Obs.Insts
		}
		w.Count(fmt.Sprintf("starts-%d", c20Cap(starts)))
		w.Count(fmt.Sprintf("restarts-%d", c20Cap(restarts)))
		if related > 0 {
			w.Count("related-informer-opened")
		}
		// non-trivial: an instance was started and a later event stopped, restarted or kept it
		if starts > 0 && stops+restarts+noops > 0 {
			w.NonTrivial(c20Signature(c, recs))
		}
	}
	if err := w.Close(nil); err != nil {
		t.Fatal(err)
	}
}

func c20Cap(n int) int {
	if n > 3 {
		return 3
	}
	return n
}

func c20Sequential() bool { return os.Getenv("VERIF_C20_SEQ") == "1" }
