package decorator

// C16 harness, part 1: builds the real decoratorController over the simulated
// API server and a scripted hook transport, runs real worker steps
// (processNextWorkItem), records what happened.

import (
	"context"
	"fmt"
	"net/http"
	"reflect"
	"sort"
	"sync"
	"time"

	"github.com/go-logr/logr"
	metav1 "k8s.io/apimachinery/pkg/apis/meta/v1"
	"k8s.io/apimachinery/pkg/apis/meta/v1/unstructured"
	"k8s.io/apimachinery/pkg/runtime"
	utilruntime "k8s.io/apimachinery/pkg/util/runtime"
	"k8s.io/client-go/discovery"
	"k8s.io/client-go/tools/cache"

	"metacontroller/pkg/apis/metacontroller/v1alpha1"
	dynamicclientset "metacontroller/pkg/dynamic/clientset"
	dynamicdiscovery "metacontroller/pkg/dynamic/discovery"
	dynamicinformer "metacontroller/pkg/dynamic/informer"
	vh "metacontroller/pkg/internal/verifh"
	sim "metacontroller/pkg/internal/verifsim"
	"metacontroller/pkg/logging"
)

type c16J = map[string]interface{}
type c16A = []interface{}

// targets: a namespaced kind with a status subresource, a cluster-scoped kind without one;
// attachments: namespaced with and without status subresource, and a cluster-scoped kind
var c16Resources = []sim.Resource{
	{Group: "", Version: "v1", Resource: "pods", Kind: "Pod", Namespaced: true, HasStatus: true},
	{Group: "ctl.example.com", Version: "v1", Resource: "clusterwidgets", Kind: "ClusterWidget", Namespaced: false, HasStatus: false},
	{Group: "", Version: "v1", Resource: "configmaps", Kind: "ConfigMap", Namespaced: true, HasStatus: false},
	{Group: "apps.example.com", Version: "v1", Resource: "gadgets", Kind: "Gadget", Namespaced: true, HasStatus: true},
	{Group: "ctl.example.com", Version: "v1", Resource: "clustergadgets", Kind: "ClusterGadget", Namespaced: false, HasStatus: false},
}

func c16ResByKind(apiVersion, kind string) *sim.Resource {
	for i := range c16Resources {
		r := &c16Resources[i]
		if r.APIVersion() == apiVersion && r.Kind == kind {
			return r
		}
	}
	return nil
}

var c16HookTransport = &vh.HookTransport{}
var c16Once sync.Once

var c16SyncErrors []string
var c16SyncErrorsMu sync.Mutex

func c16Install() {
	// the webhook client captures http.DefaultTransport when the controller is built
	http.DefaultTransport = c16HookTransport
	c16Once.Do(func() {
		logging.Logger = logr.Discard()
		utilruntime.ErrorHandlers = []utilruntime.ErrorHandler{func(_ context.Context, err error, msg string, kv ...interface{}) {
			c16SyncErrorsMu.Lock()
			c16SyncErrors = append(c16SyncErrors, err.Error())
			c16SyncErrorsMu.Unlock()
		}}
	})
}

// c16World is one simulated cluster with the clients the controller uses.
type c16World struct {
	srv       *sim.Server
	resources *dynamicdiscovery.ResourceMap
	dynClient *dynamicclientset.Clientset
}

func c16NewWorld() *c16World { return c16NewWorldRefresh(time.Hour) }

// c16NewWorldRefresh: the ResourceMap re-reads discovery every refresh interval (short for the scenarios
// in which discovery loses a resource while the controller runs)
func c16NewWorldRefresh(refresh time.Duration) *c16World {
	c16Install()
	srv := sim.NewServer(c16Resources)
	cfg := srv.RestConfig()
	resources := dynamicdiscovery.NewResourceMap(discovery.NewDiscoveryClientForConfigOrDie(cfg))
	resources.Start(refresh)
	for i := 0; !resources.HasSynced(); i++ {
		if i > 5000 {
			panic("discovery never synced")
		}
		time.Sleep(time.Millisecond)
	}
	dynClient, err := dynamicclientset.New(cfg, resources)
	if err != nil {
		panic(err)
	}
	return &c16World{srv: srv, resources: resources, dynClient: dynClient}
}

// hideFromDiscovery hides (or shows again) a resource in discovery and waits until the ResourceMap has noticed
func (w *c16World) hideFromDiscovery(apiVersion, resource string, hidden bool) bool {
	w.srv.HideFromDiscovery(apiVersion, resource, hidden)
	deadline := time.Now().Add(5 * time.Second)
	for (w.resources.Get(apiVersion, resource) == nil) != hidden {
		if time.Now().After(deadline) {
			return false
		}
		time.Sleep(2 * time.Millisecond)
	}
	return true
}

func (w *c16World) close() {
	w.resources.Stop()
	w.srv.Close()
}

// ---- controller construction ----

type c16Expr struct {
	Key    string   `json:"key"`
	Op     string   `json:"op"` // In | NotIn | Exists | DoesNotExist
	Values []string `json:"values"`
}

type c16Sel struct {
	Match map[string]string `json:"match"`
	Exprs []c16Expr         `json:"exprs"`
}

type c16RuleSpec struct {
	APIVersion  string  `json:"apiVersion"`
	Resource    string  `json:"resource"`
	Kind        string  `json:"kind"`
	Namespaced  bool    `json:"namespaced"`
	HasStatus   bool    `json:"hasStatus"`
	Labels      *c16Sel `json:"labels"`      // nil = unset
	Annotations *c16Sel `json:"annotations"` // nil = unset
}

type c16AttSpec struct {
	APIVersion string `json:"apiVersion"`
	Resource   string `json:"resource"`
	Kind       string `json:"kind"`
	Namespaced bool   `json:"namespaced"`
	Method     string `json:"method"` // "" = no updateStrategy
}

type c16CtlSpec struct {
	Name        string        `json:"name"`
	Rules       []c16RuleSpec `json:"rules"`
	Attachments []c16AttSpec  `json:"attachments"`
	Finalize    bool          `json:"finalize"`
	NoSync      bool          `json:"noSync"`
}

func c16Requirements(es []c16Expr) []metav1.LabelSelectorRequirement {
	var out []metav1.LabelSelectorRequirement
	for _, e := range es {
		out = append(out, metav1.LabelSelectorRequirement{Key: e.Key, Operator: metav1.LabelSelectorOperator(e.Op), Values: append([]string(nil), e.Values...)})
	}
	return out
}

func (s *c16CtlSpec) decoratorController() *v1alpha1.DecoratorController {
	dc := &v1alpha1.DecoratorController{
		TypeMeta:   metav1.TypeMeta{APIVersion: "metacontroller.k8s.io/v1alpha1", Kind: "DecoratorController"},
		ObjectMeta: metav1.ObjectMeta{Name: s.Name},
	}
	for _, r := range s.Rules {
		rule := v1alpha1.DecoratorControllerResourceRule{}
		rule.APIVersion = r.APIVersion
		rule.Resource = r.Resource
		if r.Labels != nil {
			rule.LabelSelector = &metav1.LabelSelector{MatchLabels: r.Labels.Match, MatchExpressions: c16Requirements(r.Labels.Exprs)}
		}
		if r.Annotations != nil {
			rule.AnnotationSelector = &v1alpha1.AnnotationSelector{MatchAnnotations: r.Annotations.Match, MatchExpressions: c16Requirements(r.Annotations.Exprs)}
		}
		dc.Spec.Resources = append(dc.Spec.Resources, rule)
	}
	for _, a := range s.Attachments {
		rule := v1alpha1.DecoratorControllerAttachmentRule{}
		rule.APIVersion = a.APIVersion
		rule.Resource = a.Resource
		if a.Method != "" {
			rule.UpdateStrategy = &v1alpha1.DecoratorControllerAttachmentUpdateStrategy{Method: v1alpha1.ChildUpdateMethod(a.Method)}
		}
		dc.Spec.Attachments = append(dc.Spec.Attachments, rule)
	}
	hooks := &v1alpha1.DecoratorControllerHooks{}
	mk := func(path string) *v1alpha1.Hook {
		u := "http://hooks.test/" + s.Name + "/" + path
		return &v1alpha1.Hook{Webhook: &v1alpha1.Webhook{URL: &u}}
	}
	if !s.NoSync {
		hooks.Sync = mk("sync")
	}
	if s.Finalize {
		hooks.Finalize = mk("finalize")
	}
	dc.Spec.Hooks = hooks
	return dc
}

type c16Built struct {
	dc    *decoratorController
	queue *vh.RecQueue
}

// c16Build constructs a fresh controller whose informers list from the
// simulator's current list views, and waits until they are synced.
func (w *c16World) c16Build(s *c16CtlSpec) (*c16Built, error) {
	return w.c16BuildShared(s, dynamicinformer.NewSharedInformerFactory(w.dynClient, time.Hour))
}

// c16BuildShared: the controller takes its informers from the given factory; controllers built from one
// factory share the informer caches, as all hosted controllers of a metacontroller process do
func (w *c16World) c16BuildShared(s *c16CtlSpec, dynInformers *dynamicinformer.SharedInformerFactory) (*c16Built, error) {
	c16Install()
	dc, err := newDecoratorController(w.resources, w.dynClient, dynInformers, vh.NoopRecorder{}, s.decoratorController(), 1, logr.Discard())
	if err != nil {
		return nil, err
	}
	q := &vh.RecQueue{}
	dc.queue = q
	var syncs []cache.InformerSynced
	for _, pi := range dc.parentInformers {
		syncs = append(syncs, pi.Informer().HasSynced)
	}
	for _, ci := range dc.childInformers {
		syncs = append(syncs, ci.Informer().HasSynced)
	}
	deadline := time.Now().Add(10 * time.Second)
	for _, f := range syncs {
		for !f() {
			if time.Now().After(deadline) {
				return nil, fmt.Errorf("informers never synced")
			}
			time.Sleep(200 * time.Microsecond)
		}
	}
	return &c16Built{dc: dc, queue: q}, nil
}

func (b *c16Built) close() {
	for _, ci := range b.dc.childInformers {
		ci.Close()
	}
	for _, pi := range b.dc.parentInformers {
		pi.Close()
	}
	b.dc.customize.Stop()
}

// ---- one recorded sync ----

type c16Event struct {
	API  *sim.LogEntry
	Hook *vh.HookCall
}

type c16RoundRec struct {
	Key           string
	CacheParents  map[string][]c16J // res key -> cached objects of a resource rule
	CacheChildren map[string][]c16J // res key -> cached objects of an attachment rule
	Events        []c16Event
	Result        string // done | err | panic
	Queue         []vh.QueueOp
	PanicMsg      string
	CacheMutated  string // C17 oracle: "" or which cached object the sync changed
}

// c16Held is one object held by a shared informer cache: the pointer the cache holds and a copy of its content
type c16Held struct {
	what string
	ptr  *unstructured.Unstructured
	copy map[string]interface{}
}

func c16HoldAll(role string, inf *dynamicinformer.ResourceInformer, held []c16Held) []c16Held {
	for _, o := range inf.Informer().GetIndexer().List() {
		if u, ok := o.(*unstructured.Unstructured); ok {
			held = append(held, c16Held{what: role, ptr: u, copy: runtime.DeepCopyJSON(u.Object)})
		}
	}
	return held
}

func c16ResKey(resource, apiVersion string) string { return resource + "." + apiVersion }

func c16ObjKey(o c16J) string {
	md, _ := o["metadata"].(map[string]interface{})
	ns, _ := md["namespace"].(string)
	n, _ := md["name"].(string)
	return fmt.Sprint(o["apiVersion"], "/", o["kind"], "/", ns, "/", n)
}

func c16InformerObjects(im map[string][]c16J, key string, inf *dynamicinformer.ResourceInformer) {
	var objs []c16J
	for _, o := range inf.Informer().GetIndexer().List() {
		if u, ok := o.(*unstructured.Unstructured); ok {
			objs = append(objs, runtime.DeepCopyJSON(u.UnstructuredContent()))
		}
	}
	sort.Slice(objs, func(i, j int) bool { return c16ObjKey(objs[i]) < c16ObjKey(objs[j]) })
	if objs == nil {
		objs = []c16J{}
	}
	im[key] = objs
}

// c16HookSeq: the API log length at the time of the hook call travels in a response header
func c16HookSeq(c vh.HookCall) int {
	var n int
	fmt.Sscanf(c.RespHdr["X-Verif-Seq"], "%d", &n)
	return n
}

// runSync runs the real worker step for key and gathers the round record.
func (w *c16World) runSync(s *c16CtlSpec, b *c16Built, key string) *c16RoundRec {
	rec := &c16RoundRec{Key: key, CacheParents: map[string][]c16J{}, CacheChildren: map[string][]c16J{}}
	for gvr, pi := range b.dc.parentInformers {
		c16InformerObjects(rec.CacheParents, c16ResKey(gvr.Resource, gvr.GroupVersion().String()), pi)
	}
	for gvr, ci := range b.dc.childInformers {
		c16InformerObjects(rec.CacheChildren, c16ResKey(gvr.Resource, gvr.GroupVersion().String()), ci)
	}
	// C17 oracle: nothing a sync does may change an object held in the shared caches
	var held []c16Held
	for _, pi := range b.dc.parentInformers {
		held = c16HoldAll("target", pi, held)
	}
	for _, ci := range b.dc.childInformers {
		held = c16HoldAll("attachment", ci, held)
	}
	w.srv.ResetLog()
	c16HookTransport.ResetCalls()
	b.queue.Reset()
	func() {
		defer func() {
			if r := recover(); r != nil {
				rec.Result = "panic"
				rec.PanicMsg = fmt.Sprint(r)
			}
		}()
		c16SyncErrorsMu.Lock()
		c16SyncErrors = nil
		c16SyncErrorsMu.Unlock()
		// the real worker step: Get, sync, then AddRateLimited / Forget, Done
		b.queue.Push(key)
		b.dc.processNextWorkItem()
	}()
	c16SyncErrorsMu.Lock()
	if len(c16SyncErrors) > 0 && rec.PanicMsg == "" {
		rec.PanicMsg = c16SyncErrors[0]
	}
	c16SyncErrorsMu.Unlock()
	for _, h := range held {
		if !reflect.DeepEqual(h.ptr.Object, h.copy) {
			rec.CacheMutated = h.what
			break
		}
	}
	rec.Queue = b.queue.Snapshot()
	if rec.Result != "panic" {
		rec.Result = "done"
		for _, op := range rec.Queue {
			if op.Op == "AddRateLimited" {
				rec.Result = "err"
			}
		}
	}
	// merge API log and hook calls by the order in which they happened
	apiLog := w.srv.Log()
	calls := c16HookTransport.Calls()
	hi := 0
	for i := range apiLog {
		e := apiLog[i]
		if e.Verb == "list" || e.Verb == "watch" {
			continue
		}
		for hi < len(calls) && c16HookSeq(calls[hi]) <= e.Seq {
			c := calls[hi]
			rec.Events = append(rec.Events, c16Event{Hook: &c})
			hi++
		}
		rec.Events = append(rec.Events, c16Event{API: &e})
	}
	for ; hi < len(calls); hi++ {
		c := calls[hi]
		rec.Events = append(rec.Events, c16Event{Hook: &c})
	}
	return rec
}
