package decorator

// Harness of property C14 (decorator side): which parents a watch event puts on
// the work queue.  Self-contained (own world helpers, every identifier prefixed
// c14d).  A real decoratorController is built with newDecoratorController over
// the simulated API server (parent informers synced from the seeded parents,
// queue replaced by a recorder); the REAL handlers enqueueParentObject /
// updateParentObject / onChildAdd / onChildUpdate / onChildDelete are called
// directly and the queue's Add operations are the observation.

import (
	"encoding/json"
	"fmt"
	"os"
	"sort"
	"strings"
	"sync"
	"testing"
	"time"

	"github.com/go-logr/logr"
	metav1 "k8s.io/apimachinery/pkg/apis/meta/v1"
	"k8s.io/apimachinery/pkg/apis/meta/v1/unstructured"
	"k8s.io/apimachinery/pkg/runtime"
	"k8s.io/client-go/discovery"
	"k8s.io/client-go/tools/cache"

	"metacontroller/pkg/apis/metacontroller/v1alpha1"
	dynamicclientset "metacontroller/pkg/dynamic/clientset"
	dynamicdiscovery "metacontroller/pkg/dynamic/discovery"
	dynamicinformer "metacontroller/pkg/dynamic/informer"
	vh "metacontroller/pkg/internal/verifh"
	sim "metacontroller/pkg/internal/verifsim"
	"metacontroller/pkg/logging"
)

type c14dJ = map[string]interface{}
type c14dA = []interface{}

var c14dSimResources = []sim.Resource{
	{Group: "ctl.example.com", Version: "v1", Resource: "things", Kind: "Thing", Namespaced: true, HasStatus: true},
	{Group: "ctl.example.com", Version: "v1", Resource: "clusterthings", Kind: "ClusterThing", Namespaced: false, HasStatus: true},
	{Group: "", Version: "v1", Resource: "pods", Kind: "Pod", Namespaced: true, HasStatus: true},
	{Group: "apps.example.com", Version: "v1", Resource: "widgets", Kind: "Widget", Namespaced: true, HasStatus: false},
	{Group: "", Version: "v1", Resource: "namespaces", Kind: "Namespace", Namespaced: false, HasStatus: true},
	// one Kind in several API groups / versions (core Service and a Knative-like Service)
	{Group: "", Version: "v1", Resource: "services", Kind: "Service", Namespaced: true, HasStatus: true},
	{Group: "serving.example.com", Version: "v1", Resource: "services", Kind: "Service", Namespaced: true, HasStatus: true},
	{Group: "serving.example.com", Version: "v2", Resource: "services", Kind: "Service", Namespaced: true, HasStatus: true},
}

var c14dOnce sync.Once

type c14dWorld struct {
	srv       *sim.Server
	resources *dynamicdiscovery.ResourceMap
	dynClient *dynamicclientset.Clientset
}

func c14dNewWorld() *c14dWorld {
	c14dOnce.Do(func() { logging.Logger = logr.Discard() })
	srv := sim.NewServer(c14dSimResources)
	cfg := srv.RestConfig()
	resources := dynamicdiscovery.NewResourceMap(discovery.NewDiscoveryClientForConfigOrDie(cfg))
	resources.Start(time.Hour)
	for i := 0; !resources.HasSynced(); i++ {
		if i > 5000 {
			panic("discovery never synced")
		}
		time.Sleep(time.Millisecond)
	}
	dynClient, err := dynamicclientset.New(cfg, resources)
	if err != nil {
		panic(err)
	}
	return &c14dWorld{srv: srv, resources: resources, dynClient: dynClient}
}

func (w *c14dWorld) close() {
	w.resources.Stop()
	w.srv.Close()
}

// ---- controller description (data, so that a case replays from its JSON) ----
type c14dReq struct {
	Key    string   `json:"key"`
	Op     string   `json:"operator"`
	Values []string `json:"values,omitempty"`
}

type c14dSel struct {
	Match map[string]string `json:"match,omitempty"`
	Exprs []c14dReq         `json:"exprs,omitempty"`
}

type c14dRule struct {
	APIVersion   string   `json:"apiVersion"`
	Resource     string   `json:"resource"`
	Kind         string   `json:"kind"`
	Namespaced   bool     `json:"namespaced"`
	Labels       *c14dSel `json:"labels,omitempty"`
	Annotations  *c14dSel `json:"annotations,omitempty"`
	IgnoreStatus *bool    `json:"ignoreStatusChanges,omitempty"`
}

type c14dWorldSpec struct {
	Name        string     `json:"name"`
	Rules       []c14dRule `json:"rules"`
	Attachments []c14dRule `json:"attachments"`
	Finalize    bool       `json:"finalize"`
	Twin        bool       `json:"twin,omitempty"` // two rules with the same Kind, ignoreStatusChanges on one only
	Parents     []c14dJ    `json:"parents"`
}

type c14dEvent struct {
	Src  string `json:"src"`  // parent | child
	Kind string `json:"kind"` // add | update | delete | tombstone
	Old  c14dJ  `json:"old,omitempty"`
	Obj  c14dJ  `json:"obj"`
	Key  string `json:"key,omitempty"`
	Role string `json:"role"`
	Upd  string `json:"upd,omitempty"`
}

func c14dRequirements(rs []c14dReq) []metav1.LabelSelectorRequirement {
	var out []metav1.LabelSelectorRequirement
	for _, r := range rs {
		out = append(out, metav1.LabelSelectorRequirement{Key: r.Key, Operator: metav1.LabelSelectorOperator(r.Op), Values: r.Values})
	}
	return out
}

func (s *c14dWorldSpec) decoratorController() *v1alpha1.DecoratorController {
	dc := &v1alpha1.DecoratorController{
		TypeMeta:   metav1.TypeMeta{APIVersion: "metacontroller.k8s.io/v1alpha1", Kind: "DecoratorController"},
		ObjectMeta: metav1.ObjectMeta{Name: s.Name},
	}
	for _, r := range s.Rules {
		rule := v1alpha1.DecoratorControllerResourceRule{}
		rule.APIVersion = r.APIVersion
		rule.Resource = r.Resource
		if r.Labels != nil {
			rule.LabelSelector = &metav1.LabelSelector{MatchLabels: r.Labels.Match, MatchExpressions: c14dRequirements(r.Labels.Exprs)}
		}
		if r.Annotations != nil {
			rule.AnnotationSelector = &v1alpha1.AnnotationSelector{MatchAnnotations: r.Annotations.Match, MatchExpressions: c14dRequirements(r.Annotations.Exprs)}
		}
		if r.IgnoreStatus != nil {
			v := *r.IgnoreStatus
			rule.IgnoreStatusChanges = &v
		}
		dc.Spec.Resources = append(dc.Spec.Resources, rule)
	}
	for _, a := range s.Attachments {
		rule := v1alpha1.DecoratorControllerAttachmentRule{}
		rule.APIVersion = a.APIVersion
		rule.Resource = a.Resource
		dc.Spec.Attachments = append(dc.Spec.Attachments, rule)
	}
	mk := func(path string) *v1alpha1.Hook {
		u := "http://hooks.test/" + s.Name + "/" + path
		return &v1alpha1.Hook{Webhook: &v1alpha1.Webhook{URL: &u}}
	}
	dc.Spec.Hooks = &v1alpha1.DecoratorControllerHooks{Sync: mk("sync")}
	if s.Finalize {
		dc.Spec.Hooks.Finalize = mk("finalize")
	}
	return dc
}

type c14dLive struct {
	spec  *c14dWorldSpec
	w     *c14dWorld
	dc    *decoratorController
	queue *vh.RecQueue
	cache []c14dJ // content of all parent informers
}

func c14dCanon(o c14dJ) c14dJ {
	v, err := vh.Canon(map[string]interface{}(o))
	if err != nil {
		panic(err)
	}
	m, _ := v.(map[string]interface{})
	return m
}

func c14dKey(o c14dJ) string {
	md, _ := o["metadata"].(map[string]interface{})
	ns, _ := md["namespace"].(string)
	n, _ := md["name"].(string)
	if ns == "" {
		return n
	}
	return ns + "/" + n
}

func c14dBuild(spec *c14dWorldSpec) (*c14dLive, error) {
	w := c14dNewWorld()
	for _, p := range spec.Parents {
		w.srv.Seed(runtime.DeepCopyJSON(p))
	}
	dynInformers := dynamicinformer.NewSharedInformerFactory(w.dynClient, time.Hour)
	dc, err := newDecoratorController(w.resources, w.dynClient, dynInformers, vh.NoopRecorder{}, spec.decoratorController(), 1, logr.Discard())
	if err != nil {
		w.close()
		return nil, err
	}
	q := &vh.RecQueue{}
	dc.queue = q
	var syncs []cache.InformerSynced
	for _, pi := range dc.parentInformers {
		syncs = append(syncs, pi.Informer().HasSynced)
	}
	for _, ci := range dc.childInformers {
		syncs = append(syncs, ci.Informer().HasSynced)
	}
	deadline := time.Now().Add(10 * time.Second)
	for _, f := range syncs {
		for !f() {
			if time.Now().After(deadline) {
				return nil, fmt.Errorf("informers never synced")
			}
			time.Sleep(200 * time.Microsecond)
		}
	}
	l := &c14dLive{spec: spec, w: w, dc: dc, queue: q}
	for _, pi := range dc.parentInformers {
		for _, o := range pi.Informer().GetIndexer().List() {
			l.cache = append(l.cache, runtime.DeepCopyJSON(o.(*unstructured.Unstructured).Object))
		}
	}
	sort.Slice(l.cache, func(i, j int) bool {
		a, b := l.cache[i], l.cache[j]
		return fmt.Sprint(a["apiVersion"], "|", a["kind"], "|", c14dKey(a)) < fmt.Sprint(b["apiVersion"], "|", b["kind"], "|", c14dKey(b))
	})
	return l, nil
}

func (l *c14dLive) close() {
	for _, ci := range l.dc.childInformers {
		ci.Close()
	}
	for _, pi := range l.dc.parentInformers {
		pi.Close()
	}
	l.dc.customize.Stop()
	l.w.close()
}

func c14dU(o c14dJ) *unstructured.Unstructured {
	return &unstructured.Unstructured{Object: runtime.DeepCopyJSON(o)}
}

func (l *c14dLive) run(ev *c14dEvent) (keys []string) {
	c := l.dc
	l.queue.Reset()
	keys = []string{}
	func() {
		defer func() {
			if r := recover(); r != nil {
				keys = append(keys, "!panic")
			}
		}()
		switch ev.Src + "/" + ev.Kind {
		case "parent/add", "parent/delete":
			c.enqueueParentObject(c14dU(ev.Obj))
		case "parent/update":
			c.updateParentObject(c14dU(ev.Old), c14dU(ev.Obj))
		case "parent/tombstone":
			c.enqueueParentObject(cache.DeletedFinalStateUnknown{Key: ev.Key, Obj: c14dU(ev.Obj)})
		case "child/add":
			c.onChildAdd(c14dU(ev.Obj))
		case "child/update":
			c.onChildUpdate(c14dU(ev.Old), c14dU(ev.Obj))
		case "child/delete":
			c.onChildDelete(c14dU(ev.Obj))
		case "child/tombstone":
			c.onChildDelete(cache.DeletedFinalStateUnknown{Key: ev.Key, Obj: c14dU(ev.Obj)})
		default:
			panic("c14d: unknown event " + ev.Src + "/" + ev.Kind)
		}
	}()
	for _, op := range l.queue.Snapshot() {
		if op.Op == "Add" {
			keys = append(keys, op.Key)
		} else {
			keys = append(keys, "!"+op.Op)
		}
	}
	return keys
}

// ---- Coq terms ----
func c14dCoqSel(s *c14dSel) string {
	if s == nil || (len(s.Match) == 0 && len(s.Exprs) == 0) {
		return "sel_everything"
	}
	keys := make([]string, 0, len(s.Match))
	for k := range s.Match {
		keys = append(keys, k)
	}
	sort.Strings(keys)
	var parts []string
	for _, k := range keys {
		parts = append(parts, fmt.Sprintf("mkReq %s OpIn [%s]", vh.MustCoqString(k), vh.MustCoqString(s.Match[k])))
	}
	ops := map[string]string{"In": "OpIn", "NotIn": "OpNotIn", "Exists": "OpExists", "DoesNotExist": "OpDoesNotExist"}
	for _, e := range s.Exprs {
		parts = append(parts, fmt.Sprintf("mkReq %s %s %s", vh.MustCoqString(e.Key), ops[e.Op], vh.CoqStringList(e.Values)))
	}
	return "(SelReqs [" + strings.Join(parts, "; ") + "])"
}

func c14dCoqCfg(s *c14dWorldSpec) string {
	var rules []string
	for _, r := range s.Rules {
		ign := r.IgnoreStatus != nil && *r.IgnoreStatus
		rules = append(rules, fmt.Sprintf("mkDP %s %s %s %s %s %s %s", vh.MustCoqString(r.APIVersion), vh.MustCoqString(r.Kind),
			vh.MustCoqString(r.Resource), vh.CoqBool(r.Namespaced), c14dCoqSel(r.Labels), c14dCoqSel(r.Annotations), vh.CoqBool(ign)))
	}
	return fmt.Sprintf("(mkDCfg %s [%s])", vh.MustCoqString(s.Name), strings.Join(rules, "; "))
}

func c14dCoqObjs(objs []c14dJ) string {
	parts := make([]string, len(objs))
	for i, o := range objs {
		parts[i] = vh.MustCoqJSON(map[string]interface{}(o))
	}
	return "[" + strings.Join(parts, "; ") + "]"
}

func c14dCoqEvent(ev *c14dEvent) string {
	obj := vh.MustCoqJSON(map[string]interface{}(ev.Obj))
	switch ev.Kind {
	case "add":
		return "(EAdd " + obj + ")"
	case "update":
		return "(EUpdate " + vh.MustCoqJSON(map[string]interface{}(ev.Old)) + " " + obj + ")"
	case "delete":
		return "(EDelete " + obj + ")"
	}
	return "(EDeleteTombstone " + vh.MustCoqString(ev.Key) + " " + obj + ")"
}

func c14dCoqCase(l *c14dLive, ev *c14dEvent, keys []string) string {
	src := "SChild"
	if ev.Src == "parent" {
		src = "SParent"
	}
	return fmt.Sprintf("mkC14 (FDecorator %s) %s %s %s %s", c14dCoqCfg(l.spec), c14dCoqObjs(l.cache), src, c14dCoqEvent(ev), vh.CoqStringList(keys))
}

// ---- generators ----
type c14dGen struct {
	r   *vh.Rng
	adv bool
	fin string
}

var c14dRulePool = []c14dRule{
	{APIVersion: "ctl.example.com/v1", Resource: "things", Kind: "Thing", Namespaced: true},
	{APIVersion: "ctl.example.com/v1", Resource: "clusterthings", Kind: "ClusterThing", Namespaced: false},
	{APIVersion: "v1", Resource: "pods", Kind: "Pod", Namespaced: true},
	{APIVersion: "v1", Resource: "services", Kind: "Service", Namespaced: true},
	{APIVersion: "serving.example.com/v1", Resource: "services", Kind: "Service", Namespaced: true},
	{APIVersion: "serving.example.com/v2", Resource: "services", Kind: "Service", Namespaced: true},
}

// pairs of rules with the same Kind: other group, other group + version, other version of one group
var c14dTwinPairs = [][2]int{{3, 4}, {3, 5}, {4, 5}}

var c14dLabelSels = []*c14dSel{
	nil,
	{Match: map[string]string{"tier": "a"}},
	{Exprs: []c14dReq{{Key: "tier", Op: "In", Values: []string{"a", "c"}}}},
	{Exprs: []c14dReq{{Key: "tier", Op: "Exists"}}},
	{Match: map[string]string{"tier": "a"}, Exprs: []c14dReq{{Key: "skip", Op: "DoesNotExist"}}},
	{},
}

var c14dAnnotSels = []*c14dSel{
	nil, nil,
	{Match: map[string]string{"deco": "yes"}},
	{Exprs: []c14dReq{{Key: "deco", Op: "Exists"}}},
	{Exprs: []c14dReq{{Key: "deco", Op: "NotIn", Values: []string{"no"}}}},
}

func c14dCopy(m c14dJ) c14dJ {
	if m == nil {
		return nil
	}
	return runtime.DeepCopyJSON(m)
}

func c14dMeta(o c14dJ) c14dJ {
	md, _ := o["metadata"].(map[string]interface{})
	if md == nil {
		md = c14dJ{}
		o["metadata"] = md
	}
	return md
}

func (g *c14dGen) corruptMeta(md c14dJ, all bool) {
	r := g.r
	if r.Chance(1, 6) {
		md["labels"] = c14dJ{"tier": int64(1)}
	}
	if r.Chance(1, 8) {
		md["labels"] = "tier=a"
	}
	if r.Chance(1, 8) {
		md["finalizers"] = c14dA{int64(1)}
	}
	if r.Chance(1, 8) {
		md["generation"] = 2.5
	}
	if r.Chance(1, 8) {
		md["annotations"] = c14dJ{"deco": true}
	}
	if all {
		if r.Chance(1, 6) {
			md["ownerReferences"] = "x"
		}
		if r.Chance(1, 6) {
			md["ownerReferences"] = c14dA{int64(1)}
		}
		if r.Chance(1, 8) {
			md["resourceVersion"] = int64(7)
		}
	}
}

func (g *c14dGen) parentObj(rule *c14dRule, ns, name, uid string) c14dJ {
	r := g.r
	md := c14dJ{"name": name, "uid": uid, "generation": int64(1 + r.Intn(3))}
	if rule.Namespaced {
		md["namespace"] = ns
	}
	switch r.Intn(6) {
	case 0:
	case 1:
		md["labels"] = c14dJ{}
	case 2:
		md["labels"] = c14dJ{"tier": "b"}
	case 3:
		md["labels"] = c14dJ{"tier": "a", "skip": "1"}
	default:
		md["labels"] = c14dJ{"tier": "a"}
	}
	switch r.Intn(5) {
	case 0:
	case 1:
		md["annotations"] = c14dJ{"deco": "no"}
	case 2:
		md["annotations"] = c14dJ{}
	default:
		md["annotations"] = c14dJ{"deco": "yes"}
	}
	switch r.Intn(5) {
	case 0:
		md["finalizers"] = c14dA{g.fin}
	case 1:
		md["finalizers"] = c14dA{"example.com/other"}
	case 2:
		md["finalizers"] = c14dA{"example.com/other", g.fin}
	}
	if r.Chance(1, 7) {
		md["deletionTimestamp"] = "2020-01-02T00:00:00Z"
		if md["finalizers"] == nil {
			md["finalizers"] = c14dA{"example.com/hold"}
		}
	}
	if g.adv {
		g.corruptMeta(md, false)
	}
	return c14dJ{"apiVersion": rule.APIVersion, "kind": rule.Kind, "metadata": md, "spec": c14dJ{"x": int64(1)}, "status": c14dJ{"seen": int64(0)}}
}

func (g *c14dGen) world(i int) *c14dWorldSpec {
	r := g.r
	spec := &c14dWorldSpec{Name: fmt.Sprintf("c14d%d", i%5), Finalize: r.Bool()}
	g.fin = "metacontroller.io/decoratorcontroller-" + spec.Name
	perm := []int{0, 1, 2}
	for j := len(perm) - 1; j > 0; j-- {
		x := r.Intn(j + 1)
		perm[j], perm[x] = perm[x], perm[j]
	}
	nr := 1 + r.Intn(2)
	if r.Chance(1, 5) {
		nr = 3
	}
	mkRule := func(idx int) c14dRule {
		rule := c14dRulePool[idx]
		rule.Labels = c14dLabelSels[r.Intn(len(c14dLabelSels))]
		rule.Annotations = c14dAnnotSels[r.Intn(len(c14dAnnotSels))]
		switch r.Intn(3) {
		case 1:
			f := false
			rule.IgnoreStatus = &f
		case 2:
			t := true
			rule.IgnoreStatus = &t
		}
		return rule
	}
	hasPods := false
	if r.Chance(1, 4) {
		// same Kind under two apiVersions, status changes ignored for one of them only
		spec.Twin = true
		pair := c14dTwinPairs[r.Intn(len(c14dTwinPairs))]
		a, b := mkRule(pair[0]), mkRule(pair[1])
		if r.Chance(2, 3) {
			a.Labels, a.Annotations, b.Labels, b.Annotations = nil, nil, nil, nil
		}
		yes, no := true, false
		a.IgnoreStatus, b.IgnoreStatus = &yes, &no
		if r.Bool() {
			a.IgnoreStatus, b.IgnoreStatus = nil, &yes
		}
		spec.Rules = []c14dRule{a, b}
		if r.Bool() {
			spec.Rules = []c14dRule{b, a}
		}
		if r.Chance(1, 4) {
			spec.Rules = append(spec.Rules, mkRule(perm[0]))
			hasPods = perm[0] == 2
		}
		nr = 0
	}
	for j := 0; j < nr; j++ {
		spec.Rules = append(spec.Rules, mkRule(perm[j]))
		if perm[j] == 2 {
			hasPods = true
		}
	}
	if !spec.Twin && r.Chance(1, 8) { // the same resource listed twice: the maps keep the last rule, ignoreStatusChanges of any counts
		spec.Rules = append(spec.Rules, mkRule(perm[0]))
	}
	spec.Attachments = []c14dRule{{APIVersion: "apps.example.com/v1", Resource: "widgets", Kind: "Widget", Namespaced: true}}
	if !hasPods {
		spec.Attachments = append(spec.Attachments, c14dRule{APIVersion: "v1", Resource: "pods", Kind: "Pod", Namespaced: true})
	}
	np := []int{0, 1, 2, 2, 3, 3, 4, 4}[r.Intn(8)]
	if spec.Twin {
		np = 3 + r.Intn(3)
	}
	seen := map[string]bool{}
	for j := 0; j < np; j++ {
		rule := &spec.Rules[r.Intn(len(spec.Rules))]
		if spec.Twin && j < 2 {
			rule = &spec.Rules[j] // one parent of each twin at least
		}
		ns := []string{"ns1", "ns2"}[r.Intn(2)]
		if !rule.Namespaced {
			ns = ""
		}
		name := []string{"p1", "p2", "p3"}[r.Intn(3)]
		slot := rule.APIVersion + "|" + rule.Kind + "|" + ns + "|" + name
		if seen[slot] {
			continue
		}
		seen[slot] = true
		spec.Parents = append(spec.Parents, c14dCanon(g.parentObj(rule, ns, name, "uid-"+strings.ReplaceAll(rule.APIVersion, "/", ".")+"-"+rule.Kind+"-"+ns+"-"+name)))
	}
	return spec
}

var c14dParentUpdates = []string{"status", "generation", "labels", "labels-empty", "annotations", "annotations-empty",
	"deletion", "resync", "finalizers", "spec-no-generation", "status+generation"}

func (g *c14dGen) parentUpdate(old c14dJ, kind string) c14dJ {
	cur := c14dCopy(old)
	md := c14dMeta(cur)
	if kind != "resync" {
		rv, _ := md["resourceVersion"].(string)
		md["resourceVersion"] = rv + "1"
	}
	gen, _ := md["generation"].(int64)
	switch kind {
	case "status":
		cur["status"] = c14dJ{"seen": int64(1 + g.r.Intn(100))}
	case "generation":
		md["generation"] = gen + 1
		cur["spec"] = c14dJ{"x": int64(5)}
	case "status+generation":
		md["generation"] = gen + 1
		cur["status"] = c14dJ{"x": "y"}
	case "labels":
		ls, _ := md["labels"].(map[string]interface{})
		nl := c14dJ{}
		for k, v := range ls {
			nl[k] = v
		}
		if nl["tier"] == "a" {
			nl["tier"] = "b"
		} else {
			nl["tier"] = "a"
		}
		md["labels"] = nl
	case "labels-empty":
		if _, ok := md["labels"]; ok {
			if ls, _ := md["labels"].(map[string]interface{}); len(ls) == 0 {
				delete(md, "labels")
			} else {
				md["labels"] = c14dJ{}
			}
		} else {
			md["labels"] = c14dJ{}
		}
	case "annotations":
		as, _ := md["annotations"].(map[string]interface{})
		na := c14dJ{}
		for k, v := range as {
			na[k] = v
		}
		if na["deco"] == "yes" {
			na["deco"] = "no"
		} else {
			na["deco"] = "yes"
		}
		md["annotations"] = na
	case "annotations-empty":
		if _, ok := md["annotations"]; ok {
			delete(md, "annotations")
		} else {
			md["annotations"] = c14dJ{}
		}
	case "deletion":
		md["deletionTimestamp"] = "2020-01-03T00:00:00Z"
	case "finalizers":
		if _, ok := md["finalizers"]; ok {
			delete(md, "finalizers")
		} else {
			md["finalizers"] = c14dA{g.fin}
		}
	case "spec-no-generation":
		cur["spec"] = c14dJ{"x": int64(9)}
	}
	return cur
}

func (g *c14dGen) parentEvent(l *c14dLive) *c14dEvent {
	r := g.r
	ev := &c14dEvent{Src: "parent"}
	var base c14dJ
	if len(l.cache) > 0 && r.Chance(3, 4) {
		base = c14dCopy(l.cache[r.Intn(len(l.cache))])
		ev.Role = "cached-parent"
	} else {
		rule := &l.spec.Rules[r.Intn(len(l.spec.Rules))]
		ev.Role = "new-parent"
		if r.Chance(1, 8) { // an object of a kind no rule lists
			rule = &c14dRule{APIVersion: "apps.example.com/v1", Resource: "widgets", Kind: "Widget", Namespaced: true}
			ev.Role = "foreign-kind"
		}
		ns := []string{"ns1", "ns2", "ns3"}[r.Intn(3)]
		base = c14dCanon(g.parentObj(rule, ns, "q"+fmt.Sprint(r.Intn(3)), "uid-new"))
		c14dMeta(base)["resourceVersion"] = "50"
	}
	if g.adv && r.Chance(1, 3) {
		g.corruptMeta(c14dMeta(base), false)
		base = c14dCanon(base)
	}
	switch r.Intn(8) {
	case 0:
		ev.Kind, ev.Obj = "add", base
	case 1:
		ev.Kind, ev.Obj = "delete", base
	case 2:
		ev.Kind, ev.Obj, ev.Key = "tombstone", base, c14dKey(base)
	default:
		ev.Kind = "update"
		ev.Upd = c14dParentUpdates[r.Intn(len(c14dParentUpdates))]
		if l.spec.Twin && r.Chance(3, 4) {
			ev.Upd = []string{"status", "status", "status", "generation", "labels", "finalizers", "spec-no-generation"}[r.Intn(7)]
		}
		ev.Old = base
		ev.Obj = c14dCanon(g.parentUpdate(base, ev.Upd))
	}
	return ev
}

var c14dChildRoles = []string{"owned", "owned", "owned", "owned", "wrong-uid", "wrong-kind", "wrong-group", "other-version",
	"malformed-apiversion", "other-namespace", "non-controller-ref", "second-ref-controls", "orphan", "orphan-deleting",
	"owned-deleting", "unknown-owner", "cluster-child"}

func (g *c14dGen) childEvent(l *c14dLive) *c14dEvent {
	r := g.r
	ev := &c14dEvent{Src: "child"}
	role := c14dChildRoles[r.Intn(len(c14dChildRoles))]
	ev.Role = role
	rule := &l.spec.Rules[r.Intn(len(l.spec.Rules))]
	pav, pkind, pname, pns, puid := rule.APIVersion, rule.Kind, "p1", "ns1", "uid-none"
	if len(l.cache) > 0 {
		t := l.cache[r.Intn(len(l.cache))]
		tmd := c14dMeta(t)
		pav, _ = t["apiVersion"].(string)
		pkind, _ = t["kind"].(string)
		pname, _ = tmd["name"].(string)
		pns, _ = tmd["namespace"].(string)
		puid, _ = tmd["uid"].(string)
	}
	cns := pns
	if cns == "" {
		cns = []string{"ns1", "ns2"}[r.Intn(2)]
	}
	md := c14dJ{"name": "c" + fmt.Sprint(r.Intn(3)), "namespace": cns, "uid": "uid-child", "resourceVersion": "100", "labels": c14dJ{"app": "x"}}
	child := c14dJ{"apiVersion": "apps.example.com/v1", "kind": "Widget", "metadata": md, "spec": c14dJ{}}
	ref := c14dJ{"apiVersion": pav, "kind": pkind, "name": pname, "uid": puid, "controller": true, "blockOwnerDeletion": true}
	switch role {
	case "owned":
		md["ownerReferences"] = c14dA{ref}
	case "owned-deleting":
		md["ownerReferences"] = c14dA{ref}
		md["deletionTimestamp"] = "2020-01-02T00:00:00Z"
	case "wrong-uid":
		ref["uid"] = "uid-previous-incarnation"
		md["ownerReferences"] = c14dA{ref}
	case "wrong-kind":
		ref["kind"] = []string{"Thing", "ClusterThing", "Pod", "Other"}[r.Intn(4)]
		if ref["kind"] == pkind {
			ref["kind"] = "Other"
		}
		md["ownerReferences"] = c14dA{ref}
	case "wrong-group":
		ref["apiVersion"] = []string{"other.example.com/v1", "v1", "ctl.example.com", "ctl.example.com/v1"}[r.Intn(4)]
		if ref["apiVersion"] == pav {
			ref["apiVersion"] = "other.example.com/v1"
		}
		md["ownerReferences"] = c14dA{ref}
	case "other-version":
		if strings.Contains(pav, "/") {
			ref["apiVersion"] = strings.SplitN(pav, "/", 2)[0] + "/v2beta1"
		} else {
			ref["apiVersion"] = "v2"
		}
		md["ownerReferences"] = c14dA{ref}
	case "malformed-apiversion": // ParseGroupVersion fails: the group reads as ""
		ref["apiVersion"] = []string{"ctl.example.com/v1/x", "/", "", "a/b/c", "/v1"}[r.Intn(5)]
		md["ownerReferences"] = c14dA{ref}
	case "other-namespace":
		md["namespace"] = []string{"ns1", "ns2", "ns3"}[r.Intn(3)]
		md["ownerReferences"] = c14dA{ref}
	case "non-controller-ref":
		if r.Bool() {
			ref["controller"] = false
		} else {
			delete(ref, "controller")
		}
		md["ownerReferences"] = c14dA{ref}
	case "second-ref-controls":
		md["ownerReferences"] = c14dA{c14dJ{"apiVersion": "v1", "kind": "ConfigMap", "name": "cm", "uid": "uid-cm"}, ref}
		if r.Chance(1, 3) {
			md["ownerReferences"] = c14dA{c14dJ{"apiVersion": "apps/v1", "kind": "ReplicaSet", "name": "rs", "uid": "uid-rs", "controller": true}, ref}
			ev.Role = "foreign-controller-first"
		}
	case "unknown-owner":
		ref["name"] = "nobody"
		md["ownerReferences"] = c14dA{ref}
	case "orphan":
	case "orphan-deleting":
		md["deletionTimestamp"] = "2020-01-02T00:00:00Z"
	case "cluster-child":
		delete(md, "namespace")
		child["apiVersion"], child["kind"] = "v1", "Namespace"
		md["ownerReferences"] = c14dA{ref}
	}
	if g.adv && r.Chance(1, 3) {
		g.corruptMeta(md, true)
		if r.Chance(1, 6) {
			md["ownerReferences"] = c14dA{c14dJ{"apiVersion": pav, "kind": pkind, "name": pname, "uid": puid, "controller": "true"}}
		}
	}
	child = c14dCanon(child)
	switch r.Intn(9) {
	case 0, 1:
		ev.Kind, ev.Obj = "add", child
	case 2:
		ev.Kind, ev.Obj = "delete", child
	case 3:
		ev.Kind, ev.Obj = "tombstone", child
		ev.Key = c14dKey(child)
	case 4:
		ev.Kind, ev.Old, ev.Obj, ev.Upd = "update", child, c14dCopy(child), "resync"
	default:
		ev.Kind = "update"
		old := c14dCopy(child)
		omd := c14dMeta(old)
		omd["resourceVersion"] = "99"
		switch r.Intn(3) {
		case 0:
			delete(omd, "ownerReferences")
			ev.Upd = "ref-added"
		case 1:
			omd["labels"] = c14dJ{"app": "old"}
			ev.Upd = "relabelled"
		default:
			old["status"] = c14dJ{"phase": "Pending"}
			ev.Upd = "status"
		}
		ev.Old, ev.Obj = c14dCanon(old), child
	}
	return ev
}

func (g *c14dGen) event(l *c14dLive) *c14dEvent {
	if g.r.Chance(1, 2) || (l.spec.Twin && g.r.Chance(1, 2)) {
		return g.parentEvent(l)
	}
	return g.childEvent(l)
}

// ---- hand-written corpus ----
func c14dCorpus() (*c14dWorldSpec, []*c14dEvent) {
	fin := "metacontroller.io/decoratorcontroller-c14dk"
	yes := true
	spec := &c14dWorldSpec{Name: "c14dk", Finalize: true,
		Rules: []c14dRule{
			{APIVersion: "ctl.example.com/v1", Resource: "things", Kind: "Thing", Namespaced: true,
				Labels: &c14dSel{Match: map[string]string{"tier": "a"}}, Annotations: &c14dSel{Match: map[string]string{"deco": "yes"}}, IgnoreStatus: &yes},
			{APIVersion: "ctl.example.com/v1", Resource: "clusterthings", Kind: "ClusterThing", Namespaced: false},
		},
		Attachments: []c14dRule{{APIVersion: "apps.example.com/v1", Resource: "widgets", Kind: "Widget", Namespaced: true}},
	}
	mk := func(kind, ns, name string, labels, annots c14dJ, fins c14dA) c14dJ {
		md := c14dJ{"name": name, "uid": "uid-" + kind + "-" + ns + "-" + name, "generation": int64(1)}
		if ns != "" {
			md["namespace"] = ns
		}
		if labels != nil {
			md["labels"] = labels
		}
		if annots != nil {
			md["annotations"] = annots
		}
		if fins != nil {
			md["finalizers"] = fins
		}
		return c14dCanon(c14dJ{"apiVersion": "ctl.example.com/v1", "kind": kind, "metadata": md, "spec": c14dJ{}, "status": c14dJ{}})
	}
	spec.Parents = []c14dJ{
		mk("Thing", "ns1", "p1", c14dJ{"tier": "a"}, c14dJ{"deco": "yes"}, nil),       // matches both selectors
		mk("Thing", "ns1", "p2", c14dJ{"tier": "a"}, c14dJ{"deco": "no"}, c14dA{fin}), // annotation selector fails, finalizer
		mk("Thing", "ns2", "p1", c14dJ{"tier": "b"}, c14dJ{"deco": "yes"}, nil),       // label selector fails
		mk("ClusterThing", "", "p1", nil, nil, nil),                                   // same name, other kind, everything selected
	}
	g := &c14dGen{r: vh.NewRng(1), fin: fin}
	var evs []*c14dEvent
	for _, p := range spec.Parents {
		q := c14dCopy(p)
		c14dMeta(q)["resourceVersion"] = "10"
		evs = append(evs,
			&c14dEvent{Src: "parent", Kind: "add", Obj: q, Role: "corpus"},
			&c14dEvent{Src: "parent", Kind: "delete", Obj: q, Role: "corpus"},
			&c14dEvent{Src: "parent", Kind: "tombstone", Obj: q, Key: c14dKey(q), Role: "corpus"})
		for _, u := range c14dParentUpdates {
			evs = append(evs, &c14dEvent{Src: "parent", Kind: "update", Old: q, Obj: c14dCanon(g.parentUpdate(q, u)), Role: "corpus", Upd: u})
		}
	}
	widget := func(ns, name string, refs c14dA) c14dJ {
		md := c14dJ{"name": name, "namespace": ns, "uid": "uid-c", "resourceVersion": "100"}
		if refs != nil {
			md["ownerReferences"] = refs
		}
		return c14dCanon(c14dJ{"apiVersion": "apps.example.com/v1", "kind": "Widget", "metadata": md})
	}
	ref := func(av, kind, name, uid string) c14dJ {
		return c14dJ{"apiVersion": av, "kind": kind, "name": name, "uid": uid, "controller": true}
	}
	older := func(o c14dJ) c14dJ {
		c := c14dCopy(o)
		c14dMeta(c)["resourceVersion"] = "99"
		return c
	}
	for _, c := range []c14dJ{
		widget("ns1", "c1", c14dA{ref("ctl.example.com/v1", "Thing", "p1", "uid-Thing-ns1-p1")}),
		widget("ns1", "c2", c14dA{ref("ctl.example.com/v1", "Thing", "p1", "uid-old")}),                     // wrong UID
		widget("ns1", "c3", c14dA{ref("ctl.example.com/v1", "ClusterThing", "p1", "uid-Thing-ns1-p1")}),     // the UID of the other kind's p1
		widget("ns1", "c4", c14dA{ref("ctl.example.com/v1", "ClusterThing", "p1", "uid-ClusterThing--p1")}), // namespaced child of a cluster parent
		widget("ns2", "c5", c14dA{ref("ctl.example.com/v1", "Thing", "p1", "uid-Thing-ns1-p1")}),            // cannot cross namespaces
		widget("ns1", "c6", c14dA{ref("ctl.example.com/v1", "Thing", "p2", "uid-Thing-ns1-p2")}),            // unmatching with finalizer
		widget("ns2", "c7", c14dA{ref("ctl.example.com/v1", "Thing", "p1", "uid-Thing-ns2-p1")}),            // unmatching
		widget("ns1", "c8", c14dA{ref("ctl.example.com/v9", "Thing", "p1", "uid-Thing-ns1-p1")}),            // the version does not matter
		widget("ns1", "c9", c14dA{ref("other.example.com/v1", "Thing", "p1", "uid-Thing-ns1-p1")}),          // wrong group
		widget("ns1", "c10", nil), // orphan
	} {
		evs = append(evs,
			&c14dEvent{Src: "child", Kind: "add", Obj: c, Role: "corpus"},
			&c14dEvent{Src: "child", Kind: "update", Old: older(c), Obj: c, Role: "corpus"},
			&c14dEvent{Src: "child", Kind: "update", Old: c, Obj: c14dCopy(c), Role: "corpus", Upd: "resync"},
			&c14dEvent{Src: "child", Kind: "delete", Obj: c, Role: "corpus"},
			&c14dEvent{Src: "child", Kind: "tombstone", Obj: c, Key: c14dKey(c), Role: "corpus"})
	}
	return spec, evs
}

func c14dRecord(w *vh.CaseWriter, l *c14dLive, ev *c14dEvent, keys []string) {
	w.Count("flavour-decorator")
	w.Count("event-" + ev.Src + "-" + ev.Kind)
	w.Count("role-" + ev.Role)
	if ev.Upd != "" {
		w.Count("update-" + ev.Src + "-" + ev.Upd)
	}
	w.Count(fmt.Sprintf("enqueued-%d", len(keys)))
	w.Count(fmt.Sprintf("cached-parents-%d", len(l.cache)))
	w.Count(fmt.Sprintf("parent-kinds-%d", len(l.spec.Rules)))
	if l.spec.Twin {
		w.Count("twin-kinds")
		if ev.Src == "parent" && ev.Kind == "update" {
			w.Count("twin-parent-update-" + ev.Upd + "-" + fmt.Sprint(ev.Obj["apiVersion"]))
		}
	}
	if ev.Kind == "tombstone" {
		w.Count(ev.Src + "-tombstone")
	}
	ign := false
	for _, r := range l.spec.Rules {
		if r.IgnoreStatus != nil && *r.IgnoreStatus {
			ign = true
		}
	}
	if ign {
		w.Count("ignore-status-changes")
	}
	if len(l.cache) > 0 || ev.Src == "parent" {
		w.NonTrivial(vh.Sig("decorator", ev.Src, ev.Kind, ev.Role, ev.Upd, len(l.spec.Rules), ign, len(keys), l.spec.Twin))
	}
}

// c14dFeatures: what known-findings entries match on
func c14dFeatures(src, kind, role, upd string, twin bool) []string {
	f := []string{src + "-" + kind, "role-" + role, "decorator"}
	if twin {
		f = append(f, "twin-kinds")
	}
	if upd != "" {
		f = append(f, "update-"+upd)
	}
	return f
}

func TestVerif_C14d(t *testing.T) {
	env := vh.GetEnv()
	if env.OutDir == "" {
		t.Skip("VERIF_OUT not set")
	}
	header := "From MC Require Import Check.C14_check.\nOpen Scope string_scope.\n"
	w, err := vh.NewCaseWriter(env.OutDir, "C14d", header, 60)
	if err != nil {
		t.Fatal(err)
	}
	emit := func(id string, l *c14dLive, ev *c14dEvent) {
		keys := l.run(ev)
		replay := c14dJ{"world": l.spec, "event": ev, "enqueued": keys, "features": c14dFeatures(ev.Src, ev.Kind, ev.Role, ev.Upd, l.spec.Twin)}
		if err := w.Add(id, c14dCoqCase(l, ev, keys), "C14_check", replay); err != nil {
			t.Fatal(err)
		}
		c14dRecord(w, l, ev, keys)
	}
	if env.Replay != "" {
		data, err := os.ReadFile(env.Replay)
		if err != nil {
			t.Fatal(err)
		}
		var rf struct {
			Case struct {
				World *c14dWorldSpec `json:"world"`
				Event *c14dEvent     `json:"event"`
			} `json:"case"`
		}
		if err := json.Unmarshal(data, &rf); err != nil || rf.Case.World == nil || rf.Case.Event == nil {
			t.Fatalf("cannot read replay: %v", err)
		}
		spec := rf.Case.World
		for i := range spec.Parents {
			spec.Parents[i] = c14dCanon(spec.Parents[i])
		}
		ev := rf.Case.Event
		ev.Obj = c14dCanon(ev.Obj)
		if ev.Old != nil {
			ev.Old = c14dCanon(ev.Old)
		}
		l, err := c14dBuild(spec)
		if err != nil {
			t.Fatal(err)
		}
		emit("r0", l, ev)
		l.close()
		if err := w.Close(nil); err != nil {
			t.Fatal(err)
		}
		return
	}
	cspec, cevs := c14dCorpus()
	l, err := c14dBuild(cspec)
	if err != nil {
		t.Fatal(err)
	}
	for i, ev := range cevs {
		emit(fmt.Sprintf("k%d", i), l, ev)
	}
	l.close()
	// corpus 2: one Kind in two API groups (and in two versions of one group), ignoreStatusChanges on one only
	for ci, pair := range c14dTwinPairs {
		for _, first := range []bool{true, false} {
			yes, no := true, false
			a, b := c14dRulePool[pair[0]], c14dRulePool[pair[1]]
			a.IgnoreStatus, b.IgnoreStatus = &yes, &no
			if !first {
				a.IgnoreStatus, b.IgnoreStatus = nil, &yes
			}
			spec := &c14dWorldSpec{Name: "c14dt", Twin: true, Rules: []c14dRule{a, b},
				Attachments: []c14dRule{{APIVersion: "apps.example.com/v1", Resource: "widgets", Kind: "Widget", Namespaced: true}}}
			g := &c14dGen{r: vh.NewRng(uint64(ci + 1)), fin: "metacontroller.io/decoratorcontroller-c14dt"}
			for _, rule := range spec.Rules {
				spec.Parents = append(spec.Parents, c14dCanon(c14dJ{"apiVersion": rule.APIVersion, "kind": rule.Kind,
					"metadata": c14dJ{"name": "svc", "namespace": "ns1", "uid": "uid-" + strings.ReplaceAll(rule.APIVersion, "/", "."), "generation": int64(1),
						"labels": c14dJ{"tier": "a"}}, "spec": c14dJ{"x": int64(1)}, "status": c14dJ{"seen": int64(0)}}))
			}
			l, err := c14dBuild(spec)
			if err != nil {
				t.Fatal(err)
			}
			for pi, p := range l.cache {
				for _, u := range []string{"status", "generation", "labels", "annotations", "resync", "finalizers"} {
					ev := &c14dEvent{Src: "parent", Kind: "update", Old: c14dCopy(p), Obj: c14dCanon(g.parentUpdate(p, u)), Role: "corpus-twin", Upd: u}
					emit(fmt.Sprintf("t%d%v_%d_%s", ci, first, pi, strings.ReplaceAll(u, "-", "")), l, ev)
				}
			}
			l.close()
		}
	}
	n := env.N
	if n == 0 {
		n = 300
	}
	const perWorld = 12
	root := vh.NewRng(env.Seed ^ 0xc14d)
	adv := os.Getenv("VERIF_ADV") == "1"
	for wi := 0; wi*perWorld < n; wi++ {
		r, _ := root.Fork()
		g := &c14dGen{r: r, adv: adv && wi%2 == 1}
		spec := g.world(wi)
		l, err := c14dBuild(spec)
		if err != nil {
			t.Fatalf("world %d: %v", wi, err)
		}
		for ei := 0; ei < perWorld && wi*perWorld+ei < n; ei++ {
			emit(fmt.Sprintf("w%d_e%d", wi, ei), l, g.event(l))
		}
		l.close()
	}
	if err := w.Close(nil); err != nil {
		t.Fatal(err)
	}
	fmt.Fprintf(os.Stderr, "C14d: wrote %d cases\n", w.Total)
}
