package decorator

// C16 harness, part 3: the hand-written corpus and the seeded generators.
// Every random choice derives from the one PRNG; each scenario records its own sub-seed.

import (
	"encoding/json"
	"fmt"

	"k8s.io/apimachinery/pkg/runtime"

	vh "metacontroller/pkg/internal/verifh"
)

var c16Methods = []string{"", "OnDelete", "Recreate", "InPlace", "RollingRecreate", "RollingInPlace"}

const c16TargetUID = "uid-t1"

type c16Gen struct {
	r    *vh.Rng
	adv  bool
	prop string
}

func c16Str(s string) *string { return &s }

var c16PodRule = c16RuleSpec{APIVersion: "v1", Resource: "pods", Kind: "Pod", Namespaced: true, HasStatus: true}
var c16CWRule = c16RuleSpec{APIVersion: "ctl.example.com/v1", Resource: "clusterwidgets", Kind: "ClusterWidget", Namespaced: false, HasStatus: false}

var c16AttConfigMap = c16AttSpec{APIVersion: "v1", Resource: "configmaps", Kind: "ConfigMap", Namespaced: true}
var c16AttGadget = c16AttSpec{APIVersion: "apps.example.com/v1", Resource: "gadgets", Kind: "Gadget", Namespaced: true}
var c16AttClusterGadget = c16AttSpec{APIVersion: "ctl.example.com/v1", Resource: "clustergadgets", Kind: "ClusterGadget", Namespaced: false}

var c16LabelSels = []*c16Sel{
	nil,
	{Match: map[string]string{"managed": "yes"}},
	{Exprs: []c16Expr{{Key: "tier", Op: "In", Values: []string{"a", "b"}}}},
	{Exprs: []c16Expr{{Key: "skip", Op: "DoesNotExist"}}},
	{Exprs: []c16Expr{{Key: "app", Op: "Exists"}}},
	{Exprs: []c16Expr{{Key: "env", Op: "NotIn", Values: []string{"prod"}}}},
	{Match: map[string]string{"managed": "yes"}, Exprs: []c16Expr{{Key: "tier", Op: "In", Values: []string{"a"}}, {Key: "skip", Op: "DoesNotExist"}}},
	{},
}

var c16AnnotSels = []*c16Sel{
	nil,
	{Match: map[string]string{"decorate": "yes"}},
	{Exprs: []c16Expr{{Key: "note", Op: "Exists"}}},
	{Exprs: []c16Expr{{Key: "optout", Op: "DoesNotExist"}}},
	{Match: map[string]string{"decorate": "yes"}, Exprs: []c16Expr{{Key: "team", Op: "NotIn", Values: []string{"x"}}}},
	{},
}

// make m satisfy (or, with sat=false, leave alone) the selector
func c16Satisfy(m c16J, s *c16Sel) {
	if s == nil {
		return
	}
	for k, v := range s.Match {
		m[k] = v
	}
	for _, e := range s.Exprs {
		switch e.Op {
		case "In":
			m[e.Key] = e.Values[0]
		case "NotIn":
			m[e.Key] = "other"
		case "Exists":
			m[e.Key] = "present"
		case "DoesNotExist":
			delete(m, e.Key)
		}
	}
}

var c16LabelKeys = []string{"app", "tier", "managed", "env", "skip", "deco"}
var c16AnnotKeys = []string{"note", "decorate", "team", "optout", "deco-note"}
var c16Values = []string{"a", "b", "yes", "prod", "x", ""}

func (g *c16Gen) randomMap(keys []string, n int) c16J {
	m := c16J{}
	for i := 0; i < n; i++ {
		m[g.r.Pick(keys)] = g.r.Pick(c16Values)
	}
	return m
}

// a hook's label/annotation answer relative to what the target carries: additions, overwrites,
// same-value entries, nulls for present and for absent keys, unnamed keys
func (g *c16Gen) responseMap(cur c16J, keys []string) map[string]*string {
	r := g.r
	if r.Chance(1, 5) {
		return nil
	}
	out := map[string]*string{}
	n := r.Intn(4)
	for i := 0; i < n; i++ {
		k := r.Pick(keys)
		curv, has := cur[k].(string)
		switch r.Intn(7) {
		case 5:
			out["mark-"+k] = c16Str("") // a marker-style key: new, value ""
		case 6:
			out[k] = c16Str("") // "" over a value, over "", or as a new key
		case 0:
			out[k] = nil // delete (present or absent)
		case 1:
			if has {
				out[k] = c16Str(curv) // same value: no change
			} else {
				out[k] = c16Str(r.Pick(c16Values))
			}
		case 2:
			out["deco-"+k] = c16Str(r.Pick(c16Values)) // addition
		default:
			out[k] = c16Str(r.Pick(c16Values)) // overwrite or addition
		}
	}
	return out
}

func (g *c16Gen) status(i int) c16J {
	switch g.r.Intn(3) {
	case 0:
		return c16J{"phase": "Ready", "n": int64(i)}
	case 1:
		return c16J{"conditions": c16A{c16J{"type": "Decorated", "status": "True"}}, "n": int64(i)}
	}
	return c16J{}
}

// the target: labels, annotations, foreign finalizers, spec, status populated
func (g *c16Gen) target(rule c16RuleSpec, match bool, lsel, asel *c16Sel) c16J {
	r := g.r
	labels := g.randomMap(c16LabelKeys, r.Intn(4))
	annots := g.randomMap(c16AnnotKeys, r.Intn(3))
	if match {
		c16Satisfy(labels, lsel)
		c16Satisfy(annots, asel)
	}
	md := c16J{"name": "t1", "uid": c16TargetUID, "generation": int64(1)}
	if rule.Namespaced {
		md["namespace"] = "ns1"
	}
	if len(labels) > 0 || r.Chance(1, 3) {
		md["labels"] = labels
	}
	if len(annots) > 0 || r.Chance(1, 3) {
		md["annotations"] = annots
	}
	if r.Chance(1, 3) {
		md["finalizers"] = c16A{"example.com/hold"}
	}
	if r.Chance(1, 4) {
		md["ownerReferences"] = c16A{c16J{"apiVersion": "apps/v1", "kind": "ReplicaSet", "name": "rs", "uid": "uid-rs", "controller": true}}
	}
	o := c16J{"apiVersion": rule.APIVersion, "kind": rule.Kind, "metadata": md,
		"spec": c16J{"replicas": int64(1 + r.Intn(3)), "containers": c16A{c16J{"name": "main", "image": "img:1"}}}}
	if r.Chance(2, 3) {
		o["status"] = g.status(r.Intn(3))
	}
	return o
}

func (g *c16Gen) attKinds(rule c16RuleSpec) []c16AttSpec {
	r := g.r
	var pool []c16AttSpec
	if rule.Namespaced {
		pool = []c16AttSpec{c16AttConfigMap, c16AttGadget}
	} else {
		pool = []c16AttSpec{c16AttClusterGadget, c16AttConfigMap}
	}
	if r.Bool() {
		pool[0], pool[1] = pool[1], pool[0]
	}
	n := 1 + r.Intn(2)
	out := []c16AttSpec{}
	for i := 0; i < n; i++ {
		a := pool[i]
		a.Method = c16Methods[r.Intn(len(c16Methods))]
		out = append(out, a)
	}
	return out
}

// an attachment as the hook returns it
func (g *c16Gen) attachment(a c16AttSpec, rule c16RuleSpec, name string, variant int) c16J {
	r := g.r
	md := c16J{"name": name}
	if a.Namespaced {
		if !rule.Namespaced {
			md["namespace"] = "ns2" // a cluster-scoped target must say where
		} else {
			// the four spellings of "in the target's namespace": explicit, absent, empty string, null
			switch r.Intn(4) {
			case 0:
				md["namespace"] = "ns1"
			case 1:
				md["namespace"] = ""
			case 2:
				md["namespace"] = nil
			}
		}
	}
	if r.Chance(1, 3) {
		md["labels"] = c16J{"made-by": "hook"}
	}
	switch r.Intn(6) {
	case 0:
		md["annotations"] = c16J{"hook-note": "n"}
	case 1:
		md["annotations"] = c16J{"metacontroller.k8s.io/decorator-controller": "somebody-else"} // overwritten by the stamp
	}
	o := c16J{"apiVersion": a.APIVersion, "kind": a.Kind, "metadata": md}
	if a.Kind == "ConfigMap" {
		o["data"] = c16J{"k": fmt.Sprintf("v%d", variant)}
	} else {
		o["spec"] = c16J{"size": int64(variant), "items": c16A{c16J{"name": "i", "value": fmt.Sprintf("%d", variant)}}}
	}
	return o
}

func c16AttRef(att c16J, rule c16RuleSpec) c16ExtOp {
	md := att["metadata"].(map[string]interface{})
	ns, _ := md["namespace"].(string)
	res := c16ResByKind(att["apiVersion"].(string), att["kind"].(string))
	if ns == "" && res.Namespaced && rule.Namespaced {
		ns = "ns1"
	}
	return c16ExtOp{APIVersion: att["apiVersion"].(string), Kind: att["kind"].(string), Namespace: ns, Name: md["name"].(string)}
}

func c16TargetRef(t c16J) c16ExtOp {
	md := t["metadata"].(map[string]interface{})
	ns, _ := md["namespace"].(string)
	return c16ExtOp{APIVersion: t["apiVersion"].(string), Kind: t["kind"].(string), Namespace: ns, Name: md["name"].(string)}
}

func c16Meta(t c16J, field string) c16J {
	md := t["metadata"].(map[string]interface{})
	m, _ := md[field].(map[string]interface{})
	if m == nil {
		m = c16J{}
	}
	return m
}

// the sync hook's program for a target
func (g *c16Gen) program(sc *c16Scenario, rule c16RuleSpec, natt int, variant int) c16HookProgram {
	r := g.r
	h := c16HookProgram{Kind: "const"}
	h.Labels = g.responseMap(c16Meta(sc.Target, "labels"), c16LabelKeys)
	h.Annotations = g.responseMap(c16Meta(sc.Target, "annotations"), c16AnnotKeys)
	switch r.Intn(6) {
	case 0:
		h.StatusMode = ""
	case 1:
		h.StatusMode = "null"
	case 2:
		h.StatusMode = "echo"
	case 3: // equal by content
		h.StatusMode = "const"
		if st, ok := sc.Target["status"].(map[string]interface{}); ok {
			h.Status = runtime.DeepCopyJSON(st)
		} else {
			h.Status = c16J{}
		}
	default:
		h.StatusMode = "const"
		h.Status = g.status(3 + variant)
	}
	for j := 0; j < natt; j++ {
		a := sc.Ctl.Attachments[r.Intn(len(sc.Ctl.Attachments))]
		h.Attachments = append(h.Attachments, g.attachment(a, rule, fmt.Sprintf("a%d", j), variant))
	}
	if r.Chance(1, 8) {
		h.Resync = 30
	}
	return h
}

func (g *c16Gen) pickRule() c16RuleSpec {
	if g.r.Chance(3, 5) {
		return c16PodRule
	}
	return c16CWRule
}

const c16Marker = "metacontroller.k8s.io/decorator-controller"

// unmarked: objects of an attachment kind that exist when the recorded rounds start (created after the
// warm-up, so no earlier sync can have removed them) and fail exactly one recognition condition:
// (a) controlled by the target, no annotations at all; (b) controlled by the target, annotations without
// the marker key; (c) controlled by the target, another decorator's marker; (d) own marker, controlled by
// somebody else.  No hook program ever lists their names (u-*), so a decorator that wrongly took one for
// its own would report it and delete it.
func (g *c16Gen) unmarked(sc *c16Scenario, rule c16RuleSpec, all bool) {
	r := g.r
	mk := func(name, ownerUID string, ann c16J) {
		a := sc.Ctl.Attachments[r.Intn(len(sc.Ctl.Attachments))]
		md := c16J{"name": name, "ownerReferences": c16A{c16J{"apiVersion": sc.Target["apiVersion"], "kind": sc.Target["kind"],
			"name": "t1", "uid": ownerUID, "controller": true, "blockOwnerDeletion": true}}}
		if a.Namespaced {
			if rule.Namespaced {
				md["namespace"] = "ns1"
			} else {
				md["namespace"] = "ns2"
			}
		}
		if ann != nil {
			md["annotations"] = ann
		}
		o := c16J{"apiVersion": a.APIVersion, "kind": a.Kind, "metadata": md}
		if a.Kind == "ConfigMap" {
			o["data"] = c16J{"k": "foreign"}
		} else {
			o["spec"] = c16J{"size": int64(77)}
		}
		sc.Setup = append(sc.Setup, c16ExtOp{Op: "create", Data: o})
	}
	pick := r.Intn(3)
	if all || pick == 0 || pick == 2 {
		mk("u-bare", c16TargetUID, nil)
		sc.Features = append(sc.Features, "unmarked-no-annotations")
	}
	if all || pick == 1 || pick == 2 {
		mk("u-ann", c16TargetUID, c16J{"made-by": "another-controller"})
		sc.Features = append(sc.Features, "unmarked-other-annotations")
	}
	if all || r.Chance(1, 3) {
		mk("u-othermarker", c16TargetUID, c16J{c16Marker: "someone-else"})
		sc.Features = append(sc.Features, "lookalike-other-marker")
	}
	if all || r.Chance(1, 3) {
		mk("u-otherowner", "uid-somebody", c16J{c16Marker: sc.Ctl.Name})
		sc.Features = append(sc.Features, "lookalike-other-owner")
	}
	if all || r.Chance(1, 2) {
		// (e) own marker, controlled by another object, the target listed as a plain (non-controller) owner
		mk("u-plainowner", "uid-somebody", c16J{c16Marker: sc.Ctl.Name})
		last := sc.Setup[len(sc.Setup)-1].Data["metadata"].(c16J)
		plain := c16J{"apiVersion": sc.Target["apiVersion"], "kind": sc.Target["kind"], "name": "t1", "uid": c16TargetUID}
		if r.Bool() {
			plain["controller"] = false
		}
		refs := last["ownerReferences"].(c16A)
		if r.Bool() {
			last["ownerReferences"] = append(c16A{plain}, refs...)
		} else {
			last["ownerReferences"] = append(refs, plain)
		}
		c16AddFeature(sc, "lookalike-plain-owner-ref")
	}
	sc.Features = append(sc.Features, "unmarked-controlled-lookalike")
}

// basic: one decorator, one target, a response over the whole response space
func (g *c16Gen) basic(family string, i int, seed uint64) *c16Scenario {
	r := g.r
	sc := &c16Scenario{Seed: seed, Family: family}
	rule := g.pickRule()
	rule.Labels = c16LabelSels[r.Intn(len(c16LabelSels))]
	rule.Annotations = c16AnnotSels[r.Intn(len(c16AnnotSels))]
	sc.Ctl = c16CtlSpec{Name: fmt.Sprintf("deco%d", i%5), Rules: []c16RuleSpec{rule}}
	if r.Chance(1, 4) { // a second resource rule of the other kind
		other := c16CWRule
		if rule.Kind == "ClusterWidget" {
			other = c16PodRule
		}
		other.Labels = &c16Sel{Match: map[string]string{"never": "matches"}}
		if r.Bool() {
			sc.Ctl.Rules = append(sc.Ctl.Rules, other)
		} else {
			sc.Ctl.Rules = append([]c16RuleSpec{other}, sc.Ctl.Rules...)
		}
		sc.Features = append(sc.Features, "two-rules")
	}
	sc.Ctl.Attachments = g.attKinds(rule)
	match := r.Chance(5, 6)
	sc.Target = g.target(rule, match, rule.Labels, rule.Annotations)
	if !match {
		sc.Features = append(sc.Features, "maybe-unselected")
	}
	switch {
	case rule.Labels != nil && rule.Annotations != nil:
		sc.Features = append(sc.Features, "both-selectors")
	case rule.Labels != nil:
		sc.Features = append(sc.Features, "label-selector")
	case rule.Annotations != nil:
		sc.Features = append(sc.Features, "annotation-selector")
	}
	sc.Hook = g.program(sc, rule, r.Intn(4), 1)
	sc.Warmup = r.Intn(3)
	if sc.Warmup > 0 && r.Chance(1, 2) {
		// after the warm-up the hook changes its mind about attachments and maps
		h2 := g.program(sc, rule, 0, 2)
		for _, a := range sc.Hook.Attachments {
			switch r.Intn(3) {
			case 0: // dropped
			case 1:
				a2 := runtime.DeepCopyJSON(a)
				if a2["kind"] == "ConfigMap" {
					a2["data"] = c16J{"k": "changed"}
				} else {
					a2["spec"] = c16J{"size": int64(9)}
				}
				h2.Attachments = append(h2.Attachments, a2)
			default:
				h2.Attachments = append(h2.Attachments, a)
			}
		}
		if r.Chance(1, 3) {
			a := sc.Ctl.Attachments[r.Intn(len(sc.Ctl.Attachments))]
			h2.Attachments = append(h2.Attachments, g.attachment(a, rule, "a9", 2))
		}
		sc.Hook2 = &h2
		sc.Features = append(sc.Features, "hook-changes-mind")
		for _, a := range sc.Hook.Attachments {
			found := false
			for _, b := range h2.Attachments {
				if b["kind"] == a["kind"] && b["metadata"].(map[string]interface{})["name"] == a["metadata"].(map[string]interface{})["name"] {
					found = true
					if b["data"] != nil && b["data"].(map[string]interface{})["k"] == "changed" || b["spec"] != nil && b["spec"].(map[string]interface{})["size"] == int64(9) {
						c16AddFeature(sc, "attachment-differs")
					}
				}
			}
			if !found {
				c16AddFeature(sc, "attachment-undesired")
			}
		}
	}
	c16RuleFeatures(sc)
	if r.Chance(2, 5) {
		g.unmarked(sc, rule, false)
	}
	nr := 1 + r.Intn(3)
	for j := 0; j < nr; j++ {
		rs := c16RoundSpec{}
		if j > 0 && r.Chance(1, 3) {
			// somebody else edits the target between syncs
			ref := c16TargetRef(sc.Target)
			switch r.Intn(3) {
			case 0:
				ref.Op, ref.Data = "meta", c16J{"labels": c16J{r.Pick(c16LabelKeys): r.Pick(c16Values)}}
			case 1:
				ref.Op, ref.Data = "edit", c16J{"spec": c16J{"replicas": int64(7)}}
			default:
				ref.Op, ref.Data = "status", g.status(8)
			}
			rs.PreOps = append(rs.PreOps, ref)
			sc.Features = append(sc.Features, "edited-between-rounds")
		}
		sc.Rounds = append(sc.Rounds, rs)
	}
	return sc
}

func c16AddFeature(sc *c16Scenario, f string) {
	for _, x := range sc.Features {
		if x == f {
			return
		}
	}
	sc.Features = append(sc.Features, f)
}

// the update-strategy features of a scenario's attachment rules
func c16RuleFeatures(sc *c16Scenario) {
	for _, a := range sc.Ctl.Attachments {
		m := a.Method
		if m == "" {
			m = "unset"
		}
		c16AddFeature(sc, "method-"+m)
		if a.APIVersion == "v1" {
			c16AddFeature(sc, "attachment-core-group")
		} else {
			c16AddFeature(sc, "attachment-named-group")
		}
	}
}

var c16ExplicitMethods = []string{"OnDelete", "Recreate", "InPlace", "RollingRecreate", "RollingInPlace"}

// a changed copy of an attachment: the hook now wants another value in a field it owns
func c16ChangedAttachment(a c16J) c16J {
	a2 := runtime.DeepCopyJSON(a)
	if a2["kind"] == "ConfigMap" {
		a2["data"] = c16J{"k": "changed"}
	} else {
		a2["spec"] = c16J{"size": int64(9), "items": c16A{c16J{"name": "i", "value": "changed"}}}
	}
	return a2
}

// strategy: one attachment rule of a core-group kind and one of a named group, each with an explicit update
// method; after the warm-up the hook keeps one attachment of each kind, changes one and drops one
func (g *c16Gen) strategy(i int, seed uint64) *c16Scenario {
	r := g.r
	sc := g.basic("strategy", i, seed)
	var rule c16RuleSpec
	for _, ru := range sc.Ctl.Rules {
		if ru.Kind == sc.Target["kind"] {
			rule = ru
		}
	}
	lm := c16Meta(sc.Target, "labels")
	c16Satisfy(lm, rule.Labels)
	am := c16Meta(sc.Target, "annotations")
	c16Satisfy(am, rule.Annotations)
	sc.Target["metadata"].(map[string]interface{})["labels"] = lm
	sc.Target["metadata"].(map[string]interface{})["annotations"] = am
	core := c16AttConfigMap
	named := c16AttGadget
	if !rule.Namespaced {
		named = c16AttClusterGadget
	}
	core.Method = c16ExplicitMethods[r.Intn(len(c16ExplicitMethods))]
	named.Method = c16ExplicitMethods[r.Intn(len(c16ExplicitMethods))]
	sc.Ctl.Attachments = []c16AttSpec{core, named}
	if r.Bool() {
		sc.Ctl.Attachments = []c16AttSpec{named, core}
	}
	sc.Ctl.Finalize = false
	h := c16HookProgram{Kind: "const", Labels: map[string]*string{"deco-strategy": c16Str("1")}}
	h2 := h
	for _, a := range sc.Ctl.Attachments {
		prefix := "core"
		if a.APIVersion != "v1" {
			prefix = "named"
		}
		same := g.attachment(a, rule, prefix+"-same", 1)
		diff := g.attachment(a, rule, prefix+"-diff", 1)
		gone := g.attachment(a, rule, prefix+"-gone", 1)
		h.Attachments = append(h.Attachments, same, diff, gone)
		h2.Attachments = append(h2.Attachments, same, c16ChangedAttachment(diff))
		if r.Chance(1, 3) {
			h2.Attachments = append(h2.Attachments, g.attachment(a, rule, prefix+"-new", 2))
		}
	}
	sc.Hook = h
	sc.Hook2 = &h2
	sc.Warmup = 1 + r.Intn(2)
	sc.Rounds = []c16RoundSpec{{}, {}}
	kept := []string{}
	for _, f := range sc.Features {
		if len(f) < 7 || (f[:7] != "method-" && (len(f) < 11 || f[:11] != "attachment-")) {
			kept = append(kept, f)
		}
	}
	sc.Features = kept
	c16RuleFeatures(sc)
	c16AddFeature(sc, "attachment-differs")
	c16AddFeature(sc, "attachment-undesired")
	return sc
}

// selectors an object without the map (no labels / no annotations at all) still satisfies
var c16BareLabelSels = []*c16Sel{nil, {}, {Exprs: []c16Expr{{Key: "skip", Op: "DoesNotExist"}}}, {Exprs: []c16Expr{{Key: "env", Op: "NotIn", Values: []string{"prod"}}}}}
var c16BareAnnotSels = []*c16Sel{nil, {}, {Exprs: []c16Expr{{Key: "optout", Op: "DoesNotExist"}}}}

// bare: a target whose metadata has no labels map, no annotations map, or neither (absent, not empty), and an
// answer that asks nothing of it (empty, keys with their current value, nulls for absent keys) or, as control,
// a genuine change. Nothing to change means no request; in particular no update carrying an empty map.
func (g *c16Gen) bare(i int, seed uint64) *c16Scenario {
	r := g.r
	sc := g.basic("bare", i, seed)
	var rule *c16RuleSpec
	for j := range sc.Ctl.Rules {
		if sc.Ctl.Rules[j].Kind == sc.Target["kind"] {
			rule = &sc.Ctl.Rules[j]
		}
	}
	md := sc.Target["metadata"].(map[string]interface{})
	shape := r.Intn(3)
	if shape == 0 || shape == 2 {
		delete(md, "labels")
		rule.Labels = c16BareLabelSels[r.Intn(len(c16BareLabelSels))]
		c16AddFeature(sc, "target-without-labels")
	} else {
		lm := c16Meta(sc.Target, "labels")
		c16Satisfy(lm, rule.Labels)
		if len(lm) == 0 {
			lm["app"] = "a"
		}
		md["labels"] = lm
	}
	if shape == 1 || shape == 2 {
		delete(md, "annotations")
		rule.Annotations = c16BareAnnotSels[r.Intn(len(c16BareAnnotSels))]
		c16AddFeature(sc, "target-without-annotations")
	} else {
		am := c16Meta(sc.Target, "annotations")
		c16Satisfy(am, rule.Annotations)
		if len(am) == 0 {
			am["note"] = "n"
		}
		md["annotations"] = am
	}
	sc.Features = c16DropFeatures(sc.Features, "maybe-unselected", "hook-changes-mind", "edited-between-rounds")
	sc.Ctl.Finalize, sc.Ctl.NoSync = false, false
	sc.Hook2, sc.Setup, sc.Objects = nil, nil, nil
	sc.Warmup = 0
	// an answer part that asks nothing of the map as it is
	quiet := func(field string) map[string]*string {
		cur, _ := md[field].(map[string]interface{})
		switch r.Intn(4) {
		case 0:
			return nil // the key is not in the answer
		case 1:
			return map[string]*string{} // an empty object
		case 2:
			out := map[string]*string{"absent-key": nil}
			if r.Bool() {
				out["another-absent-key"] = nil
			}
			return out
		default:
			out := map[string]*string{}
			for k, v := range cur {
				if r.Bool() {
					out[k] = c16Str(v.(string))
				}
			}
			if r.Bool() {
				out["absent-key"] = nil
			}
			return out
		}
	}
	h := c16HookProgram{Kind: "const", Labels: quiet("labels"), Annotations: quiet("annotations")}
	switch r.Intn(3) {
	case 0:
		h.StatusMode = "null"
	case 1:
		h.StatusMode = "echo"
	}
	if r.Chance(1, 6) {
		// control: a genuine change must be written
		if r.Bool() {
			h.Labels = map[string]*string{"deco-bare": c16Str("1")}
		} else {
			h.Annotations = map[string]*string{"deco-bare": c16Str("")}
		}
		c16AddFeature(sc, "bare-genuine-change")
	} else {
		c16AddFeature(sc, "response-changes-nothing")
	}
	if r.Chance(1, 3) && len(sc.Ctl.Attachments) > 0 {
		h.Attachments = []c16J{g.attachment(sc.Ctl.Attachments[0], *rule, "a0", 1)}
	}
	sc.Hook = h
	sc.Rounds = []c16RoundSpec{{}, {}}
	return sc
}

// nochange: the response names nothing new: no request may be sent to the target
func (g *c16Gen) nochange(i int, seed uint64) *c16Scenario {
	r := g.r
	sc := g.basic("nochange", i, seed)
	sc.Hook2 = nil
	labels := c16Meta(sc.Target, "labels")
	annots := c16Meta(sc.Target, "annotations")
	same := func(cur c16J) map[string]*string {
		if r.Chance(1, 4) {
			return nil
		}
		out := map[string]*string{}
		for k, v := range cur {
			if r.Bool() {
				out[k] = c16Str(v.(string))
			}
		}
		if r.Bool() {
			out["absent-key"] = nil // deleting what is not there changes nothing
		}
		return out
	}
	sc.Hook.Labels = same(labels)
	sc.Hook.Annotations = same(annots)
	switch r.Intn(4) {
	case 0:
		sc.Hook.StatusMode = ""
	case 1:
		sc.Hook.StatusMode = "null"
	case 2:
		sc.Hook.StatusMode = "echo"
	default:
		sc.Hook.StatusMode = "const"
		if st, ok := sc.Target["status"].(map[string]interface{}); ok {
			sc.Hook.Status = runtime.DeepCopyJSON(st)
		} else {
			sc.Hook.StatusMode = "null"
		}
	}
	sc.Features = append(sc.Features, "response-changes-nothing")
	return sc
}

// selectors: every selector shape against matching and non-matching targets, with and without the finalizer
func (g *c16Gen) selectors(i int, seed uint64) *c16Scenario {
	r := g.r
	sc := g.basic("selectors", i, seed)
	rule := &sc.Ctl.Rules[0]
	for j := range sc.Ctl.Rules {
		if sc.Ctl.Rules[j].Kind == sc.Target["kind"] {
			rule = &sc.Ctl.Rules[j]
		}
	}
	mode := r.Intn(5)
	switch mode {
	case 0: // labels match, annotations do not
		rule.Labels = c16LabelSels[1+r.Intn(len(c16LabelSels)-2)]
		rule.Annotations = &c16Sel{Match: map[string]string{"decorate": "yes"}}
		c16Satisfy(c16Meta(sc.Target, "labels"), rule.Labels)
		sc.Target["metadata"].(map[string]interface{})["labels"] = func() c16J { m := c16Meta(sc.Target, "labels"); c16Satisfy(m, rule.Labels); return m }()
		sc.Target["metadata"].(map[string]interface{})["annotations"] = c16J{"decorate": "no"}
		sc.Features = append(sc.Features, "labels-match-annotations-dont")
	case 1: // annotations match, labels do not
		rule.Labels = &c16Sel{Match: map[string]string{"managed": "yes"}}
		rule.Annotations = c16AnnotSels[1+r.Intn(len(c16AnnotSels)-2)]
		sc.Target["metadata"].(map[string]interface{})["labels"] = c16J{"managed": "no"}
		sc.Target["metadata"].(map[string]interface{})["annotations"] = func() c16J { m := c16Meta(sc.Target, "annotations"); c16Satisfy(m, rule.Annotations); return m }()
		sc.Features = append(sc.Features, "annotations-match-labels-dont")
	case 2: // neither
		rule.Labels = &c16Sel{Exprs: []c16Expr{{Key: "tier", Op: "In", Values: []string{"a", "b"}}}}
		rule.Annotations = &c16Sel{Exprs: []c16Expr{{Key: "note", Op: "Exists"}}}
		sc.Target["metadata"].(map[string]interface{})["labels"] = c16J{"tier": "z"}
		delete(sc.Target["metadata"].(map[string]interface{}), "annotations")
		sc.Features = append(sc.Features, "neither-matches")
	case 3: // the target is of a kind that has no rule: run under a key of that kind
		other := c16CWRule
		if sc.Target["kind"] == "ClusterWidget" {
			other = c16PodRule
		}
		sc.Ctl.Rules = []c16RuleSpec{other}
		sc.Features = append(sc.Features, "kind-without-rule")
	default: // both match
		sc.Target["metadata"].(map[string]interface{})["labels"] = func() c16J { m := c16Meta(sc.Target, "labels"); c16Satisfy(m, rule.Labels); return m }()
		sc.Target["metadata"].(map[string]interface{})["annotations"] = func() c16J { m := c16Meta(sc.Target, "annotations"); c16Satisfy(m, rule.Annotations); return m }()
		sc.Features = append(sc.Features, "both-match")
	}
	if mode <= 2 {
		if r.Chance(1, 2) {
			// still carries the decorator's finalizer: it is ours until finalized
			md := sc.Target["metadata"].(map[string]interface{})
			fs, _ := md["finalizers"].([]interface{})
			md["finalizers"] = append(fs, "metacontroller.io/decoratorcontroller-"+sc.Ctl.Name)
			sc.Ctl.Finalize = r.Chance(2, 3)
			sc.Hook.FinalizedAlways = r.Bool()
			sc.Features = append(sc.Features, "unselected-with-finalizer")
		} else {
			sc.Features = append(sc.Features, "unselected")
		}
		sc.Warmup = 0
		sc.Hook2 = nil
	}
	return sc
}

// shared: a second decorator decorates the same target with its own attachments and labels;
// plus look-alike objects that fail exactly one of the recognition conditions
func (g *c16Gen) shared(i int, seed uint64) *c16Scenario {
	r := g.r
	sc := g.basic("shared", i, seed)
	var rule c16RuleSpec
	for _, ru := range sc.Ctl.Rules {
		if ru.Kind == sc.Target["kind"] {
			rule = ru
		}
	}
	// make sure the target is selected
	c16Satisfy(c16Meta(sc.Target, "labels"), rule.Labels)
	lm := c16Meta(sc.Target, "labels")
	c16Satisfy(lm, rule.Labels)
	am := c16Meta(sc.Target, "annotations")
	c16Satisfy(am, rule.Annotations)
	sc.Target["metadata"].(map[string]interface{})["labels"] = lm
	sc.Target["metadata"].(map[string]interface{})["annotations"] = am
	if r.Chance(3, 4) {
		orule := rule
		orule.Labels, orule.Annotations = nil, nil
		other := &c16CtlSpec{Name: "other" + fmt.Sprint(i%3), Rules: []c16RuleSpec{orule}, Attachments: sc.Ctl.Attachments}
		sc.Other = other
		oh := &c16HookProgram{Kind: "const", Labels: map[string]*string{"other-owned": c16Str("1")},
			Annotations: map[string]*string{"other-note": c16Str("o")}}
		n := 1 + r.Intn(2)
		for j := 0; j < n; j++ {
			a := sc.Ctl.Attachments[r.Intn(len(sc.Ctl.Attachments))]
			name := fmt.Sprintf("b%d", j)
			if r.Chance(1, 4) {
				name = "a0" // wants the same object as the decorator under test
				sc.Features = append(sc.Features, "same-attachment-name")
			}
			oh.Attachments = append(oh.Attachments, g.attachment(a, rule, name, 5))
		}
		sc.OtherHook = oh
		if sc.Warmup == 0 {
			sc.Warmup = 1
		}
		sc.Features = append(sc.Features, "second-decorator")
	}
	// look-alikes that are still there when the recorded rounds start
	has := false
	for _, f := range sc.Features {
		if f == "unmarked-controlled-lookalike" {
			has = true
		}
	}
	if !has {
		g.unmarked(sc, rule, true)
	}
	// look-alikes that exist from the start (the warm-up syncs see them too)
	nl := r.Intn(4)
	for j := 0; j < nl; j++ {
		a := sc.Ctl.Attachments[r.Intn(len(sc.Ctl.Attachments))]
		o := g.attachment(a, rule, fmt.Sprintf("f%d", j), 7)
		md := o["metadata"].(map[string]interface{})
		if a.Namespaced {
			if rule.Namespaced {
				md["namespace"] = "ns1"
			} else {
				md["namespace"] = "ns2"
			}
		}
		ctlRef := func(uid string, controller interface{}) c16A {
			ref := c16J{"apiVersion": sc.Target["apiVersion"], "kind": sc.Target["kind"], "name": "t1", "uid": uid}
			if controller != nil {
				ref["controller"] = controller
			}
			return c16A{ref}
		}
		marker := "metacontroller.k8s.io/decorator-controller"
		switch r.Intn(7) {
		case 0: // controlled by the target, no marker (e.g. made by a composite controller)
			md["ownerReferences"] = ctlRef(c16TargetUID, true)
			delete(md, "annotations")
			sc.Features = append(sc.Features, "lookalike-no-marker")
		case 1: // controlled by the target, another decorator's marker
			md["ownerReferences"] = ctlRef(c16TargetUID, true)
			md["annotations"] = c16J{marker: "someone-else"}
			sc.Features = append(sc.Features, "lookalike-other-marker")
		case 2: // our marker, controlled by somebody else
			md["ownerReferences"] = ctlRef("uid-somebody", true)
			md["annotations"] = c16J{marker: sc.Ctl.Name}
			sc.Features = append(sc.Features, "lookalike-other-owner")
		case 3: // our marker, owner reference to the target that is not a controller reference
			md["ownerReferences"] = ctlRef(c16TargetUID, nil)
			md["annotations"] = c16J{marker: sc.Ctl.Name}
			sc.Features = append(sc.Features, "lookalike-plain-owner-ref")
		case 4: // our marker, no owner at all
			md["annotations"] = c16J{marker: sc.Ctl.Name}
			sc.Features = append(sc.Features, "lookalike-orphan")
		case 5: // ours in every respect, but in a namespace the target does not see
			md["ownerReferences"] = ctlRef(c16TargetUID, true)
			md["annotations"] = c16J{marker: sc.Ctl.Name}
			if a.Namespaced && rule.Namespaced {
				md["namespace"] = "ns9"
				sc.Features = append(sc.Features, "lookalike-other-namespace")
			} else {
				sc.Features = append(sc.Features, "ours-undesired")
			}
		default: // ours and not desired: must be reported and deleted
			md["ownerReferences"] = ctlRef(c16TargetUID, true)
			md["annotations"] = c16J{marker: sc.Ctl.Name, "kept": "k"}
			sc.Features = append(sc.Features, "ours-undesired")
		}
		if r.Chance(1, 5) {
			md["name"] = "a0" // sits on a desired name
			sc.Features = append(sc.Features, "lookalike-on-desired-name")
		}
		sc.Objects = append(sc.Objects, o)
	}
	return sc
}

// stale: the target (or an attachment) is edited after the caches were taken, or between two requests
func (g *c16Gen) stale(i int, seed uint64) *c16Scenario {
	r := g.r
	sc := g.basic("stale", i, seed)
	var rule c16RuleSpec
	for _, ru := range sc.Ctl.Rules {
		if ru.Kind == sc.Target["kind"] {
			rule = ru
		}
	}
	lm := c16Meta(sc.Target, "labels")
	c16Satisfy(lm, rule.Labels)
	am := c16Meta(sc.Target, "annotations")
	c16Satisfy(am, rule.Annotations)
	sc.Target["metadata"].(map[string]interface{})["labels"] = lm
	sc.Target["metadata"].(map[string]interface{})["annotations"] = am
	// make the response change something so that writes are attempted
	if sc.Hook.Labels == nil {
		sc.Hook.Labels = map[string]*string{}
	}
	sc.Hook.Labels["deco-stamp"] = c16Str(fmt.Sprintf("s%d", r.Intn(3)))
	if r.Bool() {
		sc.Hook.StatusMode, sc.Hook.Status = "const", c16J{"phase": "Stale", "n": int64(40 + r.Intn(3))}
	}
	sc.Hook2 = nil
	sc.Warmup = r.Intn(2)
	if sc.Warmup > 0 {
		// the recorded rounds must still have something to write
		h2 := sc.Hook
		h2.Labels = map[string]*string{}
		for k, v := range sc.Hook.Labels {
			h2.Labels[k] = v
		}
		h2.Labels["deco-stamp"] = c16Str("after-warmup")
		if h2.StatusMode == "const" {
			h2.Status = c16J{"phase": "Stale2", "n": int64(60 + r.Intn(3))}
		}
		sc.Hook2 = &h2
	}
	ref := c16TargetRef(sc.Target)
	var ops []c16ExtOp
	switch r.Intn(6) {
	case 0:
		ref.Op, ref.Data = "edit", c16J{"spec": c16J{"replicas": int64(42), "edited": true}}
		sc.Features = append(sc.Features, "spec-edit-after-cache")
	case 1:
		ref.Op, ref.Data = "meta", c16J{"labels": c16J{"edited-by": "someone", "app": "changed"}}
		sc.Features = append(sc.Features, "label-edit-after-cache")
	case 2:
		ref.Op, ref.Data = "meta", c16J{"annotations": c16J{"edited-by": "someone"}, "finalizers": c16A{"example.com/late"}}
		sc.Features = append(sc.Features, "metadata-edit-after-cache")
	case 3:
		ref.Op, ref.Data = "status", c16J{"phase": "EditedBySomeone"}
		sc.Features = append(sc.Features, "status-edit-after-cache")
	case 4:
		ref.Op = "delete"
		sc.Features = append(sc.Features, "target-deleted-after-cache")
	default:
		ref.Op, ref.Data = "deleting", c16J{"finalizers": c16A{"example.com/hold"}}
		sc.Features = append(sc.Features, "target-deleting-after-cache")
	}
	ops = append(ops, ref)
	rs := c16RoundSpec{}
	switch r.Intn(3) {
	case 0:
		rs.LateOps = ops
		sc.Features = append(sc.Features, "stale-before-sync")
	case 1:
		rs.MidOps = map[string][]c16ExtOp{fmt.Sprint(r.Intn(3)): ops}
		sc.Features = append(sc.Features, "stale-between-requests")
	default:
		// the cache of the previous round is reused although the store moved on
		rs.PreOps = ops
		rs.Stale = true
		sc.Features = append(sc.Features, "stale-view-kept")
	}
	sc.Rounds = []c16RoundSpec{rs, {}}
	return sc
}

var c16Faults = []c16FaultOn{
	{Code: 404, Reason: "NotFound"}, {Code: 409, Reason: "Conflict"}, {Code: 500, Reason: "InternalError"},
	{Code: 409, Reason: "AlreadyExists"}, {Code: 422, Reason: "Invalid"}, {Code: 504, Reason: "Timeout"},
}

// faults on the status and metadata writes of the target, and on attachment requests
func (g *c16Gen) faults(i int, seed uint64) *c16Scenario {
	r := g.r
	sc := g.basic("faults", i, seed)
	var rule c16RuleSpec
	for _, ru := range sc.Ctl.Rules {
		if ru.Kind == sc.Target["kind"] {
			rule = ru
		}
	}
	lm := c16Meta(sc.Target, "labels")
	c16Satisfy(lm, rule.Labels)
	am := c16Meta(sc.Target, "annotations")
	c16Satisfy(am, rule.Annotations)
	sc.Target["metadata"].(map[string]interface{})["labels"] = lm
	sc.Target["metadata"].(map[string]interface{})["annotations"] = am
	if sc.Hook.Labels == nil {
		sc.Hook.Labels = map[string]*string{}
	}
	sc.Hook.Labels["deco-stamp"] = c16Str("f")
	sc.Hook.StatusMode, sc.Hook.Status = "const", c16J{"phase": "F", "n": int64(50 + r.Intn(3))}
	sc.Hook2 = nil
	sc.Ctl.Finalize = r.Chance(1, 3)
	f := c16Faults[r.Intn(3)]
	kind := sc.Target["kind"].(string)
	mode := r.Intn(5)
	if mode == 0 && !rule.HasStatus {
		mode = 1
	}
	switch mode {
	case 0:
		f.Verb, f.Kind, f.AfterHook = "updatestatus", kind, true
		sc.Features = append(sc.Features, "fault-on-status-write")
	case 1, 2:
		f.Verb, f.Kind, f.AfterHook = "update", kind, true
		sc.Features = append(sc.Features, "fault-on-metadata-write")
	case 3:
		sc.Ctl.Finalize = true
		sc.Warmup = 0
		f.Verb, f.Kind = []string{"get", "update"}[r.Intn(2)], kind
		sc.Features = append(sc.Features, "fault-on-finalizer-phase")
	default:
		f = c16Faults[r.Intn(len(c16Faults))]
		verb := []string{"create", "delete", "update"}[r.Intn(3)]
		att := sc.Ctl.Attachments[0]
		if verb == "create" {
			sc.Warmup = 0
		} else {
			// the attachments exist; the hook then drops or changes them
			sc.Warmup = 1
			if verb == "update" {
				att.Method = "InPlace"
				sc.Ctl.Attachments[0] = att
			}
		}
		sc.Hook.Attachments = []c16J{g.attachment(att, rule, "a0", 1), g.attachment(att, rule, "a1", 1)}
		if verb != "create" {
			h2 := sc.Hook
			h2.Attachments = nil
			if verb == "update" {
				for _, a := range sc.Hook.Attachments {
					a2 := runtime.DeepCopyJSON(a)
					a2["data"], a2["spec"] = c16J{"k": "changed"}, c16J{"size": int64(9)}
					if a2["kind"] == "ConfigMap" {
						delete(a2, "spec")
					} else {
						delete(a2, "data")
					}
					h2.Attachments = append(h2.Attachments, a2)
				}
			}
			sc.Hook2 = &h2
		}
		f.Verb, f.Kind, f.Nth = verb, att.Kind, r.Intn(2)
		sc.Features = append(sc.Features, "fault-on-attachment")
	}
	sc.Features = append(sc.Features, fmt.Sprintf("fault-%d", f.Code))
	sc.Rounds = []c16RoundSpec{{FaultOn: []c16FaultOn{f}}, {}}
	return sc
}

// finalize: a finalize hook; the target is deleted or stops matching
func (g *c16Gen) finalize(i int, seed uint64) *c16Scenario {
	r := g.r
	sc := g.basic("finalize", i, seed)
	var rule *c16RuleSpec
	for j := range sc.Ctl.Rules {
		if sc.Ctl.Rules[j].Kind == sc.Target["kind"] {
			rule = &sc.Ctl.Rules[j]
		}
	}
	if rule.Labels == nil || len(rule.Labels.Match) == 0 {
		rule.Labels = &c16Sel{Match: map[string]string{"managed": "yes"}}
	}
	lm := c16Meta(sc.Target, "labels")
	c16Satisfy(lm, rule.Labels)
	am := c16Meta(sc.Target, "annotations")
	c16Satisfy(am, rule.Annotations)
	sc.Target["metadata"].(map[string]interface{})["labels"] = lm
	sc.Target["metadata"].(map[string]interface{})["annotations"] = am
	sc.Ctl.Finalize = true
	sc.Ctl.NoSync = r.Chance(1, 10)
	sc.Hook.FinalizedIfEmpty = r.Chance(2, 3)
	sc.Hook.FinalizedAlways = r.Chance(1, 4)
	sc.Hook.FinalizedOnSync = r.Chance(1, 6)
	if len(sc.Hook.Attachments) > 0 && r.Bool() {
		sc.Hook.FinalizeAttachments = sc.Hook.Attachments[:len(sc.Hook.Attachments)/2]
	}
	// the decorator must not take its own selector label away during the warm-up
	delete(sc.Hook.Labels, "managed")
	sc.Hook2 = nil
	sc.Warmup = r.Intn(3)
	ref := c16TargetRef(sc.Target)
	rs := c16RoundSpec{}
	switch r.Intn(4) {
	case 0:
		ref.Op, ref.Data = "deleting", nil
		if r.Bool() {
			ref.Data = c16J{"finalizers": c16A{"foregroundDeletion"}}
			sc.Features = append(sc.Features, "gc-finalizer")
		}
		rs.PreOps = []c16ExtOp{ref}
		sc.Features = append(sc.Features, "target-deleting")
	case 1:
		ref.Op, ref.Data = "meta", c16J{"labels": c16J{"managed": "no"}}
		rs.PreOps = []c16ExtOp{ref}
		sc.Features = append(sc.Features, "target-unselected")
	case 2:
		ref.Op, ref.Data = "meta", c16J{"labels": c16J{"managed": nil}}
		rs.PreOps = []c16ExtOp{ref}
		sc.Features = append(sc.Features, "target-unselected")
	default:
		sc.Features = append(sc.Features, "target-alive")
	}
	sc.Rounds = []c16RoundSpec{rs, {}, {}}
	return sc
}

// c16DropFeatures removes the features that start with one of the prefixes
func c16DropFeatures(fs []string, prefixes ...string) []string {
	out := []string{}
	for _, f := range fs {
		drop := false
		for _, p := range prefixes {
			if len(f) >= len(p) && f[:len(p)] == p {
				drop = true
			}
		}
		if !drop {
			out = append(out, f)
		}
	}
	return out
}

// dying: a target pending deletion, by what still holds it: (i) our finalizer, (ii) our finalizer plus a
// garbage-collector finalizer (foreground / orphan propagation), (iii) only a foreign finalizer (ours is
// already gone); controllers with and without a finalize hook; selected and unselected targets
func (g *c16Gen) dying(i int, seed uint64) *c16Scenario {
	r := g.r
	sc := g.basic("dying", i, seed)
	var rule *c16RuleSpec
	for j := range sc.Ctl.Rules {
		if sc.Ctl.Rules[j].Kind == sc.Target["kind"] {
			rule = &sc.Ctl.Rules[j]
		}
	}
	if rule.Labels == nil || len(rule.Labels.Match) == 0 {
		rule.Labels = &c16Sel{Match: map[string]string{"managed": "yes"}}
	}
	lm := c16Meta(sc.Target, "labels")
	c16Satisfy(lm, rule.Labels)
	am := c16Meta(sc.Target, "annotations")
	c16Satisfy(am, rule.Annotations)
	md := sc.Target["metadata"].(map[string]interface{})
	md["labels"], md["annotations"] = lm, am
	delete(md, "finalizers")
	sc.Ctl.Finalize = r.Chance(3, 4)
	sc.Ctl.NoSync = false
	if sc.Ctl.Finalize {
		c16AddFeature(sc, "with-finalize-hook")
	} else {
		c16AddFeature(sc, "without-finalize-hook")
	}
	// the hooks: the sync answer must not take the selector label away; the finalize answer changes the
	// target (labels, sometimes the status) so that a write is attempted while the target is dying
	h := c16HookProgram{Kind: "const", Labels: map[string]*string{"deco-final": c16Str(fmt.Sprintf("v%d", r.Intn(3)))}}
	if r.Bool() {
		h.Annotations = map[string]*string{"deco-final-note": c16Str("n")}
	}
	if r.Chance(1, 3) {
		h.StatusMode, h.Status = "const", c16J{"phase": "Finalizing"}
	}
	for j := 0; j < r.Intn(3); j++ {
		a := sc.Ctl.Attachments[r.Intn(len(sc.Ctl.Attachments))]
		h.Attachments = append(h.Attachments, g.attachment(a, *rule, fmt.Sprintf("a%d", j), 1))
	}
	h.FinalizedIfEmpty = r.Chance(2, 3)
	h.FinalizedAlways = r.Chance(1, 4)
	if len(h.Attachments) > 0 && r.Bool() {
		h.FinalizeAttachments = h.Attachments[:len(h.Attachments)/2]
	}
	sc.Hook, sc.Hook2 = h, nil
	sc.Warmup = r.Intn(2)
	if sc.Warmup > 0 {
		// after the warm-up the answers name a new label value, so the dying target is still written to
		h2 := h
		h2.Labels = map[string]*string{"deco-final": c16Str("finalizing")}
		sc.Hook2 = &h2
	}
	ours := "metacontroller.io/decoratorcontroller-" + sc.Ctl.Name
	var fins c16A
	switch r.Intn(5) {
	case 0:
		fins = c16A{ours}
		c16AddFeature(sc, "dying-ours")
	case 1:
		fins = c16A{ours, []string{"foregroundDeletion", "orphan"}[r.Intn(2)]}
		c16AddFeature(sc, "dying-ours-gc")
	case 2:
		fins = c16A{"example.com/hold", ours}
		c16AddFeature(sc, "dying-ours")
	default:
		fins = c16A{"example.com/hold"}
		c16AddFeature(sc, "dying-foreign-only")
	}
	unselected := r.Chance(2, 5)
	alive := false
	switch r.Intn(6) {
	case 0:
		// a leftover finalizer: ours is on an unmatched target but the controller has no finalize hook (any more);
		// alive or pending deletion, the finalizer has to go in that sync
		sc.Ctl.Finalize, unselected, alive = false, true, r.Bool()
		fins = c16A{ours}
		if r.Bool() {
			fins = c16A{"example.com/hold", ours}
		}
		sc.Features = c16DropFeatures(sc.Features, "dying-", "with-finalize-hook", "without-finalize-hook")
		c16AddFeature(sc, "without-finalize-hook")
		c16AddFeature(sc, "leftover-finalizer-unmatched")
	case 1:
		// deleted while unmatched with foreground / orphan propagation: the finalize hook is still owed
		sc.Ctl.Finalize, unselected = true, true
		fins = c16A{ours, []string{"foregroundDeletion", "orphan"}[r.Intn(2)]}
		sc.Hook.FinalizedAlways = r.Chance(2, 3)
		if sc.Hook2 != nil {
			sc.Hook2.FinalizedAlways = sc.Hook.FinalizedAlways
		}
		sc.Features = c16DropFeatures(sc.Features, "dying-", "with-finalize-hook", "without-finalize-hook")
		c16AddFeature(sc, "with-finalize-hook")
		c16AddFeature(sc, "dying-ours-gc")
		c16AddFeature(sc, "gc-finalizer-unmatched")
	}
	ref := c16TargetRef(sc.Target)
	set := ref
	set.Op, set.Data = "meta", c16J{"finalizers": fins}
	if unselected {
		set.Data["labels"] = c16J{"managed": "no"}
		c16AddFeature(sc, "dying-unselected")
	} else {
		c16AddFeature(sc, "dying-selected")
	}
	sc.Setup = append(sc.Setup, set)
	del := ref
	del.Op = "deleting"
	rs := c16RoundSpec{PreOps: []c16ExtOp{del}}
	if alive {
		c16AddFeature(sc, "leftover-on-live-target")
		sc.Rounds = []c16RoundSpec{{}, {}}
	} else if r.Chance(1, 5) {
		// one live round first
		sc.Rounds = []c16RoundSpec{{}, rs, {}}
	} else {
		sc.Rounds = []c16RoundSpec{rs, {}, {}}
	}
	return sc
}

// nulls: the hook's attachments list holds null entries (alone, first, last, between valid ones), for namespaced
// and cluster-scoped targets, answered by the sync hook or (target pending deletion) by the finalize hook
func (g *c16Gen) nulls(i int, seed uint64) *c16Scenario {
	r := g.r
	sc := g.basic("nulls", i, seed)
	var rule c16RuleSpec
	for _, ru := range sc.Ctl.Rules {
		if ru.Kind == sc.Target["kind"] {
			rule = ru
		}
	}
	lm := c16Meta(sc.Target, "labels")
	c16Satisfy(lm, rule.Labels)
	am := c16Meta(sc.Target, "annotations")
	c16Satisfy(am, rule.Annotations)
	md := sc.Target["metadata"].(map[string]interface{})
	md["labels"], md["annotations"] = lm, am
	a := sc.Ctl.Attachments[0]
	v1, v2 := g.attachment(a, rule, "n0", 1), g.attachment(a, rule, "n1", 1)
	var list c16A
	shape := r.Intn(6)
	switch shape {
	case 0:
		list = c16A{nil}
	case 1:
		list = c16A{nil, v1}
	case 2:
		list = c16A{v1, nil}
	case 3:
		list = c16A{v1, nil, v2}
	case 4:
		list = c16A{nil, nil}
	default:
		list = c16A{nil, v1, nil, v2, nil}
	}
	c16AddFeature(sc, fmt.Sprintf("null-attachments-shape%d", shape))
	body, _ := json.Marshal(c16J{"attachments": list, "labels": c16J{"deco-null": "1"}})
	h := c16HookProgram{Kind: "raw", RawBody: string(body)}
	sc.Hook2 = nil
	sc.Setup = nil
	sc.Warmup = 0
	sc.Hook = h
	if rule.Namespaced {
		c16AddFeature(sc, "null-attachments-namespaced-target")
	} else {
		c16AddFeature(sc, "null-attachments-cluster-target")
	}
	sc.Ctl.NoSync = false
	if r.Chance(1, 3) {
		// the finalize hook gives the answer: the target is pending deletion and holds our finalizer
		sc.Ctl.Finalize = true
		fs, _ := md["finalizers"].([]interface{})
		md["finalizers"] = append(fs, "metacontroller.io/decoratorcontroller-"+sc.Ctl.Name)
		ref := c16TargetRef(sc.Target)
		ref.Op = "deleting"
		sc.Rounds = []c16RoundSpec{{PreOps: []c16ExtOp{ref}}, {}}
		c16AddFeature(sc, "null-attachments-finalize-hook")
	} else {
		sc.Ctl.Finalize = r.Chance(1, 4)
		sc.Rounds = []c16RoundSpec{{}, {}}
		c16AddFeature(sc, "null-attachments-sync-hook")
	}
	return sc
}

// retries: the same work item fails several times in a row (the hook answers 5xx, or the API server 500 on the
// target write / an attachment request) before it succeeds; every step goes through the real processNextWorkItem
func (g *c16Gen) retries(i int, seed uint64) *c16Scenario {
	r := g.r
	sc := g.basic("retries", i, seed)
	var rule c16RuleSpec
	for _, ru := range sc.Ctl.Rules {
		if ru.Kind == sc.Target["kind"] {
			rule = ru
		}
	}
	lm := c16Meta(sc.Target, "labels")
	c16Satisfy(lm, rule.Labels)
	am := c16Meta(sc.Target, "annotations")
	c16Satisfy(am, rule.Annotations)
	md := sc.Target["metadata"].(map[string]interface{})
	md["labels"], md["annotations"] = lm, am
	sc.Hook2 = nil
	sc.Warmup = 0
	sc.Ctl.NoSync = false
	if sc.Hook.Labels == nil {
		sc.Hook.Labels = map[string]*string{}
	}
	delete(sc.Hook.Labels, "managed")
	sc.Hook.Labels["deco-retry"] = c16Str("r")
	if r.Chance(1, 3) {
		sc.Hook.Resync = float64(10 * (1 + r.Intn(3)))
	}
	fails := 1 + r.Intn(3)
	c16AddFeature(sc, fmt.Sprintf("fails-in-a-row-%d", fails))
	sc.Rounds = nil
	if r.Bool() {
		sc.Hook.FailFirst = fails
		sc.Hook.FailCode = []int{500, 502, 503}[r.Intn(3)]
		c16AddFeature(sc, "retry-hook-5xx")
		for j := 0; j <= fails; j++ {
			sc.Rounds = append(sc.Rounds, c16RoundSpec{})
		}
	} else {
		f := c16FaultOn{Verb: "update", Kind: sc.Target["kind"].(string), AfterHook: true, Code: 500, Reason: "InternalError"}
		if len(sc.Hook.Attachments) > 0 && r.Bool() {
			f = c16FaultOn{Verb: "create", Kind: sc.Hook.Attachments[0]["kind"].(string), Code: 500, Reason: "InternalError"}
		}
		c16AddFeature(sc, "retry-api-500")
		for j := 0; j < fails; j++ {
			sc.Rounds = append(sc.Rounds, c16RoundSpec{FaultOn: []c16FaultOn{f}})
		}
		sc.Rounds = append(sc.Rounds, c16RoundSpec{})
	}
	return sc
}

// converge: a selected target, a deterministic hook (constant / StatefulSet-like ordered / echoing what it
// observes) and an initial population in every role: nothing, matching attachments, drifted and deleted ones,
// undesired ones of ours, look-alikes (controlled by the target but unmarked or marked by another decorator;
// our marker but another controller; the target as a plain owner), unowned objects. Fault-free syncs with
// fresh caches until one sends no write, then one more.
func (g *c16Gen) converge(i int, seed uint64) *c16Scenario {
	r := g.r
	sc := g.basic("converge", i, seed)
	var rule c16RuleSpec
	for _, ru := range sc.Ctl.Rules {
		if ru.Kind == sc.Target["kind"] {
			rule = ru
		}
	}
	lm := c16Meta(sc.Target, "labels")
	c16Satisfy(lm, rule.Labels)
	am := c16Meta(sc.Target, "annotations")
	c16Satisfy(am, rule.Annotations)
	md := sc.Target["metadata"].(map[string]interface{})
	md["labels"], md["annotations"] = lm, am
	sc.Features = c16DropFeatures(sc.Features, "method-", "attachment-", "hook-changes-mind", "edited-between-rounds", "maybe-unselected",
		"unmarked-", "lookalike-")
	sc.Setup, sc.Objects, sc.Hook2, sc.Rounds = nil, nil, nil, nil
	sc.Ctl.Finalize = r.Chance(1, 4)
	sc.Ctl.NoSync = false
	// one or two attachment kinds: core group and named group, any method including none
	core, named := c16AttConfigMap, c16AttGadget
	if !rule.Namespaced {
		named = c16AttClusterGadget
	}
	core.Method, named.Method = c16Methods[r.Intn(len(c16Methods))], c16Methods[r.Intn(len(c16Methods))]
	switch r.Intn(4) {
	case 0:
		sc.Ctl.Attachments = []c16AttSpec{core}
	case 1:
		sc.Ctl.Attachments = []c16AttSpec{named}
	case 2:
		sc.Ctl.Attachments = []c16AttSpec{core, named}
	default:
		sc.Ctl.Attachments = []c16AttSpec{named, core}
	}
	c16RuleFeatures(sc)
	h := c16HookProgram{Kind: "const", Labels: map[string]*string{"deco-converge": c16Str(fmt.Sprintf("v%d", r.Intn(2)))}}
	if r.Bool() {
		h.Annotations = map[string]*string{"deco-converge-note": c16Str("")}
	}
	switch r.Intn(3) {
	case 0:
		h.StatusMode, h.Status = "const", c16J{"phase": "Decorated", "n": int64(r.Intn(3))}
	case 1:
		h.StatusMode = "null"
	}
	nd := 1 + r.Intn(4)
	for j := 0; j < nd; j++ {
		a := sc.Ctl.Attachments[r.Intn(len(sc.Ctl.Attachments))]
		h.Attachments = append(h.Attachments, g.attachment(a, rule, fmt.Sprintf("d%d", j), 1))
	}
	updating := false
	for _, a := range sc.Ctl.Attachments {
		if a.Method != "" && a.Method != "OnDelete" {
			updating = true
		}
	}
	switch r.Intn(5) {
	case 0, 1:
		h.Kind = "ordered"
		c16AddFeature(sc, "hook-ordered")
	case 2:
		if !updating {
			h.Kind = "echo"
			c16AddFeature(sc, "hook-echo")
		} else if r.Chance(1, 3) && g.prop == "C01d" {
			// verbatim echo under an update-permitting strategy: the known echo-hook hot loop (D24d), a small share,
			// in the convergence leg only (the echoed bookkeeping annotation is outside the per-sync model's domain)
			h.Kind = "echo"
			c16AddFeature(sc, "hook-echo")
			c16AddFeature(sc, "hook-echo-updating")
		} else {
			c16AddFeature(sc, "hook-const")
		}
	default:
		c16AddFeature(sc, "hook-const")
	}
	sc.Hook = h
	// the initial population
	sc.Warmup = r.Intn(3)
	if sc.Warmup > 0 {
		c16AddFeature(sc, "population-matching")
		for _, a := range h.Attachments {
			ref := c16AttRef(a, rule)
			if !rule.Namespaced && c16ResByKind(ref.APIVersion, ref.Kind).Namespaced {
				ref.Namespace = "ns2"
			}
			switch r.Intn(6) {
			case 0:
				ref.Op = "delete"
				c16AddFeature(sc, "population-deleted")
			case 1:
				if a["kind"] == "ConfigMap" {
					ref.Op, ref.Data = "edit", c16J{"data": c16J{"k": "drifted"}}
				} else {
					ref.Op, ref.Data = "edit", c16J{"spec": c16J{"size": int64(99)}}
				}
				c16AddFeature(sc, "population-drifted-owned-field")
			case 2:
				ref.Op, ref.Data = "edit", c16J{"foreignField": c16J{"k": "v"}}
				c16AddFeature(sc, "population-drifted-foreign-field")
			case 3:
				if a["kind"] != "ConfigMap" {
					ref.Op, ref.Data = "status", c16J{"ready": true}
					c16AddFeature(sc, "population-status-written")
				}
			}
			if ref.Op != "" {
				sc.Setup = append(sc.Setup, ref)
			}
		}
	} else {
		c16AddFeature(sc, "population-empty")
	}
	// ours but no longer desired
	for j := 0; j < r.Intn(2); j++ {
		a := sc.Ctl.Attachments[r.Intn(len(sc.Ctl.Attachments))]
		o := g.attachment(a, rule, fmt.Sprintf("x%d", j), 5)
		omd := o["metadata"].(map[string]interface{})
		if a.Namespaced {
			omd["namespace"] = "ns1"
			if !rule.Namespaced {
				omd["namespace"] = "ns2"
			}
		}
		omd["annotations"] = c16J{c16Marker: sc.Ctl.Name}
		omd["ownerReferences"] = c16A{c16J{"apiVersion": sc.Target["apiVersion"], "kind": sc.Target["kind"], "name": "t1", "uid": c16TargetUID,
			"controller": true, "blockOwnerDeletion": true}}
		sc.Setup = append(sc.Setup, c16ExtOp{Op: "create", Data: o})
		c16AddFeature(sc, "population-ours-undesired")
	}
	// look-alikes and unowned objects: never ours, must stay byte for byte
	if r.Chance(3, 4) {
		g.unmarked(sc, rule, r.Bool())
	}
	for j := 0; j < r.Intn(2); j++ {
		a := sc.Ctl.Attachments[r.Intn(len(sc.Ctl.Attachments))]
		o := g.attachment(a, rule, fmt.Sprintf("free%d", j), 6)
		omd := o["metadata"].(map[string]interface{})
		if a.Namespaced {
			omd["namespace"] = "ns1"
			if !rule.Namespaced {
				omd["namespace"] = "ns2"
			}
		}
		if r.Bool() {
			omd["annotations"] = c16J{c16Marker: sc.Ctl.Name} // our marker, nobody's object
		}
		sc.Setup = append(sc.Setup, c16ExtOp{Op: "create", Data: o})
		c16AddFeature(sc, "population-unowned")
	}
	sc.Converge = 6
	c16AddFeature(sc, "converge")
	return sc
}

// discoveryLoss: after the controller was built, discovery stops listing a declared attachment resource (a lost
// aggregated API, a refresh race) while the informer still holds owned attachments of it
func (g *c16Gen) discoveryLoss(i int, seed uint64) *c16Scenario {
	r := g.r
	sc := g.basic("discovery-loss", i, seed)
	var rule c16RuleSpec
	for _, ru := range sc.Ctl.Rules {
		if ru.Kind == sc.Target["kind"] {
			rule = ru
		}
	}
	lm := c16Meta(sc.Target, "labels")
	c16Satisfy(lm, rule.Labels)
	am := c16Meta(sc.Target, "annotations")
	c16Satisfy(am, rule.Annotations)
	md := sc.Target["metadata"].(map[string]interface{})
	md["labels"], md["annotations"] = lm, am
	sc.Hook2 = nil
	sc.Ctl.NoSync = false
	delete(sc.Hook.Labels, "managed")
	if len(sc.Hook.Attachments) == 0 {
		a := sc.Ctl.Attachments[0]
		sc.Hook.Attachments = []c16J{g.attachment(a, rule, "a0", 1)}
	}
	sc.Warmup = 1 + r.Intn(2)
	lost := sc.Ctl.Attachments[r.Intn(len(sc.Ctl.Attachments))]
	sc.Rounds = []c16RoundSpec{{HideDiscovery: []string{lost.APIVersion + "|" + lost.Resource}}, {}}
	if r.Chance(1, 3) {
		sc.Rounds = append([]c16RoundSpec{{}}, sc.Rounds...)
	}
	c16AddFeature(sc, "discovery-loses-attachment-resource")
	return sc
}

// failedWrite: the metadata update of the target fails with a non-conflict error (500 / 403 / 422); the work item
// is retried on the SAME controller and caches (no watch event in between), then once more on fresh ones. The
// retry has to send the update again.
func (g *c16Gen) failedWrite(i int, seed uint64) *c16Scenario {
	r := g.r
	sc := g.basic("failed-write", i, seed)
	var rule c16RuleSpec
	for _, ru := range sc.Ctl.Rules {
		if ru.Kind == sc.Target["kind"] {
			rule = ru
		}
	}
	lm := c16Meta(sc.Target, "labels")
	c16Satisfy(lm, rule.Labels)
	am := c16Meta(sc.Target, "annotations")
	c16Satisfy(am, rule.Annotations)
	md := sc.Target["metadata"].(map[string]interface{})
	md["labels"], md["annotations"] = lm, am
	sc.Ctl.Finalize, sc.Ctl.NoSync = false, false
	sc.Hook2 = nil
	sc.Warmup = 0
	h := c16HookProgram{Kind: "const", Labels: map[string]*string{"deco-fw": c16Str(fmt.Sprintf("v%d", r.Intn(3)))}, Attachments: sc.Hook.Attachments}
	if r.Bool() {
		h.Annotations = map[string]*string{"deco-fw-note": c16Str("n")}
	}
	if r.Chance(1, 3) {
		for k := range lm {
			if k != "managed" && k != "tier" && k != "app" && k != "env" {
				h.Labels[k] = nil // a null for a present key
				break
			}
		}
	}
	if r.Chance(1, 4) {
		h.StatusMode, h.Status = "const", c16J{"phase": "FW"}
	}
	sc.Hook = h
	f := []c16FaultOn{{Code: 500, Reason: "InternalError"}, {Code: 403, Reason: "Forbidden"}, {Code: 422, Reason: "Invalid"}}[r.Intn(3)]
	f.Verb, f.Kind, f.AfterHook = "update", sc.Target["kind"].(string), true
	c16AddFeature(sc, fmt.Sprintf("fault-%d", f.Code))
	sc.Rounds = []c16RoundSpec{{FaultOn: []c16FaultOn{f}}, {SameController: true, Stale: true}, {}}
	if r.Chance(1, 3) {
		// two failures in a row on the same caches
		sc.Rounds = []c16RoundSpec{{FaultOn: []c16FaultOn{f}}, {SameController: true, Stale: true, FaultOn: []c16FaultOn{f}}, {SameController: true, Stale: true}, {}}
	}
	c16AddFeature(sc, "failed-write-then-retry")
	return sc
}

// sharedFail: two decorators on one target take their informers from one factory; the co-decorator syncs first
// and its write of the target fails (or succeeds without a watch event reaching the cache); the decorator under
// test then syncs from the same caches and may write only what its own hook named
func (g *c16Gen) sharedFail(i int, seed uint64) *c16Scenario {
	r := g.r
	sc := g.basic("shared-fail", i, seed)
	var rule c16RuleSpec
	for _, ru := range sc.Ctl.Rules {
		if ru.Kind == sc.Target["kind"] {
			rule = ru
		}
	}
	lm := c16Meta(sc.Target, "labels")
	c16Satisfy(lm, rule.Labels)
	am := c16Meta(sc.Target, "annotations")
	c16Satisfy(am, rule.Annotations)
	md := sc.Target["metadata"].(map[string]interface{})
	md["labels"], md["annotations"] = lm, am
	sc.Ctl.Finalize, sc.Ctl.NoSync = false, false
	sc.Hook2 = nil
	sc.Warmup = 0
	sc.Hook = c16HookProgram{Kind: "const", Labels: map[string]*string{"mine": c16Str("1")}, Attachments: sc.Hook.Attachments}
	orule := rule
	orule.Labels, orule.Annotations = nil, nil
	sc.Other = &c16CtlSpec{Name: "other" + fmt.Sprint(i%3), Rules: []c16RuleSpec{orule}, Attachments: sc.Ctl.Attachments}
	oh := &c16HookProgram{Kind: "const", Labels: map[string]*string{"other-owned": c16Str("1")}, Annotations: map[string]*string{"other-note": c16Str("o")}}
	for k := range lm {
		if k != "managed" && k != "tier" && k != "app" && k != "env" {
			oh.Labels[k] = nil // the co-decorator also wants a key gone
			break
		}
	}
	sc.OtherHook = oh
	rs := c16RoundSpec{OtherFirst: true}
	if r.Chance(3, 4) {
		f := []c16FaultOn{{Code: 500, Reason: "InternalError"}, {Code: 403, Reason: "Forbidden"}, {Code: 422, Reason: "Invalid"}}[r.Intn(3)]
		f.Verb, f.Kind = "update", sc.Target["kind"].(string)
		rs.OtherFault = &f
		c16AddFeature(sc, "co-decorator-write-fails")
	} else {
		c16AddFeature(sc, "co-decorator-write-unseen")
	}
	sc.Rounds = []c16RoundSpec{rs, {}}
	c16AddFeature(sc, "second-decorator")
	c16AddFeature(sc, "shared-informers")
	return sc
}

var c16RawBodies = []string{
	`null`, `[]`, `"text"`, `not json`, `{}`,
	`{"labels":{"a":1}}`, `{"labels":["a"]}`, `{"labels":{"a":true}}`, `{"labels":"x"}`,
	`{"annotations":{"a":{"b":"c"}}}`, `{"annotations":[]}`,
	`{"labels":{"a":null,"deco":"x"},"annotations":{"n":"1","gone":null}}`,
	`{"status":"x"}`, `{"status":[1]}`, `{"status":7}`, `{"status":{"phase":"Raw"}}`,
	`{"attachments":[{"apiVersion":"v1","metadata":{"name":"x"}}]}`, `{"attachments":[null]}`, `{"attachments":{}}`,
	`{"attachments":[null,{"apiVersion":"v1","kind":"ConfigMap","metadata":{"name":"raw0","namespace":"ns1"},"data":{"k":"v"}}]}`,
	`{"finalized":"yes"}`, `{"finalized":true}`, `{"resyncAfterSeconds":"1"}`, `{"resyncAfterSeconds":1.5}`,
	`{"labels":null,"annotations":null,"status":null,"attachments":null,"finalized":null,"resyncAfterSeconds":null}`,
	`{"Labels":{"x":"y"}}`, `{"labels":{"x":"y"},"unknown":1}`, `{"labels":{"a":"1","a":"2"}}`,
}

// hostile: bodies with wrong types, and transport-level failures
func (g *c16Gen) hostile(i int, seed uint64) *c16Scenario {
	r := g.r
	sc := g.basic("hostile", i, seed)
	var rule c16RuleSpec
	for _, ru := range sc.Ctl.Rules {
		if ru.Kind == sc.Target["kind"] {
			rule = ru
		}
	}
	lm := c16Meta(sc.Target, "labels")
	c16Satisfy(lm, rule.Labels)
	am := c16Meta(sc.Target, "annotations")
	c16Satisfy(am, rule.Annotations)
	sc.Target["metadata"].(map[string]interface{})["labels"] = lm
	sc.Target["metadata"].(map[string]interface{})["annotations"] = am
	h := c16HookProgram{Kind: "raw"}
	switch r.Intn(8) {
	case 0:
		h.NetErr = true
		sc.Features = append(sc.Features, "hook-net-error")
	case 1:
		h.Code, h.RawBody = 500, `{}`
		sc.Features = append(sc.Features, "hook-500")
	case 2:
		h.Code, h.RetryAfter, h.RawBody = 429, "7", `{}`
		sc.Features = append(sc.Features, "hook-429")
	default:
		h.RawBody = c16RawBodies[r.Intn(len(c16RawBodies))]
		sc.Features = append(sc.Features, "raw-body")
	}
	if sc.Warmup > 0 {
		sc.Hook2 = &h
	} else {
		sc.Hook = h
		sc.Hook2 = nil
	}
	return sc
}

// keys: work items that are not the target's well-formed key
func (g *c16Gen) keys(i int, seed uint64) *c16Scenario {
	r := g.r
	sc := g.basic("keys", i, seed)
	keys := []string{"ns1/t1", "t1", "v1:Pod:ns1", "v1:Unknown:ns1:t1", "v1:ConfigMap:ns1:t1", "v1:Pod:ns1:absent", "v1:Pod::t1",
		"ctl.example.com/v1:ClusterWidget::t1", "ctl.example.com/v1:ClusterWidget:ns1:t1", "v1:Pod:ns1:t1:x", ""}
	sc.Rounds = []c16RoundSpec{{Key: keys[r.Intn(len(keys))]}, {}}
	sc.Features = append(sc.Features, "odd-key")
	return sc
}

// ---- hand-written corpus ----
func c16Corpus() []*c16Scenario {
	pod := func(labels, annots c16J, status c16J) c16J {
		md := c16J{"name": "t1", "namespace": "ns1", "uid": c16TargetUID, "generation": int64(1), "finalizers": c16A{"example.com/hold"}}
		if labels != nil {
			md["labels"] = labels
		}
		if annots != nil {
			md["annotations"] = annots
		}
		o := c16J{"apiVersion": "v1", "kind": "Pod", "metadata": md, "spec": c16J{"replicas": int64(2)}}
		if status != nil {
			o["status"] = status
		}
		return o
	}
	cw := func(labels c16J, status c16J) c16J {
		md := c16J{"name": "t1", "uid": c16TargetUID, "generation": int64(1)}
		if labels != nil {
			md["labels"] = labels
		}
		o := c16J{"apiVersion": "ctl.example.com/v1", "kind": "ClusterWidget", "metadata": md, "spec": c16J{"size": int64(3)}}
		if status != nil {
			o["status"] = status
		}
		return o
	}
	podRule := c16PodRule
	podRule.Labels = &c16Sel{Match: map[string]string{"managed": "yes"}}
	podRule.Annotations = &c16Sel{Match: map[string]string{"decorate": "yes"}}
	cwRule := c16CWRule
	inplaceCM := c16AttConfigMap
	inplaceCM.Method = "InPlace"
	cm := func(name, ns, v string) c16J {
		md := c16J{"name": name}
		if ns != "" {
			md["namespace"] = ns
		}
		return c16J{"apiVersion": "v1", "kind": "ConfigMap", "metadata": md, "data": c16J{"k": v}}
	}
	var out []*c16Scenario
	// 1. additions, an overwrite, a null for a present and for an absent key, an unnamed key; status different
	out = append(out, &c16Scenario{Family: "corpus", Features: []string{"corpus-all-edits"},
		Ctl:    c16CtlSpec{Name: "corpus1", Rules: []c16RuleSpec{podRule}, Attachments: []c16AttSpec{inplaceCM}},
		Target: pod(c16J{"managed": "yes", "app": "a", "old": "o", "keep": "k"}, c16J{"decorate": "yes", "note": "n"}, c16J{"phase": "Old"}),
		Hook: c16HookProgram{Kind: "const", Labels: map[string]*string{"app": c16Str("b"), "new": c16Str("n"), "old": nil, "absent": nil},
			Annotations: map[string]*string{"note": nil, "deco": c16Str("d")}, StatusMode: "const", Status: c16J{"phase": "New"},
			Attachments: []c16J{cm("a0", "", "1")}},
		Rounds: []c16RoundSpec{{}, {}}})
	// 2. nothing changes: no request at all
	out = append(out, &c16Scenario{Family: "corpus", Features: []string{"corpus-nothing-changes", "response-changes-nothing"},
		Ctl:    c16CtlSpec{Name: "corpus2", Rules: []c16RuleSpec{podRule}},
		Target: pod(c16J{"managed": "yes", "app": "a"}, c16J{"decorate": "yes"}, c16J{"phase": "Same"}),
		Hook:   c16HookProgram{Kind: "const", Labels: map[string]*string{"app": c16Str("a"), "absent": nil}, StatusMode: "null"},
		Rounds: []c16RoundSpec{{}}})
	// 3. labels match, annotations do not: not decorated
	out = append(out, &c16Scenario{Family: "corpus", Features: []string{"corpus-annotation-selector-fails", "unselected"},
		Ctl:    c16CtlSpec{Name: "corpus3", Rules: []c16RuleSpec{podRule}},
		Target: pod(c16J{"managed": "yes"}, c16J{"decorate": "no"}, nil),
		Hook:   c16HookProgram{Kind: "const", Labels: map[string]*string{"x": c16Str("y")}},
		Rounds: []c16RoundSpec{{}}})
	// 4. cluster-scoped target without status subresource and without a status: a label-only change with a
	//    null status in the response must leave the status key absent (regression: it used to store an
	//    explicit "status": null, after which every sync failed in NestedMap); the second round is a clean no-op
	out = append(out, &c16Scenario{Family: "corpus", Features: []string{"corpus-no-status-subresource-null"},
		Ctl:    c16CtlSpec{Name: "corpus4", Rules: []c16RuleSpec{cwRule}, Attachments: []c16AttSpec{c16AttClusterGadget}},
		Target: cw(c16J{"app": "a"}, nil),
		Hook: c16HookProgram{Kind: "const", Labels: map[string]*string{"deco": c16Str("1")}, StatusMode: "null",
			Attachments: []c16J{{"apiVersion": "ctl.example.com/v1", "kind": "ClusterGadget", "metadata": c16J{"name": "g0"}, "spec": c16J{"size": int64(1)}}}},
		Rounds: []c16RoundSpec{{}, {}}})
	// 4b. the same kind with a status: the status travels with the metadata update
	out = append(out, &c16Scenario{Family: "corpus", Features: []string{"corpus-no-status-subresource"},
		Ctl:    c16CtlSpec{Name: "corpus4b", Rules: []c16RuleSpec{cwRule}, Attachments: []c16AttSpec{c16AttClusterGadget}},
		Target: cw(c16J{"app": "a"}, c16J{"phase": "Old"}),
		Hook: c16HookProgram{Kind: "const", Labels: map[string]*string{"deco": c16Str("1")}, StatusMode: "const", Status: c16J{"phase": "New"},
			Attachments: []c16J{{"apiVersion": "ctl.example.com/v1", "kind": "ClusterGadget", "metadata": c16J{"name": "g0"}, "spec": c16J{"size": int64(1)}}}},
		Hook2:  &c16HookProgram{Kind: "const", Labels: map[string]*string{"deco": c16Str("2")}, StatusMode: "null"},
		Warmup: 1, Rounds: []c16RoundSpec{{}, {}}})
	// 5. two decorators on one target, look-alikes around
	orule := c16PodRule
	marker := "metacontroller.k8s.io/decorator-controller"
	ref := func(uid string, ctl bool) c16A {
		return c16A{c16J{"apiVersion": "v1", "kind": "Pod", "name": "t1", "uid": uid, "controller": ctl}}
	}
	lookalike := func(name string, refs c16A, ann c16J) c16J {
		o := cm(name, "ns1", "f")
		if refs != nil {
			o["metadata"].(map[string]interface{})["ownerReferences"] = refs
		}
		if ann != nil {
			o["metadata"].(map[string]interface{})["annotations"] = ann
		}
		return o
	}
	out = append(out, &c16Scenario{Family: "corpus", Features: []string{"corpus-shared-target", "second-decorator", "unmarked-controlled-lookalike", "unmarked-no-annotations", "unmarked-other-annotations", "lookalike-other-marker", "lookalike-other-owner", "ours-undesired"},
		Ctl:    c16CtlSpec{Name: "corpus5", Rules: []c16RuleSpec{podRule}, Attachments: []c16AttSpec{inplaceCM}},
		Other:  &c16CtlSpec{Name: "corpus5other", Rules: []c16RuleSpec{orule}, Attachments: []c16AttSpec{inplaceCM}},
		Target: pod(c16J{"managed": "yes"}, c16J{"decorate": "yes"}, nil),
		Objects: []c16J{
			lookalike("f-early-nomarker", ref(c16TargetUID, true), nil),
		},
		Setup: []c16ExtOp{
			{Op: "create", Data: lookalike("f-nomarker", ref(c16TargetUID, true), nil)},
			{Op: "create", Data: lookalike("f-annotated-nomarker", ref(c16TargetUID, true), c16J{"made-by": "another-controller"})},
			{Op: "create", Data: lookalike("f-othermarker", ref(c16TargetUID, true), c16J{marker: "someone"})},
			{Op: "create", Data: lookalike("f-otherowner", ref("uid-x", true), c16J{marker: "corpus5"})},
			{Op: "create", Data: lookalike("f-plainref", ref(c16TargetUID, false), c16J{marker: "corpus5"})},
			{Op: "create", Data: lookalike("f-ours", ref(c16TargetUID, true), c16J{marker: "corpus5"})},
		},
		Hook:      c16HookProgram{Kind: "const", Labels: map[string]*string{"mine": c16Str("1")}, Attachments: []c16J{cm("a0", "", "1"), cm("a1", "", "1")}},
		OtherHook: &c16HookProgram{Kind: "const", Labels: map[string]*string{"other-owned": c16Str("1")}, Attachments: []c16J{cm("b0", "", "1"), cm("a0", "", "other")}},
		Hook2:     &c16HookProgram{Kind: "const", Labels: map[string]*string{"mine": c16Str("2")}, Attachments: []c16J{}},
		Warmup:    1, Rounds: []c16RoundSpec{{}, {}}})
	// 6. spec edited after the cache was taken; the response changes a label and the status
	out = append(out, &c16Scenario{Family: "corpus", Features: []string{"corpus-stale-spec", "spec-edit-after-cache", "stale-before-sync"},
		Ctl:    c16CtlSpec{Name: "corpus6", Rules: []c16RuleSpec{podRule}},
		Target: pod(c16J{"managed": "yes"}, c16J{"decorate": "yes"}, c16J{"phase": "Old"}),
		Hook:   c16HookProgram{Kind: "const", Labels: map[string]*string{"deco": c16Str("1")}, StatusMode: "const", Status: c16J{"phase": "New"}},
		Rounds: []c16RoundSpec{{LateOps: []c16ExtOp{{Op: "edit", APIVersion: "v1", Kind: "Pod", Namespace: "ns1", Name: "t1", Data: c16J{"spec": c16J{"replicas": int64(42)}}}}}, {}}})
	// 7. spec edited between the status write and the metadata write
	out = append(out, &c16Scenario{Family: "corpus", Features: []string{"corpus-edit-between-writes", "spec-edit-after-cache", "stale-between-requests"},
		Ctl:    c16CtlSpec{Name: "corpus7", Rules: []c16RuleSpec{podRule}},
		Target: pod(c16J{"managed": "yes"}, c16J{"decorate": "yes"}, c16J{"phase": "Old"}),
		Hook:   c16HookProgram{Kind: "const", Labels: map[string]*string{"deco": c16Str("1")}, StatusMode: "const", Status: c16J{"phase": "New"}},
		Rounds: []c16RoundSpec{{MidOps: map[string][]c16ExtOp{"1": {{Op: "edit", APIVersion: "v1", Kind: "Pod", Namespace: "ns1", Name: "t1", Data: c16J{"spec": c16J{"replicas": int64(42)}}}}}}, {}}})
	// 8. finalize: the target stops matching, the hook finalizes once the attachments are gone
	frule := podRule
	out = append(out, &c16Scenario{Family: "corpus", Features: []string{"corpus-finalize", "target-unselected"},
		Ctl:    c16CtlSpec{Name: "corpus8", Rules: []c16RuleSpec{frule}, Attachments: []c16AttSpec{inplaceCM}, Finalize: true},
		Target: pod(c16J{"managed": "yes"}, c16J{"decorate": "yes"}, nil),
		Hook:   c16HookProgram{Kind: "const", Labels: map[string]*string{"deco": c16Str("1")}, Attachments: []c16J{cm("a0", "", "1")}, FinalizedIfEmpty: true},
		Warmup: 2,
		Rounds: []c16RoundSpec{{PreOps: []c16ExtOp{{Op: "meta", APIVersion: "v1", Kind: "Pod", Namespace: "ns1", Name: "t1", Data: c16J{"labels": c16J{"managed": "no"}}}}}, {}, {}}})
	// 9. a 409 on the status write and a 404 on the metadata write are swallowed; a 500 is not
	for j, f := range []c16FaultOn{{Verb: "updatestatus", Kind: "Pod", Code: 409, Reason: "Conflict", AfterHook: true},
		{Verb: "update", Kind: "Pod", Code: 404, Reason: "NotFound", AfterHook: true},
		{Verb: "update", Kind: "Pod", Code: 500, Reason: "InternalError", AfterHook: true}} {
		out = append(out, &c16Scenario{Family: "corpus", Features: []string{"corpus-write-fault", fmt.Sprintf("fault-%d", f.Code)},
			Ctl:    c16CtlSpec{Name: fmt.Sprintf("corpus9%d", j), Rules: []c16RuleSpec{podRule}, Attachments: []c16AttSpec{inplaceCM}},
			Target: pod(c16J{"managed": "yes"}, c16J{"decorate": "yes"}, c16J{"phase": "Old"}),
			Hook: c16HookProgram{Kind: "const", Labels: map[string]*string{"deco": c16Str("1")}, StatusMode: "const", Status: c16J{"phase": "New"},
				Attachments: []c16J{cm("a0", "", "1")}},
			Rounds: []c16RoundSpec{{FaultOn: []c16FaultOn{f}}, {}}})
	}
	// 10. matchExpressions on both selectors
	erule := c16PodRule
	erule.Labels = &c16Sel{Exprs: []c16Expr{{Key: "tier", Op: "In", Values: []string{"a", "b"}}, {Key: "skip", Op: "DoesNotExist"}}}
	erule.Annotations = &c16Sel{Exprs: []c16Expr{{Key: "note", Op: "Exists"}, {Key: "team", Op: "NotIn", Values: []string{"x"}}}}
	out = append(out, &c16Scenario{Family: "corpus", Features: []string{"corpus-expressions", "both-selectors"},
		Ctl:    c16CtlSpec{Name: "corpus10", Rules: []c16RuleSpec{erule}},
		Target: pod(c16J{"tier": "b"}, c16J{"note": "n", "team": "y"}, nil),
		// the response sets the label the selector forbids: the next sync no longer selects the target
		Hook:   c16HookProgram{Kind: "const", Labels: map[string]*string{"skip": c16Str("now")}, Annotations: map[string]*string{"team": c16Str("x")}},
		Rounds: []c16RoundSpec{{}, {}}})
	// 10b. a marker-style label: a new key whose value is the empty string must be added (and is a change);
	//      "" over a value overwrites; "" over "" changes nothing
	out = append(out, &c16Scenario{Family: "corpus", Features: []string{"corpus-empty-string-value"},
		Ctl:    c16CtlSpec{Name: "corpus10b", Rules: []c16RuleSpec{podRule}},
		Target: pod(c16J{"managed": "yes", "full": "x", "blank": ""}, c16J{"decorate": "yes"}, nil),
		Hook:   c16HookProgram{Kind: "const", Labels: map[string]*string{"marker": c16Str("")}},
		Hook2:  &c16HookProgram{Kind: "const", Labels: map[string]*string{"marker": c16Str(""), "blank": c16Str(""), "full": c16Str("")}, Annotations: map[string]*string{"seen": c16Str("")}},
		Rounds: []c16RoundSpec{{}, {}}})
	// 10c. null attachment entries for a cluster-scoped and a namespaced target
	for j, tgt := range []c16J{cw(c16J{"app": "a"}, nil), pod(c16J{"managed": "yes"}, c16J{"decorate": "yes"}, nil)} {
		ru, att, body := cwRule, c16AttClusterGadget, `{"attachments":[null,{"apiVersion":"ctl.example.com/v1","kind":"ClusterGadget","metadata":{"name":"n0"},"spec":{"size":1}},null]}`
		if j == 1 {
			ru, att, body = podRule, c16AttConfigMap, `{"attachments":[null,{"apiVersion":"v1","kind":"ConfigMap","metadata":{"name":"n0"},"data":{"k":"v"}},null]}`
		}
		out = append(out, &c16Scenario{Family: "corpus", Features: []string{"corpus-null-attachments"},
			Ctl:    c16CtlSpec{Name: fmt.Sprintf("corpus10c%d", j), Rules: []c16RuleSpec{ru}, Attachments: []c16AttSpec{att}},
			Target: tgt, Hook: c16HookProgram{Kind: "raw", RawBody: body}, Rounds: []c16RoundSpec{{}, {}}})
	}
	// 10d. targets whose metadata has no labels map / no annotations map / neither, and answers that ask nothing:
	//      no request, in particular no update that carries an empty map
	for j, v := range []struct {
		labels, annots c16J
		h              c16HookProgram
	}{
		{nil, c16J{"note": "n"}, c16HookProgram{Kind: "const"}},
		{c16J{"app": "a"}, nil, c16HookProgram{Kind: "const", Labels: map[string]*string{"app": c16Str("a")}, Annotations: map[string]*string{"absent": nil}}},
		{nil, nil, c16HookProgram{Kind: "const", Labels: map[string]*string{}, Annotations: map[string]*string{}, StatusMode: "null"}},
		{nil, nil, c16HookProgram{Kind: "const", Labels: map[string]*string{"absent": nil}, StatusMode: "echo"}},
	} {
		bareRule := c16PodRule
		out = append(out, &c16Scenario{Family: "corpus", Features: []string{"corpus-bare-target", "response-changes-nothing"},
			Ctl:    c16CtlSpec{Name: fmt.Sprintf("corpus10d%d", j), Rules: []c16RuleSpec{bareRule}},
			Target: pod(v.labels, v.annots, c16J{"phase": "P"}), Hook: v.h, Rounds: []c16RoundSpec{{}, {}}})
	}
	// 10e. a desired attachment without a namespace lands in the target's namespace, however "without" is spelt
	{
		nsAtt := func(name string, ns interface{}, set bool) c16J {
			o := cm(name, "", "1")
			if set {
				o["metadata"].(map[string]interface{})["namespace"] = ns
			}
			return o
		}
		out = append(out, &c16Scenario{Family: "corpus", Features: []string{"corpus-namespace-spellings"},
			Ctl:    c16CtlSpec{Name: "corpus10e", Rules: []c16RuleSpec{podRule}, Attachments: []c16AttSpec{inplaceCM}},
			Target: pod(c16J{"managed": "yes"}, c16J{"decorate": "yes"}, nil),
			Hook: c16HookProgram{Kind: "const", Attachments: []c16J{nsAtt("ns-absent", nil, false), nsAtt("ns-empty", "", true),
				nsAtt("ns-null", nil, true), nsAtt("ns-explicit", "ns1", true)}},
			Rounds: []c16RoundSpec{{}, {}}})
	}
	// 11. the update strategy of the attachment rule decides what happens to a differing attachment:
	//     core-group kind (ConfigMap) and named-group kind (Gadget) under InPlace, Recreate and OnDelete;
	//     a0 stays, a1 changes, a2 is no longer desired
	gadget := func(name string, size int64) c16J {
		return c16J{"apiVersion": "apps.example.com/v1", "kind": "Gadget", "metadata": c16J{"name": name}, "spec": c16J{"size": size}}
	}
	for _, m := range []string{"InPlace", "Recreate", "OnDelete", "RollingInPlace", "RollingRecreate"} {
		coreRule, namedRule := c16AttConfigMap, c16AttGadget
		coreRule.Method, namedRule.Method = m, m
		out = append(out, &c16Scenario{Family: "corpus",
			Features: []string{"corpus-strategy", "method-" + m, "attachment-core-group", "attachment-named-group", "attachment-differs", "attachment-undesired"},
			Ctl:      c16CtlSpec{Name: "corpus11" + m, Rules: []c16RuleSpec{podRule}, Attachments: []c16AttSpec{coreRule, namedRule}},
			Target:   pod(c16J{"managed": "yes"}, c16J{"decorate": "yes"}, nil),
			Hook: c16HookProgram{Kind: "const", Attachments: []c16J{cm("a0", "", "1"), cm("a1", "", "1"), cm("a2", "", "1"),
				gadget("g0", 1), gadget("g1", 1), gadget("g2", 1)}},
			Hook2: &c16HookProgram{Kind: "const", Attachments: []c16J{cm("a0", "", "1"), cm("a1", "", "changed"),
				gadget("g0", 1), gadget("g1", 2)}},
			Warmup: 1, Rounds: []c16RoundSpec{{}, {}}})
	}
	return out
}

// hand-written convergence cases
func c16ConvergeCorpus() []*c16Scenario {
	podRule := c16PodRule
	podRule.Labels = &c16Sel{Match: map[string]string{"managed": "yes"}}
	pod := c16J{"apiVersion": "v1", "kind": "Pod", "metadata": c16J{"name": "t1", "namespace": "ns1", "uid": c16TargetUID, "generation": int64(1),
		"labels": c16J{"managed": "yes"}}, "spec": c16J{"replicas": int64(2)}}
	cm := func(name, v string) c16J {
		return c16J{"apiVersion": "v1", "kind": "ConfigMap", "metadata": c16J{"name": name}, "data": c16J{"k": v}}
	}
	owned := func(name string, ann c16J, uid string) c16J {
		o := cm(name, "foreign")
		md := o["metadata"].(c16J)
		md["namespace"] = "ns1"
		md["ownerReferences"] = c16A{c16J{"apiVersion": "v1", "kind": "Pod", "name": "t1", "uid": uid, "controller": true, "blockOwnerDeletion": true}}
		if ann != nil {
			md["annotations"] = ann
		}
		return o
	}
	var out []*c16Scenario
	for j, m := range []string{"", "OnDelete", "Recreate", "InPlace"} {
		att := c16AttConfigMap
		att.Method = m
		name := fmt.Sprintf("conv%d", j)
		// look-alikes around a constant hook: a native child of the target without any decorator annotation,
		// one marked by another decorator, one with our marker under another controller
		out = append(out, &c16Scenario{Family: "corpus", Features: []string{"converge", "corpus-converge-lookalikes", "hook-const"},
			Ctl: c16CtlSpec{Name: name, Rules: []c16RuleSpec{podRule}, Attachments: []c16AttSpec{att}}, Target: runtime.DeepCopyJSON(pod),
			Hook: c16HookProgram{Kind: "const", Labels: map[string]*string{"deco": c16Str("1")}, Attachments: []c16J{cm("d0", "1"), cm("d1", "1")}},
			Setup: []c16ExtOp{
				{Op: "create", Data: owned("native-child", nil, c16TargetUID)},
				{Op: "create", Data: owned("other-decorators", c16J{c16Marker: "someone-else"}, c16TargetUID)},
				{Op: "create", Data: owned("other-controllers", c16J{c16Marker: name}, "uid-somebody")},
			},
			Converge: 6})
		// drift and deletion after a warm-up, an ordered hook
		out = append(out, &c16Scenario{Family: "corpus", Features: []string{"converge", "corpus-converge-drift", "hook-ordered"},
			Ctl: c16CtlSpec{Name: name + "o", Rules: []c16RuleSpec{podRule}, Attachments: []c16AttSpec{att}}, Target: runtime.DeepCopyJSON(pod),
			Hook:   c16HookProgram{Kind: "ordered", Attachments: []c16J{cm("d0", "1"), cm("d1", "1"), cm("d2", "1")}},
			Warmup: 2,
			Setup: []c16ExtOp{
				{Op: "edit", APIVersion: "v1", Kind: "ConfigMap", Namespace: "ns1", Name: "d0", Data: c16J{"data": c16J{"k": "drifted"}}},
				{Op: "delete", APIVersion: "v1", Kind: "ConfigMap", Namespace: "ns1", Name: "d1"},
			},
			Converge: 6})
	}
	return out
}

func c16GenerateScenarios(prop string, seed uint64, n int, adv bool) []*c16Scenario {
	root := vh.NewRng(seed ^ 0xc16c16)
	out := c16Corpus()
	if prop == "C01d" {
		out = c16ConvergeCorpus()
	}
	// the C06 leg looks at attachment traffic: weight the update-strategy family
	strategySlots := map[int]bool{2: true, 4: true}
	if prop == "C06d" {
		strategySlots = map[int]bool{0: true, 1: true, 2: true, 3: true, 4: true, 5: true, 7: true, 10: true}
	}
	extra := map[int]string{6: "nulls", 9: "retries", 11: "converge", 12: "failed-write", 1: "shared-fail", 4: "bare", 15: "bare"}
	if prop != "C06d" {
		strategySlots = map[int]bool{2: true} // slot 4 goes to the bare-target family
	}
	switch prop {
	case "C01d":
		extra = map[int]string{}
		for j := 0; j < 16; j++ {
			extra[j] = "converge"
		}
		strategySlots = map[int]bool{}
	case "C13d":
		extra = map[int]string{0: "nulls", 1: "nulls", 3: "nulls", 5: "nulls", 6: "nulls", 7: "hostile", 9: "hostile", 10: "nulls", 2: "hostile"}
		strategySlots = map[int]bool{}
	case "C12d":
		extra = map[int]string{0: "retries", 1: "retries", 3: "retries", 5: "retries", 6: "retries", 7: "hostile", 9: "retries", 10: "faults", 2: "faults"}
		strategySlots = map[int]bool{}
	case "C03d":
		extra = map[int]string{0: "shared", 1: "shared", 3: "shared", 5: "shared", 6: "nulls", 10: "shared", 11: "discovery-loss", 13: "discovery-loss"}
	}
	// the C10 / C17 legs look at the end of a target's life: weight the dying-target family
	dyingSlots := map[int]bool{8: true}
	if prop == "C01d" {
		dyingSlots = map[int]bool{}
	}
	if prop == "C10d" || prop == "C17d" {
		dyingSlots = map[int]bool{0: true, 1: true, 3: true, 5: true, 7: true, 8: true, 10: true}
	}
	for i := 0; len(out) < n || i == 0; i++ {
		sub, s := root.Fork()
		g := &c16Gen{r: sub, adv: adv, prop: prop}
		var sc *c16Scenario
		pick := i % 16
		if adv {
			pick = []int{9, 10, 11, 12, 13, 14, 15, 6, 7, 8}[i%10]
		}
		if !adv && strategySlots[pick] {
			pick = 100
		} else if !adv && dyingSlots[pick] {
			pick = 101
		} else if fam, ok := extra[pick]; ok && !adv {
			switch fam {
			case "nulls":
				pick = 102
			case "retries":
				pick = 103
			case "hostile":
				pick = 14
			case "faults":
				pick = 12
			case "shared":
				pick = 7
			case "bare":
				if pick == 15 && i%32 == 15 {
					break // the odd-key family keeps its share of slot 15
				}
				pick = 108
			case "failed-write":
				pick = 106
			case "shared-fail":
				pick = 107
			case "converge":
				pick = 104
			case "discovery-loss":
				pick = 105
			}
		}
		switch pick {
		case 108:
			sc = g.bare(i, s)
		case 106:
			sc = g.failedWrite(i, s)
		case 107:
			sc = g.sharedFail(i, s)
		case 104:
			sc = g.converge(i, s)
		case 105:
			sc = g.discoveryLoss(i, s)
		case 102:
			sc = g.nulls(i, s)
		case 103:
			sc = g.retries(i, s)
		case 100:
			sc = g.strategy(i, s)
		case 101:
			sc = g.dying(i, s)
		case 0, 1, 2:
			sc = g.basic("basic", i, s)
		case 3, 4:
			sc = g.nochange(i, s)
		case 5, 6:
			sc = g.selectors(i, s)
		case 7, 8, 9:
			sc = g.shared(i, s)
		case 10, 11:
			sc = g.stale(i, s)
		case 12:
			sc = g.faults(i, s)
		case 13:
			sc = g.finalize(i, s)
		case 14:
			sc = g.hostile(i, s)
		default:
			if i%32 == 15 {
				sc = g.keys(i, s)
			} else {
				sc = g.faults(i, s)
			}
		}
		out = append(out, sc)
		if len(out) >= n {
			break
		}
	}
	return out
}
