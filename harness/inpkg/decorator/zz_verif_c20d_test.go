package decorator

// Harness of property C20 (decorator side): drives the REAL
// Metacontroller.Reconcile of this package through histories of create /
// spec-changing update / no-op update / delete events of DecoratorController
// objects.  The flavour independent part is in zz_verif_c20d_world_test.go.

import (
	"context"
	"fmt"
	"strconv"
	"sync"
	"testing"
	"time"
	"unsafe"

	"github.com/go-logr/logr"
	apierrors "k8s.io/apimachinery/pkg/api/errors"
	metav1 "k8s.io/apimachinery/pkg/apis/meta/v1"
	"k8s.io/apimachinery/pkg/runtime/schema"
	"k8s.io/apimachinery/pkg/types"
	k8sjson "k8s.io/apimachinery/pkg/util/json"
	"sigs.k8s.io/controller-runtime/pkg/client"
	"sigs.k8s.io/controller-runtime/pkg/reconcile"

	"metacontroller/pkg/apis/metacontroller/v1alpha1"
	dynamicinformer "metacontroller/pkg/dynamic/informer"
	vh "metacontroller/pkg/internal/verifh"
)

const c20Flavor = "Decorator"
const c20Prop = "C20d"

// a decorator sync without a usable sync hook dereferences a nil executor in a
// hosted worker; such panics are counted process-wide, so these histories run alone
const c20NosyncAlone = true

// c20Client is the k8sClient of the Metacontroller: Get for the one type the
// Reconcile loop reads; every other method is absent (nil embedded interface).
type c20Client struct {
	client.Client
	mu      sync.Mutex
	objs    map[string]*v1alpha1.DecoratorController
	failGet map[string]bool
}

func (c *c20Client) Get(ctx context.Context, key client.ObjectKey, obj client.Object, opts ...client.GetOption) error {
	c.mu.Lock()
	defer c.mu.Unlock()
	switch o := obj.(type) {
	case *v1alpha1.DecoratorController:
		if c.failGet[key.Name] {
			return apierrors.NewInternalError(fmt.Errorf("simulated read failure"))
		}
		if dc, ok := c.objs[key.Name]; ok {
			dc.DeepCopyInto(o)
			return nil
		}
		return apierrors.NewNotFound(schema.GroupResource{Group: "metacontroller.k8s.io", Resource: "decoratorcontrollers"}, key.Name)
	}
	return fmt.Errorf("c20Client: unexpected type %T", obj)
}

// c20Host wraps the real Metacontroller of this package.
type c20Host struct {
	mc  *Metacontroller
	cli *c20Client
}

func c20NewHost(w *cworld, workers int) *c20Host {
	cli := &c20Client{objs: map[string]*v1alpha1.DecoratorController{}, failGet: map[string]bool{}}
	mc := &Metacontroller{
		k8sClient:            cli,
		resources:            w.resources,
		dynClient:            w.dynClient,
		dynInformers:         dynamicinformer.NewSharedInformerFactory(w.dynClient, time.Hour),
		eventRecorder:        vh.NoopRecorder{},
		decoratorControllers: map[string]*decoratorController{},
		numWorkers:           workers,
		logger:               logr.Discard(),
	}
	return &c20Host{mc: mc, cli: cli}
}

// close stops what the host itself started (nothing for a decorator host)
func (h *c20Host) close() {}

func (h *c20Host) reconcile(realName string) error {
	_, err := h.mc.Reconcile(context.Background(), reconcile.Request{NamespacedName: types.NamespacedName{Name: realName}})
	return err
}

func (h *c20Host) factory() *dynamicinformer.SharedInformerFactory { return h.mc.dynInformers }

// instances: real name -> (identity of the instance value, resync marker of its spec)
func (h *c20Host) instances() map[string]c20InstInfo {
	out := map[string]c20InstInfo{}
	for n, c := range h.mc.decoratorControllers {
		info := c20InstInfo{ptr: uintptr(unsafe.Pointer(c)), obj: c}
		if len(c.dc.Spec.Resources) > 0 {
			info.specID = c20SpecID(c.dc.Spec.Resources[0].LabelSelector)
		}
		out[n] = info
	}
	return out
}

func (h *c20Host) setFail(realName string, fail bool) {
	h.cli.mu.Lock()
	defer h.cli.mu.Unlock()
	h.cli.failGet[realName] = fail
}

func (h *c20Host) remove(realName string) {
	h.cli.mu.Lock()
	defer h.cli.mu.Unlock()
	delete(h.cli.objs, realName)
}

// apply stores the controller object built from s (a decorator has no CRD lookup).
func (h *c20Host) apply(realName, short string, s *c20Spec, crd string, touch int, gen int64, uid string) {
	dc := &v1alpha1.DecoratorController{
		TypeMeta:   metav1.TypeMeta{APIVersion: "metacontroller.k8s.io/v1alpha1", Kind: "DecoratorController"},
		ObjectMeta: metav1.ObjectMeta{Name: realName, Labels: map[string]string{"touch": strconv.Itoa(touch)}, Generation: c20Generation(s, gen), UID: types.UID(uid)},
	}
	for _, p := range s.Parents {
		rule := v1alpha1.DecoratorControllerResourceRule{}
		rule.APIVersion = p.APIVersion
		rule.Resource = p.Resource
		rule.LabelSelector = c20Selector(short, s.ID, false)
		rule.IgnoreStatusChanges = c20BoolPtr(s.IgnoreStatus)
		if p.BadSelector {
			// alternately the label and the annotation selector is the unusable one
			if s.ID%2 == 0 {
				rule.LabelSelector = c20Selector(short, s.ID, true)
			} else {
				rule.AnnotationSelector = &v1alpha1.AnnotationSelector{MatchExpressions: c20Selector(short, s.ID, true).MatchExpressions}
			}
		}
		dc.Spec.Resources = append(dc.Spec.Resources, rule)
	}
	dc.Spec.ResyncPeriodSeconds = c20Resync(s)
	for _, k := range s.Children {
		rule := v1alpha1.DecoratorControllerAttachmentRule{}
		rule.APIVersion = k.APIVersion
		rule.Resource = k.Resource
		if k.Strategy != "" {
			rule.UpdateStrategy = &v1alpha1.DecoratorControllerAttachmentUpdateStrategy{Method: c20Method(k.Strategy)}
		}
		dc.Spec.Attachments = append(dc.Spec.Attachments, rule)
	}
	if !s.NoHooks {
		dc.Spec.Hooks = &v1alpha1.DecoratorControllerHooks{
			Sync:      c20Hook(realName, s.ID, "sync", s.Sync),
			Finalize:  c20Hook(realName, s.ID, "finalize", s.Finalize),
			Customize: c20Hook(realName, s.ID, "customize", s.Customize),
		}
	}
	h.cli.mu.Lock()
	defer h.cli.mu.Unlock()
	h.cli.objs[realName] = dc
}

// stopAll stops whatever still runs (end of a case).
func (h *c20Host) stopAll() {
	h.cli.mu.Lock()
	h.cli.objs = map[string]*v1alpha1.DecoratorController{}
	h.cli.failGet = map[string]bool{}
	h.cli.mu.Unlock()
	names := []string{}
	for n := range h.mc.decoratorControllers {
		names = append(names, n)
	}
	for _, n := range names {
		func() {
			defer func() { _ = recover() }()
			_ = h.reconcile(n)
		}()
	}
}

// c20RecordQueue replaces the work queue of a stopped instance by a recording one:
// whatever still enqueues on its behalf becomes visible.
func c20RecordQueue(obj interface{}) *vh.RecQueue {
	q := &vh.RecQueue{}
	obj.(*decoratorController).queue = q
	return q
}

// the hook answer of a sync on behalf of instance by
func c20SyncAnswer(by string) []byte {
	body, _ := k8sjson.Marshal(map[string]interface{}{"status": map[string]interface{}{"by": by}, "attachments": []interface{}{}})
	return body
}

// who wrote: the marker an API write of a sync carries
func c20WriteBy(body interface{}) string {
	m, _ := body.(map[string]interface{})
	st, _ := m["status"].(map[string]interface{})
	by, _ := st["by"].(string)
	return by
}

type c20World = cworld

func c20NewWorld() *c20World { return newWorld() }

// a decorator event carries no CRD class
var c20BadCrds = []string{"missing", "nostatus"}

func TestVerif_C20d(t *testing.T) { c20Main(t) }
