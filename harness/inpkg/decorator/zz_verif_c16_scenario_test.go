package decorator

// C16 harness, part 2: scenarios as data (so that a case replays from its
// JSON), the scripted hook, external edits of the store, and the emission of
// the recorded rounds as Coq terms for Check/Decorator_check.v.

import (
	"encoding/json"
	"fmt"
	"net/http"
	"os"
	"sort"
	"strings"
	"testing"
	"time"

	"k8s.io/apimachinery/pkg/runtime"
	k8sjson "k8s.io/apimachinery/pkg/util/json"

	dynamicinformer "metacontroller/pkg/dynamic/informer"
	vh "metacontroller/pkg/internal/verifh"
	sim "metacontroller/pkg/internal/verifsim"
)

// ---- hook programs ----
type c16HookProgram struct {
	Kind        string             `json:"kind"` // const | raw | ordered | echo
	Labels      map[string]*string `json:"labels"`
	Annotations map[string]*string `json:"annotations"`
	StatusMode  string             `json:"statusMode"` // "" (omitted) | null | echo | const
	Status      c16J               `json:"status"`
	Attachments []c16J             `json:"attachments"`
	Resync      float64            `json:"resync"`
	// the finalize hook's answer
	FinalizeAttachments []c16J `json:"finalizeAttachments"`
	FinalizedIfEmpty    bool   `json:"finalizedIfEmpty"` // finalized := no observed attachments left
	FinalizedAlways     bool   `json:"finalizedAlways"`
	FinalizedOnSync     bool   `json:"finalizedOnSync"` // the sync hook says finalized too
	RawBody             string `json:"rawBody"`
	Code                int    `json:"code"`
	RetryAfter          string `json:"retryAfter"`
	NetErr              bool   `json:"netErr"`
	FailFirst           int    `json:"failFirst"` // the first n calls are answered with FailCode
	FailCode            int    `json:"failCode"`
	seen                int
}

func c16OptMap(m map[string]*string) c16J {
	out := c16J{}
	for k, v := range m {
		if v == nil {
			out[k] = nil
		} else {
			out[k] = *v
		}
	}
	return out
}

func (h *c16HookProgram) answer(url string, req c16J) (int, map[string]string, []byte, bool) {
	if h.NetErr {
		return 0, nil, nil, true
	}
	if h.FailFirst > 0 {
		h.seen++
		if h.seen <= h.FailFirst {
			return h.FailCode, map[string]string{}, []byte(`{}`), false
		}
	}
	code := h.Code
	if code == 0 {
		code = 200
	}
	hdr := map[string]string{}
	if h.RetryAfter != "" {
		hdr["Retry-After"] = h.RetryAfter
	}
	if h.Kind == "raw" {
		return code, hdr, []byte(h.RawBody), false
	}
	resp := c16J{}
	finalizing, _ := req["finalizing"].(bool)
	atts := h.Attachments
	// the observed attachments, by "kind/name"
	observed := map[string]c16J{}
	if cm, ok := req["attachments"].(map[string]interface{}); ok {
		for _, g := range cm {
			if gm, ok := g.(map[string]interface{}); ok {
				for _, o := range gm {
					if om, ok := o.(map[string]interface{}); ok {
						md, _ := om["metadata"].(map[string]interface{})
						observed[fmt.Sprint(om["kind"], "/", md["name"])] = om
					}
				}
			}
		}
	}
	switch h.Kind {
	case "ordered": // StatefulSet-like: one more than is there, in order, up to the full list
		n := len(observed) + 1
		if n < len(atts) {
			atts = atts[:n]
		}
	case "echo": // what is observed comes back verbatim (resourceVersion, uid, bookkeeping and all); the rest from the template
		echoed := []c16J{}
		for _, a := range atts {
			md, _ := a["metadata"].(map[string]interface{})
			if o, ok := observed[fmt.Sprint(a["kind"], "/", md["name"])]; ok {
				echoed = append(echoed, o)
			} else {
				echoed = append(echoed, a)
			}
		}
		atts = echoed
	}
	if finalizing {
		atts = h.FinalizeAttachments
		observed := 0
		if cm, ok := req["attachments"].(map[string]interface{}); ok {
			for _, g := range cm {
				if gm, ok := g.(map[string]interface{}); ok {
					observed += len(gm)
				}
			}
		}
		resp["finalized"] = h.FinalizedAlways || (h.FinalizedIfEmpty && observed == 0)
	} else if h.FinalizedOnSync {
		resp["finalized"] = true
	}
	al := make(c16A, 0, len(atts))
	for _, c := range atts {
		al = append(al, runtime.DeepCopyJSON(c))
	}
	resp["attachments"] = al
	if h.Labels != nil {
		resp["labels"] = c16OptMap(h.Labels)
	}
	if h.Annotations != nil {
		resp["annotations"] = c16OptMap(h.Annotations)
	}
	switch h.StatusMode {
	case "null":
		resp["status"] = nil
	case "echo":
		if obj, ok := req["object"].(map[string]interface{}); ok {
			if st, ok := obj["status"].(map[string]interface{}); ok {
				resp["status"] = runtime.DeepCopyJSON(st)
			}
		}
	case "const":
		if h.Status != nil {
			resp["status"] = runtime.DeepCopyJSON(h.Status)
		} else {
			resp["status"] = c16J{}
		}
	}
	if h.Resync != 0 {
		resp["resyncAfterSeconds"] = h.Resync
	}
	body, _ := k8sjson.Marshal(resp)
	return code, hdr, body, false
}

// ---- external operations on the store (somebody else's writes) ----
type c16ExtOp struct {
	Op         string `json:"op"` // create | delete | edit | meta | status | deleting | owner | unset-status
	APIVersion string `json:"apiVersion"`
	Kind       string `json:"kind"`
	Namespace  string `json:"namespace"`
	Name       string `json:"name"`
	Data       c16J   `json:"data"`
}

func (w *c16World) applyExt(op c16ExtOp) {
	if op.Op == "create" {
		w.srv.Seed(runtime.DeepCopyJSON(op.Data))
		return
	}
	cur := w.srv.GetLive(op.APIVersion, op.Kind, op.Namespace, op.Name)
	md := func(o c16J) c16J {
		m, _ := o["metadata"].(map[string]interface{})
		if m == nil {
			m = c16J{}
			o["metadata"] = m
		}
		return m
	}
	if cur == nil {
		return
	}
	switch op.Op {
	case "delete":
		w.srv.RemoveLive(op.APIVersion, op.Kind, op.Namespace, op.Name)
		return
	case "edit": // merge top-level fields (spec etc.); a new generation
		for k, v := range op.Data {
			cur[k] = runtime.DeepCopyJSONValue(v)
		}
		if g, ok := md(cur)["generation"].(int64); ok {
			md(cur)["generation"] = g + 1
		}
	case "meta": // data: {labels: {k: v|null}, annotations: {k: v|null}, finalizers: [..]} merged into metadata
		for _, field := range []string{"labels", "annotations"} {
			upd, ok := op.Data[field].(map[string]interface{})
			if !ok {
				continue
			}
			m, _ := md(cur)[field].(map[string]interface{})
			if m == nil {
				m = c16J{}
			}
			for k, v := range upd {
				if v == nil {
					delete(m, k)
				} else {
					m[k] = v
				}
			}
			md(cur)[field] = m
		}
		if fs, ok := op.Data["finalizers"].([]interface{}); ok {
			md(cur)["finalizers"] = runtime.DeepCopyJSONValue(fs)
		}
	case "status":
		cur["status"] = runtime.DeepCopyJSONValue(op.Data)
	case "unset-status":
		delete(cur, "status")
	case "deleting":
		md(cur)["deletionTimestamp"] = "2020-01-02T00:00:00Z"
		fs, _ := md(cur)["finalizers"].([]interface{})
		if op.Data != nil {
			if extra, ok := op.Data["finalizers"].([]interface{}); ok {
				fs = append(fs, extra...)
			}
		}
		if len(fs) > 0 {
			md(cur)["finalizers"] = fs
		}
	case "owner": // data: {ownerReferences: [...]} replaces the references
		if refs, ok := op.Data["ownerReferences"]; ok && refs != nil {
			md(cur)["ownerReferences"] = runtime.DeepCopyJSONValue(refs)
		} else {
			delete(md(cur), "ownerReferences")
		}
	default:
		return
	}
	delete(md(cur), "resourceVersion")
	w.srv.Seed(cur)
}

// ---- scenario ----
type c16FaultOn struct {
	Verb      string `json:"verb"`
	Kind      string `json:"kind"`
	AfterHook bool   `json:"afterHook"`
	Nth       int    `json:"nth"` // 0 = first matching request
	Code      int    `json:"code"`
	Reason    string `json:"reason"`
}

type c16RoundSpec struct {
	Key     string                `json:"key"`     // "" = the target's own queue key
	PreOps  []c16ExtOp            `json:"preOps"`  // before the caches are refreshed
	Stale   bool                  `json:"stale"`   // keep the previous cache view
	LateOps []c16ExtOp            `json:"lateOps"` // after the caches are taken, before the sync starts
	MidOps  map[string][]c16ExtOp `json:"midOps"`  // request index -> ops applied just before that request
	FaultOn []c16FaultOn          `json:"faultOn"`
	// SameController: the sync runs on the controller (and informer caches) of the previous round: no watch
	// event has refreshed anything in between
	SameController bool `json:"sameController"`
	// OtherFirst: the second decorator (scenario.other) shares the informers with the decorator under test and
	// syncs the target first, unrecorded; OtherFault, if set, fails its matching request
	OtherFirst bool        `json:"otherFirst"`
	OtherFault *c16FaultOn `json:"otherFault"`
	// HideDiscovery: "apiVersion|resource" entries that discovery stops listing after the controller was
	// built and before the sync (shown again afterwards)
	HideDiscovery []string `json:"hideDiscovery"`
}

type c16Scenario struct {
	Seed      uint64          `json:"seed"`
	Family    string          `json:"family"`
	Ctl       c16CtlSpec      `json:"ctl"`
	Other     *c16CtlSpec     `json:"other"` // a second decorator sharing the target: runs in the warm-up only
	Target    c16J            `json:"target"`
	Objects   []c16J          `json:"objects"` // seeded before the warm-up
	Warmup    int             `json:"warmup"`  // unrecorded syncs of every decorator, so attachments exist as the controllers make them
	Hook      c16HookProgram  `json:"hook"`
	OtherHook *c16HookProgram `json:"otherHook"`
	Hook2     *c16HookProgram `json:"hook2"` // when set: Ctl's program after the warm-up
	Setup     []c16ExtOp      `json:"setup"` // store edits after the warm-up
	Rounds    []c16RoundSpec  `json:"rounds"`
	Features  []string        `json:"features"`
	// Converge > 0: instead of Rounds, fault-free syncs with fresh caches until one sends no write (at most
	// Converge syncs), then one further sync; the store is recorded before the first and after the last
	Converge int `json:"converge"`
}

func c16QueueKey(o c16J) string {
	md, _ := o["metadata"].(map[string]interface{})
	ns, _ := md["namespace"].(string)
	name, _ := md["name"].(string)
	return fmt.Sprintf("%s:%s:%s:%s", o["apiVersion"], o["kind"], ns, name)
}

type c16CaseRec struct {
	Sc      *c16Scenario
	Rounds  []*c16RoundRec
	Initial []c16J // converge scenarios: the store before the first recorded sync
	Final   []c16J // and after the last
}

func c16RoundWrites(r *c16RoundRec) int {
	n := 0
	for _, e := range r.Events {
		if e.API != nil && e.API.Verb != "get" {
			n++
		}
	}
	return n
}

// freezeViews pins LIST to the current live content (a snapshot that later writes do not change).
func (w *c16World) freezeViews() {
	byRes := map[string][]c16J{}
	for _, o := range w.srv.AllLive() {
		k := fmt.Sprint(o["apiVersion"], "|", o["kind"])
		byRes[k] = append(byRes[k], o)
	}
	for _, r := range c16Resources {
		objs := byRes[r.APIVersion()+"|"+r.Kind]
		if objs == nil {
			objs = []c16J{}
		}
		w.srv.SetListView(r.APIVersion(), r.Kind, objs)
	}
}

func c16RunScenario(sc *c16Scenario) (*c16CaseRec, error) {
	refresh := time.Hour
	for _, r := range sc.Rounds {
		if len(r.HideDiscovery) > 0 {
			refresh = 3 * time.Millisecond
		}
	}
	w := c16NewWorldRefresh(refresh)
	defer w.close()
	progOf := func(url string) *c16HookProgram {
		if sc.Other != nil && strings.Contains(url, "/"+sc.Other.Name+"/") {
			if sc.OtherHook != nil {
				return sc.OtherHook
			}
			return &c16HookProgram{}
		}
		return &sc.Hook
	}
	c16HookTransport.Set(func(url string, hdr http.Header, req map[string]interface{}) (int, map[string]string, []byte, bool) {
		code, h, body, ne := progOf(url).answer(url, req)
		if h == nil {
			h = map[string]string{}
		}
		h["X-Verif-Seq"] = fmt.Sprint(len(w.srv.Log()))
		return code, h, body, ne
	})
	w.srv.Seed(runtime.DeepCopyJSON(sc.Target))
	for _, o := range sc.Objects {
		w.srv.Seed(runtime.DeepCopyJSON(o))
	}
	key := c16QueueKey(sc.Target)
	for i := 0; i < sc.Warmup; i++ {
		for _, ctl := range []*c16CtlSpec{sc.Other, &sc.Ctl} {
			if ctl == nil {
				continue
			}
			w.freezeViews()
			b, err := w.c16Build(ctl)
			if err != nil {
				return nil, err
			}
			func() {
				defer func() { recover() }()
				_ = b.dc.sync(key)
			}()
			b.close()
		}
	}
	for _, op := range sc.Setup {
		w.applyExt(op)
	}
	if sc.Hook2 != nil {
		sc.Hook, sc.Hook2 = *sc.Hook2, nil
	}
	out := &c16CaseRec{Sc: sc}
	w.freezeViews()
	if sc.Converge > 0 {
		out.Initial = w.srv.AllLive()
		quiet := false
		for i := 0; i < sc.Converge+1; i++ {
			w.freezeViews()
			b, err := w.c16Build(&sc.Ctl)
			if err != nil {
				return nil, err
			}
			rec := w.runSync(&sc.Ctl, b, key)
			b.close()
			out.Rounds = append(out.Rounds, rec)
			if quiet {
				break // that was the further sync after the first quiet one
			}
			if c16RoundWrites(rec) == 0 && rec.Result == "done" {
				quiet = true
			} else if i == sc.Converge-1 {
				break // the bound is exhausted
			}
		}
		out.Final = w.srv.AllLive()
		return out, nil
	}
	var prev *c16Built
	defer func() {
		if prev != nil {
			prev.close()
		}
	}()
	for ri, r := range sc.Rounds {
		for _, op := range r.PreOps {
			w.applyExt(op)
		}
		if !r.Stale {
			w.freezeViews()
		}
		var b *c16Built
		var other *c16Built
		var err error
		switch {
		case r.SameController && prev != nil:
			b, prev = prev, nil
		case r.OtherFirst && sc.Other != nil:
			factory := dynamicinformer.NewSharedInformerFactory(w.dynClient, time.Hour)
			if b, err = w.c16BuildShared(&sc.Ctl, factory); err != nil {
				return nil, err
			}
			if other, err = w.c16BuildShared(sc.Other, factory); err != nil {
				return nil, err
			}
		default:
			if b, err = w.c16Build(&sc.Ctl); err != nil {
				return nil, err
			}
		}
		if prev != nil {
			prev.close()
			prev = nil
		}
		if other != nil {
			// the co-decorator's sync, from the shared caches; its write may be made to fail
			if fo := r.OtherFault; fo != nil {
				hit := 0
				w.srv.SetBeforeRequest(func(n int, verb, apiVersion, kind, ns, name string) *sim.Fault {
					if fo.Verb == verb && fo.Kind == kind {
						hit++
						if hit-1 == fo.Nth {
							return &sim.Fault{Code: fo.Code, Reason: fo.Reason}
						}
					}
					return nil
				})
			}
			func() {
				defer func() { recover() }()
				_ = other.dc.sync(key)
			}()
			w.srv.SetBeforeRequest(nil)
		}
		for _, op := range r.LateOps {
			w.applyExt(op)
		}
		seen := make([]int, len(r.FaultOn))
		w.srv.SetBeforeRequest(func(n int, verb, apiVersion, kind, ns, name string) *sim.Fault {
			idx := fmt.Sprint(n)
			for _, op := range r.MidOps[idx] {
				w.applyExt(op)
			}
			for fi, fo := range r.FaultOn {
				if fo.Verb == verb && fo.Kind == kind && (!fo.AfterHook || len(c16HookTransport.Calls()) > 0) {
					seen[fi]++
					if seen[fi]-1 == fo.Nth {
						return &sim.Fault{Code: fo.Code, Reason: fo.Reason}
					}
				}
			}
			return nil
		})
		k := key
		if r.Key != "" {
			k = r.Key
		}
		hideAll := func(hidden bool) error {
			for _, h := range r.HideDiscovery {
				parts := strings.SplitN(h, "|", 2)
				if len(parts) == 2 && !w.hideFromDiscovery(parts[0], parts[1], hidden) {
					return fmt.Errorf("the resource map never noticed that discovery changed for %s", h)
				}
			}
			return nil
		}
		if err := hideAll(true); err != nil {
			return nil, err
		}
		rec := w.runSync(&sc.Ctl, b, k)
		w.srv.SetBeforeRequest(nil)
		if other != nil {
			other.close()
		}
		if ri+1 < len(sc.Rounds) && sc.Rounds[ri+1].SameController {
			prev = b // kept alive for the next round
		} else {
			b.close()
		}
		if err := hideAll(false); err != nil {
			return nil, err
		}
		out.Rounds = append(out.Rounds, rec)
	}
	return out, nil
}

// ---- emission ----
func c16CoqVerb(v string) string {
	switch v {
	case "get":
		return "VGet"
	case "create":
		return "VCreate"
	case "update":
		return "VUpdate"
	case "updatestatus":
		return "VUpdateStatus"
	case "delete":
		return "VDelete"
	case "patch-json":
		return "VPatchJson"
	case "patch-apply":
		return "VPatchApply"
	}
	return "VGet"
}

func c16CoqEclass(reason string) string {
	switch reason {
	case "NotFound":
		return "ENotFound"
	case "Conflict":
		return "EConflict"
	case "AlreadyExists":
		return "EAlreadyExists"
	case "Gone":
		return "EGone"
	case "Invalid":
		return "EInvalid"
	}
	return "EOther"
}

func c16CoqOptJSON(o map[string]interface{}) string {
	if o == nil {
		return "JNull"
	}
	return vh.MustCoqJSON(map[string]interface{}(o))
}

// a typed object written through the dynamic client carries "creationTimestamp": null
func c16StripNullCreation(v interface{}) interface{} {
	m, ok := v.(map[string]interface{})
	if !ok {
		return v
	}
	md, ok := m["metadata"].(map[string]interface{})
	if !ok {
		return v
	}
	if ct, present := md["creationTimestamp"]; present && ct == nil {
		md2 := map[string]interface{}{}
		for k, x := range md {
			if k != "creationTimestamp" {
				md2[k] = x
			}
		}
		m2 := map[string]interface{}{}
		for k, x := range m {
			m2[k] = x
		}
		m2["metadata"] = md2
		return m2
	}
	return v
}

func c16RetryAfterSeconds(s string) int64 {
	var n int64
	fmt.Sscanf(s, "%d", &n)
	return n
}

func c16CoqEvent(e c16Event) string {
	if e.API != nil {
		a := e.API
		body := "JNull"
		if a.Body != nil && a.Verb != "delete" {
			body = vh.MustCoqJSON(c16StripNullCreation(a.Body))
		}
		call := fmt.Sprintf("(CApi (mkRq %s %s %s %s %s %s %s))", c16CoqVerb(a.Verb),
			vh.MustCoqString(c16ResKey(a.Resource, a.APIVersion)), vh.MustCoqString(a.Namespace), vh.MustCoqString(a.Name),
			body, vh.MustCoqString(a.UIDPrecondition), vh.MustCoqString(a.Propagation))
		var ans string
		if a.Code >= 200 && a.Code < 300 {
			ans = "(AObj " + vh.MustCoqJSON(a.Resp) + ")"
		} else {
			ans = "(AFail " + c16CoqEclass(a.Reason) + ")"
		}
		return fmt.Sprintf("(mkEv %s %s %s %s)", call, ans, c16CoqOptJSON(a.Pre), c16CoqOptJSON(a.Post))
	}
	h := e.Hook
	kind := "HSync"
	if strings.HasSuffix(h.URL, "/finalize") {
		kind = "HFinalize"
	} else if strings.HasSuffix(h.URL, "/customize") {
		kind = "HCustomize"
	}
	req, _ := h.Req.(map[string]interface{})
	reqNoCtl := c16J{}
	for k, v := range req {
		if k != "controller" {
			reqNoCtl[k] = v
		}
	}
	var ans string
	switch {
	case h.NetErr:
		ans = "AHookErr"
	case h.Code == 429:
		ans = fmt.Sprintf("(AHook429 %s)", vh.CoqZ(c16RetryAfterSeconds(h.RespHdr["Retry-After"])))
	case h.Code != 200:
		ans = "AHookErr"
	default:
		var body interface{}
		if err := k8sjson.Unmarshal(h.Resp, &body); err != nil {
			ans = "AHookErr"
		} else if s, err := vh.CoqJSON(body); err != nil {
			ans = "AHookErr"
		} else {
			ans = "(AHook " + s + ")"
		}
	}
	return fmt.Sprintf("(mkEv (CHook %s %s) %s JNull JNull)", kind, vh.MustCoqJSON(map[string]interface{}(reqNoCtl)), ans)
}

func c16CoqOp(op string) string {
	switch op {
	case "In":
		return "OpIn"
	case "NotIn":
		return "OpNotIn"
	case "Exists":
		return "OpExists"
	case "DoesNotExist":
		return "OpDoesNotExist"
	}
	return "OpUnknown"
}

// the internal selector LabelSelectorAsSelector builds; an unset selector is Everything
func c16CoqSel(s *c16Sel) string {
	if s == nil {
		return "sel_everything"
	}
	keys := make([]string, 0, len(s.Match))
	for k := range s.Match {
		keys = append(keys, k)
	}
	sort.Strings(keys)
	parts := []string{}
	for _, k := range keys {
		parts = append(parts, fmt.Sprintf("mkReq %s OpIn [%s]", vh.MustCoqString(k), vh.MustCoqString(s.Match[k])))
	}
	for _, e := range s.Exprs {
		parts = append(parts, fmt.Sprintf("mkReq %s %s %s", vh.MustCoqString(e.Key), c16CoqOp(e.Op), vh.CoqStringList(e.Values)))
	}
	return "(SelReqs [" + strings.Join(parts, "; ") + "])"
}

func c16CoqKid(apiVersion, resource, kind string, namespaced bool, method string) string {
	return fmt.Sprintf("(mkChild %s %s %s %s %s)", vh.MustCoqString(apiVersion), vh.MustCoqString(resource),
		vh.MustCoqString(kind), vh.CoqBool(namespaced), vh.MustCoqString(method))
}

func c16CoqCfg(s *c16CtlSpec) string {
	rules := []string{}
	for _, r := range s.Rules {
		rules = append(rules, fmt.Sprintf("(mkDRule %s %s %s %s %s %s %s)", vh.MustCoqString(r.APIVersion), vh.MustCoqString(r.Kind),
			vh.MustCoqString(r.Resource), vh.CoqBool(r.Namespaced), vh.CoqBool(r.HasStatus), c16CoqSel(r.Labels), c16CoqSel(r.Annotations)))
	}
	atts := []string{}
	for _, a := range s.Attachments {
		atts = append(atts, c16CoqKid(a.APIVersion, a.Resource, a.Kind, a.Namespaced, a.Method))
	}
	known := []string{}
	for _, r := range c16Resources {
		known = append(known, c16CoqKid(r.APIVersion(), r.Resource, r.Kind, r.Namespaced, ""))
	}
	return fmt.Sprintf("(mkDCfg %s [%s] [%s] %s %s [%s])", vh.MustCoqString(s.Name), strings.Join(rules, "; "),
		strings.Join(atts, "; "), vh.CoqBool(!s.NoSync), vh.CoqBool(s.Finalize), strings.Join(known, "; "))
}

func c16CoqObjGroups(m map[string][]c16J) string {
	keys := make([]string, 0, len(m))
	for k := range m {
		keys = append(keys, k)
	}
	sort.Strings(keys)
	groups := []string{}
	for _, k := range keys {
		objs := []string{}
		for _, o := range m[k] {
			objs = append(objs, vh.MustCoqJSON(map[string]interface{}(o)))
		}
		groups = append(groups, fmt.Sprintf("(%s, [%s])", vh.MustCoqString(k), strings.Join(objs, "; ")))
	}
	return "[" + strings.Join(groups, "; ") + "]"
}

func c16CoqRound(r *c16RoundRec) string {
	evs := []string{}
	for _, e := range r.Events {
		evs = append(evs, c16CoqEvent(e))
	}
	res := "SDone"
	switch r.Result {
	case "err":
		res = "SErr"
	case "panic":
		res = "SPanic"
	}
	qs := []string{}
	for _, op := range r.Queue {
		qs = append(qs, fmt.Sprintf("(%s, %s, %s)", vh.MustCoqString(op.Op), vh.MustCoqString(op.Key), vh.CoqZ(int64(op.Delay/time.Millisecond))))
	}
	return fmt.Sprintf("(mkDRound (mkDCache %s %s %s) [%s] %s [%s] %s)", vh.MustCoqString(r.Key), c16CoqObjGroups(r.CacheParents),
		c16CoqObjGroups(r.CacheChildren), strings.Join(evs, ";\n  "), res, strings.Join(qs, "; "), vh.MustCoqString(r.CacheMutated))
}

func c16CoqCase(c *c16CaseRec) string {
	rounds := []string{}
	for _, r := range c.Rounds {
		rounds = append(rounds, c16CoqRound(r))
	}
	objs := func(l []c16J) string {
		parts := []string{}
		for _, o := range l {
			parts = append(parts, vh.MustCoqJSON(map[string]interface{}(o)))
		}
		return "[" + strings.Join(parts, "; ") + "]"
	}
	return fmt.Sprintf("mkDCase %s [%s] %s %s %s", c16CoqCfg(&c.Sc.Ctl), strings.Join(rounds, ";\n "), vh.CoqStringList(c.Sc.Features),
		objs(c.Initial), objs(c.Final))
}

// ---- the test entry point ----
func TestVerif_C16(t *testing.T) {
	env := vh.GetEnv()
	if env.OutDir == "" {
		t.Skip("VERIF_OUT not set")
	}
	// the same scenarios and records serve two properties: C16 (default) and the decorator leg of C06
	prop, checkFn := "C16", "C16_check"
	switch os.Getenv("VERIF_PROP") {
	case "C06d", "C10d", "C17d", "C03d", "C12d", "C13d", "C01d":
		prop = os.Getenv("VERIF_PROP")
		checkFn = prop + "_check"
	}
	header := "From MC Require Import Check.Decorator_check.\nOpen Scope string_scope.\n"
	w, err := vh.NewCaseWriter(env.OutDir, prop, header, 40)
	if err != nil {
		t.Fatal(err)
	}
	var scs []*c16Scenario
	if env.Replay != "" {
		data, err := os.ReadFile(env.Replay)
		if err != nil {
			t.Fatal(err)
		}
		var rf struct {
			Case struct {
				Scenario *c16Scenario `json:"scenario"`
			} `json:"case"`
		}
		if err := json.Unmarshal(data, &rf); err != nil || rf.Case.Scenario == nil {
			t.Fatalf("cannot read replay: %v", err)
		}
		c16NormalizeScenario(rf.Case.Scenario)
		scs = append(scs, rf.Case.Scenario)
	} else {
		n := env.N
		if n == 0 {
			n = 100
		}
		scs = c16GenerateScenarios(prop, env.Seed, n, os.Getenv("VERIF_ADV") == "1")
	}
	for i, sc := range scs {
		replayCopy := c16CloneScenario(sc) // the run consumes Hook2
		rec, err := c16RunScenario(sc)
		if err != nil {
			t.Fatalf("scenario %d (%s): %v", i, sc.Family, err)
		}
		id := fmt.Sprintf("s%d", i)
		if c16WritesExplicitNullStatus(rec) {
			sc.Features = append(sc.Features, "writes-explicit-null-status")
		}
		replay := c16J{"scenario": replayCopy, "features": sc.Features, "results": c16RoundResults(rec), "trace": c16TraceSummary(rec)}
		if err := w.Add(id, c16CoqCase(rec), checkFn, replay); err != nil {
			t.Fatal(err)
		}
		w.Count("family-" + sc.Family)
		for _, f := range sc.Features {
			w.Count("feature-" + f)
			if strings.HasPrefix(f, "method-") || strings.HasPrefix(f, "attachment-") {
				w.Count(f)
			}
		}
		// an unmarked object controlled by the target exists, and a hook was asked (and answered) in a recorded round
		for _, f := range sc.Features {
			if f == "unmarked-controlled-lookalike" {
				for _, r := range rec.Rounds {
					asked := false
					for _, e := range r.Events {
						if e.Hook != nil && e.Hook.Code == 200 && !e.Hook.NetErr {
							asked = true
						}
					}
					if asked {
						w.Count("unmarked-lookalike-exposed")
						break
					}
				}
			}
		}
		writes := 0
		for _, r := range rec.Rounds {
			w.Count("result-" + r.Result)
			if r.CacheMutated != "" {
				w.Count("cache-mutated-" + r.CacheMutated)
			}
			hooked := false
			for _, e := range r.Events {
				if e.API != nil {
					w.Count("verb-" + e.API.Verb)
					if e.API.Verb != "get" && e.API.Code < 300 {
						writes++
					}
					if e.API.Injected {
						w.Count("fault-reached")
					}
					if hooked && (e.API.Kind == "Pod" || e.API.Kind == "ClusterWidget") && e.API.Verb != "get" {
						w.Count("target-write-after-hook")
					}
				} else {
					hooked = true
					w.Count("hook-call")
				}
			}
			if !hooked {
				w.Count("round-without-hook")
			}
		}
		if writes > 0 {
			w.NonTrivial(vh.Sig(sc.Family, strings.Join(sc.Features, ","), c16Signature(rec)))
		}
	}
	if err := w.Close(nil); err != nil {
		t.Fatal(err)
	}
}

// regression tag: an accepted write to a target that had no status key leaves an explicit "status": null
// behind (repaired in the decorator; the tag must no longer occur, and never without a PROPFAIL)
func c16WritesExplicitNullStatus(c *c16CaseRec) bool {
	for _, r := range c.Rounds {
		for _, e := range r.Events {
			if e.API == nil || e.API.Code >= 300 || (e.API.Verb != "update" && e.API.Verb != "updatestatus") {
				continue
			}
			if e.API.Kind != "Pod" && e.API.Kind != "ClusterWidget" {
				continue
			}
			_, had := e.API.Pre["status"]
			v, has := e.API.Post["status"]
			if !had && has && v == nil {
				return true
			}
		}
	}
	return false
}

func c16CloneScenario(sc *c16Scenario) *c16Scenario {
	data, _ := json.Marshal(sc)
	out := &c16Scenario{}
	_ = json.Unmarshal(data, out)
	return out
}

// a scenario read back from JSON holds float64 numbers; the store wants int64 for whole numbers
func c16NormalizeScenario(sc *c16Scenario) {
	data, _ := json.Marshal(sc)
	fresh := &c16Scenario{}
	dec := func(dst interface{}, src interface{}) {
		b, _ := json.Marshal(src)
		_ = k8sjson.Unmarshal(b, dst)
	}
	_ = json.Unmarshal(data, fresh)
	dec(&sc.Target, fresh.Target)
	for i := range sc.Objects {
		dec(&sc.Objects[i], fresh.Objects[i])
	}
	fixProg := func(h *c16HookProgram) {
		if h == nil {
			return
		}
		if h.Status != nil {
			dec(&h.Status, h.Status)
		}
		for i := range h.Attachments {
			dec(&h.Attachments[i], h.Attachments[i])
		}
		for i := range h.FinalizeAttachments {
			dec(&h.FinalizeAttachments[i], h.FinalizeAttachments[i])
		}
	}
	fixProg(&sc.Hook)
	fixProg(sc.OtherHook)
	fixProg(sc.Hook2)
	fixOps := func(ops []c16ExtOp) {
		for i := range ops {
			if ops[i].Data != nil {
				dec(&ops[i].Data, ops[i].Data)
			}
		}
	}
	fixOps(sc.Setup)
	for i := range sc.Rounds {
		fixOps(sc.Rounds[i].PreOps)
		fixOps(sc.Rounds[i].LateOps)
		for k := range sc.Rounds[i].MidOps {
			fixOps(sc.Rounds[i].MidOps[k])
		}
	}
}

// one readable line per event, for the replay files
func c16TraceSummary(c *c16CaseRec) [][]string {
	var out [][]string
	for _, r := range c.Rounds {
		var lines []string
		for _, e := range r.Events {
			if e.API != nil {
				a := e.API
				lines = append(lines, fmt.Sprintf("%s %s %s/%s -> %d %s", a.Verb, a.Kind, a.Namespace, a.Name, a.Code, a.Reason))
			} else {
				lines = append(lines, fmt.Sprintf("hook %s -> %d %s", e.Hook.URL, e.Hook.Code, string(e.Hook.Resp)))
			}
		}
		lines = append(lines, "=> "+r.Result+" "+r.PanicMsg)
		out = append(out, lines)
	}
	return out
}

func c16RoundResults(c *c16CaseRec) []string {
	out := []string{}
	for _, r := range c.Rounds {
		s := r.Result
		if r.PanicMsg != "" {
			s += ": " + r.PanicMsg
		}
		out = append(out, s)
	}
	return out
}

// the projected trace shape (verbs, kinds and outcomes), names abstracted away
func c16Signature(c *c16CaseRec) string {
	var b strings.Builder
	for _, r := range c.Rounds {
		b.WriteString("[")
		for _, e := range r.Events {
			if e.API != nil {
				fmt.Fprintf(&b, "%s:%s:%d,", e.API.Verb, e.API.Kind, e.API.Code)
			} else {
				fmt.Fprintf(&b, "hook:%d,", e.Hook.Code)
			}
		}
		b.WriteString(r.Result + "]")
	}
	return b.String()
}
