package metrics

// Harness of property C20, hook client metrics leg: every (re)start of a
// hosted controller builds its webhook clients through
// InstrumentClientWithConstLabels.  For any sequence of registrations of
// (controller, hook type, url) triples -- repeats included, with any amount of
// time in between -- registration must never fail and must hand out the
// collector of the first registration.
//
// Wall-clock time is not waited for.  Two legs run every sequence:
//   production-cache: the package's own metricsCache object (20 min default
//     life); after each registration the entry of the key is inspected: it must
//     be stored without an expiry time.
//   scaled-cache: a cache of the same construction whose default life is one
//     nanosecond, so that "any amount of time passes" (MElapse) costs nothing:
//     whatever was stored with a finite life is gone at the next look-up.

import (
	"encoding/json"
	"fmt"
	"net/http"
	"os"
	"reflect"
	"strings"
	"testing"
	"time"
	"unsafe"

	"github.com/prometheus/client_golang/prometheus"
	"zgo.at/zcache/v2"

	"metacontroller/pkg/cache"
	"metacontroller/pkg/controller/common"
	vh "metacontroller/pkg/internal/verifh"
)

type c20mStep struct {
	Op   string `json:"op"` // reg | elapse
	Name string `json:"name,omitempty"`
	Hook string `json:"hook,omitempty"` // sync | finalize | customize
	URL  string `json:"url,omitempty"`
	Type string `json:"type,omitempty"` // CompositeController | DecoratorController (not part of the key)
}

type c20mCase struct {
	Leg    string     `json:"leg"` // production-cache | scaled-cache
	Family string     `json:"family"`
	Steps  []c20mStep `json:"steps"`
}

type c20mObs struct {
	Outcome   string
	Collector int
	Expires   bool
	Cached    bool
}

// the zcache inside a metacontroller/pkg/cache.Cache
func c20mInner(c *cache.Cache[string, *cachedInstrumentation]) *zcache.Cache[string, *cachedInstrumentation] {
	f := reflect.ValueOf(c).Elem().FieldByName("cache")
	return *(**zcache.Cache[string, *cachedInstrumentation])(unsafe.Pointer(f.UnsafeAddr()))
}

var c20mSerial int

func c20mRun(c *c20mCase) []c20mObs {
	oldCache, oldRegisterer := metricsCache, registerer
	defer func() { metricsCache, registerer = oldCache, oldRegisterer }()
	registerer = prometheus.NewRegistry()
	c20mSerial++
	prefix := ""
	if c.Leg == "scaled-cache" {
		metricsCache = cache.New[string, *cachedInstrumentation](time.Nanosecond, 0)
	} else {
		// the production cache object lives as long as the process: keys are made unique per case
		prefix = fmt.Sprintf("c20m%d-", c20mSerial)
	}
	zc := c20mInner(metricsCache)
	ids := map[*cachedInstrumentation]int{}
	var out []c20mObs
	for _, st := range c.Steps {
		o := c20mObs{Collector: -1}
		if st.Op == "elapse" {
			t0 := time.Now().UnixNano()
			for time.Now().UnixNano() == t0 {
			}
			zc.DeleteExpired()
			o.Outcome = "ok"
			out = append(out, o)
			continue
		}
		name := prefix + st.Name
		key := fmt.Sprintf("%s/%s/%s", name, st.Hook, st.URL)
		func() {
			defer func() {
				if p := recover(); p != nil {
					o.Outcome = "panic"
				}
			}()
			cl, err := InstrumentClientWithConstLabels(name, common.ControllerType(st.Type), common.HookType(st.Hook), &http.Client{}, st.URL)
			if err != nil || cl == nil {
				o.Outcome = "error"
			} else {
				o.Outcome = "ok"
			}
		}()
		inst, expired, ok := zc.GetStale(key)
		o.Cached = ok
		if ok && o.Outcome == "ok" {
			if _, seen := ids[inst]; !seen {
				ids[inst] = len(ids)
			}
			o.Collector = ids[inst]
		}
		if c.Leg == "production-cache" {
			// how the entry was stored
			if item, has := zc.Items()[key]; has {
				o.Expires = item.Expiration > 0
			} else if ok {
				o.Expires = expired
			}
		}
		out = append(out, o)
	}
	return out
}

func c20mCoq(c *c20mCase, obs []c20mObs) string {
	steps := make([]string, len(c.Steps))
	for i, st := range c.Steps {
		o := obs[i]
		outc := map[string]string{"ok": "ROk", "error": "RErr", "panic": "RPanic"}[o.Outcome]
		ev := "MElapse"
		if st.Op == "reg" {
			ev = "(MReg " + vh.MustCoqString(fmt.Sprintf("%s/%s/%s", st.Name, st.Hook, st.URL)) + ")"
		}
		steps[i] = fmt.Sprintf("(%s, mkMObs %s %s %s %s)", ev, outc, vh.CoqZ(int64(o.Collector)), vh.CoqBool(o.Expires), vh.CoqBool(o.Cached))
	}
	return "(mkC20m [" + strings.Join(steps, "; ") + "])"
}

// ---- generators ----

var c20mHooks = []string{"sync", "finalize", "customize"}
var c20mTypes = []string{"CompositeController", "DecoratorController"}

func c20mReg(name, hook, url, typ string) c20mStep {
	return c20mStep{Op: "reg", Name: name, Hook: hook, URL: url, Type: typ}
}

// start: what one start of a hosted controller registers
func c20mStart(name, url, typ string, hooks int) []c20mStep {
	var out []c20mStep
	for _, h := range c20mHooks[:hooks] {
		out = append(out, c20mReg(name, h, url, typ))
	}
	return out
}

func c20mSequences(seed uint64, n int, tier string, adv bool) [][]c20mStep {
	var out [][]c20mStep
	elapse := c20mStep{Op: "elapse"}
	cat := func(parts ...[]c20mStep) []c20mStep {
		var l []c20mStep
		for _, p := range parts {
			l = append(l, p...)
		}
		return l
	}
	e := []c20mStep{elapse}
	// corpus: start, quick restart, long run, restart; url change and back; same name as composite and decorator
	out = append(out,
		cat(c20mStart("a", "http://h/x", c20mTypes[0], 3), c20mStart("a", "http://h/x", c20mTypes[0], 3), e, c20mStart("a", "http://h/x", c20mTypes[0], 3)),
		cat(c20mStart("a", "http://h/x", c20mTypes[0], 1), e, e, c20mStart("a", "http://h/x", c20mTypes[0], 1), e, c20mStart("a", "http://h/x", c20mTypes[0], 1)),
		cat(c20mStart("a", "http://h/x", c20mTypes[0], 2), e, c20mStart("a", "http://h/y", c20mTypes[0], 2), e, c20mStart("a", "http://h/x", c20mTypes[0], 2)),
		cat(c20mStart("a", "http://h/x", c20mTypes[0], 1), c20mStart("a", "http://h/x", c20mTypes[1], 1), e, c20mStart("a", "http://h/x", c20mTypes[1], 1), c20mStart("b", "http://h/x", c20mTypes[1], 1)),
		cat(c20mStart("a", "", c20mTypes[1], 3), e, c20mStart("a", "", c20mTypes[1], 3)),
	)
	// every sequence over a small alphabet
	alphabet := []c20mStep{c20mReg("a", "sync", "http://h/x", c20mTypes[0]), c20mReg("b", "sync", "http://h/x", c20mTypes[0]),
		c20mReg("a", "sync", "http://h/x", c20mTypes[1]), elapse}
	maxLen := 4
	if tier == "thorough" {
		maxLen = 5
	}
	var rec func(prefix []c20mStep)
	rec = func(prefix []c20mStep) {
		if len(prefix) > 0 {
			out = append(out, append([]c20mStep(nil), prefix...))
		}
		if len(prefix) == maxLen {
			return
		}
		for _, a := range alphabet {
			rec(append(prefix, a))
		}
	}
	rec(nil)
	// seeded histories over a larger pool
	rng := vh.NewRng(seed ^ 0xc20d)
	names := []string{"a", "b", "c"}
	urls := []string{"http://h/x", "http://h/y", "http://svc.ns:80/sync"}
	for i := 0; i < n; i++ {
		sub, _ := rng.Fork()
		ln := 3 + sub.Intn(10)
		var l []c20mStep
		for j := 0; j < ln; j++ {
			switch {
			case sub.Chance(1, 4):
				l = append(l, elapse)
			case sub.Chance(1, 4) || adv:
				l = append(l, c20mStart(sub.Pick(names[:2]), sub.Pick(urls[:2]), sub.Pick(c20mTypes), 1+sub.Intn(3))...)
				if adv {
					l = append(l, elapse)
				}
			default:
				l = append(l, c20mReg(sub.Pick(names), sub.Pick(c20mHooks), sub.Pick(urls), sub.Pick(c20mTypes)))
			}
		}
		out = append(out, l)
	}
	return out
}

func TestVerif_C20m(t *testing.T) {
	env := vh.GetEnv()
	if env.OutDir == "" {
		t.Skip("VERIF_OUT not set")
	}
	header := "From MC Require Import Check.C20_check.\nOpen Scope string_scope.\n"
	w, err := vh.NewCaseWriter(env.OutDir, "C20m", header, 200)
	if err != nil {
		t.Fatal(err)
	}
	var cases []*c20mCase
	if env.Replay != "" {
		data, err := os.ReadFile(env.Replay)
		if err != nil {
			t.Fatal(err)
		}
		var rf struct {
			Case struct {
				Case *c20mCase `json:"case"`
			} `json:"case"`
		}
		if err := json.Unmarshal(data, &rf); err != nil || rf.Case.Case == nil {
			t.Fatalf("cannot read replay: %v", err)
		}
		cases = append(cases, rf.Case.Case)
	} else {
		n := env.N
		if n == 0 {
			n = 100
		}
		for i, s := range c20mSequences(env.Seed, n, env.Tier, os.Getenv("VERIF_ADV") == "1") {
			family := "seeded"
			if i < 5 {
				family = "corpus"
			} else if len(s) <= 5 && i < 5+1364 {
				family = "enum"
			}
			for _, leg := range []string{"production-cache", "scaled-cache"} {
				cases = append(cases, &c20mCase{Leg: leg, Family: family, Steps: s})
			}
		}
	}
	for i, c := range cases {
		obs := c20mRun(c)
		id := fmt.Sprintf("m%d", i)
		outcomes := make([]string, len(obs))
		ops := make([]string, len(obs))
		repeats, elapsed := 0, false
		first := map[string]int{}
		for j, o := range obs {
			outcomes[j] = o.Outcome
			st := c.Steps[j]
			ops[j] = st.Op[:1] + st.Name + st.Hook + st.URL + st.Type[:min(1, len(st.Type))]
			w.Count("outcome-" + o.Outcome)
			w.Count("op-" + st.Op)
			if st.Op == "elapse" {
				elapsed = true
				continue
			}
			k := st.Name + "/" + st.Hook + "/" + st.URL
			if _, seen := first[k]; seen {
				repeats++
				if elapsed {
					w.Count("repeat-after-elapse")
				}
			} else {
				first[k] = j
			}
		}
		features := []string{c.Leg}
		replay := map[string]interface{}{"case": c, "features": features, "outcomes": outcomes}
		if err := w.Add(id, c20mCoq(c, obs), "C20m_check", replay); err != nil {
			t.Fatal(err)
		}
		w.Count("leg-" + c.Leg)
		w.Count("family-" + c.Family)
		// non-trivial: some key is registered again
		if repeats > 0 {
			w.NonTrivial(c.Leg + "|" + strings.Join(ops, ","))
		}
	}
	if err := w.Close(nil); err != nil {
		t.Fatal(err)
	}
}
