package common

import (
	"fmt"
	"reflect"
	"testing"

	"k8s.io/apimachinery/pkg/apis/meta/v1/unstructured"
	"k8s.io/apimachinery/pkg/runtime"
	k8sjson "k8s.io/apimachinery/pkg/util/json"

	vh "metacontroller/pkg/internal/verifh"
)

type uOutcome struct {
	kind string
	val  map[string]interface{}
}

func runApplyUpdate(orig, update map[string]interface{}) (out uOutcome, desiredAfter map[string]interface{}) {
	defer func() {
		if r := recover(); r != nil {
			out = uOutcome{kind: "panic"}
		}
	}()
	o := &unstructured.Unstructured{Object: orig}
	u := &unstructured.Unstructured{Object: update}
	n, err := ApplyUpdate(o, u)
	if err != nil {
		return uOutcome{kind: "err"}, u.Object
	}
	return uOutcome{kind: "ok", val: vh.Normalize(n.Object).(map[string]interface{})}, u.Object
}

func coqU(o uOutcome) string {
	switch o.kind {
	case "ok":
		return "(Ok " + vh.MustCoqJSON(map[string]interface{}(o.val)) + ")"
	case "err":
		return "Err"
	}
	return "Panic"
}

// TestVerif_C05u drives the real ApplyUpdate (merge + revert of system
// metadata and status + last-applied bookkeeping) on generated (observed,
// desired) pairs and writes the behaviour as Coq cases.
func TestVerif_C05u(t *testing.T) {
	env := vh.GetEnv()
	if env.OutDir == "" {
		t.Skip("VERIF_OUT not set")
	}
	header := "From MC Require Import Check.C05_check.\nOpen Scope string_scope.\n"
	w, err := vh.NewCaseWriter(env.OutDir, "C05u", header, 300)
	if err != nil {
		t.Fatal(err)
	}
	n := env.N
	if n == 0 {
		n = 400
	}
	root := vh.NewRng(env.Seed ^ 0xc05a)
	for i := 0; i < n; i++ {
		r, seed := root.Fork()
		g := vh.NewTripleGen(r, vh.TripleOpts{MaxDepth: 2 + r.Intn(2)})
		o, l, d := g.ObjTriple(0)
		// observed: an object as the API server holds it
		md := map[string]interface{}{"name": "c", "namespace": "ns", "uid": fmt.Sprintf("uid-%d", r.Intn(9)),
			"resourceVersion": fmt.Sprint(1000 + r.Intn(50)), "creationTimestamp": "2020-01-01T00:00:00Z"}
		if r.Chance(1, 2) {
			md["generation"] = int64(1 + r.Intn(3))
		}
		if r.Chance(1, 8) {
			md["deletionTimestamp"] = "2020-01-02T00:00:00Z"
		}
		if r.Chance(1, 2) {
			md["labels"] = map[string]interface{}{"app": "x", "extra": "y"}
		}
		ann := map[string]interface{}{}
		if r.Chance(1, 3) {
			ann["other"] = "v"
		}
		feature := "last-applied-present"
		statusInLast := r.Chance(1, 3)
		if statusInLast {
			// an earlier answer of the hook carried a status stanza (and system fields): it is on record
			l["status"] = map[string]interface{}{"phase": "Old", "n": int64(r.Intn(3))}
			if r.Bool() {
				l["metadata"] = map[string]interface{}{"name": "c", "uid": "uid-old", "resourceVersion": "7"}
			}
		}
		switch r.Intn(6) {
		case 0:
			feature = "last-applied-absent"
		case 1:
			ann[vh.LastAppliedAnnotation] = "{not json"
			feature = "last-applied-garbage"
		default:
			data, _ := k8sjson.Marshal(l)
			ann[vh.LastAppliedAnnotation] = string(data)
			if statusInLast {
				feature += "+status-on-record"
			}
		}
		if len(ann) > 0 {
			md["annotations"] = ann
		}
		o["apiVersion"], o["kind"], o["metadata"] = "v1", "Pod", md
		if r.Chance(1, 2) {
			o["status"] = map[string]interface{}{"phase": "Running", "n": int64(r.Intn(3))}
		}
		if r.Chance(1, 6) {
			// fields present with an explicit null (typed structs serialise unset times that way; a
			// schemaless custom resource may hold "status": null): present is present, they stay as observed
			switch r.Intn(4) {
			case 0:
				md["creationTimestamp"] = nil
			case 1:
				md["deletionTimestamp"] = nil
			case 2:
				o["status"] = nil
			default:
				md["creationTimestamp"], md["selfLink"] = nil, nil
				o["status"] = nil
			}
			feature += "+observed-null-fields"
		}
		// desired: what a hook returns (sometimes echoing system fields, status, its own annotation)
		dmd := map[string]interface{}{"name": "c"}
		if r.Chance(1, 3) {
			dmd["labels"] = map[string]interface{}{"app": []string{"x", "z"}[r.Intn(2)]}
		}
		if r.Chance(1, 5) {
			dmd["uid"] = "uid-forged"
			dmd["resourceVersion"] = "1"
			feature += "+system-fields-in-desired"
		}
		if r.Chance(1, 4) {
			d["status"] = map[string]interface{}{"phase": "Forged"}
			feature += "+status-in-desired"
		}
		if r.Chance(1, 4) {
			// an echoing hook returns the child it observed, its own bookkeeping annotation included
			da := map[string]interface{}{"keep": "me"}
			data, _ := k8sjson.Marshal(map[string]interface{}{"spec": map[string]interface{}{"old": true}})
			da[vh.LastAppliedAnnotation] = string(data)
			dmd["annotations"] = da
			feature += "+own-annotation-in-desired"
		} else if r.Chance(1, 4) {
			dmd["annotations"] = map[string]interface{}{"keep": "me"}
		}
		d["apiVersion"], d["kind"], d["metadata"] = "v1", "Pod", dmd
		if r.Chance(1, 8) {
			// a desired object that says nothing about some top-level stanza the observed one has
			// (no metadata at all; or no spec): those observed parts are carried over, never shared
			if r.Bool() {
				delete(d, "metadata")
				feature += "+desired-without-metadata"
			} else {
				for k := range d {
					if k != "apiVersion" && k != "kind" && k != "metadata" {
						delete(d, k)
					}
				}
				feature += "+desired-metadata-only"
			}
		}
		o0 := runtime.DeepCopyJSON(o)
		d0 := runtime.DeepCopyJSON(d)
		out, dAfter := runApplyUpdate(o, d)
		origMutated := !reflect.DeepEqual(o, o0)
		// re-apply the same desired state to the result (as the next sync would)
		second := uOutcome{kind: "err"}
		if out.kind == "ok" {
			second, _ = runApplyUpdate(runtime.DeepCopyJSON(out.val), runtime.DeepCopyJSON(d0))
		}
		def := fmt.Sprintf("mkC05u %s %s %s %s %s %s", vh.MustCoqJSON(map[string]interface{}(o0)), vh.MustCoqJSON(map[string]interface{}(d0)),
			coqU(out), coqU(second), vh.MustCoqJSON(vh.Normalize(dAfter)), vh.CoqBool(origMutated))
		replay := map[string]interface{}{"seed": seed, "observed": o0, "desired": d0, "impl": out.kind, "features": []string{feature}}
		if err := w.Add(fmt.Sprintf("u%d", i), def, "C05u_check", replay); err != nil {
			t.Fatal(err)
		}
		w.Count("outcome-" + out.kind)
		w.Count(feature)
		if out.kind == "ok" && !reflect.DeepEqual(out.val, map[string]interface{}(o0)) {
			w.NonTrivial(def)
		}
	}
	if err := w.Close(nil); err != nil {
		t.Fatal(err)
	}
}
