package hooks

// Correspondence harness of property C19: drives the REAL webhookExecutor
// (newWebhookExecutor / NewWebhookExecutor, webhook_etag.go, webhook_plain.go)
// against a scripted HTTP client whose Do blocks on per-call channels, so that
// every interleaving of several concurrent calls is forced deterministically:
//   model step 1 (enrich)      = start the call's goroutine and wait until its Do is entered
//   model step 2 (round trip)  = nothing shared happens
//   model step 3 (adjust)      = release the call's Do and wait until Call has returned
// The observed If-None-Match header, outcome and final cache content are written
// as Coq terms (Check/C19_check.v).

import (
	"bytes"
	"context"
	"encoding/json"
	"errors"
	"fmt"
	"io"
	"net"
	"net/http"
	"net/http/httptest"
	"os"
	"reflect"
	"sort"
	"strconv"
	"strings"
	"sync"
	"testing"
	"time"
	"unsafe"

	"metacontroller/pkg/apis/metacontroller/v1alpha1"
	"metacontroller/pkg/cache"
	"metacontroller/pkg/controller/common"
	compositev1 "metacontroller/pkg/controller/composite/api/v1"
	vh "metacontroller/pkg/internal/verifh"
	"metacontroller/pkg/logging"

	"github.com/go-logr/logr"
	metav1 "k8s.io/apimachinery/pkg/apis/meta/v1"
	"k8s.io/apimachinery/pkg/apis/meta/v1/unstructured"
	kjson "sigs.k8s.io/json"
	"zgo.at/zcache/v2"
)

const c19Host = "c19.verif.invalid"
const c19URL = "http://" + c19Host + "/hook"

var c19Base = time.Date(2024, 1, 2, 3, 4, 5, 0, time.UTC)

// ---------------------------------------------------------------- case data

type c19Body struct {
	ID    int64  `json:"id"`
	Class string `json:"class"` // valid | unknown | duplicate | invalid | both (unknown and duplicate)
	Alt   bool   `json:"alt,omitempty"`
}

func (b c19Body) text() string {
	switch b.Class {
	case "valid":
		if b.Alt {
			return fmt.Sprintf(`{"children":[],"finalized":false,"resyncAfterSeconds":0,"status":{"a":%d}}`, b.ID)
		}
		return fmt.Sprintf(`{"status":{"a":%d},"children":[]}`, b.ID)
	case "unknown":
		if b.Alt {
			return fmt.Sprintf(`{"bogus":{"status":{"a":0}},"status":{"a":%d},"children":[]}`, b.ID)
		}
		return fmt.Sprintf(`{"status":{"a":%d},"children":[],"bogus":1}`, b.ID)
	case "trailing-space": // a document followed by white space only: still one well-formed document
		if b.Alt {
			return fmt.Sprintf("{\"status\":{\"a\":%d},\"children\":[]} \t\r\n ", b.ID)
		}
		return fmt.Sprintf("{\"status\":{\"a\":%d},\"children\":[]}\n", b.ID)
	case "trailing-garbage": // a document followed by text (e.g. an appended error message)
		if b.Alt {
			return fmt.Sprintf("{\"status\":{\"a\":%d},\"children\":[]}\nerror: boom", b.ID)
		}
		return fmt.Sprintf(`{"status":{"a":%d},"children":[]} Internal Server Error`, b.ID)
	case "two-documents":
		if b.Alt {
			return fmt.Sprintf("{\"status\":{\"a\":%d},\"children\":[]}\n{\"status\":{\"a\":0},\"children\":[]}\n", b.ID)
		}
		return fmt.Sprintf(`{"status":{"a":%d},"children":[]}{"status":{"a":0},"children":[]}`, b.ID)
	case "stray-brace":
		if b.Alt {
			return fmt.Sprintf(`{"status":{"a":%d},"children":[]} ]`, b.ID)
		}
		return fmt.Sprintf(`{"status":{"a":%d},"children":[]}}`, b.ID)
	case "both":
		if b.Alt {
			return fmt.Sprintf(`{"bogus":1,"status":{"a":0},"status":{"a":%d},"children":[]}`, b.ID)
		}
		return fmt.Sprintf(`{"status":{"a":%d},"children":[],"children":[],"bogus":1}`, b.ID)
	case "duplicate":
		if b.Alt {
			return fmt.Sprintf(`{"status":{"a":0},"status":{"a":%d},"children":[]}`, b.ID) // last value wins
		}
		return fmt.Sprintf(`{"status":{"a":%d},"children":[],"children":[]}`, b.ID)
	default:
		if b.Alt {
			return fmt.Sprintf(`{"status":{"a":%d},"children":"no"}`, b.ID)
		}
		return fmt.Sprintf(`{"status":{"a":%d},"children":`, b.ID)
	}
}

func (b c19Body) coq() string {
	cl := map[string]string{"valid": "BValid", "unknown": "BUnknownField", "duplicate": "BDuplicateField", "invalid": "BInvalidJson",
		"both": "BUnknownAndDuplicate", "trailing-space": "BValidTrailingSpace", "trailing-garbage": "BTrailingGarbage",
		"two-documents": "BTwoDocuments", "stray-brace": "BStrayBrace"}[b.Class]
	return fmt.Sprintf("(mkBody %s %s)", vh.CoqZ(b.ID), cl)
}

// what the library really makes of a text (the experiment behind body_class)
func c19LibraryClass(text string) string {
	var r compositev1.CompositeHookResponse
	strict, err := kjson.UnmarshalStrict([]byte(text), &r)
	if err != nil {
		return "invalid"
	}
	if len(strict) == 0 {
		return "valid"
	}
	unknown, dup := false, false
	for _, e := range strict {
		if strings.Contains(e.Error(), "unknown field") {
			unknown = true
		}
		if strings.Contains(e.Error(), "duplicate field") {
			dup = true
		}
	}
	switch {
	case dup && !unknown:
		return "duplicate"
	case unknown && !dup:
		return "unknown"
	}
	if unknown && dup {
		return "both"
	}
	return "mixed"
}

type c19Reply struct {
	Transport bool    `json:"transport,omitempty"`
	Status    int     `json:"status"`
	ETag      string  `json:"etag,omitempty"`
	RA        string  `json:"ra"`               // absent | num | date | garbage | huge | hugeneg
	RAN       int64   `json:"ran,omitempty"`    // num: the number; date: whole seconds between c19Base and the date
	RAText    string  `json:"raText,omitempty"` // literal header text (num variants like "+5", garbage)
	Body      c19Body `json:"body"`
	ReadFail  bool    `json:"readFail,omitempty"`
}

func (r c19Reply) retryHeader() (string, bool) {
	switch r.RA {
	case "num":
		if r.RAText != "" {
			return r.RAText, true
		}
		return strconv.FormatInt(r.RAN, 10), true
	case "date":
		d := c19Base.Add(time.Duration(r.RAN) * time.Second)
		if r.RAText == "utc" {
			return d.Format(time.RFC1123), true // "... UTC"
		}
		return d.Format(http.TimeFormat), true // "... GMT"
	case "garbage":
		if r.RAText != "" {
			return r.RAText, true
		}
		return "soon", true
	case "huge":
		return "99999999999999999999", true
	case "hugeneg":
		return "-99999999999999999999", true
	}
	return "", false
}

func (r c19Reply) coq(nowFracMs int) string {
	if r.Transport {
		return "TransportError"
	}
	ra := "RAAbsent"
	switch r.RA {
	case "num":
		ra = "(RANum " + vh.CoqZ(r.RAN) + ")"
	case "date":
		ra = "(RADate " + vh.CoqZ(1000*r.RAN-int64(nowFracMs)) + ")"
	case "garbage":
		ra = "RAGarbage"
	case "huge":
		ra = "(RAHuge false)"
	case "hugeneg":
		ra = "(RAHuge true)"
	}
	return fmt.Sprintf("(Reply (mkResp %s %s %s %s %s))", vh.CoqZ(int64(r.Status)), vh.MustCoqString(r.ETag), ra, r.Body.coq(), vh.CoqBool(r.ReadFail))
}

type c19Init struct {
	Key  int     `json:"key"`
	ETag string  `json:"etag"`
	Body c19Body `json:"body"`
}

type c19Call struct {
	Key   int      `json:"key"`
	Reply c19Reply `json:"reply"`
}

type c19Ev struct {
	Expire bool `json:"expire,omitempty"`
	Call   int  `json:"call"` // Step Call
	Key    int  `json:"key"`  // Expire Key
}

type c19Case struct {
	Family     string    `json:"family"`
	Etag       bool      `json:"etag"`
	Mode       string    `json:"mode"`   // nil | loose | strict | other
	Public     bool      `json:"public"` // build the executor with NewWebhookExecutor; it talks real HTTP to the in-process server
	TimeoutSec int       `json:"timeoutSec"`
	CleanupSec int       `json:"cleanupSec"` // -1: nil pointer
	NowFracMs  int       `json:"nowFracMs"`
	ExpireHow  string    `json:"expireHow"` // ttl | delete | real
	CacheState string    `json:"cacheState,omitempty"`
	Init       []c19Init `json:"init"`
	Calls      []c19Call `json:"calls"`
	Sched      []c19Ev   `json:"sched"`
}

// ---------------------------------------------------------------- scripted client

type c19Slot struct {
	entered chan struct{}
	release chan struct{}
	done    chan struct{}
	reply   c19Reply
	sent    string
	nsent   int
	started bool
	closed  bool
	// result of Call
	kind string // ok | err | toomany | panic
	id   int64
	secs int64
}

type c19Client struct {
	slots []*c19Slot
}

type c19Timeout struct{}

func (c19Timeout) Error() string   { return "context deadline exceeded (simulated timeout)" }
func (c19Timeout) Timeout() bool   { return true }
func (c19Timeout) Temporary() bool { return true }

type c19FailingBody struct {
	data   []byte
	closed *bool
}

func (b *c19FailingBody) Read(p []byte) (int, error) {
	if len(b.data) > 0 {
		n := copy(p, b.data)
		b.data = b.data[n:]
		return n, nil
	}
	return 0, c19Timeout{}
}
func (b *c19FailingBody) Close() error { *b.closed = true; return nil }

type c19GoodBody struct {
	*bytes.Reader
	closed *bool
}

func (b c19GoodBody) Close() error { *b.closed = true; return nil }

func (c *c19Client) Do(req *http.Request) (*http.Response, error) {
	var data []byte
	if req.Body != nil {
		data, _ = io.ReadAll(req.Body)
		req.Body.Close()
	}
	var m struct {
		CallID int `json:"callId"`
	}
	if err := json.Unmarshal(data, &m); err != nil || m.CallID < 0 || m.CallID >= len(c.slots) {
		return nil, fmt.Errorf("c19: unroutable request %q", data)
	}
	s := c.slots[m.CallID]
	s.sent = req.Header.Get(headerIfNoneMatch)
	s.nsent = len(req.Header.Values(headerIfNoneMatch))
	s.entered <- struct{}{}
	<-s.release
	rp := s.reply
	if rp.Transport {
		return nil, c19Timeout{}
	}
	h := http.Header{}
	h.Set("Content-Type", "application/json")
	if rp.ETag != "" {
		h.Set(headerETag, rp.ETag)
	}
	if v, ok := rp.retryHeader(); ok {
		h.Set("Retry-After", v)
	}
	text := []byte(rp.Body.text())
	var body io.ReadCloser
	if rp.ReadFail {
		body = &c19FailingBody{data: text[:len(text)/2], closed: &s.closed}
	} else {
		body = c19GoodBody{bytes.NewReader(text), &s.closed}
	}
	return &http.Response{StatusCode: rp.Status, Status: strconv.Itoa(rp.Status), Proto: "HTTP/1.1", ProtoMajor: 1, ProtoMinor: 1,
		Header: h, Body: body, ContentLength: -1, Request: req}, nil
}

// The real local HTTP server every executor built by NewWebhookExecutor talks to.
// http.DefaultTransport is, while the test runs, a genuine *http.Transport whose
// DialContext sends the hook host to this server: code that type-asserts or clones
// the default transport keeps working, and the exchange is real HTTP/1.1 over TCP.
type c19Server struct {
	srv   *httptest.Server
	mu    sync.Mutex
	cur   *c19Client // scripted case in progress
	timed map[int]*c19TimedRun
}

func c19NewServer() *c19Server {
	s := &c19Server{timed: map[int]*c19TimedRun{}}
	s.srv = httptest.NewServer(s)
	return s
}

func (s *c19Server) transport() *http.Transport {
	addr := s.srv.Listener.Addr().String()
	d := &net.Dialer{Timeout: 10 * time.Second}
	return &http.Transport{
		DisableKeepAlives: true, // one connection per call: an aborted answer is never retried on a reused one
		DialContext: func(ctx context.Context, network, a string) (net.Conn, error) {
			if strings.HasPrefix(a, c19Host+":") {
				a = addr
			}
			return d.DialContext(ctx, network, a)
		},
	}
}

func (s *c19Server) setCurrent(c *c19Client) {
	s.mu.Lock()
	s.cur = c
	s.mu.Unlock()
}

func (s *c19Server) ServeHTTP(w http.ResponseWriter, r *http.Request) {
	data, _ := io.ReadAll(r.Body)
	var m struct {
		CallID int `json:"callId"`
		Timed  int `json:"timed"`
	}
	_ = json.Unmarshal(data, &m)
	s.mu.Lock()
	cur, run := s.cur, s.timed[m.Timed]
	s.mu.Unlock()
	switch {
	case m.Timed > 0 && run != nil:
		run.serve(w, r)
	case m.Timed == 0 && cur != nil && m.CallID >= 0 && m.CallID < len(cur.slots):
		cur.serve(w, r, cur.slots[m.CallID])
	default:
		http.Error(w, "c19: unroutable request", http.StatusTeapot)
	}
}

// the scripted reply over real HTTP. A transport error is an aborted connection before
// any byte of the answer; an unreadable body is a connection aborted in mid-body.
func (c *c19Client) serve(w http.ResponseWriter, r *http.Request, s *c19Slot) {
	s.sent = r.Header.Get(headerIfNoneMatch)
	s.nsent = len(r.Header.Values(headerIfNoneMatch))
	s.entered <- struct{}{}
	<-s.release
	rp := s.reply
	if rp.Transport {
		panic(http.ErrAbortHandler)
	}
	c19WriteHead(w, rp)
	text := []byte(rp.Body.text())
	if rp.ReadFail {
		w.Header().Set("Content-Length", strconv.Itoa(len(text)))
		w.WriteHeader(rp.Status)
		_, _ = w.Write(text[:len(text)/2])
		w.(http.Flusher).Flush()
		panic(http.ErrAbortHandler)
	}
	w.WriteHeader(rp.Status)
	_, _ = w.Write(text) // refused by the server for 204 / 304: those have no body
}

func c19WriteHead(w http.ResponseWriter, rp c19Reply) {
	h := w.Header()
	h.Set("Content-Type", "application/json")
	if rp.ETag != "" {
		h.Set(headerETag, rp.ETag)
	}
	if v, ok := rp.retryHeader(); ok {
		h.Set("Retry-After", v)
	}
}

// what real HTTP can carry: the scripted client stays in charge of the rest
func (cs *c19Case) fitForHTTP() {
	if !cs.Public {
		return
	}
	for i := range cs.Calls {
		rp := &cs.Calls[i].Reply
		if rp.Transport {
			continue
		}
		if rp.Status < 200 || rp.Status > 599 {
			cs.Public = false // not a final status a server can send
			return
		}
		if rp.ReadFail && (rp.Status == 204 || rp.Status == 304) {
			rp.ReadFail = false // no body to fail in
		}
		if strings.TrimSpace(rp.RAText) != rp.RAText {
			rp.RAText = strings.TrimSpace(rp.RAText) + "x" // HTTP trims white space around header values
		}
	}
}

type c19Request struct {
	CallID int                        `json:"callId"`
	Timed  int                        `json:"timed,omitempty"`
	Parent *unstructured.Unstructured `json:"parent"`
}

func (r *c19Request) GetRootObject() *unstructured.Unstructured { return r.Parent }

// two keys differ in the namespace only: the key is (kind, namespace, name)
func c19Parent(key int) *unstructured.Unstructured {
	u := &unstructured.Unstructured{Object: map[string]interface{}{}}
	u.SetAPIVersion("verif.example/v1")
	u.SetKind("Thing")
	u.SetNamespace(fmt.Sprintf("ns%d", key))
	u.SetName("parent")
	return u
}

func c19Key(key int) eTagKey {
	return eTagKey{kind: "Thing", namespace: fmt.Sprintf("ns%d", key), name: "parent"}
}

// the zcache inside the wrapper (the wrapper has neither Delete nor a TTL setter)
func c19Inner(c *cache.Cache[eTagKey, *eTagEntry]) *zcache.Cache[eTagKey, *eTagEntry] {
	f := reflect.ValueOf(c).Elem().FieldByName("cache")
	if !f.IsValid() {
		panic("c19: cache.Cache has no field `cache`")
	}
	return *(**zcache.Cache[eTagKey, *eTagEntry])(unsafe.Pointer(f.UnsafeAddr()))
}

// ---------------------------------------------------------------- running one case

type c19Obs struct {
	calls     []*c19Slot
	final     map[int]*eTagEntry // nil map in plain mode
	timingBad bool
}

const c19RealTTL = 120 * time.Millisecond

func c19Mode(m string) *v1alpha1.ResponseUnmarshallMode {
	var v v1alpha1.ResponseUnmarshallMode
	switch m {
	case "nil":
		return nil
	case "loose":
		v = v1alpha1.ResponseUnmarshallModeLoose
	case "strict":
		v = v1alpha1.ResponseUnmarshallModeStrict
	default:
		v = v1alpha1.ResponseUnmarshallMode(m)
	}
	return &v
}

func c19Run(t *testing.T, router *c19Server, cs *c19Case) c19Obs {
	cl := &c19Client{}
	for _, c := range cs.Calls {
		cl.slots = append(cl.slots, &c19Slot{entered: make(chan struct{}, 1), release: make(chan struct{}, 1),
			done: make(chan struct{}), reply: c.Reply, kind: "notrun"})
	}
	now := func() time.Time { return c19Base.Add(time.Duration(cs.NowFracMs) * time.Millisecond) }
	var exec *webhookExecutor
	var etagAbs *webhookExecutorEtag
	if cs.Public {
		router.setCurrent(cl)
		defer router.setCurrent(nil)
		url := c19URL
		wh := &v1alpha1.Webhook{URL: &url, ResponseUnmarshallMode: c19Mode(cs.Mode)}
		if cs.Etag {
			on := true
			wh.Etag = &v1alpha1.WebhookEtagConfig{Enabled: &on}
			if cs.TimeoutSec >= 0 {
				v := int32(cs.TimeoutSec)
				wh.Etag.CacheTimeoutSeconds = &v
			}
			if cs.CleanupSec >= 0 {
				v := int32(cs.CleanupSec)
				wh.Etag.CacheCleanupSeconds = &v
			}
		}
		e, err := NewWebhookExecutor(wh, "c19", common.CompositeController, common.SyncHook)
		if err != nil {
			t.Fatalf("NewWebhookExecutor: %v", err)
		}
		exec = e.(*webhookExecutor)
		exec.now = now
		if cs.Etag {
			etagAbs = exec.webhookAbstract.(*webhookExecutorEtag)
		} else if _, ok := exec.webhookAbstract.(*webhookExecutorPlain); !ok {
			t.Fatalf("NewWebhookExecutor without etag built %T", exec.webhookAbstract)
		}
	} else {
		var abs webhookAbstract = &webhookExecutorPlain{}
		if cs.Etag {
			ttl := time.Duration(0)
			if cs.ExpireHow == "real" {
				ttl = c19RealTTL
			}
			etagAbs = &webhookExecutorEtag{etagCache: cache.New[eTagKey, *eTagEntry](ttl, 0)}
			abs = etagAbs
		}
		exec = newWebhookExecutor(cl, c19URL, common.SyncHook, c19Mode(cs.Mode), abs, now)
	}
	obs := c19Obs{calls: cl.slots}
	if etagAbs != nil {
		for _, in := range cs.Init {
			etagAbs.etagCache.Set(c19Key(in.Key), &eTagEntry{Etag: in.ETag, Response: []byte(in.Body.text())})
		}
	}
	mark := time.Now()
	checkTiming := func() {
		if cs.ExpireHow == "real" && time.Since(mark) > c19RealTTL/3 {
			obs.timingBad = true
		}
	}
	wait := func(ch chan struct{}, what string) bool {
		select {
		case <-ch:
			return true
		case <-time.After(20 * time.Second):
			t.Fatalf("c19: timeout waiting for %s", what)
		}
		return false
	}
	phase := make([]int, len(cs.Calls))
	for _, ev := range cs.Sched {
		if ev.Expire {
			if etagAbs == nil {
				continue
			}
			switch cs.ExpireHow {
			case "real":
				checkTiming()
				time.Sleep(c19RealTTL + 30*time.Millisecond)
				mark = time.Now()
			case "delete": // what the janitor does
				c19Inner(etagAbs.etagCache).Delete(c19Key(ev.Key))
			default: // the entry's own expiry path in zcache.Get
				inner := c19Inner(etagAbs.etagCache)
				if v, ok := inner.Get(c19Key(ev.Key)); ok {
					inner.SetWithExpire(c19Key(ev.Key), v, time.Nanosecond)
					for {
						if _, still := etagAbs.etagCache.Get(c19Key(ev.Key)); !still {
							break
						}
						time.Sleep(time.Microsecond)
					}
				}
			}
			continue
		}
		i := ev.Call
		if i < 0 || i >= len(cs.Calls) {
			continue
		}
		s := cl.slots[i]
		switch phase[i] {
		case 0:
			s.started = true
			req := &c19Request{CallID: i, Parent: c19Parent(cs.Calls[i].Key)}
			go func() {
				defer close(s.done)
				defer func() {
					if r := recover(); r != nil {
						s.kind = "panic"
					}
				}()
				var resp compositev1.CompositeHookResponse
				err := exec.Call(req, &resp)
				var tm *TooManyRequestError
				switch {
				case err == nil:
					s.kind, s.id = "ok", -1
					switch v := resp.Status["a"].(type) {
					case int64:
						s.id = v
					case float64:
						s.id = int64(v)
					}
				case errors.As(err, &tm):
					s.kind, s.secs = "toomany", int64(tm.AfterSecond)
				default:
					s.kind = "err"
				}
			}()
			select {
			case <-s.entered:
			case <-s.done:
				t.Fatalf("c19: call %d returned before its request was sent (%s)", i, s.kind)
			case <-time.After(20 * time.Second):
				t.Fatalf("c19: call %d never reached the client", i)
			}
		case 1:
			// the reply is on its way: nothing shared happens
		case 2:
			s.release <- struct{}{}
			wait(s.done, fmt.Sprintf("call %d to return", i))
		}
		phase[i]++
		checkTiming()
	}
	// let unfinished calls go (such cases are outside the model: SKIP)
	for i, s := range cl.slots {
		if s.started && phase[i] < 3 {
			s.release <- struct{}{}
			wait(s.done, "an unfinished call")
			s.kind = "notrun"
		}
	}
	if etagAbs != nil {
		obs.final = map[int]*eTagEntry{}
		for _, k := range cs.keys() {
			if e, ok := etagAbs.etagCache.Get(c19Key(k)); ok {
				obs.final[k] = e
			} else {
				obs.final[k] = nil
			}
		}
		checkTiming()
	}
	return obs
}

func (cs *c19Case) keys() []int {
	seen := map[int]bool{}
	for _, in := range cs.Init {
		seen[in.Key] = true
	}
	for _, c := range cs.Calls {
		seen[c.Key] = true
	}
	for _, e := range cs.Sched {
		if e.Expire {
			seen[e.Key] = true
		}
	}
	out := make([]int, 0, len(seen))
	for k := range seen {
		out = append(out, k)
	}
	sort.Ints(out)
	return out
}

// classes of the bodies that exist paired with this ETag under this key (initial entry, 200 answers)
func (cs *c19Case) replayClasses(key int, etag string) []string {
	seen := map[string]bool{}
	var out []string
	add := func(c string) {
		if !seen[c] {
			seen[c] = true
			out = append(out, c)
		}
	}
	for _, in := range cs.Init {
		if in.Key == key && in.ETag == etag {
			add(in.Body.Class)
		}
	}
	for _, c := range cs.Calls {
		if c.Key == key && !c.Reply.Transport && c.Reply.Status == 200 && c.Reply.ETag == etag {
			add(c.Reply.Body.Class)
		}
	}
	sort.Strings(out)
	return out
}

func (cs *c19Case) bodies() []c19Body {
	var out []c19Body
	for _, in := range cs.Init {
		out = append(out, in.Body)
	}
	for _, c := range cs.Calls {
		if !c.Reply.Transport {
			out = append(out, c.Reply.Body)
		}
	}
	return out
}

// a body id must name one text of one class, and the class must be what the library says
func (cs *c19Case) validate() error {
	byID := map[int64]string{}
	for _, b := range cs.bodies() {
		txt := b.text()
		if old, ok := byID[b.ID]; ok && old != txt {
			return fmt.Errorf("body id %d names two texts", b.ID)
		}
		byID[b.ID] = txt
		want := b.Class
		switch b.Class {
		case "trailing-space":
			want = "valid"
		case "trailing-garbage", "two-documents", "stray-brace":
			want = "invalid" // UnmarshalStrict decodes the whole text: err != nil
		}
		if got := c19LibraryClass(txt); got != want {
			return fmt.Errorf("library classifies %q as %s, the case says %s (%s)", txt, got, b.Class, want)
		}
	}
	seenInit := map[int]bool{}
	for _, in := range cs.Init {
		if seenInit[in.Key] {
			return fmt.Errorf("two initial entries for key %d", in.Key)
		}
		seenInit[in.Key] = true
	}
	return nil
}

func (cs *c19Case) coq(o c19Obs) string {
	var b strings.Builder
	b.WriteString("mkC19 " + vh.CoqBool(cs.Etag) + " " + vh.CoqBool(cs.Mode == "strict") + " [")
	if cs.Etag { // a plain executor has no cache to seed
		for i, in := range cs.Init {
			if i > 0 {
				b.WriteString("; ")
			}
			fmt.Fprintf(&b, "(%s, mkEntry %s %s)", vh.CoqZ(int64(in.Key)), vh.MustCoqString(in.ETag), in.Body.coq())
		}
	}
	b.WriteString("] [")
	for i, c := range cs.Calls {
		if i > 0 {
			b.WriteString("; ")
		}
		fmt.Fprintf(&b, "mkCall %s %s", vh.CoqZ(int64(c.Key)), c.Reply.coq(cs.NowFracMs))
	}
	b.WriteString("] [")
	for i, e := range cs.Sched {
		if i > 0 {
			b.WriteString("; ")
		}
		if e.Expire {
			b.WriteString("Expire " + vh.CoqZ(int64(e.Key)))
		} else {
			b.WriteString("Step " + vh.CoqZ(int64(e.Call)))
		}
	}
	b.WriteString("] [")
	for i, s := range o.calls {
		if i > 0 {
			b.WriteString("; ")
		}
		out := "INotRun"
		switch s.kind {
		case "ok":
			out = "IOk " + vh.CoqZ(s.id)
		case "err":
			out = "IErr"
		case "toomany":
			out = "ITooMany " + vh.CoqZ(s.secs)
		case "panic":
			out = "IPanic"
		}
		fmt.Fprintf(&b, "(%s, %s)", vh.MustCoqString(s.sent), out)
	}
	b.WriteString("] [")
	if o.final != nil {
		ids := map[string]int64{}
		for _, bd := range cs.bodies() {
			ids[bd.text()] = bd.ID
		}
		for i, k := range cs.keys() {
			if i > 0 {
				b.WriteString("; ")
			}
			if e := o.final[k]; e != nil {
				id, ok := ids[string(e.Response)]
				if !ok {
					id = -999
				}
				fmt.Fprintf(&b, "(%s, Some (%s, %s))", vh.CoqZ(int64(k)), vh.MustCoqString(e.Etag), vh.CoqZ(id))
			} else {
				fmt.Fprintf(&b, "(%s, None)", vh.CoqZ(int64(k)))
			}
		}
	}
	b.WriteString("]")
	return b.String()
}

// ---------------------------------------------------------------- enumerations

var c19Statuses = []int{200, 201, 204, 304, 400, 404, 412, 429, 500, 503}
var c19RAShapes = []c19Reply{
	{RA: "absent"}, {RA: "num", RAN: 7}, {RA: "date", RAN: 3}, {RA: "garbage"}, {RA: "huge"},
}
var c19Classes = []string{"valid", "unknown", "duplicate", "invalid", "both",
	"trailing-space", "trailing-garbage", "two-documents", "stray-brace"}
var c19Modes = []string{"nil", "loose", "strict"}
var c19CacheStates = []string{"empty", "hit", "expired-before", "expired-mid"}

func c19ClassID(base int64, class string) int64 {
	for i, c := range c19Classes {
		if c == class {
			return base*10 + int64(i)
		}
	}
	return base * 10
}

var c19B1 = c19Body{ID: 10, Class: "valid"} // the initially cached body

func c19Steps3(i int) []c19Ev { return []c19Ev{{Call: i}, {Call: i}, {Call: i}} }

// all single calls: status x ETag header x Retry-After x body class x mode x (plain | etag x cache state)
func c19NumSingles() int {
	return len(c19Statuses) * 2 * len(c19RAShapes) * len(c19Classes) * len(c19Modes) * (1 + len(c19CacheStates))
}

func c19Single(idx int) *c19Case {
	pick := func(n int) int { r := idx % n; idx /= n; return r }
	st := c19Statuses[pick(len(c19Statuses))]
	hasETag := pick(2) == 1
	ra := c19RAShapes[pick(len(c19RAShapes))]
	class := c19Classes[pick(len(c19Classes))]
	mode := c19Modes[pick(len(c19Modes))]
	cstate := pick(1 + len(c19CacheStates)) // 0 = plain
	rp := ra
	rp.Status = st
	if hasETag {
		rp.ETag = "e2"
	}
	rp.Body = c19Body{ID: c19ClassID(2, class), Class: class}
	cs := &c19Case{Family: "single", Etag: cstate > 0, Mode: mode, NowFracMs: 250, ExpireHow: "ttl", CleanupSec: -1, TimeoutSec: -1,
		Calls: []c19Call{{Key: 7, Reply: rp}}, Sched: c19Steps3(0)}
	if cstate == 0 {
		cs.CacheState = "plain"
		return cs
	}
	cs.CacheState = c19CacheStates[cstate-1]
	if idx%2 == 1 {
		cs.ExpireHow = "delete"
	}
	switch cs.CacheState {
	case "hit":
		cs.Init = []c19Init{{Key: 7, ETag: "e1", Body: c19B1}}
	case "expired-before":
		cs.Init = []c19Init{{Key: 7, ETag: "e1", Body: c19B1}}
		cs.Sched = append([]c19Ev{{Expire: true, Key: 7}}, cs.Sched...)
	case "expired-mid":
		cs.Init = []c19Init{{Key: 7, ETag: "e1", Body: c19B1}}
		cs.Sched = []c19Ev{{Call: 0}, {Expire: true, Key: 7}, {Call: 0}, {Call: 0}}
	}
	return cs
}

// replies in play for the interleavings: two distinct ETags/bodies, an answer
// without ETag, a reused ETag with another body, 304, 412, an error status
var c19SchedReplies = []c19Reply{
	{Status: 200, ETag: "e2", RA: "absent", Body: c19Body{ID: 20, Class: "valid"}},
	{Status: 200, ETag: "e3", RA: "absent", Body: c19Body{ID: 31, Class: "unknown"}},
	{Status: 200, RA: "absent", Body: c19Body{ID: 40, Class: "valid"}},
	{Status: 200, ETag: "e1", RA: "absent", Body: c19Body{ID: 50, Class: "valid"}},
	{Status: 304, RA: "absent", Body: c19Body{ID: 63, Class: "invalid"}},
	{Status: 412, ETag: "e9", RA: "absent", Body: c19Body{ID: 70, Class: "valid"}},
	{Status: 500, RA: "absent", Body: c19Body{ID: 80, Class: "valid"}},
}

// all orders of n calls at the granularity the harness can force: E_i (enrich) before A_i (adjust)
func c19Orders(n int) [][]int { // event code: 2*i = E_i, 2*i+1 = A_i
	var out [][]int
	state := make([]int, n)
	var cur []int
	var rec func()
	rec = func() {
		if len(cur) == 2*n {
			out = append(out, append([]int(nil), cur...))
			return
		}
		for i := 0; i < n; i++ {
			if state[i] < 2 {
				cur = append(cur, 2*i+state[i])
				state[i]++
				rec()
				state[i]--
				cur = cur[:len(cur)-1]
			}
		}
	}
	rec()
	return out
}

var c19OrderCache = map[int][][]int{}

func c19OrdersOf(n int) [][]int {
	if o, ok := c19OrderCache[n]; ok {
		return o
	}
	o := c19Orders(n)
	c19OrderCache[n] = o
	return o
}

func c19NumScheds(n int) int {
	r := len(c19OrdersOf(n)) * 2 * 2
	for i := 0; i < n; i++ {
		r *= len(c19SchedReplies)
	}
	return r
}

func c19Sched(n, idx int) *c19Case {
	pick := func(m int) int { r := idx % m; idx /= m; return r }
	order := c19OrdersOf(n)[pick(len(c19OrdersOf(n)))]
	strict := pick(2) == 1
	hit := pick(2) == 1
	cs := &c19Case{Family: fmt.Sprintf("interleave-%d", n), Etag: true, Mode: "loose", NowFracMs: 250, ExpireHow: "ttl", CleanupSec: -1, TimeoutSec: -1,
		CacheState: "empty"}
	if strict {
		cs.Mode = "strict"
	}
	if hit {
		cs.CacheState = "hit"
		cs.Init = []c19Init{{Key: 7, ETag: "e1", Body: c19B1}}
	}
	for i := 0; i < n; i++ {
		cs.Calls = append(cs.Calls, c19Call{Key: 7, Reply: c19SchedReplies[pick(len(c19SchedReplies))]})
	}
	for _, code := range order {
		i := code / 2
		if code%2 == 0 {
			cs.Sched = append(cs.Sched, c19Ev{Call: i})
		} else {
			cs.Sched = append(cs.Sched, c19Ev{Call: i}, c19Ev{Call: i})
		}
	}
	return cs
}

// strict-replay family (always run in full): a 200 answer carrying an ETag and a
// body with an unknown field / a duplicate field / both, followed by one or two
// calls that are answered 304 / 412 for exactly that ETag, so that the offending
// body is replayed from the cache.  x mode x initial cache x {sequential through
// newWebhookExecutor | follow-ups overlapping, through NewWebhookExecutor}.
var c19ReplayClasses = []string{"unknown", "duplicate", "both", "trailing-garbage", "two-documents", "stray-brace", "trailing-space"}
var c19ReplayFollow = [][]int{{304}, {412}, {304, 412}, {412, 304}}

func c19NumReplays() int {
	return len(c19ReplayClasses) * 2 * len(c19ReplayFollow) * len(c19Modes) * 2 * 2
}

func c19Replay(idx int) *c19Case {
	pick := func(n int) int { r := idx % n; idx /= n; return r }
	class := c19ReplayClasses[pick(len(c19ReplayClasses))]
	alt := pick(2) == 1
	follow := c19ReplayFollow[pick(len(c19ReplayFollow))]
	mode := c19Modes[len(c19Modes)-1-pick(len(c19Modes))] // strict first
	hit := pick(2) == 1
	variant := pick(2)
	cs := &c19Case{Family: "strict-replay", Etag: true, Mode: mode, NowFracMs: 250, ExpireHow: "ttl", CleanupSec: -1, TimeoutSec: -1,
		CacheState: "empty"}
	if hit {
		cs.CacheState = "hit"
		cs.Init = []c19Init{{Key: 7, ETag: "e1", Body: c19B1}}
	}
	cs.Calls = []c19Call{{Key: 7, Reply: c19Reply{Status: 200, ETag: "e5", RA: "absent",
		Body: c19Body{ID: c19ClassID(5, class), Class: class, Alt: alt}}}}
	cs.Sched = c19Steps3(0)
	for _, st := range follow {
		cs.Calls = append(cs.Calls, c19Call{Key: 7, Reply: c19Reply{Status: st, RA: "absent", Body: c19Body{ID: 63, Class: "invalid"}}})
	}
	if variant == 0 || len(follow) == 1 {
		for i := range follow {
			cs.Sched = append(cs.Sched, c19Steps3(i+1)...)
		}
	} else { // both follow-ups in flight at once
		cs.Sched = append(cs.Sched, c19Ev{Call: 1}, c19Ev{Call: 2}, c19Ev{Call: 2}, c19Ev{Call: 1}, c19Ev{Call: 2}, c19Ev{Call: 1})
	}
	if variant == 1 {
		cs.Public = true
		cs.TimeoutSec = 600
	}
	return cs
}

// expired-between family (always run in full): the cached entry whose ETag the call
// sent is gone (TTL elapsed / janitor) when the 304 / 412 answer arrives
// x ETag header on that answer y/n x mode x way of expiring x constructor;
// plus the same with a second key's entry still present.
func c19NumExpiredMid() int { return 2 * 2 * len(c19Modes) * 2 * 2 }

func c19ExpiredMid(idx int) *c19Case {
	pick := func(n int) int { r := idx % n; idx /= n; return r }
	status := []int{304, 412}[pick(2)]
	hdr := pick(2) == 1
	mode := c19Modes[pick(len(c19Modes))]
	how := []string{"ttl", "delete"}[pick(2)]
	public := pick(2) == 1
	rp := c19Reply{Status: status, RA: "absent", Body: c19Body{ID: 20, Class: "valid"}}
	if hdr {
		rp.ETag = "e2"
	}
	cs := &c19Case{Family: "expired-between", Etag: true, Mode: mode, NowFracMs: 250, ExpireHow: how, CleanupSec: -1, TimeoutSec: -1,
		CacheState: "expired-mid", Public: public,
		Init:  []c19Init{{Key: 7, ETag: "e1", Body: c19B1}, {Key: 8, ETag: "e1", Body: c19Body{ID: 110, Class: "valid"}}},
		Calls: []c19Call{{Key: 7, Reply: rp}},
		Sched: []c19Ev{{Call: 0}, {Expire: true, Key: 7}, {Call: 0}, {Call: 0}}}
	if public {
		cs.TimeoutSec = 600
	}
	return cs
}

// random family: 1-4 calls, one or two keys, full three-step interleavings,
// expiry anywhere, every reply shape; `hostile` raises the share of odd inputs
func c19Random(r *vh.Rng, hostile bool) *c19Case {
	cs := &c19Case{Family: "random", Etag: !r.Chance(1, 6), Mode: r.Pick([]string{"nil", "loose", "strict", "strict"}),
		NowFracMs: r.Intn(1000), ExpireHow: r.Pick([]string{"ttl", "delete"}), CleanupSec: -1, TimeoutSec: -1, CacheState: "random"}
	if hostile {
		cs.Family = "hostile"
		if r.Chance(1, 8) {
			cs.Mode = r.Pick([]string{"other", "Strict", ""})
		}
	}
	if r.Chance(1, 5) {
		cs.Public = true
		cs.TimeoutSec = []int{-1, 0, 600}[r.Intn(3)]
		cs.CleanupSec = []int{-1, 0, 600}[r.Intn(3)]
	}
	etags := []string{"e1", "e2", "e3", `W/"v4"`, `"5"`}
	keys := []int{7}
	if r.Chance(1, 3) {
		keys = []int{7, 8}
	}
	nextID := int64(1)
	newBody := func() c19Body {
		class := "valid"
		if r.Chance(1, 3) {
			class = c19Classes[r.Intn(len(c19Classes))]
		}
		b := c19Body{ID: c19ClassID(nextID, class), Class: class, Alt: r.Chance(1, 3)}
		nextID++
		return b
	}
	for _, k := range keys {
		if r.Chance(1, 2) {
			et := r.Pick(etags)
			if hostile && r.Chance(1, 10) {
				et = "" // unreachable through the code, but the cache type allows it
			}
			cs.Init = append(cs.Init, c19Init{Key: k, ETag: et, Body: newBody()})
		}
	}
	n := 1 + r.Intn(3)
	if hostile && r.Chance(1, 4) {
		n = 4
	}
	for i := 0; i < n; i++ {
		rp := c19Reply{RA: "absent", Body: newBody()}
		switch r.Intn(10) {
		case 0, 1, 2, 3:
			rp.Status = 200
		case 4, 5:
			rp.Status = 304
		case 6:
			rp.Status = 412
		case 7:
			rp.Status = 429
		default:
			rp.Status = c19Statuses[r.Intn(len(c19Statuses))]
		}
		if hostile && r.Chance(1, 5) {
			rp.Status = []int{0, 100, 199, 202, 206, 299, 300, 301, 303, 305, 411, 413, 428, 430, 600, -1}[r.Intn(16)]
		}
		if rp.Status == 200 && r.Chance(3, 4) || r.Chance(1, 5) {
			rp.ETag = r.Pick(etags)
		}
		if rp.Status == 429 || r.Chance(1, 6) {
			switch r.Intn(6) {
			case 0:
				rp.RA = "absent"
			case 1:
				rp.RA, rp.RAN = "num", int64(r.Intn(4000))
				if hostile {
					switch r.Intn(4) {
					case 0:
						rp.RAN = -int64(r.Intn(50))
					case 1:
						rp.RAText = "+" + strconv.FormatInt(rp.RAN, 10)
					case 2:
						rp.RAText = "00" + strconv.FormatInt(rp.RAN, 10)
					case 3:
						rp.RAN = 9223372036854775807
					}
				}
			case 2, 3:
				rp.RA, rp.RAN = "date", int64(r.Intn(7200)-600)
				if r.Chance(1, 2) {
					rp.RAText = "utc"
				}
			case 4:
				rp.RA = "garbage"
				rp.RAText = r.Pick([]string{"soon", "1.5", " 5", "5 ", "12abc", "0x10", "1_0", "Tue, 2 Jan 2024 03:04:10 GMT",
					"Tue, 02 Jan 2024 03:04:10 +0100", "2024-01-02T03:04:10Z", "Tuesday, 02-Jan-24 03:04:10 GMT"})
			default:
				rp.RA = r.Pick([]string{"huge", "hugeneg"})
			}
		}
		if r.Chance(1, 12) {
			rp.ReadFail = true
		}
		if r.Chance(1, 12) {
			rp = c19Reply{Transport: true}
		}
		cs.Calls = append(cs.Calls, c19Call{Key: keys[r.Intn(len(keys))], Reply: rp})
	}
	// a random interleaving of the calls' three steps
	left := make([]int, n)
	total := 3 * n
	for i := range left {
		left[i] = 3
	}
	for total > 0 {
		if r.Chance(1, 7) {
			cs.Sched = append(cs.Sched, c19Ev{Expire: true, Key: keys[r.Intn(len(keys))]})
			continue
		}
		i := r.Intn(n)
		if left[i] == 0 {
			continue
		}
		left[i]--
		total--
		cs.Sched = append(cs.Sched, c19Ev{Call: i})
	}
	if hostile && r.Chance(1, 10) {
		cs.Sched = append(cs.Sched, c19Ev{Call: 0}, c19Ev{Call: n + 3}) // steps of finished / unknown calls: no-ops
	}
	return cs
}

// hand-written corpus: one case per model clause and per repaired defect
func c19Corpus() []*c19Case {
	r304 := c19Reply{Status: 304, RA: "absent", Body: c19Body{ID: 63, Class: "invalid"}}
	r200e2 := c19Reply{Status: 200, ETag: "e2", RA: "absent", Body: c19Body{ID: 20, Class: "valid"}}
	init1 := []c19Init{{Key: 7, ETag: "e1", Body: c19B1}}
	mk := func(etag bool, mode string, init []c19Init, calls []c19Call, sched []c19Ev) *c19Case {
		return &c19Case{Family: "corpus", Etag: etag, Mode: mode, NowFracMs: 250, ExpireHow: "ttl", CleanupSec: -1, TimeoutSec: -1,
			CacheState: "corpus", Init: init, Calls: calls, Sched: sched}
	}
	one := func(rp c19Reply) []c19Call { return []c19Call{{Key: 7, Reply: rp}} }
	steps := func(l ...int) []c19Ev {
		var out []c19Ev
		for _, i := range l {
			if i < 0 {
				out = append(out, c19Ev{Expire: true, Key: 7})
			} else {
				out = append(out, c19Ev{Call: i})
			}
		}
		return out
	}
	out := []*c19Case{
		// strict mode accepts a well-formed answer (repaired defect) and rejects the others
		mk(false, "strict", nil, one(c19Reply{Status: 200, RA: "absent", Body: c19Body{ID: 20, Class: "valid"}}), c19Steps3(0)),
		mk(false, "strict", nil, one(c19Reply{Status: 200, RA: "absent", Body: c19Body{ID: 21, Class: "unknown"}}), c19Steps3(0)),
		mk(false, "strict", nil, one(c19Reply{Status: 200, RA: "absent", Body: c19Body{ID: 22, Class: "duplicate", Alt: true}}), c19Steps3(0)),
		mk(false, "loose", nil, one(c19Reply{Status: 200, RA: "absent", Body: c19Body{ID: 22, Class: "duplicate", Alt: true}}), c19Steps3(0)),
		mk(false, "nil", nil, one(c19Reply{Status: 200, RA: "absent", Body: c19Body{ID: 23, Class: "invalid"}}), c19Steps3(0)),
		// 304 with and without a cached entry
		mk(true, "loose", init1, one(r304), c19Steps3(0)),
		mk(true, "loose", nil, one(r304), c19Steps3(0)),
		mk(false, "loose", init1, one(r304), c19Steps3(0)),
		// the repaired 304 comparison: a foreign store between enrich and adjust
		mk(true, "loose", init1, []c19Call{{Key: 7, Reply: r304}, {Key: 7, Reply: r200e2}, {Key: 7, Reply: r304}}, steps(0, 1, 1, 1, 2, 0, 0, 2, 2)),
		mk(true, "loose", init1, []c19Call{{Key: 7, Reply: r304}, {Key: 7, Reply: r200e2}, {Key: 7, Reply: r304}}, steps(0, 0, 0, 1, 1, 1, 2, 2, 2)),
		// same ETag, other body stored in between: served the body now cached with the sent ETag
		mk(true, "loose", init1, []c19Call{{Key: 7, Reply: r304}, {Key: 7, Reply: c19SchedReplies[3]}}, steps(0, 1, 1, 1, 0, 0)),
		// expiry between enrich and adjust, both ways of expiring
		mk(true, "loose", init1, one(r304), steps(0, -1, 0, 0)),
		// 429 in every shape
		mk(true, "strict", init1, one(c19Reply{Status: 429, RA: "num", RAN: 17, Body: c19Body{ID: 23, Class: "invalid"}}), c19Steps3(0)),
		mk(false, "loose", nil, one(c19Reply{Status: 429, RA: "date", RAN: 3, Body: c19Body{ID: 20, Class: "valid"}}), c19Steps3(0)),
		mk(false, "loose", nil, one(c19Reply{Status: 429, RA: "date", RAN: -2, RAText: "utc", Body: c19Body{ID: 20, Class: "valid"}}), c19Steps3(0)),
		mk(false, "loose", nil, one(c19Reply{Status: 429, RA: "date", RAN: 0, Body: c19Body{ID: 20, Class: "valid"}}), c19Steps3(0)),
		mk(false, "loose", nil, one(c19Reply{Status: 429, RA: "garbage", RAText: "Tue, 2 Jan 2024 03:04:10 GMT", Body: c19Body{ID: 20, Class: "valid"}}), c19Steps3(0)),
		mk(false, "loose", nil, one(c19Reply{Status: 429, RA: "huge", Body: c19Body{ID: 20, Class: "valid"}}), c19Steps3(0)),
		mk(false, "loose", nil, one(c19Reply{Status: 429, RA: "absent", ReadFail: true, Body: c19Body{ID: 20, Class: "valid"}}), c19Steps3(0)),
		// timeout, unreadable body
		mk(true, "loose", init1, one(c19Reply{Transport: true}), c19Steps3(0)),
		mk(true, "loose", init1, one(c19Reply{Status: 200, ETag: "e2", RA: "absent", ReadFail: true, Body: c19Body{ID: 20, Class: "valid"}}), c19Steps3(0)),
		// strict: a body with an unknown field is cached, rejected, and rejected again on 304
		mk(true, "strict", nil, []c19Call{{Key: 7, Reply: c19SchedReplies[1]}, {Key: 7, Reply: r304}}, steps(0, 0, 0, 1, 1, 1)),
		// two parents that differ in the namespace only do not share an entry
		mk(true, "loose", init1, []c19Call{{Key: 8, Reply: r304}}, c19Steps3(0)),
	}
	del := *out[11]
	del.ExpireHow = "delete"
	out = append(out, &del)
	// the public constructor: no cleanup interval configured (repaired nil check), and every pointer set
	pub := *out[8]
	pub.Public = true
	out = append(out, &pub)
	pub2 := *out[5]
	pub2.Public, pub2.TimeoutSec, pub2.CleanupSec = true, 600, 600
	out = append(out, &pub2)
	pub3 := *out[0]
	pub3.Public = true
	out = append(out, &pub3)
	// strict + ETag: a rejected-but-cached body with a duplicate field / with both kinds of strict
	// error must be rejected again when 304 / 412 replays it (and accepted in loose mode)
	r412 := c19Reply{Status: 412, RA: "absent", Body: c19Body{ID: 63, Class: "invalid"}}
	dupE := c19Reply{Status: 200, ETag: "e5", RA: "absent", Body: c19Body{ID: 52, Class: "duplicate"}}
	bothE := c19Reply{Status: 200, ETag: "e5", RA: "absent", Body: c19Body{ID: 54, Class: "both"}}
	out = append(out,
		mk(true, "strict", nil, []c19Call{{Key: 7, Reply: dupE}, {Key: 7, Reply: r304}}, steps(0, 0, 0, 1, 1, 1)),
		mk(true, "strict", nil, []c19Call{{Key: 7, Reply: bothE}, {Key: 7, Reply: r412}, {Key: 7, Reply: r304}}, steps(0, 0, 0, 1, 1, 1, 2, 2, 2)),
		mk(true, "loose", nil, []c19Call{{Key: 7, Reply: bothE}, {Key: 7, Reply: r412}}, steps(0, 0, 0, 1, 1, 1)),
		mk(false, "strict", nil, one(c19Reply{Status: 200, RA: "absent", Body: c19Body{ID: 54, Class: "both", Alt: true}}), c19Steps3(0)))
	// a document followed by more bytes is undecodable in every mode (white space only is fine)
	for _, cl := range []string{"trailing-garbage", "two-documents", "stray-brace", "trailing-space"} {
		for _, mode := range []string{"nil", "loose", "strict"} {
			out = append(out, mk(mode == "loose", mode, nil,
				one(c19Reply{Status: 200, RA: "absent", Body: c19Body{ID: c19ClassID(9, cl), Class: cl, Alt: mode == "strict"}}), c19Steps3(0)))
		}
	}
	pub4 := *out[5]
	pub4.Public, pub4.TimeoutSec, pub4.CleanupSec = true, 600, -1
	out = append(out, &pub4)
	// real timers: the entry's TTL elapses (before the call; between enrich and adjust; after a store)
	for _, sched := range [][]c19Ev{steps(-1, 0, 0, 0), steps(0, -1, 0, 0)} {
		rc := *out[5]
		rc.ExpireHow, rc.Sched = "real", sched
		out = append(out, &rc)
	}
	rc := *out[9]
	rc.ExpireHow, rc.Sched = "real", steps(0, 0, 0, 1, 1, 1, -1, 2, 2, 2)
	out = append(out, &rc)
	return out
}

// ---------------------------------------------------------------- timed cases

// One exchange with scripted timing against the real server, through the executor
// NewWebhookExecutor builds for a webhook with a short timeout.
type c19Timed struct {
	Scenario  string   `json:"scenario"`
	Etag      bool     `json:"etag"`
	Mode      string   `json:"mode"`
	TimeoutMs int      `json:"timeoutMs"`
	HeadersMs int      `json:"headersMs"` // -1: never
	DoneMs    int      `json:"doneMs"`    // -1: never; otherwise when the last body byte is sent
	StallAt   int      `json:"stallAt"`   // body bytes sent with the headers before stalling / trickling
	TrickleMs int      `json:"trickleMs"` // > 0: one byte per TrickleMs after StallAt
	Reply     c19Reply `json:"reply"`
}

type c19TimedRun struct {
	tc   *c19Timed
	stop chan struct{}
}

type c19TimedObs struct {
	kind      string // ok | err | toomany | panic | never
	id, secs  int64
	inBound   bool
	elapsedMs int64
}

func (run *c19TimedRun) serve(w http.ResponseWriter, r *http.Request) {
	tc := run.tc
	t0 := time.Now()
	// false: the client went away or the harness gave up
	until := func(ms int) bool {
		var tm <-chan time.Time
		if ms >= 0 {
			d := time.Until(t0.Add(time.Duration(ms) * time.Millisecond))
			if d <= 0 {
				return true
			}
			tm = time.After(d)
		}
		select {
		case <-tm:
			return true
		case <-r.Context().Done():
		case <-run.stop:
		}
		return false
	}
	if !until(tc.HeadersMs) {
		panic(http.ErrAbortHandler)
	}
	c19WriteHead(w, tc.Reply)
	w.WriteHeader(tc.Reply.Status)
	text := []byte(tc.Reply.Body.text())
	if tc.StallAt < 0 || tc.StallAt >= len(text) {
		_, _ = w.Write(text)
		return
	}
	_, _ = w.Write(text[:tc.StallAt])
	w.(http.Flusher).Flush()
	if tc.TrickleMs <= 0 {
		until(-1)
		panic(http.ErrAbortHandler)
	}
	for i := tc.StallAt; i < len(text); i++ {
		if !until(int(time.Since(t0)/time.Millisecond) + tc.TrickleMs) {
			panic(http.ErrAbortHandler)
		}
		if _, err := w.Write(text[i : i+1]); err != nil {
			return
		}
		w.(http.Flusher).Flush()
	}
}

func c19TimedBound(tc *c19Timed) time.Duration {
	return 3*time.Duration(tc.TimeoutMs)*time.Millisecond + 3*time.Second
}

var c19TimedSeq = struct {
	sync.Mutex
	n int
}{}

func (s *c19Server) runTimed(tc *c19Timed) c19TimedObs {
	obs := &c19TimedObs{} // written by the calling goroutine only, read after `done`
	c19TimedSeq.Lock()
	c19TimedSeq.n++
	id := c19TimedSeq.n
	c19TimedSeq.Unlock()
	run := &c19TimedRun{tc: tc, stop: make(chan struct{})}
	s.mu.Lock()
	s.timed[id] = run
	s.mu.Unlock()
	defer func() {
		s.mu.Lock()
		delete(s.timed, id)
		s.mu.Unlock()
	}()
	done := make(chan struct{})
	start := time.Now()
	go func() {
		defer close(done)
		defer func() {
			if r := recover(); r != nil {
				obs.kind = "panic"
			}
		}()
		url := c19URL
		wh := &v1alpha1.Webhook{URL: &url, ResponseUnmarshallMode: c19Mode(tc.Mode),
			Timeout: &metav1.Duration{Duration: time.Duration(tc.TimeoutMs) * time.Millisecond}}
		if tc.Etag {
			on := true
			wh.Etag = &v1alpha1.WebhookEtagConfig{Enabled: &on}
		}
		e, err := NewWebhookExecutor(wh, "c19", common.CompositeController, common.SyncHook)
		if err != nil {
			obs.kind = "err"
			return
		}
		exec := e.(*webhookExecutor)
		exec.now = func() time.Time { return c19Base.Add(250 * time.Millisecond) }
		var resp compositev1.CompositeHookResponse
		err = exec.Call(&c19Request{Timed: id, Parent: c19Parent(7)}, &resp)
		var tm *TooManyRequestError
		switch {
		case err == nil:
			obs.kind, obs.id = "ok", -1
			switch v := resp.Status["a"].(type) {
			case int64:
				obs.id = v
			case float64:
				obs.id = int64(v)
			}
		case errors.As(err, &tm):
			obs.kind, obs.secs = "toomany", int64(tm.AfterSecond)
		default:
			obs.kind = "err"
		}
	}()
	bound := c19TimedBound(tc)
	select {
	case <-done:
		el := time.Since(start)
		obs.elapsedMs = int64(el / time.Millisecond)
		obs.inBound = el <= bound
		return *obs
	case <-time.After(bound + 2*time.Second): // watchdog: the call is stuck
	}
	close(run.stop) // the handler aborts the connection, which unblocks the client
	select {
	case <-done:
	case <-time.After(10 * time.Second):
	}
	return c19TimedObs{kind: "never", elapsedMs: int64(time.Since(start) / time.Millisecond)}
}

func (tc *c19Timed) coq(o c19TimedObs) string {
	opt := func(ms int) string {
		if ms < 0 {
			return "None"
		}
		return "(Some " + vh.CoqZ(int64(ms)) + ")"
	}
	out := "INotRun"
	switch o.kind {
	case "ok":
		out = "(IOk " + vh.CoqZ(o.id) + ")"
	case "err":
		out = "IErr"
	case "toomany":
		out = "(ITooMany " + vh.CoqZ(o.secs) + ")"
	case "panic":
		out = "IPanic"
	case "never":
		out = "INeverReturned"
	}
	rp := tc.Reply.coq(250)
	rp = strings.TrimSuffix(strings.TrimPrefix(rp, "(Reply "), ")")
	return fmt.Sprintf("mkC19T %s %s %s %s %s %s %s %s", vh.CoqBool(tc.Etag), vh.CoqBool(tc.Mode == "strict"),
		vh.CoqZ(int64(tc.TimeoutMs)), opt(tc.HeadersMs), opt(tc.DoneMs), rp, out, vh.CoqBool(o.inBound))
}

// is the part of the exchange the client needs over within the timeout? (mirrors exchange_in_time)
func (tc *c19Timed) inTime() bool {
	in := func(ms int) bool { return ms >= 0 && ms <= tc.TimeoutMs }
	return in(tc.HeadersMs) && (tc.Reply.Status == 429 || in(tc.DoneMs))
}

// scenarios x ETag support on/off; scripted times are far from the timeout (>= 4x or <= 1/10)
func c19TimedCases() []*c19Timed {
	var out []*c19Timed
	ok200 := func(id int64) c19Reply {
		return c19Reply{Status: 200, ETag: "e2", RA: "absent", Body: c19Body{ID: id, Class: "valid"}}
	}
	for i, etag := range []bool{false, true} {
		short := []int{250, 300}[i]
		mode := []string{"loose", "strict"}[i]
		bodyLen := len(ok200(20).Body.text())
		out = append(out,
			// no answer at all
			&c19Timed{Scenario: "no-answer", Etag: etag, Mode: mode, TimeoutMs: short, HeadersMs: -1, DoneMs: -1, StallAt: -1, Reply: ok200(20)},
			// the complete answer, but long after the timeout
			&c19Timed{Scenario: "headers-late", Etag: etag, Mode: mode, TimeoutMs: short, HeadersMs: short + 1200, DoneMs: short + 1200, StallAt: -1, Reply: ok200(20)},
			// status line, headers and half of the body at once, then silence
			&c19Timed{Scenario: "body-stalls", Etag: etag, Mode: mode, TimeoutMs: short, HeadersMs: 0, DoneMs: -1, StallAt: bodyLen / 2, Reply: ok200(20)},
			// headers at once, the body one byte per 100 ms: complete only after seconds
			&c19Timed{Scenario: "body-trickles", Etag: etag, Mode: mode, TimeoutMs: short, HeadersMs: 0, DoneMs: 100 * bodyLen, StallAt: 0, TrickleMs: 100, Reply: ok200(20)},
			// a 304 whose (empty) body never ends: without an If-None-Match sent it is an error either way
			&c19Timed{Scenario: "no-answer-304", Etag: etag, Mode: mode, TimeoutMs: short, HeadersMs: -1, DoneMs: -1, StallAt: -1,
				Reply: c19Reply{Status: 304, RA: "absent", Body: c19Body{ID: 63, Class: "invalid"}}},
			// 429 is answered from the headers: a stalling body does not matter
			&c19Timed{Scenario: "429-body-stalls", Etag: etag, Mode: mode, TimeoutMs: short, HeadersMs: 0, DoneMs: -1, StallAt: 5,
				Reply: c19Reply{Status: 429, RA: "num", RAN: 7, Body: c19Body{ID: 20, Class: "valid"}}},
			// the complete answer well inside a long timeout: must succeed
			&c19Timed{Scenario: "inside", Etag: etag, Mode: mode, TimeoutMs: 3000, HeadersMs: 150, DoneMs: 150, StallAt: -1, Reply: ok200(20)},
			// complete, slowly but inside: headers at once, the body in two parts 200 ms apart
			&c19Timed{Scenario: "inside-two-parts", Etag: etag, Mode: mode, TimeoutMs: 3000, HeadersMs: 0, DoneMs: 200, StallAt: bodyLen - 1, TrickleMs: 200, Reply: ok200(20)},
		)
	}
	return out
}

// run all timed cases at once (each waits on timers most of the time) and judge one-sidedly;
// an attempt that only the machine's load can explain (late error, failed `inside`) is repeated
func c19RunTimedAll(s *c19Server, cases []*c19Timed) []c19TimedObs {
	res := make([]c19TimedObs, len(cases))
	var wg sync.WaitGroup
	for i, tc := range cases {
		wg.Add(1)
		go func(i int, tc *c19Timed) {
			defer wg.Done()
			for attempt := 0; attempt < 3; attempt++ {
				o := s.runTimed(tc)
				res[i] = o
				loadExplains := (tc.inTime() && o.kind == "err") || (!tc.inTime() && o.kind == "err" && !o.inBound)
				if !loadExplains {
					return
				}
			}
		}(i, tc)
	}
	wg.Wait()
	return res
}

// ---------------------------------------------------------------- the test

func TestVerif_C19(t *testing.T) {
	env := vh.GetEnv()
	if env.OutDir == "" {
		t.Skip("VERIF_OUT not set")
	}
	logging.Logger = logr.Discard()
	router := c19NewServer()
	defer router.srv.Close()
	oldTransport := http.DefaultTransport
	http.DefaultTransport = router.transport()
	defer func() { http.DefaultTransport = oldTransport }()

	header := "From MC Require Import Check.C19_check.\nOpen Scope string_scope.\n"
	// VERIF_PROP=C17h: the same cases serve property C17's clause on parallel hook calls (the
	// interleaved calls of one hook give each call what it gets alone); same check function
	prop := "C19"
	// VERIF_PROP=C13h: the same cases judged for property C13 (no status code, header
	// combination, body or cache state makes Call panic: a recovered panic is PROPFAIL "panic")
	if p := os.Getenv("VERIF_PROP"); p == "C17h" || p == "C13h" {
		prop = p
	}
	w, err := vh.NewCaseWriter(env.OutDir, prop, header, 400)
	if err != nil {
		t.Fatal(err)
	}
	// enumIdx >= 0: the case is element enumIdx of its family's enumeration (the replay record stays small)
	emit := func(id string, cs *c19Case, seed uint64, enumIdx int) {
		cs.fitForHTTP()
		if err := cs.validate(); err != nil {
			t.Fatalf("case %s: %v", id, err)
		}
		var obs c19Obs
		for attempt := 0; ; attempt++ {
			obs = c19Run(t, router, cs)
			if !obs.timingBad {
				break
			}
			if attempt == 5 {
				w.Count("real-expiry-timing-skipped")
				return
			}
		}
		def := cs.coq(obs)
		feats := []string{"family-" + cs.Family}
		replay := map[string]interface{}{"seed": seed, "features": feats, "spec": cs}
		if enumIdx >= 0 {
			replay = map[string]interface{}{"features": feats, "enum": cs.Family, "index": enumIdx}
		}
		if err := w.Add(id, def, "C19_check", replay); err != nil {
			t.Fatal(err)
		}
		// distribution
		w.Count("family-" + cs.Family)
		w.Count(fmt.Sprintf("calls-%d", len(cs.Calls)))
		if cs.Mode == "" {
			w.Count("mode-empty-string")
		} else {
			w.Count("mode-" + cs.Mode)
		}
		if cs.Etag {
			w.Count("etag-on")
		} else {
			w.Count("etag-off")
		}
		if cs.Public {
			w.Count("via-NewWebhookExecutor")
		}
		w.Count("cache-" + cs.CacheState)
		nontrivial := false
		nexp := 0
		for _, e := range cs.Sched {
			if e.Expire {
				nexp++
			}
		}
		if nexp > 0 {
			w.Count("expire-how-" + cs.ExpireHow)
		}
		if len(cs.Calls) > 1 {
			// is the schedule a genuine interleaving (some call starts before another has finished)?
			open, overlapped := 0, false
			seen := make([]int, len(cs.Calls))
			for _, e := range cs.Sched {
				if e.Expire || e.Call < 0 || e.Call >= len(seen) {
					continue
				}
				seen[e.Call]++
				if seen[e.Call] == 1 {
					if open > 0 {
						overlapped = true
					}
					open++
				}
				if seen[e.Call] == 3 {
					open--
				}
			}
			if overlapped {
				w.Count("schedule-overlapping")
			} else {
				w.Count("schedule-sequential")
			}
		}
		for i, c := range cs.Calls {
			s := obs.calls[i]
			if c.Reply.Transport {
				w.Count("reply-transport-error")
				nontrivial = true
			} else {
				w.Count(fmt.Sprintf("status-%d", c.Reply.Status))
				if c.Reply.ETag != "" {
					w.Count("etag-header-yes")
				} else {
					w.Count("etag-header-no")
				}
				w.Count("retry-after-" + c.Reply.RA)
				w.Count("body-" + c.Reply.Body.Class)
				if c.Reply.ReadFail {
					w.Count("body-read-fails")
				}
				if c.Reply.Status != 200 {
					nontrivial = true
				}
			}
			if s.sent != "" {
				w.Count("if-none-match-sent")
				nontrivial = true // a cache hit
			}
			w.Count("outcome-" + s.kind)
			if s.kind == "ok" && !c.Reply.Transport && c.Reply.Status != 200 {
				w.Count("served-from-cache")
			}
			if !c.Reply.Transport && (c.Reply.Status == 304 || c.Reply.Status == 412) && s.sent != "" {
				// which body would a replay use? (the entry cached with the ETag sent, by the case's own data)
				for _, cl := range cs.replayClasses(c.Key, s.sent) {
					w.Count("replay-" + fmt.Sprint(c.Reply.Status) + "-of-" + cl + "-body-mode-" + cs.Mode)
				}
			}
			if s.started && !cs.Public && !c.Reply.Transport && !s.closed {
				w.Count("response-body-not-closed")
			}
			if s.nsent > 1 {
				w.Count("if-none-match-sent-twice")
			}
		}
		if nontrivial {
			w.NonTrivial(def)
		}
	}

	if env.Replay != "" {
		data, err := os.ReadFile(env.Replay)
		if err != nil {
			t.Fatal(err)
		}
		var rf struct {
			Case struct {
				Spec  *c19Case  `json:"spec"`
				Timed *c19Timed `json:"timed"`
				Enum  string    `json:"enum"`
				Index int       `json:"index"`
			} `json:"case"`
		}
		if err := json.Unmarshal(data, &rf); err != nil {
			t.Fatal(err)
		}
		if rf.Case.Timed != nil {
			for i, o := range c19RunTimedAll(router, []*c19Timed{rf.Case.Timed}) {
				if err := w.Add("replay", rf.Case.Timed.coq(o), "C19_timed_check", map[string]interface{}{"timed": rf.Case.Timed, "observed": o.kind}); err != nil {
					t.Fatal(err)
				}
				_ = i
			}
			if err := w.Close(nil); err != nil {
				t.Fatal(err)
			}
			return
		}
		cs := rf.Case.Spec
		switch rf.Case.Enum {
		case "single":
			cs = c19Single(rf.Case.Index)
		case "interleave-2":
			cs = c19Sched(2, rf.Case.Index)
		case "interleave-3":
			cs = c19Sched(3, rf.Case.Index)
		case "strict-replay":
			cs = c19Replay(rf.Case.Index)
		case "expired-between":
			cs = c19ExpiredMid(rf.Case.Index)
		}
		if cs == nil {
			t.Fatalf("replay file %s holds no C19 case", env.Replay)
		}
		emit("replay", cs, 0, -1)
		if err := w.Close(nil); err != nil {
			t.Fatal(err)
		}
		return
	}

	for i, cs := range c19Corpus() {
		emit(fmt.Sprintf("k%d", i), cs, 0, -1)
	}
	emitTimed := func(prefix string, cases []*c19Timed) {
		for i, o := range c19RunTimedAll(router, cases) {
			tc := cases[i]
			feats := []string{"family-timed", "timed-" + tc.Scenario}
			def := tc.coq(o)
			if err := w.Add(fmt.Sprintf("%s%d", prefix, i), def, "C19_timed_check",
				map[string]interface{}{"features": feats, "timed": tc, "observed": o.kind, "elapsedMs": o.elapsedMs}); err != nil {
				t.Fatal(err)
			}
			w.Count("family-timed")
			w.Count("timed-" + tc.Scenario)
			w.Count("timed-outcome-" + o.kind)
			if !o.inBound && o.kind != "never" {
				w.Count("timed-returned-late")
			}
			w.Count("via-NewWebhookExecutor")
			w.NonTrivial(fmt.Sprintf("timed|%s|%v|%s|%d", tc.Scenario, tc.Etag, tc.Mode, tc.TimeoutMs))
		}
	}
	emitTimed("w", c19TimedCases())
	n := env.N
	if n == 0 {
		n = 600
	}
	root := vh.NewRng(env.Seed ^ 0xc19)
	if os.Getenv("VERIF_ADV") == "1" {
		for i := 0; i < n; i++ {
			r, seed := root.Fork()
			emit(fmt.Sprintf("h%d", i), c19Random(r, true), seed, -1)
		}
	} else {
		nR := c19NumReplays()
		for i := 0; i < nR; i++ {
			emit(fmt.Sprintf("r%d", i), c19Replay(i), 0, i)
		}
		w.Counts["enumeration-strict-replay"] = nR
		nE := c19NumExpiredMid()
		for i := 0; i < nE; i++ {
			emit(fmt.Sprintf("e%d", i), c19ExpiredMid(i), 0, i)
		}
		w.Counts["enumeration-expired-between"] = nE
		nS, n2, n3 := c19NumSingles(), c19NumScheds(2), c19NumScheds(3)
		nRandom := n / 10
		// the enumerations fit: take all of them and give the random family what is left of n
		exhaustive := nS+n2+n3 <= n*95/100
		if exhaustive && nRandom > n-(nS+n2+n3) {
			nRandom = n - (nS + n2 + n3)
		}
		sample := func(prefix string, total, want int, mk func(int) *c19Case) {
			if exhaustive || want >= total {
				for i := 0; i < total; i++ {
					emit(fmt.Sprintf("%s%d", prefix, i), mk(i), 0, i)
				}
				return
			}
			r, _ := root.Fork()
			seen := map[int]bool{}
			for len(seen) < want {
				i := r.Intn(total)
				if seen[i] {
					continue
				}
				seen[i] = true
				emit(fmt.Sprintf("%s%d", prefix, i), mk(i), 0, i)
			}
		}
		rest := n - nRandom
		sample("s", nS, rest*45/100, c19Single)
		sample("d", n2, rest*15/100, func(i int) *c19Case { return c19Sched(2, i) })
		sample("t", n3, rest-rest*45/100-rest*15/100, func(i int) *c19Case { return c19Sched(3, i) })
		for i := 0; i < nRandom; i++ {
			r, seed := root.Fork()
			emit(fmt.Sprintf("x%d", i), c19Random(r, i%4 == 3), seed, -1)
		}
		w.Counts["enumeration-singles"] = nS
		w.Counts["enumeration-interleavings-2"] = n2
		w.Counts["enumeration-interleavings-3"] = n3
		if exhaustive {
			w.Count("enumeration-exhaustive")
		}
	}
	if err := w.Close(nil); err != nil {
		t.Fatal(err)
	}
	fmt.Fprintf(os.Stderr, "C19: wrote %d cases\n", w.Total)
}
