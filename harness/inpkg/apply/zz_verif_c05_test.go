package apply

import (
	"fmt"
	"os"
	"reflect"
	"testing"

	vh "metacontroller/pkg/internal/verifh"

	"k8s.io/apimachinery/pkg/runtime"
)

type mergeOutcome struct {
	kind string // ok | err | panic
	val  interface{}
}

func runMerge(o, l, d map[string]interface{}) (out mergeOutcome) {
	defer func() {
		if r := recover(); r != nil {
			out = mergeOutcome{kind: "panic"}
		}
	}()
	r, err := Merge(o, l, d)
	if err != nil {
		return mergeOutcome{kind: "err"}
	}
	return mergeOutcome{kind: "ok", val: vh.Normalize(r)}
}

func coqOutcome(o mergeOutcome) string {
	switch o.kind {
	case "ok":
		return "(Ok " + vh.MustCoqJSON(o.val) + ")"
	case "err":
		return "Err"
	}
	return "Panic"
}

func copyMap(m map[string]interface{}) map[string]interface{} {
	if m == nil {
		return nil
	}
	return runtime.DeepCopyJSON(m)
}

// TestVerif_C05 drives the real apply.Merge on generated triples and writes
// the observed behaviour as Coq cases.
func TestVerif_C05(t *testing.T) {
	env := vh.GetEnv()
	if env.OutDir == "" {
		t.Skip("VERIF_OUT not set")
	}
	header := "From MC Require Import Check.C05_check.\nOpen Scope string_scope.\n"
	w, err := vh.NewCaseWriter(env.OutDir, "C05", header, 400)
	if err != nil {
		t.Fatal(err)
	}
	n := env.N
	if n == 0 {
		n = 600
	}
	root := vh.NewRng(env.Seed ^ 0xc05)
	emit := func(id string, seed uint64, hostile bool, o, l, d map[string]interface{}) {
		// an absent last-applied record is a nil map, as GetLastApplied returns it
		o0, l0, d0 := copyMap(o), copyMap(l), copyMap(d)
		out := runMerge(o, l, d)
		mutated := !reflect.DeepEqual(o, o0) || !reflect.DeepEqual(l, l0) || !reflect.DeepEqual(d, d0)
		second := mergeOutcome{kind: "err"}
		if out.kind == "ok" {
			if rm, ok := out.val.(map[string]interface{}); ok {
				second = runMerge(copyMap(rm), copyMap(d0), copyMap(d0))
			}
		}
		var lj interface{} = l0
		if l0 == nil {
			lj = nil
		}
		def := fmt.Sprintf("mkC05 %s %s %s %s %s %s", vh.MustCoqJSON(map[string]interface{}(o0)), vh.MustCoqJSON(lj),
			vh.MustCoqJSON(map[string]interface{}(d0)), coqOutcome(out), coqOutcome(second), vh.CoqBool(mutated))
		replay := map[string]interface{}{"seed": seed, "hostile": hostile, "observed": o0, "lastApplied": lj, "desired": d0, "impl": out.kind}
		if err := w.Add(id, def, "C05_check", replay); err != nil {
			t.Fatal(err)
		}
		w.Count("outcome-" + out.kind)
		if hostile {
			w.Count("stream-hostile")
		} else {
			w.Count("stream-wellformed")
		}
		dep := vh.Depth(o0)
		if vh.Depth(d0) > dep {
			dep = vh.Depth(d0)
		}
		w.Count(fmt.Sprintf("depth-%d", dep))
		if dep >= 2 && !reflect.DeepEqual(o0, d0) && !reflect.DeepEqual(map[string]interface{}(l0), d0) && !reflect.DeepEqual(o0, map[string]interface{}(l0)) {
			w.NonTrivial(def)
		}
	}
	// corpus first
	for i, c := range c05Corpus() {
		emit(fmt.Sprintf("k%d", i), 0, false, c[0], c[1], c[2])
	}
	for i := 0; i < n; i++ {
		r, seed := root.Fork()
		hostile := i%8 == 7
		g := vh.NewTripleGen(r, vh.TripleOpts{MaxDepth: 2 + r.Intn(3), Hostile: hostile})
		o, l, d := g.ObjTriple(0)
		if r.Chance(1, 6) {
			l = nil
		}
		for k, v := range g.Feat {
			w.Counts["gen-"+k] += v
		}
		emit(fmt.Sprintf("c%d", i), seed, hostile, o, l, d)
	}
	if err := w.Close(nil); err != nil {
		t.Fatal(err)
	}
	fmt.Fprintf(os.Stderr, "C05: wrote %d cases\n", w.Total)
}

type m = map[string]interface{}
type a = []interface{}

// hand-written seeds: one per model clause and per ledger entry
func c05Corpus() [][3]map[string]interface{} {
	return [][3]map[string]interface{}{
		{m{"a": m{"k": "v"}}, nil, m{"a": "scalar"}},                       // D1: clash object vs scalar
		{m{"a": a{int64(1)}}, nil, m{"a": m{"k": "v"}}},                    // clash list vs object
		{m{"a": "s"}, nil, m{"a": m{"k": "v"}}},                            // scalar replaced by object
		{m{"a": m{"x": int64(1), "y": int64(2)}}, m{"a": m{"x": int64(1)}}, m{"a": nil}}, // explicit null over a container
		{m{"l": a{m{"name": "a", "port": int64(80)}}}, m{"l": a{m{"name": "b"}}}, m{"l": a{m{"name": "b", "port": int64(80)}}}}, // D21
		{m{"l": a{m{"name": "a", "x": int64(1)}, m{"name": "b"}}}, m{"l": a{m{"name": "b"}}}, m{"l": a{m{"name": "c"}, m{"name": "a", "y": int64(2)}}}},
		{m{"l": a{int64(1), int64(2)}}, m{"l": a{int64(1)}}, m{"l": a{int64(3)}}},
		{m{"l": a{m{"name": "a"}}}, m{}, m{"l": nil}},
		{m{"l": a{int64(1)}}, m{}, m{"l": nil}},
		{m{"x": 1.5, "y": int64(1)}, m{"x": 1.5}, m{"y": 2.5}},
		{m{"a": a{m{"name": "a"}}}, m{"a": a{m{"name": "a"}}}, m{"a": nil}}, // D25: explicit null over a list map: [] then null
	}
}
