package verifsim

import (
	"io"
	"net/http"
	"sort"
	"sync"

	utiljson "k8s.io/apimachinery/pkg/util/json"
)

// watcher is one open WATCH stream. It is also the response body: Read blocks
// until an event has been emitted or the stream is closed; Close (called by
// client-go when the watch is stopped) terminates and deregisters the stream.
type watcher struct {
	srv *Server
	id  int
	key resKey
	ns  string

	mu     sync.Mutex
	cond   *sync.Cond
	buf    []byte
	closed bool
	done   chan struct{}
}

// openWatchLocked registers a new watcher; s.mu must be held.
func (s *Server) openWatchLocked(key resKey, ns string) *watcher {
	w := &watcher{srv: s, id: s.nextWatch, key: key, ns: ns, done: make(chan struct{})}
	w.cond = sync.NewCond(&w.mu)
	s.nextWatch++
	s.watches[w.id] = w
	return w
}

func (s *Server) watchResponse(req *http.Request, w *watcher) *http.Response {
	ctx := req.Context()
	if ctx.Done() != nil {
		go func() {
			select {
			case <-ctx.Done():
				w.Close()
			case <-w.done:
			}
		}()
	}
	return &http.Response{
		Status:        "200 OK",
		StatusCode:    200,
		Proto:         "HTTP/1.1",
		ProtoMajor:    1,
		ProtoMinor:    1,
		Header:        http.Header{"Content-Type": []string{"application/json"}},
		Body:          w,
		ContentLength: -1,
		Request:       req,
	}
}

func (w *watcher) Read(p []byte) (int, error) {
	w.mu.Lock()
	defer w.mu.Unlock()
	for len(w.buf) == 0 && !w.closed {
		w.cond.Wait()
	}
	if len(w.buf) == 0 {
		return 0, io.EOF
	}
	n := copy(p, w.buf)
	w.buf = w.buf[n:]
	return n, nil
}

// terminate marks the stream closed; it reports whether this call closed it.
func (w *watcher) terminate() bool {
	w.mu.Lock()
	defer w.mu.Unlock()
	if w.closed {
		return false
	}
	w.closed = true
	close(w.done)
	w.cond.Broadcast()
	return true
}

// Close terminates the stream and removes it from the server.
func (w *watcher) Close() error {
	w.terminate()
	w.srv.mu.Lock()
	delete(w.srv.watches, w.id)
	w.srv.mu.Unlock()
	return nil
}

func (w *watcher) push(line []byte) {
	w.mu.Lock()
	defer w.mu.Unlock()
	if w.closed {
		return
	}
	w.buf = append(w.buf, line...)
	w.cond.Broadcast()
}

// Emit sends a watch event ("ADDED", "MODIFIED", "DELETED") carrying obj to all
// open watches of obj's resource (respecting each watch's namespace).
func (s *Server) Emit(eventType string, obj map[string]interface{}) {
	o := copyObj(obj)
	line, err := utiljson.Marshal(map[string]interface{}{"type": eventType, "object": o})
	if err != nil {
		panic("verifsim: Emit: " + err.Error())
	}
	line = append(line, '\n')
	ns := metaString(o, "namespace")

	s.mu.Lock()
	defer s.mu.Unlock()
	r := s.kindResource(objString(o, "apiVersion"), objString(o, "kind"))
	key := resKey{r.APIVersion(), r.Resource}
	ids := make([]int, 0, len(s.watches))
	for id := range s.watches {
		ids = append(ids, id)
	}
	sort.Ints(ids)
	for _, id := range ids {
		w := s.watches[id]
		if w.key != key || (w.ns != "" && w.ns != ns) {
			continue
		}
		w.push(line)
	}
}

// WatchCount returns the number of currently open watches for the resource.
func (s *Server) WatchCount(apiVersion, kind string) int {
	s.mu.Lock()
	defer s.mu.Unlock()
	r := s.kindResource(apiVersion, kind)
	key := resKey{r.APIVersion(), r.Resource}
	n := 0
	for _, w := range s.watches {
		if w.key == key {
			n++
		}
	}
	return n
}

// Close terminates all currently open watches. The server stays usable:
// clients may list and watch again afterwards.
func (s *Server) Close() {
	s.mu.Lock()
	ws := make([]*watcher, 0, len(s.watches))
	for _, w := range s.watches {
		ws = append(ws, w)
	}
	s.watches = map[int]*watcher{}
	s.mu.Unlock()
	for _, w := range ws {
		w.terminate()
	}
}
