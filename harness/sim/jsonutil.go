package verifsim

import (
	"fmt"
	"reflect"
	"sort"
	"strconv"
	"strings"

	utiljson "k8s.io/apimachinery/pkg/util/json"
	utilyaml "k8s.io/apimachinery/pkg/util/yaml"
)

// decodeJSON decodes data into generic JSON values. Integral numbers become
// int64, other numbers float64 (k8s.io/apimachinery/pkg/util/json semantics).
func decodeJSON(data []byte) (interface{}, error) {
	var v interface{}
	if err := utiljson.Unmarshal(data, &v); err != nil {
		return nil, err
	}
	return v, nil
}

// decodeJSONOrYAML is decodeJSON with a YAML fallback (used for apply patches).
func decodeJSONOrYAML(data []byte) (interface{}, error) {
	v, err := decodeJSON(data)
	if err == nil {
		return v, nil
	}
	j, yerr := utilyaml.ToJSON(data)
	if yerr != nil {
		return nil, err
	}
	return decodeJSON(j)
}

// deepCopy returns a normalized deep copy of a generic JSON value: maps are
// map[string]interface{}, lists []interface{}, integers int64, floats float64.
func deepCopy(v interface{}) interface{} {
	switch t := v.(type) {
	case nil:
		return nil
	case map[string]interface{}:
		if t == nil {
			return map[string]interface{}(nil)
		}
		m := make(map[string]interface{}, len(t))
		for k, e := range t {
			m[k] = deepCopy(e)
		}
		return m
	case []interface{}:
		if t == nil {
			return []interface{}(nil)
		}
		l := make([]interface{}, len(t))
		for i, e := range t {
			l[i] = deepCopy(e)
		}
		return l
	case string, bool, int64, float64:
		return t
	case int:
		return int64(t)
	case int32:
		return int64(t)
	case int16:
		return int64(t)
	case int8:
		return int64(t)
	case uint:
		return int64(t)
	case uint32:
		return int64(t)
	case uint64:
		return int64(t)
	case float32:
		return float64(t)
	case map[string]string:
		m := make(map[string]interface{}, len(t))
		for k, e := range t {
			m[k] = e
		}
		return m
	case []string:
		l := make([]interface{}, len(t))
		for i, e := range t {
			l[i] = e
		}
		return l
	case []map[string]interface{}:
		l := make([]interface{}, len(t))
		for i, e := range t {
			l[i] = deepCopy(e)
		}
		return l
	default:
		// Anything else (typed structs, ...): round-trip through JSON.
		data, err := utiljson.Marshal(v)
		if err != nil {
			panic(fmt.Sprintf("verifsim: cannot copy value of type %T: %v", v, err))
		}
		out, err := decodeJSON(data)
		if err != nil {
			panic(fmt.Sprintf("verifsim: cannot copy value of type %T: %v", v, err))
		}
		return out
	}
}

func copyObj(m map[string]interface{}) map[string]interface{} {
	if m == nil {
		return nil
	}
	return deepCopy(m).(map[string]interface{})
}

func jsonEqual(a, b interface{}) bool { return reflect.DeepEqual(a, b) }

func sortedKeys(m map[string]interface{}) []string {
	keys := make([]string, 0, len(m))
	for k := range m {
		keys = append(keys, k)
	}
	sort.Strings(keys)
	return keys
}

// ---- object accessors -------------------------------------------------------

func getMeta(obj map[string]interface{}) map[string]interface{} {
	m, _ := obj["metadata"].(map[string]interface{})
	return m
}

// ensureMeta returns obj.metadata, creating (or replacing a non-map) if needed.
func ensureMeta(obj map[string]interface{}) map[string]interface{} {
	m, ok := obj["metadata"].(map[string]interface{})
	if !ok || m == nil {
		m = map[string]interface{}{}
		obj["metadata"] = m
	}
	return m
}

func metaString(obj map[string]interface{}, field string) string {
	s, _ := getMeta(obj)[field].(string)
	return s
}

func hasMeta(obj map[string]interface{}, field string) bool {
	v, ok := getMeta(obj)[field]
	return ok && v != nil
}

func objString(obj map[string]interface{}, field string) string {
	s, _ := obj[field].(string)
	return s
}

func getFinalizers(obj map[string]interface{}) []string {
	l, _ := getMeta(obj)["finalizers"].([]interface{})
	out := make([]string, 0, len(l))
	for _, e := range l {
		if s, ok := e.(string); ok {
			out = append(out, s)
		}
	}
	return out
}

func containsString(l []string, s string) bool {
	for _, e := range l {
		if e == s {
			return true
		}
	}
	return false
}

// controllerOwnerCount counts ownerReferences with controller: true.
func controllerOwnerCount(obj map[string]interface{}) int {
	l, _ := getMeta(obj)["ownerReferences"].([]interface{})
	n := 0
	for _, e := range l {
		if m, ok := e.(map[string]interface{}); ok {
			if b, ok := m["controller"].(bool); ok && b {
				n++
			}
		}
	}
	return n
}

func toInt64(v interface{}) (int64, bool) {
	switch t := v.(type) {
	case int64:
		return t, true
	case int:
		return int64(t), true
	case float64:
		return int64(t), true
	}
	return 0, false
}

// ---- patches ----------------------------------------------------------------

// mergePatch implements RFC 7386 on deep copies.
func mergePatch(target, patch interface{}) interface{} {
	pm, ok := patch.(map[string]interface{})
	if !ok {
		return deepCopy(patch)
	}
	out := map[string]interface{}{}
	if tm, ok := target.(map[string]interface{}); ok {
		out = copyObj(tm)
		if out == nil {
			out = map[string]interface{}{}
		}
	}
	for _, k := range sortedKeys(pm) {
		v := pm[k]
		if v == nil {
			delete(out, k)
			continue
		}
		out[k] = mergePatch(out[k], v)
	}
	return out
}

// applyOverlay implements the simulator's server-side-apply approximation:
// maps merge recursively, everything else (including null) replaces.
func applyOverlay(target, patch interface{}) interface{} {
	pm, ok := patch.(map[string]interface{})
	if !ok {
		return deepCopy(patch)
	}
	tm, ok := target.(map[string]interface{})
	if !ok {
		return deepCopy(patch)
	}
	out := copyObj(tm)
	if out == nil {
		out = map[string]interface{}{}
	}
	for _, k := range sortedKeys(pm) {
		if cur, exists := out[k]; exists {
			out[k] = applyOverlay(cur, pm[k])
		} else {
			out[k] = deepCopy(pm[k])
		}
	}
	return out
}

// parsePointer splits an RFC 6901 JSON pointer into unescaped tokens.
func parsePointer(p string) ([]string, error) {
	if p == "" {
		return nil, nil
	}
	if !strings.HasPrefix(p, "/") {
		return nil, fmt.Errorf("invalid JSON pointer %q", p)
	}
	parts := strings.Split(p[1:], "/")
	for i, t := range parts {
		t = strings.ReplaceAll(t, "~1", "/")
		t = strings.ReplaceAll(t, "~0", "~")
		parts[i] = t
	}
	return parts, nil
}

// jsonPatch applies a JSON-patch (RFC 6902; ops add/remove/replace) to a deep
// copy of doc. Any failure is reported as an error (mapped to 422 Invalid).
func jsonPatch(doc interface{}, ops []interface{}) (interface{}, error) {
	cur := deepCopy(doc)
	for i, rawOp := range ops {
		op, ok := rawOp.(map[string]interface{})
		if !ok {
			return nil, fmt.Errorf("operation %d is not an object", i)
		}
		name, _ := op["op"].(string)
		path, ok := op["path"].(string)
		if !ok {
			return nil, fmt.Errorf("operation %d: missing path", i)
		}
		tokens, err := parsePointer(path)
		if err != nil {
			return nil, fmt.Errorf("operation %d: %v", i, err)
		}
		value, hasValue := op["value"]
		switch name {
		case "add", "replace":
			if !hasValue {
				return nil, fmt.Errorf("operation %d: missing value", i)
			}
		case "remove":
		default:
			return nil, fmt.Errorf("operation %d: unsupported op %q", i, name)
		}
		cur, err = patchAt(cur, tokens, name, deepCopy(value))
		if err != nil {
			return nil, fmt.Errorf("operation %d (%s %s): %v", i, name, path, err)
		}
	}
	return cur, nil
}

func patchAt(node interface{}, tokens []string, op string, value interface{}) (interface{}, error) {
	if len(tokens) == 0 {
		switch op {
		case "add", "replace":
			return value, nil
		default:
			return nil, fmt.Errorf("cannot remove the document root")
		}
	}
	tok := tokens[0]
	last := len(tokens) == 1
	switch t := node.(type) {
	case map[string]interface{}:
		child, exists := t[tok]
		if !last {
			if !exists {
				return nil, fmt.Errorf("missing path element %q", tok)
			}
			nc, err := patchAt(child, tokens[1:], op, value)
			if err != nil {
				return nil, err
			}
			t[tok] = nc
			return t, nil
		}
		switch op {
		case "add":
			t[tok] = value
		case "replace":
			if !exists {
				return nil, fmt.Errorf("missing key %q", tok)
			}
			t[tok] = value
		case "remove":
			if !exists {
				return nil, fmt.Errorf("missing key %q", tok)
			}
			delete(t, tok)
		}
		return t, nil
	case []interface{}:
		if last && op == "add" && tok == "-" {
			return append(t, value), nil
		}
		idx, err := strconv.Atoi(tok)
		if err != nil || idx < 0 {
			return nil, fmt.Errorf("invalid array index %q", tok)
		}
		if !last {
			if idx >= len(t) {
				return nil, fmt.Errorf("array index %d out of range", idx)
			}
			nc, err := patchAt(t[idx], tokens[1:], op, value)
			if err != nil {
				return nil, err
			}
			t[idx] = nc
			return t, nil
		}
		switch op {
		case "add":
			if idx > len(t) {
				return nil, fmt.Errorf("array index %d out of range", idx)
			}
			out := make([]interface{}, 0, len(t)+1)
			out = append(out, t[:idx]...)
			out = append(out, value)
			out = append(out, t[idx:]...)
			return out, nil
		case "replace":
			if idx >= len(t) {
				return nil, fmt.Errorf("array index %d out of range", idx)
			}
			t[idx] = value
			return t, nil
		default: // remove
			if idx >= len(t) {
				return nil, fmt.Errorf("array index %d out of range", idx)
			}
			out := make([]interface{}, 0, len(t)-1)
			out = append(out, t[:idx]...)
			out = append(out, t[idx+1:]...)
			return out, nil
		}
	default:
		return nil, fmt.Errorf("path element %q does not address a container", tok)
	}
}
