package verifsim

import (
	"net/http"
	"sort"
	"strings"
)

var (
	resourceVerbs = []interface{}{"create", "delete", "deletecollection", "get", "list", "patch", "update", "watch"}
	statusVerbs   = []interface{}{"get", "patch", "update"}
)

// serveDiscovery answers /api, /apis, /api/<v>, /apis/<g>/<v>; it returns nil
// for every other path. Aggregated discovery is never served: the plain
// documents are returned with Content-Type application/json and client-go
// falls back to them.
// HideFromDiscovery makes discovery stop (hidden=true) or resume (false) listing a resource; requests
// for the resource itself are served as before. A group-version whose resources are all hidden
// disappears from the group lists too.
func (s *Server) HideFromDiscovery(apiVersion, resource string, hidden bool) {
	s.mu.Lock()
	defer s.mu.Unlock()
	if s.hiddenFromDiscovery == nil {
		s.hiddenFromDiscovery = map[resKey]bool{}
	}
	if hidden {
		s.hiddenFromDiscovery[resKey{apiVersion, resource}] = true
	} else {
		delete(s.hiddenFromDiscovery, resKey{apiVersion, resource})
	}
}

// discoverable returns the resources discovery lists.
func (s *Server) discoverable() []Resource {
	s.mu.Lock()
	defer s.mu.Unlock()
	if len(s.hiddenFromDiscovery) == 0 {
		return s.resources
	}
	var out []Resource
	for _, r := range s.resources {
		if !s.hiddenFromDiscovery[resKey{r.APIVersion(), r.Resource}] {
			out = append(out, r)
		}
	}
	return out
}

func (s *Server) serveDiscovery(req *http.Request) *http.Response {
	parts := strings.Split(strings.Trim(req.URL.Path, "/"), "/")
	isDiscovery := false
	switch {
	case len(parts) == 1 && (parts[0] == "api" || parts[0] == "apis"):
		isDiscovery = true
	case len(parts) == 2 && parts[0] == "api":
		isDiscovery = true
	case len(parts) == 3 && parts[0] == "apis":
		isDiscovery = true
	}
	if !isDiscovery {
		return nil
	}
	if req.Method != http.MethodGet {
		e := newErr(405, "MethodNotAllowed", "method %s not allowed", req.Method)
		return jsonResponse(req, e.code, statusBody(e, "", "", ""))
	}
	switch {
	case len(parts) == 1 && parts[0] == "api":
		versions := []interface{}{}
		for _, v := range s.groupVersions("") {
			versions = append(versions, v)
		}
		return jsonResponse(req, 200, map[string]interface{}{
			"kind":                       "APIVersions",
			"versions":                   versions,
			"serverAddressByClientCIDRs": []interface{}{},
		})
	case len(parts) == 1:
		groups := []interface{}{}
		for _, g := range s.groups() {
			if g == "" {
				continue
			}
			versions := []interface{}{}
			for _, v := range s.groupVersions(g) {
				versions = append(versions, map[string]interface{}{"groupVersion": g + "/" + v, "version": v})
			}
			groups = append(groups, map[string]interface{}{
				"name":             g,
				"versions":         versions,
				"preferredVersion": versions[0],
			})
		}
		return jsonResponse(req, 200, map[string]interface{}{
			"kind":       "APIGroupList",
			"apiVersion": "v1",
			"groups":     groups,
		})
	}
	group, version := "", parts[1]
	if parts[0] == "apis" {
		group, version = parts[1], parts[2]
	}
	gv := Resource{Group: group, Version: version}.APIVersion()
	var rs []Resource
	for _, r := range s.discoverable() {
		if r.Group == group && r.Version == version {
			rs = append(rs, r)
		}
	}
	if len(rs) == 0 {
		e := newErr(404, "NotFound", "the server could not find the requested resource")
		return jsonResponse(req, e.code, statusBody(e, group, "", ""))
	}
	sort.SliceStable(rs, func(i, j int) bool { return rs[i].Resource < rs[j].Resource })
	list := []interface{}{}
	for _, r := range rs {
		main := map[string]interface{}{
			"name":         r.Resource,
			"singularName": strings.ToLower(r.Kind),
			"namespaced":   r.Namespaced,
			"kind":         r.Kind,
			"verbs":        resourceVerbs,
		}
		if !s.SubresourcesFirst {
			list = append(list, main)
		}
		if r.HasStatus {
			list = append(list, map[string]interface{}{
				"name":         r.Resource + "/status",
				"singularName": "",
				"namespaced":   r.Namespaced,
				"kind":         r.Kind,
				"verbs":        statusVerbs,
			})
		}
		if s.SubresourcesFirst {
			list = append(list, main)
		}
	}
	return jsonResponse(req, 200, map[string]interface{}{
		"kind":         "APIResourceList",
		"apiVersion":   "v1",
		"groupVersion": gv,
		"resources":    list,
	})
}

// groups returns the sorted distinct group names.
func (s *Server) groups() []string {
	seen := map[string]bool{}
	var out []string
	for _, r := range s.discoverable() {
		if !seen[r.Group] {
			seen[r.Group] = true
			out = append(out, r.Group)
		}
	}
	sort.Strings(out)
	return out
}

// groupVersions returns the versions of a group in order of first appearance.
func (s *Server) groupVersions(group string) []string {
	seen := map[string]bool{}
	var out []string
	for _, r := range s.discoverable() {
		if r.Group == group && !seen[r.Version] {
			seen[r.Version] = true
			out = append(out, r.Version)
		}
	}
	return out
}
