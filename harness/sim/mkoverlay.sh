#!/bin/sh
# Regenerates /tmp/simoverlay.json mapping every *.go file in this directory
# (including *_test.go) to /repo/pkg/internal/verifsim/<file>.
set -eu
dir=$(cd "$(dirname "$0")" && pwd)
out=${1:-/tmp/simoverlay.json}
{
  printf '{"Replace": {'
  first=1
  for f in "$dir"/*.go; do
    [ -e "$f" ] || continue
    if [ $first -eq 0 ]; then printf ','; fi
    first=0
    printf '\n  "/repo/pkg/internal/verifsim/%s": "%s"' "$(basename "$f")" "$f"
  done
  printf '\n}}\n'
} > "$out"
echo "wrote $out"
