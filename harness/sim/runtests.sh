#!/bin/sh
# Builds and runs the verifsim acceptance tests.
#
# `go test ./pkg/internal/verifsim/` cannot *run* the tests because the package
# directory exists only in the overlay (go test chdirs into it), so the test
# binary is built with -c and executed from a scratch directory.
# Usage: runtests.sh [-race] [extra test-binary flags, e.g. -test.run X -test.v]
set -eu
dir=$(cd "$(dirname "$0")" && pwd)
race=""
if [ "${1:-}" = "-race" ]; then race="-race"; shift; fi
export GOFLAGS=-mod=mod GOPROXY=off GOSUMDB=off GOTOOLCHAIN=local
tmp=$(mktemp -d)
trap 'rm -rf "$tmp"' EXIT
"$dir/mkoverlay.sh" "$tmp/overlay.json" >/dev/null
(cd /repo && go test $race -overlay "$tmp/overlay.json" -vet=off -c -o "$tmp/verifsim.test" ./pkg/internal/verifsim/)
cd "$tmp" && ./verifsim.test -test.count=1 "$@"
