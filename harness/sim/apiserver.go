// Package verifsim is an in-process simulated Kubernetes API server implemented
// as an http.RoundTripper. It is deliberately small and deterministic: every
// rule in semantics.go has a counterpart in the Coq model.
package verifsim

import (
	"bytes"
	"fmt"
	"io"
	"net/http"
	"sort"
	"strings"
	"sync"

	utiljson "k8s.io/apimachinery/pkg/util/json"
	"k8s.io/client-go/rest"
)

// Resource describes one served resource. Resource is the plural name ("pods").
type Resource struct {
	Group, Version, Resource, Kind string
	Namespaced, HasStatus          bool
}

// APIVersion returns "version" for the core group and "group/version" otherwise.
func (r Resource) APIVersion() string {
	if r.Group == "" {
		return r.Version
	}
	return r.Group + "/" + r.Version
}

// Fault is an injected error response.
type Fault struct {
	Code   int
	Reason string
}

// LogEntry records one served request (everything except discovery).
type LogEntry struct {
	Seq                                         int
	Verb                                        string
	APIVersion, Kind, Resource, Namespace, Name string
	UIDPrecondition, RVPrecondition, Propagation string
	FieldManager                                string
	Force                                       bool
	Body                                        interface{}
	Code                                        int
	Reason                                      string
	Resp                                        interface{}
	Pre, Post                                   map[string]interface{}
	Injected                                    bool
}

type resKey struct{ apiVersion, resource string }

type objKey struct{ apiVersion, resource, ns, name string }

// BeforeRequestFunc is the fault-injection / interleaving hook type.
type BeforeRequestFunc func(n int, verb, apiVersion, kind, ns, name string) *Fault

// Server is the simulated API server.
type Server struct {
	mu        sync.Mutex
	resources []Resource
	byRes     map[resKey]*Resource // apiVersion+plural
	byKind    map[resKey]*Resource // apiVersion+kind (resource field holds the kind)

	live       map[objKey]map[string]interface{}
	rv         int64
	uid        int64
	views      map[resKey][]map[string]interface{}
	log        []LogEntry
	nreq       int
	hook       BeforeRequestFunc
	watches    map[int]*watcher
	nextWatch  int
	listCounts map[resKey]int

	// SubresourcesFirst: discovery lists "things/status" before "things" (the order of a
	// group-version's resource list is not specified). Set before the first request.
	SubresourcesFirst bool
	// hiddenFromDiscovery: resources that discovery does not list (any more) although the
	// server still serves them — a lost aggregated API / refresh race (HideFromDiscovery)
	hiddenFromDiscovery map[resKey]bool
}

const (
	initialResourceVersion = 1000
	creationTimestamp      = "2020-01-01T00:00:00Z"
	deletionTimestamp      = "2020-01-02T00:00:00Z"
	simHost                = "http://sim.invalid"
)

// NewServer creates a server serving exactly the given resources.
func NewServer(resources []Resource) *Server {
	s := &Server{
		resources:  append([]Resource(nil), resources...),
		byRes:      map[resKey]*Resource{},
		byKind:     map[resKey]*Resource{},
		live:       map[objKey]map[string]interface{}{},
		rv:         initialResourceVersion,
		views:      map[resKey][]map[string]interface{}{},
		watches:    map[int]*watcher{},
		listCounts: map[resKey]int{},
	}
	for i := range s.resources {
		r := &s.resources[i]
		s.byRes[resKey{r.APIVersion(), r.Resource}] = r
		s.byKind[resKey{r.APIVersion(), r.Kind}] = r
	}
	return s
}

// RestConfig returns a client config whose transport is the simulator.
func (s *Server) RestConfig() *rest.Config {
	return &rest.Config{
		Host:      simHost,
		Transport: s,
		QPS:       -1,
		Burst:     -1,
	}
}

// ---- direct store access ------------------------------------------------------

func (s *Server) kindResource(apiVersion, kind string) *Resource {
	r := s.byKind[resKey{apiVersion, kind}]
	if r == nil {
		panic(fmt.Sprintf("verifsim: unknown kind %q in apiVersion %q", kind, apiVersion))
	}
	return r
}

func (s *Server) nextRV() string {
	s.rv++
	return fmt.Sprintf("%d", s.rv)
}

func (s *Server) nextUID() string {
	s.uid++
	return fmt.Sprintf("uid-%d", s.uid)
}

func (s *Server) currentRV() string { return fmt.Sprintf("%d", s.rv) }

// Seed inserts or replaces obj in the live store. Missing uid, resourceVersion
// and creationTimestamp are assigned; nothing else is validated or changed.
func (s *Server) Seed(obj map[string]interface{}) map[string]interface{} {
	s.mu.Lock()
	defer s.mu.Unlock()
	o := copyObj(obj)
	r := s.kindResource(objString(o, "apiVersion"), objString(o, "kind"))
	meta := ensureMeta(o)
	name, _ := meta["name"].(string)
	if name == "" {
		panic("verifsim: Seed: object has no metadata.name")
	}
	ns, _ := meta["namespace"].(string)
	if v, _ := meta["uid"].(string); v == "" {
		meta["uid"] = s.nextUID()
	}
	if v, _ := meta["resourceVersion"].(string); v == "" {
		meta["resourceVersion"] = s.nextRV()
	}
	if v, _ := meta["creationTimestamp"].(string); v == "" {
		meta["creationTimestamp"] = creationTimestamp
	}
	s.live[objKey{r.APIVersion(), r.Resource, ns, name}] = o
	return copyObj(o)
}

// RemoveLive deletes an object from the live store (no-op if absent).
func (s *Server) RemoveLive(apiVersion, kind, ns, name string) {
	s.mu.Lock()
	defer s.mu.Unlock()
	r := s.kindResource(apiVersion, kind)
	delete(s.live, objKey{r.APIVersion(), r.Resource, ns, name})
}

// GetLive returns a deep copy of a live object, or nil.
func (s *Server) GetLive(apiVersion, kind, ns, name string) map[string]interface{} {
	s.mu.Lock()
	defer s.mu.Unlock()
	r := s.kindResource(apiVersion, kind)
	return copyObj(s.live[objKey{r.APIVersion(), r.Resource, ns, name}])
}

// AllLive returns deep copies of all live objects sorted by apiVersion, kind,
// namespace, name.
func (s *Server) AllLive() []map[string]interface{} {
	s.mu.Lock()
	defer s.mu.Unlock()
	type ent struct {
		av, kind, ns, name string
		obj                map[string]interface{}
	}
	ents := make([]ent, 0, len(s.live))
	for k, o := range s.live {
		kind := ""
		if r := s.byRes[resKey{k.apiVersion, k.resource}]; r != nil {
			kind = r.Kind
		}
		ents = append(ents, ent{k.apiVersion, kind, k.ns, k.name, o})
	}
	sort.Slice(ents, func(i, j int) bool {
		a, b := ents[i], ents[j]
		if a.av != b.av {
			return a.av < b.av
		}
		if a.kind != b.kind {
			return a.kind < b.kind
		}
		if a.ns != b.ns {
			return a.ns < b.ns
		}
		return a.name < b.name
	})
	out := make([]map[string]interface{}, len(ents))
	for i, e := range ents {
		out[i] = copyObj(e.obj)
	}
	return out
}

// SetListView makes LIST for the resource serve exactly objs (nil => live).
func (s *Server) SetListView(apiVersion, kind string, objs []map[string]interface{}) {
	s.mu.Lock()
	defer s.mu.Unlock()
	r := s.kindResource(apiVersion, kind)
	key := resKey{r.APIVersion(), r.Resource}
	if objs == nil {
		delete(s.views, key)
		return
	}
	view := make([]map[string]interface{}, len(objs))
	for i, o := range objs {
		view[i] = copyObj(o)
	}
	s.views[key] = view
}

// ClearListViews reverts every resource to serving LIST from the live store.
func (s *Server) ClearListViews() {
	s.mu.Lock()
	defer s.mu.Unlock()
	s.views = map[resKey][]map[string]interface{}{}
}

// Log returns a deep copy of the request log.
func (s *Server) Log() []LogEntry {
	s.mu.Lock()
	defer s.mu.Unlock()
	out := make([]LogEntry, len(s.log))
	for i, e := range s.log {
		e.Body = deepCopy(e.Body)
		e.Resp = deepCopy(e.Resp)
		e.Pre = copyObj(e.Pre)
		e.Post = copyObj(e.Post)
		out[i] = e
	}
	return out
}

// ResetLog clears the log and restarts the BeforeRequest counter at 0.
func (s *Server) ResetLog() {
	s.mu.Lock()
	defer s.mu.Unlock()
	s.log = nil
	s.nreq = 0
}

// SetBeforeRequest installs the hook (nil removes it).
func (s *Server) SetBeforeRequest(f func(n int, verb, apiVersion, kind, ns, name string) *Fault) {
	s.mu.Lock()
	defer s.mu.Unlock()
	s.hook = f
}

// ListCount returns the number of LIST requests served for the resource.
func (s *Server) ListCount(apiVersion, kind string) int {
	s.mu.Lock()
	defer s.mu.Unlock()
	r := s.kindResource(apiVersion, kind)
	return s.listCounts[resKey{r.APIVersion(), r.Resource}]
}

// appendLog must be called with s.mu held.
func (s *Server) appendLog(e LogEntry) {
	e.Seq = len(s.log)
	s.log = append(s.log, e)
}

// ---- HTTP plumbing --------------------------------------------------------------

type apiErr struct {
	code   int
	reason string
	msg    string
}

func newErr(code int, reason, format string, args ...interface{}) *apiErr {
	return &apiErr{code: code, reason: reason, msg: fmt.Sprintf(format, args...)}
}

func statusBody(e *apiErr, group, resource, name string) map[string]interface{} {
	return map[string]interface{}{
		"kind":       "Status",
		"apiVersion": "v1",
		"metadata":   map[string]interface{}{},
		"status":     "Failure",
		"message":    e.msg,
		"reason":     e.reason,
		"details": map[string]interface{}{
			"name":  name,
			"group": group,
			"kind":  resource,
		},
		"code": int64(e.code),
	}
}

func successStatus() map[string]interface{} {
	return map[string]interface{}{
		"kind":       "Status",
		"apiVersion": "v1",
		"metadata":   map[string]interface{}{},
		"status":     "Success",
		"code":       int64(200),
	}
}

func jsonResponse(req *http.Request, code int, v interface{}) *http.Response {
	data, err := utiljson.Marshal(v)
	if err != nil {
		panic(fmt.Sprintf("verifsim: cannot encode response: %v", err))
	}
	return &http.Response{
		Status:        fmt.Sprintf("%d %s", code, http.StatusText(code)),
		StatusCode:    code,
		Proto:         "HTTP/1.1",
		ProtoMajor:    1,
		ProtoMinor:    1,
		Header:        http.Header{"Content-Type": []string{"application/json"}},
		Body:          io.NopCloser(bytes.NewReader(data)),
		ContentLength: int64(len(data)),
		Request:       req,
	}
}

// parsed request
type reqInfo struct {
	group, version, apiVersion string
	resource                   string
	ns, name, sub              string
	verb                       string
	res                        *Resource
}

// parsePath splits an API path. ok=false means "not an object/collection path".
func parsePath(path string) (ri reqInfo, ok bool) {
	parts := strings.Split(strings.Trim(path, "/"), "/")
	var rest []string
	switch {
	case len(parts) >= 3 && parts[0] == "api":
		ri.group, ri.version = "", parts[1]
		rest = parts[2:]
	case len(parts) >= 4 && parts[0] == "apis":
		ri.group, ri.version = parts[1], parts[2]
		rest = parts[3:]
	default:
		return ri, false
	}
	ri.apiVersion = Resource{Group: ri.group, Version: ri.version}.APIVersion()
	// namespaces/<ns>/<resource>..., except the namespace object's own subresources.
	if rest[0] == "namespaces" && len(rest) >= 3 && rest[2] != "status" && rest[2] != "finalize" {
		ri.ns = rest[1]
		rest = rest[2:]
	}
	if len(rest) > 3 {
		return ri, false
	}
	ri.resource = rest[0]
	if len(rest) > 1 {
		ri.name = rest[1]
	}
	if len(rest) > 2 {
		ri.sub = rest[2]
	}
	return ri, true
}

func isTrue(v string) bool { return v == "true" || v == "1" }

// RoundTrip serves one request.
func (s *Server) RoundTrip(req *http.Request) (*http.Response, error) {
	var bodyBytes []byte
	if req.Body != nil {
		b, err := io.ReadAll(req.Body)
		req.Body.Close()
		if err != nil {
			return nil, err
		}
		bodyBytes = b
	}

	if resp := s.serveDiscovery(req); resp != nil {
		return resp, nil
	}

	ri, ok := parsePath(req.URL.Path)
	if !ok {
		e := newErr(404, "NotFound", "the server could not find the requested resource")
		return jsonResponse(req, e.code, statusBody(e, "", "", "")), nil
	}
	query := req.URL.Query()

	// Verb.
	entry := LogEntry{}
	var verbErr *apiErr
	switch req.Method {
	case http.MethodGet:
		switch {
		case ri.name != "":
			ri.verb = "get"
		case isTrue(query.Get("watch")):
			ri.verb = "watch"
		default:
			ri.verb = "list"
		}
	case http.MethodPost:
		ri.verb = "create"
	case http.MethodPut:
		ri.verb = "update"
		if ri.sub == "status" {
			ri.verb = "updatestatus"
		}
	case http.MethodDelete:
		ri.verb = "delete"
	case http.MethodPatch:
		ct := strings.TrimSpace(strings.SplitN(req.Header.Get("Content-Type"), ";", 2)[0])
		switch ct {
		case "application/json-patch+json":
			ri.verb = "patch-json"
		case "application/apply-patch+yaml":
			ri.verb = "patch-apply"
		case "application/merge-patch+json":
			ri.verb = "patch-merge"
		default:
			ri.verb = "patch"
			verbErr = newErr(415, "UnsupportedMediaType", "unsupported patch type %q", ct)
		}
	default:
		ri.verb = strings.ToLower(req.Method)
		verbErr = newErr(405, "MethodNotAllowed", "method %s not allowed", req.Method)
	}

	// Decode the body.
	var body interface{}
	var bodyErr error
	if len(bodyBytes) > 0 {
		if ri.verb == "patch-apply" {
			body, bodyErr = decodeJSONOrYAML(bodyBytes)
		} else {
			body, bodyErr = decodeJSON(bodyBytes)
		}
	}

	entry.Verb = ri.verb
	entry.APIVersion = ri.apiVersion
	entry.Resource = ri.resource
	entry.Namespace = ri.ns
	entry.Name = ri.name

	// Options.
	if ri.verb == "delete" {
		if m, ok := body.(map[string]interface{}); ok {
			if pre, ok := m["preconditions"].(map[string]interface{}); ok {
				entry.UIDPrecondition, _ = pre["uid"].(string)
				entry.RVPrecondition, _ = pre["resourceVersion"].(string)
			}
			entry.Propagation, _ = m["propagationPolicy"].(string)
		}
		if v := query.Get("propagationPolicy"); v != "" && entry.Propagation == "" {
			entry.Propagation = v
		}
	} else {
		entry.Body = body
	}
	if strings.HasPrefix(ri.verb, "patch") {
		entry.FieldManager = query.Get("fieldManager")
		entry.Force = isTrue(query.Get("force"))
	}

	// For create the target name comes from the body.
	urlName := ri.name
	if ri.verb == "create" {
		ri.name = ""
		if m, ok := body.(map[string]interface{}); ok {
			ri.name = metaString(m, "name")
			entry.Name = ri.name
		}
	}

	s.mu.Lock()
	ri.res = s.byRes[resKey{ri.apiVersion, ri.resource}]
	fail := func(e *apiErr) (*http.Response, error) {
		// s.mu is held.
		entry.Code, entry.Reason = e.code, e.reason
		if ri.res != nil {
			cur := s.live[objKey{ri.apiVersion, ri.resource, ri.ns, ri.name}]
			entry.Pre, entry.Post = copyObj(cur), copyObj(cur)
		}
		s.appendLog(entry)
		s.mu.Unlock()
		return jsonResponse(req, e.code, statusBody(e, ri.group, ri.resource, ri.name)), nil
	}
	if ri.res == nil {
		return fail(newErr(404, "NotFound", "the server could not find the requested resource (%s %s)", ri.apiVersion, ri.resource))
	}
	entry.Kind = ri.res.Kind
	switch {
	case ri.sub != "" && !(ri.sub == "status" && ri.res.HasStatus):
		return fail(newErr(404, "NotFound", "the server could not find the requested resource (%s/%s)", ri.resource, ri.sub))
	case ri.ns != "" && !ri.res.Namespaced:
		return fail(newErr(404, "NotFound", "%s is cluster-scoped", ri.resource))
	case verbErr != nil:
		return fail(verbErr)
	case ri.sub == "status" && ri.verb != "get" && ri.verb != "updatestatus":
		return fail(newErr(405, "MethodNotAllowed", "%s is not supported on the status subresource", ri.verb))
	case ri.verb == "create" && urlName != "":
		return fail(newErr(405, "MethodNotAllowed", "create must address the collection"))
	case bodyErr != nil:
		return fail(newErr(400, "BadRequest", "cannot decode request body: %v", bodyErr))
	}
	if ri.name == "" && (ri.verb == "update" || ri.verb == "delete" || strings.HasPrefix(ri.verb, "patch")) {
		return fail(newErr(405, "MethodNotAllowed", "%s requires a resource name", ri.verb))
	}
	// list / watch: no hook.
	switch ri.verb {
	case "list":
		list, e := s.listLocked(ri.res, ri.ns, query.Get("labelSelector"))
		if e != nil {
			return fail(e)
		}
		s.listCounts[resKey{ri.apiVersion, ri.resource}]++
		entry.Code = 200
		s.appendLog(entry)
		s.mu.Unlock()
		return jsonResponse(req, 200, list), nil
	case "watch":
		w := s.openWatchLocked(resKey{ri.apiVersion, ri.resource}, ri.ns)
		entry.Code = 200
		s.appendLog(entry)
		s.mu.Unlock()
		return s.watchResponse(req, w), nil
	}

	// BeforeRequest hook, called without the lock.
	hook := s.hook
	n := s.nreq
	s.nreq++
	s.mu.Unlock()
	var fault *Fault
	if hook != nil {
		fault = hook(n, ri.verb, ri.apiVersion, ri.res.Kind, ri.ns, ri.name)
	}
	s.mu.Lock()
	if fault != nil {
		entry.Injected = true
		return fail(newErr(fault.Code, fault.Reason, "injected fault: %s", fault.Reason))
	}

	key := objKey{ri.apiVersion, ri.resource, ri.ns, ri.name}
	entry.Pre = copyObj(s.live[key])
	code, respObj, e := s.executeLocked(&ri, key, body, &entry)
	if e != nil {
		return fail(e)
	}
	entry.Code = code
	entry.Resp = deepCopy(respObj)
	entry.Post = copyObj(s.live[key])
	s.appendLog(entry)
	s.mu.Unlock()
	return jsonResponse(req, code, respObj), nil
}

// executeLocked dispatches a mutating/get request to the semantic rules.
func (s *Server) executeLocked(ri *reqInfo, key objKey, body interface{}, entry *LogEntry) (int, map[string]interface{}, *apiErr) {
	bodyMap, bodyIsMap := body.(map[string]interface{})
	needMap := func() *apiErr {
		if !bodyIsMap {
			return newErr(400, "BadRequest", "request body must be a JSON object")
		}
		return nil
	}
	switch ri.verb {
	case "get":
		obj, e := s.getRule(key)
		return 200, obj, e
	case "create":
		if e := needMap(); e != nil {
			return 0, nil, e
		}
		obj, e := s.createRule(ri.res, ri.ns, "", bodyMap)
		return 201, obj, e
	case "update":
		if e := needMap(); e != nil {
			return 0, nil, e
		}
		obj, e := s.updateRule(ri.res, key, bodyMap, true)
		return 200, obj, e
	case "updatestatus":
		if e := needMap(); e != nil {
			return 0, nil, e
		}
		obj, e := s.updateStatusRule(ri.res, key, bodyMap)
		return 200, obj, e
	case "delete":
		obj, e := s.deleteRule(key, entry.UIDPrecondition, entry.RVPrecondition, entry.Propagation)
		return 200, obj, e
	case "patch-json":
		ops, ok := body.([]interface{})
		if !ok {
			return 0, nil, newErr(400, "BadRequest", "JSON patch must be an array")
		}
		obj, e := s.patchJSONRule(ri.res, key, ops)
		return 200, obj, e
	case "patch-merge":
		if e := needMap(); e != nil {
			return 0, nil, e
		}
		obj, e := s.patchMergeRule(ri.res, key, bodyMap)
		return 200, obj, e
	case "patch-apply":
		if e := needMap(); e != nil {
			return 0, nil, e
		}
		return s.patchApplyRule(ri.res, key, bodyMap)
	}
	return 0, nil, newErr(405, "MethodNotAllowed", "unsupported verb %s", ri.verb)
}
