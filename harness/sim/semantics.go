package verifsim

import (
	"sort"

	"k8s.io/apimachinery/pkg/labels"
)

// This file contains the semantic rules of the simulated API server. All
// functions must be called with s.mu held. Every function returns deep copies
// and stores deep copies.

func notFound(key objKey) *apiErr {
	return newErr(404, "NotFound", "%s %q not found", key.resource, key.name)
}

// ---- get ----------------------------------------------------------------------

func (s *Server) getRule(key objKey) (map[string]interface{}, *apiErr) {
	live := s.live[key]
	if live == nil {
		return nil, notFound(key)
	}
	return copyObj(live), nil
}

// ---- create -------------------------------------------------------------------

// createRule implements POST. nameHint is the URL name for apply-creates ("" for
// plain create); it is used when the body has no name and must match otherwise.
func (s *Server) createRule(res *Resource, ns, nameHint string, body map[string]interface{}) (map[string]interface{}, *apiErr) {
	obj := copyObj(body)
	meta := ensureMeta(obj)
	name, _ := meta["name"].(string)
	if name == "" {
		name = nameHint
	}
	if name == "" {
		return nil, newErr(422, "Invalid", "%s is invalid: metadata.name: Required value", res.Kind)
	}
	if nameHint != "" && name != nameHint {
		return nil, newErr(400, "BadRequest", "the name of the object (%s) does not match the name on the URL (%s)", name, nameHint)
	}
	if bns, _ := meta["namespace"].(string); bns != "" && bns != ns {
		return nil, newErr(400, "BadRequest", "the namespace of the provided object (%s) does not match the namespace sent on the request (%s)", bns, ns)
	}
	if res.Namespaced && ns == "" {
		return nil, newErr(400, "BadRequest", "namespace is required for %s", res.Resource)
	}
	key := objKey{res.APIVersion(), res.Resource, ns, name}
	if s.live[key] != nil {
		return nil, newErr(409, "AlreadyExists", "%s %q already exists", res.Resource, name)
	}
	if controllerOwnerCount(obj) > 1 {
		return nil, newErr(422, "Invalid", "%s %q is invalid: metadata.ownerReferences: Only one reference can have Controller set to true", res.Kind, name)
	}
	meta["name"] = name
	if ns != "" {
		meta["namespace"] = ns
	} else {
		delete(meta, "namespace")
	}
	meta["uid"] = s.nextUID()
	meta["resourceVersion"] = s.nextRV()
	meta["generation"] = int64(1)
	meta["creationTimestamp"] = creationTimestamp
	delete(meta, "deletionTimestamp")
	delete(meta, "deletionGracePeriodSeconds")
	obj["apiVersion"] = res.APIVersion()
	obj["kind"] = res.Kind
	if res.HasStatus {
		delete(obj, "status")
	}
	s.live[key] = obj
	return copyObj(obj), nil
}

// ---- update and friends ---------------------------------------------------------

// checkPreconditions implements the uid / resourceVersion optimistic-concurrency
// checks shared by update, updatestatus and delete. Empty strings mean "absent".
func checkPreconditions(key objKey, live map[string]interface{}, uid, rv string) *apiErr {
	if uid != "" && uid != metaString(live, "uid") {
		return newErr(409, "Conflict", "Operation cannot be fulfilled on %s %q: Precondition failed: UID in precondition: %s, UID in object meta: %s", key.resource, key.name, uid, metaString(live, "uid"))
	}
	if rv != "" && rv != metaString(live, "resourceVersion") {
		return newErr(409, "Conflict", "Operation cannot be fulfilled on %s %q: the object has been modified; please apply your changes to the latest version and try again", key.resource, key.name)
	}
	return nil
}

var serverOwnedMeta = []string{"uid", "creationTimestamp", "deletionTimestamp", "deletionGracePeriodSeconds", "generation"}

// withoutMetaStatus returns a shallow view of obj without metadata and status.
func withoutMetaStatus(obj map[string]interface{}) map[string]interface{} {
	out := make(map[string]interface{}, len(obj))
	for k, v := range obj {
		if k == "metadata" || k == "status" {
			continue
		}
		out[k] = v
	}
	return out
}

// commitUpdate is the common tail of update / patch-*: validation, forcing of
// server-owned fields, generation bump, no-op detection, RV bump, and removal
// of a deleting object whose finalizers became empty. newObj is consumed.
func (s *Server) commitUpdate(res *Resource, key objKey, live, newObj map[string]interface{}) (map[string]interface{}, *apiErr) {
	if controllerOwnerCount(newObj) > 1 {
		return nil, newErr(422, "Invalid", "%s %q is invalid: metadata.ownerReferences: Only one reference can have Controller set to true", res.Kind, key.name)
	}
	liveDeleting := hasMeta(live, "deletionTimestamp")
	if liveDeleting {
		liveFins := getFinalizers(live)
		for _, f := range getFinalizers(newObj) {
			if !containsString(liveFins, f) {
				return nil, newErr(422, "Invalid", "%s %q is invalid: metadata.finalizers: Forbidden: no new finalizers can be added if the object is being deleted, found new finalizers [%s]", res.Kind, key.name, f)
			}
		}
	}
	meta := ensureMeta(newObj)
	if n, _ := meta["name"].(string); n != "" && n != key.name {
		return nil, newErr(400, "BadRequest", "the name of the object (%s) does not match the name on the URL (%s)", n, key.name)
	}
	if n, _ := meta["namespace"].(string); n != "" && n != key.ns {
		return nil, newErr(400, "BadRequest", "the namespace of the provided object (%s) does not match the namespace sent on the request (%s)", n, key.ns)
	}
	meta["name"] = key.name
	if key.ns != "" {
		meta["namespace"] = key.ns
	} else {
		delete(meta, "namespace")
	}
	newObj["apiVersion"] = res.APIVersion()
	newObj["kind"] = res.Kind
	liveMeta := getMeta(live)
	for _, f := range serverOwnedMeta {
		if v, ok := liveMeta[f]; ok {
			meta[f] = deepCopy(v)
		} else {
			delete(meta, f)
		}
	}
	if res.HasStatus {
		if st, ok := live["status"]; ok {
			newObj["status"] = deepCopy(st)
		} else {
			delete(newObj, "status")
		}
	}
	if !jsonEqual(withoutMetaStatus(newObj), withoutMetaStatus(live)) {
		gen, _ := toInt64(liveMeta["generation"])
		meta["generation"] = gen + 1
	}
	return s.storeIfChanged(key, live, newObj, liveDeleting)
}

// storeIfChanged applies the no-op rule and otherwise stores newObj with a new
// resourceVersion; a deleting object with no finalizers left is removed.
func (s *Server) storeIfChanged(key objKey, live, newObj map[string]interface{}, removeWhenFinalized bool) (map[string]interface{}, *apiErr) {
	meta := ensureMeta(newObj)
	if rv, ok := getMeta(live)["resourceVersion"]; ok {
		meta["resourceVersion"] = rv
	} else {
		delete(meta, "resourceVersion")
	}
	if jsonEqual(newObj, live) {
		return copyObj(live), nil
	}
	meta["resourceVersion"] = s.nextRV()
	if removeWhenFinalized && len(getFinalizers(newObj)) == 0 {
		delete(s.live, key)
	} else {
		s.live[key] = newObj
	}
	return copyObj(newObj), nil
}

// updateRule implements PUT on the main resource.
func (s *Server) updateRule(res *Resource, key objKey, body map[string]interface{}, checkPre bool) (map[string]interface{}, *apiErr) {
	live := s.live[key]
	if live == nil {
		return nil, notFound(key)
	}
	if checkPre {
		if e := checkPreconditions(key, live, metaString(body, "uid"), metaString(body, "resourceVersion")); e != nil {
			return nil, e
		}
	}
	return s.commitUpdate(res, key, live, copyObj(body))
}

// updateStatusRule implements PUT on the status subresource.
func (s *Server) updateStatusRule(res *Resource, key objKey, body map[string]interface{}) (map[string]interface{}, *apiErr) {
	if !res.HasStatus {
		return nil, newErr(404, "NotFound", "the server could not find the requested resource (%s/status)", key.resource)
	}
	live := s.live[key]
	if live == nil {
		return nil, notFound(key)
	}
	if e := checkPreconditions(key, live, metaString(body, "uid"), metaString(body, "resourceVersion")); e != nil {
		return nil, e
	}
	newObj := copyObj(live)
	if st, ok := body["status"]; ok {
		newObj["status"] = deepCopy(st)
	} else {
		delete(newObj, "status")
	}
	return s.storeIfChanged(key, live, newObj, false)
}

// ---- delete -------------------------------------------------------------------

func (s *Server) deleteRule(key objKey, uid, rv, propagation string) (map[string]interface{}, *apiErr) {
	live := s.live[key]
	if live == nil {
		return nil, notFound(key)
	}
	if e := checkPreconditions(key, live, uid, rv); e != nil {
		return nil, e
	}
	newObj := copyObj(live)
	meta := ensureMeta(newObj)
	fins := getFinalizers(newObj)
	addFin := ""
	switch propagation {
	case "Foreground":
		addFin = "foregroundDeletion"
	case "Orphan":
		addFin = "orphan"
	}
	if addFin != "" && !containsString(fins, addFin) {
		fins = append(fins, addFin)
		l := make([]interface{}, len(fins))
		for i, f := range fins {
			l[i] = f
		}
		meta["finalizers"] = l
	}
	if len(fins) == 0 {
		delete(s.live, key)
		return successStatus(), nil
	}
	if !hasMeta(newObj, "deletionTimestamp") {
		meta["deletionTimestamp"] = deletionTimestamp
	}
	return s.storeIfChanged(key, live, newObj, false)
}

// ---- patches ------------------------------------------------------------------

func asObject(v interface{}) (map[string]interface{}, *apiErr) {
	m, ok := v.(map[string]interface{})
	if !ok {
		return nil, newErr(422, "Invalid", "the patched document is not a JSON object")
	}
	return m, nil
}

func (s *Server) patchJSONRule(res *Resource, key objKey, ops []interface{}) (map[string]interface{}, *apiErr) {
	live := s.live[key]
	if live == nil {
		return nil, notFound(key)
	}
	patched, err := jsonPatch(live, ops)
	if err != nil {
		return nil, newErr(422, "Invalid", "the server rejected our request due to an error in our request: %v", err)
	}
	obj, e := asObject(patched)
	if e != nil {
		return nil, e
	}
	return s.commitUpdate(res, key, live, obj)
}

func (s *Server) patchMergeRule(res *Resource, key objKey, patch map[string]interface{}) (map[string]interface{}, *apiErr) {
	live := s.live[key]
	if live == nil {
		return nil, notFound(key)
	}
	obj, e := asObject(mergePatch(live, patch))
	if e != nil {
		return nil, e
	}
	return s.commitUpdate(res, key, live, obj)
}

func (s *Server) patchApplyRule(res *Resource, key objKey, body map[string]interface{}) (int, map[string]interface{}, *apiErr) {
	live := s.live[key]
	if live == nil {
		obj, e := s.createRule(res, key.ns, key.name, body)
		return 201, obj, e
	}
	obj, e := asObject(applyOverlay(live, body))
	if e != nil {
		return 0, nil, e
	}
	// metadata.ownerReferences is a list map keyed by uid: applied entries are
	// merged with the live ones (a second controller reference is then refused
	// by validation), not put in their place.
	if merged, ok := mergeOwnerRefs(getMeta(live)["ownerReferences"], getMeta(body)["ownerReferences"]); ok {
		getMeta(obj)["ownerReferences"] = merged
	}
	out, e := s.commitUpdate(res, key, live, obj)
	return 200, out, e
}

// ---- list ---------------------------------------------------------------------

func (s *Server) listLocked(res *Resource, ns, labelSelector string) (map[string]interface{}, *apiErr) {
	sel := labels.Everything()
	if labelSelector != "" {
		parsed, err := labels.Parse(labelSelector)
		if err != nil {
			return nil, newErr(400, "BadRequest", "unable to parse label selector %q: %v", labelSelector, err)
		}
		sel = parsed
	}
	rk := resKey{res.APIVersion(), res.Resource}
	var source []map[string]interface{}
	if view, ok := s.views[rk]; ok {
		source = view
	} else {
		for k, o := range s.live {
			if k.apiVersion == rk.apiVersion && k.resource == rk.resource {
				source = append(source, o)
			}
		}
	}
	selected := make([]map[string]interface{}, 0, len(source))
	for _, o := range source {
		if ns != "" && metaString(o, "namespace") != ns {
			continue
		}
		if !sel.Empty() {
			lbls := labels.Set{}
			if m, ok := getMeta(o)["labels"].(map[string]interface{}); ok {
				for k, v := range m {
					if sv, ok := v.(string); ok {
						lbls[k] = sv
					}
				}
			}
			if !sel.Matches(lbls) {
				continue
			}
		}
		selected = append(selected, o)
	}
	sort.SliceStable(selected, func(i, j int) bool {
		a, b := selected[i], selected[j]
		if an, bn := metaString(a, "namespace"), metaString(b, "namespace"); an != bn {
			return an < bn
		}
		return metaString(a, "name") < metaString(b, "name")
	})
	items := make([]interface{}, len(selected))
	for i, o := range selected {
		items[i] = copyObj(o)
	}
	return map[string]interface{}{
		"apiVersion": res.APIVersion(),
		"kind":       res.Kind + "List",
		"metadata":   map[string]interface{}{"resourceVersion": s.currentRV()},
		"items":      items,
	}, nil
}

func mergeOwnerRefs(live, applied interface{}) ([]interface{}, bool) {
	ll, ok1 := live.([]interface{})
	al, ok2 := applied.([]interface{})
	if !ok1 || !ok2 {
		return nil, false
	}
	out := make([]interface{}, 0, len(ll)+len(al))
	seen := map[string]int{}
	for _, r := range ll {
		if rm, ok := r.(map[string]interface{}); ok {
			if uid, ok := rm["uid"].(string); ok {
				seen[uid] = len(out)
			}
		}
		out = append(out, deepCopy(r))
	}
	for _, r := range al {
		if rm, ok := r.(map[string]interface{}); ok {
			if uid, ok := rm["uid"].(string); ok {
				if i, dup := seen[uid]; dup {
					out[i] = applyOverlay(out[i], r)
					continue
				}
			}
		}
		out = append(out, deepCopy(r))
	}
	return out, true
}
