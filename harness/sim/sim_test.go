package verifsim

import (
	"context"
	"reflect"
	"testing"
	"time"

	apierrors "k8s.io/apimachinery/pkg/api/errors"
	metav1 "k8s.io/apimachinery/pkg/apis/meta/v1"
	"k8s.io/apimachinery/pkg/apis/meta/v1/unstructured"
	"k8s.io/apimachinery/pkg/labels"
	"k8s.io/apimachinery/pkg/runtime/schema"
	"k8s.io/apimachinery/pkg/types"
	"k8s.io/client-go/discovery"
	"k8s.io/client-go/dynamic"

	"metacontroller/pkg/apis/metacontroller/v1alpha1"
	"metacontroller/pkg/client/generated/clientset/internalclientset"
	dynamicclientset "metacontroller/pkg/dynamic/clientset"
	dynamicdiscovery "metacontroller/pkg/dynamic/discovery"
	dynamicinformer "metacontroller/pkg/dynamic/informer"
)

var testResources = []Resource{
	{Group: "", Version: "v1", Resource: "pods", Kind: "Pod", Namespaced: true, HasStatus: true},
	{Group: "", Version: "v1", Resource: "namespaces", Kind: "Namespace", Namespaced: false, HasStatus: true},
	{Group: "ctl.example.com", Version: "v1", Resource: "things", Kind: "Thing", Namespaced: true, HasStatus: true},
	{Group: "ctl.example.com", Version: "v1", Resource: "clusterthings", Kind: "ClusterThing", Namespaced: false, HasStatus: false},
	{Group: "metacontroller.k8s.io", Version: "v1alpha1", Resource: "controllerrevisions", Kind: "ControllerRevision", Namespaced: true, HasStatus: false},
}

var ctx = context.TODO()

func waitFor(t *testing.T, d time.Duration, what string, cond func() bool) {
	t.Helper()
	deadline := time.Now().Add(d)
	for !cond() {
		if time.Now().After(deadline) {
			t.Fatalf("timed out waiting for %s", what)
		}
		time.Sleep(5 * time.Millisecond)
	}
}

func newEnv(t *testing.T) (*Server, *dynamicdiscovery.ResourceMap, *dynamicclientset.Clientset) {
	t.Helper()
	s := NewServer(testResources)
	cfg := s.RestConfig()
	rm := dynamicdiscovery.NewResourceMap(discovery.NewDiscoveryClientForConfigOrDie(cfg))
	rm.Start(time.Hour)
	t.Cleanup(rm.Stop)
	waitFor(t, 5*time.Second, "discovery sync", rm.HasSynced)
	cs, err := dynamicclientset.New(cfg, rm)
	if err != nil {
		t.Fatal(err)
	}
	t.Cleanup(s.Close)
	return s, rm, cs
}

func pod(ns, name string) *unstructured.Unstructured {
	return &unstructured.Unstructured{Object: map[string]interface{}{
		"apiVersion": "v1",
		"kind":       "Pod",
		"metadata":   map[string]interface{}{"name": name, "namespace": ns},
		"spec":       map[string]interface{}{"replicas": int64(1)},
	}}
}

func ownerRef(name string, controller bool) map[string]interface{} {
	return map[string]interface{}{
		"apiVersion": "ctl.example.com/v1", "kind": "Thing", "name": name, "uid": "owner-" + name,
		"controller": controller,
	}
}

func TestDiscovery(t *testing.T) {
	s, rm, _ := newEnv(t)
	cases := []struct {
		apiVersion, resource, kind string
		namespaced, status         bool
	}{
		{"v1", "pods", "Pod", true, true},
		{"v1", "namespaces", "Namespace", false, true},
		{"ctl.example.com/v1", "things", "Thing", true, true},
		{"ctl.example.com/v1", "clusterthings", "ClusterThing", false, false},
		{"metacontroller.k8s.io/v1alpha1", "controllerrevisions", "ControllerRevision", true, false},
	}
	for _, c := range cases {
		r := rm.Get(c.apiVersion, c.resource)
		if r == nil {
			t.Fatalf("Get(%s,%s) = nil", c.apiVersion, c.resource)
		}
		if r.Kind != c.kind || r.Namespaced != c.namespaced || r.HasSubresource("status") != c.status || r.APIVersion != c.apiVersion || r.Name != c.resource {
			t.Errorf("Get(%s,%s) = %+v (status=%v)", c.apiVersion, c.resource, r.APIResource, r.HasSubresource("status"))
		}
		k := rm.GetKind(c.apiVersion, c.kind)
		if k == nil || k.Name != c.resource {
			t.Errorf("GetKind(%s,%s) = %+v", c.apiVersion, c.kind, k)
		}
		gv := r.GroupVersion()
		if gv.String() != c.apiVersion {
			t.Errorf("GroupVersion = %v", gv)
		}
	}
	if rm.Get("v1", "nothings") != nil || rm.Get("nope/v1", "pods") != nil {
		t.Errorf("unknown resource resolved")
	}
	if len(s.Log()) != 0 {
		t.Errorf("discovery requests must not be logged: %+v", s.Log())
	}
}

func TestDynamicClientCRUD(t *testing.T) {
	s, _, cs := newEnv(t)
	rc, err := cs.Resource("v1", "pods")
	if err != nil {
		t.Fatal(err)
	}
	pods := rc.Namespace("ns")

	// get missing
	if _, err := pods.Get(ctx, "p", metav1.GetOptions{}); !apierrors.IsNotFound(err) {
		t.Fatalf("get missing: %v", err)
	}
	// create
	in := pod("ns", "p")
	in.Object["status"] = map[string]interface{}{"phase": "Bogus"}
	created, err := pods.Create(ctx, in, metav1.CreateOptions{})
	if err != nil {
		t.Fatal(err)
	}
	if created.GetUID() != "uid-1" || created.GetResourceVersion() != "1001" || created.GetGeneration() != 1 ||
		created.GetNamespace() != "ns" || created.GetCreationTimestamp().Time.IsZero() {
		t.Fatalf("created = %v", created.Object)
	}
	if _, has := created.Object["status"]; has {
		t.Fatalf("status must be dropped on create: %v", created.Object)
	}
	// create existing
	if _, err := pods.Create(ctx, pod("ns", "p"), metav1.CreateOptions{}); !apierrors.IsAlreadyExists(err) {
		t.Fatalf("create existing: %v", err)
	}
	// create without name
	if _, err := pods.Create(ctx, pod("ns", ""), metav1.CreateOptions{}); !apierrors.IsInvalid(err) {
		t.Fatalf("create nameless: %v", err)
	}
	// create with mismatching namespace
	if _, err := pods.Create(ctx, pod("other", "q"), metav1.CreateOptions{}); !apierrors.IsBadRequest(err) {
		t.Fatalf("create ns mismatch: %v", err)
	}
	// create with two controller owners
	two := pod("ns", "two")
	two.Object["metadata"].(map[string]interface{})["ownerReferences"] = []interface{}{ownerRef("a", true), ownerRef("b", true)}
	if _, err := pods.Create(ctx, two, metav1.CreateOptions{}); !apierrors.IsInvalid(err) {
		t.Fatalf("create two controllers: %v", err)
	}
	// get
	got, err := pods.Get(ctx, "p", metav1.GetOptions{})
	if err != nil || !reflect.DeepEqual(got.Object, created.Object) {
		t.Fatalf("get = %v, %v", got, err)
	}
	if live := s.GetLive("v1", "Pod", "ns", "p"); !reflect.DeepEqual(live, got.Object) {
		t.Fatalf("GetLive = %v", live)
	}

	// update with equal content: RV unchanged
	same, err := pods.Update(ctx, got.DeepCopy(), metav1.UpdateOptions{})
	if err != nil || same.GetResourceVersion() != got.GetResourceVersion() {
		t.Fatalf("no-op update: %v %v", same, err)
	}
	// metadata-only change: RV bump, no generation bump
	lbl := got.DeepCopy()
	lbl.SetLabels(map[string]string{"a": "b"})
	lbl, err = pods.Update(ctx, lbl, metav1.UpdateOptions{})
	if err != nil || lbl.GetResourceVersion() != "1002" || lbl.GetGeneration() != 1 {
		t.Fatalf("label update: %v %v", lbl, err)
	}
	// stale RV
	stale := got.DeepCopy()
	stale.Object["spec"] = map[string]interface{}{"replicas": int64(7)}
	if _, err := pods.Update(ctx, stale, metav1.UpdateOptions{}); !apierrors.IsConflict(err) {
		t.Fatalf("stale update: %v", err)
	}
	// wrong uid
	wrongUID := lbl.DeepCopy()
	wrongUID.SetUID("other")
	if _, err := pods.Update(ctx, wrongUID, metav1.UpdateOptions{}); !apierrors.IsConflict(err) {
		t.Fatalf("wrong uid update: %v", err)
	}
	// spec change: generation+1
	spec := lbl.DeepCopy()
	spec.Object["spec"] = map[string]interface{}{"replicas": int64(2)}
	spec, err = pods.Update(ctx, spec, metav1.UpdateOptions{})
	if err != nil || spec.GetGeneration() != 2 || spec.GetResourceVersion() != "1003" {
		t.Fatalf("spec update: %v %v", spec, err)
	}
	// status-only via Update on a HasStatus resource: ignored
	st := spec.DeepCopy()
	st.Object["status"] = map[string]interface{}{"phase": "Running"}
	st, err = pods.Update(ctx, st, metav1.UpdateOptions{})
	if err != nil || st.GetResourceVersion() != "1003" {
		t.Fatalf("status via update: %v %v", st, err)
	}
	if _, has := st.Object["status"]; has {
		t.Fatalf("status via update must be ignored: %v", st.Object)
	}
	// UpdateStatus
	st = spec.DeepCopy()
	st.Object["status"] = map[string]interface{}{"phase": "Running"}
	st.Object["spec"] = map[string]interface{}{"replicas": int64(99)} // must be ignored
	st, err = pods.UpdateStatus(ctx, st, metav1.UpdateOptions{})
	if err != nil || st.GetResourceVersion() != "1004" || st.GetGeneration() != 2 {
		t.Fatalf("updatestatus: %v %v", st, err)
	}
	if v, _, _ := unstructured.NestedInt64(st.Object, "spec", "replicas"); v != 2 {
		t.Fatalf("updatestatus changed spec: %v", st.Object)
	}
	if v, _, _ := unstructured.NestedString(st.Object, "status", "phase"); v != "Running" {
		t.Fatalf("updatestatus did not set status: %v", st.Object)
	}
	// UpdateStatus no-op
	again, err := pods.UpdateStatus(ctx, st.DeepCopy(), metav1.UpdateOptions{})
	if err != nil || again.GetResourceVersion() != "1004" {
		t.Fatalf("updatestatus no-op: %v %v", again, err)
	}
	// UpdateStatus stale
	if _, err := pods.UpdateStatus(ctx, spec.DeepCopy(), metav1.UpdateOptions{}); !apierrors.IsConflict(err) {
		t.Fatalf("updatestatus stale: %v", err)
	}
	// second controller owner reference via update
	bad := st.DeepCopy()
	bad.Object["metadata"].(map[string]interface{})["ownerReferences"] = []interface{}{ownerRef("a", true), ownerRef("b", true)}
	if _, err := pods.Update(ctx, bad, metav1.UpdateOptions{}); !apierrors.IsInvalid(err) {
		t.Fatalf("two controllers: %v", err)
	}
	ok := st.DeepCopy()
	ok.Object["metadata"].(map[string]interface{})["ownerReferences"] = []interface{}{ownerRef("a", true), ownerRef("b", false)}
	if _, err := pods.Update(ctx, ok, metav1.UpdateOptions{}); err != nil {
		t.Fatalf("one controller: %v", err)
	}
	// update missing
	if _, err := pods.Update(ctx, pod("ns", "absent"), metav1.UpdateOptions{}); !apierrors.IsNotFound(err) {
		t.Fatalf("update missing: %v", err)
	}

	// UpdateStatus on a resource without status subresource -> NotFound
	ctc, err := cs.Resource("ctl.example.com/v1", "clusterthings")
	if err != nil {
		t.Fatal(err)
	}
	ct := &unstructured.Unstructured{Object: map[string]interface{}{
		"apiVersion": "ctl.example.com/v1", "kind": "ClusterThing",
		"metadata": map[string]interface{}{"name": "c"},
		"status":   map[string]interface{}{"x": int64(1)},
	}}
	ct, err = ctc.Create(ctx, ct, metav1.CreateOptions{})
	if err != nil || ct.GetNamespace() != "" {
		t.Fatalf("create cluster-scoped: %v %v", ct, err)
	}
	if _, has := ct.Object["status"]; !has {
		t.Fatalf("status must be kept on create for !HasStatus: %v", ct.Object)
	}
	if _, err := ctc.UpdateStatus(ctx, ct, metav1.UpdateOptions{}); !apierrors.IsNotFound(err) {
		t.Fatalf("updatestatus without subresource: %v", err)
	}
	// status via Update on !HasStatus resource is effective and bumps no generation
	ct.Object["status"] = map[string]interface{}{"x": int64(2)}
	ct2, err := ctc.Update(ctx, ct, metav1.UpdateOptions{})
	if err != nil || ct2.GetGeneration() != 1 || ct2.GetResourceVersion() == ct.GetResourceVersion() {
		t.Fatalf("status via update (!HasStatus): %v %v", ct2, err)
	}
	// unknown resource -> 404
	dc, err := dynamic.NewForConfig(s.RestConfig())
	if err != nil {
		t.Fatal(err)
	}
	if _, err := dc.Resource(schema.GroupVersionResource{Version: "v1", Resource: "nothings"}).Namespace("ns").Get(ctx, "x", metav1.GetOptions{}); !apierrors.IsNotFound(err) {
		t.Fatalf("unknown resource: %v", err)
	}
}

func TestDeleteAndFinalizers(t *testing.T) {
	s, _, cs := newEnv(t)
	rc, _ := cs.Resource("v1", "pods")
	pods := rc.Namespace("ns")

	// plain delete with uid precondition
	a, err := pods.Create(ctx, pod("ns", "a"), metav1.CreateOptions{})
	if err != nil {
		t.Fatal(err)
	}
	wrong := types.UID("nope")
	if err := pods.Delete(ctx, "a", metav1.DeleteOptions{Preconditions: &metav1.Preconditions{UID: &wrong}}); !apierrors.IsConflict(err) {
		t.Fatalf("delete wrong uid: %v", err)
	}
	staleRV := "1"
	if err := pods.Delete(ctx, "a", metav1.DeleteOptions{Preconditions: &metav1.Preconditions{ResourceVersion: &staleRV}}); !apierrors.IsConflict(err) {
		t.Fatalf("delete wrong rv: %v", err)
	}
	uid := a.GetUID()
	if err := pods.Delete(ctx, "a", metav1.DeleteOptions{Preconditions: &metav1.Preconditions{UID: &uid}}); err != nil {
		t.Fatalf("delete: %v", err)
	}
	if s.GetLive("v1", "Pod", "ns", "a") != nil {
		t.Fatalf("object not removed")
	}
	if err := pods.Delete(ctx, "a", metav1.DeleteOptions{}); !apierrors.IsNotFound(err) {
		t.Fatalf("delete missing: %v", err)
	}

	// delete with finalizers
	b := pod("ns", "b")
	b.SetFinalizers([]string{"f1", "f2"})
	b, err = pods.Create(ctx, b, metav1.CreateOptions{})
	if err != nil {
		t.Fatal(err)
	}
	if err := pods.Delete(ctx, "b", metav1.DeleteOptions{}); err != nil {
		t.Fatal(err)
	}
	del, err := pods.Get(ctx, "b", metav1.GetOptions{})
	if err != nil || del.GetDeletionTimestamp() == nil || del.GetResourceVersion() == b.GetResourceVersion() {
		t.Fatalf("after delete with finalizers: %v %v", del, err)
	}
	// second delete is a no-op
	if err := pods.Delete(ctx, "b", metav1.DeleteOptions{}); err != nil {
		t.Fatal(err)
	}
	del2, _ := pods.Get(ctx, "b", metav1.GetOptions{})
	if del2.GetResourceVersion() != del.GetResourceVersion() {
		t.Fatalf("second delete bumped RV")
	}
	// adding a finalizer while deleting -> Invalid
	add := del.DeepCopy()
	add.SetFinalizers([]string{"f1", "f2", "f3"})
	if _, err := pods.Update(ctx, add, metav1.UpdateOptions{}); !apierrors.IsInvalid(err) {
		t.Fatalf("add finalizer while deleting: %v", err)
	}
	// cannot clear the deletionTimestamp
	keep := del.DeepCopy()
	keep.SetDeletionTimestamp(nil)
	keep.SetFinalizers([]string{"f1"})
	keep, err = pods.Update(ctx, keep, metav1.UpdateOptions{})
	if err != nil || keep.GetDeletionTimestamp() == nil || len(keep.GetFinalizers()) != 1 {
		t.Fatalf("remove one finalizer: %v %v", keep, err)
	}
	// removing the finalizers removes the object
	keep.SetFinalizers(nil)
	gone, err := pods.Update(ctx, keep, metav1.UpdateOptions{})
	if err != nil || len(gone.GetFinalizers()) != 0 {
		t.Fatalf("remove finalizers: %v %v", gone, err)
	}
	if _, err := pods.Get(ctx, "b", metav1.GetOptions{}); !apierrors.IsNotFound(err) {
		t.Fatalf("object should be gone: %v", err)
	}
	log := s.Log()
	last := log[len(log)-2]
	if last.Verb != "update" || last.Pre == nil || last.Post != nil || last.Resp == nil {
		t.Fatalf("log of finalizing update: %+v", last)
	}

	// foreground delete adds the finalizer
	if _, err := pods.Create(ctx, pod("ns", "c"), metav1.CreateOptions{}); err != nil {
		t.Fatal(err)
	}
	fg := metav1.DeletePropagationForeground
	if err := pods.Delete(ctx, "c", metav1.DeleteOptions{PropagationPolicy: &fg}); err != nil {
		t.Fatal(err)
	}
	c, err := pods.Get(ctx, "c", metav1.GetOptions{})
	if err != nil || c.GetDeletionTimestamp() == nil || !reflect.DeepEqual(c.GetFinalizers(), []string{"foregroundDeletion"}) {
		t.Fatalf("foreground delete: %v %v", c, err)
	}
}

func TestPatch(t *testing.T) {
	s, _, cs := newEnv(t)
	rc, _ := cs.Resource("v1", "pods")
	pods := rc.Namespace("ns")

	p := pod("ns", "p")
	p.SetAnnotations(map[string]string{"example.com/last-applied": "x", "keep": "y"})
	p, err := pods.Create(ctx, p, metav1.CreateOptions{})
	if err != nil {
		t.Fatal(err)
	}
	// json patch: remove
	out, err := pods.Patch(ctx, "p", types.JSONPatchType, []byte(`[{"op":"remove","path":"/metadata/annotations/example.com~1last-applied"}]`), metav1.PatchOptions{})
	if err != nil {
		t.Fatal(err)
	}
	if !reflect.DeepEqual(out.GetAnnotations(), map[string]string{"keep": "y"}) || out.GetGeneration() != 1 || out.GetResourceVersion() == p.GetResourceVersion() {
		t.Fatalf("json patch remove: %v", out.Object)
	}
	// remove of a missing path -> Invalid
	if _, err := pods.Patch(ctx, "p", types.JSONPatchType, []byte(`[{"op":"remove","path":"/metadata/annotations/example~0com~1last-applied"}]`), metav1.PatchOptions{}); !apierrors.IsInvalid(err) {
		t.Fatalf("json patch remove missing: %v", err)
	}
	// add / replace
	out, err = pods.Patch(ctx, "p", types.JSONPatchType, []byte(`[{"op":"add","path":"/spec/x","value":{"y":[1,2]}},{"op":"replace","path":"/spec/replicas","value":5},{"op":"add","path":"/spec/x/y/-","value":3},{"op":"remove","path":"/spec/x/y/0"}]`), metav1.PatchOptions{})
	if err != nil {
		t.Fatal(err)
	}
	want := map[string]interface{}{"replicas": int64(5), "x": map[string]interface{}{"y": []interface{}{int64(2), int64(3)}}}
	if !reflect.DeepEqual(out.Object["spec"], want) || out.GetGeneration() != 2 {
		t.Fatalf("json patch add/replace: %v", out.Object)
	}
	// patch missing -> NotFound
	if _, err := pods.Patch(ctx, "absent", types.JSONPatchType, []byte(`[]`), metav1.PatchOptions{}); !apierrors.IsNotFound(err) {
		t.Fatalf("json patch missing: %v", err)
	}

	// apply: create
	force := true
	body := []byte(`{"apiVersion":"v1","kind":"Pod","metadata":{"name":"q","namespace":"ns","labels":{"a":"1"}},"spec":{"replicas":1,"nested":{"k1":"v1"}}}`)
	q, err := pods.Patch(ctx, "q", types.ApplyPatchType, body, metav1.PatchOptions{FieldManager: "fm", Force: &force})
	if err != nil || q.GetUID() == "" || q.GetGeneration() != 1 {
		t.Fatalf("apply create: %v %v", q, err)
	}
	// apply: same body is a no-op
	q2, err := pods.Patch(ctx, "q", types.ApplyPatchType, body, metav1.PatchOptions{FieldManager: "fm", Force: &force})
	if err != nil || q2.GetResourceVersion() != q.GetResourceVersion() {
		t.Fatalf("apply no-op: %v %v", q2, err)
	}
	// apply: overlay merges maps, keeps unrelated keys
	q3, err := pods.Patch(ctx, "q", types.ApplyPatchType, []byte(`{"apiVersion":"v1","kind":"Pod","metadata":{"name":"q","labels":{"b":"2"}},"spec":{"nested":{"k2":"v2"}}}`), metav1.PatchOptions{FieldManager: "fm", Force: &force})
	if err != nil {
		t.Fatal(err)
	}
	if !reflect.DeepEqual(q3.GetLabels(), map[string]string{"a": "1", "b": "2"}) || q3.GetGeneration() != 2 ||
		!reflect.DeepEqual(q3.Object["spec"], map[string]interface{}{"replicas": int64(1), "nested": map[string]interface{}{"k1": "v1", "k2": "v2"}}) {
		t.Fatalf("apply overlay: %v", q3.Object)
	}
	log := s.Log()
	last := log[len(log)-1]
	if last.Verb != "patch-apply" || last.FieldManager != "fm" || !last.Force || last.Name != "q" || last.Code != 200 {
		t.Fatalf("apply log entry: %+v", last)
	}
	if log[len(log)-3].Code != 201 || log[len(log)-3].Pre != nil || log[len(log)-3].Post == nil {
		t.Fatalf("apply-create log entry: %+v", log[len(log)-3])
	}

	// merge patch
	q4, err := pods.Patch(ctx, "q", types.MergePatchType, []byte(`{"metadata":{"labels":{"a":null}},"spec":{"nested":null,"z":true}}`), metav1.PatchOptions{})
	if err != nil {
		t.Fatal(err)
	}
	if !reflect.DeepEqual(q4.GetLabels(), map[string]string{"b": "2"}) ||
		!reflect.DeepEqual(q4.Object["spec"], map[string]interface{}{"replicas": int64(1), "z": true}) {
		t.Fatalf("merge patch: %v", q4.Object)
	}
}

func TestInformer(t *testing.T) {
	s, _, cs := newEnv(t)
	s.Seed(pod("ns", "a").Object)
	s.Seed(pod("ns", "b").Object)
	s.Seed(pod("other", "c").Object)

	f := dynamicinformer.NewSharedInformerFactory(cs, time.Hour)
	ri, err := f.Resource("v1", "pods")
	if err != nil {
		t.Fatal(err)
	}
	waitFor(t, 5*time.Second, "informer sync", ri.Informer().HasSynced)
	names := func(ns string) []string {
		objs, err := ri.Lister().Namespace(ns).List(labels.Everything())
		if err != nil {
			t.Fatal(err)
		}
		out := []string{}
		for _, o := range objs {
			out = append(out, o.GetName())
		}
		sortStrings(out)
		return out
	}
	if got := names("ns"); !reflect.DeepEqual(got, []string{"a", "b"}) {
		t.Fatalf("lister = %v", got)
	}
	if s.ListCount("v1", "Pod") != 1 {
		t.Fatalf("ListCount = %d", s.ListCount("v1", "Pod"))
	}
	waitFor(t, 2*time.Second, "watch open", func() bool { return s.WatchCount("v1", "Pod") == 1 })

	// Emit MODIFIED reaches the cache.
	mod := s.GetLive("v1", "Pod", "ns", "a")
	mod["metadata"].(map[string]interface{})["labels"] = map[string]interface{}{"seen": "yes"}
	mod["metadata"].(map[string]interface{})["resourceVersion"] = "5000"
	s.Emit("MODIFIED", mod)
	waitFor(t, 2*time.Second, "MODIFIED in cache", func() bool {
		o, err := ri.Lister().Namespace("ns").Get("a")
		return err == nil && o.GetLabels()["seen"] == "yes"
	})
	// The live store is untouched by Emit.
	if l := s.GetLive("v1", "Pod", "ns", "a"); metaString(l, "resourceVersion") == "5000" {
		t.Fatalf("Emit modified the live store")
	}
	// ADDED / DELETED
	s.Emit("ADDED", pod("ns", "z").Object)
	waitFor(t, 2*time.Second, "ADDED in cache", func() bool { return reflect.DeepEqual(names("ns"), []string{"a", "b", "z"}) })
	s.Emit("DELETED", pod("ns", "b").Object)
	waitFor(t, 2*time.Second, "DELETED in cache", func() bool { return reflect.DeepEqual(names("ns"), []string{"a", "z"}) })

	// Closing the informer cancels the watch.
	ri.Close()
	waitFor(t, 2*time.Second, "watch closed", func() bool { return s.WatchCount("v1", "Pod") == 0 })

	// With a list view, a new informer sees the view and not the live store.
	stale := pod("ns", "ghost")
	stale.SetUID("ghost-uid")
	stale.SetResourceVersion("7")
	s.SetListView("v1", "Pod", []map[string]interface{}{stale.Object})
	ri, err = f.Resource("v1", "pods")
	if err != nil {
		t.Fatal(err)
	}
	waitFor(t, 5*time.Second, "informer sync", ri.Informer().HasSynced)
	if got := names("ns"); !reflect.DeepEqual(got, []string{"ghost"}) {
		t.Fatalf("lister with view = %v", got)
	}
	if got := names("other"); len(got) != 0 {
		t.Fatalf("lister with view (other) = %v", got)
	}
	if s.GetLive("v1", "Pod", "ns", "ghost") != nil || s.GetLive("v1", "Pod", "ns", "a") == nil {
		t.Fatalf("list view leaked into live store")
	}
	// Server.Close terminates watches; the reflector then relists, now from live.
	s.ClearListViews()
	waitFor(t, 2*time.Second, "watch open", func() bool { return s.WatchCount("v1", "Pod") == 1 })
	before := s.ListCount("v1", "Pod")
	s.Close()
	waitFor(t, 5*time.Second, "relist after Close", func() bool { return s.ListCount("v1", "Pod") > before })
	waitFor(t, 5*time.Second, "cache follows live", func() bool { return reflect.DeepEqual(names("ns"), []string{"a", "b"}) })
	ri.Close()
	waitFor(t, 2*time.Second, "watch closed", func() bool { return s.WatchCount("v1", "Pod") == 0 })
}

func sortStrings(l []string) {
	for i := range l {
		for j := i + 1; j < len(l); j++ {
			if l[j] < l[i] {
				l[i], l[j] = l[j], l[i]
			}
		}
	}
}

func TestTypedClient(t *testing.T) {
	s, _, _ := newEnv(t)
	mc, err := internalclientset.NewForConfig(s.RestConfig())
	if err != nil {
		t.Fatal(err)
	}
	revs := mc.MetacontrollerV1alpha1().ControllerRevisions("ns")

	if _, err := revs.Get(ctx, "r", metav1.GetOptions{}); !apierrors.IsNotFound(err) {
		t.Fatalf("get missing: %v", err)
	}
	in := &v1alpha1.ControllerRevision{
		ObjectMeta: metav1.ObjectMeta{Name: "r", Namespace: "ns", Labels: map[string]string{"l": "v"}},
		Children:   []v1alpha1.ControllerRevisionChildren{{APIGroup: "", Kind: "Pod", Names: []string{"a"}}},
	}
	in.ParentPatch.Raw = []byte(`{"spec":{"x":1}}`)
	created, err := revs.Create(ctx, in, metav1.CreateOptions{})
	if err != nil {
		t.Fatal(err)
	}
	if created.UID == "" || created.ResourceVersion == "" || created.Generation != 1 || created.Name != "r" || created.Namespace != "ns" ||
		string(created.ParentPatch.Raw) != `{"spec":{"x":1}}` || len(created.Children) != 1 {
		t.Fatalf("created = %+v", created)
	}
	if _, err := revs.Create(ctx, in, metav1.CreateOptions{}); !apierrors.IsAlreadyExists(err) {
		t.Fatalf("create existing: %v", err)
	}
	got, err := revs.Get(ctx, "r", metav1.GetOptions{})
	if err != nil || !reflect.DeepEqual(got, created) {
		t.Fatalf("get = %+v, %v", got, err)
	}
	upd := got.DeepCopy()
	upd.Children[0].Names = []string{"a", "b"}
	upd, err = revs.Update(ctx, upd, metav1.UpdateOptions{})
	if err != nil || upd.Generation != 2 || upd.ResourceVersion == got.ResourceVersion {
		t.Fatalf("update = %+v, %v", upd, err)
	}
	if _, err := revs.Update(ctx, got, metav1.UpdateOptions{}); !apierrors.IsConflict(err) {
		t.Fatalf("stale update: %v", err)
	}
	// UpdateWithRetries: the first Update hits a conflict injected through the hook
	// (an external write just before it), the retry succeeds.
	s.ResetLog()
	bumped := false
	s.SetBeforeRequest(func(n int, verb, apiVersion, kind, ns, name string) *Fault {
		if verb == "update" && !bumped {
			bumped = true
			live := s.GetLive(apiVersion, kind, ns, name)
			live["metadata"].(map[string]interface{})["resourceVersion"] = "9999"
			s.Seed(live)
		}
		return nil
	})
	res, err := revs.UpdateWithRetries(created, func(cr *v1alpha1.ControllerRevision) bool {
		cr.Labels["l"] = "w"
		return true
	})
	s.SetBeforeRequest(nil)
	if err != nil || res.Labels["l"] != "w" {
		t.Fatalf("UpdateWithRetries = %+v, %v", res, err)
	}
	verbs := []string{}
	codes := []int{}
	for _, e := range s.Log() {
		verbs = append(verbs, e.Verb)
		codes = append(codes, e.Code)
	}
	if !reflect.DeepEqual(verbs, []string{"get", "update", "get", "update"}) || !reflect.DeepEqual(codes, []int{200, 409, 200, 200}) {
		t.Fatalf("UpdateWithRetries log: %v %v", verbs, codes)
	}
	// UpdateWithRetries with a replaced object reports Gone.
	other := created.DeepCopy()
	other.UID = "someone-else"
	if _, err := revs.UpdateWithRetries(other, func(*v1alpha1.ControllerRevision) bool { return true }); !apierrors.IsGone(err) {
		t.Fatalf("UpdateWithRetries on replaced object: %v", err)
	}
	// List
	list, err := revs.List(ctx, metav1.ListOptions{})
	if err != nil || len(list.Items) != 1 || list.Items[0].Name != "r" || list.ResourceVersion == "" {
		t.Fatalf("list = %+v, %v", list, err)
	}
	sel, err := revs.List(ctx, metav1.ListOptions{LabelSelector: "l=nope"})
	if err != nil || len(sel.Items) != 0 {
		t.Fatalf("list with selector = %+v, %v", sel, err)
	}
	// Delete
	if err := revs.Delete(ctx, "r", metav1.DeleteOptions{}); err != nil {
		t.Fatal(err)
	}
	if _, err := revs.Get(ctx, "r", metav1.GetOptions{}); !apierrors.IsNotFound(err) {
		t.Fatalf("get deleted: %v", err)
	}
	if err := revs.Delete(ctx, "r", metav1.DeleteOptions{}); !apierrors.IsNotFound(err) {
		t.Fatalf("delete missing: %v", err)
	}
}

func TestBeforeRequest(t *testing.T) {
	s, _, cs := newEnv(t)
	rc, _ := cs.Resource("v1", "pods")
	pods := rc.Namespace("ns")

	type call struct {
		n                                 int
		verb, apiVersion, kind, ns, name string
	}
	var calls []call
	s.SetBeforeRequest(func(n int, verb, apiVersion, kind, ns, name string) *Fault {
		calls = append(calls, call{n, verb, apiVersion, kind, ns, name})
		if n == 1 {
			return &Fault{Code: 500, Reason: "InternalError"}
		}
		if n == 3 {
			// external edit "before the request"
			s.Seed(pod("ns", "seeded").Object)
		}
		return nil
	})
	if _, err := pods.Create(ctx, pod("ns", "a"), metav1.CreateOptions{}); err != nil { // n=0
		t.Fatal(err)
	}
	if _, err := pods.List(ctx, metav1.ListOptions{}); err != nil { // not counted
		t.Fatal(err)
	}
	if _, err := pods.Create(ctx, pod("ns", "b"), metav1.CreateOptions{}); !apierrors.IsInternalError(err) { // n=1
		t.Fatalf("injected fault: %v", err)
	}
	if s.GetLive("v1", "Pod", "ns", "b") != nil {
		t.Fatalf("faulted request was executed")
	}
	if _, err := pods.Create(ctx, pod("ns", "b"), metav1.CreateOptions{}); err != nil { // n=2
		t.Fatal(err)
	}
	got, err := pods.Get(ctx, "seeded", metav1.GetOptions{}) // n=3
	if err != nil || got.GetName() != "seeded" {
		t.Fatalf("seed inside hook not visible: %v %v", got, err)
	}
	wantCalls := []call{
		{0, "create", "v1", "Pod", "ns", "a"},
		{1, "create", "v1", "Pod", "ns", "b"},
		{2, "create", "v1", "Pod", "ns", "b"},
		{3, "get", "v1", "Pod", "ns", "seeded"},
	}
	if !reflect.DeepEqual(calls, wantCalls) {
		t.Fatalf("hook calls = %+v", calls)
	}
	log := s.Log()
	if len(log) != 5 {
		t.Fatalf("log = %+v", log)
	}
	for i, e := range log {
		if e.Seq != i {
			t.Errorf("Seq[%d] = %d", i, e.Seq)
		}
		if e.Injected != (i == 2) {
			t.Errorf("Injected[%d] = %v", i, e.Injected)
		}
	}
	if e := log[2]; e.Code != 500 || e.Reason != "InternalError" || e.Verb != "create" || e.Name != "b" || e.Pre != nil || e.Post != nil || e.Resp != nil {
		t.Fatalf("fault entry = %+v", e)
	}
	if e := log[1]; e.Verb != "list" || e.Code != 200 || e.Kind != "Pod" || e.Namespace != "ns" {
		t.Fatalf("list entry = %+v", e)
	}
	if e := log[4]; e.Pre == nil || e.Post == nil || e.Code != 200 {
		t.Fatalf("get entry must see the seeded object as Pre: %+v", e)
	}

	// other fault kinds map onto the apierrors predicates
	faults := []struct {
		f     Fault
		check func(error) bool
	}{
		{Fault{404, "NotFound"}, apierrors.IsNotFound},
		{Fault{409, "Conflict"}, apierrors.IsConflict},
		{Fault{409, "AlreadyExists"}, apierrors.IsAlreadyExists},
		{Fault{410, "Gone"}, apierrors.IsGone},
		{Fault{422, "Invalid"}, apierrors.IsInvalid},
		{Fault{500, "InternalError"}, apierrors.IsInternalError},
		{Fault{504, "Timeout"}, apierrors.IsTimeout},
	}
	for _, fc := range faults {
		fc := fc
		s.SetBeforeRequest(func(int, string, string, string, string, string) *Fault { return &fc.f })
		if _, err := pods.Get(ctx, "a", metav1.GetOptions{}); !fc.check(err) {
			t.Errorf("fault %+v: %v", fc.f, err)
		}
	}
	// ResetLog restarts n.
	s.ResetLog()
	var ns []int
	s.SetBeforeRequest(func(n int, _, _, _, _, _ string) *Fault { ns = append(ns, n); return nil })
	pods.Get(ctx, "a", metav1.GetOptions{})
	pods.Get(ctx, "a", metav1.GetOptions{})
	if !reflect.DeepEqual(ns, []int{0, 1}) || len(s.Log()) != 2 {
		t.Fatalf("after ResetLog: ns=%v log=%d", ns, len(s.Log()))
	}
}

func TestDeleteLog(t *testing.T) {
	s, _, cs := newEnv(t)
	rc, _ := cs.Resource("v1", "pods")
	pods := rc.Namespace("ns")
	a, err := pods.Create(ctx, pod("ns", "a"), metav1.CreateOptions{})
	if err != nil {
		t.Fatal(err)
	}
	s.ResetLog()
	uid := a.GetUID()
	bg := metav1.DeletePropagationBackground
	wrong := types.UID("wrong")
	if err := pods.Delete(ctx, "a", metav1.DeleteOptions{Preconditions: &metav1.Preconditions{UID: &wrong}, PropagationPolicy: &bg}); !apierrors.IsConflict(err) {
		t.Fatal(err)
	}
	if err := pods.Delete(ctx, "a", metav1.DeleteOptions{Preconditions: &metav1.Preconditions{UID: &uid}, PropagationPolicy: &bg}); err != nil {
		t.Fatal(err)
	}
	log := s.Log()
	if len(log) != 2 {
		t.Fatalf("log = %+v", log)
	}
	e := log[0]
	if e.Verb != "delete" || e.Code != 409 || e.Reason != "Conflict" || e.UIDPrecondition != "wrong" || e.Pre == nil || !reflect.DeepEqual(e.Pre, e.Post) || e.Resp != nil || e.Injected {
		t.Fatalf("conflict entry = %+v", e)
	}
	e = log[1]
	if e.Seq != 1 || e.Verb != "delete" || e.APIVersion != "v1" || e.Kind != "Pod" || e.Resource != "pods" || e.Namespace != "ns" || e.Name != "a" ||
		e.UIDPrecondition != string(uid) || e.RVPrecondition != "" || e.Propagation != "Background" ||
		e.Body != nil || e.Code != 200 || e.Reason != "" || e.Injected {
		t.Fatalf("delete entry = %+v", e)
	}
	if !reflect.DeepEqual(e.Pre, a.Object) || e.Post != nil {
		t.Fatalf("delete entry Pre/Post = %v / %v", e.Pre, e.Post)
	}
	if st, _ := e.Resp.(map[string]interface{}); st["kind"] != "Status" || st["status"] != "Success" {
		t.Fatalf("delete entry Resp = %v", e.Resp)
	}
	// Log returns copies.
	log[1].Pre["kind"] = "Mutated"
	if s.Log()[1].Pre["kind"] != "Pod" {
		t.Fatalf("Log() exposes internal state")
	}
}

func TestStoreAccessAndRouting(t *testing.T) {
	s, _, cs := newEnv(t)
	// Seed assigns uid / rv / creationTimestamp only when missing, and nothing else.
	a := s.Seed(map[string]interface{}{
		"apiVersion": "ctl.example.com/v1", "kind": "Thing",
		"metadata": map[string]interface{}{"name": "t", "namespace": "ns", "uid": "given"},
		"spec":     map[string]interface{}{"n": 3}, // plain int is normalized to int64
		"status":   map[string]interface{}{"kept": true},
	})
	if metaString(a, "uid") != "given" || metaString(a, "resourceVersion") != "1001" || metaString(a, "creationTimestamp") == "" {
		t.Fatalf("Seed = %v", a)
	}
	if _, has := getMeta(a)["generation"]; has {
		t.Fatalf("Seed must not assign generation")
	}
	if a["spec"].(map[string]interface{})["n"] != int64(3) || a["status"] == nil {
		t.Fatalf("Seed = %v", a)
	}
	s.Seed(map[string]interface{}{"apiVersion": "ctl.example.com/v1", "kind": "ClusterThing", "metadata": map[string]interface{}{"name": "c"}})
	s.Seed(pod("ns2", "p").Object)
	s.Seed(pod("ns1", "p").Object)
	s.Seed(map[string]interface{}{"apiVersion": "v1", "kind": "Namespace", "metadata": map[string]interface{}{"name": "ns1"}})
	var order []string
	for _, o := range s.AllLive() {
		order = append(order, objString(o, "apiVersion")+"|"+objString(o, "kind")+"|"+metaString(o, "namespace")+"|"+metaString(o, "name"))
	}
	want := []string{
		"ctl.example.com/v1|ClusterThing||c",
		"ctl.example.com/v1|Thing|ns|t",
		"v1|Namespace||ns1",
		"v1|Pod|ns1|p",
		"v1|Pod|ns2|p",
	}
	if !reflect.DeepEqual(order, want) {
		t.Fatalf("AllLive order = %v", order)
	}
	// mutation of returned copies does not leak
	a["spec"].(map[string]interface{})["n"] = int64(4)
	if s.GetLive("ctl.example.com/v1", "Thing", "ns", "t")["spec"].(map[string]interface{})["n"] != int64(3) {
		t.Fatalf("Seed result aliases the store")
	}

	// cluster-wide list of a namespaced resource, namespace filter, cluster-scoped list
	prc, _ := cs.Resource("v1", "pods")
	all, err := prc.List(ctx, metav1.ListOptions{})
	if err != nil || len(all.Items) != 2 || all.Items[0].GetNamespace() != "ns1" || all.GetKind() != "PodList" || all.GetResourceVersion() != "1005" {
		t.Fatalf("cluster-wide list = %v, %v", all, err)
	}
	one, err := prc.Namespace("ns2").List(ctx, metav1.ListOptions{})
	if err != nil || len(one.Items) != 1 || one.Items[0].GetNamespace() != "ns2" {
		t.Fatalf("namespaced list = %v, %v", one, err)
	}
	nrc, _ := cs.Resource("v1", "namespaces")
	nsObj, err := nrc.Get(ctx, "ns1", metav1.GetOptions{})
	if err != nil || nsObj.GetName() != "ns1" {
		t.Fatalf("get namespace = %v, %v", nsObj, err)
	}
	nsObj.Object["status"] = map[string]interface{}{"phase": "Active"}
	nsObj, err = nrc.UpdateStatus(ctx, nsObj, metav1.UpdateOptions{})
	if err != nil || nsObj.Object["status"] == nil {
		t.Fatalf("updatestatus namespace = %v, %v", nsObj, err)
	}
	trc, _ := cs.Resource("ctl.example.com/v1", "things")
	th, err := trc.Namespace("ns").Get(ctx, "t", metav1.GetOptions{})
	if err != nil || th.GetUID() != "given" {
		t.Fatalf("get thing = %v, %v", th, err)
	}
	// Update of a seeded object without generation: spec change yields generation 1.
	th.Object["spec"] = map[string]interface{}{"n": int64(9)}
	th, err = trc.Namespace("ns").Update(ctx, th, metav1.UpdateOptions{})
	if err != nil || th.GetGeneration() != 1 {
		t.Fatalf("update seeded thing = %v, %v", th, err)
	}
	s.RemoveLive("ctl.example.com/v1", "Thing", "ns", "t")
	if _, err := trc.Namespace("ns").Get(ctx, "t", metav1.GetOptions{}); !apierrors.IsNotFound(err) {
		t.Fatalf("get removed: %v", err)
	}
}
