package verifh

// Generators of correlated JSON triples (observed, last-applied, desired)
// for the three-way merge. Everything is derived from one Rng.

var plainKeys = []string{"a", "b", "c", "x", "spec", "data"}
var MergeKeys = []string{"containerPort", "port", "mountPath", "name", "uid", "ip", "path"}
var strPool = []string{"s1", "s2", "a", "b", "80", "true", ""}
var intPool = []int64{0, 1, 2, 80, 443, -1}

type TripleOpts struct {
	MaxDepth int
	Hostile  bool // allow duplicate list-map keys, conflicting conventional keys, container merge-key values
}

type TripleGen struct {
	R    *Rng
	Opts TripleOpts
	// features seen while generating (for the distribution report)
	Feat map[string]int
}

func NewTripleGen(r *Rng, o TripleOpts) *TripleGen {
	return &TripleGen{R: r, Opts: o, Feat: map[string]int{}}
}

type absentT struct{}

var Absent = absentT{}

func (g *TripleGen) scalar() interface{} {
	switch g.R.Intn(10) {
	case 0:
		return nil
	case 1:
		return g.R.Bool()
	case 2, 3, 4:
		return intPool[g.R.Intn(len(intPool))]
	case 5:
		return 1.5
	default:
		return strPool[g.R.Intn(len(strPool))]
	}
}

// Triple generates three values for one position; any of them may be Absent.
func (g *TripleGen) Triple(depth int) (o, l, d interface{}) {
	kinds := [3]int{}
	base := g.kind(depth)
	for i := range kinds {
		kinds[i] = base
	}
	if g.R.Chance(1, 6) {
		// type clash somewhere
		kinds[g.R.Intn(3)] = g.kind(depth)
		g.Feat["clash-attempt"]++
	}
	if kinds[0] == kinds[1] && kinds[1] == kinds[2] {
		switch base {
		case 0:
			return g.scalarTriple()
		case 1:
			return g.objTriple(depth)
		case 2:
			return g.plainListTriple()
		case 3:
			return g.listMapTriple(depth)
		}
	}
	vals := [3]interface{}{}
	for i := range vals {
		a, b, c := g.byKind(kinds[i], depth)
		vals[i] = [3]interface{}{a, b, c}[i]
	}
	return vals[0], vals[1], vals[2]
}

func (g *TripleGen) byKind(k, depth int) (interface{}, interface{}, interface{}) {
	switch k {
	case 1:
		return g.objTriple(depth)
	case 2:
		return g.plainListTriple()
	case 3:
		return g.listMapTriple(depth)
	default:
		return g.scalarTriple()
	}
}

func (g *TripleGen) kind(depth int) int {
	if depth >= g.Opts.MaxDepth {
		return 0
	}
	switch g.R.Intn(10) {
	case 0, 1, 2:
		return 0
	case 3, 4, 5, 6:
		return 1
	case 7:
		return 2
	default:
		return 3
	}
}

func (g *TripleGen) scalarTriple() (interface{}, interface{}, interface{}) {
	base := g.scalar()
	pick := func() interface{} {
		if g.R.Chance(7, 10) {
			return base
		}
		return g.scalar()
	}
	return pick(), pick(), pick()
}

// ObjTriple generates three objects sharing a key universe.
func (g *TripleGen) ObjTriple(depth int) (map[string]interface{}, map[string]interface{}, map[string]interface{}) {
	o, l, d := g.objTriple(depth)
	return o.(map[string]interface{}), l.(map[string]interface{}), d.(map[string]interface{})
}

func (g *TripleGen) objTriple(depth int) (interface{}, interface{}, interface{}) {
	g.Feat["object"]++
	n := 1 + g.R.Intn(3)
	o, l, d := map[string]interface{}{}, map[string]interface{}{}, map[string]interface{}{}
	used := map[string]bool{}
	for i := 0; i < n; i++ {
		k := plainKeys[g.R.Intn(len(plainKeys))]
		if used[k] {
			continue
		}
		used[k] = true
		vo, vl, vd := g.Triple(depth + 1)
		if g.R.Chance(3, 4) && vo != Absent {
			o[k] = vo
		}
		if g.R.Chance(1, 2) && vl != Absent {
			l[k] = vl
		}
		if g.R.Chance(2, 3) && vd != Absent {
			d[k] = vd
		}
	}
	return o, l, d
}

func (g *TripleGen) plainListTriple() (interface{}, interface{}, interface{}) {
	g.Feat["plain-list"]++
	mk := func() interface{} {
		n := g.R.Intn(3)
		l := make([]interface{}, 0, n)
		for i := 0; i < n; i++ {
			l = append(l, g.scalar())
		}
		return l
	}
	base := mk()
	pick := func() interface{} {
		if g.R.Chance(1, 2) {
			return base
		}
		return mk()
	}
	return pick(), pick(), pick()
}

func (g *TripleGen) listMapTriple(depth int) (interface{}, interface{}, interface{}) {
	g.Feat["list-map"]++
	var mk string
	if g.R.Chance(1, 8) {
		mk = "id" // not a conventional key: the list is replaced wholesale
		g.Feat["list-map-nokey"]++
	} else {
		mk = MergeKeys[g.R.Intn(len(MergeKeys))]
	}
	// key values
	nv := 1 + g.R.Intn(4)
	vals := make([]interface{}, 0, nv)
	useInts := g.R.Chance(1, 3)
	for i := 0; i < nv; i++ {
		if useInts {
			vals = append(vals, int64(80+i))
		} else {
			vals = append(vals, []string{"k0", "k1", "k2", "k3"}[i])
		}
	}
	// a second conventional key consistently derived from the first (keeps H)
	second := ""
	if g.R.Chance(1, 4) {
		second = MergeKeys[g.R.Intn(len(MergeKeys))]
		if second == mk {
			second = ""
		}
	}
	var lists [3][]interface{}
	for li := 0; li < 3; li++ {
		lists[li] = []interface{}{}
	}
	perm := g.perm(nv)
	for _, vi := range perm {
		fo, fl, fd := g.Triple(depth + 1) // one extra field per item
		extra := [3]interface{}{fo, fl, fd}
		present := [3]bool{g.R.Chance(3, 4), g.R.Chance(1, 2), g.R.Chance(2, 3)}
		for li := 0; li < 3; li++ {
			if !present[li] {
				continue
			}
			item := map[string]interface{}{mk: vals[vi]}
			if second != "" {
				if g.Opts.Hostile && g.R.Chance(1, 4) {
					item[second] = "clash" // same second-key value on several items: violates H
					g.Feat["hostile-second-key"]++
				} else if !g.Opts.Hostile || g.R.Chance(3, 4) {
					item[second] = vals[vi]
				}
			}
			if extra[li] != Absent && g.R.Chance(2, 3) {
				item["v"] = extra[li]
			}
			lists[li] = append(lists[li], item)
		}
	}
	// independent re-ordering of desired
	if g.R.Chance(1, 3) {
		lists[2] = g.shuffle(lists[2])
	}
	if g.Opts.Hostile && g.R.Chance(1, 5) {
		li := g.R.Intn(3)
		if len(lists[li]) > 0 {
			lists[li] = append(lists[li], lists[li][0]) // duplicate key
			g.Feat["hostile-duplicate"]++
		}
	}
	if g.Opts.Hostile && g.R.Chance(1, 10) {
		li := g.R.Intn(3)
		lists[li] = append(lists[li], g.scalar()) // non-object item
		g.Feat["hostile-nonobject-item"]++
	}
	return lists[0], lists[1], lists[2]
}

func (g *TripleGen) perm(n int) []int {
	p := make([]int, n)
	for i := range p {
		p[i] = i
	}
	for i := n - 1; i > 0; i-- {
		j := g.R.Intn(i + 1)
		p[i], p[j] = p[j], p[i]
	}
	return p
}

func (g *TripleGen) shuffle(l []interface{}) []interface{} {
	out := make([]interface{}, len(l))
	for i, j := range g.perm(len(l)) {
		out[i] = l[j]
	}
	return out
}

// Depth of a decoded JSON value.
func Depth(v interface{}) int {
	switch t := v.(type) {
	case map[string]interface{}:
		m := 0
		for _, x := range t {
			if d := Depth(x); d > m {
				m = d
			}
		}
		return m + 1
	case []interface{}:
		m := 0
		for _, x := range t {
			if d := Depth(x); d > m {
				m = d
			}
		}
		return m + 1
	}
	return 0
}
