// Package verifh holds the harness utilities shared by every in-package
// verification test: PRNG, Go value -> Coq term emitter, case-file writer.
// It is injected into /repo with `go test -overlay` as
// metacontroller/pkg/internal/verifh and is never part of a normal build.
package verifh

import (
	"fmt"
	"sort"
	"strconv"
	"strings"

	k8sjson "k8s.io/apimachinery/pkg/util/json"
)

const LastAppliedAnnotation = "metacontroller.k8s.io/last-applied-configuration"

// Interner shares repeated strings and JSON subtrees of a case file through
// named definitions: type-checking a 20-character string literal costs Coq
// far more than a reference to a constant.
type Interner struct {
	names   map[string]string
	pending []string
	n       int
}

func NewInterner() *Interner { return &Interner{names: map[string]string{}} }

// Cur is the interner of the case file being written (nil: emit literals).
var Cur *Interner

func (in *Interner) intern(prefix, text string) string {
	if name, ok := in.names[text]; ok {
		return name
	}
	in.n++
	name := fmt.Sprintf("%s%d", prefix, in.n)
	in.names[text] = name
	in.pending = append(in.pending, fmt.Sprintf("Definition %s := %s.", name, text))
	return name
}

// Flush returns the definitions created since the last call.
func (in *Interner) Flush() string {
	out := strings.Join(in.pending, "\n")
	in.pending = nil
	if out != "" {
		out += "\n"
	}
	return out
}

func share(prefix, text string) string {
	if Cur == nil || len(text) < 12 {
		return text
	}
	return Cur.intern(prefix, text)
}

// CoqString renders s as a Coq string literal. ok=false when s contains a
// byte the case files do not carry (non-printable / non-ASCII).
func CoqString(s string) (string, bool) {
	var b strings.Builder
	b.WriteByte('"')
	for i := 0; i < len(s); i++ {
		c := s[i]
		if c < 32 || c > 126 {
			return "", false
		}
		if c == '"' {
			b.WriteString(`""`)
		} else {
			b.WriteByte(c)
		}
	}
	b.WriteByte('"')
	return b.String(), true
}

func MustCoqString(s string) string {
	r, ok := CoqString(s)
	if !ok {
		panic(fmt.Sprintf("unrepresentable string %q", s))
	}
	return share("s_", r)
}

func CoqZ(n int64) string {
	if n < 0 {
		return fmt.Sprintf("(%d)%%Z", n)
	}
	return fmt.Sprintf("%d%%Z", n)
}

func CoqBool(b bool) string {
	if b {
		return "true"
	}
	return "false"
}

// CoqStringList renders a list of strings.
func CoqStringList(l []string) string {
	parts := make([]string, len(l))
	for i, s := range l {
		parts[i] = MustCoqString(s)
	}
	return "[" + strings.Join(parts, "; ") + "]"
}

// CoqJSON renders a decoded JSON value (nil, bool, int64/int, float64,
// string, []interface{}, map[string]interface{}) as a term of type json.
// Typed nil maps and slices are rendered as JNull (that is what they
// serialise to).
func CoqJSON(v interface{}) (string, error) {
	var b strings.Builder
	if err := emitJSON(&b, v, false); err != nil {
		return "", err
	}
	return b.String(), nil
}

func sub(v interface{}, lastApplied bool) (string, error) {
	var b strings.Builder
	if err := emitJSON0(&b, v, lastApplied); err != nil {
		return "", err
	}
	switch v.(type) {
	case map[string]interface{}, []interface{}, string:
		return share("j_", b.String()), nil
	}
	return b.String(), nil
}

func emitJSON(b *strings.Builder, v interface{}, lastApplied bool) error {
	s, err := sub(v, lastApplied)
	if err != nil {
		return err
	}
	b.WriteString(s)
	return nil
}

func MustCoqJSON(v interface{}) string {
	s, err := CoqJSON(v)
	if err != nil {
		panic(err)
	}
	return s
}

func emitJSON0(b *strings.Builder, v interface{}, lastApplied bool) error {
	switch t := v.(type) {
	case nil:
		b.WriteString("JNull")
	case bool:
		b.WriteString("(JBool " + CoqBool(t) + ")")
	case int64:
		b.WriteString("(JInt " + CoqZ(t) + ")")
	case int:
		b.WriteString("(JInt " + CoqZ(int64(t)) + ")")
	case int32:
		b.WriteString("(JInt " + CoqZ(int64(t)) + ")")
	case float64:
		s, _ := CoqString(strconv.FormatFloat(t, 'g', -1, 64))
		b.WriteString("(JFloat " + s + ")")
	case string:
		if lastApplied {
			var parsed interface{}
			if err := k8sjson.Unmarshal([]byte(t), &parsed); err == nil {
				if back, err := k8sjson.Marshal(parsed); err == nil && string(back) == t {
					b.WriteString("(JText ")
					if err := emitJSON(b, parsed, false); err != nil {
						return err
					}
					b.WriteString(")")
					return nil
				}
			}
		}
		s, ok := CoqString(t)
		if !ok {
			return fmt.Errorf("unrepresentable string %q", t)
		}
		b.WriteString("(JStr " + share("s_", s) + ")")
	case []interface{}:
		if t == nil {
			b.WriteString("JNull")
			return nil
		}
		b.WriteString("(JArr [")
		for i, x := range t {
			if i > 0 {
				b.WriteString("; ")
			}
			if err := emitJSON(b, x, false); err != nil {
				return err
			}
		}
		b.WriteString("])")
	case map[string]interface{}:
		if t == nil {
			b.WriteString("JNull")
			return nil
		}
		keys := make([]string, 0, len(t))
		for k := range t {
			keys = append(keys, k)
		}
		sort.Strings(keys)
		b.WriteString("(JObj [")
		for i, k := range keys {
			if i > 0 {
				b.WriteString("; ")
			}
			ks, ok := CoqString(k)
			if !ok {
				return fmt.Errorf("unrepresentable key %q", k)
			}
			b.WriteString("(" + share("s_", ks) + ", ")
			if err := emitJSON(b, t[k], k == LastAppliedAnnotation); err != nil {
				return err
			}
			b.WriteString(")")
		}
		b.WriteString("])")
	default:
		return fmt.Errorf("unsupported value of type %T", v)
	}
	return nil
}

// Canon passes a value through JSON so that typed nils, ints and nested
// typed maps take the shape the API server would store.
func Canon(v interface{}) (interface{}, error) {
	data, err := k8sjson.Marshal(v)
	if err != nil {
		return nil, err
	}
	var out interface{}
	if err := k8sjson.Unmarshal(data, &out); err != nil {
		return nil, err
	}
	return out, nil
}

// Normalize replaces typed nil maps/slices by nil (what they serialise to)
// and leaves every other value, in particular the int64/float64
// distinction, as it is. It returns a fresh copy.
func Normalize(v interface{}) interface{} {
	switch t := v.(type) {
	case map[string]interface{}:
		if t == nil {
			return nil
		}
		out := make(map[string]interface{}, len(t))
		for k, x := range t {
			out[k] = Normalize(x)
		}
		return out
	case []interface{}:
		if t == nil {
			return nil
		}
		out := make([]interface{}, len(t))
		for i, x := range t {
			out[i] = Normalize(x)
		}
		return out
	}
	return v
}
