package verifh

// Rng is a splitmix64 generator: every random choice of a run derives from
// one seed, and every case records its own sub-seed so it replays alone.
type Rng struct{ s uint64 }

func NewRng(seed uint64) *Rng { return &Rng{s: seed} }

func (r *Rng) Next() uint64 {
	r.s += 0x9e3779b97f4a7c15
	z := r.s
	z = (z ^ (z >> 30)) * 0xbf58476d1ce4e5b9
	z = (z ^ (z >> 27)) * 0x94d049bb133111eb
	return z ^ (z >> 31)
}

// Intn returns a value in [0,n).
func (r *Rng) Intn(n int) int {
	if n <= 0 {
		return 0
	}
	return int(r.Next() % uint64(n))
}

func (r *Rng) Bool() bool { return r.Next()&1 == 1 }

// Chance returns true with probability num/den.
func (r *Rng) Chance(num, den int) bool { return r.Intn(den) < num }

func (r *Rng) Pick(l []string) string { return l[r.Intn(len(l))] }

// Fork derives an independent generator (for a case's own sub-seed).
func (r *Rng) Fork() (*Rng, uint64) {
	s := r.Next()
	return NewRng(s), s
}
