package verifh

import (
	"encoding/json"
	"fmt"
	"os"
	"path/filepath"
	"sort"
	"strconv"
	"strings"
)

// Env reads the knobs the driver passes to every harness test.
type Env struct {
	OutDir string
	Seed   uint64
	Tier   string
	N      int    // number of generated cases requested
	Replay string // path of a replay file, or ""
}

func GetEnv() Env {
	e := Env{OutDir: os.Getenv("VERIF_OUT"), Tier: os.Getenv("VERIF_TIER"), Replay: os.Getenv("VERIF_REPLAY")}
	if e.Tier == "" {
		e.Tier = "quick"
	}
	if s := os.Getenv("VERIF_SEED"); s != "" {
		if v, err := strconv.ParseUint(s, 10, 64); err == nil {
			e.Seed = v
		} else if v, err := strconv.ParseInt(s, 10, 64); err == nil {
			e.Seed = uint64(v)
		}
	}
	if s := os.Getenv("VERIF_N"); s != "" {
		e.N, _ = strconv.Atoi(s)
	}
	return e
}

// CaseWriter shards Coq case files and collects the statistics that go into
// the evidence file.
type CaseWriter struct {
	dir      string
	prop     string
	header   string
	perShard int
	shard    int
	inShard  int
	f        *os.File
	Total    int
	Counts   map[string]int // distribution counters (feature -> count)
	Samples  []interface{}
	sigs     map[string]bool // distinct non-trivial signatures
	jsonl    *os.File
}

// NewCaseWriter: header is the Coq preamble of each shard (Require lines).
func NewCaseWriter(dir, prop, header string, perShard int) (*CaseWriter, error) {
	if err := os.MkdirAll(dir, 0o755); err != nil {
		return nil, err
	}
	old, _ := filepath.Glob(filepath.Join(dir, "cases_*"))
	for _, o := range old {
		os.Remove(o)
	}
	jl, err := os.Create(filepath.Join(dir, "cases.jsonl"))
	if err != nil {
		return nil, err
	}
	w := &CaseWriter{dir: dir, prop: prop, header: header, perShard: perShard,
		Counts: map[string]int{}, sigs: map[string]bool{}, jsonl: jl}
	if err := w.open(); err != nil {
		return nil, err
	}
	return w, nil
}

func (w *CaseWriter) open() error {
	name := filepath.Join(w.dir, fmt.Sprintf("cases_%s_%d.v", w.prop, w.shard))
	f, err := os.Create(name)
	if err != nil {
		return err
	}
	w.f = f
	w.inShard = 0
	Cur = NewInterner()
	_, err = f.WriteString(w.header + "\n")
	return err
}

// Add writes one case: `def` is the Coq term of the case record, `checkFn`
// the name of the Coq function computing the verdict. replay is stored in
// cases.jsonl under the same id so the driver can write replay files.
func (w *CaseWriter) Add(id string, def string, checkFn string, replay interface{}) error {
	idLit, _ := CoqString(id)
	if Cur != nil {
		w.f.WriteString(Cur.Flush())
	}
	fmt.Fprintf(w.f, "Definition %s := %s.\nEval vm_compute in (%s, %s %s).\n", id, def, idLit, checkFn, id)
	w.inShard++
	w.Total++
	if w.inShard >= w.perShard {
		// roll over now, so that the next case's terms are built against the new file's interner
		w.f.Close()
		w.shard++
		if err := w.open(); err != nil {
			return err
		}
	}
	line, err := json.Marshal(map[string]interface{}{"id": id, "case": replay})
	if err != nil {
		return err
	}
	w.jsonl.Write(append(line, '\n'))
	if len(w.Samples) < 3 {
		w.Samples = append(w.Samples, replay)
	}
	return nil
}

func (w *CaseWriter) Count(feature string) { w.Counts[feature]++ }

// NonTrivial records the signature of a case that is non-trivial by the
// property's rule; distinct signatures are what the evidence reports.
func (w *CaseWriter) NonTrivial(sig string) { w.sigs[sig] = true }

func (w *CaseWriter) Close(extra map[string]interface{}) error {
	if w.f != nil {
		w.f.Close()
	}
	w.jsonl.Close()
	keys := make([]string, 0, len(w.Counts))
	for k := range w.Counts {
		keys = append(keys, k)
	}
	sort.Strings(keys)
	dist := map[string]int{}
	for _, k := range keys {
		dist[k] = w.Counts[k]
	}
	stats := map[string]interface{}{
		"property":            w.prop,
		"evaluations":         w.Total,
		"distinct_nontrivial": len(w.sigs),
		"distribution":        dist,
		"samples":             w.Samples,
		"shards":              w.shard + 1,
	}
	for k, v := range extra {
		stats[k] = v
	}
	data, err := json.MarshalIndent(stats, "", " ")
	if err != nil {
		return err
	}
	return os.WriteFile(filepath.Join(w.dir, "stats.json"), data, 0o644)
}

// Sig builds a compact signature string.
func Sig(parts ...interface{}) string {
	ss := make([]string, len(parts))
	for i, p := range parts {
		ss[i] = fmt.Sprint(p)
	}
	return strings.Join(ss, "|")
}
