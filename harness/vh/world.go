package verifh

import (
	"bytes"
	"io"
	"net/http"
	"sync"
	"time"

	"k8s.io/apimachinery/pkg/runtime"
	k8sjson "k8s.io/apimachinery/pkg/util/json"
	"k8s.io/client-go/util/workqueue"
)

// ---- scripted hook transport (replaces http.DefaultTransport) ----

type HookCall struct {
	URL     string
	Header  http.Header
	Body    []byte      // raw request body
	Req     interface{} // decoded request
	Code    int
	RespHdr map[string]string
	Resp    []byte // raw response body
	NetErr  bool
}

// HookFunc answers one hook request. netErr=true simulates a transport error.
type HookFunc func(url string, hdr http.Header, req map[string]interface{}) (code int, hdr2 map[string]string, body []byte, netErr bool)

type HookTransport struct {
	mu    sync.Mutex
	fn    HookFunc
	calls []HookCall
}

func (h *HookTransport) Set(fn HookFunc) {
	h.mu.Lock()
	defer h.mu.Unlock()
	h.fn = fn
	h.calls = nil
}

func (h *HookTransport) Calls() []HookCall {
	h.mu.Lock()
	defer h.mu.Unlock()
	out := make([]HookCall, len(h.calls))
	copy(out, h.calls)
	return out
}

func (h *HookTransport) ResetCalls() {
	h.mu.Lock()
	defer h.mu.Unlock()
	h.calls = nil
}

type netError struct{}

func (netError) Error() string   { return "connection refused (simulated)" }
func (netError) Timeout() bool   { return false }
func (netError) Temporary() bool { return false }

func (h *HookTransport) RoundTrip(r *http.Request) (*http.Response, error) {
	var body []byte
	if r.Body != nil {
		body, _ = io.ReadAll(r.Body)
		r.Body.Close()
	}
	var decoded map[string]interface{}
	_ = k8sjson.Unmarshal(body, &decoded)
	h.mu.Lock()
	fn := h.fn
	h.mu.Unlock()
	code, hdr, resp, netErr := 500, map[string]string(nil), []byte("no hook installed"), false
	if fn != nil {
		code, hdr, resp, netErr = fn(r.URL.String(), r.Header.Clone(), decoded)
	}
	h.mu.Lock()
	h.calls = append(h.calls, HookCall{URL: r.URL.String(), Header: r.Header.Clone(), Body: body, Req: decoded,
		Code: code, RespHdr: hdr, Resp: resp, NetErr: netErr})
	h.mu.Unlock()
	if netErr {
		return nil, netError{}
	}
	rh := http.Header{}
	rh.Set("Content-Type", "application/json")
	for k, v := range hdr {
		rh.Set(k, v)
	}
	return &http.Response{StatusCode: code, Status: http.StatusText(code), Proto: "HTTP/1.1", ProtoMajor: 1, ProtoMinor: 1,
		Header: rh, Body: io.NopCloser(bytes.NewReader(resp)), ContentLength: int64(len(resp)), Request: r}, nil
}

// ---- recording work queue ----

type QueueOp struct {
	Op    string // Add | AddAfter | AddRateLimited | Forget | Done
	Key   string
	Delay time.Duration
}

type RecQueue struct {
	mu      sync.Mutex
	Ops      []QueueOp
	pending  []any
	Requeues int // what NumRequeues answers (how often the item is said to have failed before)
}

// Push makes the next Get return item.
func (q *RecQueue) Push(item any) {
	q.mu.Lock()
	defer q.mu.Unlock()
	q.pending = append(q.pending, item)
}

var _ workqueue.TypedRateLimitingInterface[any] = &RecQueue{}

func (q *RecQueue) rec(op string, item any, d time.Duration) {
	q.mu.Lock()
	defer q.mu.Unlock()
	k, _ := item.(string)
	q.Ops = append(q.Ops, QueueOp{Op: op, Key: k, Delay: d})
}
func (q *RecQueue) Snapshot() []QueueOp {
	q.mu.Lock()
	defer q.mu.Unlock()
	out := make([]QueueOp, len(q.Ops))
	copy(out, q.Ops)
	return out
}
func (q *RecQueue) Reset() {
	q.mu.Lock()
	defer q.mu.Unlock()
	q.Ops = nil
}
func (q *RecQueue) Add(item any)                            { q.rec("Add", item, 0) }
func (q *RecQueue) Len() int                                { return 0 }
func (q *RecQueue) Get() (any, bool) {
	q.mu.Lock()
	defer q.mu.Unlock()
	if len(q.pending) == 0 {
		return nil, true
	}
	it := q.pending[0]
	q.pending = q.pending[1:]
	return it, false
}
func (q *RecQueue) Done(item any)                           { q.rec("Done", item, 0) }
func (q *RecQueue) ShutDown()                               {}
func (q *RecQueue) ShutDownWithDrain()                      {}
func (q *RecQueue) ShuttingDown() bool                      { return false }
func (q *RecQueue) AddAfter(item any, d time.Duration)      { q.rec("AddAfter", item, d) }
func (q *RecQueue) AddRateLimited(item any)                 { q.rec("AddRateLimited", item, 0) }
func (q *RecQueue) Forget(item any)                         { q.rec("Forget", item, 0) }
func (q *RecQueue) NumRequeues(item any) int                { return q.Requeues }

// ---- no-op event recorder ----

type NoopRecorder struct{}

func (NoopRecorder) Event(object runtime.Object, eventtype, reason, message string) {}
func (NoopRecorder) Eventf(object runtime.Object, eventtype, reason, messageFmt string, args ...interface{}) {
}
func (NoopRecorder) AnnotatedEventf(object runtime.Object, annotations map[string]string, eventtype, reason, messageFmt string, args ...interface{}) {
}
