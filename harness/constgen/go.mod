module constgen

go 1.21
