(* Property C18 — Shared informers live while subscribed to; subscribers are isolated.
   Theorems about Model/Informer.v (pkg/dynamic/informer: factory.go, informer.go),
   for ALL operation sequences (any number of subscribers, handlers, resources).
   `run ops` is the factory state after `ops` from the initial state, `track ops`
   the callers' own bookkeeping of the same sequence (who is subscribed, which
   handlers were added through which subscription and not removed since). *)
From Coq Require Import List Arith Bool.
From MC Require Import Model.Informer Proofs.C18Proofs.
Import ListNotations.

(* ------------------------------------------------------------------ *)
(* 1. one informer runs exactly while the resource is subscribed to    *)
(* ------------------------------------------------------------------ *)
(* In every reachable state, for every operation sequence (ResourceInformer.Close
   is idempotent per subscription, so no well-formedness of the sequence is
   needed): running <-> refcount > 0, and the refcount is the number of open
   subscriptions (subscribed and not yet closed). *)
Theorem C18_running_iff_subscribed : forall ops r,
  (running (run ops) r = true <-> 0 < refcount (run ops) r) /\
  refcount (run ops) r = open_count (track ops) r /\
  (running (run ops) r = true <-> 0 < open_count (track ops) r).
Proof.
  intros ops r. split; [apply Wf.running_iff_refcount|apply Wf.refcount_is_open_count].
Qed.
Print Assumptions C18_running_iff_subscribed.

(* every open subscription is attached to the running informer of its resource *)
Theorem C18_open_subscription_is_live : forall ops s r,
  In (s, r) (t_open (track ops)) ->
  sub_live (run ops) s = true /\ sub_res (run ops) s = Some r.
Proof. exact Wf.open_sub_is_live. Qed.
Print Assumptions C18_open_subscription_is_live.

(* no operation sequence panics (the close-of-a-closed-channel branch is unreachable) *)
Theorem C18_no_panic : forall ops, panics_from init ops = false.
Proof. exact Wf.no_panic. Qed.
Print Assumptions C18_no_panic.

Example C18_running_inhabited :
  let ops := [Subscribe 0; Subscribe 0; Subscribe 1; AddHandler 1 5 false; Close 0; Event 0 EAdd 7] in
  refcount (run ops) 0 = 1 /\ open_count (track ops) 0 = 1 /\
  running (run ops) 0 = true /\ running (run ops) 1 = true /\
  running (run (ops ++ [Close 1])) 0 = false /\ running (run (ops ++ [Close 1])) 1 = true /\
  outs ops = [(1, 5, NAdd 7)].
Proof. vm_compute. repeat split; reflexivity. Qed.

(* The first Close of an open subscription takes exactly one reference; the one
   that reaches 0 stops the informer. *)
Theorem C18_close_open_decrements : forall ops s r, In (s, r) (t_open (track ops)) ->
  let st' := r_st (step (run ops) (Close s)) in
  refcount st' r = refcount (run ops) r - 1 /\
  (refcount (run ops) r = 1 -> running st' r = false) /\
  (1 < refcount (run ops) r -> running st' r = true) /\
  r_panic (step (run ops) (Close s)) = false.
Proof. exact Wf.close_open_decrements. Qed.
Print Assumptions C18_close_open_decrements.

(* Double close (finding D26, repaired by closeOnce): a Close through a subscription
   that is not open - closed before, or never created - changes NOTHING: same
   state, no delivery, no panic ... *)
Theorem C18_double_close_noop : forall ops s, is_open (track ops) s = false ->
  step (run ops) (Close s) = mkRes (run ops) [] false.
Proof. exact Wf.close_not_open_noop. Qed.
Print Assumptions C18_double_close_noop.

(* ... so a repeated Close anywhere in a sequence affects nobody: the same states,
   the same deliveries step by step, the same bookkeeping as without it *)
Theorem C18_double_close_no_effect : forall ops1 ops2 s, is_open (track ops1) s = false ->
  run (ops1 ++ Close s :: ops2) = run (ops1 ++ ops2) /\
  trace_from (run (ops1 ++ [Close s])) ops2 = trace_from (run ops1) ops2 /\
  outs (ops1 ++ Close s :: ops2) = outs (ops1 ++ ops2) /\
  track (ops1 ++ Close s :: ops2) = track (ops1 ++ ops2).
Proof. exact Wf.repeated_close_no_effect. Qed.
Print Assumptions C18_double_close_no_effect.

(* the sequences that used to stop the informer under subscriber 1 / panic *)
Example C18_double_close_harmless :
  let ops := [Subscribe 0; Subscribe 0; AddHandler 1 7 false; Close 0; Close 0] in
  is_open (track ops) 0 = false /\ is_open (track ops) 1 = true /\
  running (run ops) 0 = true /\ refcount (run ops) 0 = 1 /\ sub_live (run ops) 1 = true /\
  r_out (step (run ops) (Event 0 EAdd 3)) = [(1, 7, NAdd 3)] /\
  r_panic (step (run ops) (Close 1)) = false /\
  running (r_st (step (run ops) (Close 1))) 0 = false.
Proof. vm_compute. repeat split; reflexivity. Qed.

Example C18_double_close_stale_harmless :
  r_panic (step (run [Subscribe 0; Close 0; Subscribe 0]) (Close 0)) = false /\
  running (run [Subscribe 0; Close 0; Close 0]) 0 = false /\
  let ops := [Subscribe 0; Close 0; Subscribe 0; Subscribe 0; AddHandler 2 7 false; Close 0; Close 1] in
  is_open (track ops) 2 = true /\ running (run ops) 0 = true /\ refcount (run ops) 0 = 1.
Proof. vm_compute. repeat split; reflexivity. Qed.

(* A failed subscribe - Resource() for a resource discovery does not know (yet) -
   leaves the factory exactly as it was: no reference is taken, nothing is started.
   (All the theorems of this file quantify over every operation sequence, this
   operation included.) *)
Theorem C18_failed_subscribe_noop : forall ops1 ops2 r,
  step (run ops1) (SubscribeUnknown r) = mkRes (run ops1) [] false /\
  run (ops1 ++ SubscribeUnknown r :: ops2) = run (ops1 ++ ops2) /\
  outs (ops1 ++ SubscribeUnknown r :: ops2) = outs (ops1 ++ ops2) /\
  track (ops1 ++ SubscribeUnknown r :: ops2) = track (ops1 ++ ops2).
Proof. exact Unknown.failed_subscribe_noop. Qed.
Print Assumptions C18_failed_subscribe_noop.

Example C18_failed_subscribe_inhabited :
  let ops := [SubscribeUnknown 2; Subscribe 2; SubscribeUnknown 2; AddHandler 0 1 false; Close 0] in
  refcount (run ops) 2 = 0 /\ running (run ops) 2 = false /\ generation (run ops) 2 = 1 /\
  generation (run (ops ++ [Subscribe 2])) 2 = 2 /\ running (run (ops ++ [Subscribe 2])) 2 = true.
Proof. vm_compute. repeat split; reflexivity. Qed.

(* ------------------------------------------------------------------ *)
(* 2. after the last close, the next subscription starts a fresh one   *)
(* ------------------------------------------------------------------ *)
(* Whenever the refcount of r is 0 (in particular after it returned to 0, and
   whatever happened since), Subscribe r starts a new generation: running, empty
   handler table, no older subscription attached to it.  Its cache is its own
   LIST of the server's content (not "empty": objects that exist in the server
   are in the cache of every new informer), nothing of the old informer. *)
Theorem C18_fresh_after_last_close : forall ops r,
  refcount (run ops) r = 0 ->
  let st := run ops in
  let st' := r_st (step st (Subscribe r)) in
  let s := st_nsub st in
  running st r = false /\
  running st' r = true /\
  generation st' r = S (generation st r) /\
  refcount st' r = 1 /\
  cur_handlers st' r = [] /\
  cur_cache st' r = store st r /\
  sub_live st' s = true /\ sub_res st' s = Some r /\
  (forall s0, s0 <> s -> sub_live st' s0 = true -> sub_res st' s0 <> Some r) /\
  r_out (step st (Subscribe r)) = [] /\ r_panic (step st (Subscribe r)) = false.
Proof. exact Fresh.fresh_after_last_close. Qed.
Print Assumptions C18_fresh_after_last_close.

(* ... and it works: a handler added through the new subscription gets the server's
   content replayed and then the next event *)
Theorem C18_fresh_informer_works : forall ops r h own k o,
  refcount (run ops) r = 0 ->
  let st := run ops in
  let s := st_nsub st in
  trace_from st [Subscribe r; AddHandler s h own; Event r k o] =
    [ []; replay s h (store st r);
      fanout [mkHe s h own] (snd (cache_apply k o (store st r))) ].
Proof. exact Fresh.fresh_informer_works. Qed.
Print Assumptions C18_fresh_informer_works.

Example C18_fresh_inhabited :
  let ops := [Subscribe 0; Event 0 EAdd 3; AddHandler 0 1 false; Close 0; Event 0 EAdd 4] in
  refcount (run ops) 0 = 0 /\ generation (run ops) 0 = 1 /\
  generation (run (ops ++ [Subscribe 0])) 0 = 2 /\
  cur_cache (run (ops ++ [Subscribe 0])) 0 = [3; 4] /\
  cur_handlers (run (ops ++ [Subscribe 0])) 0 = [] /\
  trace_from (run ops) [Subscribe 0; AddHandler 1 9 false; Event 0 EDel 3] =
    [[]; [(1, 9, NSync 3); (1, 9, NSync 4)]; [(1, 9, NDel 3)]].
Proof. vm_compute. repeat split; reflexivity. Qed.

(* ------------------------------------------------------------------ *)
(* 3. replay on add                                                    *)
(* ------------------------------------------------------------------ *)
(* AddHandler s h delivers exactly one resync notification per object cached by
   the informer of s (no duplicates in the cache), all of them to h, nothing to
   anybody else; for a live subscription that cache is the server's content. *)
Theorem C18_replay_on_add : forall ops s h own i,
  st_sub (run ops) s = Some i ->
  r_out (step (run ops) (AddHandler s h own)) = replay s h (sub_cache (run ops) s) /\
  NoDup (sub_cache (run ops) s) /\
  (sub_live (run ops) s = true ->
     exists r, sub_res (run ops) s = Some r /\ sub_cache (run ops) s = store (run ops) r).
Proof. exact Link.replay_on_add. Qed.
Print Assumptions C18_replay_on_add.

Example C18_replay_inhabited :
  let ops := [Subscribe 0; Event 0 EAdd 3; Event 0 EAdd 4; Subscribe 0; AddHandler 0 1 false] in
  st_sub (run ops) 1 = Some 0 /\ sub_live (run ops) 1 = true /\
  r_out (step (run ops) (AddHandler 1 9 false)) = [(1, 9, NSync 3); (1, 9, NSync 4)].
Proof. vm_compute. repeat split; reflexivity. Qed.

(* Adding a handler is atomic with respect to events: whatever the server holds
   after the next event of the resource has been shown to the new handler, in its
   replay or as that event - nothing falls between replay and registration. *)
Theorem C18_add_is_atomic : forall ops s h own r k o x,
  sub_live (run ops) s = true -> sub_res (run ops) s = Some r ->
  In x (fst (cache_apply k o (store (run ops) r))) ->
  exists n, In (s, h, n) (outs_from (run ops) [AddHandler s h own; Event r k o]) /\ note_obj n = x.
Proof. exact Atomic.add_is_atomic. Qed.
Print Assumptions C18_add_is_atomic.

Example C18_add_is_atomic_inhabited :
  let ops := [Subscribe 0; Event 0 EAdd 3; Subscribe 0] in
  sub_live (run ops) 1 = true /\ sub_res (run ops) 1 = Some 0 /\
  fst (cache_apply EAdd 4 (store (run ops) 0)) = [3; 4] /\
  outs_from (run ops) [AddHandler 1 9 false; Event 0 EAdd 4] = [(1, 9, NSync 3); (1, 9, NAdd 4)].
Proof. vm_compute. repeat split; reflexivity. Qed.

(* ------------------------------------------------------------------ *)
(* 4. delivery                                                         *)
(* ------------------------------------------------------------------ *)
(* The deliveries of an event of r to the handlers of subscription s are: one
   notification for each handler added through s and not removed since
   (t_reg (track ops) s), if s is attached to the running informer of r; none
   otherwise.  (Every delivery belongs to some subscription, so this describes
   the whole output.) *)
Theorem C18_delivery : forall ops r k o s,
  filter (to_sub s) (r_out (step (run ops) (Event r k o))) =
  if sub_live (run ops) s && match sub_res (run ops) s with Some r' => Nat.eqb r' r | None => false end
  then fanout (map (Link.mk_he s) (t_reg (track ops) s)) (snd (cache_apply k o (store (run ops) r)))
  else [].
Proof. exact Link.delivery_event. Qed.
Print Assumptions C18_delivery.

(* after RemoveHandlers s nothing is delivered to a handler of s, whatever happens
   later (events, ticks of its old timers, closes, other subscribers), until s
   adds a handler again *)
Theorem C18_nothing_after_removal : forall ops1 ops2 s,
  forallb (fun o => negb (mentions_add s o)) ops2 = true ->
  filter (to_sub s) (outs_from (run (ops1 ++ [RemoveHandlers s])) ops2) = [].
Proof. exact Link.nothing_after_removal. Qed.
Print Assumptions C18_nothing_after_removal.

(* own resync timer: a tick replays the cache to h iff h is registered through s with an own timer *)
Theorem C18_tick : forall ops s h,
  r_out (step (run ops) (Tick s h)) =
  if existsb (fun p => Nat.eqb (fst p) h && snd p) (t_reg (track ops) s)
  then replay s h (sub_cache (run ops) s) else [].
Proof. exact Link.tick_delivery. Qed.
Print Assumptions C18_tick.

Example C18_delivery_inhabited :
  let ops := [Subscribe 0; Subscribe 0; AddHandler 0 1 false; AddHandler 1 2 true; AddHandler 0 3 false;
              RemoveHandlers 0; AddHandler 0 4 false; Event 0 EAdd 6] in
  t_reg (track ops) 0 = [(4, false)] /\ t_reg (track ops) 1 = [(2, true)] /\
  r_out (step (run ops) (Event 0 EAdd 7)) = [(1, 2, NAdd 7); (0, 4, NAdd 7)] /\
  r_out (step (run ops) (Tick 1 2)) = [(1, 2, NSync 6)] /\
  r_out (step (run (ops ++ [RemoveHandlers 1])) (Tick 1 2)) = [] /\
  outs_from (run (ops ++ [RemoveHandlers 1])) [Event 0 EMod 6; Tick 1 2; Close 0; Event 0 EDel 6] =
    [(0, 4, NUpd 6); (0, 4, NDel 6)].
Proof. vm_compute. repeat split; reflexivity. Qed.

(* ------------------------------------------------------------------ *)
(* 5. isolation                                                        *)
(* ------------------------------------------------------------------ *)
(* Deleting (or, read right to left, inserting) any AddHandler a _ / RemoveHandlers a
   operations anywhere in a sequence changes no delivery to anybody but a's handlers,
   and no panic. *)
Theorem C18_isolation : forall a b ops, a <> b ->
  filter (to_sub b) (outs ops) = filter (to_sub b) (outs (erase_handler_ops a ops)) /\
  filter (not_to_sub a) (outs ops) = filter (not_to_sub a) (outs (erase_handler_ops a ops)) /\
  panics_from init ops = panics_from init (erase_handler_ops a ops).
Proof.
  intros a b ops Hab. split; [apply Iso.isolation_handlers_b; exact Hab|].
  split; [apply Iso.isolation_handlers|apply Iso.isolation_handlers_panics].
Qed.
Print Assumptions C18_isolation.

(* Closing a while b is open on the same resource and stays open changes no
   delivery at all, step by step (whatever else a does later, closing again included). *)
Theorem C18_isolation_close : forall ops1 ops2 a b r,
  a <> b ->
  In (a, r) (t_open (track ops1)) -> In (b, r) (t_open (track ops1)) ->
  In (b, r) (t_open (track (ops1 ++ Close a :: ops2))) ->
  trace_from (run (ops1 ++ [Close a])) ops2 = trace_from (run ops1) ops2 /\
  outs (ops1 ++ Close a :: ops2) = outs (ops1 ++ ops2).
Proof. exact Wf.isolation_close. Qed.
Print Assumptions C18_isolation_close.

Example C18_isolation_inhabited :
  let ops := [Subscribe 0; Subscribe 0; AddHandler 1 2 false; AddHandler 0 1 true; Event 0 EAdd 6;
              RemoveHandlers 0; AddHandler 0 3 false; Event 0 EMod 6; Close 0; Event 0 EDel 6] in
  erase_handler_ops 0 ops = [Subscribe 0; Subscribe 0; AddHandler 1 2 false; Event 0 EAdd 6;
                             Event 0 EMod 6; Close 0; Event 0 EDel 6] /\
  filter (to_sub 1) (outs ops) = [(1, 2, NAdd 6); (1, 2, NUpd 6); (1, 2, NDel 6)] /\
  filter (to_sub 0) (outs ops) = [(0, 1, NAdd 6); (0, 3, NSync 6); (0, 3, NUpd 6); (0, 3, NDel 6)] /\
  In (1, 0) (t_open (track ops)).
Proof. vm_compute. repeat split; try reflexivity. left. reflexivity. Qed.
