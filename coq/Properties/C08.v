(* Property C08 - a rolling update of healthy children always completes and cleans up. Statements about Model/Rolling.v; the linear bound is proved on an abstract automaton (C08_terminates_linear_partial), its tie to sync_rolling_update is exercised by the correspondence runs. *)
From MC Require Import Generated Model.Composite Model.TracePreds Model.Safe Model.Rolling Proofs.SafeLemmas Proofs.C04Proofs Proofs.C06Proofs Proofs.RollGate Proofs.C07Proofs Proofs.RollClaims Proofs.RollMoves Proofs.C08Proofs Proofs.C08Termination.

Theorem C08_never_waits_on_healthy :
  forall (c : ccfg) (pns : string) (observed : umap) (latest : prev) (rest : list prev) (cl : claims),
         (forall (ck : rck) (name : string),
          In ck (rev_children (pr_rev latest)) ->
          is_rolling c (ck_group ck) (ck_kind ck) = true ->
          In name (ck_names ck) -> child_ready c pns latest observed ck name) ->
         (forall (prs' : list prev) (why : string),
          second_pass c pns observed (latest :: rest) cl <> (prs', RWaiting why)) /\
         ((exists (prs' : list prev) (kind name : string),
             second_pass c pns observed (latest :: rest) cl = (prs', RProgressing kind name)) \/
          second_pass c pns observed (latest :: rest) cl = (latest :: rest, RComplete)).
Proof. exact (@C08_never_waits_on_healthy). Qed.
Print Assumptions C08_never_waits_on_healthy.

Theorem C08_waits_only_on_unready :
  forall (c : ccfg) (pns : string) (observed : umap) (latest : prev) (rest : list prev) 
           (cl : claims) (prs' : list prev) (why : string),
         second_pass c pns observed (latest :: rest) cl = (prs', RWaiting why) ->
         exists (ck : rck) (name : string),
           In ck (rev_children (pr_rev latest)) /\
           is_rolling c (ck_group ck) (ck_kind ck) = true /\
           In name (ck_names ck) /\ ~ child_ready c pns latest observed ck name.
Proof. exact (@C08_waits_only_on_unready). Qed.
Print Assumptions C08_waits_only_on_unready.

Theorem C08_waits_only_on_desired :
  forall (c : ccfg) (pns : string) (observed : umap) (latest : prev) (rest prs2 : list prev)
           (why : string),
         sync_rolling_update c pns observed (latest :: rest) = Some (prs2, RWaiting why) ->
         exists (l2 : prev) (rest2 : list prev) (ck : rck) (name : string),
           prs2 = l2 :: rest2 /\
           pr_desired l2 = pr_desired latest /\
           In ck (rev_children (pr_rev l2)) /\
           is_rolling c (ck_group ck) (ck_kind ck) = true /\
           In name (ck_names ck) /\
           ~ child_ready c pns l2 observed ck name /\
           find_desired (pr_desired latest) (ck_group ck) (ck_kind ck) name <> None.
Proof. exact (@C08_waits_only_on_desired). Qed.
Print Assumptions C08_waits_only_on_desired.

Theorem C08_undesired_not_listed :
  forall (c : ccfg) (ds : list (string * string * string * json)) (prs prs' : list prev) 
           (cl' : claims) (p' : prev) (ck : rck) (name : string),
         sync_revision_claims c ds 0 prs [] = (prs', cl') ->
         In p' prs' ->
         In ck (rev_children (pr_rev p')) ->
         In name (ck_names ck) ->
         is_rolling c (ck_group ck) (ck_kind ck) = true /\
         find_desired ds (ck_group ck) (ck_kind ck) name <> None.
Proof. exact (@C08_undesired_not_listed). Qed.
Print Assumptions C08_undesired_not_listed.

Theorem C08_progress :
  forall (c : ccfg) (pns : string) (observed : umap) (latest : prev) (rest : list prev) 
           (cl : claims) (o : json),
         should_continue_rolling c pns latest observed = None ->
         find (pending c pns cl) (hr_children (pr_resp latest)) = Some (Some o) ->
         exists prs' : list prev,
           second_pass c pns observed (latest :: rest) cl =
           (prs', RProgressing (get_kind o) (relative_name pns o)) /\
           (exists (l' : prev) (rest' : list prev),
              prs' = l' :: rest' /\
              lists (pr_rev l') (group_of (get_api_version o)) (get_kind o) (relative_name pns o) = true).
Proof. exact (@C08_progress). Qed.
Print Assumptions C08_progress.

Theorem C08_progress_exists :
  forall (c : ccfg) (pns : string) (observed : umap) (latest : prev) (rest : list prev) 
           (cl : claims) (o : json),
         should_continue_rolling c pns latest observed = None ->
         In (Some o) (hr_children (pr_resp latest)) ->
         pending c pns cl (Some o) = true ->
         exists (o' : json) (prs' : list prev),
           find (pending c pns cl) (hr_children (pr_resp latest)) = Some (Some o') /\
           second_pass c pns observed (latest :: rest) cl =
           (prs', RProgressing (get_kind o') (relative_name pns o')) /\
           (exists (l' : prev) (rest' : list prev),
              prs' = l' :: rest' /\
              lists (pr_rev l') (group_of (get_api_version o')) (get_kind o') (relative_name pns o') = true).
Proof. exact (@C08_progress_exists). Qed.
Print Assumptions C08_progress_exists.

Theorem C08_complete_iff_no_pending :
  forall (c : ccfg) (pns : string) (observed : umap) (latest : prev) (rest : list prev) (cl : claims),
         find (pending c pns cl) (hr_children (pr_resp latest)) = None ->
         second_pass c pns observed (latest :: rest) cl = (latest :: rest, RComplete).
Proof. exact (@C08_complete_iff_no_pending). Qed.
Print Assumptions C08_complete_iff_no_pending.

Theorem C08_terminates_linear_partial :
  forall n : nat,
         Nat.iter (2 * n) astep (n, false) = (0, false) /\
         (forall k : nat, k < 2 * n -> Nat.iter k astep (n, false) <> (0, false)) /\
         (forall k : nat, 2 * n <= k -> Nat.iter k astep (n, false) = (0, false)).
Proof. exact (@C08_terminates_linear_partial). Qed.
Print Assumptions C08_terminates_linear_partial.

Theorem C08_prune_keeps_latest_and_nonempty :
  forall (l : prev) (rest : list prev),
         prune (l :: rest) = l :: filter (fun p : prev => negb (count_children (pr_rev p) =? 0)%nat) rest /\
         (forall p : prev, In p (prune (l :: rest)) <-> p = l \/ In p rest /\ count_children (pr_rev p) <> 0).
Proof. exact (@C08_prune_keeps_latest_and_nonempty). Qed.
Print Assumptions C08_prune_keeps_latest_and_nonempty.

Theorem C08_unlisted_revision_deleted :
  forall (ns : string) (observed desired : list revision) (o : revision),
         In o observed ->
         existsb (fun d : revision => rev_name d =? rev_name o) desired = false ->
         calls_unless_failed
           (CApi
              {|
                q_verb := VDelete;
                q_res := rev_res;
                q_ns := ns;
                q_name := rev_name o;
                q_body := JNull;
                q_uid_pre := get_uid (rev_obj o);
                q_prop := ""
              |}) (manage_revisions ns observed desired).
Proof. exact (@C08_unlisted_revision_deleted). Qed.
Print Assumptions C08_unlisted_revision_deleted.

Theorem C08_emptied_revision_deleted :
  forall (ns : string) (observed_revs : list revision) (l : prev) (rest : list prev) (p : prev),
         nodup_str (map (fun x : prev => rev_name (pr_rev x)) (l :: rest)) = true ->
         In p rest ->
         count_children (pr_rev p) = 0 ->
         In (pr_rev p) observed_revs ->
         calls_unless_failed
           (CApi
              {|
                q_verb := VDelete;
                q_res := rev_res;
                q_ns := ns;
                q_name := rev_name (pr_rev p);
                q_body := JNull;
                q_uid_pre := get_uid (rev_obj (pr_rev p));
                q_prop := ""
              |}) (manage_revisions ns observed_revs (map pr_rev (prune (l :: rest)))).
Proof. exact (@C08_emptied_revision_deleted). Qed.
Print Assumptions C08_emptied_revision_deleted.

Theorem C08_same_name_not_deleted :
  In cex_old [cex_old] /\
         count_children (pr_rev cex_old) = 0 /\
         forallb
           (fun ca : call * answer =>
            match fst ca with
            | CApi q => negb (verb_eqb (q_verb q) VDelete)
            | CHook _ _ => true
            end)
           (trace_of
              (manage_revisions "ns" [pr_rev cex_latest; pr_rev cex_old]
                 (map pr_rev (prune [cex_latest; cex_old])))
              (fun (_ : list (call * answer)) (_ : call) => AObj JNull)) = true.
Proof. exact (@C08_same_name_not_deleted). Qed.
Print Assumptions C08_same_name_not_deleted.

(* ---- termination of a rollout under a fair environment, over the real sync_rolling_update + prune ----
   rworld = observed children + parent revisions (latest first) with their hook answers;
   mu_w   = number of desired rolling children (latest answer, hook order) the latest revision does not list;
   world_ok (boolean): no revision lists a (group, kind) twice, the latest answer and its desired map name
            the same keys, every still-desired child the latest revision lists is ready (observed, up to date,
            status checks pass, generation observed);
   fair_step: one sync_rolling_update, prune, then the environment makes the children the latest revision
            now lists healthy (nothing is assumed about children of older revisions; the hook answers stay,
            their status may change). *)
Theorem C08_fair_round_decreases :
  forall (c : ccfg) (pns : string) (w : rworld) (st : rollout_state) (w' : rworld),
    world_ok c pns w = true -> fair_step c pns w st w' ->
    world_ok c pns w' = true /\
    (st <> RComplete -> mu_w c pns w' < mu_w c pns w) /\
    (st = RComplete -> mu_w c pns w' = 0 /\ List.length (w_prs w') = 1).
Proof. exact C08_fair_round_decreases. Qed.
Print Assumptions C08_fair_round_decreases.

Theorem C08_complete_at_zero :
  forall (c : ccfg) (pns : string) (w : rworld) (st : rollout_state) (w' : rworld),
    world_ok c pns w = true -> fair_step c pns w st w' -> mu_w c pns w = 0 -> st = RComplete.
Proof. exact C08_complete_at_zero. Qed.
Print Assumptions C08_complete_at_zero.

(* every chain of fair rounds reports RComplete from round mu_w w0 on (at most the number of desired
   children), and then exactly one revision is left *)
Theorem C08_rollout_terminates :
  forall (c : ccfg) (pns : string) (w0 : rworld) (sts : list rollout_state) (w : rworld),
    world_ok c pns w0 = true -> fair_run c pns w0 sts w ->
    (forall j, mu_w c pns w0 <= j -> j < List.length sts -> nth j sts (RWaiting "") = RComplete) /\
    (mu_w c pns w0 < List.length sts -> List.length (w_prs w) = 1) /\
    mu_w c pns w0 <= match w_prs w0 with l :: _ => List.length (hr_children (pr_resp l)) | [] => 0 end.
Proof. exact C08_rollout_terminates. Qed.
Print Assumptions C08_rollout_terminates.

Example C08_three_child_rollout :
  world_ok ex_c "" ex_w0 = true /\ mu_w ex_c "" ex_w0 = 3 /\
  fair_run ex_c "" ex_w0 [RProgressing "Thing" "a"; RProgressing "Thing" "b";
                          RProgressing "Thing" "c"; RComplete] ex_w4 /\
  List.length (w_prs ex_w4) = 1.
Proof. exact C08_three_child_rollout. Qed.
