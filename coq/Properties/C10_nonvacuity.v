(* Non-vacuity evidence for Properties/C10.v: a controller with a finalize hook, and
   its parent in each phase of the finalizer life cycle (fresh, live, being deleted
   with and without the finalizer); hypotheses of the conditional C10 theorems met,
   conclusions computed on runs of the model. *)
From MC Require Import Generated Model.Composite Model.TracePreds Model.Safe Proofs.SafeLemmas Proofs.C11Proofs Proofs.C10Proofs.
Local Open Scope list_scope.

Module C10NV.
  Definition kid : child_cfg := mkChild "v1" "things" "Thing" true "InPlace".
  Definition cfg_of (finalize : bool) (psel : selector) : ccfg :=
    mkCfg "cc" "ctl.example.com/v1" "Parent" "parents" true true true psel [kid] true finalize
          [kid] false false [["spec"]] [].
  Definition cfg := cfg_of true sel_everything.          (* sync + finalize hooks *)
  Definition cfg_nofin := cfg_of false sel_everything.   (* the finalize hook was removed from the controller *)
  Definition cfg_sel := cfg_of true (SelReqs [mkReq "managed" OpIn ["yes"]]).
  Definition fin : string := "metacontroller.io/compositecontroller-cc".
  Definition pmeta (extra : list (string * json)) : json :=
    JObj [("apiVersion", JStr "ctl.example.com/v1"); ("kind", JStr "Parent");
          ("metadata", JObj ([("name", JStr "p"); ("namespace", JStr "ns"); ("uid", JStr "uid-p");
                              ("generation", JInt 1)] ++ extra))].
  Definition dts : string * json := ("deletionTimestamp", JStr "2026-01-01T00:00:00Z").
  Definition fins : string * json := ("finalizers", JArr [JStr fin]).
  Definition p_fresh := pmeta [].
  Definition p_live := pmeta [fins].
  Definition p_dying := pmeta [fins; dts].
  Definition p_dying_nofin := pmeta [dts].
  Definition pref : json :=
    JObj [("apiVersion", JStr "ctl.example.com/v1"); ("blockOwnerDeletion", JBool true);
          ("controller", JBool true); ("kind", JStr "Parent"); ("name", JStr "p"); ("uid", JStr "uid-p")].
  Definition child_a : json :=
    JObj [("apiVersion", JStr "v1"); ("kind", JStr "Thing");
          ("metadata", JObj [("name", JStr "a"); ("namespace", JStr "ns"); ("uid", JStr "uid-a");
                             ("labels", JObj [("controller-uid", JStr "uid-p")]);
                             ("ownerReferences", JArr [pref])])].
  Definition desired (name : string) : json :=
    JObj [("apiVersion", JStr "v1"); ("kind", JStr "Thing"); ("metadata", JObj [("name", JStr name)])].
  Definition cache_of (p : json) : cache := mkCache (Some p) [("things.v1", [child_a])].
  Definition env_of (live hook : json) : env := fun _ cl =>
    match cl with
    | CHook _ _ => AHook hook
    | CApi q => match q_verb q with
                | VGet => if String.eqb (q_res q) (p_res cfg) then AObj live else AObj child_a
                | VDelete => AObj JNull
                | _ => AObj (q_body q)
                end
    end.
  (* a server that remembers the finalizer once it was written *)
  Definition env_fresh (hook : json) : env := fun h cl =>
    let written := existsb (fun ca => match fst ca with
                                      | CApi q => verb_eqb (q_verb q) VUpdate && String.eqb (q_res q) (p_res cfg)
                                      | _ => false end) h in
    env_of (if written then p_live else p_fresh) hook h cl.
  Definition resp_sync : json := JObj [("children", JArr [desired "a"; desired "c"])].
  Definition resp_not_finalized : json := JObj [("finalized", JBool false); ("children", JArr [desired "a"])].
  Definition resp_finalized : json := JObj [("finalized", JBool true); ("children", JArr [])].
  Definition call_sig (cl : call) : verb * string * string :=
    match cl with
    | CApi q => (q_verb q, q_res q, q_name q)
    | CHook HSync _ => (VGet, "hook", "sync") | CHook HFinalize _ => (VGet, "hook", "finalize")
    | CHook HCustomize _ => (VGet, "hook", "customize") end.
  Definition sigs {R} (p : prog R) (e : env) := map (fun ca => call_sig (fst ca)) (trace_of p e).
  Definition P := "parents.ctl.example.com/v1".
  (* finalizers carried by the bodies of the writes to the parent *)
  Definition parent_write_fins {R} (p : prog R) (e : env) : list (verb * list string) :=
    flat_map (fun ca => match fst ca with
                        | CApi q => if targets_parent cfg p_live q && is_write q
                                    then [(q_verb q, get_finalizers (q_body q))] else []
                        | _ => [] end) (trace_of p e).
  Definition first_hook (p : prog hook_result) : option (hook_kind * json * json) :=
    match p with
    | Do (CHook hk body) _ => Some (hk, jget "finalizing" (obj_map body), jget "parent" (obj_map body))
    | _ => None end.
End C10NV.
Import C10NV.

(* C10_no_call_when_deleting (both disjuncts), C10_never_added_when_deleting: a parent being
   deleted never gets the finalizer; with the finalize hook gone, the finalizer is removed *)
Example C10_deleting_inhabited :
  (is_deleting p_dying = true /\ has_finalize cfg = true /\ sync_finalizer cfg p_dying = Ret (ROk p_dying)) /\
  (is_deleting p_dying_nofin = true /\ has_finalizer p_dying_nofin (finalizer_name cfg) = false /\
   sync_finalizer cfg p_dying_nofin = Ret (ROk p_dying_nofin)) /\
  (is_deleting p_dying = true /\ has_finalize cfg_nofin = false /\
   sigs (sync_finalizer cfg_nofin p_dying) (env_of p_dying JNull) = [(VGet, P, "p"); (VUpdate, P, "p")] /\
   parent_write_fins (sync_finalizer cfg_nofin p_dying) (env_of p_dying JNull) = [(VUpdate, [])]).
Proof. vm_compute. repeat split; reflexivity. Qed.

(* C10_added_only_when_missing, C10_finalizer_before_child: has_finalize, a uid, a parent not
   yet carrying the finalizer; it is added (read, then written) before the hook and before
   the first child is created *)
Example C10_added_first_inhabited :
  has_finalize cfg = true /\ get_uid p_fresh <> "" /\ is_deleting p_fresh = false /\
  has_finalizer p_fresh (finalizer_name cfg) = false /\ finalizer_name cfg = fin /\
  sigs (sync_parent_object cfg (cache_of p_fresh) p_fresh) (env_fresh resp_sync) =
    [(VGet, P, "p"); (VUpdate, P, "p"); (VGet, "hook", "sync");
     (VUpdate, "things.v1", "a"); (VCreate, "things.v1", "c"); (VGet, P, "p"); (VUpdateStatus, P, "p")] /\
  parent_write_fins (sync_parent_object cfg (cache_of p_fresh) p_fresh) (env_fresh resp_sync) =
    [(VUpdate, [fin]); (VUpdateStatus, [fin])] /\
  forallb (fun hc => negb (is_create_b (snd hc)) || W_b cfg p_fresh (fst hc))
          (calls_with_history (fst (run (sync_parent_object cfg (cache_of p_fresh) p_fresh)
                                        (env_fresh resp_sync) []))) = true /\
  W_b cfg p_fresh [] = false /\
  forallb (fun ca => saneb (fst ca) (snd ca))
          (trace_of (sync_parent_object cfg (cache_of p_fresh) p_fresh) (env_fresh resp_sync)) = true /\
  (* a parent that has it already is not written before the hook *)
  sigs (sync_finalizer cfg p_live) (env_of p_live JNull) = [].
Proof. vm_compute. repeat split; try reflexivity; try discriminate. Qed.

(* C10_hook_choice, C10_hook_kind_iff: sync for a live selected parent; finalize (with
   finalizing = true) for a parent being deleted and for one the selector no longer matches *)
Example C10_hook_choice_inhabited :
  want_finalize cfg p_live = false /\
  first_hook (call_hook cfg p_live [] []) = Some (HSync, JBool false, p_live) /\
  want_finalize cfg p_dying = true /\
  first_hook (call_hook cfg p_dying [] []) = Some (HFinalize, JBool true, p_dying) /\
  want_finalize cfg_sel p_live = true /\
  first_hook (call_hook cfg_sel p_live [] []) = Some (HFinalize, JBool true, p_live) /\
  (exists body', CHook HFinalize JNull = CHook (if want_finalize cfg p_dying then HFinalize else HSync) body') /\
  (exists body', CHook HSync JNull = CHook (if want_finalize cfg p_live then HFinalize else HSync) body').
Proof.
  split; [vm_compute; reflexivity|]. split; [vm_compute; reflexivity|].
  split; [vm_compute; reflexivity|]. split; [vm_compute; reflexivity|].
  split; [vm_compute; reflexivity|]. split; [vm_compute; reflexivity|].
  split; exists JNull; vm_compute; reflexivity.
Qed.

(* C10_finish_no_removal_unless_finalized, C10_removed_only_after_finalized: the parent is being
   deleted.  While the hook answers finalized = false the finalizer stays (and the status
   write carries it unchanged) and the children are still reconciled; once it answers true
   the finalizer is removed and the remaining children are left to the garbage collector. *)
Example C10_finalize_runs_inhabited :
  option_map hr_finalized (decode_composite resp_not_finalized) = Some false /\
  sigs (sync_parent_object cfg (cache_of p_dying) p_dying) (env_of p_dying resp_not_finalized) =
    [(VGet, "hook", "finalize"); (VUpdate, "things.v1", "a"); (VGet, P, "p"); (VUpdateStatus, P, "p")] /\
  parent_write_fins (sync_parent_object cfg (cache_of p_dying) p_dying) (env_of p_dying resp_not_finalized) =
    [(VUpdateStatus, [fin])] /\
  result_of (sync_parent_object cfg (cache_of p_dying) p_dying) (env_of p_dying resp_not_finalized) = SDone /\
  option_map hr_finalized (decode_composite resp_finalized) = Some true /\
  sigs (sync_parent_object cfg (cache_of p_dying) p_dying) (env_of p_dying resp_finalized) =
    [(VGet, "hook", "finalize"); (VGet, P, "p"); (VUpdate, P, "p");
     (VGet, P, "p"); (VUpdateStatus, P, "p")] /\
  hd (VGet, []) (parent_write_fins (sync_parent_object cfg (cache_of p_dying) p_dying)
                                   (env_of p_dying resp_finalized)) = (VUpdate, []).
Proof. vm_compute. repeat split; reflexivity. Qed.

(* a parent being deleted that never got the finalizer: the children are left to the
   garbage collector although the hook asks for changes *)
Example C10_handoff_inhabited :
  is_deleting p_dying_nofin = true /\ should_finalize cfg p_dying_nofin = false /\
  sigs (sync_parent_object cfg (cache_of p_dying_nofin) p_dying_nofin) (env_of p_dying_nofin resp_sync) =
    [(VGet, "hook", "finalize"); (VGet, P, "p"); (VUpdateStatus, P, "p")].
Proof. vm_compute. repeat split; reflexivity. Qed.

(* third component of C10_removed_only_after_finalized: a status write (C11_phi, not a GET)
   built on the parent just read carries that parent's finalizers unchanged *)
Example C10_status_keeps_finalizers_inhabited :
  let body := JObj (aset "status" (desired_status p_dying JNull) (obj_map p_dying)) in
  C11_phi cfg p_dying JNull [(status_get cfg p_dying, AObj p_dying)] (status_put cfg p_dying body) /\
  (exists q, status_put cfg p_dying body = CApi q /\ q_verb q <> VGet /\
             get_finalizers (q_body q) = get_finalizers (JObj (obj_map p_dying)) /\
             get_finalizers (q_body q) = [fin]).
Proof.
  cbv zeta. split.
  - right. exists p_dying, []. repeat split; vm_compute; reflexivity.
  - eexists. split; [reflexivity|]. vm_compute. repeat split; try reflexivity. discriminate.
Qed.
