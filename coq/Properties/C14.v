(* Property C14 - every relevant watch event wakes the right parent, and nothing else does.

   Theorems about Model/Events.v (the informer event handlers of the composite
   and decorator controllers as functions (config, parent cache, event) -> keys
   given to queue.Add) against the declarative Model/EventSpec.v (`affects`:
   the event can alter the reconciliation of parent p).  `handle` / `d_handle`,
   `affects` / `d_affects` are the constants the correspondence check
   (Check/C14_check.v) evaluates on the implementation's recorded queue.

   The parent cache is an informer indexer (a map keyed by ns/name; the decorator
   has one per parent kind): the theorems that need it assume the keys pairwise
   distinct.  Nothing else is assumed about configs, caches or events. *)
From MC Require Import Model.Events Model.EventSpec Proofs.C14Proofs Check.C14_check.
Local Open Scope list_scope.

(* ============================ 1. completeness ============================ *)
(* composite: creation, update or deletion (also as a tombstone) of a parent that
   matches or carries the finalizer; an added, changed or deleted child (also as
   a tombstone) whose controller reference names a cached parent by group, kind,
   name, UID (and namespace); an orphan that appears or is relabelled and that a
   cached parent's own selector matches: each queues that parent. *)
Theorem C14_complete : forall c parents s ev p,
  NoDup (map key_of parents) -> event_wf ev = true ->
  In p (candidates parents s ev) -> affects c s ev p = true ->
  In (key_of p) (handle c parents s ev).
Proof. exact complete. Qed.
Print Assumptions C14_complete.

(* decorator (several parent kinds, no adoption), parent delete tombstones included:
   the key is built from the object the tombstone carries *)
Theorem C14_complete_decorator : forall c parents s ev p,
  NoDup (map d_slot parents) ->
  In p (candidates parents s ev) -> d_affects c s ev p = true ->
  In (d_key_of p) (d_handle c parents s ev).
Proof. exact d_complete. Qed.
Print Assumptions C14_complete_decorator.

(* ============================== 2. soundness ============================== *)
(* every queued key is the key of an affected candidate (the event's own object
   for a parent event - delete tombstones included -, a cached parent for a child
   event); names are assumed free of "/" as the API server guarantees, and a
   tombstone's key is the key of the object it carries (event_wf). *)
Theorem C14_sound : forall c parents s ev k,
  names_ok parents s ev = true -> event_wf ev = true ->
  In k (handle c parents s ev) ->
  exists p, In p (candidates parents s ev) /\ key_of p = k /\ affects c s ev p = true.
Proof. exact sound. Qed.
Print Assumptions C14_sound.

Theorem C14_sound_decorator : forall c parents s ev k,
  names_ok parents s ev = true ->
  In k (d_handle c parents s ev) ->
  exists p, In p (candidates parents s ev) /\ d_key_of p = k /\ d_affects c s ev p = true.
Proof. exact d_sound. Qed.
Print Assumptions C14_sound_decorator.

(* (a) cache resyncs of children (unchanged resourceVersion) enqueue nothing *)
Theorem C14_resync_enqueues_nothing : forall c parents old cur,
  get_rv old = get_rv cur -> on_child_update c parents old cur = [].
Proof. exact child_update_resync. Qed.
Print Assumptions C14_resync_enqueues_nothing.

Theorem C14_resync_enqueues_nothing_decorator : forall c parents old cur,
  get_rv old = get_rv cur -> d_on_child_update c parents old cur = [].
Proof. exact d_child_update_resync. Qed.
Print Assumptions C14_resync_enqueues_nothing_decorator.

(* (b) parents that neither match nor carry the finalizer are never queued: by no
   add, update or delete, whether the delete delivers the object itself or a
   cache.DeletedFinalStateUnknown tombstone (enqueueParentObject unwraps the
   tombstone before the selector/finalizer filter) *)
Theorem C14_enqueue_parent_sound : forall c o k,
  In k (enqueue_parent c (WObj o)) -> k = key_of o /\ cares (e_cc c) o = true.
Proof. exact enqueue_obj_sound. Qed.
Print Assumptions C14_enqueue_parent_sound.

Theorem C14_enqueue_tombstone_sound : forall c k o q,
  In q (enqueue_parent c (WTomb k o)) -> q = k /\ cares (e_cc c) o = true.
Proof. exact enqueue_tomb_sound. Qed.
Print Assumptions C14_enqueue_tombstone_sound.

Theorem C14_enqueue_tombstone_sound_decorator : forall c k o q,
  In q (d_enqueue_parent c (WTomb k o)) -> q = d_key_of o /\ d_cares c o = true.
Proof. exact d_enqueue_tomb_sound. Qed.
Print Assumptions C14_enqueue_tombstone_sound_decorator.

Theorem C14_update_parent_sound : forall c old cur k,
  In k (update_parent c old cur) -> k = key_of cur /\ cares (e_cc c) cur = true.
Proof. exact update_sound. Qed.
Print Assumptions C14_update_parent_sound.

Theorem C14_unmatched_never_queued : forall c parents ev,
  unmatched_parent_event c SParent ev = true -> handle c parents SParent ev = [].
Proof. exact unmatched_never_queued. Qed.
Print Assumptions C14_unmatched_never_queued.

Theorem C14_unmatched_never_queued_decorator : forall c parents ev,
  d_unmatched_parent_event c SParent ev = true -> d_handle c parents SParent ev = [].
Proof. exact d_unmatched_never_queued. Qed.
Print Assumptions C14_unmatched_never_queued_decorator.

(* the delete tombstone of a parent the controller does not care about queues nothing
   (formerly C14_unmatched_tombstone_refuted: before the repair of D31 the filter was
   applied to *unstructured.Unstructured only and the tombstone went straight to the queue) *)
Theorem C14_unmatched_tombstone_sound : forall c k o,
  cares (e_cc c) o = false -> on_parent_event c (EDeleteTombstone k o) = [].
Proof. exact unmatched_tombstone_sound. Qed.
Print Assumptions C14_unmatched_tombstone_sound.

Theorem C14_unmatched_tombstone_sound_decorator : forall c k o,
  d_cares c o = false -> d_on_parent_event c (EDeleteTombstone k o) = [].
Proof. exact d_unmatched_tombstone_sound. Qed.
Print Assumptions C14_unmatched_tombstone_sound_decorator.

(* (c) a controlled child wakes only the parent its owner reference resolves to:
   at most one key, and it is the key of THE cached parent stored under the
   reference's name (in the child's namespace when parents are namespaced) whose
   UID is the reference's UID and whose group and kind are the reference's *)
Theorem C14_controlled_child_wakes_only_owner : forall c parents ev r,
  controller_of (ev_obj ev) = Some r ->
  handle c parents SChild ev = [] \/
  exists p, handle c parents SChild ev = [key_of p] /\ In p parents /\
            group_of (or_api_version r) = group_of (p_api_version (e_cc c)) /\
            or_kind r = p_kind (e_cc c) /\
            key_of p = lookup_key (if p_namespaced (e_cc c) then get_ns (ev_obj ev) else "") (or_name r) /\
            get_uid p = or_uid r /\ cares (e_cc c) p = true.
Proof. exact controlled_child_sound. Qed.
Print Assumptions C14_controlled_child_wakes_only_owner.

(* right name but wrong kind or API group: nothing *)
Theorem C14_wrong_kind_enqueues_nothing : forall c parents ev r,
  controller_of (ev_obj ev) = Some r ->
  (or_kind r <> p_kind (e_cc c) \/ group_of (or_api_version r) <> group_of (p_api_version (e_cc c))) ->
  handle c parents SChild ev = [].
Proof. exact wrong_kind_nothing. Qed.
Print Assumptions C14_wrong_kind_enqueues_nothing.

(* right name but wrong UID: nothing *)
Theorem C14_wrong_uid_enqueues_nothing : forall c parents ev r,
  controller_of (ev_obj ev) = Some r ->
  (forall p, In p parents ->
     key_of p = lookup_key (if p_namespaced (e_cc c) then get_ns (ev_obj ev) else "") (or_name r) ->
     get_uid p <> or_uid r) ->
  handle c parents SChild ev = [].
Proof. exact wrong_uid_nothing. Qed.
Print Assumptions C14_wrong_uid_enqueues_nothing.

Theorem C14_controlled_child_wakes_only_owner_decorator : forall c parents ev r,
  controller_of (ev_obj ev) = Some r ->
  d_handle c parents SChild ev = [] \/
  exists p rule, d_handle c parents SChild ev = [d_key_of p] /\ d_ref_rule c r = Some rule /\ In p parents /\
    get_api_version p = dp_api_version rule /\ get_kind p = dp_kind rule /\
    group_of (dp_api_version rule) = d_group_of (or_api_version r) /\ dp_kind rule = or_kind r /\
    key_of p = lookup_key (if dp_namespaced rule then get_ns (ev_obj ev) else "") (or_name r) /\
    get_uid p = or_uid r /\ d_cares c p = true.
Proof. exact d_controlled_child_sound. Qed.
Print Assumptions C14_controlled_child_wakes_only_owner_decorator.

Theorem C14_wrong_kind_enqueues_nothing_decorator : forall c parents ev r,
  controller_of (ev_obj ev) = Some r -> d_ref_rule c r = None ->
  d_handle c parents SChild ev = [].
Proof. exact d_wrong_kind_nothing. Qed.
Print Assumptions C14_wrong_kind_enqueues_nothing_decorator.

Theorem C14_wrong_uid_enqueues_nothing_decorator : forall c parents ev r rule,
  controller_of (ev_obj ev) = Some r -> d_ref_rule c r = Some rule ->
  (forall p, In p parents -> get_api_version p = dp_api_version rule -> get_kind p = dp_kind rule ->
     key_of p = lookup_key (if dp_namespaced rule then get_ns (ev_obj ev) else "") (or_name r) ->
     get_uid p <> or_uid r) ->
  d_handle c parents SChild ev = [].
Proof. exact d_wrong_uid_nothing. Qed.
Print Assumptions C14_wrong_uid_enqueues_nothing_decorator.

(* the decorator never adopts: an orphan wakes nobody *)
Theorem C14_decorator_orphan_wakes_nobody : forall c parents ev,
  controller_of (ev_obj ev) = None -> d_handle c parents SChild ev = [].
Proof. exact d_orphan_nothing. Qed.
Print Assumptions C14_decorator_orphan_wakes_nobody.

(* (d) with status changes ignored, exactly the updates that change neither
   generation, labels, annotations nor deletion state are dropped *)
Theorem C14_update_ignoring_status : forall c old cur,
  ignore_status_changes c = true -> cares (e_cc c) cur = true ->
  (update_parent c old cur = [] <->
   (get_generation old = get_generation cur /\ labels_equal old cur = true /\
    annotations_equal old cur = true /\ is_deleting cur = false)).
Proof. exact update_ignore_iff. Qed.
Print Assumptions C14_update_ignoring_status.

Theorem C14_update_ignoring_status_kept : forall c old cur,
  ignore_status_changes c = true ->
  (get_generation old <> get_generation cur \/ labels_equal old cur = false \/
   annotations_equal old cur = false \/ is_deleting cur = true) ->
  update_parent c old cur = enqueue_parent c (WObj cur).
Proof. exact update_ignore_kept. Qed.
Print Assumptions C14_update_ignoring_status_kept.

Theorem C14_update_not_ignoring_status : forall c old cur,
  ignore_status_changes c = false -> update_parent c old cur = enqueue_parent c (WObj cur).
Proof. exact update_noignore. Qed.
Print Assumptions C14_update_not_ignoring_status.

Theorem C14_update_ignoring_status_decorator : forall c old cur,
  d_ignores_status c old = true -> d_cares c cur = true ->
  (d_update_parent c old cur = [] <->
   (get_generation old = get_generation cur /\ labels_equal old cur = true /\
    annotations_equal old cur = true /\ is_deleting cur = false)).
Proof. exact d_update_ignore_iff. Qed.
Print Assumptions C14_update_ignoring_status_decorator.

Theorem C14_update_not_ignoring_status_decorator : forall c old cur,
  d_ignores_status c old = false -> d_update_parent c old cur = d_enqueue_parent c (WObj cur).
Proof. exact d_update_noignore. Qed.
Print Assumptions C14_update_not_ignoring_status_decorator.

(* ============================ 3. key round trip ============================ *)
(* composite: "ns/name" (or "name" for cluster-scoped parents) splits back *)
Theorem C14_key_roundtrip : forall o,
  no_char slash (get_ns o) = true -> no_char slash (get_name o) = true ->
  split_meta_key (key_of o) = Some (get_ns o, get_name o).
Proof. exact key_roundtrip. Qed.
Print Assumptions C14_key_roundtrip.

(* decorator: "apiVersion:kind:ns:name" splits back *)
Theorem C14_key_roundtrip_decorator : forall o,
  no_char colon (get_api_version o) = true -> no_char colon (get_kind o) = true ->
  no_char colon (get_ns o) = true ->
  split_parent_queue_key (d_key_of o) = Some (get_api_version o, get_kind o, get_ns o, get_name o).
Proof. exact d_key_roundtrip. Qed.
Print Assumptions C14_key_roundtrip_decorator.

(* the key queued for the delete tombstone of a cared-for decorator parent parses back to the deleted object *)
Theorem C14_decorator_tombstone_key_parses : forall c k o,
  d_cares c o = true ->
  no_char colon (get_api_version o) = true -> no_char colon (get_kind o) = true ->
  no_char colon (get_ns o) = true ->
  exists q, d_on_parent_event c (EDeleteTombstone k o) = [q] /\
            split_parent_queue_key q = Some (get_api_version o, get_kind o, get_ns o, get_name o).
Proof. exact d_tombstone_key_parses. Qed.
Print Assumptions C14_decorator_tombstone_key_parses.

(* ============================ non-vacuity ============================ *)
Module Ex.
  Definition cfg (gen ign : bool) : ecfg :=
    mkECfg (mkCfg "c" "ctl.example.com/v1" "Thing" "things" true true gen
                  (SelReqs [mkReq "tier" OpIn ["a"]]) [] true true [] false false [] []) ign.
  Definition parent (ns name uid tier : string) (fins : list json) (sel : json) : json :=
    JObj [("apiVersion", JStr "ctl.example.com/v1"); ("kind", JStr "Thing");
          ("metadata", JObj [("name", JStr name); ("namespace", JStr ns); ("uid", JStr uid);
                             ("generation", JInt 1); ("resourceVersion", JStr "5");
                             ("labels", JObj [("tier", JStr tier)]); ("finalizers", JArr fins)]);
          ("spec", JObj [("selector", sel)])].
  Definition selx : json := JObj [("matchLabels", JObj [("app", JStr "x")])].
  Definition selxy : json :=
    JObj [("matchExpressions", JArr [JObj [("key", JStr "app"); ("operator", JStr "In");
                                            ("values", JArr [JStr "x"; JStr "y"])]])].
  Definition p1 := parent "ns1" "p1" "u1" "a" [] selx.
  Definition p2 := parent "ns1" "p2" "u2" "a" [] selxy.
  Definition p3 := parent "ns1" "p3" "u3" "b" [] selx.                                              (* unmatching *)
  Definition p4 := parent "ns1" "p4" "u4" "b" [JStr "metacontroller.io/compositecontroller-c"] selx. (* finalizer only *)
  Definition p5 := parent "ns2" "p1" "u5" "a" [] selx.                                              (* same name elsewhere *)
  Definition cache := [p1; p2; p3; p4; p5].
  Definition pod (ns rv : string) (labels : list (string * json)) (refs : list json) : json :=
    JObj [("apiVersion", JStr "v1"); ("kind", JStr "Pod");
          ("metadata", JObj [("name", JStr "c"); ("namespace", JStr ns); ("resourceVersion", JStr rv);
                             ("labels", JObj labels); ("ownerReferences", JArr refs)])].
  Definition ref (kind name uid : string) : json :=
    JObj [("apiVersion", JStr "ctl.example.com/v1"); ("kind", JStr kind); ("name", JStr name);
          ("uid", JStr uid); ("controller", JBool true)].
  Definition with_status (p : json) : json := JObj (aset "status" (JObj [("n", JInt 7)]) (obj_map p)).
  Definition with_generation (p : json) : json :=
    match nested_set (obj_map p) ["metadata"; "generation"] (JInt 2) with Some m => JObj m | None => p end.
End Ex.

(* hypotheses of C14_complete / C14_sound are met, and the handlers do queue *)
Example C14_hyps_inhabited :
  NoDup (map key_of Ex.cache) /\
  (* an orphan matching the selectors of two cared-for parents wakes both, not the unmatching p3, nor p5 in ns2 *)
  (let ev := EAdd (Ex.pod "ns1" "9" [("app", JStr "x")] []) in
   names_ok Ex.cache SChild ev = true /\ event_wf ev = true /\
   affects (Ex.cfg false false) SChild ev Ex.p1 = true /\ affects (Ex.cfg false false) SChild ev Ex.p2 = true /\
   affects (Ex.cfg false false) SChild ev Ex.p3 = false /\ affects (Ex.cfg false false) SChild ev Ex.p5 = false /\
   handle (Ex.cfg false false) Ex.cache SChild ev = ["ns1/p1"; "ns1/p2"; "ns1/p4"]) /\
  (* an owned child wakes its owner, also when it arrives as a delete tombstone *)
  handle (Ex.cfg false false) Ex.cache SChild
         (EDeleteTombstone "ns1/c" (Ex.pod "ns1" "9" [] [Ex.ref "Thing" "p1" "u1"])) = ["ns1/p1"] /\
  (* right name, wrong UID / wrong kind / other namespace / unmatching parent: nobody *)
  handle (Ex.cfg false false) Ex.cache SChild (EAdd (Ex.pod "ns1" "9" [] [Ex.ref "Thing" "p1" "u0"])) = [] /\
  handle (Ex.cfg false false) Ex.cache SChild (EAdd (Ex.pod "ns1" "9" [] [Ex.ref "ClusterThing" "p1" "u1"])) = [] /\
  handle (Ex.cfg false false) Ex.cache SChild (EAdd (Ex.pod "ns2" "9" [] [Ex.ref "Thing" "p1" "u1"])) = [] /\
  handle (Ex.cfg false false) Ex.cache SChild (EAdd (Ex.pod "ns1" "9" [] [Ex.ref "Thing" "p3" "u3"])) = [] /\
  (* an unmatching parent that still carries the finalizer is woken *)
  handle (Ex.cfg false false) Ex.cache SChild (EAdd (Ex.pod "ns1" "9" [] [Ex.ref "Thing" "p4" "u4"])) = ["ns1/p4"] /\
  (* resync replay *)
  (let c := Ex.pod "ns1" "9" [] [Ex.ref "Thing" "p1" "u1"] in
   is_resync (EUpdate c c) = true /\ handle (Ex.cfg false false) Ex.cache SChild (EUpdate c c) = []) /\
  (* parent events: matching, unmatching, finalizer only *)
  handle (Ex.cfg false false) Ex.cache SParent (EAdd Ex.p1) = ["ns1/p1"] /\
  (unmatched_parent_event (Ex.cfg false false) SParent (EDelete Ex.p3) = true /\
   handle (Ex.cfg false false) Ex.cache SParent (EDelete Ex.p3) = []) /\
  handle (Ex.cfg false false) Ex.cache SParent (EDelete Ex.p4) = ["ns1/p4"] /\
  (* generateSelector: the orphan is found by its controller-uid label *)
  handle (Ex.cfg true false) Ex.cache SChild (EAdd (Ex.pod "ns1" "9" [("controller-uid", JStr "u2")] [])) = ["ns1/p2"].
Proof.
  split.
  - repeat constructor; cbn; intuition discriminate.
  - vm_compute. repeat split; reflexivity.
Qed.

(* (d) is not vacuous: a status-only update is dropped, a generation change is not *)
Example C14_ignore_status_inhabited :
  ignore_status_changes (Ex.cfg false true) = true /\ cares (e_cc (Ex.cfg false true)) Ex.p1 = true /\
  status_only Ex.p1 (Ex.with_status Ex.p1) = true /\
  update_parent (Ex.cfg false true) Ex.p1 (Ex.with_status Ex.p1) = [] /\
  update_parent (Ex.cfg false false) Ex.p1 (Ex.with_status Ex.p1) = ["ns1/p1"] /\
  update_parent (Ex.cfg false true) Ex.p1 (Ex.with_generation Ex.p1) = ["ns1/p1"].
Proof. vm_compute. repeat split; reflexivity. Qed.

Module ExD.
  Definition cfg : dcfg :=
    mkDCfg "d" [mkDP "ctl.example.com/v1" "Thing" "things" true (SelReqs [mkReq "tier" OpIn ["a"]]) sel_everything true;
                mkDP "ctl.example.com/v1" "ClusterThing" "clusterthings" false sel_everything sel_everything false].
  Definition cthing : json :=
    JObj [("apiVersion", JStr "ctl.example.com/v1"); ("kind", JStr "ClusterThing");
          ("metadata", JObj [("name", JStr "p1"); ("uid", JStr "u9")])].
  Definition cache := [Ex.p1; Ex.p3; cthing].
  Definition ref (kind name uid : string) : json :=
    JObj [("apiVersion", JStr "ctl.example.com/v2"); ("kind", JStr kind); ("name", JStr name);
          ("uid", JStr uid); ("controller", JBool true)].
End ExD.

Example C14_decorator_hyps_inhabited :
  NoDup (map d_slot ExD.cache) /\
  (* the reference is resolved by kind: same name, two kinds *)
  d_handle ExD.cfg ExD.cache SChild (EAdd (Ex.pod "ns1" "9" [] [ExD.ref "Thing" "p1" "u1"]))
    = ["ctl.example.com/v1:Thing:ns1:p1"] /\
  d_handle ExD.cfg ExD.cache SChild (EAdd (Ex.pod "ns1" "9" [] [ExD.ref "ClusterThing" "p1" "u9"]))
    = ["ctl.example.com/v1:ClusterThing::p1"] /\
  d_handle ExD.cfg ExD.cache SChild (EAdd (Ex.pod "ns1" "9" [] [ExD.ref "ClusterThing" "p1" "u1"])) = [] /\
  d_affects ExD.cfg SChild (EAdd (Ex.pod "ns1" "9" [] [ExD.ref "Thing" "p1" "u1"])) Ex.p1 = true /\
  (* parent delete tombstone: a parsable key *)
  d_handle ExD.cfg ExD.cache SParent (EDeleteTombstone "ns1/p1" Ex.p1) = ["ctl.example.com/v1:Thing:ns1:p1"] /\
  split_parent_queue_key "ctl.example.com/v1:Thing:ns1:p1" = Some ("ctl.example.com/v1", "Thing", "ns1", "p1") /\
  split_parent_queue_key "ns1/p1" = None /\
  (* status-only update of a kind with ignoreStatusChanges: dropped; of the other kind: kept *)
  d_handle ExD.cfg ExD.cache SParent (EUpdate Ex.p1 (Ex.with_status Ex.p1)) = [] /\
  d_handle ExD.cfg ExD.cache SParent (EUpdate ExD.cthing (Ex.with_status ExD.cthing))
    = ["ctl.example.com/v1:ClusterThing::p1"].
Proof.
  split.
  - repeat constructor; cbn; intuition discriminate.
  - vm_compute. repeat split; reflexivity.
Qed.

Example C14_key_roundtrip_inhabited :
  split_meta_key (key_of Ex.p1) = Some ("ns1", "p1") /\
  split_meta_key (key_of ExD.cthing) = Some ("", "p1") /\
  split_meta_key "a/b/c" = None.
Proof. vm_compute. repeat split; reflexivity. Qed.

(* the check reports what it is meant to report (each clause fires on a doctored queue) *)
Example C14_check_sensitive :
  let child := Ex.pod "ns1" "9" [] [Ex.ref "Thing" "p1" "u1"] in
  let fc := FComposite (Ex.cfg false true) in
  C14_check (mkC14 fc Ex.cache SChild (EAdd child) ["ns1/p1"]) = OK /\
  C14_check (mkC14 fc Ex.cache SChild (EAdd child) []) = PROPFAIL "affected-parent-not-enqueued" /\
  C14_check (mkC14 fc Ex.cache SChild (EAdd child) ["ns1/p1"; "ns1/p2"]) = PROPFAIL "wrong-parent-woken" /\
  C14_check (mkC14 fc Ex.cache SChild (EAdd child) ["ns1/p1"; "ns1/p1"]) = PROPFAIL "wrong-parent-woken" /\
  C14_check (mkC14 fc Ex.cache SChild (EUpdate child child) ["ns1/p1"]) = PROPFAIL "resync-enqueued" /\
  C14_check (mkC14 fc Ex.cache SChild (EAdd (Ex.pod "ns1" "9" [] [Ex.ref "Thing" "p3" "u3"])) ["ns1/p3"])
    = PROPFAIL "unmatched-parent-enqueued" /\
  C14_check (mkC14 fc Ex.cache SParent (EAdd Ex.p3) ["ns1/p3"]) = PROPFAIL "unmatched-parent-enqueued" /\
  C14_check (mkC14 fc Ex.cache SParent (EUpdate Ex.p1 (Ex.with_status Ex.p1)) ["ns1/p1"])
    = PROPFAIL "status-only-update-not-dropped" /\
  C14_check (mkC14 fc Ex.cache SParent (EUpdate Ex.p1 (Ex.with_generation Ex.p1)) [])
    = PROPFAIL "relevant-update-dropped" /\
  C14_check (mkC14 fc Ex.cache SChild (EAdd (Ex.pod "ns1" "9" [("app", JStr "x")] [])) ["ns1/p1"; "ns1/p4"])
    = PROPFAIL "affected-parent-not-enqueued" /\
  C14_check (mkC14 (FDecorator ExD.cfg) ExD.cache SParent (EDeleteTombstone "ns1/p1" Ex.p1) ["ns1/p1"])
    = PROPFAIL "unparsable-key-enqueued" /\
  C14_check (mkC14 (FDecorator ExD.cfg) ExD.cache SParent (EDeleteTombstone "ns1/p1" Ex.p1)
                   ["ctl.example.com/v1:Thing:ns1:p1"]) = OK /\
  C14_check (mkC14 (FDecorator ExD.cfg) ExD.cache SParent (EDeleteTombstone "ns1/p3" Ex.p3)
                   ["ctl.example.com/v1:Thing:ns1:p3"]) = PROPFAIL "unmatched-parent-tombstone-enqueued".
Proof. vm_compute. repeat split; reflexivity. Qed.

(* ============================ 4. related objects ============================ *)
(* customize.Manager: an add, change (old or new state) or deletion of an object
   selected by the cached customize answer of a cached parent hands exactly those
   parents to enqueueParent; a resync replay hands over nobody *)
Theorem C14_related_exact : forall c a parents ev p,
  In p (on_related_event c a parents ev) <-> In p parents /\ related_affects c a ev p = true.
Proof. exact related_event_spec. Qed.
Print Assumptions C14_related_exact.

Theorem C14_related_resync_enqueues_nothing : forall c a parents ev,
  is_resync ev = true -> on_related_event c a parents ev = [].
Proof. exact related_resync_nothing. Qed.
Print Assumptions C14_related_resync_enqueues_nothing.

(* composed with the composite controller's enqueueParentObject *)
Theorem C14_related_complete : forall cc c a parents ev p,
  In p parents -> related_affects c a ev p = true -> cares (e_cc cc) p = true ->
  In (key_of p) (related_keys cc c a parents ev).
Proof. exact related_keys_complete. Qed.
Print Assumptions C14_related_complete.

Theorem C14_related_sound : forall cc c a parents ev k,
  In k (related_keys cc c a parents ev) ->
  exists p, In p parents /\ key_of p = k /\ related_affects c a ev p = true /\ cares (e_cc cc) p = true.
Proof. exact related_keys_sound. Qed.
Print Assumptions C14_related_sound.

Module ExR.
  Definition cfg : rcfg := mkRCfg [("ctl.example.com", "Thing", true)].
  Definition by_label : rel_rule := mkRR "v1" (Some "Pod") (Some (Some (SelReqs [mkReq "app" OpIn ["x"]]))) "" [].
  Definition by_name : rel_rule := mkRR "v1" (Some "Pod") None "" ["c"].
  Definition ans : answers := [("u1", 1%Z, [by_label]); ("u2", 1%Z, [by_name]); ("u5", 1%Z, [by_name])].
End ExR.

Example C14_related_inhabited :
  (* p1 selects by label, p2 by name in its own namespace, p5 (ns2) by name: not this pod; p3 has no answer *)
  map key_of (on_related_event ExR.cfg ExR.ans Ex.cache (EAdd (Ex.pod "ns1" "9" [("app", JStr "x")] [])))
    = ["ns1/p1"; "ns1/p2"] /\
  (* a relabelling away from the selector still wakes p1 (old state) *)
  map key_of (on_related_event ExR.cfg ExR.ans Ex.cache
                (EUpdate (Ex.pod "ns1" "8" [("app", JStr "x")] []) (Ex.pod "ns1" "9" [("app", JStr "y")] [])))
    = ["ns1/p1"; "ns1/p2"] /\
  on_related_event ExR.cfg ExR.ans Ex.cache
    (EUpdate (Ex.pod "ns1" "9" [("app", JStr "x")] []) (Ex.pod "ns1" "9" [("app", JStr "x")] [])) = [] /\
  related_keys (Ex.cfg false false) ExR.cfg ExR.ans Ex.cache (EDelete (Ex.pod "ns1" "9" [("app", JStr "x")] []))
    = ["ns1/p1"; "ns1/p2"].
Proof. vm_compute. repeat split; reflexivity. Qed.

(* the wake-up for the OLD state is demanded: a pod relabelled out of p1's label rule
   (p2 keeps selecting it by name) affects p1, and the check flags a queue without p1 *)
Example C14_related_old_state_demanded :
  let old := Ex.pod "ns1" "8" [("app", JStr "x")] [] in
  let cur := Ex.pod "ns1" "9" [("app", JStr "y")] [] in
  parent_selects_related ExR.cfg ExR.ans [cur] Ex.p1 = false /\
  related_affects ExR.cfg ExR.ans (EUpdate old cur) Ex.p1 = true /\
  C14r_check (mkC14r ExR.cfg ExR.ans Ex.cache (EUpdate old cur)
                [d_key_of Ex.p1; d_key_of Ex.p2]) = OK /\
  C14r_check (mkC14r ExR.cfg ExR.ans Ex.cache (EUpdate old cur) [d_key_of Ex.p2])
    = PROPFAIL "affected-parent-not-enqueued".
Proof. vm_compute. repeat split; reflexivity. Qed.

(* delete tombstones go through the same filter: unmatching p3 queues nothing, the
   matching p1 and the finalizer-only p4 are queued, under the tombstone's key *)
Example C14_tombstone_filter_inhabited :
  cares (e_cc (Ex.cfg false false)) Ex.p3 = false /\
  handle (Ex.cfg false false) Ex.cache SParent (EDeleteTombstone "ns1/p3" Ex.p3) = [] /\
  handle (Ex.cfg false false) Ex.cache SParent (EDeleteTombstone "ns1/p1" Ex.p1) = ["ns1/p1"] /\
  handle (Ex.cfg false false) Ex.cache SParent (EDeleteTombstone "ns1/p4" Ex.p4) = ["ns1/p4"] /\
  d_cares ExD.cfg Ex.p3 = false /\
  d_handle ExD.cfg ExD.cache SParent (EDeleteTombstone "ns1/p3" Ex.p3) = [] /\
  C14_check (mkC14 (FComposite (Ex.cfg false false)) Ex.cache SParent (EDeleteTombstone "ns1/p3" Ex.p3) []) = OK /\
  C14_check (mkC14 (FComposite (Ex.cfg false false)) Ex.cache SParent (EDeleteTombstone "ns1/p3" Ex.p3) ["ns1/p3"])
    = PROPFAIL "unmatched-parent-tombstone-enqueued" /\
  C14_check (mkC14 (FComposite (Ex.cfg false false)) Ex.cache SParent (EDeleteTombstone "ns1/p1" Ex.p1) [])
    = PROPFAIL "affected-parent-not-enqueued".
Proof. vm_compute. repeat split; reflexivity. Qed.
