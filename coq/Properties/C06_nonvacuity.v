(* Non-vacuity evidence for Properties/C06.v: one observed child that differs from
   its desired state, decided under every update strategy; hypotheses of each
   conditional C06 theorem met by concrete values, conclusions computed. *)
From MC Require Import Generated Model.Composite Proofs.C06Proofs.
Local Open Scope list_scope.

Module C06NV.
  Definition kid (m : string) : child_cfg := mkChild "v1" "things" "Thing" true m.
  Definition cfg (m : string) : ccfg :=
    mkCfg "cc" "ctl.example.com/v1" "Parent" "parents" true true true sel_everything [kid m] true false
          [kid m] false false [["spec"]] [].
  Definition parent : json :=
    JObj [("apiVersion", JStr "ctl.example.com/v1"); ("kind", JStr "Parent");
          ("metadata", JObj [("name", JStr "p"); ("namespace", JStr "ns"); ("uid", JStr "uid-p")])].
  Definition pref : json :=
    JObj [("apiVersion", JStr "ctl.example.com/v1"); ("blockOwnerDeletion", JBool true);
          ("controller", JBool true); ("kind", JStr "Parent"); ("name", JStr "p"); ("uid", JStr "uid-p")].
  Definition child (name uid : string) (x : Z) (extra : list (string * json)) : json :=
    JObj [("apiVersion", JStr "v1"); ("kind", JStr "Thing");
          ("metadata", JObj ([("name", JStr name); ("namespace", JStr "ns"); ("uid", JStr uid);
                              ("labels", JObj [("controller-uid", JStr "uid-p")]);
                              ("ownerReferences", JArr [pref])] ++ extra));
          ("spec", JObj [("x", JInt x)])].
  Definition old := child "a" "uid-a" 1 [].
  Definition old_dying := child "a" "uid-a" 1 [("deletionTimestamp", JStr "2024-01-01T00:00:00Z")].
  Definition stray := child "b" "uid-b" 1 [].
  Definition desired (name : string) (x : Z) : json :=
    JObj [("apiVersion", JStr "v1"); ("kind", JStr "Thing");
          ("metadata", JObj [("name", JStr name); ("namespace", JStr "ns");
                             ("labels", JObj [("controller-uid", JStr "uid-p")])]);
          ("spec", JObj [("x", JInt x)])].
  Definition des := desired "a" 2.
  (* the body InPlace sends; an observed child equal to it is in sync *)
  Definition old_synced : json :=
    match child_decision (cfg "InPlace") (kid "InPlace") parent (Some old) des with
    | ActUpdate b => b | _ => JNull end.
  Definition meth_of (m : string) : string := method_of (cfg m) (group_of (ch_api_version (kid m))) (ch_kind (kid m)).
  Definition decide (m : string) (o : json) : child_action :=
    child_decision (cfg m) (kid m) parent (Some o) des.
  Definition is_update (a : child_action) : bool := match a with ActUpdate _ => true | _ => false end.
  Definition observed : list (string * json) := [("ns/a", old); ("ns/b", stray); ("ns/d", old_dying)].
  Definition wanted : list (string * json) := [("ns/a", des); ("ns/c", desired "c" 3)].
  Definition call_sig (cl : call) : verb * string * string :=
    match cl with CApi q => (q_verb q, q_name q, q_uid_pre q) | CHook _ _ => (VGet, "hook", "") end.
  Definition ok_env : env := fun _ cl => match cl with CApi q => AObj (q_body q) | _ => AHookErr end.
  Definition failing_env : env := fun _ _ => AFail EOther.
End C06NV.
Import C06NV.

(* C06_on_delete, C06_method_default (strategy absent or OnDelete): the differing child is left alone *)
Example C06_on_delete_inhabited :
  meth_of "OnDelete" = method_on_delete /\ meth_of "" = method_on_delete /\
  (forall k, In k (kids (cfg "")) -> group_of (ch_api_version k) = "" -> ch_kind k = "Thing" ->
             ch_method k = "" \/ ch_method k = method_on_delete) /\
  decide "OnDelete" old = ActNone /\ decide "" old = ActNone /\
  is_ok (apply_update (obj_map old) (obj_map des)) = true.
Proof.
  split; [vm_compute; reflexivity|]. split; [vm_compute; reflexivity|].
  split; [intros k [<-|[]] _ _; left; reflexivity|]. vm_compute. repeat split; reflexivity.
Qed.

(* C06_recreate: delete with the observed UID, never an update *)
Example C06_recreate_inhabited :
  meth_of "Recreate" = method_recreate /\ meth_of "RollingRecreate" = method_rolling_recreate /\
  decide "Recreate" old = ActDelete "uid-a" /\ decide "RollingRecreate" old = ActDelete "uid-a" /\
  get_uid old = "uid-a".
Proof. vm_compute. repeat split; reflexivity. Qed.

(* C06_in_place: update with the merged object, never a delete *)
Example C06_in_place_inhabited :
  meth_of "InPlace" = method_in_place /\ meth_of "RollingInPlace" = method_rolling_in_place /\
  is_update (decide "InPlace" old) = true /\ decide "RollingInPlace" old = decide "InPlace" old /\
  (exists n, apply_update (obj_map old) (obj_map des) = Ok n /\ decide "InPlace" old = ActUpdate (JObj n) /\
             jeqb (JObj n) old = false /\ jget "spec" n = JObj [("x", JInt 2)] /\
             get_uid (JObj n) = "uid-a").
Proof.
  split; [vm_compute; reflexivity|]. split; [vm_compute; reflexivity|].
  split; [vm_compute; reflexivity|]. split; [vm_compute; reflexivity|].
  eexists. vm_compute. repeat split; reflexivity.
Qed.

(* C06_equal_no_write (an in-sync child), C06_pending_no_write (a child pending deletion) *)
Example C06_no_write_inhabited :
  (exists n, apply_update (obj_map old_synced) (obj_map des) = Ok n /\ jeqb (JObj n) old_synced = true) /\
  decide "InPlace" old_synced = ActNone /\ decide "Recreate" old_synced = ActNone /\
  is_deleting old_dying = true /\
  decide "InPlace" old_dying = ActNone /\ decide "Recreate" old_dying = ActNone.
Proof. split; [eexists; vm_compute; split; reflexivity|]. vm_compute. repeat split; reflexivity. Qed.

(* C06_unknown_method_error: all eight hypotheses, for a strategy name the code does not know *)
Example C06_unknown_method_inhabited :
  let m := meth_of "Bogus" in
  m <> method_on_delete /\ m <> method_recreate /\ m <> method_rolling_recreate /\
  m <> method_in_place /\ m <> method_rolling_in_place /\
  (exists n, apply_update (obj_map old) (obj_map des) = Ok n /\ jeqb (JObj n) old = false) /\
  is_deleting old = false /\ decide "Bogus" old = ActError.
Proof.
  vm_compute. repeat split; try discriminate; try reflexivity.
  eexists. split; reflexivity.
Qed.

(* C06_undesired_always_deleted (and the _background theorems): the stray child is
   deleted with its UID, in the background, even when every request fails; the
   desired and the dying one are not *)
Example C06_undesired_deleted_inhabited :
  In ("ns/b", stray) observed /\ is_deleting stray = false /\ olookup "ns/b" wanted = None /\
  map (fun ca => fst ca) (trace_of (delete_children (kid "InPlace") observed wanted) failing_env) =
    [CApi (delete_req_of (kid "InPlace") stray)] /\
  delete_req_of (kid "InPlace") stray = mkRq VDelete "things.v1" "ns" "b" JNull "uid-b" "Background" /\
  result_of (delete_children (kid "InPlace") observed wanted) failing_env = true.
Proof. vm_compute. repeat split; try reflexivity. right. left. reflexivity. Qed.

(* C06_update_children_complete / _sound: ssa off, a desired entry whose decision is a
   request; both requests appear, also when the first one fails *)
Example C06_update_children_inhabited :
  let c := cfg "Recreate" in let kc := kid "Recreate" in
  ssa c = false /\ In ("ns/a", des) wanted /\ In ("ns/c", desired "c" 3) wanted /\
  request_of_action kc des (child_decision c kc parent (olookup "ns/a" observed) des) =
    Some (CApi (rq_delete "things.v1" "ns" "a" "uid-a")) /\
  (match request_of_action kc (desired "c" 3)
           (child_decision c kc parent (olookup "ns/c" observed) (desired "c" 3)) with
   | Some cl => call_sig cl = (VCreate, "c", "") | None => False end) /\
  map (fun ca => call_sig (fst ca)) (trace_of (update_children c kc parent observed wanted) failing_env) =
    [(VDelete, "a", "uid-a"); (VCreate, "c", "")] /\
  map (fun ca => call_sig (fst ca))
      (trace_of (update_children (cfg "InPlace") (kid "InPlace") parent observed wanted) ok_env) =
    [(VUpdate, "a", ""); (VCreate, "c", "")].
Proof. vm_compute. repeat split; try reflexivity; auto. Qed.

(* C06_on_delete_only_creates: ssa off and OnDelete; the differing child is not touched *)
Example C06_on_delete_only_creates_inhabited :
  ssa (cfg "OnDelete") = false /\ meth_of "OnDelete" = method_on_delete /\
  map (fun ca => call_sig (fst ca))
      (trace_of (update_children (cfg "OnDelete") (kid "OnDelete") parent observed wanted) ok_env) =
    [(VCreate, "c", "")].
Proof. vm_compute. repeat split; reflexivity. Qed.
