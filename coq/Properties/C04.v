(* Property C04 — adoption, release and creation obey the ControllerRef rules.
   Statements about Model/Composite.v claim_decision, claim_one, enforce_labels and
   Model/Obj.v add_owner_ref/remove_owner_ref
   (pkg/third_party/kubernetes/controller_ref_manager.go, pkg/dynamic/controllerref). *)
From MC Require Import Generated Model.Composite Proofs.C04Proofs.

Theorem C04_claim_adopt_iff :
  forall (puid : string) (pd : bool) (sel : selector) (o : json),
         claim_decision puid pd sel o = ClAdopt <->
         controller_of o = None /\ pd = false /\ sel_matches sel (get_labels o) = true /\ is_deleting o = false.
Proof. exact claim_adopt_iff. Qed.
Print Assumptions C04_claim_adopt_iff.

Theorem C04_claim_release_iff :
  forall (puid : string) (pd : bool) (sel : selector) (o : json),
         claim_decision puid pd sel o = ClRelease <->
         controlled_by o puid = true /\ sel_matches sel (get_labels o) = false /\ pd = false.
Proof. exact claim_release_iff. Qed.
Print Assumptions C04_claim_release_iff.

Theorem C04_claim_keep_iff :
  forall (puid : string) (pd : bool) (sel : selector) (o : json),
         claim_decision puid pd sel o = ClKeep <->
         controlled_by o puid = true /\ sel_matches sel (get_labels o) = true.
Proof. exact claim_keep_iff. Qed.
Print Assumptions C04_claim_keep_iff.

Theorem C04_claim_never_steals :
  forall (puid : string) (pd : bool) (sel : selector) (o : json) (r : oref),
         controller_of o = Some r ->
         or_uid r <> puid ->
         claim_decision puid pd sel o <> ClAdopt /\
         claim_decision puid pd sel o <> ClRelease /\ claim_decision puid pd sel o <> ClKeep.
Proof. exact claim_never_steals. Qed.
Print Assumptions C04_claim_never_steals.

Theorem C04_other_controller_ignored :
  forall (puid : string) (pd : bool) (sel : selector) (o : json) (r : oref),
         controller_of o = Some r -> or_uid r <> puid -> claim_decision puid pd sel o = ClIgnore.
Proof. exact claim_other_controller. Qed.
Print Assumptions C04_other_controller_ignored.

Theorem C04_parent_deleting_no_release :
  forall (puid : string) (sel : selector) (o : json),
         controlled_by o puid = true ->
         sel_matches sel (get_labels o) = false -> claim_decision puid true sel o = ClIgnore.
Proof. exact claim_ours_nomatch_parent_deleting. Qed.
Print Assumptions C04_parent_deleting_no_release.

Theorem C04_parent_deleting_no_adopt :
  forall (puid : string) (sel : selector) (o : json),
         controller_of o = None -> claim_decision puid true sel o = ClIgnore.
Proof. exact claim_orphan_parent_deleting. Qed.
Print Assumptions C04_parent_deleting_no_adopt.

Theorem C04_orphan_deleting_ignored :
  forall (puid : string) (pd : bool) (sel : selector) (o : json),
         controller_of o = None -> is_deleting o = true -> claim_decision puid pd sel o = ClIgnore.
Proof. exact claim_orphan_deleting. Qed.
Print Assumptions C04_orphan_deleting_ignored.

Theorem C04_release_only_ours :
  forall (l : list oref) (u : string) (r : oref),
         In r (remove_owner_ref l u) <-> In r l /\ or_uid r <> u.
Proof. exact remove_owner_ref_In. Qed.
Print Assumptions C04_release_only_ours.

Theorem C04_adopt_keeps_others :
  forall (l : list oref) (add : oref),
         filter (other_uid (or_uid add)) (add_owner_ref l add) = filter (other_uid (or_uid add)) l.
Proof. exact add_owner_ref_others. Qed.
Print Assumptions C04_adopt_keeps_others.

Theorem C04_adopt_contains_ours :
  forall (l : list oref) (add : oref), In add (add_owner_ref l add).
Proof. exact add_owner_ref_contains. Qed.
Print Assumptions C04_adopt_contains_ours.

Theorem C04_adopt_no_duplicate :
  forall (l : list oref) (add : oref), NoDup (map or_uid l) -> NoDup (map or_uid (add_owner_ref l add)).
Proof. exact add_owner_ref_NoDup. Qed.
Print Assumptions C04_adopt_no_duplicate.

Theorem C04_adopt_first_asks :
  forall (c : ccfg) (k : child_cfg) (parent : json) (sel : selector) (claimed : list json)
           (failed : bool) (o : json),
         decision parent sel o = ClAdopt ->
         exists kont : answer -> prog (option bool * list json * bool),
           claim_one c k parent sel (None, claimed, failed) o = Do (parent_get c parent) kont.
Proof. exact C04_adopt_first_asks. Qed.
Print Assumptions C04_adopt_first_asks.

Theorem C04_adopt_refused_no_call :
  forall (c : ccfg) (k : child_cfg) (parent : json) (sel : selector) (claimed : list json)
           (failed : bool) (o : json),
         decision parent sel o = ClAdopt ->
         claim_one c k parent sel (Some false, claimed, failed) o = Ret (Some false, claimed, true).
Proof. exact C04_adopt_refused_no_call. Qed.
Print Assumptions C04_adopt_refused_no_call.

Theorem C04_adopt_only_after_recheck :
  forall (c : ccfg) (k : child_cfg) (parent : json) (sel : selector) (all : list json),
         hist_post
           (fun (h : hist) (cl : call) =>
            cl = parent_get c parent \/
            (exists o : json,
               In o all /\
               (decision parent sel o = ClRelease /\ edit_call k (release_edit parent) o h cl \/
                decision parent sel o = ClAdopt /\
                edit_call k (adopt_edit c parent) o h cl /\ passed c parent h)))
           (fun (h : hist) (st : option bool * list json * bool) =>
            match fst (fst st) with
            | Some true => passed c parent h
            | Some false => snd st = true
            | None => True
            end) [] (foldM (claim_one c k parent sel) all (None, [], false)).
Proof. exact C04_adopt_only_after_recheck. Qed.
Print Assumptions C04_adopt_only_after_recheck.

Theorem C04_one_recheck_in_run :
  forall (c : ccfg) (k : child_cfg) (parent : json) (sel : selector) (all : list json) (e : env),
         (forall o : json, In o all -> child_get k o <> parent_get c parent) ->
         forall (post : list (call * answer)) (a : answer) (pre : list (call * answer)) (a' : answer),
         fst (run (foldM (claim_one c k parent sel) all (None, [], false)) e []) =
         (post ++ (parent_get c parent, a) :: pre)%list -> ~ In (parent_get c parent, a') pre.
Proof. exact C04_one_recheck_in_run. Qed.
Print Assumptions C04_one_recheck_in_run.

Theorem C04_label_invariant_partial :
  forall (c : ccfg) (parent : json) (sel : selector) (ds ds' : list json),
         labels_settable c ds = true ->
         enforce_labels c parent sel ds = Some ds' -> Forall2 (label_ok c parent sel) ds ds'.
Proof. exact C04_label_invariant_partial. Qed.
Print Assumptions C04_label_invariant_partial.

Theorem C04_label_invariant_counterexample :
  enforce_labels cx_cfg cx_parent cx_sel [cx_child] = Some [cx_child] /\
         make_selector cx_cfg cx_parent = Some cx_sel /\
         get_labels cx_child = [] /\
         sel_matches cx_sel (get_labels cx_child) = false /\ labels_settable cx_cfg [cx_child] = false.
Proof. exact C04_label_invariant_counterexample. Qed.
Print Assumptions C04_label_invariant_counterexample.

Theorem C04_label_invariant_no_gen :
  forall (c : ccfg) (parent : json) (sel : selector) (ds ds' : list json),
         gen_selector c = false ->
         enforce_labels c parent sel ds = Some ds' ->
         ds' = ds /\
         Forall
           (fun d : json => strict_labels d = Some (get_labels d) /\ sel_matches sel (get_labels d) = true) ds.
Proof. exact C04_label_invariant_no_gen. Qed.
Print Assumptions C04_label_invariant_no_gen.

Theorem C04_labels_rejected_no_writes :
  forall (c : ccfg) (parent : json) (observed : umap) (r : hook_resp) (desired0 : umap) (sel : selector),
         hr_finalized r = false ->
         desired_map (hr_children r) [] = Some desired0 ->
         make_selector c parent = Some sel ->
         enforce_labels c parent sel (uobjects desired0) = None ->
         all_calls (fun cl : call => forall q : req, cl <> CApi q) (finish_sync c parent observed r) /\
         (forall e : env, result_of (finish_sync c parent observed r) e = SErr).
Proof. exact finish_sync_labels_rejected. Qed.
Print Assumptions C04_labels_rejected_no_writes.

(* add this Require line (after the file's existing Require line, or right before the appended block:
   both placements were test-compiled against a copy of the current Properties file) *)
From MC Require Import Model.Rolling Model.Safe Model.TracePreds Proofs.C09Proofs Proofs.Round3Proofs.

Theorem C04_revision_adopt_first_asks :
  forall (c : ccfg) (parent : json) (sel : selector) (claimed : list json) (failed : bool) (o : json),
       decision parent sel o = ClAdopt ->
       exists kont : answer -> prog (option bool * list json * bool),
         claim_rev_one c parent sel (None, claimed, failed) o = Do (parent_get c parent) kont.
Proof. exact (@C04_revision_adopt_first_asks). Qed.
Print Assumptions C04_revision_adopt_first_asks.

Theorem C04_revision_adopt_refused_no_call :
  forall (c : ccfg) (parent : json) (sel : selector) (claimed : list json) (failed : bool) (o : json),
       decision parent sel o = ClAdopt ->
       claim_rev_one c parent sel (Some false, claimed, failed) o = Ret (Some false, claimed, true).
Proof. exact (@C04_revision_adopt_refused_no_call). Qed.
Print Assumptions C04_revision_adopt_refused_no_call.

Theorem C04_revision_adopt_only_after_recheck :
  forall (c : ccfg) (parent : json) (sel : selector) (all : list json) (h0 : C04Proofs.hist),
       hist_post (C04_revision_phi c parent sel all h0)
         (fun (h : C04Proofs.hist) (st : option bool * list json * bool) =>
          match fst (fst st) with
          | Some true => passed_since c parent h0 h
          | Some false => snd st = true
          | None => True
          end) h0 (foldM (claim_rev_one c parent sel) all (None, [], false)).
Proof. exact (@C04_revision_adopt_only_after_recheck). Qed.
Print Assumptions C04_revision_adopt_only_after_recheck.

Theorem C04_revision_one_recheck_in_run :
  forall (c : ccfg) (parent : json) (sel : selector) (all : list json) (e : env) (h0 : list (call * answer)),
       (p_res c =? rev_res) = false ->
       forall (post : list (call * answer)) (a : answer) (pre : list (call * answer)) (a' : answer),
       fst (run (foldM (claim_rev_one c parent sel) all (None, [], false)) e h0) =
       (post ++ (parent_get c parent, a) :: pre ++ h0)%list -> ~ In (parent_get c parent, a') pre.
Proof. exact (@C04_revision_one_recheck_in_run). Qed.
Print Assumptions C04_revision_one_recheck_in_run.

Theorem C04_claim_revisions_adopt_only_after_recheck :
  forall (c : ccfg) (k : cache) (parent : json) (h0 : C04Proofs.hist),
       hist_post
         (fun (h : C04Proofs.hist) (cl : call) =>
          exists sel : selector,
            revision_selector c parent = Some sel /\ C04_revision_phi c parent sel (rev_candidates k parent) h0 h cl)
         (fun (_ : C04Proofs.hist) (_ : option (list json)) => True) h0 (claim_revisions c k parent).
Proof. exact (@C04_claim_revisions_adopt_only_after_recheck). Qed.
Print Assumptions C04_claim_revisions_adopt_only_after_recheck.

Theorem C04_claim_revisions_one_recheck_in_run :
  forall (c : ccfg) (k : cache) (parent : json) (e : env) (h0 : list (call * answer)),
       (p_res c =? rev_res) = false ->
       forall (post : list (call * answer)) (a : answer) (pre : list (call * answer)) (a' : answer),
       fst (run (claim_revisions c k parent) e h0) = (post ++ (parent_get c parent, a) :: pre ++ h0)%list ->
       ~ In (parent_get c parent, a') pre.
Proof. exact (@C04_claim_revisions_one_recheck_in_run). Qed.
Print Assumptions C04_claim_revisions_one_recheck_in_run.

Theorem C04_deleting_parent_claims_no_revision :
  forall (c : ccfg) (k : cache) (parent : json),
       is_deleting parent = true -> all_calls (fun _ : call => False) (claim_revisions c k parent).
Proof. exact (@C04_deleting_parent_claims_no_revision). Qed.
Print Assumptions C04_deleting_parent_claims_no_revision.

Theorem C04_deleting_parent_claims_no_revision_run :
  forall (c : ccfg) (k : cache) (parent : json) (e : env) (h : list (call * answer)),
       is_deleting parent = true -> fst (run (claim_revisions c k parent) e h) = h.
Proof. exact (@C04_deleting_parent_claims_no_revision_run). Qed.
Print Assumptions C04_deleting_parent_claims_no_revision_run.

Theorem C04_revision_adoption_in_run :
  forall (c : ccfg) (k : cache) (parent : json) (e : env) (h0 post : list (call * answer))
         (q : req) (a : answer) (pre : list (call * answer)),
       fst (run (claim_revisions c k parent) e h0) = (post ++ (CApi q, a) :: pre ++ h0)%list ->
       q_res q = rev_res ->
       q_verb q = VUpdate ->
       controlled_by (q_body q) (get_uid parent) = true ->
       is_deleting parent = false /\
       (exists o : json,
          In o (rev_candidates k parent) /\ controller_of o = None /\ is_deleting o = false /\ q_name q = get_name o) /\
       (exists fresh : json,
          In (parent_get c parent, AObj fresh) pre /\ get_uid fresh = get_uid parent /\ is_deleting fresh = false).
Proof. exact (@C04_revision_adoption_in_run). Qed.
Print Assumptions C04_revision_adoption_in_run.

Theorem C04_revision_adoption_in_sync :
  forall (c : ccfg) (k : cache) (parent : json) (h : C04Proofs.hist),
       rev_not_child c = true ->
       hist_post (C04_revision_sync_phi c k parent) (fun (_ : C04Proofs.hist) (_ : sync_result) => True) h
         (sync_parent_object_r c k parent).
Proof. exact (@C04_revision_adoption_in_sync). Qed.
Print Assumptions C04_revision_adoption_in_sync.

Theorem C04_revision_adoption_in_sync_r :
  forall (c : ccfg) (k : cache),
       rev_not_child c = true ->
       forall G : call -> answer -> Prop,
       safe G
         (fun (h : hist) (cl : call) =>
          forall parent : json, k_parent k = Some parent -> C04_revision_sync_phi c k parent h cl) [] 
         (sync_r c k).
Proof. exact (@C04_revision_adoption_in_sync_r). Qed.
Print Assumptions C04_revision_adoption_in_sync_r.

Theorem C04_revision_adoption_in_sync_run :
  forall (c : ccfg) (k : cache) (parent : json) (e : env) (post : list (call * answer))
         (q : req) (a : answer) (pre : list (call * answer)),
       rev_not_child c = true ->
       fst (run (sync_parent_object_r c k parent) e []) = (post ++ (CApi q, a) :: pre)%list ->
       has_hook pre = false ->
       q_res q = rev_res ->
       q_verb q = VUpdate ->
       exists p1 : json,
         parent_version c parent pre p1 /\
         (controlled_by (q_body q) (get_uid p1) = true ->
          is_deleting p1 = false /\
          (exists o : json, In o (rev_candidates k p1) /\ controller_of o = None /\ q_name q = get_name o) /\
          (exists fresh : json,
             In (parent_get c p1, AObj fresh) pre /\ get_uid fresh = get_uid p1 /\ is_deleting fresh = false)).
Proof. exact (@C04_revision_adoption_in_sync_run). Qed.
Print Assumptions C04_revision_adoption_in_sync_run.

Theorem C04_revision_adoption_inhabited :
  let body := adopt_edit R3X.cfg R3X.parent R3X.orphan in
       decision R3X.parent match revision_selector R3X.cfg R3X.parent with
                           | Some s => s
                           | None => sel_everything
                           end R3X.orphan = ClAdopt /\
       trace_of (claim_revisions R3X.cfg (R3X.cache_of R3X.parent R3X.orphan) R3X.parent) (R3X.e_ok R3X.parent false) =
       [(parent_get R3X.cfg R3X.parent, AObj R3X.parent); (rev_get R3X.parent R3X.orphan, AObj R3X.orphan);
        (rev_put R3X.parent R3X.orphan body, AObj body)] /\
       rev_put R3X.parent R3X.orphan body =
       CApi
         {|
           q_verb := VUpdate;
           q_res := rev_res;
           q_ns := "ns";
           q_name := "p-old";
           q_body := body;
           q_uid_pre := "";
           q_prop := ""
         |} /\
       controller_of R3X.orphan = None /\
       controlled_by body (get_uid R3X.parent) = true /\
       controller_count body = 1 /\
       is_deleting R3X.parent = false /\
       result_of (claim_revisions R3X.cfg (R3X.cache_of R3X.parent R3X.orphan) R3X.parent)
         (R3X.e_ok R3X.parent false) = Some [R3X.orphan] /\ (p_res R3X.cfg =? rev_res) = false.
Proof. exact (@C04_revision_adoption_inhabited). Qed.
Print Assumptions C04_revision_adoption_inhabited.

Theorem C04_revision_no_adoption_inhabited :
  is_deleting R3X.parent_deleting = true /\
       trace_of (claim_revisions R3X.cfg (R3X.cache_of R3X.parent_deleting R3X.orphan) R3X.parent_deleting)
         (R3X.e_ok R3X.parent_deleting false) = [] /\
       result_of (claim_revisions R3X.cfg (R3X.cache_of R3X.parent_deleting R3X.orphan) R3X.parent_deleting)
         (R3X.e_ok R3X.parent_deleting false) = Some [] /\
       trace_of (claim_revisions R3X.cfg (R3X.cache_of R3X.parent R3X.orphan) R3X.parent)
         (R3X.e_ok R3X.parent_reborn false) = [(parent_get R3X.cfg R3X.parent, AObj R3X.parent_reborn)] /\
       trace_of (claim_revisions R3X.cfg (R3X.cache_of R3X.parent R3X.orphan) R3X.parent)
         (R3X.e_ok R3X.parent_deleting false) = [(parent_get R3X.cfg R3X.parent, AObj R3X.parent_deleting)] /\
       result_of (claim_revisions R3X.cfg (R3X.cache_of R3X.parent R3X.orphan) R3X.parent)
         (R3X.e_ok R3X.parent_reborn false) = None.
Proof. exact (@C04_revision_no_adoption_inhabited). Qed.
Print Assumptions C04_revision_no_adoption_inhabited.

Theorem C04_revision_adoption_in_sync_inhabited :
  rev_not_child R3X.cfg = true /\
       map (fun ca : call * answer => R3X.call_sig (fst ca))
         (trace_of (sync_r R3X.cfg (R3X.cache_of R3X.parent R3X.orphan)) (R3X.e_ok R3X.parent false)) =
       [(VGet, R3X.P, "p"); (VGet, R3X.R, "p-old"); (VUpdate, R3X.R, "p-old"); (VGet, "hook", "");
        (VGet, "hook", ""); (VCreate, R3X.R, "p-new"); (VUpdate, R3X.R, "p-old"); (VCreate, "things.apps/v1", "a");
        (VCreate, "things.apps/v1", "b"); (VGet, R3X.P, "p"); (VUpdateStatus, R3X.P, "p")] /\
       result_of (sync_r R3X.cfg (R3X.cache_of R3X.parent R3X.orphan)) (R3X.e_ok R3X.parent false) = SDone.
Proof. exact (@C04_revision_adoption_in_sync_inhabited). Qed.
Print Assumptions C04_revision_adoption_in_sync_inhabited.
