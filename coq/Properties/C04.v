(* Property C04 — adoption, release and creation obey the ControllerRef rules.
   Statements about Model/Composite.v claim_decision, claim_one, enforce_labels and
   Model/Obj.v add_owner_ref/remove_owner_ref
   (pkg/third_party/kubernetes/controller_ref_manager.go, pkg/dynamic/controllerref). *)
From MC Require Import Generated Model.Composite Proofs.C04Proofs.

Theorem C04_claim_adopt_iff :
  forall (puid : string) (pd : bool) (sel : selector) (o : json),
         claim_decision puid pd sel o = ClAdopt <->
         controller_of o = None /\ pd = false /\ sel_matches sel (get_labels o) = true /\ is_deleting o = false.
Proof. exact claim_adopt_iff. Qed.
Print Assumptions C04_claim_adopt_iff.

Theorem C04_claim_release_iff :
  forall (puid : string) (pd : bool) (sel : selector) (o : json),
         claim_decision puid pd sel o = ClRelease <->
         controlled_by o puid = true /\ sel_matches sel (get_labels o) = false /\ pd = false.
Proof. exact claim_release_iff. Qed.
Print Assumptions C04_claim_release_iff.

Theorem C04_claim_keep_iff :
  forall (puid : string) (pd : bool) (sel : selector) (o : json),
         claim_decision puid pd sel o = ClKeep <->
         controlled_by o puid = true /\ sel_matches sel (get_labels o) = true.
Proof. exact claim_keep_iff. Qed.
Print Assumptions C04_claim_keep_iff.

Theorem C04_claim_never_steals :
  forall (puid : string) (pd : bool) (sel : selector) (o : json) (r : oref),
         controller_of o = Some r ->
         or_uid r <> puid ->
         claim_decision puid pd sel o <> ClAdopt /\
         claim_decision puid pd sel o <> ClRelease /\ claim_decision puid pd sel o <> ClKeep.
Proof. exact claim_never_steals. Qed.
Print Assumptions C04_claim_never_steals.

Theorem C04_other_controller_ignored :
  forall (puid : string) (pd : bool) (sel : selector) (o : json) (r : oref),
         controller_of o = Some r -> or_uid r <> puid -> claim_decision puid pd sel o = ClIgnore.
Proof. exact claim_other_controller. Qed.
Print Assumptions C04_other_controller_ignored.

Theorem C04_parent_deleting_no_release :
  forall (puid : string) (sel : selector) (o : json),
         controlled_by o puid = true ->
         sel_matches sel (get_labels o) = false -> claim_decision puid true sel o = ClIgnore.
Proof. exact claim_ours_nomatch_parent_deleting. Qed.
Print Assumptions C04_parent_deleting_no_release.

Theorem C04_parent_deleting_no_adopt :
  forall (puid : string) (sel : selector) (o : json),
         controller_of o = None -> claim_decision puid true sel o = ClIgnore.
Proof. exact claim_orphan_parent_deleting. Qed.
Print Assumptions C04_parent_deleting_no_adopt.

Theorem C04_orphan_deleting_ignored :
  forall (puid : string) (pd : bool) (sel : selector) (o : json),
         controller_of o = None -> is_deleting o = true -> claim_decision puid pd sel o = ClIgnore.
Proof. exact claim_orphan_deleting. Qed.
Print Assumptions C04_orphan_deleting_ignored.

Theorem C04_release_only_ours :
  forall (l : list oref) (u : string) (r : oref),
         In r (remove_owner_ref l u) <-> In r l /\ or_uid r <> u.
Proof. exact remove_owner_ref_In. Qed.
Print Assumptions C04_release_only_ours.

Theorem C04_adopt_keeps_others :
  forall (l : list oref) (add : oref),
         filter (other_uid (or_uid add)) (add_owner_ref l add) = filter (other_uid (or_uid add)) l.
Proof. exact add_owner_ref_others. Qed.
Print Assumptions C04_adopt_keeps_others.

Theorem C04_adopt_contains_ours :
  forall (l : list oref) (add : oref), In add (add_owner_ref l add).
Proof. exact add_owner_ref_contains. Qed.
Print Assumptions C04_adopt_contains_ours.

Theorem C04_adopt_no_duplicate :
  forall (l : list oref) (add : oref), NoDup (map or_uid l) -> NoDup (map or_uid (add_owner_ref l add)).
Proof. exact add_owner_ref_NoDup. Qed.
Print Assumptions C04_adopt_no_duplicate.

Theorem C04_adopt_first_asks :
  forall (c : ccfg) (k : child_cfg) (parent : json) (sel : selector) (claimed : list json)
           (failed : bool) (o : json),
         decision parent sel o = ClAdopt ->
         exists kont : answer -> prog (option bool * list json * bool),
           claim_one c k parent sel (None, claimed, failed) o = Do (parent_get c parent) kont.
Proof. exact C04_adopt_first_asks. Qed.
Print Assumptions C04_adopt_first_asks.

Theorem C04_adopt_refused_no_call :
  forall (c : ccfg) (k : child_cfg) (parent : json) (sel : selector) (claimed : list json)
           (failed : bool) (o : json),
         decision parent sel o = ClAdopt ->
         claim_one c k parent sel (Some false, claimed, failed) o = Ret (Some false, claimed, true).
Proof. exact C04_adopt_refused_no_call. Qed.
Print Assumptions C04_adopt_refused_no_call.

Theorem C04_adopt_only_after_recheck :
  forall (c : ccfg) (k : child_cfg) (parent : json) (sel : selector) (all : list json),
         hist_post
           (fun (h : hist) (cl : call) =>
            cl = parent_get c parent \/
            (exists o : json,
               In o all /\
               (decision parent sel o = ClRelease /\ edit_call k (release_edit parent) o h cl \/
                decision parent sel o = ClAdopt /\
                edit_call k (adopt_edit c parent) o h cl /\ passed c parent h)))
           (fun (h : hist) (st : option bool * list json * bool) =>
            match fst (fst st) with
            | Some true => passed c parent h
            | Some false => snd st = true
            | None => True
            end) [] (foldM (claim_one c k parent sel) all (None, [], false)).
Proof. exact C04_adopt_only_after_recheck. Qed.
Print Assumptions C04_adopt_only_after_recheck.

Theorem C04_one_recheck_in_run :
  forall (c : ccfg) (k : child_cfg) (parent : json) (sel : selector) (all : list json) (e : env),
         (forall o : json, In o all -> child_get k o <> parent_get c parent) ->
         forall (post : list (call * answer)) (a : answer) (pre : list (call * answer)) (a' : answer),
         fst (run (foldM (claim_one c k parent sel) all (None, [], false)) e []) =
         (post ++ (parent_get c parent, a) :: pre)%list -> ~ In (parent_get c parent, a') pre.
Proof. exact C04_one_recheck_in_run. Qed.
Print Assumptions C04_one_recheck_in_run.

Theorem C04_label_invariant_partial :
  forall (c : ccfg) (parent : json) (sel : selector) (ds ds' : list json),
         labels_settable c ds = true ->
         enforce_labels c parent sel ds = Some ds' -> Forall2 (label_ok c parent sel) ds ds'.
Proof. exact C04_label_invariant_partial. Qed.
Print Assumptions C04_label_invariant_partial.

Theorem C04_label_invariant_counterexample :
  enforce_labels cx_cfg cx_parent cx_sel [cx_child] = Some [cx_child] /\
         make_selector cx_cfg cx_parent = Some cx_sel /\
         get_labels cx_child = [] /\
         sel_matches cx_sel (get_labels cx_child) = false /\ labels_settable cx_cfg [cx_child] = false.
Proof. exact C04_label_invariant_counterexample. Qed.
Print Assumptions C04_label_invariant_counterexample.

Theorem C04_label_invariant_no_gen :
  forall (c : ccfg) (parent : json) (sel : selector) (ds ds' : list json),
         gen_selector c = false ->
         enforce_labels c parent sel ds = Some ds' ->
         ds' = ds /\
         Forall
           (fun d : json => strict_labels d = Some (get_labels d) /\ sel_matches sel (get_labels d) = true) ds.
Proof. exact C04_label_invariant_no_gen. Qed.
Print Assumptions C04_label_invariant_no_gen.

Theorem C04_labels_rejected_no_writes :
  forall (c : ccfg) (parent : json) (observed : umap) (r : hook_resp) (desired0 : umap) (sel : selector),
         hr_finalized r = false ->
         desired_map (hr_children r) [] = Some desired0 ->
         make_selector c parent = Some sel ->
         enforce_labels c parent sel (uobjects desired0) = None ->
         all_calls (fun cl : call => forall q : req, cl <> CApi q) (finish_sync c parent observed r) /\
         (forall e : env, result_of (finish_sync c parent observed r) e = SErr).
Proof. exact finish_sync_labels_rejected. Qed.
Print Assumptions C04_labels_rejected_no_writes.

