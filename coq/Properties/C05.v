(* Property C05 — Apply is a three-way merge that never clobbers what it does
   not own.  Theorems about Model/Apply.v (apply.Merge, ApplyUpdate); the
   predicates are the constants of Model/ApplyLaws.v that the correspondence
   check evaluates on the implementation's own results. *)
From MC Require Import Generated Model.Json Model.Apply Model.ApplyLaws.
From MC Require Import Proofs.ApplyProofs Proofs.ApplyClash Proofs.ApplyContain Proofs.ApplyIdemCore
                       Proofs.ApplyIdem Proofs.ApplyUpdateProofs Proofs.ApplyWf.

(* never panics on any JSON input *)
Theorem C05_no_panic : forall d o l, merge d o l <> Panic.
Proof. exact merge_no_panic. Qed.
Print Assumptions C05_no_panic.

(* a type clash between desired and observed is an error, never silently dropped *)
Theorem C05_type_clash_error : forall d o l, clashb d o = true -> merge d o l = Err.
Proof. exact clash_is_error. Qed.
Print Assumptions C05_type_clash_error.

(* every field present in desired has the desired value *)
Theorem C05_containment : forall d o l r,
  Hb d o l = true -> wf_json d = true -> merge d o l = Ok r -> containsb d r = true.
Proof. exact containment. Qed.
Print Assumptions C05_containment.

(* every field that was last applied and is no longer desired is removed *)
Theorem C05_removal : forall d o l r,
  Hb d o l = true -> wf_json d = true -> wf_json o = true -> wf_json l = true ->
  merge d o l = Ok r -> removedb d o l r = true.
Proof. exact removal. Qed.
Print Assumptions C05_removal.

(* every other field of the observed object is preserved, list-map entries in their order *)
Theorem C05_preservation : forall d o l r,
  Hb d o l = true -> wf_json d = true -> wf_json o = true -> wf_json l = true ->
  merge d o l = Ok r -> preservedb d o l r = true.
Proof. exact preservation. Qed.
Print Assumptions C05_preservation.

(* the hypothesis the check uses is the one of the theorem *)
Lemma null_okb_is_null_ok : forall d o l, null_okb d o l = null_ok d o l.
Proof. reflexivity. Qed.

(* idempotence.  The full statement (without null_ok) is FALSE of the faithful
   model and of the code: C05_idempotent_refuted below. *)
Theorem C05_idempotent_partial : forall d o l r,
  null_okb d o l = true -> Hb d o l = true ->
  wf_json d = true -> wf_json o = true -> wf_json l = true ->
  merge d o l = Ok r -> merge d r d = Ok r.
Proof. intros d o l r H. rewrite null_okb_is_null_ok in H. revert H. exact (idempotent_partial d o l r). Qed.
Print Assumptions C05_idempotent_partial.

Theorem C05_idempotent_refuted :
  ~ (forall d o l r, Hb d o l = true -> wf_json d = true -> wf_json o = true ->
       wf_json l = true -> merge d o l = Ok r ->
       exists r', merge d r d = Ok r' /\ jeqb r r' = true).
Proof. exact idempotent_cex. Qed.
Print Assumptions C05_idempotent_refuted.

(* the result is again a well-formed value *)
Theorem C05_result_wf : forall d o l r,
  wf_json d = true -> wf_json o = true -> merge d o l = Ok r -> wf_json r = true.
Proof. exact merge_wf. Qed.
Print Assumptions C05_result_wf.

(* ApplyUpdate: system metadata and status stay as observed, last-applied := desired *)
Theorem C05_apply_update : forall orig upd n om f,
  apply_update orig upd = Ok n -> alookup "metadata" orig = Some (JObj om) ->
  In f object_meta_system_fields ->
  nested_get n ["metadata"; f] = nested_get orig ["metadata"; f] /\
  nested_get n ["status"] = nested_get orig ["status"] /\
  get_last_applied n = Ok (JObj (nullify_last_applied upd)).
Proof.
  intros orig upd n om f H Ho Hin.
  destruct (apply_update_meta_obj _ _ _ _ H Ho) as [nmeta Hn].
  split; [exact (proj1 (apply_update_system_fields _ _ _ _ _ H Hn Hin))|].
  split; [exact (apply_update_status _ _ _ H)|exact (apply_update_last_applied _ _ _ _ H Hn)].
Qed.
Print Assumptions C05_apply_update.

(* the system fields the property names are among the ones the code reverts
   (regenerated from /repo on every run) *)
Example C05_system_fields_cover :
  forallb (fun f => mem_str f object_meta_system_fields)
          ["uid"; "resourceVersion"; "generation"; "creationTimestamp"; "deletionTimestamp"] = true.
Proof. vm_compute. reflexivity. Qed.

(* non-vacuity: a list-map triple that meets every hypothesis and is changed by the merge *)
Example C05_hyps_inhabited :
  let o := JObj [("l", JArr [JObj [("name", JStr "a"); ("x", JInt 1)]; JObj [("name", JStr "b")]])] in
  let l := JObj [("l", JArr [JObj [("name", JStr "b")]])] in
  let d := JObj [("l", JArr [JObj [("name", JStr "c")]; JObj [("name", JStr "a"); ("y", JInt 2)]])] in
  Hb d o l = true /\ null_okb d o l = true /\ wf_json d = true /\ wf_json o = true /\ wf_json l = true /\
  merge d o l = Ok (JObj [("l", JArr [JObj [("name", JStr "a"); ("x", JInt 1); ("y", JInt 2)]; JObj [("name", JStr "c")]])]).
Proof. vm_compute. repeat split; reflexivity. Qed.
