(* Non-vacuity evidence for Properties/C03.v: concrete instances meeting the
   hypotheses of each conditional C03 theorem, with the conclusions computed. *)
From MC Require Import Generated Model.Composite Proofs.C03Proofs.
Local Open Scope list_scope.

Module C03NV.
  Definition kid_thing : child_cfg := mkChild "v1" "things" "Thing" true "InPlace".
  Definition kid_widget : child_cfg := mkChild "apps.example.com/v1" "widgets" "Widget" true "".
  Definition cfg : ccfg :=
    mkCfg "cc" "ctl.example.com/v1" "Parent" "parents" true true true sel_everything
          [kid_thing; kid_widget] true false [kid_thing; kid_widget] false false [["spec"]] [].
  Definition parent : json :=
    JObj [("apiVersion", JStr "ctl.example.com/v1"); ("kind", JStr "Parent");
          ("metadata", JObj [("name", JStr "p"); ("namespace", JStr "ns"); ("uid", JStr "uid-p")])].
  Definition pref (uid : string) : json :=
    JObj [("apiVersion", JStr "ctl.example.com/v1"); ("blockOwnerDeletion", JBool true);
          ("controller", JBool true); ("kind", JStr "Parent"); ("name", JStr "p"); ("uid", JStr uid)].
  Definition child (name ns uid : string) (owners : list json) : json :=
    JObj [("apiVersion", JStr "v1"); ("kind", JStr "Thing");
          ("metadata", JObj [("name", JStr name); ("namespace", JStr ns); ("uid", JStr uid);
                             ("labels", JObj [("controller-uid", JStr "uid-p")]);
                             ("ownerReferences", JArr owners)])].
  Definition child_a := child "a" "ns" "uid-a" [pref "uid-p"].        (* ours *)
  Definition child_f := child "f" "ns" "uid-f" [pref "uid-other"].    (* someone else's *)
  Definition child_x := child "x" "other" "uid-x" [pref "uid-p"].     (* other namespace: invisible *)
  Definition child_o := child "o" "ns" "uid-o" [].                    (* orphan: adopted *)
  Definition k0 : cache := mkCache (Some parent) [("things.v1", [child_a; child_f; child_x; child_o])].
  Definition e0 : env := fun _ cl =>
    match cl with
    | CHook _ _ => AHookErr
    | CApi q => match q_verb q with
                | VGet => if String.eqb (q_name q) "p" then AObj parent else AObj child_o
                | _ => AObj (q_body q)
                end
    end.
  (* what claim_children observes on that run *)
  Definition m0 : umap := [("v1", "Thing", [("ns/a", child_a); ("ns/o", child_o)]);
                           ("apps.example.com/v1", "Widget", [])].
  Definition sel0 : selector := SelReqs [mkReq "controller-uid" OpIn ["uid-p"]].
  (* a cluster-scoped parent's view: objects of two namespaces *)
  Definition os_cluster : list (string * json) := [("ns/a", child_a); ("other/x", child_x)].
  Definition no_ns : json := JObj [("apiVersion", JStr "v1"); ("kind", JStr "Thing");
                                   ("metadata", JObj [("name", JStr "c")])].
  Definition bad_meta : json := JObj [("apiVersion", JStr "v1"); ("kind", JStr "Thing"); ("metadata", JStr "oops")].
End C03NV.
Import C03NV.

(* C03_children_on_wire / C03_only_claimed / C03_children_every_kind: a run of
   claim_children that keeps one child, adopts one, ignores a foreign one and an
   invisible one; both declared kinds (one empty) are on the wire *)
Example C03_claim_run_inhabited :
  result_of (claim_children cfg k0 parent) e0 = Some m0 /\
  kinds_no_dot m0 = true /\ In kid_thing (kids cfg) /\ In kid_widget (kids cfg) /\
  make_selector cfg parent = Some sel0 /\
  alookup (gvk_text "v1" "Thing") (obj_map (convert (get_ns parent) m0)) =
    Some (JObj [("a", child_a); ("o", child_o)]) /\
  alookup (gvk_text "apps.example.com/v1" "Widget") (obj_map (convert (get_ns parent) m0)) = Some (JObj []) /\
  map (fun ca => match fst ca with CApi q => (q_verb q, q_name q) | _ => (VGet, "hook") end)
      (trace_of (claim_children cfg k0 parent) e0) = [(VGet, "p"); (VGet, "o"); (VUpdate, "o")].
Proof. vm_compute. repeat split; try reflexivity; auto. Qed.

(* C03_one_entry_per_declared_resource, C03_one_entry_partial, C03_empty_group_present *)
Example C03_one_entry_inhabited :
  kinds_no_dot m0 = true /\ NoDup (ukeys m0) /\ nodup_str (map gvk_of m0) = true /\
  In ("apps.example.com/v1", "Widget", []) m0 /\
  convert "ns" m0 = JObj (map (group_entry "ns") m0) /\
  map fst (obj_map (convert "ns" m0)) = ["Thing.v1"; "Widget.apps.example.com/v1"].
Proof.
  split; [vm_compute; reflexivity|]. split.
  { cbn. repeat constructor; cbn; intuition discriminate. }
  split; [vm_compute; reflexivity|]. split; [cbn; auto|]. split; vm_compute; reflexivity.
Qed.

(* C03_group_contents: no two visible objects share a relative name; both directions of the iff are informative *)
Example C03_group_contents_inhabited :
  NoDup (map (rel_key "ns") (filter (seen "ns") os_cluster)) /\
  NoDup (map (rel_key "") (filter (seen "") os_cluster)) /\
  alookup "a" (obj_map (convert_group "ns" os_cluster)) = Some child_a /\
  alookup "x" (obj_map (convert_group "ns" os_cluster)) = None /\
  convert_group "" os_cluster = JObj [("ns/a", child_a); ("other/x", child_x)].
Proof.
  split; [cbn; repeat constructor; cbn; intuition discriminate|].
  split; [cbn; repeat constructor; cbn; intuition discriminate|].
  vm_compute. repeat split; reflexivity.
Qed.

(* C03_relative_name (both sides of the iff) and C03_relative_name_else *)
Example C03_relative_name_inhabited :
  ("" = "" /\ get_ns child_a <> "") /\ relative_name "" child_a = "ns/a" /\
  ~ ("ns" = "" /\ get_ns child_a <> "") /\ relative_name "ns" child_a = "a" /\
  ~ ("" = "" /\ get_ns no_ns <> "") /\ relative_name "" no_ns = "c".
Proof.
  vm_compute. repeat split; try reflexivity; try discriminate.
  - intros [H _]; discriminate.
  - intros [_ H]; apply H; reflexivity.
Qed.

(* C03_gvk_core and C03_gvk_group *)
Example C03_gvk_inhabited :
  split_at slash "v1" = None /\ gvk_text "v1" "Thing" = "Thing.v1" /\
  split_at slash "apps.example.com/v1" = Some ("apps.example.com", "v1") /\
  group_of "apps.example.com/v1" = "apps.example.com" /\ version_of "apps.example.com/v1" = "v1" /\
  gvk_text "apps.example.com/v1" "Widget" = "Widget.apps.example.com/v1".
Proof. vm_compute. repeat split; reflexivity. Qed.

(* C03_namespace_default, C03_namespace_kept and the three branches of C03_namespace_default_partial *)
Example C03_namespace_inhabited :
  (get_ns no_ns = "" /\ "ns" <> "" /\ meta_ok no_ns = true /\
   default_ns "ns" (Some no_ns) =
     Some (JObj [("apiVersion", JStr "v1"); ("kind", JStr "Thing");
                 ("metadata", JObj [("name", JStr "c"); ("namespace", JStr "ns")])])) /\
  (get_ns child_x <> "" /\ default_ns "ns" (Some child_x) = Some child_x) /\
  ((get_ns no_ns =? "") && negb ("ns" =? "") && meta_ok no_ns = true) /\
  ((get_ns bad_meta =? "") && negb ("ns" =? "") && meta_ok bad_meta = false /\
   negb ((get_ns bad_meta =? "") && ("ns" =? "")) = true /\ default_ns "ns" (Some bad_meta) = Some bad_meta) /\
  ((get_ns no_ns =? "") && ("" =? "") = true /\ default_ns "" (Some no_ns) = Some no_ns).
Proof. vm_compute. repeat split; try reflexivity; discriminate. Qed.
