(* Non-vacuity evidence for Properties/C02.v: a concrete, realistic instance
   (a namespaced parent with three cached children: one to update, one to
   delete, one orphan to adopt, and one desired child to create) that meets
   every hypothesis of the C02 theorems at once, and the conclusions computed
   on the run of the model against a concrete API server / hook. *)
From MC Require Import Generated Model.Composite Model.TracePreds Model.Safe Proofs.SafeLemmas Proofs.C02Proofs.
Local Open Scope list_scope.

Module C02NV.
  Definition kid : child_cfg := mkChild "v1" "things" "Thing" true "InPlace".
  Definition cfg : ccfg :=
    mkCfg "cc" "ctl.example.com/v1" "Parent" "parents" true true true sel_everything [kid] true false
          [kid] false false [["spec"]] [].
  Definition parent : json :=
    JObj [("apiVersion", JStr "ctl.example.com/v1"); ("kind", JStr "Parent");
          ("metadata", JObj [("name", JStr "p"); ("namespace", JStr "ns"); ("uid", JStr "uid-p");
                             ("generation", JInt 2)]);
          ("spec", JObj [("replicas", JInt 2)])].
  Definition pref : json :=
    JObj [("apiVersion", JStr "ctl.example.com/v1"); ("blockOwnerDeletion", JBool true);
          ("controller", JBool true); ("kind", JStr "Parent"); ("name", JStr "p"); ("uid", JStr "uid-p")].
  Definition child (name uid : string) (owners : list json) (x : Z) : json :=
    JObj [("apiVersion", JStr "v1"); ("kind", JStr "Thing");
          ("metadata", JObj [("name", JStr name); ("namespace", JStr "ns"); ("uid", JStr uid);
                             ("labels", JObj [("controller-uid", JStr "uid-p")]);
                             ("ownerReferences", JArr owners)]);
          ("spec", JObj [("x", JInt x)])].
  Definition child_a := child "a" "uid-a" [pref] 1.     (* owned, differs from desired: updated *)
  Definition child_b := child "b" "uid-b" [pref] 1.     (* owned, no longer desired: deleted *)
  Definition child_o := child "o" "uid-o" [] 1.         (* matching orphan: adopted *)
  Definition desired (name : string) (x : Z) : json :=
    JObj [("apiVersion", JStr "v1"); ("kind", JStr "Thing");
          ("metadata", JObj [("name", JStr name)]); ("spec", JObj [("x", JInt x)])].
  Definition k0 : cache := mkCache (Some parent) [("things.v1", [child_a; child_b; child_o])].
  Definition hook_body : json :=
    JObj [("status", JObj [("ready", JInt 1)]);
          ("children", JArr [desired "a" 2; desired "c" 3; desired "o" 1])].

  (* a well-behaved API server and hook; the guard makes it sane by construction *)
  Definition base : env := fun _ cl =>
    match cl with
    | CHook _ _ => AHook hook_body
    | CApi q =>
        match q_verb q with
        | VGet => if String.eqb (q_res q) (p_res cfg) then AObj parent
                  else match find (fun o => String.eqb (get_name o) (q_name q)) (cached k0 (q_res q)) with
                       | Some o => AObj o | None => AFail ENotFound end
        | VDelete => AObj JNull
        | _ => AObj (q_body q)
        end
    end.
  Definition e0 : env := fun h cl =>
    let a := base h cl in if saneb cl a && hook_names_ok a then a else AFail EOther.

  Lemma saneb_sane cl a : saneb cl a = true -> sane cl a.
  Proof.
    destruct cl as [q|hk b]; destruct a; cbn; try exact (fun _ => I).
    destruct (q_verb q); try exact (fun _ => I); intro H;
      repeat (apply andb_prop in H; destruct H as [H ?]);
      repeat match goal with H : (_ =? _)%string = true |- _ => apply String.eqb_eq in H end.
    - split; assumption.
    - repeat split; try assumption.
      match goal with H : (_ || _) = true |- _ => apply orb_prop in H; destruct H as [H|H];
        apply String.eqb_eq in H; [left|right]; exact H end.
    - repeat split; try assumption.
      match goal with H : (_ || _) = true |- _ => apply orb_prop in H; destruct H as [H|H];
        apply String.eqb_eq in H; [left|right]; exact H end.
  Qed.

  Lemma e0_sane_names : forall h cl, sane_names cl (e0 h cl).
  Proof.
    intros h cl. unfold e0. destruct (saneb cl (base h cl) && hook_names_ok (base h cl)) eqn:E.
    - apply andb_prop in E. destruct E as [E1 E2]. split; [apply saneb_sane; exact E1|exact E2].
    - split; [destruct cl as [q|]; [cbn; destruct (q_verb q); exact I|exact I]|reflexivity].
  Qed.

  (* the delete and the create of the run, as requests *)
  Definition q_del : req := rq_delete "things.v1" "ns" "b" "uid-b".
  Definition q_create : req :=
    match find (fun ca => match fst ca with CApi q => verb_eqb (q_verb q) VCreate | _ => false end)
               (trace_of (sync cfg k0) e0) with
    | Some (CApi q, _) => q
    | _ => rq_get "" "" ""
    end.
End C02NV.
Import C02NV.

(* the six hypotheses of C02_calls_partial and of C02_strict, all at once, on a
   cache with an owned child to update, an owned child to delete and an orphan *)
Example C02_hyps_inhabited :
  k_parent k0 = Some parent /\ cfg_wf cfg = true /\ cache_wf cfg k0 = true /\
  get_uid parent <> "" /\ ssa cfg = false /\ cache_names_ok cfg k0 = true /\
  List.length (cached k0 "things.v1") = 3.
Proof. vm_compute. repeat split; try reflexivity. discriminate. Qed.

(* hence both theorems apply to the instance (their conclusions hold non-vacuously) *)
Example C02_theorems_apply :
  safe sane_names (fun _ cl => C02_call_ok cfg k0 parent cl = true) [] (sync cfg k0) /\
  safe sane_names (fun _ cl => call_strict cfg k0 parent cl = true) [] (sync cfg k0).
Proof.
  destruct C02_hyps_inhabited as (H1 & H2 & H3 & H4 & H5 & H6 & _).
  split; [exact (C02_calls_partial cfg k0 parent H1 H2 H3 H4 H5 H6)
         |exact (C02_strict cfg k0 parent H1 H2 H3 H4 H5 H6)].
Qed.

(* the conclusion is informative: the concrete run adopts, deletes, updates and
   creates, and every one of its calls is inside the envelope *)
Example C02_run_informative :
  let tr := trace_of (sync cfg k0) e0 in
  result_of (sync cfg k0) e0 = SDone /\
  map (fun ca => match fst ca with
                 | CApi q => (q_verb q, q_res q, q_name q, q_uid_pre q)
                 | CHook _ _ => (VGet, "hook", "", "") end) tr =
    [ (VGet, "parents.ctl.example.com/v1", "p", "");      (* canAdopt re-check *)
      (VGet, "things.v1", "o", ""); (VUpdate, "things.v1", "o", "");   (* adoption *)
      (VGet, "hook", "", "");
      (VDelete, "things.v1", "b", "uid-b");
      (VUpdate, "things.v1", "a", "");
      (VCreate, "things.v1", "c", "");
      (VUpdate, "things.v1", "o", "");                      (* last-applied recorded on the adoptee *)
      (VGet, "parents.ctl.example.com/v1", "p", "");
      (VUpdateStatus, "parents.ctl.example.com/v1", "p", "") ] /\
  (* a create whose body carries the controller reference of the parent *)
  existsb (fun ca => match fst ca with
                     | CApi q => verb_eqb (q_verb q) VCreate &&
                                 has_controller_ref_of (q_body q) "uid-p" && metadata_is_obj (q_body q)
                     | _ => false end) tr = true /\
  (* a delete with UID precondition and background propagation *)
  existsb (fun ca => match fst ca with
                     | CApi q => verb_eqb (q_verb q) VDelete && String.eqb (q_uid_pre q) "uid-b" &&
                                 String.eqb (q_prop q) "Background"
                     | _ => false end) tr = true /\
  forallb (fun ca => C02_call_ok cfg k0 parent (fst ca)) tr = true /\
  forallb (fun ca => call_strict cfg k0 parent (fst ca)) tr = true /\
  forallb (fun ca => saneb (fst ca) (snd ca) && hook_names_ok (snd ca)) tr = true.
Proof. vm_compute. repeat split; reflexivity. Qed.

(* C02_delete_guarded_sync: hypotheses met by the delete of the run; its conclusion computed *)
Example C02_delete_guarded_inhabited :
  In (CApi q_del) (map fst (trace_of (sync cfg k0) e0)) /\
  call_strict cfg k0 parent (CApi q_del) = true /\ q_verb q_del = VDelete /\
  q_uid_pre q_del <> "" /\ q_prop q_del = "Background" /\
  find_cached cfg k0 q_del = Some child_b /\ q_uid_pre q_del = get_uid child_b /\
  controlled_by child_b (get_uid parent) = true.
Proof. vm_compute. repeat split; try reflexivity; try discriminate. do 4 right. left. reflexivity. Qed.

(* C02_create_owned_sync: hypotheses met by the create of the run; the first disjunct holds *)
Example C02_create_owned_inhabited :
  In (CApi q_create) (map fst (trace_of (sync cfg k0) e0)) /\
  call_strict cfg k0 parent (CApi q_create) = true /\ q_verb q_create = VCreate /\
  q_name q_create = "c" /\
  has_controller_ref_of (q_body q_create) (get_uid parent) = true /\ metadata_is_obj (q_body q_create) = true.
Proof. vm_compute. repeat split; try reflexivity. do 6 right. left. reflexivity. Qed.

(* C02_run_soundness: G := sane_names, Phi := the C02 envelope, p := sync cfg k0, e := e0 *)
Example C02_run_soundness_inhabited :
  safe sane_names (fun _ cl => C02_call_ok cfg k0 parent cl = true) [] (sync cfg k0) /\
  (forall h cl, sane_names cl (e0 h cl)) /\
  Forall (fun hc : hist * call => C02_call_ok cfg k0 parent (snd hc) = true)
         (calls_with_history (fst (run (sync cfg k0) e0 []))) /\
  List.length (calls_with_history (fst (run (sync cfg k0) e0 []))) = 10.
Proof.
  split; [exact (proj1 C02_theorems_apply)|]. split; [exact e0_sane_names|].
  split; [|vm_compute; reflexivity].
  exact (safe_run sane_names _ e0 (sync cfg k0) (proj1 C02_theorems_apply) e0_sane_names).
Qed.
